(* C04: label re-use never attributes a PDU to a label the sender did not intend. Receiver-side
   characterisation of the label memory, then the lock-step invariant sender / receiver. No model code. *)
Require Import GSE.gen.Consts GSE.model.Base GSE.model.Types GSE.model.Header GSE.model.Ext GSE.model.Encap
  GSE.model.Memory GSE.model.Decap
  GSE.proofs.Tactics GSE.proofs.BaseLemmas GSE.proofs.HeaderLemmas GSE.proofs.EncapSpec GSE.proofs.EncapProps
  GSE.proofs.Policy GSE.proofs.MemoryLemmas GSE.proofs.DecapBase GSE.proofs.DecapSpec GSE.proofs.DecapProps
  GSE.proofs.RoundTrip GSE.proofs.FragTrip GSE.proofs.ExtSpec GSE.proofs.ExtTrip GSE.proofs.ExtProps.
Open Scope N_scope.
#[local] Opaque pkt_complete pkt_first pkt_end pkt_inter.

Lemma give_back_dlast s pb e n : dlast (fst (give_back_hl s pb e n)) = dlast s.
Proof. unfold give_back_hl. destruct (provision (dmem s) pb) as [m [me|]]; reflexivity. Qed.

(* label delivered by a result, if it is a start/complete/any Ok status *)
Definition res_label (r : dec_result) : option label :=
  match r with
  | inl (DCompleted _ md, _) | inl (DFragmented md, _) => Some (md_label md)
  | _ => None
  end.

Section RecvLabels.
Variable crc : list byte -> N -> N -> list byte -> N.
Variable mgr : N -> mand.

(* how a start/complete packet uses and updates the label memory: with `lab` the label read from the packet *)
Definition label_step (s : dstate) (t : ltype) (lab : label) (s' : dstate) (r : dec_result) : Prop :=
  (dlast s' = None /\ forall l, res_label r = Some l ->
       (t = TB /\ l = LBroadcast)) \/
  (exists l, res_label r = Some l /\ dlast s' = Some l /\
       ((t = T6 \/ t = T3) /\ l = lab \/ t = TR /\ dlast s = Some l)) \/
  (res_label r = None /\ (dlast s' = None \/ (exists l, dlast s' = Some l /\ ((t = T6 \/ t = T3) /\ l = lab \/ t = TR /\ dlast s = Some l)))).

Lemma resolve_hl_cases s t lab :
  match resolve_hl s t lab with
  | inr _ => t = TR
  | inl (s1, cur) => dmem s1 = dmem s /\
      ((t = TB /\ cur = LBroadcast /\ dlast s1 = None) \/
       ((t = T6 \/ t = T3) /\ cur = lab /\ dlast s1 = Some lab) \/
       (t = TR /\ dlast s = Some cur /\ s1 = s))
  end.
Proof.
  unfold resolve_hl. destruct t; cbn; auto 10.
  destruct (dlast s) as [[| | |]|] eqn:E; auto 10.
Qed.

Lemma complete_hl_labels s pkt t blen :
  let r := complete_hl mgr s pkt t blen in
  label_step s t (mk_label t (takeN (lt_len t) (dropN 4 pkt))) (fst r) (snd r).
Proof.
  cbv zeta. unfold complete_hl, err_last, label_step.
  destruct (_ <? _); [left; cbn; split; [reflexivity|discriminate]|]. cbv zeta.
  destruct (is_zero6 _); [left; cbn; split; [reflexivity|discriminate]|].
  destruct (walk_fn mgr _ _) as [w|[|]]; try (left; cbn; split; [reflexivity|discriminate]).
  set (lab := mk_label t (takeN (lt_len t) (dropN 4 pkt))).
  pose proof (resolve_hl_cases s t lab) as RC.
  destruct (resolve_hl s t lab) as [[s1 cur]|e]; [|left; cbn; split; [reflexivity|discriminate]].
  destruct RC as (Hm & RC).
  destruct (storages (dmem s1)) as [|pb rest]; [left; cbn; split; [reflexivity|discriminate]|].
  destruct (_ <? _); [left; cbn; split; [reflexivity|discriminate]|].
  cbn [fst snd res_label md_label dlast set_dmem].
  destruct RC as [(-> & -> & Hl)|[(Ht & -> & Hl)|(-> & Hl & ->)]].
  - left. split; [exact Hl|]. intros l [= <-]. auto.
  - right. left. exists lab. auto.
  - right. left. exists cur. auto.
Qed.

Lemma first_hl_labels s pkt t blen :
  let r := first_hl mgr s pkt t blen in
  label_step s t (mk_label t (takeN (lt_len t) (dropN 7 pkt))) (fst r) (snd r).
Proof.
  cbv zeta. unfold first_hl, err_last, label_step.
  destruct (_ <? _); [left; cbn; split; [reflexivity|discriminate]|]. cbv zeta.
  destruct (is_zero6 _); [left; cbn; split; [reflexivity|discriminate]|].
  set (lab := mk_label t (takeN (lt_len t) (dropN 7 pkt))).
  pose proof (resolve_hl_cases s t lab) as RC.
  destruct (resolve_hl s t lab) as [[s1 cur]|e]; [|left; cbn; split; [reflexivity|discriminate]].
  destruct RC as (Hm & RC).
  destruct (walk_fn mgr _ _) as [w|[|]]; try (left; cbn; split; [reflexivity|discriminate]).
  destruct (_ <=? _); [left; cbn; split; [reflexivity|discriminate]|].
  match goal with |- context [new_frag_fn (dmem s1) ?c] => destruct (new_frag_fn (dmem s1) c) as [m [[c' pb]|e]] eqn:En end;
    [|left; cbn; split; [reflexivity|discriminate]].
  assert (Ec : c' = {| c_label := cur; c_ptype := w_ptype w; c_fid := hd0 (dropN 2 pkt); c_total := rd16 (takeN 2 (dropN 3 pkt));
                       c_pdulen := lenN (dropN (7 + lt_len t + w_len w) pkt); c_reuse := ltype_eqb t TR; c_exts := w_exts w |}).
  { unfold new_frag_fn in En. destruct (_ =? 0); [discriminate|]. destruct (slot_of _ _) as [[? ?]|]; [now injection En as _ <- _|].
    destruct (storages (dmem s1)); [discriminate|now injection En as _ <- _]. }
  destruct (_ <? _).
  - (* storage too small: the label memory is cleared *)
    left. rewrite give_back_dlast. cbn [dlast set_dlast]. split; [reflexivity|].
    unfold give_back_hl. destruct (provision _ pb) as [m2 [me|]]; cbn; discriminate.
  - match goal with |- context [save_frag_fn m ?x] => destruct (save_frag_fn m x) as [m' [e|]] end;
      cbn [fst snd res_label md_label dlast set_dmem].
    + right. right. split; [reflexivity|].
      destruct RC as [(-> & -> & Hl)|[(Ht & -> & Hl)|(-> & Hl & ->)]]; [left; exact Hl|right; exists lab; auto|right; exists cur; auto].
    + subst c'. cbn [c_label].
      destruct RC as [(-> & -> & Hl)|[(Ht & -> & Hl)|(-> & Hl & ->)]].
      * left. split; [exact Hl|]. intros l [= <-]. auto.
      * right. left. exists lab. auto.
      * right. left. exists cur. auto.
Qed.

(* intermediate and end packets never write the label memory, except to clear it on a frame-level error *)
Lemma inter_hl_dlast s pkt blen : dlast (fst (inter_hl s pkt blen)) = dlast s \/ dlast (fst (inter_hl s pkt blen)) = None.
Proof.
  unfold inter_hl, err_last. destruct (_ <=? _); [right; reflexivity|]. cbv zeta. left.
  destruct (take_frag_fn _ _) as [m [[c pb]|e]]; [|reflexivity].
  destruct (_ || _); [now rewrite give_back_dlast|]. destruct (save_frag_fn _ _) as [m' [e|]]; reflexivity.
Qed.
Lemma end_hl_dlast s pkt blen : dlast (fst (end_hl crc s pkt blen)) = dlast s \/ dlast (fst (end_hl crc s pkt blen)) = None.
Proof.
  unfold end_hl, err_last. destruct (_ <? _); [right; reflexivity|]. cbv zeta. left.
  destruct (take_frag_fn _ _) as [m [[c pb]|e]]; [|reflexivity].
  destruct (_ <? _); [now rewrite give_back_dlast|]. destruct (negb (c_total c =? _)); [now rewrite give_back_dlast|].
  destruct (negb (_ =? _)); [now rewrite give_back_dlast|reflexivity].
Qed.

(* C04, receiver half, one call on arbitrary bytes: the label memory after the call is empty, or unchanged by an
   intermediate/end packet, or it is the label that the start/complete packet just processed carried (3/6-byte
   label) or resolved to (re-use, from the memory before the call); and a delivered re-use packet always carries
   exactly the remembered label *)
Theorem decap_hl_label_memory s buf :
  let s' := fst (decap_hl crc mgr s buf) in let r := snd (decap_hl crc mgr s buf) in
  dlast s' = None \/
  (dlast s' = dlast s /\ exists gl k t, hdr_view (rd16 (takeN 2 buf)) = Some (gl, k, t) /\ (k = KInter \/ k = KEnd)) \/
  (exists gl k t lab, hdr_view (rd16 (takeN 2 buf)) = Some (gl, k, t) /\ (k = KComplete \/ k = KFirst) /\
      label_step s t lab s' r).
Proof.
  cbv zeta. unfold decap_hl, err_last. destruct (lenN buf <? 2); [left; reflexivity|].
  destruct (hdr_view (rd16 (takeN 2 buf))) as [[[gl k] t]|] eqn:Ev; [|left; reflexivity].
  destruct (lenN buf <? gl + 2); [left; reflexivity|].
  destruct k.
  - right. right. eexists gl, KComplete, t, _. split; [reflexivity|]. split; [auto|]. apply complete_hl_labels.
  - right. right. eexists gl, KFirst, t, _. split; [reflexivity|]. split; [auto|]. apply first_hl_labels.
  - destruct (inter_hl_dlast s (takeN (gl + 2) buf) (lenN buf)) as [E|E]; [right; left|left]; [|exact E].
    split; [exact E|]. eauto 10.
  - destruct (end_hl_dlast s (takeN (gl + 2) buf) (lenN buf)) as [E|E]; [right; left|left]; [|exact E].
    split; [exact E|]. eauto 10.
Qed.

End RecvLabels.

(* ---------- sender and receiver in lock step ---------- *)
Section LockStep.
Variable crc : list byte -> N -> N -> list byte -> N.
Variable mgr : N -> mand.

(* the label the sender means for a start/complete packet: the label passed, or, for an explicitly passed re-use
   label, the label of the preceding start/complete packet (ghost `prev`) *)
Definition intended (g : ghost) (lab : label) : option label :=
  match lab with LReUse => prev g | _ => Some lab end.

(* the invariant: policy invariant of the sender, receiver well formed, and the receiver's label memory is either
   empty or exactly the label of the preceding start/complete packet *)
Definition J (S : enc_state) (g : ghost) (R : dstate) : Prop :=
  Inv S g /\ dstate_wf R /\ (dlast R = None \/ dlast R = prev g).

Lemma J_init slots maxpdu : J enc_new {| prev := None; run := 0 |} (dec_new slots maxpdu).
Proof. split; [apply Inv_init|]. split; [apply dstate_wf_mem, mem_ok_new|]. left. reflexivity. Qed.

(* the receiver's answer to a start/complete packet that carries the label written by check_label_re_use keeps the
   invariant and reports the intended label: independent of the rest of the packet (encap and encap_ext alike) *)
Lemma lockstep_classify S g R lab s1 l R' r : J S g R -> label_wf lab -> check_reuse_hl S lab = (s1, l) ->
  dstate_wf R' -> label_step R (label_type l) l R' r ->
  let '(_, ev) := pstep S (PEncap lab true) in
  let g' := gstep g (PEncap lab true) ev in
  J s1 g' R' /\ (forall l0, res_label r = Some l0 -> intended g lab = Some l0).
Proof.
  intros (HI & HR & HL) Hw Hc W LS.
  pose proof HI as (HS & Hprev & Hoff & Hrun).
  pose proof (Inv_step S g (PEncap lab true) HI Hw) as IS. cbn [pstep] in IS |- *.
  rewrite Hc in *. cbn [fst] in IS.
  (* classify the emitted packet *)
  destruct (check_reuse_full _ _ _ _ HS Hc) as (_ & _ & CF).
  destruct CF as [(-> & H36 & Hon & Hlast & _)|[(-> & H36 & _)|[(-> & -> & _)|(-> & -> & ->)]]].
  - (* substitution: the preceding packet carried lab *)
    assert (Ecl : classify lab LReUse = ESub lab) by (destruct lab; try contradiction; reflexivity).
    rewrite Ecl in *. cbn [gstep prev] in *. pose proof (Hprev _ Hlast) as Hp.
    assert (Hint : intended g lab = Some lab) by (destruct lab; try contradiction; reflexivity).
    cbn [label_type] in LS. unfold label_step in LS. unfold J; cbn [prev].
    destruct LS as [(Hn & Hres)|[(l0 & Hres & Hd & [[[?|?] _]|[_ Hold]])|(Hres & Hd)]]; try discriminate.
    + split; [split; [exact IS|split; [exact W|left; exact Hn]]|]. intros l0 Hl0. destruct (Hres _ Hl0) as [? _]; discriminate.
    + assert (l0 = lab) by (destruct HL as [HL|HL]; congruence). subst l0.
      split; [split; [exact IS|split; [exact W|right; congruence]]|]. intros l1 Hl1. congruence.
    + split; [|intros l1 Hl1; congruence]. split; [exact IS|split; [exact W|]].
      destruct Hd as [Hd|(l0 & Hd & [[[?|?] _]|[_ Hold]])]; try discriminate; [left; exact Hd|].
      right. destruct HL as [HL|HL]; congruence.
  - (* full 3/6-byte label *)
    assert (Ecl : classify lab lab = EFull lab).
    { destruct lab; try contradiction; unfold classify; (rewrite (proj2 (label_eqb_neq _ LReUse)) by discriminate); reflexivity. }
    rewrite Ecl in *. cbn [gstep prev] in *.
    assert (Hint : intended g lab = Some lab) by (destruct lab; try contradiction; reflexivity).
    assert (Hnr : label_type lab <> TR /\ label_type lab <> TB) by (destruct lab; try contradiction; split; discriminate).
    unfold label_step in LS. unfold J; cbn [prev].
    destruct LS as [(Hn & Hres)|[(l0 & Hres & Hd & [[_ ->]|[Ht _]])|(Hres & Hd)]]; try (now destruct Hnr).
    + split; [split; [exact IS|split; [exact W|left; exact Hn]]|]. intros l0 Hl0. destruct (Hres _ Hl0) as [? _]. now destruct Hnr.
    + split; [split; [exact IS|split; [exact W|right; exact Hd]]|]. intros l1 Hl1. congruence.
    + split; [|intros l1 Hl1; congruence]. split; [exact IS|split; [exact W|]].
      destruct Hd as [Hd|(l0 & Hd & [[_ ->]|[Ht _]])]; [left; exact Hd|right; exact Hd|now destruct Hnr].
  - (* broadcast *)
    cbn [classify gstep prev intended label_type] in *. unfold label_step in LS. unfold J; cbn [prev].
    destruct LS as [(Hn & Hres)|[(l0 & Hres & Hd & [[[?|?] _]|[? _]])|(Hres & Hd)]]; try discriminate.
    + split; [split; [exact IS|split; [exact W|left; exact Hn]]|]. intros l0 Hl0. destruct (Hres _ Hl0) as [_ ->]. reflexivity.
    + split; [|intros l1 Hl1; congruence]. split; [exact IS|split; [exact W|]].
      destruct Hd as [Hd|(l0 & Hd & [[[?|?] _]|[? _]])]; try discriminate. left; exact Hd.
  - (* re-use passed by the caller: stands for the preceding label *)
    cbn [classify gstep prev intended label_type] in *. unfold label_step in LS. unfold J; cbn [prev].
    destruct LS as [(Hn & Hres)|[(l0 & Hres & Hd & [[[?|?] _]|[_ Hold]])|(Hres & Hd)]]; try discriminate.
    + split; [split; [exact IS|split; [exact W|left; exact Hn]]|]. intros l0 Hl0. destruct (Hres _ Hl0) as [? _]; discriminate.
    + split; [split; [exact IS|split; [exact W|]]|].
      * right. destruct HL as [HL|HL]; congruence.
      * intros l1 Hl1. destruct HL as [HL|HL]; congruence.
    + split; [|intros l1 Hl1; congruence]. split; [exact IS|split; [exact W|]].
      destruct Hd as [Hd|(l0 & Hd & [[[?|?] _]|[_ Hold]])]; try discriminate; [left; exact Hd|].
      right. destruct HL as [HL|HL]; congruence.
Qed.

(* one start/complete packet of the sender, fed to the receiver *)
Lemma lockstep_encap S g R pdu fid pt lab buf S' buf' st : J S g R -> label_wf lab -> bytes_ok pdu -> fid < 256 ->
  1536 <= pt < 65536 ->
  encap crc S pdu fid pt lab buf = Ret (S', buf', inl st) ->
  let n := match st with Completed n | Fragmented n _ => n end in
  let '(_, ev) := pstep S (PEncap lab true) in
  let g' := gstep g (PEncap lab true) ev in
  exists R' r, decap crc mgr R (takeN n buf') = Ret (R', r) /\ J S' g' R' /\
    (forall l, res_label r = Some l -> intended g lab = Some l).
Proof.
  intros (HI & HR & HL) Hw Hpdu Hfid Hpt He.
  pose proof HI as (HS & Hprev & Hoff & Hrun).
  pose proof (encap_state crc S pdu fid pt lab buf S' buf' (inl st) HS Hw He) as (ES' & _).
  pose proof (Inv_step S g (PEncap lab true) HI Hw) as IS. cbn [pstep] in IS |- *.
  destruct (check_reuse_hl S lab) as [s1 l] eqn:Hc. cbn [fst] in ES'. subst S'.
  (* the packet *)
  rewrite encap_spec in He by assumption. injection He as He.
  destruct (encap_ok_guards crc _ _ _ _ _ _ _ _ _ He) as [Hzl _].
  pose proof (encap_hl_shape crc S pdu fid pt lab buf Hw) as Sh. rewrite He in Sh.
  pose proof (check_reuse_label_wf _ _ _ _ Hw Hc) as Hwl.
  pose proof (lt_len_label l Hwl) as Hll. pose proof (lt_len_le (label_type l)) as Hl6.
  assert (Hzl' : is_zero6 l = false).
  { pose proof Hc as Hc'. apply check_reuse_cases in Hc' as [(-> & _)|(-> & _)]; [reflexivity|exact Hzl]. }
  (* receiver side: label_step for this packet *)
  assert (STEP : exists R' r, decap crc mgr R (takeN (match st with Completed n | Fragmented n _ => n end) buf') = Ret (R', r)
                   /\ dstate_wf R' /\ label_step R (label_type l) l R' r).
  { remember (s1, buf', @inl enc_status enc_error st) as oo eqn:E.
    destruct Sh as [e|s1' l' Hc' Hf Hg|s1' l' pe Hc' Hpe Hb Hlt Hbig]; try discriminate E; injection E as E1 E2 E3;
      rewrite Hc in Hc'; injection Hc' as Es El; subst s1' l' buf' st.
    - rewrite takeN_app_eq by (now rewrite lenN_pkt_complete).
      assert (Hb : bytes_ok (pkt_complete l pt pdu)).
      { with_strategy transparent [pkt_complete] unfold pkt_complete. repeat (apply bytes_ok_app; split); auto using be16_ok, label_bytes_ok. }
      rewrite decap_spec by assumption.
      pose proof (decap_hl_wf crc mgr R _ HR Hb) as W.
      assert (DP1 : lenN (pkt_complete l pt pdu) = lenN pdu + lenN (label_bytes l) + 2 + 2) by (rewrite lenN_pkt_complete; lia).
      assert (DP2 : hdr_view (rd16 (takeN 2 (pkt_complete l pt pdu))) = Some (lenN pdu + lenN (label_bytes l) + 2, KComplete, label_type l)).
      { with_strategy transparent [pkt_complete] unfold pkt_complete. rewrite take2_be16, rd16_be16 by (apply hdr_arith_lt; lia).
        apply hdr_view_arith; [lia|intros [? _]; discriminate]. }
      pose proof (decap_hl_packet crc mgr R (pkt_complete l pt pdu) [] _ _ _ DP1 DP2) as DP.
      rewrite app_nil_r in DP. rewrite DP in *.
      pose proof (complete_hl_labels mgr R (pkt_complete l pt pdu) (label_type l) (lenN (pkt_complete l pt pdu) + lenN (@nil N))) as LS.
      cbv zeta in LS.
      replace (mk_label (label_type l) (takeN (lt_len (label_type l)) (dropN 4 (pkt_complete l pt pdu)))) with l in LS.
      2:{ with_strategy transparent [pkt_complete] unfold pkt_complete. rewrite Hll. replace (dropN 4 (be16 _ ++ be16 pt ++ label_bytes l ++ pdu)) with (label_bytes l ++ pdu).
          - rewrite takeN_app_eq by reflexivity. now rewrite mk_label_bytes.
          - rewrite app_assoc. symmetry. apply dropN_app_eq. reflexivity. }
      destruct (complete_hl mgr R (pkt_complete l pt pdu) (label_type l) _) as [R' r]. eauto.
    - rewrite takeN_app_eq by (rewrite lenN_pkt_first, lenN_takeN; lia).
      set (tl := lenN pdu + 2 + lenN (label_bytes l)).
      assert (Hb' : bytes_ok (pkt_first l fid tl pt (takeN pe pdu))) by (apply pkt_first_ok; auto; apply bytes_ok_takeN, Hpdu).
      rewrite decap_spec by assumption.
      pose proof (decap_hl_wf crc mgr R _ HR Hb') as W.
      assert (DP1 : lenN (pkt_first l fid tl pt (takeN pe pdu)) = 5 + lenN (label_bytes l) + pe + 2) by (rewrite lenN_pkt_first, lenN_takeN; lia).
      assert (DP2 : hdr_view (rd16 (takeN 2 (pkt_first l fid tl pt (takeN pe pdu)))) = Some (5 + lenN (label_bytes l) + pe, KFirst, label_type l)).
      { with_strategy transparent [pkt_first] unfold pkt_first. rewrite lenN_takeN. replace (N.min pe (lenN pdu)) with pe by lia.
        rewrite take2_be16, rd16_be16 by (apply hdr_arith_lt; lia). apply hdr_view_arith; [lia|intros [? _]; discriminate]. }
      pose proof (decap_hl_packet crc mgr R (pkt_first l fid tl pt (takeN pe pdu)) [] _ _ _ DP1 DP2) as DP.
      rewrite app_nil_r in DP. rewrite DP in *.
      pose proof (first_hl_labels mgr R (pkt_first l fid tl pt (takeN pe pdu)) (label_type l) (lenN (pkt_first l fid tl pt (takeN pe pdu)) + lenN (@nil N))) as LS.
      cbv zeta in LS.
      replace (mk_label (label_type l) (takeN (lt_len (label_type l)) (dropN 7 (pkt_first l fid tl pt (takeN pe pdu))))) with l in LS.
      2:{ with_strategy transparent [pkt_first] unfold pkt_first. rewrite Hll.
          replace (dropN 7 (be16 _ ++ [fid] ++ be16 tl ++ be16 pt ++ label_bytes l ++ takeN pe pdu)) with (label_bytes l ++ takeN pe pdu).
          - rewrite takeN_app_eq by reflexivity. now rewrite mk_label_bytes.
          - rewrite !app_assoc. rewrite <- (app_assoc _ (label_bytes l)). symmetry. apply dropN_app_eq. reflexivity. }
      destruct (first_hl mgr R (pkt_first l fid tl pt (takeN pe pdu)) (label_type l) _) as [R' r]. eauto. }
  destruct STEP as (R' & r & ED & W & LS). exists R', r. split; [exact ED|].
  pose proof (lockstep_classify S g R lab s1 l R' r (conj HI (conj HR HL)) Hw Hc W LS) as K. cbn [pstep] in K. rewrite Hc in K. exact K.
Qed.

End LockStep.

#[local] Opaque pkt_complete_x pkt_first_x.
Section LockStepExt.
Variable crc : list byte -> N -> N -> list byte -> N.
Variable mgr : N -> mand.

Lemma pkt_complete_x_label l id0 chain pdu : label_wf l ->
  mk_label (label_type l) (takeN (lt_len (label_type l)) (dropN 4 (pkt_complete_x l id0 chain pdu))) = l.
Proof.
  intro Hw. rewrite (lt_len_label l Hw). with_strategy transparent [pkt_complete_x] unfold pkt_complete_x.
  set (hdr := be16 _).
  replace (dropN 4 (hdr ++ be16 id0 ++ label_bytes l ++ chain ++ pdu)) with (label_bytes l ++ chain ++ pdu).
  - rewrite takeN_app_eq by reflexivity. apply mk_label_bytes.
  - replace (hdr ++ be16 id0 ++ label_bytes l ++ chain ++ pdu) with ((hdr ++ be16 id0) ++ label_bytes l ++ chain ++ pdu) by (now rewrite <- !app_assoc).
    symmetry. apply dropN_app_eq. reflexivity.
Qed.
Lemma pkt_first_x_label l fid tl id0 chain payload : label_wf l ->
  mk_label (label_type l) (takeN (lt_len (label_type l)) (dropN 7 (pkt_first_x l fid tl id0 chain payload))) = l.
Proof.
  intro Hw. rewrite (lt_len_label l Hw). with_strategy transparent [pkt_first_x] unfold pkt_first_x.
  set (hdr := be16 _).
  replace (dropN 7 (hdr ++ [fid] ++ be16 tl ++ be16 id0 ++ label_bytes l ++ chain ++ payload)) with (label_bytes l ++ chain ++ payload).
  - rewrite takeN_app_eq by reflexivity. apply mk_label_bytes.
  - replace (hdr ++ [fid] ++ be16 tl ++ be16 id0 ++ label_bytes l ++ chain ++ payload)
      with ((hdr ++ [fid] ++ be16 tl ++ be16 id0) ++ label_bytes l ++ chain ++ payload) by (now rewrite <- !app_assoc).
    symmetry. apply dropN_app_eq. reflexivity.
Qed.

(* one start/complete packet of encap_ext, fed to the receiver (any manager, any outcome at the receiver) *)
Lemma lockstep_encap_ext S g R pdu fid pt lab buf exts S' buf' st : J S g R -> label_wf lab -> bytes_ok pdu -> fid < 256 ->
  pt < 65536 -> Forall ext_built exts -> Forall (fun e => bytes_ok (ext_bytes e)) exts ->
  encap_ext crc S pdu fid pt lab buf exts = Ret (S', buf', inl st) ->
  let n := match st with Completed n | Fragmented n _ => n end in
  let '(_, ev) := pstep S (PEncap lab true) in
  let g' := gstep g (PEncap lab true) ev in
  exists R' r, decap crc mgr R (takeN n buf') = Ret (R', r) /\ J S' g' R' /\
    (forall l, res_label r = Some l -> intended g lab = Some l).
Proof.
  intros HJ Hw Hpdu Hfid Hpt Hb Hbo He. pose proof HJ as (HI & HR & HL). pose proof HI as (HS & _).
  assert (Hxw : Forall ext_wf exts) by (revert Hb; apply Forall_impl; exact ext_built_wf).
  rewrite encap_ext_spec in He by assumption. injection He as He.
  assert (Hfi : first_id exts pt < 65536) by (apply first_id_lt; assumption).
  destruct (check_reuse_hl S lab) as [s1 l] eqn:Hc.
  pose proof (check_reuse_label_wf _ _ _ _ Hw Hc) as Hwl.
  pose proof (lt_len_label l Hwl) as Hll. pose proof (lt_len_le (label_type l)) as Hl6.
  assert (STEP : S' = s1 /\ exists R' r, decap crc mgr R (takeN (match st with Completed n | Fragmented n _ => n end) buf') = Ret (R', r)
                   /\ dstate_wf R' /\ label_step R (label_type l) l R' r).
  { destruct st as [n|n c].
    - destruct (encap_ext_completed crc _ _ _ _ _ _ _ _ _ _ Hw He) as (_ & _ & HS' & Hb' & Hn & Hnb & Hg).
      rewrite Hc in *. cbn [fst snd] in *. split; [exact HS'|].
      set (chain := chain_bytes exts (pt <? 256) pt) in *. set (p := pkt_complete_x l (first_id exts pt) chain pdu) in *.
      assert (Lp : lenN p = n) by (subst p; rewrite (lenN_pkt_complete_x crc); lia).
      rewrite Hb', takeN_app_eq by lia.
      assert (Hbp : bytes_ok p) by (apply pkt_complete_x_ok; auto; now apply chain_bytes_ok).
      rewrite decap_spec by assumption. pose proof (decap_hl_wf crc mgr R _ HR Hbp) as W.
      assert (DP1 : lenN p = (lenN pdu + lenN (label_bytes l) + 2 + lenN chain) + 2) by lia.
      assert (DP2 : hdr_view (rd16 (takeN 2 p)) = Some (lenN pdu + lenN (label_bytes l) + 2 + lenN chain, KComplete, label_type l)).
      { subst p. with_strategy transparent [pkt_complete_x] unfold pkt_complete_x. rewrite take2_be16, rd16_be16 by (apply hdr_arith_lt; lia).
        apply hdr_view_arith; [lia|intros [? _]; discriminate]. }
      pose proof (decap_hl_packet crc mgr R p [] _ _ _ DP1 DP2) as DP. rewrite app_nil_r in DP. rewrite DP in *.
      pose proof (complete_hl_labels mgr R p (label_type l) (lenN p + lenN (@nil N))) as LS. cbv zeta in LS.
      subst p. rewrite pkt_complete_x_label in LS by assumption.
      destruct (complete_hl mgr R _ (label_type l) _) as [R' r]. eauto.
    - destruct (encap_ext_fragmented crc _ _ _ _ _ _ _ _ _ _ _ Hw He) as (_ & _ & HS' & Hb' & _ & Hn & Hnb & Hlt & Htl & Hg).
      rewrite Hc in *. cbn [fst snd] in *. split; [exact HS'|].
      set (chain := chain_bytes exts (pt <? 256) pt) in *. set (tl := lenN pdu + 2 + lenN (label_bytes l)) in *.
      set (p := pkt_first_x l fid tl (first_id exts pt) chain (takeN (cf_len c) pdu)) in *.
      assert (Lt : lenN (takeN (cf_len c) pdu) = cf_len c) by (rewrite lenN_takeN; lia).
      assert (Lp : lenN p = n) by (subst p; rewrite (lenN_pkt_first_x crc), Lt; lia).
      rewrite Hb', takeN_app_eq by lia.
      assert (Hbp : bytes_ok p) by (apply pkt_first_x_ok; auto; [now apply chain_bytes_ok|now apply bytes_ok_takeN]).
      rewrite decap_spec by assumption. pose proof (decap_hl_wf crc mgr R _ HR Hbp) as W.
      assert (DP1 : lenN p = (5 + lenN (label_bytes l) + lenN chain + cf_len c) + 2) by lia.
      assert (DP2 : hdr_view (rd16 (takeN 2 p)) = Some (5 + lenN (label_bytes l) + lenN chain + cf_len c, KFirst, label_type l)).
      { subst p. with_strategy transparent [pkt_first_x] unfold pkt_first_x. rewrite Lt. rewrite take2_be16, rd16_be16 by (apply hdr_arith_lt; lia).
        apply hdr_view_arith; [lia|intros [? _]; discriminate]. }
      pose proof (decap_hl_packet crc mgr R p [] _ _ _ DP1 DP2) as DP. rewrite app_nil_r in DP. rewrite DP in *.
      pose proof (first_hl_labels mgr R p (label_type l) (lenN p + lenN (@nil N))) as LS. cbv zeta in LS.
      subst p. rewrite pkt_first_x_label in LS by assumption.
      destruct (first_hl mgr R _ (label_type l) _) as [R' r]. eauto. }
  destruct STEP as (-> & R' & r & ED & W & LS). cbn [pstep]. rewrite Hc. exists R', r. split; [exact ED|].
  pose proof (lockstep_classify S g R lab s1 l R' r HJ Hw Hc W LS) as K. cbn [pstep] in K. rewrite Hc in K. exact K.
Qed.
End LockStepExt.

(* ---------- histories ---------- *)
Section Histories.
Variable crc : list byte -> N -> N -> list byte -> N.
Variable mgr : N -> mand.

Inductive sop :=
  | SEncap (pdu : list byte) (fid pt : N) (lab : label) (buf : list byte)   (* encap; the packet, if any, is delivered *)
  | SEncapExt (pdu : list byte) (fid pt : N) (lab : label) (buf : list byte) (exts : list ext)   (* encap_ext, likewise *)
  | SCont (p : list byte)            (* an intermediate / end packet (encap_frag output) is delivered *)
  | SReset                           (* frame boundary: label memories reset on both sides *)
  | SDisable | SEnable | SEnableMax (m : N)
  | SProv (b : sbuf) | SNewPdu.      (* storage management at the receiver *)

Definition sop_ok (o : sop) : Prop :=
  match o with
  | SEncap pdu fid pt lab _ => label_wf lab /\ bytes_ok pdu /\ fid < 256 /\ 1536 <= pt < 65536
  | SEncapExt pdu fid pt lab _ exts => label_wf lab /\ bytes_ok pdu /\ fid < 256 /\ pt < 65536 /\
                                       Forall ext_built exts /\ Forall (fun e => bytes_ok (ext_bytes e)) exts
  | SCont p => bytes_ok p /\ exists gl k t, hdr_view (rd16 (takeN 2 p)) = Some (gl, k, t) /\ (k = KInter \/ k = KEnd)
  | SEnableMax m => m < 256
  | _ => True
  end.

(* one step; reports (intended label, delivered label) for every PDU or fragment status obtained from a
   start/complete packet *)
Definition sstep (w : enc_state * ghost * dstate) (o : sop)
  : res (enc_state * ghost * dstate * list (option label * label)) :=
  let '(St, g, R) := w in
  match o with
  | SEncap pdu fid pt lab buf =>
    do '(S', buf', r) <- encap crc St pdu fid pt lab buf;
    match r with
    | inr _ => Ret (S', g, R, [])
    | inl st =>
      let n := match st with Completed n | Fragmented n _ => n end in
      let g' := gstep g (PEncap lab true) (snd (pstep St (PEncap lab true))) in
      do '(R', dr) <- decap crc mgr R (takeN n buf');
      Ret (S', g', R', match res_label dr with Some l => [(intended g lab, l)] | None => [] end)
    end
  | SEncapExt pdu fid pt lab buf exts =>
    do '(S', buf', r) <- encap_ext crc St pdu fid pt lab buf exts;
    match r with
    | inr _ => Ret (S', g, R, [])
    | inl st =>
      let n := match st with Completed n | Fragmented n _ => n end in
      let g' := gstep g (PEncap lab true) (snd (pstep St (PEncap lab true))) in
      do '(R', dr) <- decap crc mgr R (takeN n buf');
      Ret (S', g', R', match res_label dr with Some l => [(intended g lab, l)] | None => [] end)
    end
  | SCont p => do '(R', _) <- decap crc mgr R p; Ret (St, g, R', [])
  | SReset => Ret (enc_reset St, gstep g PReset None, dec_reset R, [])
  | SDisable => Ret (enc_disable St, gstep g PDisable None, R, [])
  | SEnable => Ret (enc_enable St, gstep g PEnable None, R, [])
  | SEnableMax m => Ret (enc_enable_max St m, gstep g (PEnableMax m) None, R, [])
  | SProv b => Ret (St, g, fst (dec_provision R b), [])
  | SNewPdu => Ret (St, g, fst (dec_new_pdu R), [])
  end.
Fixpoint srun (w : enc_state * ghost * dstate) (os : list sop)
  : res (enc_state * ghost * dstate * list (option label * label)) :=
  match os with
  | [] => Ret (w, [])
  | o :: t => do '(w', d) <- sstep w o; do '(w'', ds) <- srun w' t; Ret (w'', d ++ ds)
  end.

Lemma sstep_J S g R o : J S g R -> sop_ok o ->
  exists S' g' R' d, sstep (S, g, R) o = Ret (S', g', R', d) /\ J S' g' R' /\ Forall (fun p => fst p = Some (snd p)) d.
Proof.
  intros HJ Hok. pose proof HJ as (HI & HR & HL). pose proof HI as (HS & _).
  destruct o as [pdu fid pt lab buf|pdu fid pt lab buf exts|p| | | |m|b|]; cbn [sstep sop_ok] in *.
  - destruct Hok as (Hw & Hpdu & Hfid & Hpt).
    destruct (encap_total crc S pdu fid pt lab buf HS Hw) as ([[S' buf'] r] & E). rewrite E. cbn [bind].
    destruct r as [st|e].
    + pose proof (lockstep_encap crc mgr S g R pdu fid pt lab buf S' buf' st HJ Hw Hpdu Hfid Hpt E) as L. cbv zeta in L.
      destruct (pstep S (PEncap lab true)) as [s1 ev] eqn:Ep. cbn [snd].
      destruct L as (R' & r & ED & HJ' & Hlab). rewrite ED. cbn [bind].
      eexists _, _, _, _. split; [reflexivity|]. split; [exact HJ'|].
      destruct (res_label r) as [l|]; [|constructor]. constructor; [|constructor]. cbn [fst snd]. now apply Hlab.
    + destruct (encap_atomic crc S pdu fid pt lab buf S' buf' e HS Hw E) as [-> _].
      eexists _, _, _, _. split; [reflexivity|]. split; [exact HJ|constructor].
  - destruct Hok as (Hw & Hpdu & Hfid & Hpt & Hx & Hxo).
    assert (Hxw : Forall ext_wf exts) by (revert Hx; apply Forall_impl; exact ext_built_wf).
    rewrite encap_ext_spec by assumption. cbn [bind].
    destruct (encap_ext_hl crc S pdu fid pt lab buf exts) as [[S' buf'] r] eqn:E.
    assert (E' : encap_ext crc S pdu fid pt lab buf exts = Ret (S', buf', r)) by (rewrite encap_ext_spec by assumption; now rewrite E).
    destruct r as [st|e].
    + pose proof (lockstep_encap_ext crc mgr S g R pdu fid pt lab buf exts S' buf' st HJ Hw Hpdu Hfid Hpt Hx Hxo E') as L. cbv zeta in L.
      destruct (pstep S (PEncap lab true)) as [s1 ev] eqn:Ep. cbn [snd].
      destruct L as (R' & r & ED & HJ' & Hlab). rewrite ED. cbn [bind].
      eexists _, _, _, _. split; [reflexivity|]. split; [exact HJ'|].
      destruct (res_label r) as [l|]; [|constructor]. constructor; [|constructor]. cbn [fst snd]. now apply Hlab.
    + destruct (encap_ext_hl_err crc S pdu fid pt lab buf exts S' buf' e E) as [-> _].
      eexists _, _, _, _. split; [reflexivity|]. split; [exact HJ|constructor].
  - destruct Hok as (Hb & gl & k & t & Hv & Hk). rewrite decap_spec by assumption.
    pose proof (decap_hl_wf crc mgr R p HR Hb) as W. pose proof (decap_hl_label_memory crc mgr R p) as LM. cbv zeta in LM.
    destruct (decap_hl crc mgr R p) as [R' r]. cbn [bind fst snd] in *.
    eexists _, _, _, _. split; [reflexivity|]. split; [|constructor]. split; [exact HI|split; [exact W|]].
    destruct LM as [Hn|[(Hsame & _)|(gl' & k' & t' & lab' & Hv' & Hk' & _)]].
    + left. exact Hn.
    + rewrite Hsame. exact HL.
    + rewrite Hv in Hv'. injection Hv' as <- <- <-. destruct Hk as [->| ->]; destruct Hk'; discriminate.
  - eexists _, _, _, _. split; [reflexivity|]. split; [|constructor].
    pose proof (Inv_step S g PReset HI I) as IS. cbn [pstep] in IS. split; [exact IS|]. split; [exact HR|]. left. reflexivity.
  - eexists _, _, _, _. split; [reflexivity|]. split; [|constructor].
    pose proof (Inv_step S g PDisable HI I) as IS. cbn [pstep] in IS. split; [exact IS|]. split; [exact HR|exact HL].
  - eexists _, _, _, _. split; [reflexivity|]. split; [|constructor].
    pose proof (Inv_step S g PEnable HI I) as IS. cbn [pstep] in IS. split; [exact IS|]. split; [exact HR|exact HL].
  - eexists _, _, _, _. split; [reflexivity|]. split; [|constructor].
    pose proof (Inv_step S g (PEnableMax m) HI Hok) as IS. cbn [pstep] in IS. split; [exact IS|]. split; [exact HR|exact HL].
  - destruct (dec_provision_wf R b HR) as [W E]. eexists _, _, _, _. split; [reflexivity|]. split; [|constructor].
    split; [exact HI|split; [exact W|now rewrite E]].
  - destruct (dec_new_pdu_wf R HR) as [W E]. eexists _, _, _, _. split; [reflexivity|]. split; [|constructor].
    split; [exact HI|split; [exact W|now rewrite E]].
Qed.

Theorem srun_attribution os : forall S g R, J S g R -> Forall sop_ok os ->
  exists S' g' R' ds, srun (S, g, R) os = Ret (S', g', R', ds) /\ J S' g' R' /\ Forall (fun p => fst p = Some (snd p)) ds.
Proof.
  induction os as [|o t IH]; intros S g R HJ Hok; cbn [srun].
  - eexists _, _, _, _. split; [reflexivity|]. split; [exact HJ|constructor].
  - inversion Hok; subst. destruct (sstep_J S g R o HJ ltac:(assumption)) as (S1 & g1 & R1 & d & E & HJ1 & Hd).
    rewrite E. cbn [bind]. destruct (IH S1 g1 R1 HJ1 ltac:(assumption)) as (S' & g' & R' & ds & E' & HJ' & Hds).
    rewrite E'. cbn [bind]. eexists _, _, _, _. split; [reflexivity|]. split; [exact HJ'|]. apply Forall_app. auto.
Qed.

End Histories.
