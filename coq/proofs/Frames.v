(* C10: well-framed packets are decapsulated independently of what follows them; frames are walked by
   consumed lengths; sender packets are well framed and never read as padding. No model code. *)
Require Import GSE.gen.Consts GSE.model.Base GSE.model.Types GSE.model.Header GSE.model.Ext GSE.model.Encap
  GSE.model.Memory GSE.model.Decap
  GSE.proofs.Tactics GSE.proofs.BaseLemmas GSE.proofs.HeaderLemmas GSE.proofs.EncapSpec GSE.proofs.EncapProps
  GSE.proofs.MemoryLemmas GSE.proofs.DecapBase GSE.proofs.DecapSpec GSE.proofs.DecapProps GSE.proofs.RoundTrip
  GSE.proofs.FragTrip.
Open Scope N_scope.

Section Frames.
Variable crc : list byte -> N -> N -> list byte -> N.
Variable mgr : N -> mand.

(* a packet whose own bytes are consistent: exactly GSE length + 2 bytes, the per-kind minimum sizes hold, the
   extension chain stays inside the packet, and a first fragment announces more than it carries *)
Definition well_framed (p : list byte) : Prop :=
  match hdr_view (rd16 (takeN 2 p)) with
  | None => False
  | Some (gl, k, t) =>
    lenN p = gl + 2 /\
    match k with
    | KComplete => lt_len t + 2 <= gl /\
                   walk_fn mgr (dropN (4 + lt_len t) p) (rd16 (takeN 2 (dropN 2 p))) <> inr WBufferTooSmall
    | KFirst => lt_len t + 5 <= gl /\
                match walk_fn mgr (dropN (7 + lt_len t) p) (rd16 (takeN 2 (dropN 5 p))) with
                | inr WBufferTooSmall => False
                | inr WUnknownMandatory => True
                | inl w => lenN (dropN (7 + lt_len t + w_len w) p) < rd16 (takeN 2 (dropN 3 p))
                end
    | KInter => 2 <= gl
    | KEnd => 5 <= gl
    end
  end.

Lemma complete_hl_blen s p t b1 b2 : lt_len t + 2 <= lenN p - 2 ->
  walk_fn mgr (dropN (4 + lt_len t) p) (rd16 (takeN 2 (dropN 2 p))) <> inr WBufferTooSmall ->
  complete_hl mgr s p t b1 = complete_hl mgr s p t b2.
Proof.
  intros H1 H2. unfold complete_hl. destruct (N.ltb_spec (lenN p - 2) (lt_len t + 2)); [lia|]. cbv zeta.
  destruct (is_zero6 _); [reflexivity|].
  destruct (walk_fn mgr _ _) as [w|[|]]; [reflexivity|reflexivity|contradiction].
Qed.
Lemma first_hl_blen s p t b1 b2 : lt_len t + 5 <= lenN p - 2 ->
  match walk_fn mgr (dropN (7 + lt_len t) p) (rd16 (takeN 2 (dropN 5 p))) with
  | inr WBufferTooSmall => False
  | inr WUnknownMandatory => True
  | inl w => lenN (dropN (7 + lt_len t + w_len w) p) < rd16 (takeN 2 (dropN 3 p))
  end ->
  first_hl mgr s p t b1 = first_hl mgr s p t b2.
Proof.
  intros H1 H2. unfold first_hl. destruct (N.ltb_spec (lenN p - 2) (lt_len t + 5)); [lia|]. cbv zeta.
  destruct (is_zero6 _); [reflexivity|].
  destruct (resolve_hl s t _) as [[s1 cur]|e]; [|reflexivity].
  destruct (walk_fn mgr _ _) as [w|[|]]; [|reflexivity|contradiction].
  destruct (N.leb_spec (rd16 (takeN 2 (dropN 3 p))) (lenN (dropN (7 + lt_len t + w_len w) p))); [lia|reflexivity].
Qed.
Lemma inter_hl_blen s p b1 b2 : 2 <= lenN p - 2 -> inter_hl s p b1 = inter_hl s p b2.
Proof. intro H. unfold inter_hl. destruct (N.leb_spec (lenN p - 2) 1); [lia|reflexivity]. Qed.
Lemma end_hl_blen s p b1 b2 : 5 <= lenN p - 2 -> end_hl crc s p b1 = end_hl crc s p b2.
Proof. intro H. unfold end_hl. destruct (N.ltb_spec (lenN p - 2) 5); [lia|reflexivity]. Qed.

(* the outcome of a well-framed packet does not depend on the bytes that follow it *)
Theorem tail_independent s p tail : well_framed p ->
  decap_hl crc mgr s (p ++ tail) = decap_hl crc mgr s p.
Proof.
  unfold well_framed. destruct (hdr_view (rd16 (takeN 2 p))) as [[[gl k] t]|] eqn:Ev; [|contradiction].
  intros (Hl & Hk).
  rewrite (decap_hl_packet crc mgr s p tail gl k t Hl Ev).
  pose proof (decap_hl_packet crc mgr s p [] gl k t Hl Ev) as E0. rewrite app_nil_r in E0. rewrite E0. clear E0.
  destruct k.
  - destruct Hk. apply complete_hl_blen; [lia|assumption].
  - destruct Hk. apply first_hl_blen; [lia|assumption].
  - apply inter_hl_blen. lia.
  - apply end_hl_blen. lia.
Qed.

(* ... and it consumes exactly its own length, whatever the outcome *)
Lemma give_back_consumed' s pb e n : consumed (snd (give_back_hl s pb e n)) = n.
Proof. unfold give_back_hl. destruct (provision (dmem s) pb) as [m [me|]]; reflexivity. Qed.

Theorem well_framed_consumed s p : well_framed p -> consumed (snd (decap_hl crc mgr s p)) = lenN p.
Proof.
  unfold well_framed. destruct (hdr_view (rd16 (takeN 2 p))) as [[[gl k] t]|] eqn:Ev; [|contradiction].
  intros (Hl & Hk). pose proof (decap_hl_packet crc mgr s p [] gl k t Hl Ev) as E0. rewrite app_nil_r in E0. rewrite E0. clear E0.
  destruct k.
  - destruct Hk as [H1 H2]. unfold complete_hl, err_last. destruct (N.ltb_spec (lenN p - 2) (lt_len t + 2)); [lia|]. cbv zeta.
    destruct (is_zero6 _); [reflexivity|]. destruct (walk_fn mgr _ _) as [w|[|]]; [|reflexivity|contradiction].
    destruct (resolve_hl s t _) as [[s1 cur]|e]; [|reflexivity].
    destruct (storages (dmem s1)); [reflexivity|]. destruct (_ <? _); reflexivity.
  - destruct Hk as [H1 H2]. unfold first_hl, err_last. destruct (N.ltb_spec (lenN p - 2) (lt_len t + 5)); [lia|]. cbv zeta.
    destruct (is_zero6 _); [reflexivity|]. destruct (resolve_hl s t _) as [[s1 cur]|e]; [|reflexivity].
    destruct (walk_fn mgr _ _) as [w|[|]]; [|reflexivity|contradiction].
    destruct (N.leb_spec (rd16 (takeN 2 (dropN 3 p))) (lenN (dropN (7 + lt_len t + w_len w) p))); [lia|].
    destruct (new_frag_fn _ _) as [m [[c' pb]|e]]; [|reflexivity].
    destruct (_ <? _); [apply give_back_consumed'|]. destruct (save_frag_fn _ _) as [m' [e|]]; reflexivity.
  - unfold inter_hl, err_last. destruct (N.leb_spec (lenN p - 2) 1); [lia|]. cbv zeta.
    destruct (take_frag_fn _ _) as [m [[c pb]|e]]; [|reflexivity].
    destruct (_ || _); [apply give_back_consumed'|]. destruct (save_frag_fn _ _) as [m' [e|]]; reflexivity.
  - unfold end_hl, err_last. destruct (N.ltb_spec (lenN p - 2) 5); [lia|]. cbv zeta.
    destruct (take_frag_fn _ _) as [m [[c pb]|e]]; [|reflexivity].
    destruct (_ <? _); [apply give_back_consumed'|].
    destruct (negb (c_total c =? _)); [apply give_back_consumed'|].
    destruct (negb (_ =? _)); [apply give_back_consumed'|reflexivity].
Qed.

(* ---------- walking a frame ---------- *)
Fixpoint frame_walk (fuel : nat) (s : dstate) (buf : list byte) : res (dstate * list dec_result) :=
  match fuel with
  | O => Ret (s, [])
  | S f =>
    if lenN buf =? 0 then Ret (s, []) else
    do '(s', r) <- decap crc mgr s buf;
    do '(s'', rs) <- frame_walk f s' (dropN (consumed r) buf);
    Ret (s'', r :: rs)
  end.

Lemma zeros_ok n : bytes_ok (zeros n).
Proof. unfold zeros. induction n as [|n IH] using N.peano_ind.
  - rewrite N.recursion_0. constructor.
  - rewrite N.recursion_succ by (try reflexivity; intros ? ? -> ? ? ->; reflexivity). constructor; [lia|exact IH]. Qed.
Lemma zeros_succ n : zeros (N.succ n) = 0 :: zeros n.
Proof. unfold zeros. now rewrite N.recursion_succ by (try reflexivity; intros ? ? -> ? ? ->; reflexivity). Qed.

Lemma decap_padding s m : 2 <= m -> decap_hl crc mgr s (zeros m) = (set_dlast s None, inl (DPadding, m)).
Proof.
  intro H. unfold decap_hl. rewrite lenN_zeros. destruct (N.ltb_spec m 2); [lia|].
  replace m with (N.succ (N.succ (m - 2))) by lia. rewrite !zeros_succ.
  rewrite takeN_cons by lia. rewrite takeN_cons by lia. change (2 - 1 - 1) with 0. rewrite takeN_0. reflexivity.
Qed.

Theorem frame_walk_packets : forall ps s m, Forall well_framed ps -> Forall bytes_ok ps -> dstate_wf s -> m <> 1 ->
  exists s' rs, recv_run crc mgr s ps = Ret (s', rs) /\
    frame_walk (S (length ps)) s (concat ps ++ zeros m) =
      Ret (if m =? 0 then s' else set_dlast s' None, rs ++ (if m =? 0 then [] else [inl (DPadding, m)])).
Proof.
  induction ps as [|p t IH]; intros s m Hwf Hb Hs Hm.
  - exists s, []. split; [reflexivity|]. cbn [concat app length frame_walk]. rewrite lenN_zeros.
    destruct (N.eqb_spec m 0) as [->|Hz]; [reflexivity|].
    rewrite decap_spec by (auto using zeros_ok). rewrite decap_padding by lia. cbn [bind consumed].
    reflexivity.
  - inversion Hwf as [|? ? Hp Ht]; subst. inversion Hb as [|? ? Hbp Hbt]; subst.
    cbn [concat recv_run length]. rewrite <- app_assoc.
    assert (Hbr : bytes_ok (p ++ concat t ++ zeros m)).
    { apply bytes_ok_app. split; [assumption|]. apply bytes_ok_app. split; [|apply zeros_ok].
      clear -Hbt. induction Hbt; cbn [concat]; [constructor|]. apply bytes_ok_app. auto. }
    remember (S (length t)) as f. cbn [frame_walk]. subst f.
    assert (Hlp : 2 <= lenN p).
    { unfold well_framed in Hp. destruct (hdr_view _) as [[[gl k] tt]|]; [|contradiction]. destruct Hp. lia. }
    rewrite lenN_app. destruct (N.eqb_spec (lenN p + lenN (concat t ++ zeros m)) 0); [lia|].
    rewrite !decap_spec by assumption. rewrite tail_independent by assumption.
    pose proof (well_framed_consumed s p Hp) as Hc. pose proof (decap_hl_wf crc mgr s p Hs Hbp) as Hw'.
    destruct (decap_hl crc mgr s p) as [s1 r1]. cbn [bind fst snd] in *.
    rewrite Hc, dropN_app_eq by reflexivity.
    destruct (IH s1 m Ht Hbt Hw' Hm) as (s' & rs & Er & Ef). rewrite Er, Ef. cbn [bind].
    exists s', (r1 :: rs). split; reflexivity.
Qed.

(* ---------- sender packets are well framed and never read as padding ---------- *)
Lemma wf_complete l pt pdu : label_wf l -> 1536 <= pt < 65536 -> lenN pdu + lenN (label_bytes l) + 2 < 4096 ->
  well_framed (pkt_complete l pt pdu).
Proof.
  intros Hw Hpt Hl. unfold well_framed.
  assert (Hv : hdr_view (rd16 (takeN 2 (pkt_complete l pt pdu))) = Some (lenN pdu + lenN (label_bytes l) + 2, KComplete, label_type l)).
  { unfold pkt_complete. rewrite take2_be16, rd16_be16 by (apply hdr_arith_lt; lia). apply hdr_view_arith; [lia|]. intros [? _]; discriminate. }
  rewrite Hv. rewrite lenN_pkt_complete, (lt_len_label l Hw). split; [lia|]. split; [lia|].
  unfold pkt_complete. rewrite drop2_be16, take2_be16, rd16_be16 by lia. rewrite walk_fn_noext by lia. discriminate.
Qed.
Lemma wf_inter fid payload : 1 <= lenN payload <= 4094 -> well_framed (pkt_inter fid payload).
Proof.
  intros Hp. unfold well_framed.
  assert (Hv : hdr_view (rd16 (takeN 2 (pkt_inter fid payload))) = Some (1 + lenN payload, KInter, TR)).
  { unfold pkt_inter. rewrite take2_be16, rd16_be16 by (apply hdr_arith_lt; lia). apply hdr_view_arith; [lia|]. intros [_ ?]; discriminate. }
  rewrite Hv, lenN_pkt_inter. split; lia.
Qed.
Lemma wf_end fid payload c : lenN payload <= 4090 -> well_framed (pkt_end fid payload c).
Proof.
  intros Hp. unfold well_framed.
  assert (Hv : hdr_view (rd16 (takeN 2 (pkt_end fid payload c))) = Some (5 + lenN payload, KEnd, TR)).
  { unfold pkt_end. rewrite take2_be16, rd16_be16 by (apply hdr_arith_lt; lia). apply hdr_view_arith; [lia|]. intros [? _]; discriminate. }
  rewrite Hv, lenN_pkt_end. split; lia.
Qed.
Lemma wf_first l fid tl pt payload : label_wf l -> 1536 <= pt < 65536 -> tl < 65536 -> lenN payload < tl ->
  5 + lenN (label_bytes l) + lenN payload < 4096 -> well_framed (pkt_first l fid tl pt payload).
Proof.
  intros Hw Hpt Htl Hlt Hl. unfold well_framed.
  assert (Hv : hdr_view (rd16 (takeN 2 (pkt_first l fid tl pt payload))) = Some (5 + lenN (label_bytes l) + lenN payload, KFirst, label_type l)).
  { unfold pkt_first. rewrite take2_be16, rd16_be16 by (apply hdr_arith_lt; lia). apply hdr_view_arith; [lia|]. intros [? _]; discriminate. }
  rewrite Hv, lenN_pkt_first, (lt_len_label l Hw). split; [lia|]. split; [lia|].
  unfold pkt_first.
  set (hdr := be16 (hdr_arith KFirst (label_type l) (5 + lenN (label_bytes l) + lenN payload))).
  set (whole := hdr ++ [fid] ++ be16 tl ++ be16 pt ++ label_bytes l ++ payload).
  assert (D3 : dropN 3 whole = be16 tl ++ be16 pt ++ label_bytes l ++ payload).
  { replace whole with ((hdr ++ [fid]) ++ be16 tl ++ be16 pt ++ label_bytes l ++ payload) by (subst whole; now rewrite <- !app_assoc).
    apply dropN_app_eq. reflexivity. }
  assert (D5 : dropN 5 whole = be16 pt ++ label_bytes l ++ payload).
  { replace whole with ((hdr ++ [fid] ++ be16 tl) ++ be16 pt ++ label_bytes l ++ payload) by (subst whole; now rewrite <- !app_assoc).
    apply dropN_app_eq. reflexivity. }
  rewrite D3, D5, !take2_be16, !rd16_be16 by lia. rewrite walk_fn_noext by lia. cbn [w_len].
  replace (dropN (7 + lenN (label_bytes l) + 0) whole) with payload; [exact Hlt|].
  replace whole with ((hdr ++ [fid] ++ be16 tl ++ be16 pt ++ label_bytes l) ++ payload) by (subst whole; now rewrite <- !app_assoc).
  symmetry. apply dropN_app_eq. rewrite !lenN_app. subst hdr. rewrite !lenN_be16. change (lenN [fid]) with 1. lia.
Qed.

End Frames.
