(* Encapsulator (src/gse_encap/mod.rs), statement by statement. State- and buffer-mutating
   functions return the new state / buffer. `as u16` casts are explicit (u16). *)
Require Import GSE.gen.Consts GSE.model.Base GSE.model.Types GSE.model.Header GSE.model.Ext.
Open Scope N_scope.

Record enc_state := { re_on : bool; re_max : N; re_cur : N; last : option label }.
Record ctxfrag := { cf_id : N; cf_crc : N; cf_len : N }.
Inductive enc_status := Completed (n : N) | Fragmented (n : N) (c : ctxfrag).
Inductive enc_error :=
  | ESizeBuffer | EPduLength | EProtocolType | EInvalidLabel | ENoExtensionFound | EFinalMandatoryExtensionHeader.
Definition enc_result := (enc_status + enc_error)%type.

Definition set_last (s : enc_state) (l : option label) : enc_state :=
  {| re_on := re_on s; re_max := re_max s; re_cur := re_cur s; last := l |}.
Definition set_cur (s : enc_state) (c : N) : enc_state :=
  {| re_on := re_on s; re_max := re_max s; re_cur := c; last := last s |}.

(* Encapsulator::new and the setters *)
Definition enc_new : enc_state := {| re_on := true; re_max := 0; re_cur := 0; last := None |}.
Definition enc_reset (s : enc_state) : enc_state := set_last s None.
Definition enc_disable (s : enc_state) : enc_state :=
  {| re_on := false; re_max := 0; re_cur := 0; last := None |}.
Definition enc_enable (s : enc_state) : enc_state :=
  {| re_on := true; re_max := 0; re_cur := 0; last := last s |}.
Definition enc_enable_max (s : enc_state) (m : N) : enc_state :=
  {| re_on := true; re_max := m; re_cur := 0; last := last s |}.

Definition opt_label_eqb (a : option label) (b : option label) : bool :=
  match a, b with Some x, Some y => label_eqb x y | None, None => true | _, _ => false end.

(* check_label_re_use; `re_current_consecutive += 1` is a checked u8 addition *)
Definition update_last (s : enc_state) (next : label) : enc_state :=
  if label_eqb next LBroadcast then set_last s None
  else if negb (label_eqb next LReUse) then set_last s (Some next)
  else s.
Definition check_reuse (s : enc_state) (next : label) : res (enc_state * label) :=
  if re_on s then
    if opt_label_eqb (Some next) (last s) then
      if re_max s =? 0 then Ret (s, LReUse)
      else if re_cur s <? re_max s then
        do c <- add_chk 8 (re_cur s) 1; Ret (set_cur s c, LReUse)
      else Ret (update_last (set_cur s 0) next, next)
    else Ret (update_last s next, next)
  else Ret (s, next).

(* (self.last_label, self.re_current_consecutive) = saved_label_state *)
Definition restore (saved : enc_state) (s : enc_state) : enc_state :=
  {| re_on := re_on s; re_max := re_max s; re_cur := re_cur saved; last := last saved |}.

Section WithCrc.
Variable crc : list byte -> N -> N -> list byte -> N.

Definition enc_out := (enc_state * list byte * enc_result)%type.

Definition encap (s : enc_state) (pdu : list byte) (fid pt : N) (lab : label) (buf : list byte)
  : res enc_out :=
  if is_zero6 lab then Ret (s, buf, inr EInvalidLabel) else
  if (MAX_MANDATORY_VAL_PTYPE <=? pt) && (pt <? SECOND_RANGE_PTYPE) then Ret (s, buf, inr EProtocolType) else
  do '(s1, l) <- check_reuse s lab;
  let ll := label_len l in
  let pl := lenN pdu in
  let gmin := pl + ll + PROTOCOL_LEN in
  let hmin := FIXED_HEADER_LEN + PROTOCOL_LEN + ll in
  let bl := lenN buf in
  if (hmin + pl <=? bl) && (gmin <=? GSE_LEN_MAX) then
    (* complete packet *)
    let glen := u16 gmin in
    do b1 <- write buf 0 (be16 (gen_hdr KComplete (label_type l) glen));
    do n <- add_chk 16 glen (u16 FIXED_HEADER_LEN);
    do b2 <- write b1 FIXED_HEADER_LEN (be16 pt);
    do b3 <- write b2 (FIXED_HEADER_LEN + PROTOCOL_LEN) (label_bytes l);
    do src <- slice pdu 0 pl;
    do b4 <- write b3 (FIXED_HEADER_LEN + PROTOCOL_LEN + ll) src;
    Ret (s1, b4, inl (Completed n))
  else
    (* first fragment *)
    let hf := hmin + FRAG_ID_LEN + TOTAL_LENGTH_LEN in
    if bl <? hf then Ret (restore s s1, buf, inr ESizeBuffer) else
    if TOTAL_LEN_MAX <? pl + PROTOCOL_LEN + ll then Ret (restore s s1, buf, inr EPduLength) else
    do room <- subN bl hf;
    do hf2 <- subN hf FIXED_HEADER_LEN;
    do cap <- subN GSE_LEN_MAX hf2;
    let pe := N.min room cap in
    let glen := u16 (FRAG_ID_LEN + TOTAL_LENGTH_LEN + PROTOCOL_LEN + ll + pe) in
    do b1 <- write buf 0 (be16 (gen_hdr KFirst (label_type l) glen));
    do b2 <- write b1 FIXED_HEADER_LEN [fid];
    let tl := u16 (pl + PROTOCOL_LEN + ll) in
    do b3 <- write b2 (FIXED_HEADER_LEN + FRAG_ID_LEN) (be16 tl);
    do whole <- slice pdu 0 pl;
    let c := {| cf_id := fid; cf_crc := crc whole pt tl (label_bytes l); cf_len := u16 pe |} in
    let n := u16 (FIRST_FRAG_LEN + ll + pe) in
    let off := FIXED_HEADER_LEN + FRAG_ID_LEN + TOTAL_LENGTH_LEN in
    do b4 <- write b3 off (be16 pt);
    do b5 <- write b4 (off + PROTOCOL_LEN) (label_bytes l);
    do src <- slice pdu 0 pe;
    do b6 <- write b5 (off + PROTOCOL_LEN + ll) src;
    Ret (s1, b6, inl (Fragmented n c)).

(* encap_frag takes &self: no state *)
Definition encap_frag (pdu : list byte) (ctx : ctxfrag) (buf : list byte)
  : res (list byte * enc_result) :=
  let lpf := cf_len ctx in
  let fid := cf_id ctx in
  let bl := lenN buf in
  let pl := lenN pdu in
  if pl <? lpf then Ret (buf, inr EPduLength) else
  do rem <- subN pl lpf;
  let gend := FRAG_ID_LEN + rem + CRC_LEN in
  if (gend + FIXED_HEADER_LEN <=? bl) && (gend <=? GSE_LEN_MAX) then
    let hdr := gen_hdr KEnd TR (u16 gend) in
    let off := FIXED_HEADER_LEN + FRAG_ID_LEN + rem in
    do b1 <- write buf off (be32 (cf_crc ctx));
    let n := u16 (off + CRC_LEN) in
    do b2 <- write b1 0 (be16 hdr);
    do b3 <- set_idx b2 FIXED_HEADER_LEN fid;
    do src <- slice pdu lpf (lpf + rem);
    do b4 <- write b3 (FIXED_HEADER_LEN + FRAG_ID_LEN) src;
    Ret (b4, inl (Completed n))
  else if (FIXED_HEADER_LEN + FRAG_ID_LEN <? bl) && (0 <? rem) then
    do room <- subN bl (FIXED_HEADER_LEN + FRAG_ID_LEN);
    do cap <- subN GSE_LEN_MAX FRAG_ID_LEN;
    let avail := N.min room cap in
    let pe := if rem <? avail then rem else avail in
    let glen := FRAG_ID_LEN + pe in
    let hdr := gen_hdr KInter TR (u16 glen) in
    let n := u16 (FIXED_HEADER_LEN + glen) in
    let c := {| cf_id := fid; cf_crc := cf_crc ctx; cf_len := u16 (lpf + pe) |} in
    do b2 <- write buf 0 (be16 hdr);
    do b3 <- set_idx b2 FIXED_HEADER_LEN fid;
    do src <- slice pdu lpf (lpf + pe);
    do b4 <- write b3 (FIXED_HEADER_LEN + FRAG_ID_LEN) src;
    Ret (b4, inl (Fragmented n c))
  else Ret (buf, inr ESizeBuffer).

(* last element, extensions.last().unwrap() *)
Fixpoint last_ext (es : list ext) : res ext :=
  match es with [] => Panic | [e] => Ret e | _ :: t => last_ext t end.
Fixpoint sum_ext_len (es : list ext) : N :=
  match es with [] => 0 | e :: t => ext_len e + sum_ext_len t end.

(* the chain writer: data of extension i followed by the id of extension i+1; last: data only *)
Fixpoint write_chain (buf : list byte) (off : N) (es : list ext) : res (list byte * N) :=
  match es with
  | [] => Panic (* extensions.last().unwrap() *)
  | [e] => do b <- write buf off (ext_bytes e); Ret (b, off + lenN (ext_bytes e))
  | e :: ((e' :: _) as t) =>
    do b <- write buf off (ext_bytes e);
    let off := off + lenN (ext_bytes e) in
    do b <- write b off (be16 (ext_id e'));
    write_chain b (off + PROTOCOL_LEN) t
  end.

Definition encap_ext (s : enc_state) (pdu : list byte) (fid pt : N) (lab : label) (buf : list byte)
  (exts : list ext) : res enc_out :=
  match exts with
  | [] => Ret (s, buf, inr ENoExtensionFound)
  | e0 :: _ =>
  do laste <- last_ext exts;
  if (pt <? MAX_MANDATORY_VAL_PTYPE) && negb (ext_id laste =? pt)
  then Ret (s, buf, inr EFinalMandatoryExtensionHeader) else
  if negb (pt <? MAX_MANDATORY_VAL_PTYPE) && (pt <? SECOND_RANGE_PTYPE)
  then Ret (s, buf, inr EProtocolType) else
  let final := pt <? MAX_MANDATORY_VAL_PTYPE in
  do tle <- (if final then subN (sum_ext_len exts) PROTOCOL_LEN else Ret (sum_ext_len exts));
  if is_zero6 lab then Ret (s, buf, inr EInvalidLabel) else
  do '(s1, l) <- check_reuse s lab;
  let ll := label_len l in
  let pl := lenN pdu in
  let gmin := pl + ll + PROTOCOL_LEN + tle in
  let hmin := FIXED_HEADER_LEN + PROTOCOL_LEN + ll + tle in
  let bl := lenN buf in
  (* shared tail: protocol-type position, label, chain, protocol type, payload *)
  let tail (b : list byte) (off : N) (pe : N) (st : enc_status) : res enc_out :=
    do b <- write b off (be16 (ext_id e0));
    do b <- write b (off + PROTOCOL_LEN) (label_bytes l);
    do '(b, off2) <- write_chain b (off + PROTOCOL_LEN + ll) exts;
    do '(b, off3) <- (if final then Ret (b, off2)
                      else do b <- write b off2 (be16 pt); Ret (b, off2 + PROTOCOL_LEN));
    do src <- slice pdu 0 pe;
    do b <- write b off3 src;
    Ret (s1, b, inl st) in
  if (hmin + pl <=? bl) && (gmin <=? GSE_LEN_MAX) then
    let glen := u16 gmin in
    do b1 <- write buf 0 (be16 (gen_hdr KComplete (label_type l) glen));
    do n <- add_chk 16 glen (u16 FIXED_HEADER_LEN);
    tail b1 FIXED_HEADER_LEN pl (Completed n)
  else
    let hf := hmin + FRAG_ID_LEN + TOTAL_LENGTH_LEN in
    if bl <? hf then Ret (restore s s1, buf, inr ESizeBuffer) else
    if TOTAL_LEN_MAX <? pl + PROTOCOL_LEN + ll then Ret (restore s s1, buf, inr EPduLength) else
    do hf2 <- subN hf FIXED_HEADER_LEN;
    if GSE_LEN_MAX <? hf2 then Ret (restore s s1, buf, inr EPduLength) else
    do room <- subN bl hf;
    do cap <- subN GSE_LEN_MAX hf2;
    let pe := N.min room cap in
    let glen := u16 (FRAG_ID_LEN + TOTAL_LENGTH_LEN + PROTOCOL_LEN + ll + pe + tle) in
    do b1 <- write buf 0 (be16 (gen_hdr KFirst (label_type l) glen));
    do b2 <- write b1 FIXED_HEADER_LEN [fid];
    let tl := u16 (pl + PROTOCOL_LEN + ll) in
    do b3 <- write b2 (FIXED_HEADER_LEN + FRAG_ID_LEN) (be16 tl);
    do whole <- slice pdu 0 pl;
    let c := {| cf_id := fid; cf_crc := crc whole pt tl (label_bytes l); cf_len := u16 pe |} in
    let n := u16 (FIRST_FRAG_LEN + ll + tle + pe) in
    tail b3 (FIXED_HEADER_LEN + FRAG_ID_LEN + TOTAL_LENGTH_LEN) pe (Fragmented n c)
  end.

End WithCrc.

(* previews (free functions, no state, read-only buffer) *)
Record preview := { pv_kind : kind; pv_pdu_len : N; pv_pkt_len : N }.

Definition encap_preview (pdu : list byte) (pt : N) (lab : label) (buf : list byte)
  : res (preview + enc_error) :=
  let ll := label_len lab in
  let pl := lenN pdu in
  let gmin := pl + ll + PROTOCOL_LEN in
  if is_zero6 lab then Ret (inr EInvalidLabel) else
  if (MAX_MANDATORY_VAL_PTYPE <=? pt) && (pt <? SECOND_RANGE_PTYPE) then Ret (inr EProtocolType) else
  let hmin := FIXED_HEADER_LEN + PROTOCOL_LEN + ll in
  let bl := lenN buf in
  if (hmin + pl <=? bl) && (gmin <=? GSE_LEN_MAX) then
    do n <- add_chk 16 (u16 gmin) (u16 FIXED_HEADER_LEN);
    Ret (inl {| pv_kind := KComplete; pv_pdu_len := pl; pv_pkt_len := n |})
  else
    let hf := hmin + FRAG_ID_LEN + TOTAL_LENGTH_LEN in
    if bl <? hf then Ret (inr ESizeBuffer) else
    if TOTAL_LEN_MAX <? pl + PROTOCOL_LEN + ll then Ret (inr EPduLength) else
    do room <- subN bl hf;
    do hf2 <- subN hf FIXED_HEADER_LEN;
    do cap <- subN GSE_LEN_MAX hf2;
    let pe := N.min room cap in
    let glen := u16 (FRAG_ID_LEN + TOTAL_LENGTH_LEN + PROTOCOL_LEN + ll + pe) in
    do n <- add_chk 16 glen (u16 FIXED_HEADER_LEN);
    Ret (inl {| pv_kind := KFirst; pv_pdu_len := pl; pv_pkt_len := n |}).

Definition encap_frag_preview (pdu : list byte) (ctx : ctxfrag) (buf : list byte)
  : res (preview + enc_error) :=
  let lpf := cf_len ctx in
  let bl := lenN buf in
  let pl := lenN pdu in
  if pl <? lpf then Ret (inr EPduLength) else
  do rem <- subN pl lpf;
  let gend := FRAG_ID_LEN + rem + CRC_LEN in
  if (gend + FIXED_HEADER_LEN <=? bl) && (gend <=? GSE_LEN_MAX) then
    Ret (inl {| pv_kind := KEnd; pv_pdu_len := rem;
                pv_pkt_len := u16 (FIXED_HEADER_LEN + FRAG_ID_LEN + rem + CRC_LEN) |})
  else if (FIXED_HEADER_LEN + FRAG_ID_LEN <? bl) && (0 <? rem) then
    do room <- subN bl (FIXED_HEADER_LEN + FRAG_ID_LEN);
    do cap <- subN GSE_LEN_MAX FRAG_ID_LEN;
    let avail := N.min room cap in
    let pe := if rem <? avail then rem else avail in
    Ret (inl {| pv_kind := KInter; pv_pdu_len := pe; pv_pkt_len := u16 (FIXED_HEADER_LEN + (FRAG_ID_LEN + pe)) |})
  else Ret (inr ESizeBuffer).
