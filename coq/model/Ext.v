(* Header extensions (src/header_extension/mod.rs). *)
Require Import GSE.gen.Consts GSE.gen.HLenTable GSE.model.Base.
Open Scope N_scope.

Inductive ext_data :=
  | D2 (b : list byte) | D4 (b : list byte) | D6 (b : list byte) | D8 (b : list byte)
  | DNo | DMand (b : list byte).
Record ext := { ext_id : N; ext_dat : ext_data }.
Inductive ext_err := XIdAndVecSizeNotMatching | XIncorrectExtensionId.

Definition ext_bytes (e : ext) : list byte :=
  match ext_dat e with D2 b | D4 b | D6 b | D8 b | DMand b => b | DNo => [] end.
(* Extension::len *)
Definition ext_len (e : ext) : N :=
  match ext_dat e with
  | D2 _ => 2 + PROTOCOL_LEN | D4 _ => 4 + PROTOCOL_LEN | D6 _ => 6 + PROTOCOL_LEN
  | D8 _ => 8 + PROTOCOL_LEN | DNo => PROTOCOL_LEN | DMand b => PROTOCOL_LEN + lenN b
  end.
Definition is_mand (e : ext) : bool := match ext_dat e with DMand _ => true | _ => false end.

(* Extension::new *)
Definition ext_new (id : N) (data : list byte) : res (ext + ext_err) :=
  if SECOND_RANGE_PTYPE <=? id then Ret (inr XIncorrectExtensionId) else
  if id <? MAX_MANDATORY_VAL_PTYPE then Ret (inl {| ext_id := id; ext_dat := DMand data |}) else
  (* (id >> 8).try_into::<u8>().unwrap() *)
  do h <- (let h := N.shiftr id 8 in if h <? 256 then Ret h else Panic);
  match hlen_table h with
  | None => Panic (* unreachable!() *)
  | Some size =>
    if negb (size =? lenN data) then Ret (inr XIdAndVecSizeNotMatching) else
    let n := lenN data in
    if n =? 0 then Ret (inl {| ext_id := id; ext_dat := DNo |})
    else if n =? 2 then Ret (inl {| ext_id := id; ext_dat := D2 data |})
    else if n =? 4 then Ret (inl {| ext_id := id; ext_dat := D4 data |})
    else if n =? 6 then Ret (inl {| ext_id := id; ext_dat := D6 data |})
    else if n =? 8 then Ret (inl {| ext_id := id; ext_dat := D8 data |})
    else Panic (* unreachable!() *)
  end.

(* MandatoryHeaderExt and the two bundled managers *)
Inductive mand := MFinal (n : N) | MNonFinal (n : N) | MUnknown.
Definition mgr_simple (_ : N) : mand := MUnknown.
Definition mgr_signal (id : N) : mand :=
  if (id =? INTERNAL_SIGNALING_PROTOCOL_ID) || (id =? NCR_PROTOCOL_ID) then MFinal 0 else MUnknown.

Definition ext_eqb_data (a b : ext_data) : bool :=
  match a, b with
  | D2 x, D2 y | D4 x, D4 y | D6 x, D6 y | D8 x, D8 y | DMand x, DMand y => bytes_eqb x y
  | DNo, DNo => true
  | _, _ => false end.
