(* Base: result monad with explicit Panic, N-indexed byte lists, slice/write as in Rust.
   Model code only (definitions); lemmas are in proofs/BaseLemmas.v. *)
From Coq Require Export List NArith Bool.
Export ListNotations.
Open Scope N_scope.

Arguments N.add : simpl never. Arguments N.sub : simpl never. Arguments N.mul : simpl never.
Arguments N.eqb : simpl never. Arguments N.ltb : simpl never. Arguments N.leb : simpl never.
Arguments N.modulo : simpl never. Arguments N.div : simpl never. Arguments N.pred : simpl never.
Arguments N.land : simpl never. Arguments N.lor : simpl never. Arguments N.lxor : simpl never.
Arguments N.shiftl : simpl never. Arguments N.shiftr : simpl never. Arguments N.min : simpl never.
Arguments N.pow : simpl never.

Notation byte := N (only parsing).

(* outcome of a Rust computation: a value, or a panic (slice out of range, copy_from_slice length
   mismatch, unwrap on None/Err, unreachable!, todo!, checked integer overflow, division by zero) *)
Inductive res (A : Type) := Ret (a : A) | Panic.
Arguments Ret {A} a. Arguments Panic {A}.
Definition bind {A B} (m : res A) (f : A -> res B) : res B :=
  match m with Ret a => f a | Panic => Panic end.
Notation "'do' x <- m ; f" := (bind m (fun x => f))
  (at level 200, x name, m at level 100, f at level 200).
Notation "'do' ' p <- m ; f" := (bind m (fun x => match x with p => f end))
  (at level 200, p pattern, m at level 100, f at level 200).

(* lengths, prefixes, suffixes with N counters (structural on the list) *)
Fixpoint lenN_ {A} (l : list A) (acc : N) : N :=
  match l with [] => acc | _ :: t => lenN_ t (N.succ acc) end.
Definition lenN {A} (l : list A) : N := lenN_ l 0.
Fixpoint takeN {A} (n : N) (l : list A) : list A :=
  match l with [] => [] | x :: t => if n =? 0 then [] else x :: takeN (N.pred n) t end.
Fixpoint dropN {A} (n : N) (l : list A) : list A :=
  match l with [] => [] | x :: t => if n =? 0 then l else dropN (N.pred n) t end.
Fixpoint nthN {A} (n : N) (l : list A) : option A :=
  match l with [] => None | x :: t => if n =? 0 then Some x else nthN (N.pred n) t end.

Fixpoint bytes_eqb (a b : list byte) : bool :=
  match a, b with
  | [], [] => true
  | x :: a', y :: b' => (x =? y) && bytes_eqb a' b'
  | _, _ => false
  end.

Definition bytes_ok (l : list byte) : Prop := Forall (fun b => b < 256) l.
Definition bytes_okb (l : list byte) : bool := forallb (fun b => b <? 256) l.

(* checked usize subtraction *)
Definition subN (a b : N) : res N := if b <=? a then Ret (a - b) else Panic.
(* checked addition on a w-bit unsigned integer (debug / overflow-checks semantics) *)
Definition add_chk (w : N) (a b : N) : res N := if a + b <? 2 ^ w then Ret (a + b) else Panic.
(* `x as u16`, `x as u8` *)
Definition u16 (x : N) : N := x mod 65536.
Definition u8 (x : N) : N := x mod 256.

(* &buf[a..b] *)
Definition slice (buf : list byte) (a b : N) : res (list byte) :=
  if (a <=? b) && (b <=? lenN buf) then Ret (takeN (b - a) (dropN a buf)) else Panic.
(* buf[off .. off + len src].copy_from_slice(src): the destination range has exactly the source length *)
Definition write (buf : list byte) (off : N) (src : list byte) : res (list byte) :=
  if off + lenN src <=? lenN buf
  then Ret (takeN off buf ++ src ++ dropN (off + lenN src) buf) else Panic.
(* buf[i] *)
Definition idx (buf : list byte) (i : N) : res byte :=
  match nthN i buf with Some b => Ret b | None => Panic end.
(* buf[i] = v *)
Definition set_idx (buf : list byte) (i : N) (v : byte) : res (list byte) := write buf i [v].

(* big-endian integers *)
Definition be16 (x : N) : list byte := [x / 256 mod 256; x mod 256].
Definition be32 (x : N) : list byte :=
  [x / 16777216 mod 256; x / 65536 mod 256; x / 256 mod 256; x mod 256].
Definition rd16 (l : list byte) : N := match l with [a; b] => a * 256 + b | _ => 0 end.
Definition rd32 (l : list byte) : N :=
  match l with [a; b; c; d] => ((a * 256 + b) * 256 + c) * 256 + d | _ => 0 end.

Definition zeros (n : N) : list byte := N.recursion [] (fun _ l => 0 :: l) n.
