(* encap_ext: totality, failure atomicity, rejections, layout facts (C09 / C06 / C10 / C19 for extension packets).
   No model code. *)
Require Import GSE.gen.Consts GSE.model.Base GSE.model.Types GSE.model.Header GSE.model.Ext GSE.model.Encap
  GSE.proofs.Tactics GSE.proofs.BaseLemmas GSE.proofs.HeaderLemmas GSE.proofs.EncapSpec GSE.proofs.EncapProps
  GSE.proofs.DecapBase GSE.proofs.ExtSpec GSE.proofs.ExtTrip.
Open Scope N_scope.
#[local] Opaque pkt_complete_x pkt_first_x.

Section XP.
Variable crc : list byte -> N -> N -> list byte -> N.

Lemma encap_ext_hl_err s pdu fid pt lab buf exts s' b' e :
  encap_ext_hl crc s pdu fid pt lab buf exts = (s', b', inr e) -> s' = s /\ b' = buf.
Proof.
  unfold encap_ext_hl. destruct exts as [|e0 rest]; [intros [= <- <- _]; auto|].
  destruct (_ && _); [intros [= <- <- _]; auto|].
  destruct (_ && _); [intros [= <- <- _]; auto|].
  destruct (is_zero6 lab); [intros [= <- <- _]; auto|].
  destruct (check_reuse_hl s lab) as [s1 l].
  destruct (_ && _); [discriminate|].
  destruct (_ <? _); [intros [= <- <- _]; auto|].
  destruct (_ <? _); [intros [= <- <- _]; auto|].
  destruct (_ <? _); [intros [= <- <- _]; auto|]. discriminate.
Qed.

Lemma encap_ext_hl_wf s pdu fid pt lab buf exts s' b' r : enc_wf s -> label_wf lab ->
  encap_ext_hl crc s pdu fid pt lab buf exts = (s', b', r) -> enc_wf s' /\ lenN b' = lenN buf.
Proof.
  intros Hs Hw H. destruct r as [st|e].
  - destruct st as [n|n c].
    + destruct (encap_ext_completed crc _ _ _ _ _ _ _ _ _ _ Hw H) as (_ & _ & HS' & Hb' & Hn & Hnb & _).
      destruct (check_reuse_hl s lab) as [s1 l] eqn:Hc. cbn [fst snd] in *. subst s'. split; [eapply check_reuse_wf; eauto|].
      rewrite Hb', lenN_app, (lenN_pkt_complete_x crc), lenN_dropN. lia.
    + destruct (encap_ext_fragmented crc _ _ _ _ _ _ _ _ _ _ _ Hw H) as (_ & _ & HS' & Hb' & _ & Hn & Hnb & Hlt & _).
      destruct (check_reuse_hl s lab) as [s1 l] eqn:Hc. cbn [fst snd] in *. subst s'. split; [eapply check_reuse_wf; eauto|].
      rewrite Hb', lenN_app, (lenN_pkt_first_x crc), lenN_takeN, lenN_dropN. lia.
  - apply encap_ext_hl_err in H as [-> ->]. auto.
Qed.

(* rejections: always an error, never a packet *)
Lemma encap_ext_rejects_zero s pdu fid pt buf exts :
  exists e, encap_ext_hl crc s pdu fid pt (L6 [0;0;0;0;0;0]) buf exts = (s, buf, inr e).
Proof.
  unfold encap_ext_hl. destruct exts as [|e0 rest]; [eauto|].
  destruct (_ && _); [eauto|]. destruct (_ && _); [eauto|].
  replace (is_zero6 (L6 [0;0;0;0;0;0])) with true by reflexivity. eauto.
Qed.
Lemma encap_ext_rejects_ptype s pdu fid pt lab buf exts : 256 <= pt <= 1535 ->
  exists e, encap_ext_hl crc s pdu fid pt lab buf exts = (s, buf, inr e).
Proof.
  intros [H1 H2]. unfold encap_ext_hl. destruct exts as [|e0 rest]; [eauto|].
  destruct (N.ltb_spec pt 256); [lia|]. cbn [andb negb]. destruct (N.ltb_spec pt 1536); [eauto|lia].
Qed.
Lemma encap_ext_ok_total_len s pdu fid pt lab buf exts s' b' st : label_wf lab ->
  encap_ext_hl crc s pdu fid pt lab buf exts = (s', b', inl st) ->
  (match st with Completed _ => lenN pdu + 2 + lenN (label_bytes (snd (check_reuse_hl s lab))) <= 4095 | Fragmented _ _ => True end) /\
  lenN pdu + 2 + lenN (label_bytes (snd (check_reuse_hl s lab))) <= 65535.
Proof.
  intros Hw H. destruct st as [n|n c].
  - destruct (encap_ext_completed crc _ _ _ _ _ _ _ _ _ _ Hw H) as (_ & _ & _ & _ & _ & _ & Hg). cbv zeta in Hg. split; lia.
  - destruct (encap_ext_fragmented crc _ _ _ _ _ _ _ _ _ _ _ Hw H) as (_ & _ & _ & _ & _ & _ & _ & _ & Htl & _). cbv zeta in Htl. split; [exact I|lia].
Qed.
End XP.

Section XL.
Variable crc : list byte -> N -> N -> list byte -> N.

Lemma encap_ext_layout s pdu fid pt lab buf exts s' buf' st : label_wf lab ->
  encap_ext_hl crc s pdu fid pt lab buf exts = (s', buf', inl st) ->
  let n := match st with Completed n | Fragmented n _ => n end in
  let l := snd (check_reuse_hl s lab) in
  let chain := chain_bytes exts (pt <? 256) pt in
  n <= lenN buf /\ lenN buf' = lenN buf /\ dropN n buf' = dropN n buf /\ n <= 4097 /\
  match st with
  | Completed _ =>
      takeN n buf' = be16 (3 * 16384 + lt_num (label_type l) * 4096 + (n - 2))
                     ++ be16 (first_id exts pt) ++ label_bytes l ++ chain ++ pdu
  | Fragmented _ c =>
      takeN n buf' = be16 (2 * 16384 + lt_num (label_type l) * 4096 + (n - 2))
                     ++ [fid] ++ be16 (2 + lenN (label_bytes l) + lenN pdu) ++ be16 (first_id exts pt) ++ label_bytes l
                     ++ chain ++ takeN (cf_len c) pdu
  end.
Proof.
  intros Hw H n l chain. destruct st as [n0|n0 c]; subst n.
  - destruct (encap_ext_completed crc _ _ _ _ _ _ _ _ _ _ Hw H) as (_ & _ & _ & Hb' & Hn & Hnb & Hg).
    fold l chain in Hb', Hn, Hg.
    assert (Lk : lenN (pkt_complete_x l (first_id exts pt) chain pdu) = n0) by (rewrite (lenN_pkt_complete_x crc); lia).
    split; [exact Hnb|]. split; [rewrite Hb', lenN_app, Lk, lenN_dropN; lia|].
    split; [rewrite Hb'; now rewrite dropN_app_eq by lia|]. split; [lia|].
    rewrite Hb', takeN_app_eq by lia. with_strategy transparent [pkt_complete_x] unfold pkt_complete_x. unfold hdr_arith. cbn [se_num].
    f_equal. f_equal. lia.
  - destruct (encap_ext_fragmented crc _ _ _ _ _ _ _ _ _ _ _ Hw H) as (_ & _ & _ & Hb' & _ & Hn & Hnb & Hlt & Htl & Hg).
    fold l chain in Hb', Hn, Hg, Htl.
    assert (Lk : lenN (pkt_first_x l fid (lenN pdu + 2 + lenN (label_bytes l)) (first_id exts pt) chain (takeN (cf_len c) pdu)) = n0)
      by (rewrite (lenN_pkt_first_x crc), lenN_takeN; lia).
    split; [exact Hnb|]. split; [rewrite Hb', lenN_app, Lk, lenN_dropN; lia|].
    split; [rewrite Hb'; now rewrite dropN_app_eq by lia|]. split; [lia|].
    rewrite Hb', takeN_app_eq by lia. with_strategy transparent [pkt_first_x] unfold pkt_first_x. unfold hdr_arith. cbn [se_num].
    rewrite lenN_takeN. replace (N.min (cf_len c) (lenN pdu)) with (cf_len c) by lia.
    f_equal; [do 2 f_equal; lia|]. do 2 f_equal. f_equal. lia.
Qed.
End XL.

(* ---------- framing of extension packets (C10) ---------- *)
Require Import GSE.model.Memory GSE.model.Decap GSE.proofs.DecapSpec GSE.proofs.RoundTrip GSE.proofs.Frames.
#[local] Hint Rewrite @lenN_app lenN_be16 @lenN_cons @lenN_nil : lens.

Section XW.
Variable crc : list byte -> N -> N -> list byte -> N.
Variable mgr : N -> mand.

(* what the receiver's walker answers on the extension area: the whole chain, or an unknown mandatory id *)
Definition walk_answer (exts : list ext) (pt : N) (r : walk_ok + walk_err) (chainlen : N) : Prop :=
  r = inl {| w_exts := exts; w_ptype := pt; w_len := chainlen |} \/ r = inr WUnknownMandatory.

Lemma wf_complete_x l id0 chain pdu exts pt : label_wf l -> id0 < 65536 -> lenN pdu + lenN (label_bytes l) + 2 + lenN chain < 4096 ->
  walk_answer exts pt (walk_fn mgr (chain ++ pdu) id0) (lenN chain) ->
  well_framed mgr (pkt_complete_x l id0 chain pdu).
Proof.
  intros Hw Hid Hl Hwalk. unfold well_framed.
  assert (Hv : hdr_view (rd16 (takeN 2 (pkt_complete_x l id0 chain pdu))) = Some (lenN pdu + lenN (label_bytes l) + 2 + lenN chain, KComplete, label_type l)).
  { with_strategy transparent [pkt_complete_x] unfold pkt_complete_x. rewrite take2_be16, rd16_be16 by (apply hdr_arith_lt; lia). apply hdr_view_arith; [lia|]. intros [? _]; discriminate. }
  rewrite Hv. rewrite (lenN_pkt_complete_x crc), (lt_len_label l Hw). split; [lia|]. split; [lia|].
  with_strategy transparent [pkt_complete_x] unfold pkt_complete_x. rewrite drop2_be16, take2_be16, rd16_be16 by lia.
  set (hdr := be16 (hdr_arith KComplete (label_type l) (lenN pdu + lenN (label_bytes l) + 2 + lenN chain))).
  replace (dropN (4 + lenN (label_bytes l)) (hdr ++ be16 id0 ++ label_bytes l ++ chain ++ pdu)) with (chain ++ pdu).
  2:{ replace (hdr ++ be16 id0 ++ label_bytes l ++ chain ++ pdu) with ((hdr ++ be16 id0 ++ label_bytes l) ++ chain ++ pdu) by (now rewrite <- !app_assoc).
      symmetry. apply dropN_app_eq. subst hdr. autorewrite with lens. lia. }
  destruct Hwalk as [-> | ->]; discriminate.
Qed.

Lemma wf_first_x l fid tl id0 chain payload exts pt : label_wf l -> id0 < 65536 -> tl < 65536 -> lenN payload < tl ->
  5 + lenN (label_bytes l) + lenN chain + lenN payload < 4096 ->
  walk_answer exts pt (walk_fn mgr (chain ++ payload) id0) (lenN chain) ->
  well_framed mgr (pkt_first_x l fid tl id0 chain payload).
Proof.
  intros Hw Hid Htl Hlt Hl Hwalk. unfold well_framed.
  assert (Hv : hdr_view (rd16 (takeN 2 (pkt_first_x l fid tl id0 chain payload))) = Some (5 + lenN (label_bytes l) + lenN chain + lenN payload, KFirst, label_type l)).
  { with_strategy transparent [pkt_first_x] unfold pkt_first_x. rewrite take2_be16, rd16_be16 by (apply hdr_arith_lt; lia). apply hdr_view_arith; [lia|]. intros [? _]; discriminate. }
  rewrite Hv, (lenN_pkt_first_x crc), (lt_len_label l Hw). split; [lia|]. split; [lia|].
  with_strategy transparent [pkt_first_x] unfold pkt_first_x.
  set (hdr := be16 (hdr_arith KFirst (label_type l) (5 + lenN (label_bytes l) + lenN chain + lenN payload))).
  set (whole := hdr ++ [fid] ++ be16 tl ++ be16 id0 ++ label_bytes l ++ chain ++ payload).
  assert (D3 : dropN 3 whole = be16 tl ++ be16 id0 ++ label_bytes l ++ chain ++ payload).
  { replace whole with ((hdr ++ [fid]) ++ be16 tl ++ be16 id0 ++ label_bytes l ++ chain ++ payload) by (subst whole; now rewrite <- !app_assoc).
    apply dropN_app_eq. reflexivity. }
  assert (D5 : dropN 5 whole = be16 id0 ++ label_bytes l ++ chain ++ payload).
  { replace whole with ((hdr ++ [fid] ++ be16 tl) ++ be16 id0 ++ label_bytes l ++ chain ++ payload) by (subst whole; now rewrite <- !app_assoc).
    apply dropN_app_eq. reflexivity. }
  rewrite D3, D5, !take2_be16, !rd16_be16 by lia.
  replace (dropN (7 + lenN (label_bytes l)) whole) with (chain ++ payload).
  2:{ replace whole with ((hdr ++ [fid] ++ be16 tl ++ be16 id0 ++ label_bytes l) ++ chain ++ payload) by (subst whole; now rewrite <- !app_assoc).
      symmetry. apply dropN_app_eq. subst hdr. autorewrite with lens. lia. }
  destruct Hwalk as [-> | ->]; [|exact I]. cbn [w_len].
  replace (dropN (7 + lenN (label_bytes l) + lenN chain) whole) with payload; [exact Hlt|].
  replace whole with ((hdr ++ [fid] ++ be16 tl ++ be16 id0 ++ label_bytes l ++ chain) ++ payload) by (subst whole; now rewrite <- !app_assoc).
  symmetry. apply dropN_app_eq. subst hdr. autorewrite with lens. lia.
Qed.

(* a receiver that can read the chain: knows it all, or meets a mandatory id it does not know after a known prefix *)
Definition chain_readable (exts : list ext) (pt : N) : Prop :=
  chain_known mgr exts (pt <? 256) \/
  exists es1 e es2, exts = es1 ++ e :: es2 /\ Forall (nf_known mgr) es1 /\ ext_id e < 256 /\ mgr (ext_id e) = MUnknown.

Lemma chain_readable_answer exts pt rest : Forall ext_built exts -> ext_type_ok exts pt -> pt < 65536 -> chain_readable exts pt ->
  walk_answer exts pt (walk_fn mgr (chain_bytes exts (pt <? 256) pt ++ rest) (first_id exts pt)) (lenN (chain_bytes exts (pt <? 256) pt)).
Proof.
  intros Hb Hty Hpt [Hk|(es1 & e & es2 & Hex & Hk1 & Hid & Hunk)].
  - left. now apply chain_walk.
  - right. unfold chain_bytes. rewrite Hex, chain_body_prefix, first_id_prefix, <- !app_assoc. now apply walk_fn_unknown.
Qed.

Theorem encap_ext_well_framed S pdu fid pt lab buf exts S' buf' st : enc_wf S -> label_wf lab -> pt < 65536 ->
  Forall ext_built exts -> encap_ext crc S pdu fid pt lab buf exts = Ret (S', buf', inl st) ->
  chain_readable exts pt ->
  well_framed mgr (takeN (match st with Completed n | Fragmented n _ => n end) buf').
Proof.
  intros HS Hw Hpt Hb He Hr.
  assert (Hxw : Forall ext_wf exts) by (revert Hb; apply Forall_impl; exact ext_built_wf).
  rewrite encap_ext_spec in He by assumption. injection He as He.
  assert (Hfi : first_id exts pt < 65536) by (apply first_id_lt; assumption).
  destruct st as [n|n c].
  - destruct (encap_ext_completed crc _ _ _ _ _ _ _ _ _ _ Hw He) as (Hty & _ & _ & Hb' & Hn & Hnb & Hg).
    destruct (check_reuse_hl S lab) as [s1 l] eqn:Hc. cbn [fst snd] in *.
    pose proof (check_reuse_label_wf _ _ _ _ Hw Hc) as Hwl.
    rewrite Hb', takeN_app_eq by (rewrite (lenN_pkt_complete_x crc); lia).
    apply (wf_complete_x l _ _ pdu exts pt); auto; [lia|]. now apply chain_readable_answer.
  - destruct (encap_ext_fragmented crc _ _ _ _ _ _ _ _ _ _ _ Hw He) as (Hty & _ & _ & Hb' & _ & Hn & Hnb & Hlt & Htl & Hg).
    destruct (check_reuse_hl S lab) as [s1 l] eqn:Hc. cbn [fst snd] in *.
    pose proof (check_reuse_label_wf _ _ _ _ Hw Hc) as Hwl.
    assert (Lp : lenN (takeN (cf_len c) pdu) = cf_len c) by (rewrite lenN_takeN; lia).
    rewrite Hb', takeN_app_eq by (rewrite (lenN_pkt_first_x crc), Lp; lia).
    apply (wf_first_x l _ _ _ _ _ exts pt); auto; rewrite ?Lp; try lia. now apply chain_readable_answer.
Qed.
End XW.

(* ---------- the peek function on extension packets (C19) ---------- *)
Require Import GSE.proofs.Peek.
Theorem peek_start_ext crc S pdu fid pt lab buf exts S' buf' st tail : enc_wf S -> label_wf lab -> Forall ext_built exts ->
  encap_ext crc S pdu fid pt lab buf exts = Ret (S', buf', inl st) ->
  peek (takeN (match st with Completed n | Fragmented n _ => n end) buf' ++ tail)
  = Ret (peek_label (snd (check_reuse_hl S lab))).
Proof.
  intros HS Hw Hb He.
  assert (Hxw : Forall ext_wf exts) by (revert Hb; apply Forall_impl; exact ext_built_wf).
  rewrite encap_ext_spec in He by assumption. injection He as He.
  destruct st as [n|n c].
  - destruct (encap_ext_completed crc _ _ _ _ _ _ _ _ _ _ Hw He) as (_ & _ & _ & Hb' & Hn & Hnb & Hg).
    destruct (check_reuse_hl S lab) as [s1 l] eqn:Hc. cbn [fst snd] in *.
    pose proof (check_reuse_label_wf _ _ _ _ Hw Hc) as Hwl.
    rewrite Hb', takeN_app_eq by (rewrite (lenN_pkt_complete_x crc); lia).
    with_strategy transparent [pkt_complete_x] unfold pkt_complete_x. rewrite <- !app_assoc.
    apply (peek_start KComplete l [] (first_id exts pt) (chain_bytes exts (pt <? 256) pt ++ pdu ++ tail)); auto; lia.
  - destruct (encap_ext_fragmented crc _ _ _ _ _ _ _ _ _ _ _ Hw He) as (_ & _ & _ & Hb' & _ & Hn & Hnb & Hlt & Htl & Hg).
    destruct (check_reuse_hl S lab) as [s1 l] eqn:Hc. cbn [fst snd] in *.
    pose proof (check_reuse_label_wf _ _ _ _ Hw Hc) as Hwl.
    assert (Lt : lenN (takeN (cf_len c) pdu) = cf_len c) by (rewrite lenN_takeN; lia).
    rewrite Hb', takeN_app_eq by (rewrite (lenN_pkt_first_x crc), Lt; lia).
    with_strategy transparent [pkt_first_x] unfold pkt_first_x. rewrite <- !app_assoc.
    set (tl := lenN pdu + 2 + lenN (label_bytes l)).
    change ([fid] ++ be16 tl ++ be16 (first_id exts pt) ++ label_bytes l ++ chain_bytes exts (pt <? 256) pt ++ takeN (cf_len c) pdu ++ tail)
      with (([fid] ++ be16 tl) ++ be16 (first_id exts pt) ++ label_bytes l ++ chain_bytes exts (pt <? 256) pt ++ takeN (cf_len c) pdu ++ tail).
    apply (peek_start KFirst l ([fid] ++ be16 tl) (first_id exts pt)); auto. rewrite Lt. lia.
Qed.
