// Case-file executor on the implementation (dvb_gse_rust at /repo).
// Reads a case file (see DESIGN.md appendix B / tools/gen_cases.py), executes every operation through the
// public API under catch_unwind and prints one canonical observation line per operation.
// The OCaml driver over the extracted Coq model prints the same lines for the same file.
use dvb_gse_rust::crc::{CrcCalculator, DefaultCrc};
use dvb_gse_rust::gse_decap::{
    read_gse_header, DecapContext, DecapError, DecapMemoryError, DecapMetadata, DecapStatus, Decapsulator,
    GetLabelorFragIdError, GseDecapMemory, LabelorFragId, SimpleGseMemory,
};
use dvb_gse_rust::gse_encap::{
    encap_frag_preview, encap_preview, generate_gse_header, ContextFrag, EncapError, EncapMetadata, EncapStatus,
    Encapsulator,
};
use dvb_gse_rust::header_extension::{
    Extension, ExtensionData, MandatoryHeaderExt, MandatoryHeaderExtensionManager, NewExtensionError,
};
use dvb_gse_rust::label::{Label, LabelType};
use dvb_gse_rust::utils::{
    GseCompletePacket, GseEndFragPacket, GseFirstFragPacket, GseIntermediatePacket, Serialisable,
};
use std::fmt::Write as _;
use std::io::{BufRead, Write};
use std::panic::{catch_unwind, AssertUnwindSafe};

// ---------- canonical text helpers (must match ocaml/driver.ml) ----------
fn hex(b: &[u8]) -> String {
    if b.is_empty() {
        return "-".into();
    }
    let mut s = String::with_capacity(b.len() * 2);
    for x in b {
        write!(s, "{:02x}", x).unwrap();
    }
    s
}
fn unhex(s: &str) -> Vec<u8> {
    if s == "-" {
        return vec![];
    }
    (0..s.len() / 2).map(|i| u8::from_str_radix(&s[2 * i..2 * i + 2], 16).unwrap()).collect()
}
fn gen_bytes(len: usize, seed: u64) -> Vec<u8> {
    let mut x = seed & 0x7FFF_FFFF;
    let mut v = Vec::with_capacity(len);
    for _ in 0..len {
        x = (x * 1103515245 + 12345) & 0x7FFF_FFFF;
        v.push(((x >> 16) & 0xFF) as u8);
    }
    v
}
fn bytes_tok(s: &str) -> Vec<u8> {
    if let Some(r) = s.strip_prefix('g') {
        let mut it = r.split('.');
        let len: usize = it.next().unwrap().parse().unwrap();
        let seed: u64 = it.next().unwrap().parse().unwrap();
        gen_bytes(len, seed)
    } else {
        unhex(s)
    }
}
fn fnv(b: &[u8]) -> String {
    let mut h: u64 = 0xcbf29ce484222325;
    for x in b {
        h ^= *x as u64;
        h = h.wrapping_mul(0x100000001b3);
    }
    format!("{:016x}", h)
}
fn label_tok(s: &str) -> Label {
    match s {
        "B" => Label::Broadcast,
        "R" => Label::ReUse,
        _ => {
            let b = unhex(&s[2..]);
            if s.starts_with("6:") {
                Label::SixBytesLabel(b.try_into().unwrap())
            } else {
                Label::ThreeBytesLabel(b.try_into().unwrap())
            }
        }
    }
}
fn label_str(l: &Label) -> String {
    match l {
        Label::Broadcast => "B".into(),
        Label::ReUse => "R".into(),
        Label::SixBytesLabel(b) => format!("6:{}", hex(b)),
        Label::ThreeBytesLabel(b) => format!("3:{}", hex(b)),
    }
}
fn optlabel_str(l: &Option<Label>) -> String {
    match l {
        None => "none".into(),
        Some(l) => label_str(l),
    }
}
fn ext_str(e: &Extension) -> String {
    let (k, d): (&str, &[u8]) = match e.data() {
        ExtensionData::Data2(d) => ("D2", d),
        ExtensionData::Data4(d) => ("D4", d),
        ExtensionData::Data6(d) => ("D6", d),
        ExtensionData::Data8(d) => ("D8", d),
        ExtensionData::NoData => ("DN", &[]),
        ExtensionData::MandatoryData(d) => ("DM", d),
    };
    format!("{:04x}:{}:{}", e.id(), k, hex(d))
}
fn exts_str(es: &[Extension]) -> String {
    if es.is_empty() {
        return "-".into();
    }
    es.iter().map(ext_str).collect::<Vec<_>>().join(",")
}
// "id:hex,id:hex" -> Result<Vec<Extension>, ()>
fn exts_tok(s: &str) -> Result<Vec<Extension>, NewExtensionError> {
    if s == "-" {
        return Ok(vec![]);
    }
    let mut v = vec![];
    for part in s.split(',') {
        let mut it = part.split(':');
        let id = u16::from_str_radix(it.next().unwrap(), 16).unwrap();
        let data = unhex(it.next().unwrap_or("-"));
        v.push(Extension::new(id, &data)?);
    }
    Ok(v)
}
fn enc_err(e: &EncapError) -> &'static str {
    match e {
        EncapError::ErrorSizeBuffer => "SizeBuffer",
        EncapError::ErrorPduLength => "PduLength",
        EncapError::ErrorProtocolType => "ProtocolType",
        EncapError::ErrorInvalidLabel => "InvalidLabel",
        EncapError::ErrorNoExtensionFound => "NoExtensionFound",
        EncapError::ErrorFinalMandatoryExtensionHeader => "FinalMandatoryExtensionHeader",
    }
}
fn kind_str(k: &dyn std::fmt::Debug) -> &'static str {
    match format!("{:?}", k).as_str() {
        "CompletePkt" => "C",
        "FirstFragPkt" => "F",
        "IntermediateFragPkt" => "I",
        "EndFragPkt" => "E",
        _ => "?",
    }
}
fn lt_str(t: &LabelType) -> &'static str {
    match t {
        LabelType::SixBytesLabel => "6",
        LabelType::ThreeBytesLabel => "3",
        LabelType::Broadcast => "B",
        LabelType::ReUse => "R",
    }
}

// table-driven manager: id -> Final(n) | NonFinal(n)
#[derive(Clone)]
struct TabMgr {
    tab: Vec<(u16, bool, u8)>,
    signal: bool,
}
impl MandatoryHeaderExtensionManager for TabMgr {
    fn is_mandatory_header_id_known(&self, id: u16) -> MandatoryHeaderExt {
        if self.signal && (id == 0x81 || id == 0x82) {
            return MandatoryHeaderExt::Final(0);
        }
        for (i, f, n) in &self.tab {
            if *i == id {
                return if *f { MandatoryHeaderExt::Final(*n) } else { MandatoryHeaderExt::NonFinal(*n) };
            }
        }
        MandatoryHeaderExt::Unknown
    }
}
// "simple" | "signal" | "tab:0005=F2;0007=N4"  (signal uses the crate's own manager semantics through the
// bundled SignalisationMandatoryExtensionHeaderManager: checked equal to TabMgr{signal} by the EXT family)
fn mgr_tok(s: &str) -> TabMgr {
    match s {
        "simple" => TabMgr { tab: vec![], signal: false },
        "signal" => TabMgr { tab: vec![], signal: true },
        _ => {
            let mut tab = vec![];
            for part in s[4..].split(';') {
                if part.is_empty() {
                    continue;
                }
                let id = u16::from_str_radix(&part[..4], 16).unwrap();
                let f = &part[5..6] == "F";
                let n: u8 = part[6..].parse().unwrap();
                tab.push((id, f, n));
            }
            TabMgr { tab, signal: false }
        }
    }
}

type Dec = Decapsulator<SimpleGseMemory, DefaultCrc, TabMgr>;

struct World {
    enc: Encapsulator<DefaultCrc>,
    last_pkt: Vec<u8>,
    last_pdu: Vec<u8>,
    last_ctx: Option<ContextFrag>,
    fresh: bool,
    frame: Vec<u8>,
    dec: Option<Dec>,
    dec_cfg: (usize, usize),
    nprov: u64,
    owned: Vec<Box<[u8]>>,
    held: Option<(DecapContext, Box<[u8]>)>,
    history: Vec<String>,
}

fn enc_state_str(e: &Encapsulator<DefaultCrc>) -> String {
    // derived Debug: Encapsulator { crc_calculator: DefaultCrc, re_use_activated: true, re_max_consecutive: 0,
    //                re_current_consecutive: 0, last_label: Some(SixBytesLabel([1, 2, 3, 4, 5, 6])) }
    let d = format!("{:?}", e);
    let field = |name: &str| -> String {
        let i = d.find(name).unwrap() + name.len() + 2;
        let rest = &d[i..];
        let mut depth = 0i32;
        let mut end = rest.len();
        for (k, c) in rest.char_indices() {
            match c {
                '(' | '[' | '{' => depth += 1,
                ')' | ']' => depth -= 1,
                '}' => {
                    if depth == 0 {
                        end = k;
                        break;
                    }
                    depth -= 1
                }
                ',' => {
                    if depth == 0 {
                        end = k;
                        break;
                    }
                }
                _ => {}
            }
        }
        rest[..end].trim().to_string()
    };
    let last = field("last_label");
    let last = if last == "None" {
        "none".to_string()
    } else {
        let inner = &last[5..last.len() - 1];
        if inner == "Broadcast" {
            "B".into()
        } else if inner == "ReUse" {
            "R".into()
        } else {
            let six = inner.starts_with("Six");
            let a = inner.find('[').unwrap();
            let b = inner.find(']').unwrap();
            let bytes: Vec<u8> = inner[a + 1..b].split(',').map(|x| x.trim().parse().unwrap()).collect();
            format!("{}:{}", if six { 6 } else { 3 }, hex(&bytes))
        }
    };
    format!(
        "re={} max={} cur={} last={}",
        if field("re_use_activated") == "true" { 1 } else { 0 },
        field("re_max_consecutive"),
        field("re_current_consecutive"),
        last
    )
}

fn md_str(m: &DecapMetadata) -> String {
    format!("ptype={} label={} exts={}", m.protocol_type(), label_str(&m.label()), exts_str(m.extensions()))
}
fn memerr_str(e: &DecapMemoryError) -> String {
    match e {
        DecapMemoryError::StorageOverflow(b) => format!("Overflow:{}", b.len()),
        DecapMemoryError::StorageUnderflow => "Underflow".into(),
        DecapMemoryError::UndefinedId => "UndefinedId".into(),
        DecapMemoryError::BufferTooSmall(b) => format!("TooSmall:{}", b.len()),
        DecapMemoryError::MemoryCorrupted => "Corrupted".into(),
    }
}
fn decerr_str(e: &DecapError) -> String {
    match e {
        DecapError::ErrorSizeBuffer => "SizeBuffer".into(),
        DecapError::ErrorTotalLength => "TotalLength".into(),
        DecapError::ErrorGseLength => "GseLength".into(),
        DecapError::ErrorSizePduBuffer => "SizePduBuffer".into(),
        DecapError::ErrorProtocolType => "ProtocolType".into(),
        DecapError::ErrorMemory(m) => format!("Memory:{}", memerr_str(m)),
        DecapError::ErrorCrc => "Crc".into(),
        DecapError::ErrorInvalidLabel => "InvalidLabel".into(),
        DecapError::ErrorNoLabelSaved => "NoLabelSaved".into(),
        DecapError::ErrorLabelBroadcastSaved => "LabelBroadcastSaved".into(),
        DecapError::ErrorLabelReUseSaved => "LabelReUseSaved".into(),
        DecapError::ErrorUnkownMandatoryHeader => "UnkownMandatoryHeader".into(),
    }
}
fn ctx_str(c: &DecapContext) -> String {
    format!(
        "{},{},{},{},{},{},{}",
        c.frag_id,
        c.total_len,
        c.pdu_len,
        c.from_label_reuse as u8,
        label_str(&c.label),
        c.protocol_type,
        exts_str(&c.extensions_header)
    )
}
// ctx token: fid,total,pdulen,reuse,label,ptype  (no extensions)
fn ctx_tok(s: &str) -> DecapContext {
    let p: Vec<&str> = s.split(',').collect();
    DecapContext::new(
        label_tok(p[4]),
        p[5].parse().unwrap(),
        p[0].parse().unwrap(),
        p[1].parse().unwrap(),
        p[2].parse().unwrap(),
        p[3] == "1",
        vec![],
    )
}

impl World {
    fn new() -> World {
        World {
            enc: Encapsulator::new(DefaultCrc {}),
            last_pkt: vec![],
            last_pdu: vec![],
            last_ctx: None,
            fresh: false,
            frame: vec![],
            dec: None,
            dec_cfg: (0, 0),
            nprov: 0,
            owned: vec![],
            held: None,
            history: vec![],
        }
    }

    fn enc_result(
        &mut self,
        r: std::thread::Result<Result<EncapStatus, EncapError>>,
        before: &[u8],
        after: &[u8],
        pdu: &[u8],
        with_state: bool,
    ) -> String {
        let st = if with_state { format!(" st={}", enc_state_str(&self.enc)) } else { String::new() };
        match r {
            Err(_) => "PANIC".into(),
            Ok(Err(e)) => {
                format!("err {} pkt=- tail={}{}", enc_err(&e), (before == after) as u8, st)
            }
            Ok(Ok(s)) => {
                let (n, head) = match &s {
                    EncapStatus::CompletedPkt(n) => (*n as usize, format!("ok C {}", n)),
                    EncapStatus::FragmentedPkt(n, c) => {
                        (*n as usize, format!("ok F {} {} {} {}", n, c.frag_id(), c.crc(), c.len_pdu_frag()))
                    }
                };
                let k = n.min(after.len());
                let tail = before.len() == after.len() && before[k..] == after[k..];
                self.last_pkt = after[..k].to_vec();
                self.fresh = true;
                self.last_pdu = pdu.to_vec();
                self.last_ctx = match s {
                    EncapStatus::FragmentedPkt(_, c) => Some(c),
                    _ => None,
                };
                format!("{} pkt={} tail={}{}", head, hex(&after[..k]), tail as u8, st)
            }
        }
    }

    fn dec_result(&mut self, r: std::thread::Result<Result<(DecapStatus, usize), (DecapError, usize)>>) -> String {
        match r {
            Err(_) => "PANIC".into(),
            Ok(Ok((DecapStatus::Padding, n))) => format!("ok padding consumed={}", n),
            Ok(Ok((DecapStatus::FragmentedPkt(m), n))) => {
                format!("ok fragmented pdulen={} {} consumed={}", m.pdu_len(), md_str(&m), n)
            }
            Ok(Ok((DecapStatus::CompletedPkt(b, m), n))) => {
                let k = m.pdu_len().min(b.len());
                let s = format!(
                    "ok completed len={} pdulen={} data={} rest={} {} consumed={}",
                    b.len(),
                    m.pdu_len(),
                    hex(&b[..k]),
                    fnv(&b[k..]),
                    md_str(&m),
                    n
                );
                self.owned.push(b);
                s
            }
            Ok(Err((e, n))) => {
                let s = format!("err {} consumed={}", decerr_str(&e), n);
                if let DecapError::ErrorMemory(DecapMemoryError::StorageOverflow(b))
                | DecapError::ErrorMemory(DecapMemoryError::BufferTooSmall(b)) = e
                {
                    self.owned.push(b);
                }
                s
            }
        }
    }

    fn observe(&mut self) -> String {
        // last label: replay the history on a fresh world, then probe with an empty complete re-use packet
        let hist = self.history.clone();
        let last = {
            let mut w = World::new();
            for l in &hist {
                let _ = w.apply(l, false);
            }
            match w.dec.as_mut() {
                None => "nodec".to_string(),
                Some(d) => {
                    let probe = vec![0u8; w.dec_cfg.1.max(1)].into_boxed_slice();
                    if d.provision_storage(probe).is_err() {
                        // free list full or too small: there is a free buffer unless cap is reached with ... pop nothing
                    }
                    match catch_unwind(AssertUnwindSafe(|| d.decap(&[0xF0, 0x02, 0x08, 0x00]))) {
                        Err(_) => "PANIC".into(),
                        Ok(Ok((DecapStatus::CompletedPkt(_, m), _))) => label_str(&m.label()),
                        Ok(Err((DecapError::ErrorNoLabelSaved, _))) => "none".into(),
                        Ok(Err((DecapError::ErrorLabelBroadcastSaved, _))) => "B!".into(),
                        Ok(Err((DecapError::ErrorLabelReUseSaved, _))) => "R!".into(),
                        Ok(x) => format!("?{:?}", x.map(|(s, n)| (s.to_str(), n)).map_err(|(e, n)| (decerr_str(&e), n))),
                    }
                }
            }
        };
        let d = match self.dec.as_mut() {
            None => return "nodec".into(),
            Some(d) => d,
        };
        let mut m = d.memory.clone();
        let mut free = vec![];
        while let Ok(b) = m.new_pdu() {
            free.push(format!("{}:{}", b.len(), fnv(&b)));
        }
        let mut slots = vec![];
        for f in 0..=255u8 {
            if let Ok((c, b)) = m.take_frag(f) {
                slots.push(format!("{};{}:{}", ctx_str(&c), b.len(), fnv(&b)));
            }
        }
        format!("last={} free=[{}] slots=[{}]", last, free.join(" "), slots.join(" "))
    }

    fn apply(&mut self, line: &str, record: bool) -> String {
        let t: Vec<&str> = line.split(' ').collect();
        let op = t[0];
        if record && op != "DOBS" {
            self.history.push(line.to_string());
        }
        match op {
            "ENEW" => {
                self.enc = Encapsulator::new(DefaultCrc {});
                format!("enc {}", enc_state_str(&self.enc))
            }
            "ERESET" => {
                self.enc.reset_last_label();
                format!("enc {}", enc_state_str(&self.enc))
            }
            "EDIS" => {
                self.enc.disable_re_use_label();
                format!("enc {}", enc_state_str(&self.enc))
            }
            "EEN" => {
                self.enc.enable_re_use_label();
                format!("enc {}", enc_state_str(&self.enc))
            }
            "EENMAX" => {
                self.enc.enable_re_use_label_with_max_consecutive(t[1].parse().unwrap());
                format!("enc {}", enc_state_str(&self.enc))
            }
            "EISEN" => format!("ok {}", if self.enc.is_enabled_re_use_label() { 1 } else { 0 }),
            "ENCAP" | "EEXT" => {
                let pdu = bytes_tok(t[1]);
                let fid: u8 = t[2].parse().unwrap();
                let pt: u16 = t[3].parse().unwrap();
                let lab = label_tok(t[4]);
                let before = gen_bytes(t[5].parse().unwrap(), t[6].parse().unwrap());
                let mut buf = before.clone();
                let md = EncapMetadata::new(pt, lab);
                if op == "ENCAP" {
                    let r = catch_unwind(AssertUnwindSafe(|| self.enc.encap(&pdu, fid, md, &mut buf)));
                    self.enc_result(r, &before, &buf, &pdu, true)
                } else {
                    let exts = match catch_unwind(|| exts_tok(t[7])) {
                        Err(_) => return "PANIC extnew".into(),
                        Ok(Err(_)) => return "err extnew".into(),
                        Ok(Ok(e)) => e,
                    };
                    let r = catch_unwind(AssertUnwindSafe(|| self.enc.encap_ext(&pdu, fid, md, &mut buf, exts)));
                    self.enc_result(r, &before, &buf, &pdu, true)
                }
            }
            "EFRAG" => {
                let pdu = bytes_tok(t[1]);
                let ctx = ContextFrag::new(t[2].parse().unwrap(), t[3].parse().unwrap(), t[4].parse().unwrap());
                let before = gen_bytes(t[5].parse().unwrap(), t[6].parse().unwrap());
                let mut buf = before.clone();
                let r = catch_unwind(AssertUnwindSafe(|| self.enc.encap_frag(&pdu, &ctx, &mut buf)));
                self.enc_result(r, &before, &buf, &pdu, true)
            }
            "EFRAGC" => {
                let ctx = match self.last_ctx {
                    None => return "skip".into(),
                    Some(c) => c,
                };
                let pdu = self.last_pdu.clone();
                let before = gen_bytes(t[1].parse().unwrap(), t[2].parse().unwrap());
                let mut buf = before.clone();
                let r = catch_unwind(AssertUnwindSafe(|| self.enc.encap_frag(&pdu, &ctx, &mut buf)));
                // a rejected buffer keeps the context for the next attempt
                let keep = self.last_ctx;
                let keep_pkt = self.last_pkt.clone();
                let s = self.enc_result(r, &before, &buf, &pdu, true);
                if s.starts_with("err") || s.starts_with("PANIC") {
                    self.last_ctx = keep;
                    self.last_pkt = keep_pkt;
                }
                s
            }
            "PENCAP" => {
                let pdu = bytes_tok(t[1]);
                let md = EncapMetadata::new(t[2].parse().unwrap(), label_tok(t[3]));
                let buf = vec![0u8; t[4].parse().unwrap()];
                match catch_unwind(|| encap_preview(&pdu, md, &buf)) {
                    Err(_) => "PANIC".into(),
                    Ok(Err(e)) => format!("err {}", enc_err(&e)),
                    Ok(Ok(p)) => format!("ok {} {} {}", kind_str(&p.pkt_type()), p.pdu_len(), p.pkt_len()),
                }
            }
            "PFRAG" => {
                let pdu = bytes_tok(t[1]);
                let ctx = ContextFrag::new(t[2].parse().unwrap(), t[3].parse().unwrap(), t[4].parse().unwrap());
                let buf = vec![0u8; t[5].parse().unwrap()];
                match catch_unwind(|| encap_frag_preview(&pdu, &ctx, &buf)) {
                    Err(_) => "PANIC".into(),
                    Ok(Err(e)) => format!("err {}", enc_err(&e)),
                    Ok(Ok(p)) => format!("ok {} {} {}", kind_str(&p.pkt_type()), p.pdu_len(), p.pkt_len()),
                }
            }
            "DNEW" => {
                let slots: usize = t[1].parse().unwrap();
                let maxpdu: usize = t[2].parse().unwrap();
                let mem = SimpleGseMemory::new(slots, maxpdu, 0, 0);
                self.dec = Some(Decapsulator::new(mem, DefaultCrc {}, mgr_tok(t[3])));
                self.dec_cfg = (slots, maxpdu);
                self.owned.clear();
                self.held = None;
                self.nprov = 0;
                "ok".into()
            }
            "DPROV" => {
                let size: usize = t[1].parse().unwrap();
                let fill = ((self.nprov * 37 + 11) & 0xFF) as u8;
                self.nprov += 1;
                let b = vec![fill; size].into_boxed_slice();
                let d = self.dec.as_mut().unwrap();
                match d.provision_storage(b) {
                    Ok(()) => "ok".into(),
                    Err(e) => {
                        let s = format!("err {}", memerr_str(&e));
                        if let DecapMemoryError::StorageOverflow(b) | DecapMemoryError::BufferTooSmall(b) = e {
                            self.owned.push(b);
                        }
                        s
                    }
                }
            }
            "DPROVBACK" => {
                let b = match self.owned.pop() {
                    None => return "none".into(),
                    Some(b) => b,
                };
                let d = self.dec.as_mut().unwrap();
                match d.provision_storage(b) {
                    Ok(()) => "ok".into(),
                    Err(e) => {
                        let s = format!("err {}", memerr_str(&e));
                        if let DecapMemoryError::StorageOverflow(b) | DecapMemoryError::BufferTooSmall(b) = e {
                            self.owned.push(b);
                        }
                        s
                    }
                }
            }
            "DNEWPDU" => {
                let d = self.dec.as_mut().unwrap();
                match d.new_pdu() {
                    Ok(b) => {
                        let s = format!("ok {}:{}", b.len(), fnv(&b));
                        self.owned.push(b);
                        s
                    }
                    Err(e) => format!("err {}", memerr_str(&e)),
                }
            }
            "DRESET" => {
                self.dec.as_mut().unwrap().reset_last_label();
                "ok".into()
            }
            "DECAP" | "DECAPL" | "DECAPN" => {
                if op == "DECAPN" {
                    // lock-step: only a packet produced since the last delivery is delivered
                    if !self.fresh {
                        return "nopkt".into();
                    }
                    self.fresh = false;
                }
                let bytes = if op == "DECAP" {
                    bytes_tok(t[1])
                } else {
                    let mut b = self.last_pkt.clone();
                    b.extend_from_slice(&bytes_tok(t[1]));
                    b
                };
                let d = self.dec.as_mut().unwrap();
                let r = catch_unwind(AssertUnwindSafe(|| d.decap(&bytes)));
                self.dec_result(r)
            }
            "FCLEARFRESH" => {
                self.fresh = false;
                "ok".into()
            }
            "FCLEAR" => {
                self.frame.clear();
                "ok".into()
            }
            "FPUSH" => {
                // append the packet produced since the last delivery / push to the frame under construction
                if !self.fresh {
                    return "nopkt".into();
                }
                self.fresh = false;
                let p = self.last_pkt.clone();
                self.frame.extend_from_slice(&p);
                format!("ok {}", self.frame.len())
            }
            "FPAD" => {
                let n: usize = t[1].parse().unwrap();
                self.frame.extend(std::iter::repeat(0u8).take(n));
                format!("ok {}", self.frame.len())
            }
            "FRAW" => {
                self.frame.extend_from_slice(&bytes_tok(t[1]));
                format!("ok {}", self.frame.len())
            }
            "FWALK" => {
                // a receiver walking the frame by consumed lengths
                let frame = self.frame.clone();
                let mut off = 0usize;
                let mut out = vec![];
                let mut steps = 0;
                while off < frame.len() && steps < 300 {
                    steps += 1;
                    let d = self.dec.as_mut().unwrap();
                    let r = catch_unwind(AssertUnwindSafe(|| d.decap(&frame[off..])));
                    let s = self.dec_result(r);
                    let c: usize = match s.rfind("consumed=") {
                        Some(i) => s[i + 9..].parse().unwrap_or(0),
                        None => 0,
                    };
                    out.push(s);
                    if c == 0 {
                        break;
                    }
                    off += c;
                }
                format!("walk {} | {}", off, out.join(" | "))
            }
            "PEEK" | "PEEKL" => {
                let bytes = if op == "PEEK" {
                    bytes_tok(t[1])
                } else {
                    let mut b = self.last_pkt.clone();
                    b.extend_from_slice(&bytes_tok(t[1]));
                    b
                };
                let d = self.dec.as_ref().unwrap();
                match catch_unwind(AssertUnwindSafe(|| d.get_label_or_frag_id(&bytes))) {
                    Err(_) => "PANIC".into(),
                    Ok(Ok(LabelorFragId::Lbl(l))) => format!("ok label {}", label_str(&l)),
                    Ok(Ok(LabelorFragId::FragId(f))) => format!("ok fragid {}", f),
                    Ok(Err(e)) => format!(
                        "err {}",
                        match e {
                            GetLabelorFragIdError::ErrLabelReuse => "LabelReuse",
                            GetLabelorFragIdError::ErrSizeBuffer => "SizeBuffer",
                            GetLabelorFragIdError::ErrHeaderRead => "HeaderRead",
                            GetLabelorFragIdError::ErrorUnkownMandatoryHeader => "UnkownMandatoryHeader",
                        }
                    ),
                }
            }
            "DOBS" => self.observe(),
            "MNEWFRAG" => {
                let c = ctx_tok(t[1]);
                let d = self.dec.as_mut().unwrap();
                match catch_unwind(AssertUnwindSafe(|| d.memory.new_frag(c))) {
                    Err(_) => "PANIC".into(),
                    Ok(Ok((c, b))) => {
                        let s = format!("ok {};{}:{}", ctx_str(&c), b.len(), fnv(&b));
                        if let Some((_, old)) = self.held.take() {
                            self.owned.push(old);
                        }
                        self.held = Some((c, b));
                        s
                    }
                    Ok(Err(e)) => format!("err {}", memerr_str(&e)),
                }
            }
            "MTAKE" => {
                let d = self.dec.as_mut().unwrap();
                match catch_unwind(AssertUnwindSafe(|| d.memory.take_frag(t[1].parse().unwrap()))) {
                    Err(_) => "PANIC".into(),
                    Ok(Ok((c, b))) => {
                        let s = format!("ok {};{}:{}", ctx_str(&c), b.len(), fnv(&b));
                        if let Some((_, old)) = self.held.take() {
                            self.owned.push(old);
                        }
                        self.held = Some((c, b));
                        s
                    }
                    Ok(Err(e)) => format!("err {}", memerr_str(&e)),
                }
            }
            "MSAVE" | "MSAVEC" => {
                let (c, b) = match self.held.take() {
                    None => return "none".into(),
                    Some(x) => x,
                };
                let c = if op == "MSAVEC" { ctx_tok(t[1]) } else { c };
                let d = self.dec.as_mut().unwrap();
                match catch_unwind(AssertUnwindSafe(|| d.memory.save_frag((c, b)))) {
                    Err(_) => "PANIC".into(),
                    Ok(Ok(())) => "ok".into(),
                    Ok(Err(e)) => format!("err {}", memerr_str(&e)),
                }
            }
            "HGEN" => {
                let k = match t[1] {
                    "C" => 0xC000u16,
                    "F" => 0x8000,
                    "E" => 0x4000,
                    _ => 0x1000, // intermediate: any non-padding intermediate header
                };
                let (_, pk, _) = read_gse_header(k).unwrap();
                let lt = match t[2] {
                    "6" => LabelType::SixBytesLabel,
                    "3" => LabelType::ThreeBytesLabel,
                    "B" => LabelType::Broadcast,
                    _ => LabelType::ReUse,
                };
                match catch_unwind(|| generate_gse_header(&pk, &lt, t[3].parse().unwrap())) {
                    Err(_) => "PANIC".into(),
                    Ok(w) => format!("{}", w),
                }
            }
            "HREAD" => hread(t[1].parse().unwrap()),
            "HREADR" => {
                let a: u32 = t[1].parse().unwrap();
                let b: u32 = t[2].parse().unwrap();
                let mut all = String::new();
                for w in a..b {
                    all.push_str(&hread(w as u16));
                    all.push('\n');
                }
                fnv(all.as_bytes())
            }
            "CRC" => {
                let pdu = bytes_tok(t[1]);
                let lab = bytes_tok(t[4]);
                match catch_unwind(|| DefaultCrc {}.calculate_crc32(&pdu, t[2].parse().unwrap(), t[3].parse().unwrap(), &lab)) {
                    Err(_) => "PANIC".into(),
                    Ok(v) => format!("{}", v),
                }
            }
            "XNEW" => {
                let id = u16::from_str_radix(t[1], 16).unwrap();
                let data = bytes_tok(t[2]);
                match catch_unwind(|| Extension::new(id, &data)) {
                    Err(_) => "PANIC".into(),
                    Ok(Ok(e)) => format!("ok {} len={}", ext_str(&e), e.len()),
                    Ok(Err(NewExtensionError::IdAndVecSizeNotMatchingError)) => "err IdAndVecSizeNotMatching".into(),
                    Ok(Err(NewExtensionError::IncorrectExtensionId)) => "err IncorrectExtensionId".into(),
                }
            }
            "XMGR" => {
                // bundled managers: simple | signal
                use dvb_gse_rust::header_extension::{
                    SignalisationMandatoryExtensionHeaderManager, SimpleMandatoryExtensionHeaderManager,
                };
                let id = u16::from_str_radix(t[2], 16).unwrap();
                let r = if t[1] == "signal" {
                    SignalisationMandatoryExtensionHeaderManager {}.is_mandatory_header_id_known(id)
                } else {
                    SimpleMandatoryExtensionHeaderManager {}.is_mandatory_header_id_known(id)
                };
                match r {
                    MandatoryHeaderExt::Final(n) => format!("final {}", n),
                    MandatoryHeaderExt::NonFinal(n) => format!("nonfinal {}", n),
                    MandatoryHeaderExt::Unknown => "unknown".into(),
                }
            }
            "UGEN" => {
                // UGEN C gse_len ptype label pdu buflen bufseed | UGEN F gse_len fid total ptype label pdu buflen bufseed
                // UGEN I gse_len fid pdu buflen bufseed | UGEN E gse_len fid pdu crc buflen bufseed
                let n = t.len();
                let mut buf = gen_bytes(t[n - 2].parse().unwrap(), t[n - 1].parse().unwrap());
                let g: u16 = t[2].parse().unwrap();
                let r = catch_unwind(AssertUnwindSafe(|| match t[1] {
                    "C" => {
                        let pdu = bytes_tok(t[5]);
                        GseCompletePacket::new(g, t[3].parse().unwrap(), label_tok(t[4]), &pdu).generate(&mut buf)
                    }
                    "F" => {
                        let pdu = bytes_tok(t[7]);
                        GseFirstFragPacket::new(g, t[3].parse().unwrap(), t[4].parse().unwrap(), t[5].parse().unwrap(), label_tok(t[6]), &pdu)
                            .generate(&mut buf)
                    }
                    "I" => {
                        let pdu = bytes_tok(t[4]);
                        GseIntermediatePacket::new(g, t[3].parse().unwrap(), &pdu).generate(&mut buf)
                    }
                    _ => {
                        let pdu = bytes_tok(t[4]);
                        GseEndFragPacket::new(g, t[3].parse().unwrap(), &pdu, t[5].parse().unwrap()).generate(&mut buf)
                    }
                }));
                match r {
                    Err(_) => "PANIC".into(),
                    Ok(()) => format!("ok {}", hex(&buf)),
                }
            }
            "UPARSE" => {
                let bytes = bytes_tok(t[2]);
                let r = catch_unwind(|| match t[1] {
                    "C" => GseCompletePacket::parse(&bytes).map(|p| {
                        let d = format!("{:?}", p);
                        d
                    }),
                    "F" => GseFirstFragPacket::parse(&bytes).map(|p| format!("{:?}", p)),
                    "I" => GseIntermediatePacket::parse(&bytes).map(|p| format!("{:?}", p)),
                    _ => GseEndFragPacket::parse(&bytes).map(|p| format!("{:?}", p)),
                });
                match r {
                    Err(_) => "PANIC".into(),
                    Ok(Err(_)) => "err".into(),
                    Ok(Ok(d)) => format!("ok {}", canon_debug(&d)),
                }
            }
            _ => format!("?op {}", op),
        }
    }
}

// Debug of the utils structs -> "gse_len=.. frag_id=.. total_length=.. protocol_type=.. label=.. pdu=hex crc=.."
fn canon_debug(d: &str) -> String {
    // e.g. GseFirstFragPacket { gse_len: 10, frag_id: 1, total_length: 30, protocol_type: 2048, label: SixBytesLabel([..]), pdu: [1, 2], }
    let mut out = vec![];
    let body = &d[d.find('{').unwrap() + 1..d.rfind('}').unwrap()];
    // split on top-level commas
    let mut depth = 0;
    let mut cur = String::new();
    let mut parts = vec![];
    for c in body.chars() {
        match c {
            '[' | '(' => {
                depth += 1;
                cur.push(c)
            }
            ']' | ')' => {
                depth -= 1;
                cur.push(c)
            }
            ',' if depth == 0 => {
                parts.push(cur.trim().to_string());
                cur.clear()
            }
            _ => cur.push(c),
        }
    }
    if !cur.trim().is_empty() {
        parts.push(cur.trim().to_string());
    }
    for p in parts {
        let i = p.find(':').unwrap();
        let (k, v) = (p[..i].trim(), p[i + 1..].trim());
        let v = if k == "pdu" {
            let inner = &v[1..v.len() - 1];
            let bytes: Vec<u8> = if inner.trim().is_empty() { vec![] } else { inner.split(',').map(|x| x.trim().parse().unwrap()).collect() };
            hex(&bytes)
        } else if k == "label" {
            if v == "Broadcast" {
                "B".to_string()
            } else if v == "ReUse" {
                "R".to_string()
            } else {
                let six = v.starts_with("Six");
                let a = v.find('[').unwrap();
                let b = v.find(']').unwrap();
                let bytes: Vec<u8> = v[a + 1..b].split(',').map(|x| x.trim().parse().unwrap()).collect();
                format!("{}:{}", if six { 6 } else { 3 }, hex(&bytes))
            }
        } else {
            v.to_string()
        };
        out.push(format!("{}={}", k, v));
    }
    out.join(" ")
}

fn hread(w: u16) -> String {
    match catch_unwind(|| read_gse_header(w)) {
        Err(_) => "PANIC".into(),
        Ok(None) => "none".into(),
        Ok(Some((len, k, t))) => format!("{} {} {}", len, kind_str(&k), lt_str(&t)),
    }
}

fn main() {
    std::panic::set_hook(Box::new(|_| {}));
    let args: Vec<String> = std::env::args().collect();
    let input: Box<dyn BufRead> = if args.len() > 1 {
        Box::new(std::io::BufReader::new(std::fs::File::open(&args[1]).expect("case file")))
    } else {
        Box::new(std::io::BufReader::new(std::io::stdin()))
    };
    let stdout = std::io::stdout();
    let mut out = std::io::BufWriter::new(stdout.lock());
    let mut w = World::new();
    for line in input.lines() {
        let line = line.unwrap();
        let line = line.trim_end();
        if line.is_empty() || line.starts_with('#') {
            continue;
        }
        if line.starts_with("CASE") {
            w = World::new();
            writeln!(out, "{}", line).unwrap();
            continue;
        }
        // a panic that escapes the per-call catch_unwind (e.g. inside the state observation) must not kill the executor:
        // the remaining cases of the shard would be lost
        let r = catch_unwind(AssertUnwindSafe(|| w.apply(line, true))).unwrap_or_else(|_| "PANIC".into());
        writeln!(out, "{}", r).unwrap();
    }
}
