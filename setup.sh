#!/bin/sh
# setup_cmd: build the framework from files on disk only (offline): translator, full Coq .vo build,
# extraction, OCaml driver, Rust harness.
set -e
cd "$(dirname "$0")"
export CARGO_NET_OFFLINE=true
exec ./check build
