(* SimpleGseMemory (src/gse_decap/gse_decap_memory/mod.rs). A storage buffer carries a ghost
   identity `bid` (a Box<[u8]> is moved, never copied, by the library). *)
Require Import GSE.gen.Consts GSE.model.Base GSE.model.Types GSE.model.Ext.
Open Scope N_scope.

Record sbuf := { bid : N; bdata : list byte }.

Record dctx := {
  c_label : label; c_ptype : N; c_fid : N; c_total : N; c_pdulen : N;
  c_reuse : bool; c_exts : list ext }.

Definition mctx := (dctx * sbuf)%type.

Inductive mem_error :=
  | MOverflow (b : sbuf) | MUnderflow | MUndefinedId | MTooSmall (b : sbuf) | MCorrupted.

(* storages: head of the list = last element of the Vec (push/pop end);
   cap = Vec::with_capacity(max_frag_id + MIN_MARGIN) (assumed exact, see DESIGN trusted base) *)
Record mem := {
  storages : list sbuf;
  frags : list (option mctx);
  max_frag_id : N;
  max_pdu_size : N;
  cap : N }.

Definition MIN_MARGIN : N := 2.

Definition set_storages (m : mem) (s : list sbuf) : mem :=
  {| storages := s; frags := frags m; max_frag_id := max_frag_id m; max_pdu_size := max_pdu_size m; cap := cap m |}.
Definition set_frags (m : mem) (f : list (option mctx)) : mem :=
  {| storages := storages m; frags := f; max_frag_id := max_frag_id m; max_pdu_size := max_pdu_size m; cap := cap m |}.

Definition noneN {A} (n : N) : list (option A) := N.recursion [] (fun _ l => None :: l) n.

Definition mem_new (max_frag max_pdu : N) : mem :=
  {| storages := []; frags := noneN max_frag; max_frag_id := max_frag; max_pdu_size := max_pdu;
     cap := max_frag + MIN_MARGIN |}.

Definition provision (m : mem) (b : sbuf) : mem * option mem_error :=
  if cap m =? lenN (storages m) then (m, Some (MOverflow b))
  else if lenN (bdata b) <? max_pdu_size m then (m, Some (MTooSmall b))
  else (set_storages m (b :: storages m), None).

Definition new_pdu (m : mem) : mem * (sbuf + mem_error) :=
  match storages m with
  | [] => (m, inr MUnderflow)
  | b :: t => (set_storages m t, inl b)
  end.

(* self.frags[idx] = v (index out of range panics) *)
Fixpoint set_nth {A} (l : list A) (i : N) (v : A) : res (list A) :=
  match l with
  | [] => Panic
  | x :: t => if i =? 0 then Ret (v :: t) else do t' <- set_nth t (N.pred i) v; Ret (x :: t')
  end.
Definition get_slot (m : mem) (i : N) : res (option mctx) :=
  match nthN i (frags m) with Some s => Ret s | None => Panic end.

(* frag_id as usize % self.max_frag_id (remainder by zero panics; guarded since fix 3e3b72f) *)
Definition slot_idx (m : mem) (fid : N) : res N :=
  if max_frag_id m =? 0 then Panic else Ret (fid mod max_frag_id m).

Definition new_frag (m : mem) (c : dctx) : res (mem * (mctx + mem_error)) :=
  if max_frag_id m =? 0 then Ret (m, inr MUnderflow) else
  do i <- slot_idx m (c_fid c);
  do old <- get_slot m i;
  do fr <- set_nth (frags m) i None;
  let m1 := set_frags m fr in
  match old with
  | None => match new_pdu m1 with
            | (m2, inl b) => Ret (m2, inl (c, b))
            | (m2, inr e) => Ret (m2, inr e)
            end
  | Some (_, b) => Ret (m1, inl (c, b))
  end.

Definition take_frag (m : mem) (fid : N) : res (mem * (mctx + mem_error)) :=
  if max_frag_id m =? 0 then Ret (m, inr MUndefinedId) else
  do i <- slot_idx m fid;
  do cur <- get_slot m i;
  match cur with
  | Some (c, b) =>
    if c_fid c =? fid then
      do fr <- set_nth (frags m) i None;
      Ret (set_frags m fr, inl (c, b))
    else Ret (m, inr MUndefinedId)
  | None => Ret (m, inr MUndefinedId)
  end.

(* save_frag consumes the context: on MemoryCorrupted the buffer is dropped *)
Definition save_frag (m : mem) (cb : mctx) : res (mem * option mem_error) :=
  if max_frag_id m =? 0 then Ret (m, Some MCorrupted) else
  do i <- slot_idx m (c_fid (fst cb));
  do cur <- get_slot m i;
  match cur with
  | None => do fr <- set_nth (frags m) i (Some cb); Ret (set_frags m fr, None)
  | Some _ => Ret (m, Some MCorrupted)
  end.
