gen/Consts.vo gen/Consts.glob gen/Consts.v.beautified gen/Consts.required_vo: gen/Consts.v 
gen/Consts.vio: gen/Consts.v 
gen/Consts.vos gen/Consts.vok gen/Consts.required_vos: gen/Consts.v 
gen/CrcTable.vo gen/CrcTable.glob gen/CrcTable.v.beautified gen/CrcTable.required_vo: gen/CrcTable.v 
gen/CrcTable.vio: gen/CrcTable.v 
gen/CrcTable.vos gen/CrcTable.vok gen/CrcTable.required_vos: gen/CrcTable.v 
gen/HLenTable.vo gen/HLenTable.glob gen/HLenTable.v.beautified gen/HLenTable.required_vo: gen/HLenTable.v 
gen/HLenTable.vio: gen/HLenTable.v 
gen/HLenTable.vos gen/HLenTable.vok gen/HLenTable.required_vos: gen/HLenTable.v 
model/Base.vo model/Base.glob model/Base.v.beautified model/Base.required_vo: model/Base.v 
model/Base.vio: model/Base.v 
model/Base.vos model/Base.vok model/Base.required_vos: model/Base.v 
model/Types.vo model/Types.glob model/Types.v.beautified model/Types.required_vo: model/Types.v gen/Consts.vo model/Base.vo
model/Types.vio: model/Types.v gen/Consts.vio model/Base.vio
model/Types.vos model/Types.vok model/Types.required_vos: model/Types.v gen/Consts.vos model/Base.vos
model/Header.vo model/Header.glob model/Header.v.beautified model/Header.required_vo: model/Header.v gen/Consts.vo model/Base.vo model/Types.vo
model/Header.vio: model/Header.v gen/Consts.vio model/Base.vio model/Types.vio
model/Header.vos model/Header.vok model/Header.required_vos: model/Header.v gen/Consts.vos model/Base.vos model/Types.vos
proofs/Tactics.vo proofs/Tactics.glob proofs/Tactics.v.beautified proofs/Tactics.required_vo: proofs/Tactics.v 
proofs/Tactics.vio: proofs/Tactics.v 
proofs/Tactics.vos proofs/Tactics.vok proofs/Tactics.required_vos: proofs/Tactics.v 
proofs/BaseLemmas.vo proofs/BaseLemmas.glob proofs/BaseLemmas.v.beautified proofs/BaseLemmas.required_vo: proofs/BaseLemmas.v model/Base.vo proofs/Tactics.vo
proofs/BaseLemmas.vio: proofs/BaseLemmas.v model/Base.vio proofs/Tactics.vio
proofs/BaseLemmas.vos proofs/BaseLemmas.vok proofs/BaseLemmas.required_vos: proofs/BaseLemmas.v model/Base.vos proofs/Tactics.vos
proofs/HeaderLemmas.vo proofs/HeaderLemmas.glob proofs/HeaderLemmas.v.beautified proofs/HeaderLemmas.required_vo: proofs/HeaderLemmas.v gen/Consts.vo model/Base.vo model/Types.vo model/Header.vo proofs/Tactics.vo
proofs/HeaderLemmas.vio: proofs/HeaderLemmas.v gen/Consts.vio model/Base.vio model/Types.vio model/Header.vio proofs/Tactics.vio
proofs/HeaderLemmas.vos proofs/HeaderLemmas.vok proofs/HeaderLemmas.required_vos: proofs/HeaderLemmas.v gen/Consts.vos model/Base.vos model/Types.vos model/Header.vos proofs/Tactics.vos
proofs/CrcLemmas.vo proofs/CrcLemmas.glob proofs/CrcLemmas.v.beautified proofs/CrcLemmas.required_vo: proofs/CrcLemmas.v gen/Consts.vo gen/CrcTable.vo model/Base.vo model/Crc.vo proofs/Tactics.vo proofs/BaseLemmas.vo proofs/HeaderLemmas.vo
proofs/CrcLemmas.vio: proofs/CrcLemmas.v gen/Consts.vio gen/CrcTable.vio model/Base.vio model/Crc.vio proofs/Tactics.vio proofs/BaseLemmas.vio proofs/HeaderLemmas.vio
proofs/CrcLemmas.vos proofs/CrcLemmas.vok proofs/CrcLemmas.required_vos: proofs/CrcLemmas.v gen/Consts.vos gen/CrcTable.vos model/Base.vos model/Crc.vos proofs/Tactics.vos proofs/BaseLemmas.vos proofs/HeaderLemmas.vos
proofs/EncapSpec.vo proofs/EncapSpec.glob proofs/EncapSpec.v.beautified proofs/EncapSpec.required_vo: proofs/EncapSpec.v gen/Consts.vo model/Base.vo model/Types.vo model/Header.vo model/Ext.vo model/Encap.vo proofs/Tactics.vo proofs/BaseLemmas.vo proofs/HeaderLemmas.vo
proofs/EncapSpec.vio: proofs/EncapSpec.v gen/Consts.vio model/Base.vio model/Types.vio model/Header.vio model/Ext.vio model/Encap.vio proofs/Tactics.vio proofs/BaseLemmas.vio proofs/HeaderLemmas.vio
proofs/EncapSpec.vos proofs/EncapSpec.vok proofs/EncapSpec.required_vos: proofs/EncapSpec.v gen/Consts.vos model/Base.vos model/Types.vos model/Header.vos model/Ext.vos model/Encap.vos proofs/Tactics.vos proofs/BaseLemmas.vos proofs/HeaderLemmas.vos
proofs/EncapProps.vo proofs/EncapProps.glob proofs/EncapProps.v.beautified proofs/EncapProps.required_vo: proofs/EncapProps.v gen/Consts.vo model/Base.vo model/Types.vo model/Header.vo model/Ext.vo model/Encap.vo proofs/Tactics.vo proofs/BaseLemmas.vo proofs/HeaderLemmas.vo proofs/EncapSpec.vo
proofs/EncapProps.vio: proofs/EncapProps.v gen/Consts.vio model/Base.vio model/Types.vio model/Header.vio model/Ext.vio model/Encap.vio proofs/Tactics.vio proofs/BaseLemmas.vio proofs/HeaderLemmas.vio proofs/EncapSpec.vio
proofs/EncapProps.vos proofs/EncapProps.vok proofs/EncapProps.required_vos: proofs/EncapProps.v gen/Consts.vos model/Base.vos model/Types.vos model/Header.vos model/Ext.vos model/Encap.vos proofs/Tactics.vos proofs/BaseLemmas.vos proofs/HeaderLemmas.vos proofs/EncapSpec.vos
proofs/FragRun.vo proofs/FragRun.glob proofs/FragRun.v.beautified proofs/FragRun.required_vo: proofs/FragRun.v gen/Consts.vo model/Base.vo model/Types.vo model/Header.vo model/Ext.vo model/Encap.vo proofs/Tactics.vo proofs/BaseLemmas.vo proofs/HeaderLemmas.vo proofs/EncapSpec.vo proofs/EncapProps.vo
proofs/FragRun.vio: proofs/FragRun.v gen/Consts.vio model/Base.vio model/Types.vio model/Header.vio model/Ext.vio model/Encap.vio proofs/Tactics.vio proofs/BaseLemmas.vio proofs/HeaderLemmas.vio proofs/EncapSpec.vio proofs/EncapProps.vio
proofs/FragRun.vos proofs/FragRun.vok proofs/FragRun.required_vos: proofs/FragRun.v gen/Consts.vos model/Base.vos model/Types.vos model/Header.vos model/Ext.vos model/Encap.vos proofs/Tactics.vos proofs/BaseLemmas.vos proofs/HeaderLemmas.vos proofs/EncapSpec.vos proofs/EncapProps.vos
proofs/Policy.vo proofs/Policy.glob proofs/Policy.v.beautified proofs/Policy.required_vo: proofs/Policy.v gen/Consts.vo model/Base.vo model/Types.vo model/Header.vo model/Ext.vo model/Encap.vo proofs/Tactics.vo proofs/BaseLemmas.vo proofs/HeaderLemmas.vo proofs/EncapSpec.vo proofs/EncapProps.vo
proofs/Policy.vio: proofs/Policy.v gen/Consts.vio model/Base.vio model/Types.vio model/Header.vio model/Ext.vio model/Encap.vio proofs/Tactics.vio proofs/BaseLemmas.vio proofs/HeaderLemmas.vio proofs/EncapSpec.vio proofs/EncapProps.vio
proofs/Policy.vos proofs/Policy.vok proofs/Policy.required_vos: proofs/Policy.v gen/Consts.vos model/Base.vos model/Types.vos model/Header.vos model/Ext.vos model/Encap.vos proofs/Tactics.vos proofs/BaseLemmas.vos proofs/HeaderLemmas.vos proofs/EncapSpec.vos proofs/EncapProps.vos
proofs/MemoryLemmas.vo proofs/MemoryLemmas.glob proofs/MemoryLemmas.v.beautified proofs/MemoryLemmas.required_vo: proofs/MemoryLemmas.v gen/Consts.vo model/Base.vo model/Types.vo model/Ext.vo model/Memory.vo proofs/Tactics.vo proofs/BaseLemmas.vo
proofs/MemoryLemmas.vio: proofs/MemoryLemmas.v gen/Consts.vio model/Base.vio model/Types.vio model/Ext.vio model/Memory.vio proofs/Tactics.vio proofs/BaseLemmas.vio
proofs/MemoryLemmas.vos proofs/MemoryLemmas.vok proofs/MemoryLemmas.required_vos: proofs/MemoryLemmas.v gen/Consts.vos model/Base.vos model/Types.vos model/Ext.vos model/Memory.vos proofs/Tactics.vos proofs/BaseLemmas.vos
proofs/DecapBase.vo proofs/DecapBase.glob proofs/DecapBase.v.beautified proofs/DecapBase.required_vo: proofs/DecapBase.v gen/Consts.vo gen/HLenTable.vo model/Base.vo model/Types.vo model/Header.vo model/Ext.vo model/Memory.vo model/Decap.vo proofs/Tactics.vo proofs/BaseLemmas.vo proofs/HeaderLemmas.vo proofs/EncapSpec.vo
proofs/DecapBase.vio: proofs/DecapBase.v gen/Consts.vio gen/HLenTable.vio model/Base.vio model/Types.vio model/Header.vio model/Ext.vio model/Memory.vio model/Decap.vio proofs/Tactics.vio proofs/BaseLemmas.vio proofs/HeaderLemmas.vio proofs/EncapSpec.vio
proofs/DecapBase.vos proofs/DecapBase.vok proofs/DecapBase.required_vos: proofs/DecapBase.v gen/Consts.vos gen/HLenTable.vos model/Base.vos model/Types.vos model/Header.vos model/Ext.vos model/Memory.vos model/Decap.vos proofs/Tactics.vos proofs/BaseLemmas.vos proofs/HeaderLemmas.vos proofs/EncapSpec.vos
proofs/DecapSpec.vo proofs/DecapSpec.glob proofs/DecapSpec.v.beautified proofs/DecapSpec.required_vo: proofs/DecapSpec.v gen/Consts.vo gen/HLenTable.vo model/Base.vo model/Types.vo model/Header.vo model/Ext.vo model/Memory.vo model/Decap.vo proofs/Tactics.vo proofs/BaseLemmas.vo proofs/HeaderLemmas.vo proofs/EncapSpec.vo proofs/MemoryLemmas.vo proofs/DecapBase.vo
proofs/DecapSpec.vio: proofs/DecapSpec.v gen/Consts.vio gen/HLenTable.vio model/Base.vio model/Types.vio model/Header.vio model/Ext.vio model/Memory.vio model/Decap.vio proofs/Tactics.vio proofs/BaseLemmas.vio proofs/HeaderLemmas.vio proofs/EncapSpec.vio proofs/MemoryLemmas.vio proofs/DecapBase.vio
proofs/DecapSpec.vos proofs/DecapSpec.vok proofs/DecapSpec.required_vos: proofs/DecapSpec.v gen/Consts.vos gen/HLenTable.vos model/Base.vos model/Types.vos model/Header.vos model/Ext.vos model/Memory.vos model/Decap.vos proofs/Tactics.vos proofs/BaseLemmas.vos proofs/HeaderLemmas.vos proofs/EncapSpec.vos proofs/MemoryLemmas.vos proofs/DecapBase.vos
proofs/DecapProps.vo proofs/DecapProps.glob proofs/DecapProps.v.beautified proofs/DecapProps.required_vo: proofs/DecapProps.v gen/Consts.vo model/Base.vo model/Types.vo model/Header.vo model/Ext.vo model/Memory.vo model/Decap.vo proofs/Tactics.vo proofs/BaseLemmas.vo proofs/HeaderLemmas.vo proofs/EncapSpec.vo proofs/MemoryLemmas.vo proofs/DecapBase.vo proofs/DecapSpec.vo
proofs/DecapProps.vio: proofs/DecapProps.v gen/Consts.vio model/Base.vio model/Types.vio model/Header.vio model/Ext.vio model/Memory.vio model/Decap.vio proofs/Tactics.vio proofs/BaseLemmas.vio proofs/HeaderLemmas.vio proofs/EncapSpec.vio proofs/MemoryLemmas.vio proofs/DecapBase.vio proofs/DecapSpec.vio
proofs/DecapProps.vos proofs/DecapProps.vok proofs/DecapProps.required_vos: proofs/DecapProps.v gen/Consts.vos model/Base.vos model/Types.vos model/Header.vos model/Ext.vos model/Memory.vos model/Decap.vos proofs/Tactics.vos proofs/BaseLemmas.vos proofs/HeaderLemmas.vos proofs/EncapSpec.vos proofs/MemoryLemmas.vos proofs/DecapBase.vos proofs/DecapSpec.vos
proofs/Conserve.vo proofs/Conserve.glob proofs/Conserve.v.beautified proofs/Conserve.required_vo: proofs/Conserve.v gen/Consts.vo model/Base.vo model/Types.vo model/Header.vo model/Ext.vo model/Memory.vo model/Decap.vo proofs/Tactics.vo proofs/BaseLemmas.vo proofs/MemoryLemmas.vo proofs/DecapBase.vo proofs/DecapSpec.vo proofs/DecapProps.vo
proofs/Conserve.vio: proofs/Conserve.v gen/Consts.vio model/Base.vio model/Types.vio model/Header.vio model/Ext.vio model/Memory.vio model/Decap.vio proofs/Tactics.vio proofs/BaseLemmas.vio proofs/MemoryLemmas.vio proofs/DecapBase.vio proofs/DecapSpec.vio proofs/DecapProps.vio
proofs/Conserve.vos proofs/Conserve.vok proofs/Conserve.required_vos: proofs/Conserve.v gen/Consts.vos model/Base.vos model/Types.vos model/Header.vos model/Ext.vos model/Memory.vos model/Decap.vos proofs/Tactics.vos proofs/BaseLemmas.vos proofs/MemoryLemmas.vos proofs/DecapBase.vos proofs/DecapSpec.vos proofs/DecapProps.vos
props/C14.vo props/C14.glob props/C14.v.beautified props/C14.required_vo: props/C14.v model/Base.vo model/Types.vo model/Header.vo proofs/HeaderLemmas.vo
props/C14.vio: props/C14.v model/Base.vio model/Types.vio model/Header.vio proofs/HeaderLemmas.vio
props/C14.vos props/C14.vok props/C14.required_vos: props/C14.v model/Base.vos model/Types.vos model/Header.vos proofs/HeaderLemmas.vos
props/C12.vo props/C12.glob props/C12.v.beautified props/C12.required_vo: props/C12.v gen/CrcTable.vo model/Base.vo model/Crc.vo proofs/CrcLemmas.vo proofs/HeaderLemmas.vo
props/C12.vio: props/C12.v gen/CrcTable.vio model/Base.vio model/Crc.vio proofs/CrcLemmas.vio proofs/HeaderLemmas.vio
props/C12.vos props/C12.vok props/C12.required_vos: props/C12.v gen/CrcTable.vos model/Base.vos model/Crc.vos proofs/CrcLemmas.vos proofs/HeaderLemmas.vos
props/C09.vo props/C09.glob props/C09.v.beautified props/C09.required_vo: props/C09.v model/Base.vo model/Types.vo model/Ext.vo model/Encap.vo proofs/Tactics.vo proofs/EncapSpec.vo proofs/EncapProps.vo
props/C09.vio: props/C09.v model/Base.vio model/Types.vio model/Ext.vio model/Encap.vio proofs/Tactics.vio proofs/EncapSpec.vio proofs/EncapProps.vio
props/C09.vos props/C09.vok props/C09.required_vos: props/C09.v model/Base.vos model/Types.vos model/Ext.vos model/Encap.vos proofs/Tactics.vos proofs/EncapSpec.vos proofs/EncapProps.vos
props/C11.vo props/C11.glob props/C11.v.beautified props/C11.required_vo: props/C11.v model/Base.vo model/Types.vo model/Ext.vo model/Encap.vo proofs/Tactics.vo proofs/BaseLemmas.vo proofs/EncapSpec.vo proofs/EncapProps.vo proofs/FragRun.vo
props/C11.vio: props/C11.v model/Base.vio model/Types.vio model/Ext.vio model/Encap.vio proofs/Tactics.vio proofs/BaseLemmas.vio proofs/EncapSpec.vio proofs/EncapProps.vio proofs/FragRun.vio
props/C11.vos props/C11.vok props/C11.required_vos: props/C11.v model/Base.vos model/Types.vos model/Ext.vos model/Encap.vos proofs/Tactics.vos proofs/BaseLemmas.vos proofs/EncapSpec.vos proofs/EncapProps.vos proofs/FragRun.vos
props/C06.vo props/C06.glob props/C06.v.beautified props/C06.required_vo: props/C06.v model/Base.vo model/Types.vo model/Ext.vo model/Encap.vo proofs/Tactics.vo proofs/BaseLemmas.vo proofs/HeaderLemmas.vo proofs/EncapSpec.vo proofs/EncapProps.vo
props/C06.vio: props/C06.v model/Base.vio model/Types.vio model/Ext.vio model/Encap.vio proofs/Tactics.vio proofs/BaseLemmas.vio proofs/HeaderLemmas.vio proofs/EncapSpec.vio proofs/EncapProps.vio
props/C06.vos props/C06.vok props/C06.required_vos: props/C06.v model/Base.vos model/Types.vos model/Ext.vos model/Encap.vos proofs/Tactics.vos proofs/BaseLemmas.vos proofs/HeaderLemmas.vos proofs/EncapSpec.vos proofs/EncapProps.vos
props/C18.vo props/C18.glob props/C18.v.beautified props/C18.required_vo: props/C18.v model/Base.vo model/Types.vo model/Ext.vo model/Encap.vo proofs/Tactics.vo proofs/BaseLemmas.vo proofs/EncapSpec.vo proofs/EncapProps.vo
props/C18.vio: props/C18.v model/Base.vio model/Types.vio model/Ext.vio model/Encap.vio proofs/Tactics.vio proofs/BaseLemmas.vio proofs/EncapSpec.vio proofs/EncapProps.vio
props/C18.vos props/C18.vok props/C18.required_vos: props/C18.v model/Base.vos model/Types.vos model/Ext.vos model/Encap.vos proofs/Tactics.vos proofs/BaseLemmas.vos proofs/EncapSpec.vos proofs/EncapProps.vos
props/C15.vo props/C15.glob props/C15.v.beautified props/C15.required_vo: props/C15.v model/Base.vo model/Types.vo model/Ext.vo model/Encap.vo proofs/Tactics.vo proofs/EncapSpec.vo proofs/EncapProps.vo proofs/Policy.vo
props/C15.vio: props/C15.v model/Base.vio model/Types.vio model/Ext.vio model/Encap.vio proofs/Tactics.vio proofs/EncapSpec.vio proofs/EncapProps.vio proofs/Policy.vio
props/C15.vos props/C15.vok props/C15.required_vos: props/C15.v model/Base.vos model/Types.vos model/Ext.vos model/Encap.vos proofs/Tactics.vos proofs/EncapSpec.vos proofs/EncapProps.vos proofs/Policy.vos
props/C17.vo props/C17.glob props/C17.v.beautified props/C17.required_vo: props/C17.v model/Base.vo model/Types.vo model/Ext.vo model/Memory.vo proofs/Tactics.vo proofs/BaseLemmas.vo proofs/MemoryLemmas.vo
props/C17.vio: props/C17.v model/Base.vio model/Types.vio model/Ext.vio model/Memory.vio proofs/Tactics.vio proofs/BaseLemmas.vio proofs/MemoryLemmas.vio
props/C17.vos props/C17.vok props/C17.required_vos: props/C17.v model/Base.vos model/Types.vos model/Ext.vos model/Memory.vos proofs/Tactics.vos proofs/BaseLemmas.vos proofs/MemoryLemmas.vos
props/C05.vo props/C05.glob props/C05.v.beautified props/C05.required_vo: props/C05.v model/Base.vo model/Types.vo model/Ext.vo model/Memory.vo model/Decap.vo proofs/Tactics.vo proofs/BaseLemmas.vo proofs/MemoryLemmas.vo proofs/DecapSpec.vo proofs/DecapProps.vo
props/C05.vio: props/C05.v model/Base.vio model/Types.vio model/Ext.vio model/Memory.vio model/Decap.vio proofs/Tactics.vio proofs/BaseLemmas.vio proofs/MemoryLemmas.vio proofs/DecapSpec.vio proofs/DecapProps.vio
props/C05.vos props/C05.vok props/C05.required_vos: props/C05.v model/Base.vos model/Types.vos model/Ext.vos model/Memory.vos model/Decap.vos proofs/Tactics.vos proofs/BaseLemmas.vos proofs/MemoryLemmas.vos proofs/DecapSpec.vos proofs/DecapProps.vos
props/C08.vo props/C08.glob props/C08.v.beautified props/C08.required_vo: props/C08.v model/Base.vo model/Types.vo model/Ext.vo model/Memory.vo model/Decap.vo proofs/Tactics.vo proofs/BaseLemmas.vo proofs/MemoryLemmas.vo proofs/DecapSpec.vo proofs/DecapProps.vo proofs/Conserve.vo
props/C08.vio: props/C08.v model/Base.vio model/Types.vio model/Ext.vio model/Memory.vio model/Decap.vio proofs/Tactics.vio proofs/BaseLemmas.vio proofs/MemoryLemmas.vio proofs/DecapSpec.vio proofs/DecapProps.vio proofs/Conserve.vio
props/C08.vos props/C08.vok props/C08.required_vos: props/C08.v model/Base.vos model/Types.vos model/Ext.vos model/Memory.vos model/Decap.vos proofs/Tactics.vos proofs/BaseLemmas.vos proofs/MemoryLemmas.vos proofs/DecapSpec.vos proofs/DecapProps.vos proofs/Conserve.vos
model/Crc.vo model/Crc.glob model/Crc.v.beautified model/Crc.required_vo: model/Crc.v gen/Consts.vo gen/CrcTable.vo model/Base.vo
model/Crc.vio: model/Crc.v gen/Consts.vio gen/CrcTable.vio model/Base.vio
model/Crc.vos model/Crc.vok model/Crc.required_vos: model/Crc.v gen/Consts.vos gen/CrcTable.vos model/Base.vos
model/Ext.vo model/Ext.glob model/Ext.v.beautified model/Ext.required_vo: model/Ext.v gen/Consts.vo gen/HLenTable.vo model/Base.vo
model/Ext.vio: model/Ext.v gen/Consts.vio gen/HLenTable.vio model/Base.vio
model/Ext.vos model/Ext.vok model/Ext.required_vos: model/Ext.v gen/Consts.vos gen/HLenTable.vos model/Base.vos
model/Encap.vo model/Encap.glob model/Encap.v.beautified model/Encap.required_vo: model/Encap.v gen/Consts.vo model/Base.vo model/Types.vo model/Header.vo model/Ext.vo
model/Encap.vio: model/Encap.v gen/Consts.vio model/Base.vio model/Types.vio model/Header.vio model/Ext.vio
model/Encap.vos model/Encap.vok model/Encap.required_vos: model/Encap.v gen/Consts.vos model/Base.vos model/Types.vos model/Header.vos model/Ext.vos
model/Memory.vo model/Memory.glob model/Memory.v.beautified model/Memory.required_vo: model/Memory.v gen/Consts.vo model/Base.vo model/Types.vo model/Ext.vo
model/Memory.vio: model/Memory.v gen/Consts.vio model/Base.vio model/Types.vio model/Ext.vio
model/Memory.vos model/Memory.vok model/Memory.required_vos: model/Memory.v gen/Consts.vos model/Base.vos model/Types.vos model/Ext.vos
model/Decap.vo model/Decap.glob model/Decap.v.beautified model/Decap.required_vo: model/Decap.v gen/Consts.vo gen/HLenTable.vo model/Base.vo model/Types.vo model/Header.vo model/Ext.vo model/Memory.vo
model/Decap.vio: model/Decap.v gen/Consts.vio gen/HLenTable.vio model/Base.vio model/Types.vio model/Header.vio model/Ext.vio model/Memory.vio
model/Decap.vos model/Decap.vok model/Decap.required_vos: model/Decap.v gen/Consts.vos gen/HLenTable.vos model/Base.vos model/Types.vos model/Header.vos model/Ext.vos model/Memory.vos
model/Utils.vo model/Utils.glob model/Utils.v.beautified model/Utils.required_vo: model/Utils.v gen/Consts.vo model/Base.vo model/Types.vo model/Header.vo
model/Utils.vio: model/Utils.v gen/Consts.vio model/Base.vio model/Types.vio model/Header.vio
model/Utils.vos model/Utils.vok model/Utils.required_vos: model/Utils.v gen/Consts.vos model/Base.vos model/Types.vos model/Header.vos
extract/Extract.vo extract/Extract.glob extract/Extract.v.beautified extract/Extract.required_vo: extract/Extract.v model/Base.vo model/Types.vo model/Header.vo model/Crc.vo model/Ext.vo model/Encap.vo model/Memory.vo model/Decap.vo model/Utils.vo proofs/EncapSpec.vo proofs/DecapSpec.vo
extract/Extract.vio: extract/Extract.v model/Base.vio model/Types.vio model/Header.vio model/Crc.vio model/Ext.vio model/Encap.vio model/Memory.vio model/Decap.vio model/Utils.vio proofs/EncapSpec.vio proofs/DecapSpec.vio
extract/Extract.vos extract/Extract.vok extract/Extract.required_vos: extract/Extract.v model/Base.vos model/Types.vos model/Header.vos model/Crc.vos model/Ext.vos model/Encap.vos model/Memory.vos model/Decap.vos model/Utils.vos proofs/EncapSpec.vos proofs/DecapSpec.vos
