(* C03: a PDU is delivered at an end fragment only if the bytes accumulated since the first fragment that opened
   the reassembly have the announced length and CRC; history invariant over arbitrary receive histories.
   No model code. *)
Require Import GSE.gen.Consts GSE.model.Base GSE.model.Types GSE.model.Header GSE.model.Ext GSE.model.Encap
  GSE.model.Memory GSE.model.Decap
  GSE.proofs.Tactics GSE.proofs.BaseLemmas GSE.proofs.HeaderLemmas GSE.proofs.EncapSpec GSE.proofs.MemoryLemmas
  GSE.proofs.DecapBase GSE.proofs.DecapSpec GSE.proofs.DecapProps GSE.proofs.Conserve GSE.proofs.RoundTrip
  GSE.proofs.FragTrip GSE.proofs.Isolation.
Open Scope N_scope.

Section Verified.
Variable crc : list byte -> N -> N -> list byte -> N.
Variable mgr : N -> mand.

(* the payload bytes a fragment packet carries (as the receiver slices them) *)
Definition inter_payload (pkt : list byte) : list byte := dropN 3 pkt.
Definition end_payload (pkt : list byte) : list byte := takeN (lenN pkt - 7) (dropN 3 pkt).
Definition end_trailer (pkt : list byte) : N := rd32 (dropN (3 + (lenN pkt - 7)) pkt).

(* ---------- one end fragment: what a completion certifies ---------- *)
Lemma end_hl_completed s pkt blen s' b md n : dstate_wf s ->
  end_hl crc s pkt blen = (s', inl (DCompleted b md, n)) ->
  exists c pb, slot_of (dmem s) (hd0 (dropN 2 pkt)) = Some (c, pb) /\ c_fid c = hd0 (dropN 2 pkt) /\
    let P := takeN (c_pdulen c) (bdata pb) ++ end_payload pkt in
    lenN P = c_pdulen c + lenN (end_payload pkt) /\
    c_total c = lenN P + 2 + (if c_reuse c then 0 else lt_len (label_type (c_label c))) /\
    crc P (c_ptype c) (c_total c) (if c_reuse c then [] else label_bytes (c_label c)) = end_trailer pkt /\
    takeN (lenN P) (bdata b) = P /\ bid b = bid pb /\
    md = {| md_pdu_len := lenN P; md_ptype := c_ptype c; md_label := c_label c; md_exts := c_exts c |} /\
    n = lenN pkt /\ slot_of (dmem s') (hd0 (dropN 2 pkt)) = None.
Proof.
  intros Hwf. unfold end_hl, err_last. destruct (N.ltb_spec (lenN pkt - 2) 5); [discriminate|]. cbv zeta.
  destruct (take_frag_fn (dmem s) (hd0 (dropN 2 pkt))) as [m [[c pb]|e]] eqn:Et; [|discriminate].
  destruct (mem_ok_take_frag _ _ _ _ Hwf Et) as (Hok & Hmf & Hmp & Hst & Hso & Hctx & Hbo & Hfid & Hnone & Hz & _).
  destruct Hctx as (Hc1 & Hc2 & Hc3). cbn [fst snd] in *.
  destruct (N.ltb_spec (lenN (bdata pb) - c_pdulen c) (lenN pkt - 7)) as [Hsm|Hbig].
  { unfold give_back_hl. destruct (provision _ _) as [? [?|]]; discriminate. }
  fold (end_payload pkt). fold (end_trailer pkt).
  assert (Lpay : lenN (end_payload pkt) = lenN pkt - 7) by (unfold end_payload; rewrite lenN_takeN, lenN_dropN; lia).
  destruct (N.eqb_spec (c_total c) (c_pdulen c + (lenN pkt - 7) + 2 + (if c_reuse c then 0 else lt_len (label_type (c_label c))))) as [Htot|Htot]; cbn [negb].
  2:{ unfold give_back_hl. destruct (provision _ _) as [? [?|]]; discriminate. }
  match goal with |- context [negb (?a =? ?b)] => destruct (N.eqb_spec a b) as [Hcrc|Hcrc] end; cbn [negb].
  2:{ unfold give_back_hl. destruct (provision _ _) as [? [?|]]; discriminate. }
  intros [= <- <- <- <-]. exists c, pb. split; [exact Hso|]. split; [exact Hfid|]. cbv zeta.
  assert (LP : lenN (takeN (c_pdulen c) (bdata pb) ++ end_payload pkt) = c_pdulen c + lenN (end_payload pkt))
    by (rewrite lenN_app, lenN_takeN; lia).
  rewrite LP, Lpay. split; [reflexivity|]. split; [exact Htot|].
  assert (TD : takeN (c_pdulen c + (lenN pkt - 7))
                 (takeN (c_pdulen c) (bdata pb) ++ end_payload pkt ++ dropN (c_pdulen c + (lenN pkt - 7)) (bdata pb))
               = takeN (c_pdulen c) (bdata pb) ++ end_payload pkt).
  { rewrite app_assoc. apply takeN_app_eq. rewrite LP, Lpay. reflexivity. }
  rewrite TD in Hcrc. split; [exact Hcrc|]. cbn [bdata bid]. split; [exact TD|]. split; [reflexivity|].
  split; [reflexivity|]. split; [reflexivity|]. cbn [dmem set_dmem]. exact Hnone.
Qed.

(* ---------- the packet at the head of a buffer ---------- *)
Definition head_pkt (buf : list byte) : option (kind * ltype * list byte) :=
  if lenN buf <? 2 then None else
  match hdr_view (rd16 (takeN 2 buf)) with
  | Some (gl, k, t) => if lenN buf <? gl + 2 then None else Some (k, t, takeN (gl + 2) buf)
  | None => None
  end.
Lemma decap_hl_head s buf :
  decap_hl crc mgr s buf =
  match head_pkt buf with
  | Some (KComplete, t, p) => complete_hl mgr s p t (lenN buf)
  | Some (KFirst, t, p) => first_hl mgr s p t (lenN buf)
  | Some (KInter, _, p) => inter_hl s p (lenN buf)
  | Some (KEnd, _, p) => end_hl crc s p (lenN buf)
  | None => decap_hl crc mgr s buf
  end.
Proof.
  unfold decap_hl, head_pkt. destruct (lenN buf <? 2); [reflexivity|].
  destruct (hdr_view (rd16 (takeN 2 buf))) as [[[gl k] t]|]; [|reflexivity].
  destruct (lenN buf <? gl + 2); [reflexivity|]. destruct k; reflexivity.
Qed.
Lemma decap_hl_nohead s buf : head_pkt buf = None -> dmem (fst (decap_hl crc mgr s buf)) = dmem s.
Proof.
  unfold decap_hl, head_pkt, err_last. destruct (lenN buf <? 2); [reflexivity|].
  destruct (hdr_view (rd16 (takeN 2 buf))) as [[[gl k] t]|]; [|reflexivity].
  destruct (lenN buf <? gl + 2); [reflexivity|discriminate].
Qed.

Definition is_frag_ok (r : dec_result) : bool := match r with inl (DFragmented _, _) => true | _ => false end.

(* ---------- what each accepted fragment does to its slot ---------- *)
Lemma first_hl_accepted s pkt t blen s' md n : dstate_wf s ->
  first_hl mgr s pkt t blen = (s', inl (DFragmented md, n)) ->
  exists c b w, slot_of (dmem s') (hd0 (dropN 2 pkt)) = Some (c, b) /\ c_fid c = hd0 (dropN 2 pkt) /\
    walk_fn mgr (dropN (7 + lt_len t) pkt) (rd16 (takeN 2 (dropN 5 pkt))) = inl w /\
    let payload := dropN (7 + lt_len t + w_len w) pkt in
    c_pdulen c = lenN payload /\ takeN (lenN payload) (bdata b) = payload /\
    c_total c = rd16 (takeN 2 (dropN 3 pkt)) /\ c_ptype c = w_ptype w /\ c_exts c = w_exts w /\
    c_reuse c = ltype_eqb t TR /\ md_label md = c_label c /\ md_ptype md = c_ptype c /\
    max_frag_id (dmem s') = max_frag_id (dmem s) /\
    (forall f, f mod max_frag_id (dmem s) <> hd0 (dropN 2 pkt) mod max_frag_id (dmem s) ->
               slot_of (dmem s') f = slot_of (dmem s) f).
Proof.
  intros Hwf H. pose proof (first_hl_slots mgr s pkt t blen) as FS.
  unfold first_hl, err_last in *. destruct (_ <? _); [discriminate|]. cbv zeta in *.
  destruct (is_zero6 _); [discriminate|].
  destruct (resolve_hl s t _) as [[s1 cur]|e] eqn:Er; [|discriminate].
  pose proof (resolve_hl_wf _ _ _ _ _ Hwf Er) as Hwf1. pose proof (resolve_hl_mem _ _ _ _ _ Er) as Hm1.
  destruct (walk_fn mgr _ _) as [w|[|]] eqn:Ew; try discriminate.
  destruct (_ <=? _); [discriminate|].
  match type of H with context [new_frag_fn (dmem s1) ?c] => destruct (new_frag_fn (dmem s1) c) as [m [[c' pb]|e]] eqn:En end;
    [|discriminate].
  destruct (mem_ok_new_frag _ _ _ _ Hwf1 En) as (Hok & Hmf & Hmp & -> & Hbo & Hsl & Hz).
  destruct (N.ltb_spec (lenN (bdata pb)) (lenN (dropN (7 + lt_len t + w_len w) pkt))) as [Hsm|Hbig].
  { unfold give_back_hl in H. destruct (provision _ _) as [? [?|]]; discriminate. }
  match type of H with context [save_frag_fn m ?x] => set (cb := x) in * end.
  destruct (save_frag_empty m cb) as (Esv & _); [apply Hok|now rewrite Hmf|exact Hsl|].
  rewrite Esv in *. injection H as <- <- <-.
  eexists _, _, w. cbn [dmem set_dmem]. destruct Hok as (Hmw & _).
  rewrite slot_of_set_slot by (try assumption; apply N.mod_lt; now rewrite Hmf).
  cbn [fst cb c_fid]. rewrite N.eqb_refl. split; [reflexivity|]. split; [reflexivity|]. split; [reflexivity|].
  cbv zeta. cbn [snd cb bdata c_pdulen c_total c_ptype c_exts c_reuse c_label md_label md_ptype].
  split; [reflexivity|]. split; [now rewrite takeN_app_eq|]. repeat split; auto.
  all: try (cbn [max_frag_id set_slot set_frags]; congruence).
  all: try (intros f Hne; specialize (FS f Hwf Hne); cbn [fst dmem set_dmem] in FS; exact FS).
Qed.

Lemma inter_hl_cases s pkt blen : dstate_wf s -> 2 <= lenN pkt - 2 ->
  let g := hd0 (dropN 2 pkt) in
  let r := inter_hl s pkt blen in
  max_frag_id (dmem (fst r)) = max_frag_id (dmem s) /\
  (forall f, f mod max_frag_id (dmem s) <> g mod max_frag_id (dmem s) -> slot_of (dmem (fst r)) f = slot_of (dmem s) f) /\
  match slot_of (dmem s) g with
  | Some (c, b) =>
      if c_fid c =? g then
        if is_frag_ok (snd r)
        then slot_of (dmem (fst r)) g = Some (ctx_adv c (lenN (inter_payload pkt)), buf_put b (c_pdulen c) (inter_payload pkt))
             /\ c_pdulen c + lenN (inter_payload pkt) <= lenN (bdata b)
        else slot_of (dmem (fst r)) g = None
      else is_frag_ok (snd r) = false /\ dmem (fst r) = dmem s
  | None => is_frag_ok (snd r) = false /\ dmem (fst r) = dmem s
  end.
Proof.
  intros Hwf Hlen g r. subst r.
  unfold inter_hl, err_last in *. destruct (N.leb_spec (lenN pkt - 2) 1); [lia|]. cbv zeta in *. fold g.
  destruct (take_frag_fn (dmem s) g) as [m [[c pb]|e]] eqn:Et.
  2:{ destruct (mem_ok_take_frag _ _ _ _ Hwf Et) as (_ & _ & _ & _ & ->). cbn [fst snd dmem set_dmem is_frag_ok].
      split; [reflexivity|]. split; [auto|].
      unfold take_frag_fn in Et. destruct (max_frag_id (dmem s) =? 0) eqn:Ez.
      - unfold slot_of. apply N.eqb_eq in Ez. rewrite Ez.
        destruct Hwf as ((Hf & _) & _). rewrite Ez in Hf. apply lenN_0_nil in Hf. rewrite Hf. cbn. auto.
      - destruct (slot_of (dmem s) g) as [[c0 b0]|]; [|auto]. destruct (c_fid c0 =? g); [discriminate|auto]. }
  destruct (mem_ok_take_frag _ _ _ _ Hwf Et) as (Hok & Hmf & Hmp & Hst & Hso & Hctx & Hbo & Hfid & Hnone & Hz & Em).
  rewrite Hso, Hfid, N.eqb_refl. fold (inter_payload pkt) in *.
  destruct ((lenN (bdata pb) - c_pdulen c <? lenN (inter_payload pkt)) || (65535 <? c_pdulen c + lenN (inter_payload pkt))) eqn:Hchk.
  - match goal with |- context [give_back_hl ?a ?b ?c ?d] => destruct (give_back_hl a b c d) as [s' r] eqn:Eg end.
    cbn [fst snd]. split; [rewrite (give_back_cfg _ _ _ _ _ _ Eg); exact Hmf|]. split.
    + intros f Hne. rewrite (slot_of_give_back _ _ _ _ _ _ f Eg). cbn [dmem set_dmem].
      eapply slot_of_take_frag; [exact Hwf|exact Et|left; exact Hne].
    + assert (is_frag_ok r = false) as ->.
      { unfold give_back_hl in Eg. destruct (provision _ _) as [? [?|]]; injection Eg as _ <-; reflexivity. }
      rewrite (slot_of_give_back _ _ _ _ _ _ g Eg). exact Hnone.
  - apply orb_false_iff in Hchk as [Hk1 Hk2]. apply N.ltb_ge in Hk1. apply N.ltb_ge in Hk2.
    destruct Hctx as (Hc1 & _). cbn [fst snd] in Hc1.
    match goal with |- context [save_frag_fn m ?x] => set (cb := x) in * end.
    destruct (save_frag_empty m cb) as (Esv & _); [apply Hok|now rewrite Hmf|cbn [fst cb c_fid]; rewrite ?Hfid; exact Hnone|].
    rewrite Esv in *. cbn [fst snd dmem set_dmem is_frag_ok]. split; [cbn [max_frag_id set_slot set_frags]; exact Hmf|]. split.
    + intros f Hne. pose proof (slot_of_take_frag _ _ _ _ f Hwf Et (or_introl Hne)) as S1.
      rewrite <- S1. eapply slot_of_save_frag; [exact Hok|exact Esv|]. cbn [fst cb c_fid]. rewrite Hmf, ?Hfid. exact Hne.
    + destruct Hok as (Hmw & _). rewrite slot_of_set_slot by (try assumption; apply N.mod_lt; now rewrite Hmf).
      cbn [fst cb c_fid]. rewrite Hmf, ?Hfid, N.eqb_refl. split; [unfold ctx_adv, buf_put; rewrite ?Hfid; reflexivity|lia].
Qed.

Lemma end_hl_cases s pkt blen : dstate_wf s -> 5 <= lenN pkt - 2 ->
  let g := hd0 (dropN 2 pkt) in
  let r := end_hl crc s pkt blen in
  max_frag_id (dmem (fst r)) = max_frag_id (dmem s) /\
  (forall f, f mod max_frag_id (dmem s) <> g mod max_frag_id (dmem s) -> slot_of (dmem (fst r)) f = slot_of (dmem s) f) /\
  match slot_of (dmem s) g with
  | Some (c, b) => if c_fid c =? g then slot_of (dmem (fst r)) g = None else dmem (fst r) = dmem s
  | None => dmem (fst r) = dmem s
  end.
Proof.
  intros Hwf Hlen g r. subst r.
  unfold end_hl, err_last in *. destruct (N.ltb_spec (lenN pkt - 2) 5); [lia|]. cbv zeta in *. fold g.
  destruct (take_frag_fn (dmem s) g) as [m [[c pb]|e]] eqn:Et.
  2:{ destruct (mem_ok_take_frag _ _ _ _ Hwf Et) as (_ & _ & _ & _ & ->). cbn [fst snd dmem set_dmem].
      split; [reflexivity|]. split; [auto|].
      unfold take_frag_fn in Et. destruct (max_frag_id (dmem s) =? 0) eqn:Ez.
      - unfold slot_of. apply N.eqb_eq in Ez. rewrite Ez.
        destruct Hwf as ((Hf & _) & _). rewrite Ez in Hf. apply lenN_0_nil in Hf. rewrite Hf. cbn. auto.
      - destruct (slot_of (dmem s) g) as [[c0 b0]|]; [|auto]. destruct (c_fid c0 =? g); [discriminate|auto]. }
  destruct (mem_ok_take_frag _ _ _ _ Hwf Et) as (Hok & Hmf & Hmp & Hst & Hso & Hctx & Hbo & Hfid & Hnone & Hz & Em).
  rewrite Hso, Hfid, N.eqb_refl.
  assert (GB : forall pb' e, let x := give_back_hl (set_dmem s m) pb' e (lenN pkt) in
     max_frag_id (dmem (fst x)) = max_frag_id (dmem s) /\
     (forall f, f mod max_frag_id (dmem s) <> g mod max_frag_id (dmem s) -> slot_of (dmem (fst x)) f = slot_of (dmem s) f) /\
     slot_of (dmem (fst x)) g = None).
  { intros pb' e x. subst x. destruct (give_back_hl (set_dmem s m) pb' e (lenN pkt)) as [s' r] eqn:Eg. cbn [fst].
    split; [rewrite (give_back_cfg _ _ _ _ _ _ Eg); exact Hmf|]. split.
    - intros f Hne. rewrite (slot_of_give_back _ _ _ _ _ _ f Eg). cbn [dmem set_dmem].
      eapply slot_of_take_frag; [exact Hwf|exact Et|left; exact Hne].
    - rewrite (slot_of_give_back _ _ _ _ _ _ g Eg). exact Hnone. }
  destruct (_ <? _); [apply GB|]. destruct (negb (c_total c =? _)); [apply GB|]. destruct (negb (_ =? _)); [apply GB|].
  cbn [fst dmem set_dmem]. split; [exact Hmf|]. split; [|exact Hnone].
  intros f Hne. eapply slot_of_take_frag; [exact Hwf|exact Et|left; exact Hne].
Qed.


(* ---------- ghost history: per slot, the context created by the first fragment that opened the reassembly
   and the payloads received for it since, in arrival order ---------- *)
Definition ghost_map := N -> option (dctx * list (list byte)).
Definition gupd (A : ghost_map) (i : N) (v : option (dctx * list (list byte))) : ghost_map :=
  fun j => if j =? i then v else A j.

(* ghost update, from the packet at the head of the buffer and the receiver's answer only:
   - an accepted first fragment (answer FragmentedPkt) opens a train in its slot with its own payload; the fields
     recorded are those of the context the receiver created (first_hl_accepted relates them to the packet);
   - an accepted intermediate fragment of the train's id appends its payload;
   - an intermediate/end fragment of the train's id that is not accepted, or an end fragment, closes the train;
   - anything else leaves the ghost alone. *)
Definition ghost_step (A : ghost_map) (s' : dstate) (buf : list byte) (r : dec_result) : ghost_map :=
  let slots := max_frag_id (dmem s') in
  match head_pkt buf with
  | Some (KFirst, _, p) =>
      let g := hd0 (dropN 2 p) in
      if is_frag_ok r then
        match slot_of (dmem s') g with
        | Some (c, b) => gupd A (g mod slots) (Some (ctx_at c 0, [takeN (c_pdulen c) (bdata b)]))
        | None => A
        end
      else A
  | Some (KInter, _, p) =>
      let g := hd0 (dropN 2 p) in
      if lenN p - 2 <? 2 then A else      (* an empty fragment is refused at frame level: nothing is touched *)
      match A (g mod slots) with
      | Some (c0, ps) =>
          if c_fid c0 =? g then
            if is_frag_ok r then gupd A (g mod slots) (Some (c0, ps ++ [inter_payload p]))
            else gupd A (g mod slots) None
          else A
      | None => A
      end
  | Some (KEnd, _, p) =>
      let g := hd0 (dropN 2 p) in
      if lenN p - 2 <? 5 then A else
      match A (g mod slots) with
      | Some (c0, ps) => if c_fid c0 =? g then gupd A (g mod slots) None else A
      | None => A
      end
  | _ => A
  end.

(* the ghost describes every reassembly in progress *)
Definition ghost_ok (s : dstate) (A : ghost_map) : Prop :=
  forall f c b, slot_of (dmem s) f = Some (c, b) ->
    exists c0 ps, A (f mod max_frag_id (dmem s)) = Some (c0, ps) /\
      c = ctx_at c0 (lenN (concat ps)) /\ takeN (lenN (concat ps)) (bdata b) = concat ps.

Lemma slot_of_same_index m f g : f mod max_frag_id m = g mod max_frag_id m -> slot_of m f = slot_of m g.
Proof. intro H. unfold slot_of. now rewrite H. Qed.

Lemma ctx_at_at c a b : ctx_at (ctx_at c a) b = ctx_at c b. Proof. reflexivity. Qed.
Lemma ctx_at_self c : ctx_at c (c_pdulen c) = c. Proof. destruct c; reflexivity. Qed.

Lemma head_pkt_len buf k t p : head_pkt buf = Some (k, t, p) ->
  exists gl, hdr_view (rd16 (takeN 2 buf)) = Some (gl, k, t) /\ lenN p = gl + 2 /\ gl < 4096 /\ p = takeN (gl + 2) buf.
Proof.
  unfold head_pkt. destruct (lenN buf <? 2); [discriminate|].
  destruct (hdr_view (rd16 (takeN 2 buf))) as [[[gl k'] t']|] eqn:Ev; [|discriminate].
  destruct (N.ltb_spec (lenN buf) (gl + 2)); [discriminate|]. intros [= <- <- <-].
  exists gl. split; [reflexivity|]. split; [rewrite lenN_takeN; lia|]. split; [eapply hdr_view_len; eauto|reflexivity].
Qed.

Theorem ghost_preserved s A buf : dstate_wf s -> bytes_ok buf -> ghost_ok s A ->
  ghost_ok (fst (decap_hl crc mgr s buf)) (ghost_step A (fst (decap_hl crc mgr s buf)) buf (snd (decap_hl crc mgr s buf))).
Proof.
  intros Hwf Hb HG.
  pose proof (decap_hl_slots_count crc mgr s buf Hwf) as Hcnt.
  unfold ghost_step. rewrite Hcnt. rewrite (decap_hl_head s buf).
  destruct (head_pkt buf) as [[[k t] p]|] eqn:Eh.
  2:{ (* no packet dispatched: the memory is untouched *)
      pose proof (decap_hl_nohead s buf Eh) as Em. intros f c b Hs. rewrite Em in *. apply HG. exact Hs. }
  destruct (head_pkt_len _ _ _ _ Eh) as (gl & Hv & Lp & Hgl & Ep).
  set (slots := max_frag_id (dmem s)) in *.
  destruct k.
  - (* complete packet: slots untouched *)
    intros f c b Hs. rewrite (complete_hl_slots mgr s p t (lenN buf) f Hwf) in Hs.
    assert (Hm : max_frag_id (dmem (fst (complete_hl mgr s p t (lenN buf)))) = slots).
    { rewrite <- Hcnt. rewrite (decap_hl_head s buf), Eh. reflexivity. }
    rewrite Hm. apply HG. exact Hs.
  - (* first fragment *)
    set (g := hd0 (dropN 2 p)).
    assert (Hm : max_frag_id (dmem (fst (first_hl mgr s p t (lenN buf)))) = slots).
    { rewrite <- Hcnt. rewrite (decap_hl_head s buf), Eh. reflexivity. }
    destruct (first_hl mgr s p t (lenN buf)) as [s' r] eqn:Ef. cbn [fst snd] in *.
    destruct (is_frag_ok r) eqn:Eok.
    + destruct r as [[[bb md|md|] n]|[e n]]; try discriminate.
      destruct (first_hl_accepted s p t (lenN buf) s' md n Hwf Ef) as (c & b & w & Hs' & Hfid & _ & Hrest).
      cbv zeta in Hrest. destruct Hrest as (Hpl & Htk & _ & _ & _ & _ & _ & _ & _ & Hfr). fold g in Hs', Hfid, Hfr.
      rewrite Hs'. intros f c1 b1 Hs1. rewrite Hm. unfold gupd.
      destruct (N.eqb_spec (f mod slots) (g mod slots)) as [Heq|Hne].
      * rewrite (slot_of_same_index (dmem s') f g) in Hs1 by (rewrite Hm; exact Heq). rewrite Hs' in Hs1. injection Hs1 as <- <-.
        eexists _, _. split; [reflexivity|]. cbn [concat]. rewrite app_nil_r, lenN_takeN.
        replace (N.min (c_pdulen c) (lenN (bdata b))) with (c_pdulen c).
        2:{ pose proof (f_equal lenN Htk) as L. rewrite lenN_takeN in L. rewrite Hpl. lia. }
        rewrite ctx_at_at, ctx_at_self. split; reflexivity.
      * rewrite (Hfr f Hne) in Hs1. destruct (HG f c1 b1 Hs1) as (c0 & ps & HA & Hc & Ht). eauto.
    + (* not accepted: slots of other indices untouched, the slot of g cleared or untouched *)
      intros f c1 b1 Hs1. rewrite Hm.
      destruct (N.eq_dec (f mod slots) (g mod slots)) as [Heq|Hne].
      * (* same index: either unchanged or emptied; if still Some it is the old one *)
        assert (Hold : slot_of (dmem s') f = slot_of (dmem s) f \/ slot_of (dmem s') f = None).
        { pose proof Ef as Ef'. unfold first_hl, err_last in Ef'.
          destruct (_ <? _); [injection Ef' as <- _; auto|]. cbv zeta in Ef'.
          destruct (is_zero6 _); [injection Ef' as <- _; auto|].
          destruct (resolve_hl s t _) as [[s1 cur]|e] eqn:Er; [|injection Ef' as <- _; auto].
          pose proof (resolve_hl_wf _ _ _ _ _ Hwf Er) as Hwf1. pose proof (resolve_hl_mem _ _ _ _ _ Er) as Hm1.
          destruct (walk_fn mgr _ _) as [w|[|]]; try (injection Ef' as <- _; cbn [dmem set_dlast]; rewrite Hm1; auto).
          destruct (_ <=? _); [injection Ef' as <- _; cbn [dmem set_dlast]; rewrite Hm1; auto|].
          match type of Ef' with context [new_frag_fn (dmem s1) ?cx] => destruct (new_frag_fn (dmem s1) cx) as [m [[c' pb]|e]] eqn:En end.
          2:{ destruct (mem_ok_new_frag _ _ _ _ Hwf1 En) as (_ & _ & _ & ->). injection Ef' as <- _. cbn [dmem set_dmem set_dlast]. rewrite Hm1. auto. }
          destruct (mem_ok_new_frag _ _ _ _ Hwf1 En) as (Hok & Hmf & Hmp & -> & Hbo & Hsl & Hz).
          assert (Hnf : slot_of m f = None).
          { rewrite (slot_of_same_index m f g); [exact Hsl|]. rewrite Hmf, Hm1. exact Heq. }
          destruct (_ <? _).
          - right. destruct (give_back_hl _ pb DSizePduBuffer (lenN p)) as [s2 r2] eqn:Eg. injection Ef' as <- _.
            rewrite (slot_of_give_back _ _ _ _ _ _ f Eg). exact Hnf.
          - match type of Ef' with context [save_frag_fn m ?x] => set (cb := x) in * end.
            destruct (save_frag_empty m cb) as (Esv & _); [apply Hok|now rewrite Hmf|exact Hsl|].
            rewrite Esv in Ef'. injection Ef' as _ <-. discriminate. }
        destruct Hold as [Hold|Hold]; [|rewrite Hold in Hs1; discriminate].
        rewrite Hold in Hs1. apply HG. exact Hs1.
      * assert (Hfr : slot_of (dmem s') f = slot_of (dmem s) f).
        { pose proof (first_hl_slots mgr s p t (lenN buf) f Hwf Hne) as F. now rewrite Ef in F. }
        rewrite Hfr in Hs1. apply HG. exact Hs1.
  - (* intermediate fragment *)
    set (g := hd0 (dropN 2 p)).
    assert (Hm : max_frag_id (dmem (fst (inter_hl s p (lenN buf)))) = slots).
    { rewrite <- Hcnt. rewrite (decap_hl_head s buf), Eh. reflexivity. }
    destruct (N.ltb_spec (lenN p - 2) 2) as [Hshort|Hg2].
    { (* frame error: memory untouched *)
      assert (Em : dmem (fst (inter_hl s p (lenN buf))) = dmem s).
      { unfold inter_hl, err_last. destruct (N.leb_spec (lenN p - 2) 1); [reflexivity|lia]. }
      unfold ghost_ok. rewrite Em. exact HG. }
    destruct (inter_hl_cases s p (lenN buf) Hwf Hg2) as (_ & Hfr & Hcase). fold g in Hfr, Hcase.
    destruct (inter_hl s p (lenN buf)) as [s' r] eqn:Ei. cbn [fst snd] in *.
    intros f c1 b1 Hs1. rewrite Hm.
    destruct (slot_of (dmem s) g) as [[c b]|] eqn:Esg.
    + destruct (HG g c b Esg) as (c0 & ps & HA & Hc & Ht). fold slots in HA.
      assert (Hfid0 : c_fid c0 = c_fid c) by (rewrite Hc; reflexivity).
      destruct (N.eqb_spec (c_fid c) g) as [Hcg|Hcg].
      * rewrite HA, Hfid0. destruct (N.eqb_spec (c_fid c) g); [|contradiction].
        destruct (is_frag_ok r) eqn:Eok.
        -- destruct Hcase as [Hnew Hfit]. unfold gupd.
           destruct (N.eqb_spec (f mod slots) (g mod slots)) as [Heq|Hne].
           ++ rewrite (slot_of_same_index (dmem s') f g) in Hs1 by (rewrite Hm; exact Heq). rewrite Hnew in Hs1. injection Hs1 as <- <-.
              eexists _, _. split; [reflexivity|]. rewrite concat_app. cbn [concat]. rewrite app_nil_r, lenN_app.
              split; [rewrite Hc; reflexivity|].
              unfold buf_put. cbn [bdata]. rewrite app_assoc.
              assert (Hcp : c_pdulen c = lenN (concat ps)) by (rewrite Hc; reflexivity).
              rewrite takeN_app_eq by (rewrite lenN_app, lenN_takeN, Hcp; lia). rewrite Hcp, Ht. reflexivity.
           ++ rewrite (Hfr f Hne) in Hs1. apply HG. exact Hs1.
        -- unfold gupd. destruct (N.eqb_spec (f mod slots) (g mod slots)) as [Heq|Hne].
           ++ rewrite (slot_of_same_index (dmem s') f g) in Hs1 by (rewrite Hm; exact Heq). rewrite Hcase in Hs1. discriminate.
           ++ rewrite (Hfr f Hne) in Hs1. apply HG. exact Hs1.
      * destruct Hcase as [_ Em]. rewrite Em in Hs1.
        rewrite HA, Hfid0. destruct (N.eqb_spec (c_fid c) g); [contradiction|]. apply HG. exact Hs1.
    + destruct Hcase as [Eok Em]. rewrite Em in Hs1. rewrite Eok.
      destruct (HG f c1 b1 Hs1) as (c0 & ps & HA & Hc & Ht). fold slots in HA.
      assert (Hne : f mod slots <> g mod slots).
      { intro Heq. rewrite (slot_of_same_index (dmem s) f g Heq), Esg in Hs1. discriminate. }
      destruct (A (g mod slots)) as [[c0' ps']|]; [|eauto].
      destruct (c_fid c0' =? g); [|eauto]. unfold gupd. destruct (N.eqb_spec (f mod slots) (g mod slots)); [contradiction|eauto].
  - (* end fragment *)
    set (g := hd0 (dropN 2 p)).
    assert (Hm : max_frag_id (dmem (fst (end_hl crc s p (lenN buf)))) = slots).
    { rewrite <- Hcnt. rewrite (decap_hl_head s buf), Eh. reflexivity. }
    destruct (N.ltb_spec (lenN p - 2) 5) as [Hshort|Hg5].
    { assert (Em : dmem (fst (end_hl crc s p (lenN buf))) = dmem s).
      { unfold end_hl, err_last. destruct (N.ltb_spec (lenN p - 2) 5); [reflexivity|lia]. }
      unfold ghost_ok. rewrite Em. exact HG. }
    destruct (end_hl_cases s p (lenN buf) Hwf Hg5) as (_ & Hfr & Hcase). fold g in Hfr, Hcase.
    destruct (end_hl crc s p (lenN buf)) as [s' r] eqn:Ei. cbn [fst snd] in *.
    intros f c1 b1 Hs1. rewrite Hm.
    destruct (slot_of (dmem s) g) as [[c b]|] eqn:Esg.
    + destruct (HG g c b Esg) as (c0 & ps & HA & Hc & Ht). fold slots in HA.
      assert (Hfid0 : c_fid c0 = c_fid c) by (rewrite Hc; reflexivity).
      rewrite HA, Hfid0.
      destruct (N.eqb_spec (c_fid c) g) as [Hcg|Hcg].
      * unfold gupd. destruct (N.eqb_spec (f mod slots) (g mod slots)) as [Heq|Hne].
        -- rewrite (slot_of_same_index (dmem s') f g) in Hs1 by (rewrite Hm; exact Heq). rewrite Hcase in Hs1. discriminate.
        -- rewrite (Hfr f Hne) in Hs1. apply HG. exact Hs1.
      * rewrite Hcase in Hs1. apply HG. exact Hs1.
    + rewrite Hcase in Hs1.
      destruct (HG f c1 b1 Hs1) as (c0 & ps & HA & Hc & Ht). fold slots in HA.
      assert (Hne : f mod slots <> g mod slots).
      { intro Heq. rewrite (slot_of_same_index (dmem s) f g Heq), Esg in Hs1. discriminate. }
      destruct (A (g mod slots)) as [[c0' ps']|]; [|eauto].
      destruct (c_fid c0' =? g); [|eauto]. unfold gupd. destruct (N.eqb_spec (f mod slots) (g mod slots)); [contradiction|eauto].
Qed.

(* C03: an end fragment completes only the train the ghost describes: the payloads of the first fragment that
   opened it and of every later fragment of that id, in arrival order, with the announced length and the CRC *)
Theorem completed_is_verified s A buf s' b md n : dstate_wf s -> bytes_ok buf -> ghost_ok s A ->
  decap_hl crc mgr s buf = (s', inl (DCompleted b md, n)) ->
  (exists t p, head_pkt buf = Some (KComplete, t, p)) \/
  (exists t p c0 ps, head_pkt buf = Some (KEnd, t, p) /\
     A (hd0 (dropN 2 p) mod max_frag_id (dmem s)) = Some (c0, ps) /\ c_fid c0 = hd0 (dropN 2 p) /\
     let P := concat ps ++ end_payload p in
     c_total c0 = lenN P + 2 + (if c_reuse c0 then 0 else lt_len (label_type (c_label c0))) /\
     crc P (c_ptype c0) (c_total c0) (if c_reuse c0 then [] else label_bytes (c_label c0)) = end_trailer p /\
     takeN (lenN P) (bdata b) = P /\
     md = {| md_pdu_len := lenN P; md_ptype := c_ptype c0; md_label := c_label c0; md_exts := c_exts c0 |} /\
     n = lenN p).
Proof.
  intros Hwf Hb HG H. rewrite (decap_hl_head s buf) in H.
  destruct (head_pkt buf) as [[[k t] p]|] eqn:Eh.
  2:{ exfalso. unfold decap_hl, head_pkt, err_last in *. destruct (lenN buf <? 2); [discriminate|].
      destruct (hdr_view (rd16 (takeN 2 buf))) as [[[gl k] t]|]; [|discriminate].
      destruct (lenN buf <? gl + 2); discriminate. }
  destruct k.
  - left. eauto.
  - exfalso. unfold first_hl, err_last in H. destruct (_ <? _); [discriminate|]. cbv zeta in H.
    destruct (is_zero6 _); [discriminate|]. destruct (resolve_hl s t _) as [[s1 cur]|e]; [|discriminate].
    destruct (walk_fn mgr _ _) as [w|[|]]; try discriminate. destruct (_ <=? _); [discriminate|].
    destruct (new_frag_fn _ _) as [m [[c' pb]|e]]; [|discriminate].
    destruct (_ <? _); [unfold give_back_hl in H; destruct (provision _ _) as [? [?|]]; discriminate|].
    destruct (save_frag_fn _ _) as [m' [e|]]; discriminate.
  - exfalso. unfold inter_hl, err_last in H. destruct (_ <=? _); [discriminate|]. cbv zeta in H.
    destruct (take_frag_fn _ _) as [m [[c pb]|e]]; [|discriminate].
    destruct (_ || _); [unfold give_back_hl in H; destruct (provision _ _) as [? [?|]]; discriminate|].
    destruct (save_frag_fn _ _) as [m' [e|]]; discriminate.
  - right. destruct (end_hl_completed s p (lenN buf) s' b md n Hwf H) as (c & pb & Hs & Hfid & Hrest).
    cbv zeta in Hrest. destruct Hrest as (HLP & Htot & Hcrc & Htk & _ & Hmd & Hn & _).
    destruct (HG _ c pb Hs) as (c0 & ps & HA & Hc & Ht).
    assert (Hcp : c_pdulen c = lenN (concat ps)) by (rewrite Hc; reflexivity).
    rewrite Hcp, Ht in *.
    exists t, p, c0, ps. split; [reflexivity|]. split; [exact HA|]. split; [rewrite <- Hfid, Hc; reflexivity|].
    cbv zeta. rewrite Hc in Htot, Hcrc, Hmd. cbn [ctx_at c_total c_reuse c_label c_ptype c_exts] in *. auto.
Qed.

End Verified.
