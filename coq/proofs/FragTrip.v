(* C02: a fragment train produced by the sender, fed in order to the receiver, reassembles the PDU.
   Induction over the train with the slot invariant. No model code. *)
Require Import GSE.gen.Consts GSE.model.Base GSE.model.Types GSE.model.Header GSE.model.Ext GSE.model.Encap
  GSE.model.Memory GSE.model.Decap
  GSE.proofs.Tactics GSE.proofs.BaseLemmas GSE.proofs.HeaderLemmas GSE.proofs.EncapSpec GSE.proofs.EncapProps
  GSE.proofs.FragRun GSE.proofs.MemoryLemmas GSE.proofs.DecapBase GSE.proofs.DecapSpec GSE.proofs.DecapProps
  GSE.proofs.Conserve GSE.proofs.RoundTrip.
Open Scope N_scope.

Section FT.
Variable crc : list byte -> N -> N -> list byte -> N.
Variable mgr : N -> mand.
Hypothesis crc_bound : forall a b c d, crc a b c d < 4294967296.

(* feeding packets one by one *)
Fixpoint recv_run (R : dstate) (pkts : list (list byte)) : res (dstate * list dec_result) :=
  match pkts with
  | [] => Ret (R, [])
  | p :: t => do '(R', r) <- decap crc mgr R p; do '(R'', rs) <- recv_run R' t; Ret (R'', r :: rs)
  end.

Definition ctx_at (c0 : dctx) (off : N) : dctx :=
  {| c_label := c_label c0; c_ptype := c_ptype c0; c_fid := c_fid c0; c_total := c_total c0;
     c_pdulen := off; c_reuse := c_reuse c0; c_exts := c_exts c0 |}.
Lemma ctx_adv_at c0 off k : ctx_adv (ctx_at c0 off) k = ctx_at c0 (off + k). Proof. reflexivity. Qed.

(* the reassembly of `pdu` under frag id `fid` has reached offset `off` *)
Definition slot_inv (R : dstate) (c0 : dctx) (pdu : list byte) (off : N) : Prop :=
  exists b, dstate_wf R /\ slot_of (dmem R) (c_fid c0) = Some (ctx_at c0 off, b) /\
            takeN off (bdata b) = takeN off pdu /\ lenN pdu <= lenN (bdata b).

Lemma pkt_inter_ok fid payload : fid < 256 -> bytes_ok payload -> bytes_ok (pkt_inter fid payload).
Proof. intros. unfold pkt_inter. repeat (apply bytes_ok_app; split); auto using be16_ok. repeat constructor. assumption. Qed.
Lemma pkt_end_ok fid payload c : fid < 256 -> bytes_ok payload -> bytes_ok (pkt_end fid payload c).
Proof. intros. unfold pkt_end. repeat (apply bytes_ok_app; split); auto using be16_ok, be32_ok. repeat constructor. assumption. Qed.

Lemma decap_inter_step R c0 pdu off k : bytes_ok pdu -> c_fid c0 < 256 -> lenN pdu <= 65535 ->
  slot_inv R c0 pdu off -> 1 <= k -> off + k <= lenN pdu -> k <= 4094 ->
  exists R', decap crc mgr R (pkt_inter (c_fid c0) (takeN k (dropN off pdu))) =
               Ret (R', inl (DFragmented {| md_pdu_len := 0; md_ptype := c_ptype c0; md_label := c_label c0; md_exts := c_exts c0 |},
                             3 + k))
             /\ slot_inv R' c0 pdu (off + k) /\ dlast R' = dlast R.
Proof.
  intros Hpdu Hfid H16 (b & Hwf & Hs & Hpre & Hlen) Hk Hle Hk2.
  set (payload := takeN k (dropN off pdu)).
  assert (Lp : lenN payload = k) by (subst payload; rewrite lenN_takeN, lenN_dropN; lia).
  assert (Hb : bytes_ok (pkt_inter (c_fid c0) payload)) by (apply pkt_inter_ok; [assumption|apply bytes_ok_takeN, bytes_ok_dropN, Hpdu]).
  rewrite decap_spec by assumption.
  rewrite <- (app_nil_r (pkt_inter (c_fid c0) payload)).
  rewrite (decap_hl_packet crc mgr R _ [] (1 + k) KInter TR).
  2:{ rewrite lenN_pkt_inter. lia. }
  2:{ unfold pkt_inter. rewrite take2_be16, rd16_be16 by (apply hdr_arith_lt; lia). rewrite Lp.
      apply hdr_view_arith; [lia|]. intros [_ ?]; discriminate. }
  rewrite (inter_hl_sender crc mgr R (c_fid c0) payload _ (ctx_at c0 off) b) by (auto; cbn [ctx_at c_pdulen c_fid]; lia).
  eexists. split; [rewrite Lp; reflexivity|].
  pose proof (inter_hl_wf crc mgr R (pkt_inter (c_fid c0) payload) (lenN (pkt_inter (c_fid c0) payload) + lenN (@nil byte)) Hwf) as W.
  rewrite (inter_hl_sender crc mgr R (c_fid c0) payload _ (ctx_at c0 off) b) in W by (auto; cbn [ctx_at c_pdulen c_fid]; lia).
  cbn [fst] in W. rewrite Lp in W. split; [|reflexivity].
  exists (buf_put b off payload). split; [exact W|].
  destruct (slot_of_some _ _ _ Hwf Hs) as (Hz & _). destruct Hwf as (Hmw & _).
  cbn [dmem set_dmem ctx_at c_pdulen]. rewrite slot_of_set_slot by (auto; apply N.mod_lt; assumption). rewrite N.eqb_refl.
  rewrite ctx_adv_at. split; [reflexivity|].
  unfold buf_put; cbn [bdata]. split.
  - rewrite app_assoc, takeN_app_eq by (rewrite lenN_app, lenN_takeN, Lp; lia).
    rewrite Hpre. subst payload. now rewrite <- takeN_add.
  - rewrite !lenN_app, lenN_takeN, lenN_dropN, Lp. lia.
Qed.

Lemma decap_end_step R c0 pdu off : bytes_ok pdu -> c_fid c0 < 256 -> lenN pdu <= 65535 ->
  slot_inv R c0 pdu off -> off <= lenN pdu -> lenN pdu - off <= 4090 ->
  c_total c0 = lenN pdu + 2 + (if c_reuse c0 then 0 else lt_len (label_type (c_label c0))) ->
  let crcv := crc pdu (c_ptype c0) (c_total c0) (if c_reuse c0 then [] else label_bytes (c_label c0)) in
  exists R' b, decap crc mgr R (pkt_end (c_fid c0) (dropN off pdu) crcv) =
     Ret (R', inl (DCompleted b {| md_pdu_len := lenN pdu; md_ptype := c_ptype c0; md_label := c_label c0; md_exts := c_exts c0 |},
                   7 + (lenN pdu - off)))
     /\ takeN (lenN pdu) (bdata b) = pdu /\ dstate_wf R' /\ slot_of (dmem R') (c_fid c0) = None /\ dlast R' = dlast R.
Proof.
  intros Hpdu Hfid H16 (b & Hwf & Hs & Hpre & Hlen) Hle Hr Htot crcv.
  set (payload := dropN off pdu).
  assert (Lp : lenN payload = lenN pdu - off) by (subst payload; now rewrite lenN_dropN).
  assert (Hb : bytes_ok (pkt_end (c_fid c0) payload crcv)) by (apply pkt_end_ok; [assumption|apply bytes_ok_dropN, Hpdu]).
  rewrite decap_spec by assumption.
  rewrite <- (app_nil_r (pkt_end (c_fid c0) payload crcv)).
  rewrite (decap_hl_packet crc mgr R _ [] (5 + (lenN pdu - off)) KEnd TR).
  2:{ rewrite lenN_pkt_end. lia. }
  2:{ unfold pkt_end. rewrite take2_be16, rd16_be16 by (apply hdr_arith_lt; lia). rewrite Lp.
      apply hdr_view_arith; [lia|]. intros [? _]; discriminate. }
  pose proof (end_hl_wf crc R (pkt_end (c_fid c0) payload crcv) (lenN (pkt_end (c_fid c0) payload crcv) + lenN (@nil byte)) Hwf) as W.
  rewrite (end_hl_sender crc mgr R (c_fid c0) payload crcv _ (ctx_at c0 off) b) in * by (auto; cbn [ctx_at c_pdulen c_fid]; try apply crc_bound; lia).
  cbv zeta in *. cbn [ctx_at c_pdulen c_total c_reuse c_label c_ptype c_exts] in *.
  rewrite Lp in *. replace (off + (lenN pdu - off)) with (lenN pdu) in * by lia.
  rewrite Htot in *. rewrite N.eqb_refl in *. cbn [negb] in *.
  assert (Hdata : takeN (lenN pdu) (bdata (buf_put b off payload)) = pdu).
  { unfold buf_put; cbn [bdata]. rewrite app_assoc, takeN_app_eq by (rewrite lenN_app, lenN_takeN, Lp; lia).
    rewrite Hpre. subst payload. apply takeN_dropN. }
  rewrite Hdata in *. rewrite <- Htot in *. fold crcv in W |- *. rewrite N.eqb_refl in *. cbn [negb] in *.
  eexists _, _. split; [reflexivity|]. split; [exact Hdata|]. cbn [fst] in W. split; [exact W|].
  destruct (slot_of_some _ _ _ Hwf Hs) as (Hz & _). destruct Hwf as (Hmw & _).
  cbn [dmem set_dmem]. rewrite slot_of_set_slot by (auto; apply N.mod_lt; assumption). rewrite N.eqb_refl. auto.
Qed.

(* the whole continuation train *)
Lemma train_recv pdu c0 : bytes_ok pdu -> c_fid c0 < 256 -> lenN pdu <= 65535 ->
  c_total c0 = lenN pdu + 2 + (if c_reuse c0 then 0 else lt_len (label_type (c_label c0))) ->
  let crcv := crc pdu (c_ptype c0) (c_total c0) (if c_reuse c0 then [] else label_bytes (c_label c0)) in
  let mdf := {| md_pdu_len := 0; md_ptype := c_ptype c0; md_label := c_label c0; md_exts := c_exts c0 |} in
  forall off ps pls, train_from pdu (c_fid c0) crcv off ps pls None -> forall R, slot_inv R c0 pdu off ->
  exists R' b rs lastp, recv_run R ps = Ret (R', rs) /\
    ps = removelast ps ++ [lastp] /\
    rs = map (fun p => inl (DFragmented mdf, lenN p)) (removelast ps)
         ++ [inl (DCompleted b {| md_pdu_len := lenN pdu; md_ptype := c_ptype c0; md_label := c_label c0; md_exts := c_exts c0 |},
                  lenN lastp)] /\
    takeN (lenN pdu) (bdata b) = pdu /\ dstate_wf R' /\ dlast R' = dlast R.
Proof.
  intros Hpdu Hfid H16 Htot crcv mdf off ps pls Tr.
  remember (@None N) as fin eqn:Efin.
  induction Tr as [off|off k ps pls r Hk Hle Hk2 Ht IH|off Ho Hr]; intros R Hinv; try discriminate.
  - (* intermediate packet then the rest *)
    destruct (decap_inter_step R c0 pdu off k Hpdu Hfid H16 Hinv Hk Hle Hk2) as (R1 & E1 & Hinv1 & Hl1).
    destruct (IH Efin R1 Hinv1) as (R' & b & rs & lastp & Er & Eps & Ers & Hd & Hw & Hl).
    exists R', b, (inl (DFragmented mdf, 3 + k) :: rs), lastp.
    cbn [recv_run]. rewrite E1. cbn [bind]. rewrite Er. cbn [bind]. split; [reflexivity|].
    assert (Hne : ps <> []) by (rewrite Eps; destruct (removelast ps); discriminate).
    split; [|split; [|split; [exact Hd|split; [exact Hw|congruence]]]].
    + destruct ps as [|p0 t]; [contradiction|]. cbn [removelast]. cbn [app]. f_equal. exact Eps.
    + destruct ps as [|p0 t]; [contradiction|]. cbn [removelast map app]. rewrite Ers. f_equal. f_equal. f_equal.
      rewrite lenN_pkt_inter, lenN_takeN, lenN_dropN. lia.
  - (* the end packet *)
    assert (Hinv' := Hinv). destruct Hinv' as (b0 & Hwf0 & _).
    destruct (decap_end_step R c0 pdu off Hpdu Hfid H16 Hinv Ho Hr Htot) as (R' & b & E & Hd & Hw & _ & Hl).
    exists R', b, [inl (DCompleted b {| md_pdu_len := lenN pdu; md_ptype := c_ptype c0; md_label := c_label c0; md_exts := c_exts c0 |},
                        7 + (lenN pdu - off))], (pkt_end (c_fid c0) (dropN off pdu) crcv).
    cbn [recv_run]. fold crcv in E. rewrite E. cbn [bind]. split; [reflexivity|]. split; [reflexivity|].
    cbn [removelast map app]. rewrite lenN_pkt_end, lenN_dropN. auto.
Qed.


Lemma resolve_cur R l R1 cur : resolve_hl R (label_type l) l = inl (R1, cur) -> label_type l <> TR -> cur = l.
Proof. unfold resolve_hl. destruct l; cbn; try (intros [= _ <-]; reflexivity). intros _ H. now contradiction H. Qed.

Lemma pkt_first_ok l fid tl pt payload : label_wf l -> fid < 256 -> bytes_ok payload -> bytes_ok (pkt_first l fid tl pt payload).
Proof. intros. unfold pkt_first. repeat (apply bytes_ok_app; split); auto using be16_ok, label_bytes_ok. repeat constructor. assumption. Qed.

(* the first fragment opens the reassembly *)
Lemma decap_first_step R l fid pt pdu k0 R1 cur : label_wf l -> is_zero6 l = false -> 1536 <= pt < 65536 -> fid < 256 ->
  bytes_ok pdu -> k0 < lenN pdu -> lenN pdu + 2 + lenN (label_bytes l) <= 65535 -> 5 + lenN (label_bytes l) + k0 < 4096 ->
  dstate_wf R -> resolve_hl R (label_type l) l = inl (R1, cur) ->
  lenN pdu <= max_pdu_size (dmem R) -> max_frag_id (dmem R) <> 0 ->
  (slot_of (dmem R) fid <> None \/ storages (dmem R) <> []) ->
  let tl := lenN pdu + 2 + lenN (label_bytes l) in
  let c0 := {| c_label := cur; c_ptype := pt; c_fid := fid; c_total := tl; c_pdulen := 0;
               c_reuse := ltype_eqb (label_type l) TR; c_exts := [] |} in
  exists R', decap crc mgr R (pkt_first l fid tl pt (takeN k0 pdu)) =
      Ret (R', inl (DFragmented {| md_pdu_len := 0; md_ptype := pt; md_label := cur; md_exts := [] |}, 7 + lenN (label_bytes l) + k0))
    /\ slot_inv R' c0 pdu k0 /\ dlast R' = dlast R1.
Proof.
  intros Hw Hz Hpt Hfid Hpdu Hk Htl Hg Hwf Hres Hmax Hslots Havail tl c0.
  set (payload := takeN k0 pdu).
  assert (Lp : lenN payload = k0) by (subst payload; rewrite lenN_takeN; lia).
  assert (Hb : bytes_ok (pkt_first l fid tl pt payload)) by (apply pkt_first_ok; auto; apply bytes_ok_takeN, Hpdu).
  rewrite decap_spec by assumption.
  rewrite <- (app_nil_r (pkt_first l fid tl pt payload)).
  rewrite (decap_hl_packet crc mgr R _ [] (5 + lenN (label_bytes l) + k0) KFirst (label_type l)).
  2:{ rewrite lenN_pkt_first. lia. }
  2:{ unfold pkt_first. rewrite take2_be16, rd16_be16 by (apply hdr_arith_lt; lia). rewrite Lp.
      apply hdr_view_arith; [lia|]. intros [? _]; discriminate. }
  pose proof (first_hl_wf crc mgr R (pkt_first l fid tl pt payload) (label_type l)
                (lenN (pkt_first l fid tl pt payload) + lenN (@nil byte)) Hwf Hb ltac:(rewrite lenN_pkt_first; lia)) as W.
  rewrite (first_hl_sender crc mgr) in * by (auto; subst tl; lia). cbv zeta in *. rewrite Hres in *. rewrite Lp in *.
  destruct (N.leb_spec tl k0) as [Hbad|_]; [subst tl; lia|].
  pose proof (resolve_hl_wf _ _ _ _ _ Hwf Hres) as Hwf1. pose proof (resolve_hl_mem _ _ _ _ _ Hres) as Hm1.
  destruct (new_frag_fn (dmem R1) (ctx_at c0 k0)) as [m r] eqn:En.
  change {| c_label := cur; c_ptype := pt; c_fid := fid; c_total := tl; c_pdulen := k0;
            c_reuse := ltype_eqb (label_type l) TR; c_exts := [] |} with (ctx_at c0 k0) in *.
  rewrite En in *.
  destruct (mem_ok_new_frag _ _ _ _ Hwf1 En) as (Hok & Hmf & Hmp & Hr).
  destruct r as [[c' pb]|e].
  2:{ exfalso. subst m. unfold new_frag_fn in En. rewrite Hm1 in En.
      destruct (N.eqb_spec (max_frag_id (dmem R)) 0); [contradiction|].
      cbn [ctx_at c_fid c0] in En. destruct (slot_of (dmem R) fid) as [[? ?]|]; [discriminate|].
      destruct (storages (dmem R)); [|discriminate]. destruct Havail as [H|H]; now apply H. }
  destruct Hr as (-> & Hbo & Hsl & Hz2).
  assert (Hbig : lenN pdu <= lenN (bdata pb)) by (unfold buf_ok in Hbo; rewrite Hm1 in Hbo; lia).
  destruct (N.ltb_spec (lenN (bdata pb)) k0); [lia|].
  match type of W with context [save_frag_fn m ?x] => set (cb := x) in * end.
  destruct (save_frag_empty m cb) as (Esv & _); [apply Hok|now rewrite Hmf|exact Hsl|].
  rewrite Esv in *. cbn [fst] in W.
  eexists. split; [reflexivity|]. split; [|reflexivity].
  exists (snd cb). split; [exact W|]. cbn [dmem set_dmem].
  destruct Hok as (Hmw & _).
  rewrite slot_of_set_slot by (try assumption; apply N.mod_lt; now rewrite Hmf).
  cbn [fst cb c_fid ctx_at c0]. rewrite N.eqb_refl. split; [reflexivity|].
  cbn [snd cb bdata]. split.
  - rewrite takeN_app_eq by (now rewrite Lp). reflexivity.
  - rewrite lenN_app, lenN_dropN, Lp. lia.
Qed.

End FT.
