(* C16 -- the receiver recovers after any history. Pinned statements only: C05 (every reachable state is well
   formed) + configuration invariance, composed with C01 and C02, which hold from every well-formed state. *)
Require Import GSE.model.Base GSE.model.Types GSE.model.Ext GSE.model.Encap GSE.model.Memory GSE.model.Decap
  GSE.proofs.Tactics GSE.proofs.BaseLemmas GSE.proofs.EncapSpec GSE.proofs.EncapProps GSE.proofs.FragRun
  GSE.proofs.MemoryLemmas GSE.proofs.DecapBase GSE.proofs.DecapSpec GSE.proofs.DecapProps GSE.proofs.RoundTrip
  GSE.proofs.FragTrip GSE.proofs.Recover.
Require Import GSE.props.C01 GSE.props.C02 GSE.props.C05.
Open Scope N_scope.

(* After ANY history of calls on arbitrary buffers, resetting the label memory and making one storage buffer of at
   least max_pdu_size bytes available (provisioning answers Ok, or StorageOverflow because the free list is already
   full) leaves a well-formed state with the configured slots and PDU size, no remembered label, and a non-empty
   free list whose top buffer can hold max_pdu_size bytes. *)
Theorem c16_ready : forall crc mgr slots maxpdu cs b, Forall dcall_ok cs -> maxpdu <= lenN (bdata b) ->
  exists R0, dcall_run crc mgr (dec_new slots maxpdu) cs = Ret R0 /\
  let R := fst (dec_provision (dec_reset R0) b) in
  dstate_wf R /\ dlast R = None /\ max_pdu_size (dmem R) = maxpdu /\ max_frag_id (dmem R) = slots /\
  (snd (dec_provision (dec_reset R0) b) = None \/ exists b', snd (dec_provision (dec_reset R0) b) = Some (MOverflow b')) /\
  exists pb rest, storages (dmem R) = pb :: rest /\ maxpdu <= lenN (bdata pb).
Proof.
  intros crc mgr slots maxpdu cs b Hok Hb.
  assert (CFG : forall cs s, Forall dcall_ok cs -> dstate_wf s -> exists s', dcall_run crc mgr s cs = Ret s' /\ dstate_wf s' /\
             same_cfg (dmem s) (dmem s')).
  { clear. induction cs as [|c t IH]; intros s Hok Hs; cbn [dcall_run]; [exists s; auto using same_cfg_refl|]. inversion Hok; subst.
    assert (exists s1, dcall_step crc mgr s c = Ret s1 /\ dstate_wf s1 /\ same_cfg (dmem s) (dmem s1)) as (s1 & -> & W1 & C1).
    { destruct c as [buf|b| |]; cbn [dcall_step dcall_ok] in *.
      - rewrite decap_spec by assumption. cbn [bind]. eexists. split; [reflexivity|].
        split; [now apply decap_hl_wf|apply decap_hl_cfg].
      - unfold dec_provision. destruct (provision (dmem s) b) as [m r] eqn:E. cbn [fst]. eexists. split; [reflexivity|].
        split; [apply dstate_wf_mem; cbn [dmem set_dmem]; eapply mem_ok_provision; eauto|]. cbn [dmem set_dmem].
        eapply cfg_provision; eauto.
      - unfold dec_new_pdu, new_pdu. destruct (storages (dmem s)) as [|b t0] eqn:E; cbn [fst]; eexists; (split; [reflexivity|]).
        + split; [exact Hs|apply same_cfg_refl].
        + split; [|repeat split]. apply dstate_wf_mem; cbn [dmem set_dmem]. destruct Hs as ((Hf & Hc) & Hb & Hsl).
          rewrite E in Hb, Hc. inversion Hb; subst. rewrite lenN_cons in Hc.
          apply mem_ok_set_storages; [split; [split|split]; try assumption; rewrite E; [rewrite lenN_cons; lia|constructor; assumption]|lia|assumption].
      - eexists. split; [reflexivity|]. split; [exact Hs|apply same_cfg_refl]. }
    cbn [bind]. destruct (IH s1 ltac:(assumption) W1) as (s' & E & W & C). exists s'. split; [exact E|]. split; [exact W|].
    eapply same_cfg_trans; eauto. }
  destruct (CFG cs (dec_new slots maxpdu) Hok ltac:(apply dstate_wf_mem, mem_ok_new)) as (R0 & E & W & (F & P & Cp)).
  exists R0. split; [exact E|]. cbn [dec_new dmem mem_new max_pdu_size max_frag_id cap] in P, F, Cp.
  unfold dec_provision, dec_reset. cbn [dmem set_dlast]. unfold provision.
  destruct W as ((Hf & Hc) & Hbufs & Hsl).
  destruct (N.eqb_spec (cap (dmem R0)) (lenN (storages (dmem R0)))) as [Hfull|Hnf]; cbn [fst snd].
  - cbn [set_dmem dmem dlast]. split; [split; [split|split]; assumption|]. repeat split; auto.
    + right. eauto.
    + destruct (storages (dmem R0)) as [|pb rest] eqn:Es.
      * exfalso. rewrite lenN_nil in Hfull. unfold MIN_MARGIN in Cp. lia.
      * inversion Hbufs; subst. exists pb, rest. split; [reflexivity|]. unfold buf_ok in *. lia.
  - rewrite P. destruct (N.ltb_spec (lenN (bdata b)) maxpdu); [lia|]. cbn [fst snd].
    cbn [set_dmem dmem dlast set_storages storages max_pdu_size max_frag_id]. split.
    + apply mem_ok_set_storages; [split; [split|split]; assumption|rewrite lenN_cons; lia|constructor; [unfold buf_ok; lia|assumption]].
    + repeat split; auto. exists b, (storages (dmem R0)). split; [reflexivity|lia].
Qed.

(* ... hence a valid complete packet with an explicit (3-byte, 6-byte) or broadcast label is delivered correctly *)
Theorem c16_complete : forall crc mgr R S pdu fid pt lab buf S' buf' n tail pb rest,
  dstate_wf R -> storages (dmem R) = pb :: rest -> lenN pdu <= lenN (bdata pb) ->
  enc_wf S -> label_wf lab -> bytes_ok pdu -> bytes_ok tail -> 1536 <= pt < 65536 ->
  encap crc S pdu fid pt lab buf = Ret (S', buf', inl (Completed n)) ->
  label_type (snd (check_reuse_hl S lab)) <> TR ->
  exists R', decap crc mgr R (takeN n buf' ++ tail) =
    Ret (R', inl (DCompleted {| bid := bid pb; bdata := pdu ++ dropN (lenN pdu) (bdata pb) |}
                    {| md_pdu_len := lenN pdu; md_ptype := pt; md_label := lab; md_exts := [] |}, n)).
Proof.
  intros crc mgr R S pdu fid pt lab buf S' buf' n tail pb rest HR Hst Hfit HS Hw Hpdu Htail Hpt He Hnr.
  destruct (resolve_hl R (label_type (snd (check_reuse_hl S lab))) (snd (check_reuse_hl S lab))) as [[R1 cur]|e] eqn:Er.
  2:{ exfalso. unfold resolve_hl in Er. destruct (label_type (snd (check_reuse_hl S lab))); try discriminate. now apply Hnr. }
  destruct (c01_roundtrip crc mgr S pdu fid pt lab buf S' buf' n R tail cur R1 pb rest HS Hw Hpdu Htail Hpt He HR Er Hst Hfit)
    as (E & Hcur & _).
  destruct (Hcur Hnr) as [-> _]. eauto.
Qed.

(* ... and a valid fragmented PDU on ANY fragment id is reassembled and delivered correctly (the slot is stolen
   from a stale context or a free buffer is used) *)
Theorem c16_fragmented : forall crc mgr, (forall a b c d, crc a b c d < 4294967296) ->
  forall R S pdu fid pt lab b0 S' b0' n0 c0 bufs ps,
  dstate_wf R -> storages (dmem R) <> [] -> lenN pdu <= max_pdu_size (dmem R) -> max_frag_id (dmem R) <> 0 ->
  enc_wf S -> label_wf lab -> bytes_ok pdu -> fid < 256 -> 1536 <= pt < 65536 ->
  encap crc S pdu fid pt lab b0 = Ret (S', b0', inl (Fragmented n0 c0)) ->
  frag_run pdu c0 bufs = Ret (ps, None) ->
  label_type (snd (check_reuse_hl S lab)) <> TR ->
  exists R' b rs, recv_run crc mgr R (takeN n0 b0' :: ps) = Ret (R', rs) /\
    (exists md n, List.last rs (inl (DPadding, 0)) = inl (DCompleted b md, n) /\ md_pdu_len md = lenN pdu /\ md_ptype md = pt /\ md_label md = lab) /\
    takeN (lenN pdu) (bdata b) = pdu.
Proof.
  intros crc mgr Hc R S pdu fid pt lab b0 S' b0' n0 c0 bufs ps HR Hst Hmax Hz HS Hw Hpdu Hfid Hpt He Hrun Hnr.
  destruct (resolve_hl R (label_type (snd (check_reuse_hl S lab))) (snd (check_reuse_hl S lab))) as [[R1 cur]|e] eqn:Er.
  2:{ exfalso. unfold resolve_hl in Er. destruct (label_type (snd (check_reuse_hl S lab))); try discriminate. now apply Hnr. }
  destruct (c02_roundtrip crc mgr Hc S pdu fid pt lab b0 S' b0' n0 c0 bufs ps R R1 cur HS Hw Hpdu Hfid Hpt He Hrun HR Er Hmax Hz (or_intror Hst))
    as (R' & b & lastp & Eps & Erun & Hd & _).
  assert (Hcur : cur = lab).
  { rewrite (resolve_cur R _ R1 cur Er Hnr).
    destruct (check_reuse_hl S lab) as [s1 l] eqn:Hcr. cbn [snd] in *.
    apply check_reuse_cases in Hcr as [(-> & _)|(-> & _)]; [now cbn in Hnr|reflexivity]. }
  eexists R', b, _. split; [exact Erun|]. split; [|exact Hd].
  eexists _, _. split; [rewrite app_comm_cons; apply last_last|].
  cbn [md_pdu_len md_ptype md_label]. rewrite ?Hcur. auto.
Qed.

Print Assumptions c16_ready.
Print Assumptions c16_complete.
Print Assumptions c16_fragmented.
