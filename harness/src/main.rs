fn main(){}
