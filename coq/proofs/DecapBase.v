(* Receiver building blocks: arithmetic view of the header word, extension ids, the extension walker
   (always terminates within its fuel, stays inside its slice). No model code. *)
Require Import GSE.gen.Consts GSE.gen.HLenTable GSE.model.Base GSE.model.Types GSE.model.Header GSE.model.Ext
  GSE.model.Memory GSE.model.Decap
  GSE.proofs.Tactics GSE.proofs.BaseLemmas GSE.proofs.HeaderLemmas GSE.proofs.EncapSpec.
Open Scope N_scope.
Set Default Proof Using "Type".

(* ---------- header word, read arithmetically ---------- *)
Definition kind_of_se (x : N) : kind := if x =? 3 then KComplete else if x =? 2 then KFirst else if x =? 1 then KEnd else KInter.
Definition ltype_of_num (x : N) : ltype := if x =? 0 then T6 else if x =? 1 then T3 else if x =? 2 then TB else TR.
Definition hdr_view (w : N) : option (N * kind * ltype) :=
  if w / 4096 =? 0 then None
  else Some (w mod 4096, kind_of_se (w / 16384), ltype_of_num ((w / 4096) mod 4)).

Definition view_okb (w : N) : bool :=
  match read_hdr w, hdr_view w with
  | Ret None, None => true
  | Ret (Some (l, k, t)), Some (l', k', t') => (l =? l') && kind_eqb k k' && ltype_eqb t t'
  | _, _ => false
  end.
Lemma view_sweep : forallb view_okb (Nrange 65536) = true.
Proof. vm_compute. reflexivity. Qed.
Lemma read_hdr_view w : w < 65536 -> read_hdr w = Ret (hdr_view w).
Proof.
  intro H. pose proof view_sweep as S. rewrite forallb_forall in S.
  specialize (S w (proj2 (Nrange_In _ _) H)). unfold view_okb in S.
  destruct (read_hdr w) as [[[[l k] t]|]|]; destruct (hdr_view w) as [[[l' k'] t']|]; try discriminate; [|reflexivity].
  apply andb_prop in S as [S S3]. apply andb_prop in S as [S1 S2].
  apply N.eqb_eq in S1. apply kind_eqb_eq in S2. apply ltype_eqb_eq in S3. now subst.
Qed.
Lemma hdr_view_arith k t len : len < 4096 -> ~ (k = KInter /\ t = T6) -> hdr_view (hdr_arith k t len) = Some (len, k, t).
Proof.
  intros Hl Hn. assert (Hw : hdr_arith k t len < 65536) by now apply hdr_arith_lt.
  pose proof (read_hdr_view _ Hw) as E. rewrite <- gen_hdr_arith in E by assumption.
  rewrite read_gen in E by assumption. rewrite <- gen_hdr_arith by assumption. now injection E as <-.
Qed.
Lemma hdr_view_len w l k t : hdr_view w = Some (l, k, t) -> l < 4096.
Proof. unfold hdr_view. destruct (w / 4096 =? 0); [discriminate|]. intros [= <- _ _]. apply N.mod_lt. discriminate. Qed.

Lemma rd16_takeN2_lt buf : bytes_ok buf -> 2 <= lenN buf -> rd16 (takeN 2 buf) < 65536.
Proof.
  intros Hb Hl. destruct buf as [|a [|b t]]; rewrite ?lenN_cons, ?lenN_nil in Hl; try lia.
  rewrite takeN_cons by lia. rewrite takeN_cons by lia. change (2 - 1 - 1) with 0. rewrite takeN_0. inversion Hb as [|? ? Ha Hb']; subst. inversion Hb' as [|? ? Hb2 _]; subst. unfold rd16. lia.
Qed.

(* ---------- extension ids below 0x600 ---------- *)
Definition extid_okb (p : N) : bool :=
  (N.shiftr (N.land p H_LEN_MASK) 8 =? p / 256) && (N.shiftr p 8 =? p / 256).
Lemma extid_sweep : forallb extid_okb (Nrange 1536) = true.
Proof. vm_compute. reflexivity. Qed.
Lemma extid_hlen p : p < 1536 -> N.shiftr (N.land p H_LEN_MASK) 8 = p / 256 /\ N.shiftr p 8 = p / 256.
Proof.
  intro H. pose proof extid_sweep as S. rewrite forallb_forall in S.
  specialize (S p (proj2 (Nrange_In _ _) H)). unfold extid_okb in S. apply andb_prop in S as [S1 S2].
  split; now apply N.eqb_eq.
Qed.
(* data size announced by an optional extension id: the H-LEN table of the crate = 2 * (H-LEN - 1) *)
Definition opt_size (p : N) : N := 2 * (p / 256 - 1).
Lemma hlen_table_opt p : 256 <= p < 1536 -> hlen_table (p / 256) = Some (opt_size p).
Proof.
  intros [H1 H2]. assert (1 <= p / 256 <= 5) as [A B].
  { split; [apply N.div_le_lower_bound; lia|]. assert (p / 256 < 6) by (apply N.div_lt_upper_bound; lia). lia. }
  unfold opt_size. remember (p / 256) as h eqn:E. clear E H1 H2 p.
  assert (h = 1 \/ h = 2 \/ h = 3 \/ h = 4 \/ h = 5) as [->|[->|[->|[->| ->]]]] by lia; reflexivity.
Qed.

Lemma ext_new_mand p d : p < 256 -> ext_new p d = Ret (inl {| ext_id := p; ext_dat := DMand d |}).
Proof. intro H. unfold ext_new. change SECOND_RANGE_PTYPE with 1536. change MAX_MANDATORY_VAL_PTYPE with 256.
  destruct (N.leb_spec 1536 p); [lia|]. destruct (N.ltb_spec p 256); [reflexivity|lia]. Qed.
Lemma ext_new_opt p d : 256 <= p < 1536 -> lenN d = opt_size p ->
  exists e, ext_new p d = Ret (inl e) /\ ext_id e = p /\ ext_bytes e = d /\ ext_len e = 2 + lenN d /\ is_mand e = false.
Proof.
  intros [H1 H2] Hd. unfold ext_new. change SECOND_RANGE_PTYPE with 1536. change MAX_MANDATORY_VAL_PTYPE with 256.
  destruct (N.leb_spec 1536 p); [lia|]. destruct (N.ltb_spec p 256); [lia|].
  destruct (extid_hlen p H2) as [_ ->].
  assert (p / 256 < 256) by (apply N.div_lt_upper_bound; lia).
  destruct (N.ltb_spec (p / 256) 256); [|lia]. cbn [bind].
  rewrite hlen_table_opt by lia. rewrite Hd, N.eqb_refl. cbn [negb].
  assert (1 <= p / 256 <= 5) as [A B].
  { split; [apply N.div_le_lower_bound; lia|]. assert (p / 256 < 6) by (apply N.div_lt_upper_bound; lia). lia. }
  unfold opt_size in *. remember (p / 256) as h eqn:E.
  assert (h = 1 \/ h = 2 \/ h = 3 \/ h = 4 \/ h = 5) as [->|[->|[->|[->| ->]]]] by lia;
    cbn; eexists; (split; [reflexivity|]); cbn; unfold ext_len; cbn; rewrite ?Hd; repeat split; try reflexivity.
  apply lenN_0_nil in Hd. now subst.
Qed.
Lemma ext_new_bad p d : 1536 <= p -> ext_new p d = Ret (inr XIncorrectExtensionId).
Proof. intro H. unfold ext_new. change SECOND_RANGE_PTYPE with 1536. destruct (N.leb_spec 1536 p); [reflexivity|lia]. Qed.
Lemma ext_new_size p d : 256 <= p < 1536 -> lenN d <> opt_size p -> ext_new p d = Ret (inr XIdAndVecSizeNotMatching).
Proof.
  intros [H1 H2] Hd. unfold ext_new. change SECOND_RANGE_PTYPE with 1536. change MAX_MANDATORY_VAL_PTYPE with 256.
  destruct (N.leb_spec 1536 p); [lia|]. destruct (N.ltb_spec p 256); [lia|].
  destruct (extid_hlen p H2) as [_ ->].
  assert (p / 256 < 256) by (apply N.div_lt_upper_bound; lia).
  destruct (N.ltb_spec (p / 256) 256); [|lia]. cbn [bind].
  rewrite hlen_table_opt by lia. destruct (N.eqb_spec (opt_size p) (lenN d)); [congruence|reflexivity].
Qed.

(* ---------- the walker ---------- *)
Section Walker.
Variable mgr : N -> mand.

(* one well-formed outcome: offsets only grow and stay inside the slice *)
Definition walk_res_ok (pdu : list byte) (offset : N) (r : walk_ok + walk_err) : Prop :=
  match r with inl w => offset <= w_len w <= lenN pdu | inr _ => True end.

Lemma walk_total : forall fuel pdu ptype offset acc, offset <= lenN pdu -> lenN pdu - offset < N.of_nat fuel ->
  exists r, walk mgr fuel pdu ptype offset acc = Ret (Some r) /\ walk_res_ok pdu offset r.
Proof.
  induction fuel as [|fuel IH]; intros pdu ptype offset acc Ho Hf; [lia|].
  cbn [walk]. change SECOND_RANGE_PTYPE with 1536. change PROTOCOL_LEN with 2.
  destruct (N.ltb_spec ptype 1536) as [Hp|Hp]; cbn [negb].
  2:{ eexists. split; [reflexivity|]. cbn. lia. }
  destruct (extid_hlen ptype Hp) as [-> _].
  assert (Hh : ptype / 256 < 6) by (apply N.div_lt_upper_bound; lia).
  destruct (N.ltb_spec (ptype / 256) 256); [|lia]. cbn [bind].
  (* the common continuation *)
  assert (NEXT : forall off' acc', offset <= off' -> off' <= lenN pdu ->
     exists r, (if lenN pdu <? off' + 2 then Ret (Some (inr WBufferTooSmall))
                else do s <- slice pdu off' (off' + 2); walk mgr fuel pdu (rd16 s) (off' + 2) acc')
               = Ret (Some r) /\ walk_res_ok pdu offset r).
  { intros off' acc' H1 H2. destruct (N.ltb_spec (lenN pdu) (off' + 2)); [eexists; split; [reflexivity|exact I]|].
    rewrite slice_ok by lia. cbn [bind].
    destruct (IH pdu (rd16 (takeN (off' + 2 - off') (dropN off' pdu))) (off' + 2) acc' ltac:(lia) ltac:(lia)) as (r & E & R).
    exists r. split; [exact E|]. destruct r; cbn in *; [lia|exact I]. }
  destruct (N.eqb_spec (ptype / 256) 0) as [Hz|Hz].
  - assert (Hm : ptype < 256).
    { destruct (N.lt_ge_cases ptype 256); [assumption|]. assert (1 <= ptype / 256) by (apply N.div_le_lower_bound; lia). lia. }
    destruct (mgr ptype) as [size|size|].
    + destruct (N.ltb_spec (lenN pdu) (offset + size)); [eexists; split; [reflexivity|exact I]|].
      rewrite slice_ok by lia. cbn [bind]. unfold ext_new_or_todo. rewrite ext_new_mand by assumption. cbn [bind].
      eexists. split; [reflexivity|]. cbn. lia.
    + destruct (N.ltb_spec (lenN pdu) (offset + size)); [eexists; split; [reflexivity|exact I]|].
      rewrite slice_ok by lia. cbn [bind]. unfold ext_new_or_todo. rewrite ext_new_mand by assumption. cbn [bind].
      apply NEXT; lia.
    + eexists. split; [reflexivity|exact I].
  - assert (Hp2 : 256 <= ptype).
    { destruct (N.lt_ge_cases ptype 256) as [Hlt|]; [|assumption]. rewrite N.div_small in Hz by assumption. contradiction. }
    rewrite hlen_table_opt by lia.
    destruct (N.ltb_spec (lenN pdu) (offset + opt_size ptype)); [eexists; split; [reflexivity|exact I]|].
    rewrite slice_ok by lia. cbn [bind]. unfold ext_new_or_todo.
    destruct (ext_new_opt ptype (takeN (offset + opt_size ptype - offset) (dropN offset pdu))) as (e & -> & _);
      [lia|rewrite lenN_takeN, lenN_dropN; lia|]. cbn [bind].
    apply NEXT; lia.
Qed.

Lemma iterate_ext_total pdu ptype :
  exists r, iterate_ext mgr pdu ptype = Ret (Some r) /\ walk_res_ok pdu 0 r.
Proof. unfold iterate_ext. apply walk_total; [lia|]. rewrite lenN_spec. lia. Qed.

(* panic-free reading of the chain of a slice *)
Definition walk_fn (pdu : list byte) (ptype : N) : walk_ok + walk_err :=
  match iterate_ext mgr pdu ptype with Ret (Some r) => r | _ => inr WBufferTooSmall end.
Lemma iterate_ext_fn pdu ptype : iterate_ext mgr pdu ptype = Ret (Some (walk_fn pdu ptype)).
Proof. unfold walk_fn. destruct (iterate_ext_total pdu ptype) as (r & -> & _). reflexivity. Qed.
Lemma walk_fn_bound pdu ptype w : walk_fn pdu ptype = inl w -> w_len w <= lenN pdu.
Proof. unfold walk_fn. destruct (iterate_ext_total pdu ptype) as (r & -> & R). intros ->. cbn in R. lia. Qed.
Lemma walk_fn_noext pdu ptype : 1536 <= ptype -> walk_fn pdu ptype = inl {| w_exts := []; w_ptype := ptype; w_len := 0 |}.
Proof. intro H. unfold walk_fn, iterate_ext. cbn [walk]. change SECOND_RANGE_PTYPE with 1536.
  destruct (N.ltb_spec ptype 1536); [lia|]. reflexivity. Qed.
End Walker.
