(* C14 -- the 16-bit fixed header codec is a bijection on non-padding headers.
   Only pinned statements here; proofs are in proofs/HeaderLemmas.v. *)
Require Import GSE.model.Base GSE.model.Types GSE.model.Header GSE.proofs.HeaderLemmas.
Open Scope N_scope.

(* Reading any of the 65536 values never panics; it yields no packet exactly for the padding pattern
   (start = 0, end = 0, label type 00, i.e. the top four bits are zero); for every other value,
   re-encoding the decoded (length, kind, label type) reproduces the value. *)
Theorem c14_read_total_and_inverse : forall w, w < 65536 ->
  read_hdr w <> Panic /\
  (read_hdr w = Ret None <-> w / 4096 = 0) /\
  (forall len k t, read_hdr w = Ret (Some (len, k, t)) -> gen_hdr k t len = w /\ len < 4096).
Proof.
  intros w H. destruct (read_hdr_cases w H) as [[E Z]|(len & k & t & E & NZ & G & L & _)]; rewrite E.
  - split; [discriminate|]. split; [tauto|]. discriminate.
  - split; [discriminate|]. split; [split; [discriminate|tauto]|]. intros ? ? ? [= <- <- <-]. tauto.
Qed.

(* Conversely, for every kind, label type and GSE length 0..=4095 that is not the padding pattern. *)
Theorem c14_gen_inverse : forall k t len, len < 4096 -> ~ (k = KInter /\ t = T6) ->
  read_hdr (gen_hdr k t len) = Ret (Some (len, k, t)).
Proof. exact read_gen. Qed.

(* The encoding is the one of ETSI TS 102 606 (S, E, LT, 12-bit length), independent of the masks. *)
Theorem c14_wire_layout : forall k t len, len < 4096 ->
  gen_hdr k t len = se_num k * 16384 + lt_num t * 4096 + len.
Proof. exact gen_hdr_arith. Qed.

Example c14_nonvacuous : read_hdr 0xC01C = Ret (Some (28, KComplete, T6)) /\ read_hdr 0x0FFF = Ret None.
Proof. split; reflexivity. Qed.

Print Assumptions c14_read_total_and_inverse.
Print Assumptions c14_gen_inverse.
Print Assumptions c14_wire_layout.
