(* C01 -- unfragmented round trip preserves PDU, protocol type and label. Pinned statements only. *)
Require Import GSE.model.Base GSE.model.Types GSE.model.Ext GSE.model.Encap GSE.model.Memory GSE.model.Decap
  GSE.proofs.Tactics GSE.proofs.BaseLemmas GSE.proofs.HeaderLemmas GSE.proofs.DecapBase GSE.proofs.EncapSpec GSE.proofs.EncapProps GSE.proofs.MemoryLemmas
  GSE.proofs.DecapSpec GSE.proofs.DecapProps GSE.proofs.RoundTrip.
Open Scope N_scope.
#[local] Opaque pkt_complete pkt_first pkt_end pkt_inter.

(* Whenever encap reports a completed packet of n bytes, giving exactly those n bytes (followed by anything: `tail`)
   to a decapsulator in any well-formed state whose next free buffer can hold the PDU, and which can resolve the
   label as written, yields a completed PDU with the same bytes, length, protocol type and label; decap consumes
   exactly n. (Protocol types >= 0x0600; types below 0x0100 designate a final mandatory extension: C13.) *)
Theorem c01_roundtrip : forall crc mgr S pdu fid pt lab buf S' buf' n R tail cur R1 pb rest,
  enc_wf S -> label_wf lab -> bytes_ok pdu -> bytes_ok tail -> 1536 <= pt < 65536 ->
  encap crc S pdu fid pt lab buf = Ret (S', buf', inl (Completed n)) ->
  dstate_wf R ->
  let l := snd (check_reuse_hl S lab) in                    (* the label as written *)
  resolve_hl R (label_type l) l = inl (R1, cur) ->          (* the receiver can resolve it *)
  storages (dmem R) = pb :: rest -> lenN pdu <= lenN (bdata pb) ->
  decap crc mgr R (takeN n buf' ++ tail) =
    Ret (set_dmem R1 (set_storages (dmem R1) rest),
         inl (DCompleted {| bid := bid pb; bdata := pdu ++ dropN (lenN pdu) (bdata pb) |}
                {| md_pdu_len := lenN pdu; md_ptype := pt; md_label := cur; md_exts := [] |}, n))
  /\ (label_type l <> TR -> cur = lab /\ dlast R1 = (if ltype_eqb (label_type l) TB then None else Some lab))
  /\ (label_type l = TR -> dlast R = Some cur /\ R1 = R).
Proof.
  intros crc mgr S pdu fid pt lab buf S' buf' n R tail cur R1 pb rest HS Hw Hpdu Htail Hpt He HR l Hres Hst Hfit.
  rewrite encap_spec in He by assumption. injection He as He.
  destruct (encap_ok_guards crc _ _ _ _ _ _ _ _ _ He) as [Hz _].
  pose proof (encap_hl_shape crc S pdu fid pt lab buf Hw) as Sh. rewrite He in Sh.
  remember (S', buf', @inl enc_status enc_error (Completed n)) as oo eqn:E.
  destruct Sh as [e|s1 l' Hc Hf Hg|s1 l' pe Hc Hpe Hb Hlt Hbig]; try discriminate E. injection E as <- <- <-.
  subst l. rewrite Hc in *. cbn [snd] in *.
  pose proof (check_reuse_label_wf _ _ _ _ Hw Hc) as Hwl.
  assert (Hzl : is_zero6 l' = false).
  { apply check_reuse_cases in Hc as [(-> & _)|(-> & _)]; [reflexivity|exact Hz]. }
  rewrite takeN_app_eq by (now rewrite lenN_pkt_complete).
  assert (Hbytes : bytes_ok (pkt_complete l' pt pdu ++ tail)).
  { apply bytes_ok_app. split; [|exact Htail]. with_strategy transparent [pkt_complete] unfold pkt_complete.
    repeat (apply bytes_ok_app; split); auto using be16_ok, label_bytes_ok. }
  rewrite decap_spec by assumption.
  rewrite (decap_hl_packet crc mgr R _ tail (lenN pdu + lenN (label_bytes l') + 2) KComplete (label_type l')).
  2:{ rewrite lenN_pkt_complete. lia. }
  2:{ with_strategy transparent [pkt_complete] unfold pkt_complete. rewrite take2_be16, rd16_be16 by (apply hdr_arith_lt; lia).
      apply hdr_view_arith; [lia|]. intros [? _]; discriminate. }
  rewrite complete_hl_sender by (auto; lia). cbv zeta. rewrite Hres.
  assert (Hm : dmem R1 = dmem R) by (eapply resolve_hl_mem; eauto). rewrite Hm, Hst.
  destruct (N.ltb_spec (lenN (bdata pb)) (lenN pdu)); [lia|].
  split; [reflexivity|].
  unfold resolve_hl in Hres. split.
  - intro Hnr. apply check_reuse_cases in Hc as [(-> & _)|(-> & _)]; [now cbn in Hnr|].
    destruct lab; cbn in *; try (injection Hres as <- <-; auto); contradiction.
  - intro Htr. destruct l'; try discriminate. cbn in Hres.
    destruct (dlast R) as [[| | |]|]; try discriminate; injection Hres as <- <-; auto.
Qed.

(* encap must report a completed packet whenever protocol type, label as written (empty after a re-use
   substitution) and PDU fit in the 4095-byte GSE length and the buffer can hold the packet *)
Theorem c01_must_complete : forall crc S pdu fid pt lab buf, enc_wf S -> label_wf lab ->
  lab <> L6 [0;0;0;0;0;0] -> ~ (0x0100 <= pt <= 0x05FF) ->
  let l := snd (check_reuse_hl S lab) in
  2 + lenN (label_bytes l) + lenN pdu <= 4095 -> 4 + lenN (label_bytes l) + lenN pdu <= lenN buf ->
  exists S' buf', encap crc S pdu fid pt lab buf = Ret (S', buf', inl (Completed (4 + lenN (label_bytes l) + lenN pdu))).
Proof.
  intros crc S pdu fid pt lab buf HS Hw Hnz Hp l Hg Hf. rewrite encap_spec by assumption.
  assert (Hz : is_zero6 lab = false).
  { unfold is_zero6. apply label_eqb_neq. exact Hnz. }
  pose proof (encap_must_complete crc S pdu fid pt lab buf Hz ltac:(lia) ltac:(fold l; lia) ltac:(fold l; lia)) as E.
  destruct (encap_hl crc S pdu fid pt lab buf) as [[S' b'] r]. cbn [snd] in E. subst r. eauto.
Qed.

Example c01_nonvacuous :
  let S := enc_new in let R := fst (dec_provision (dec_new 1 4) {| bid := 7; bdata := [0;0;0;0;0] |}) in
  (do r <- encap (fun _ _ _ _ => 0) S [9;8;7] 1 0x0800 (L3 [1;2;3]) (zeros 20);
   let '(_, b, _) := r in decap (fun _ _ _ _ => 0) mgr_simple R (takeN 10 b ++ [0xAA]))
  = Ret ({| dmem := mem_new 1 4; dlast := Some (L3 [1;2;3]) |},
         inl (DCompleted {| bid := 7; bdata := [9;8;7;0;0] |}
                {| md_pdu_len := 3; md_ptype := 0x0800; md_label := L3 [1;2;3]; md_exts := [] |}, 10)).
Proof. vm_compute. reflexivity. Qed.

Print Assumptions c01_roundtrip.
Print Assumptions c01_must_complete.
