(* C03 -- reassembly delivers only length- and CRC-verified PDUs (no silent corruption). Pinned statements only.
   "Most recent first fragment" is read as: the most recent first fragment the receiver accepted (DESIGN.md
   section 5). The burst clause is c03_burst_detected, from proofs/CrcBurst.v. *)
Require Import GSE.model.Base GSE.model.Types GSE.model.Ext GSE.model.Encap GSE.model.Memory GSE.model.Decap
  GSE.proofs.Tactics GSE.proofs.BaseLemmas GSE.proofs.MemoryLemmas GSE.proofs.DecapBase GSE.proofs.DecapSpec
  GSE.proofs.DecapProps GSE.proofs.RoundTrip GSE.proofs.FragTrip GSE.proofs.Isolation GSE.proofs.Verified GSE.proofs.CrcLemmas GSE.proofs.CrcBurst GSE.proofs.LabelSync GSE.proofs.GhostBytes.
Require Import GSE.gen.Consts GSE.model.Crc.
Require Import GSE.props.C05.
Open Scope N_scope.

(* a receive history: arbitrary calls of the public API on arbitrary bytes, with the ghost history
   (per slot: fields of the first fragment that opened the current train + payloads received since, in arrival order)
   updated from each packet and each answer only (ghost_step) *)
Definition hstep crc mgr (w : dstate * ghost_map) (c : dcall) : res (dstate * ghost_map) :=
  let '(s, A) := w in
  match c with
  | DCDecap buf => do '(s', r) <- decap crc mgr s buf; Ret (s', ghost_step A s' buf r)
  | DCProvision b => Ret (fst (dec_provision s b), A)
  | DCNewPdu => Ret (fst (dec_new_pdu s), A)
  | DCReset => Ret (dec_reset s, A)
  end.
Fixpoint hrun crc mgr (w : dstate * ghost_map) (cs : list dcall) : res (dstate * ghost_map) :=
  match cs with [] => Ret w | c :: t => do w' <- hstep crc mgr w c; hrun crc mgr w' t end.

(* the ghost describes every reassembly in progress, after every history *)
Theorem c03_history_invariant : forall crc mgr slots maxpdu cs, Forall dcall_ok cs ->
  exists s A, hrun crc mgr (dec_new slots maxpdu, fun _ => None) cs = Ret (s, A) /\ dstate_wf s /\ ghost_ok s A.
Proof.
  intros crc mgr slots maxpdu cs.
  assert (H0 : dstate_wf (dec_new slots maxpdu) /\ ghost_ok (dec_new slots maxpdu) (fun _ => None)).
  { split; [apply dstate_wf_mem, mem_ok_new|]. intros f c b Hs. cbn [dec_new dmem] in Hs. rewrite mem_new_slots in Hs. discriminate. }
  revert H0. generalize (fun _ : N => @None (dctx * list (list byte))). generalize (dec_new slots maxpdu).
  induction cs as [|c t IH]; intros s A [Hs HG] Hok; cbn [hrun]; [eauto|].
  inversion Hok; subst.
  assert (exists s' A', hstep crc mgr (s, A) c = Ret (s', A') /\ dstate_wf s' /\ ghost_ok s' A') as (s' & A' & -> & Hs' & HG').
  { destruct c as [buf|b| |]; cbn [hstep dcall_ok] in *.
    - rewrite decap_spec by assumption. pose proof (decap_hl_wf crc mgr s buf Hs H1) as W.
      pose proof (ghost_preserved crc mgr s A buf Hs H1 HG) as G.
      destruct (decap_hl crc mgr s buf) as [s' r]. cbn [bind fst snd] in *. eauto.
    - destruct (dec_provision_wf s b Hs) as [W _]. eexists _, _. split; [reflexivity|]. split; [exact W|].
      unfold dec_provision in *. destruct (provision (dmem s) b) as [m r] eqn:E. cbn [fst dmem set_dmem] in *.
      intros f c0 b0 Hsl. cbn [fst dmem set_dmem] in Hsl |- *. rewrite (slot_of_provision _ _ _ _ f E) in Hsl.
      replace (max_frag_id m) with (max_frag_id (dmem s)); [now apply HG|].
      unfold provision in E. destruct (_ =? _); [now injection E as <- _|]. destruct (_ <? _); now injection E as <- _.
    - destruct (dec_new_pdu_wf s Hs) as [W _]. eexists _, _. split; [reflexivity|]. split; [exact W|].
      unfold dec_new_pdu, new_pdu in *. destruct (storages (dmem s)); cbn [fst dmem set_dmem] in *; exact HG.
    - eexists _, _. split; [reflexivity|]. split; [exact Hs|exact HG]. }
  cbn [bind]. apply IH; auto.
Qed.

(* decap reports a completed PDU at an end fragment only if the payloads of the (accepted) first fragment that opened
   the train of that fragment id and of all later fragments with that id, concatenated in arrival order (`concat ps`
   followed by the end fragment's own payload), have exactly the length announced by that first fragment's total
   length -- as natural numbers, no wrap -- and a CRC over (total length, protocol type, label bytes as the first
   fragment carried them, those bytes) equal to the end fragment's trailer; the bytes and metadata reported are
   exactly that concatenation and the first fragment's fields. *)
Theorem c03_verified_only : forall crc mgr slots maxpdu cs buf s A s' b md n, Forall dcall_ok cs -> bytes_ok buf ->
  hrun crc mgr (dec_new slots maxpdu, fun _ => None) cs = Ret (s, A) ->
  decap crc mgr s buf = Ret (s', inl (DCompleted b md, n)) ->
  (exists t p, head_pkt buf = Some (KComplete, t, p)) \/
  (exists t p c0 ps, head_pkt buf = Some (KEnd, t, p) /\
     A (hd0 (dropN 2 p) mod max_frag_id (dmem s)) = Some (c0, ps) /\ c_fid c0 = hd0 (dropN 2 p) /\
     let P := concat ps ++ end_payload p in
     c_total c0 = lenN P + 2 + (if c_reuse c0 then 0 else lt_len (label_type (c_label c0))) /\
     crc P (c_ptype c0) (c_total c0) (if c_reuse c0 then [] else label_bytes (c_label c0)) = end_trailer p /\
     takeN (lenN P) (bdata b) = P /\
     md = {| md_pdu_len := lenN P; md_ptype := c_ptype c0; md_label := c_label c0; md_exts := c_exts c0 |} /\
     n = lenN p).
Proof.
  intros crc mgr slots maxpdu cs buf s A s' b md n Hok Hb Hrun Hd.
  destruct (c03_history_invariant crc mgr slots maxpdu cs Hok) as (s0 & A0 & E & Hs & HG).
  rewrite Hrun in E. injection E as <- <-.
  rewrite decap_spec in Hd by assumption. injection Hd as Hd.
  exact (completed_is_verified crc mgr s A buf s' b md n Hs Hb HG Hd).
Qed.

(* what the ghost records when a first fragment is accepted: the fields of the packet itself *)
Theorem c03_train_opened : forall crc mgr s buf t p s' md n, dstate_wf s -> bytes_ok buf ->
  head_pkt buf = Some (KFirst, t, p) -> decap crc mgr s buf = Ret (s', inl (DFragmented md, n)) ->
  exists c b w, slot_of (dmem s') (hd0 (dropN 2 p)) = Some (c, b) /\ c_fid c = hd0 (dropN 2 p) /\
    walk_fn mgr (dropN (7 + lt_len t) p) (rd16 (takeN 2 (dropN 5 p))) = inl w /\
    let payload := dropN (7 + lt_len t + w_len w) p in
    c_pdulen c = lenN payload /\ takeN (lenN payload) (bdata b) = payload /\
    c_total c = rd16 (takeN 2 (dropN 3 p)) /\ c_ptype c = w_ptype w /\ c_exts c = w_exts w /\
    c_reuse c = ltype_eqb t TR /\ md_label md = c_label c /\ md_ptype md = c_ptype c.
Proof.
  intros crc mgr s buf t p s' md n Hs Hb Hh Hd. rewrite decap_spec in Hd by assumption. injection Hd as Hd.
  rewrite (decap_hl_head crc mgr s buf), Hh in Hd.
  destruct (first_hl_accepted mgr s p t (lenN buf) s' md n Hs Hd) as (c & b & w & H1 & H2 & H3 & H4).
  exists c, b, w. cbv zeta in *. intuition.
Qed.

(* Hence, within one train: whatever was lost, duplicated or truncated, a delivered PDU has exactly the number of
   bytes announced by the first fragment (total length - 2 - label length as carried): any fault that changes the
   number of payload bytes received for the train is detected (ErrorTotalLength) and never yields a PDU. *)
Theorem c03_length_exact : forall crc mgr slots maxpdu cs buf s A s' b md n t p c0 ps,
  Forall dcall_ok cs -> bytes_ok buf -> hrun crc mgr (dec_new slots maxpdu, fun _ => None) cs = Ret (s, A) ->
  decap crc mgr s buf = Ret (s', inl (DCompleted b md, n)) -> head_pkt buf = Some (KEnd, t, p) ->
  A (hd0 (dropN 2 p) mod max_frag_id (dmem s)) = Some (c0, ps) ->
  md_pdu_len md + 2 + (if c_reuse c0 then 0 else lt_len (label_type (c_label c0))) = c_total c0 /\
  md_pdu_len md = lenN (concat ps) + lenN (end_payload p).
Proof.
  intros crc mgr slots maxpdu cs buf s A s' b md n t p c0 ps Hok Hb Hrun Hd Hh HA.
  destruct (c03_verified_only crc mgr slots maxpdu cs buf s A s' b md n Hok Hb Hrun Hd) as [(t' & p' & E)|(t' & p' & c0' & ps' & E & HA' & _ & Hrest)];
    rewrite Hh in E; [discriminate|]. injection E as <- <-. rewrite HA in HA'. injection HA' as <- <-.
  cbv zeta in Hrest. destruct Hrest as (Htot & _ & _ & -> & _). cbn [md_pdu_len]. rewrite lenN_app in *. split; [now rewrite Htot|reflexivity].
Qed.

Lemma rd32_lt l : bytes_ok l -> rd32 l < M32.
Proof.
  intro H. unfold rd32. destruct l as [|a [|b [|c [|d [|e t]]]]]; try reflexivity.
  inversion H as [|? ? Ha H1]; subst. inversion H1 as [|? ? Hb H2]; subst. inversion H2 as [|? ? Hc H3]; subst.
  inversion H3 as [|? ? Hd _]; subst. change M32 with 4294967296. lia.
Qed.

(* Burst clause. The receiver checks, at an end fragment, the CRC of the string
   R = total length | protocol type | label as carried | bytes received for the train (ghost history) ++ own payload
   against the trailer. If R ++ trailer differs from a CRC-protected string P ++ CRC(P) -- what a sender put on the
   link -- by a non-zero error pattern confined to 32 consecutive bit positions, no PDU is delivered. *)
Lemma c03_burst_core : forall mgr slots maxpdu cs buf s A t p c0 ps P e,
  Forall dcall_ok cs -> bytes_ok buf ->
  hrun default_crc mgr (dec_new slots maxpdu, fun _ => None) cs = Ret (s, A) ->
  head_pkt buf = Some (KEnd, t, p) ->
  A (hd0 (dropN 2 p) mod max_frag_id (dmem s)) = Some (c0, ps) ->
  let lab := if c_reuse c0 then [] else label_bytes (c_label c0) in
  let R := be16 (c_total c0) ++ be16 (c_ptype c0) ++ lab ++ concat ps ++ end_payload p in
  bytes_ok lab -> bytes_ok (concat ps) ->
  bytes_ok P ->
  length (bits (P ++ be32 (crc_spec P 0xFFFFFFFF))) = length e ->
  bits (R ++ be32 (end_trailer p)) = xorl (bits (P ++ be32 (crc_spec P 0xFFFFFFFF))) e -> burst e ->
  forall s' b md n, decap default_crc mgr s buf <> Ret (s', inl (DCompleted b md, n)).
Proof.
  intros mgr slots maxpdu cs buf s A t p c0 ps P e Hok Hb Hrun Hh HA lab R Hlab Hps HP Hlen Hx Hburst s' b md n Hd.
  destruct (c03_verified_only default_crc mgr slots maxpdu cs buf s A s' b md n Hok Hb Hrun Hd) as [(t' & p' & E)|(t' & p' & c0' & ps' & E & HA' & _ & Hrest)];
    rewrite Hh in E; [discriminate|]. injection E as <- <-. rewrite HA in HA'. injection HA' as <- <-.
  cbv zeta in Hrest. destruct Hrest as (_ & Hcrc & _).
  destruct (head_pkt_len default_crc mgr _ _ _ _ Hh) as (gl & _ & _ & _ & Ep).
  assert (Hbp : bytes_ok p) by (rewrite Ep; now apply bytes_ok_takeN).
  assert (Hpay : bytes_ok (end_payload p)) by (unfold end_payload; apply bytes_ok_takeN, bytes_ok_dropN, Hbp).
  assert (HT : end_trailer p < M32) by (unfold end_trailer; apply rd32_lt, bytes_ok_dropN, Hbp).
  fold lab in Hcrc. rewrite default_crc_ok in Hcrc by (auto; apply bytes_ok_app; auto).
  assert (HR : bytes_ok R) by (subst R; repeat (apply bytes_ok_app; split); auto using be16_ok).
  refine (burst_detected P (crc_spec P 0xFFFFFFFF) R (end_trailer p) e HP HR HT eq_refl Hlen Hx Hburst _).
  exact Hcrc.
Qed.

(* the ghost history holds byte strings only, after every history *)
Theorem c03_history_bytes : forall crc mgr slots maxpdu cs s A, Forall dcall_ok cs ->
  hrun crc mgr (dec_new slots maxpdu, fun _ => None) cs = Ret (s, A) -> ghost_bytes A.
Proof.
  intros crc mgr slots maxpdu cs s A Hok.
  assert (H0 : dstate_wf (dec_new slots maxpdu) /\ ghost_bytes (fun _ => None)).
  { split; [apply dstate_wf_mem, mem_ok_new|apply ghost_bytes_init]. }
  revert H0. generalize (fun _ : N => @None (dctx * list (list byte))). generalize (dec_new slots maxpdu).
  induction cs as [|c t IH]; intros s0 A0 [Hs HB] Hrun; cbn [hrun] in Hrun; [injection Hrun as <- <-; exact HB|].
  inversion Hok; subst.
  destruct c as [buf|b| |]; cbn [hstep dcall_ok bind] in *.
  - rewrite decap_spec in Hrun by assumption. pose proof (decap_hl_wf crc mgr s0 buf Hs H1) as W.
    destruct (decap_hl crc mgr s0 buf) as [s' r] eqn:Ed. cbn [bind fst] in *.
    apply (IH H2 s' (ghost_step A0 s' buf r)); [split; [exact W|]|exact Hrun].
    apply (ghost_step_bytes crc mgr s0 A0 buf s' r); assumption.
  - destruct (dec_provision_wf s0 b Hs) as [W _]. apply (IH H2 (fst (dec_provision s0 b)) A0); [split; assumption|exact Hrun].
  - destruct (dec_new_pdu_wf s0 Hs) as [W _]. apply (IH H2 (fst (dec_new_pdu s0)) A0); [split; assumption|exact Hrun].
  - apply (IH H2 (dec_reset s0) A0); [split; assumption|exact Hrun].
Qed.


(* the burst clause, for every history of calls on byte strings *)
Theorem c03_burst_detected : forall mgr slots maxpdu cs buf s A t p c0 ps P e,
  Forall dcall_ok cs -> bytes_ok buf ->
  hrun default_crc mgr (dec_new slots maxpdu, fun _ => None) cs = Ret (s, A) ->
  head_pkt buf = Some (KEnd, t, p) ->
  A (hd0 (dropN 2 p) mod max_frag_id (dmem s)) = Some (c0, ps) ->
  let lab := if c_reuse c0 then [] else label_bytes (c_label c0) in
  let R := be16 (c_total c0) ++ be16 (c_ptype c0) ++ lab ++ concat ps ++ end_payload p in
  bytes_ok P ->
  length (bits (P ++ be32 (crc_spec P 0xFFFFFFFF))) = length e ->
  bits (R ++ be32 (end_trailer p)) = xorl (bits (P ++ be32 (crc_spec P 0xFFFFFFFF))) e -> burst e ->
  forall s' b md n, decap default_crc mgr s buf <> Ret (s', inl (DCompleted b md, n)).
Proof.
  intros mgr slots maxpdu cs buf s A t p c0 ps P e Hok Hb Hrun Hh HA lab R HP Hlen Hx Hburst.
  destruct (c03_history_bytes default_crc mgr slots maxpdu cs s A Hok Hrun _ _ _ HA) as [Hps Hl].
  apply (c03_burst_core mgr slots maxpdu cs buf s A t p c0 ps P e); auto.
  - destruct (c_reuse c0); [constructor|now apply Hl].
  - clear -Hps. induction Hps as [|x l Hx _ IH]; [constructor|]. cbn [concat]. apply bytes_ok_app. auto.
Qed.

(* 32 is sharp: the 33-bit pattern of the generator polynomial itself leaves the register at zero *)
Example c03_burst_33_undetected :
  run [true; false;false;false;false; false;true;false;false; true;true;false;false; false;false;false;true;
       false;false;false;true; true;true;false;true; true;false;true;true; false;true;true;true] 0 = 0.
Proof. vm_compute. reflexivity. Qed.
Example c03_burst_nonvacuous : burst [false; true; false; true; true; false] /\ run [false; true; false; true; true; false] 0 <> 0.
Proof. split; [exists 1%nat, [true; false; true; true], 1%nat; repeat split; cbn; lia|vm_compute; discriminate]. Qed.

Print Assumptions c03_history_invariant.
Print Assumptions c03_verified_only.
Print Assumptions c03_train_opened.
Print Assumptions c03_length_exact.
Print Assumptions c03_history_bytes.
Print Assumptions c03_burst_detected.
