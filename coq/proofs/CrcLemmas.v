(* CRC-32/MPEG-2: bit-serial specification, linearity of the LFSR step, table = 8 bit steps,
   DefaultCrc = specification on the concatenated fields. No model code. *)
Require Import GSE.gen.Consts GSE.gen.CrcTable GSE.model.Base GSE.model.Crc
  GSE.proofs.Tactics GSE.proofs.BaseLemmas GSE.proofs.HeaderLemmas.
Open Scope N_scope.

(* ---------- specification ---------- *)
Definition POLY : N := 0x04C11DB7.
(* one shift of the 32-bit register: shift left, drop bit 32, xor the polynomial when the bit shifted out was 1 *)
Definition step0 (s : N) : N :=
  if N.testbit s 31 then N.lxor (N.land (N.shiftl s 1) (M32 - 1)) POLY
  else N.land (N.shiftl s 1) (M32 - 1).
(* one message bit, MSB first: the bit is xored into the top of the register, then the register shifts *)
Definition feed_bit (s : N) (b : bool) : N := step0 (N.lxor s (if b then 0x80000000 else 0)).
Definition bits_of_byte (x : N) : list bool :=
  [N.testbit x 7; N.testbit x 6; N.testbit x 5; N.testbit x 4; N.testbit x 3; N.testbit x 2; N.testbit x 1; N.testbit x 0].
Definition crc_bits (data : list byte) (init : N) : N :=
  fold_left feed_bit (flat_map bits_of_byte data) init.

Fixpoint iter (n : nat) (s : N) : N := match n with O => s | S k => iter k (step0 s) end.
(* byte-at-a-time form of the same computation: xor the byte into the top 8 bits, then 8 shifts *)
Definition byte_bitwise (acc b : N) : N := iter 8 (N.lxor acc (N.shiftl b 24)).
Definition crc_spec (data : list byte) (init : N) : N := fold_left byte_bitwise data init.
Definition tab_entry (i : N) : N := iter 8 (N.shiftl i 24).

(* ---------- algebra of the step ---------- *)
Lemma land_ones_lt a n : N.land a (N.ones n) < 2 ^ n.
Proof. rewrite N.land_ones. apply N.mod_lt. apply N.pow_nonzero. discriminate. Qed.

Lemma lt_pow2_bits x n : (forall m, n <= m -> N.testbit x m = false) -> x < 2 ^ n.
Proof.
  intro H. assert (E : x = x mod 2 ^ n).
  { apply N.bits_inj; intro m. destruct (N.ltb_spec m n).
    - now rewrite N.mod_pow2_bits_low by lia.
    - rewrite N.mod_pow2_bits_high by lia. apply H. lia. }
  rewrite E. apply N.mod_lt. apply N.pow_nonzero. discriminate.
Qed.
Lemma testbit_high a n m : a < 2 ^ n -> n <= m -> N.testbit a m = false.
Proof. intros Ha Hm. destruct (N.eq_dec a 0) as [->|Hz]; [apply N.bits_0|].
  apply N.bits_above_log2. assert (N.log2 a < n) by (apply N.log2_lt_pow2; lia). lia. Qed.

Lemma lxor_lt a b n : a < 2 ^ n -> b < 2 ^ n -> N.lxor a b < 2 ^ n.
Proof. intros Ha Hb. apply lt_pow2_bits. intros m Hm. rewrite N.lxor_spec.
  now rewrite (testbit_high a n m Ha Hm), (testbit_high b n m Hb Hm). Qed.

Lemma step0_lt s : step0 s < M32.
Proof.
  unfold step0. change (M32 - 1) with (N.ones 32). change M32 with (2 ^ 32).
  destruct (N.testbit s 31); [apply lxor_lt; [apply land_ones_lt|reflexivity]|apply land_ones_lt].
Qed.
Lemma iter_lt k s : s < M32 -> iter k s < M32.
Proof. revert s; induction k as [|k IH]; intros s H; cbn [iter]; [exact H|apply IH, step0_lt]. Qed.

Lemma step0_lxor a b : a < M32 -> b < 2 ^ 31 -> step0 (N.lxor a b) = N.lxor (step0 a) (N.shiftl b 1).
Proof.
  intros Ha Hb. unfold step0.
  assert (Hb31 : N.testbit b 31 = false) by (apply (testbit_high b 31); [exact Hb|lia]).
  rewrite N.lxor_spec, Hb31, xorb_false_r.
  assert (E: N.land (N.shiftl (N.lxor a b) 1) (M32-1) = N.lxor (N.land (N.shiftl a 1) (M32-1)) (N.shiftl b 1)).
  { rewrite N.shiftl_lxor. apply N.bits_inj; intro n.
    rewrite N.land_spec, !N.lxor_spec, N.land_spec.
    change (M32-1) with (N.ones 32).
    destruct (N.ltb_spec n 32).
    - rewrite N.ones_spec_low by lia. now rewrite !andb_true_r.
    - rewrite N.ones_spec_high by lia. rewrite !andb_false_r. rewrite xorb_false_l.
      symmetry. apply (testbit_high _ 32); [|lia]. rewrite N.shiftl_mul_pow2. change (2 ^ 32) with (2 ^ 31 * 2 ^ 1). lia. }
  rewrite E. destruct (N.testbit a 31).
  - rewrite !N.lxor_assoc. f_equal. apply N.lxor_comm.
  - reflexivity.
Qed.

Lemma iter_lxor k : forall a b, (k <= 32)%nat -> a < M32 -> b < 2^(32 - N.of_nat k) ->
  iter k (N.lxor a b) = N.lxor (iter k a) (N.shiftl b (N.of_nat k)).
Proof.
  induction k as [|k IH]; intros a b Hk Ha Hb.
  - cbn [iter]. now rewrite N.shiftl_0_r.
  - cbn [iter]. rewrite step0_lxor; auto.
    2:{ eapply N.lt_le_trans; [exact Hb|]. apply N.pow_le_mono_r; lia. }
    rewrite IH; try lia. 2: apply step0_lt.
    2:{ rewrite N.shiftl_mul_pow2. replace (32 - N.of_nat k) with (N.succ (32 - N.of_nat (S k))) by lia.
        rewrite N.pow_succ_r'. lia. }
    f_equal. rewrite N.shiftl_shiftl. f_equal. lia.
Qed.

Lemma split24 acc b : acc < M32 -> b < 256 ->
  N.lxor acc (N.shiftl b 24) = N.lxor (N.shiftl (N.lxor (N.shiftr acc 24) b) 24) (N.land acc (N.ones 24)).
Proof.
  intros Ha Hb. apply N.bits_inj; intro n.
  rewrite !N.lxor_spec, N.land_spec.
  destruct (N.ltb_spec n 24).
  - rewrite !N.shiftl_spec_low by lia. rewrite N.ones_spec_low by lia. now rewrite andb_true_r, xorb_false_r, xorb_false_l.
  - rewrite !N.shiftl_spec_high' by lia. rewrite N.ones_spec_high by lia. rewrite andb_false_r.
    rewrite N.lxor_spec, N.shiftr_spec'. rewrite xorb_false_r. f_equal. f_equal. lia.
Qed.

Lemma hi_lt acc b : acc < M32 -> b < 256 -> N.lxor (N.shiftr acc 24) b < 256.
Proof. intros Ha Hb. change 256 with (2 ^ 8). apply lxor_lt; [|exact Hb].
  rewrite N.shiftr_div_pow2. apply N.div_lt_upper_bound; [discriminate|]. change (2^24*2^8) with M32. exact Ha. Qed.

(* the table-driven byte step of crc.rs, with an ideal table, is 8 bit steps *)
Lemma byte_table_ok acc b : acc < M32 -> b < 256 ->
  N.lxor (N.land (N.shiftl acc 8) (M32 - 1)) (tab_entry (N.lxor (N.shiftr acc 24) b)) = byte_bitwise acc b.
Proof.
  intros Ha Hb. unfold byte_bitwise, tab_entry.
  rewrite (split24 acc b Ha Hb).
  set (hi := N.lxor (N.shiftr acc 24) b).
  assert (Hhi : hi < 256) by (apply hi_lt; assumption).
  rewrite (iter_lxor 8 (N.shiftl hi 24) (N.land acc (N.ones 24))); try lia.
  - rewrite N.lxor_comm. f_equal.
    change (M32 - 1) with (N.ones 32). apply N.bits_inj; intro n.
    rewrite !N.land_spec.
    destruct (N.ltb_spec n 8).
    + rewrite !N.shiftl_spec_low by (cbn; lia). reflexivity.
    + rewrite !N.shiftl_spec_high' by (cbn; lia). rewrite N.land_spec.
      destruct (N.ltb_spec n 32).
      * rewrite !N.ones_spec_low by (cbn; lia). reflexivity.
      * rewrite !N.ones_spec_high by (cbn; lia). now rewrite !andb_false_r.
  - rewrite N.shiftl_mul_pow2. change M32 with (256 * 2^24). lia.
  - change (2 ^ (32 - N.of_nat 8)) with (2 ^ 24). apply land_ones_lt.
Qed.

(* ---------- the generated table is the ideal table (finite sweep over the 256 indices) ---------- *)
Definition tab_okb (i : N) : bool :=
  match nthN i CRC_TAB with Some v => v =? tab_entry i | None => false end.
Lemma table_sweep : forallb tab_okb (Nrange 256) = true.
Proof. vm_compute. reflexivity. Qed.
Lemma table_ok i : i < 256 -> idx CRC_TAB i = Ret (tab_entry i).
Proof.
  intro H. pose proof table_sweep as S. rewrite forallb_forall in S.
  specialize (S i (proj2 (Nrange_In _ _) H)). unfold tab_okb in S. unfold idx in *.
  destruct (nthN i CRC_TAB) as [v|]; [|discriminate]. apply N.eqb_eq in S. rewrite S. reflexivity.
Qed.
Lemma table_len : lenN CRC_TAB = 256. Proof. reflexivity. Qed.

Lemma crc_byte_ok acc b : acc < M32 -> b < 256 -> crc_byte CRC_TAB acc b = Ret (byte_bitwise acc b).
Proof. intros Ha Hb. unfold crc_byte. rewrite table_ok by (apply hi_lt; assumption). cbn [bind].
  now rewrite byte_table_ok. Qed.
Lemma byte_bitwise_lt acc b : acc < M32 -> b < 256 -> byte_bitwise acc b < M32.
Proof. intros Ha Hb. unfold byte_bitwise. apply iter_lt. change M32 with (2 ^ 32). apply lxor_lt; [exact Ha|].
  rewrite N.shiftl_mul_pow2. change (2 ^ 32) with (256 * 2 ^ 24). lia. Qed.

Lemma crc_spec_lt data acc : bytes_ok data -> acc < M32 -> crc_spec data acc < M32.
Proof. unfold crc_spec. revert acc; induction data as [|b t IH]; intros acc Hd Ha; cbn [fold_left]; [exact Ha|].
  inversion Hd; subst. apply IH; [assumption|]. now apply byte_bitwise_lt. Qed.

Lemma crc32_tab_ok data : forall acc, bytes_ok data -> acc < M32 ->
  crc32_tab CRC_TAB data acc = Ret (crc_spec data acc).
Proof. unfold crc_spec. induction data as [|b t IH]; intros acc Hd Ha; cbn [crc32_tab fold_left]; [reflexivity|].
  inversion Hd; subst. rewrite crc_byte_ok by assumption. cbn [bind]. apply IH; [assumption|]. now apply byte_bitwise_lt. Qed.

Lemma crc_spec_app a b acc : crc_spec (a ++ b) acc = crc_spec b (crc_spec a acc).
Proof. unfold crc_spec. apply fold_left_app. Qed.

Lemma default_crc_res_ok pdu pt tl lab : bytes_ok pdu -> bytes_ok lab ->
  default_crc_res pdu pt tl lab = Ret (crc_spec (be16 tl ++ be16 pt ++ lab ++ pdu) 0xFFFFFFFF).
Proof.
  intros Hp Hl. unfold default_crc_res.
  assert (I : CRC_INIT < M32) by reflexivity.
  rewrite crc32_tab_ok by (auto using be16_ok). cbn [bind].
  rewrite crc32_tab_ok by (auto using be16_ok, crc_spec_lt). cbn [bind].
  rewrite crc32_tab_ok by (auto using be16_ok, crc_spec_lt). cbn [bind].
  rewrite crc32_tab_ok by (auto using be16_ok, crc_spec_lt).
  now rewrite !crc_spec_app.
Qed.
Lemma default_crc_ok pdu pt tl lab : bytes_ok pdu -> bytes_ok lab ->
  default_crc pdu pt tl lab = crc_spec (be16 tl ++ be16 pt ++ lab ++ pdu) 0xFFFFFFFF.
Proof. intros. unfold default_crc. now rewrite default_crc_res_ok. Qed.
Lemma default_crc_lt pdu pt tl lab : bytes_ok pdu -> bytes_ok lab -> default_crc pdu pt tl lab < 4294967296.
Proof. intros. rewrite default_crc_ok by assumption. apply (crc_spec_lt _ 0xFFFFFFFF); [|reflexivity].
  repeat (apply bytes_ok_app; split); auto using be16_ok. Qed.

