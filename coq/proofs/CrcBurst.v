(* CRC-32/MPEG-2 detects every error burst of up to 32 bits (C03, last clause). No model code.
   Bit-serial run = byte-at-a-time specification; the run is xor-linear in (register, message); feeding the
   register's own value returns to zero; a burst from the zero register leaves a non-zero register. *)
Require Import GSE.gen.Consts GSE.gen.CrcTable GSE.model.Base GSE.model.Crc
  GSE.proofs.Tactics GSE.proofs.BaseLemmas GSE.proofs.HeaderLemmas GSE.proofs.CrcLemmas.
Open Scope N_scope.

Definition run (bs : list bool) (s : N) : N := fold_left feed_bit bs s.
Lemma run_app a b s : run (a ++ b) s = run b (run a s). Proof. apply fold_left_app. Qed.
Lemma run_cons b t s : run (b :: t) s = run t (feed_bit s b). Proof. reflexivity. Qed.
Lemma run_lt bs : forall s, s < M32 -> run bs s < M32.
Proof. induction bs as [|b t IH]; intros s H; [exact H|]. rewrite run_cons. apply IH. apply step0_lt. Qed.

(* ---------- full xor-linearity of the shift step ---------- *)
Definition sh (x : N) : N := N.land (N.shiftl x 1) (M32 - 1).
Lemma sh_lxor a b : sh (N.lxor a b) = N.lxor (sh a) (sh b).
Proof. unfold sh. rewrite N.shiftl_lxor. apply N.bits_inj; intro n. rewrite !N.land_spec, !N.lxor_spec, !N.land_spec.
  destruct (N.testbit (M32 - 1) n); [now rewrite !andb_true_r|now rewrite !andb_false_r]. Qed.
Lemma step0_sh s : step0 s = if N.testbit s 31 then N.lxor (sh s) POLY else sh s. Proof. reflexivity. Qed.
Lemma step0_lin a b : step0 (N.lxor a b) = N.lxor (step0 a) (step0 b).
Proof.
  rewrite !step0_sh, N.lxor_spec, sh_lxor.
  destruct (N.testbit a 31), (N.testbit b 31); cbn [xorb].
  - rewrite <- !N.lxor_assoc. rewrite (N.lxor_assoc (sh a) POLY). rewrite (N.lxor_comm POLY (sh b)).
    rewrite <- N.lxor_assoc, N.lxor_assoc, N.lxor_nilpotent, N.lxor_0_r. reflexivity.
  - rewrite !N.lxor_assoc. f_equal. apply N.lxor_comm.
  - now rewrite N.lxor_assoc.
  - reflexivity.
Qed.
Lemma step0_0 : step0 0 = 0. Proof. reflexivity. Qed.
Lemma sh_even x : N.testbit (sh x) 0 = false.
Proof. unfold sh. rewrite N.land_spec, N.shiftl_spec_low by lia. reflexivity. Qed.
Lemma step0_zero s : s < M32 -> step0 s = 0 -> s = 0.
Proof.
  intros Hs H. rewrite step0_sh in H. destruct (N.testbit s 31) eqn:Eb.
  - exfalso. apply N.lxor_eq in H. pose proof (sh_even s) as E. rewrite H in E. discriminate E.
  - unfold sh in H. change (M32 - 1) with (N.ones 32) in H. rewrite N.land_ones, N.shiftl_mul_pow2 in H.
    assert (Hs31 : s < 2 ^ 31).
    { apply lt_pow2_bits. intros m Hm. destruct (N.eq_dec m 31) as [->|Hne]; [exact Eb|].
      apply (testbit_high s 32); [exact Hs|lia]. }
    rewrite N.mod_small in H by (change (2 ^ 32) with (2 ^ 31 * 2 ^ 1); lia). lia.
Qed.
Lemma step0_inj a b : a < M32 -> b < M32 -> step0 a = step0 b -> a = b.
Proof.
  intros Ha Hb H. apply N.lxor_eq. apply step0_zero; [apply (lxor_lt a b 32); assumption|].
  rewrite step0_lin, H. apply N.lxor_nilpotent.
Qed.
Lemma iter_zero k : forall s, s < M32 -> iter k s = 0 -> s = 0.
Proof. induction k as [|k IH]; intros s Hs H; [exact H|]. cbn [iter] in H. apply step0_zero; [exact Hs|]. apply IH; [apply step0_lt|exact H]. Qed.
Lemma iter_0 k : iter k 0 = 0. Proof. induction k as [|k IH]; [reflexivity|]. cbn [iter]. now rewrite step0_0. Qed.
Lemma iter_lin k : forall a b, iter k (N.lxor a b) = N.lxor (iter k a) (iter k b).
Proof. induction k as [|k IH]; intros a b; [reflexivity|]. cbn [iter]. now rewrite step0_lin, IH. Qed.

(* ---------- linearity of the run ---------- *)
Definition bit31 (b : bool) : N := if b then 0x80000000 else 0.
Lemma bit31_xor b c : bit31 (xorb b c) = N.lxor (bit31 b) (bit31 c). Proof. destruct b, c; reflexivity. Qed.
Lemma feed_bit_lin s t b c : feed_bit (N.lxor s t) (xorb b c) = N.lxor (feed_bit s b) (feed_bit t c).
Proof.
  unfold feed_bit. fold (bit31 (xorb b c)) (bit31 b) (bit31 c). rewrite bit31_xor, <- step0_lin. f_equal.
  rewrite !N.lxor_assoc. f_equal. rewrite <- !N.lxor_assoc. f_equal. apply N.lxor_comm.
Qed.
Fixpoint xorl (a b : list bool) : list bool :=
  match a, b with x :: a', y :: b' => xorb x y :: xorl a' b' | _, _ => [] end.
Lemma run_lin a : forall b s t, length a = length b -> run (xorl a b) (N.lxor s t) = N.lxor (run a s) (run b t).
Proof.
  induction a as [|x a IH]; intros [|y b] s t H; try discriminate H; [reflexivity|].
  cbn [xorl]. rewrite !run_cons, feed_bit_lin. apply IH. now injection H.
Qed.

(* ---------- k <= 32 bits at once ---------- *)
Definition b2n (b : bool) : N := if b then 1 else 0.
(* value of a bit list, most significant first, written with xor/shift so that it commutes with the register algebra *)
Fixpoint val (bs : list bool) : N :=
  match bs with [] => 0 | b :: t => N.lxor (N.shiftl (b2n b) (N.of_nat (length t))) (val t) end.
Lemma b2n_shift_lt b n : N.shiftl (b2n b) n < 2 ^ (N.succ n).
Proof. rewrite N.shiftl_mul_pow2, N.pow_succ_r'. destruct b; cbn [b2n]; lia. Qed.
Lemma val_lt bs : val bs < 2 ^ N.of_nat (length bs).
Proof.
  induction bs as [|b t IH]; [cbn; lia|]. cbn [val length]. rewrite Nat2N.inj_succ.
  apply lxor_lt; [apply b2n_shift_lt|]. rewrite N.pow_succ_r'. lia.
Qed.
Lemma val_nonzero bs : existsb (fun b => b) bs = true -> val bs <> 0.
Proof.
  induction bs as [|b t IH]; [discriminate|]. cbn [existsb val]. destruct b; cbn [orb b2n].
  - intros _ H. apply N.lxor_eq in H. pose proof (val_lt t) as L. rewrite <- H, N.shiftl_mul_pow2 in L. lia.
  - intro H. rewrite N.shiftl_0_l, N.lxor_0_l. now apply IH.
Qed.

Lemma run_iter bs : forall s, (length bs <= 32)%nat -> s < M32 ->
  run bs s = iter (length bs) (N.lxor s (N.shiftl (val bs) (32 - N.of_nat (length bs)))).
Proof.
  induction bs as [|b t IH]; intros s Hk Hs.
  - cbn. now rewrite N.shiftl_0_l, N.lxor_0_r.
  - rewrite run_cons. cbn [length] in *. rewrite IH by (try lia; apply step0_lt). cbn [iter val]. f_equal.
    unfold feed_bit. fold (bit31 b).
    set (k' := N.of_nat (length t)) in *. assert (Hk' : k' <= 31) by (subst k'; lia).
    replace (32 - N.of_nat (S (length t))) with (31 - k') by (subst k'; lia).
    rewrite N.shiftl_lxor, N.shiftl_shiftl. replace (k' + (31 - k')) with 31 by lia.
    replace (N.shiftl (b2n b) 31) with (bit31 b) by (destruct b; reflexivity).
    rewrite <- N.lxor_assoc.
    assert (Hv : N.shiftl (val t) (31 - k') < 2 ^ 31).
    { rewrite N.shiftl_mul_pow2. pose proof (val_lt t) as L. fold k' in L.
      replace (2 ^ 31) with (2 ^ k' * 2 ^ (31 - k')) by (rewrite <- N.pow_add_r; f_equal; lia).
      apply N.mul_lt_mono_pos_r; [apply N.neq_0_lt_0, N.pow_nonzero; discriminate|exact L]. }
    assert (Ha : N.lxor s (bit31 b) < M32) by (change M32 with (2 ^ 32) in *; apply lxor_lt; [exact Hs|destruct b; reflexivity]).
    rewrite (step0_lxor (N.lxor s (bit31 b)) (N.shiftl (val t) (31 - k'))) by assumption.
    f_equal. rewrite N.shiftl_shiftl. f_equal. lia.
Qed.

(* ---------- bit-serial = byte-at-a-time ---------- *)
Lemma val_byte_sweep : forallb (fun x => val (bits_of_byte x) =? x) (Nrange 256) = true.
Proof. vm_compute. reflexivity. Qed.
Lemma val_byte x : x < 256 -> val (bits_of_byte x) = x.
Proof. intro H. pose proof val_byte_sweep as S. rewrite forallb_forall in S. apply N.eqb_eq, S, Nrange_In, H. Qed.
Lemma run_byte x s : x < 256 -> s < M32 -> run (bits_of_byte x) s = byte_bitwise s x.
Proof.
  intros Hx Hs. rewrite run_iter by (cbn; try lia; exact Hs). rewrite val_byte by exact Hx. reflexivity.
Qed.
Definition bits (data : list byte) : list bool := flat_map bits_of_byte data.
Lemma bits_app a b : bits (a ++ b) = bits a ++ bits b. Proof. apply flat_map_app. Qed.
Lemma bits_length data : length (bits data) = (8 * length data)%nat.
Proof. induction data as [|x t IH]; [reflexivity|]. cbn [bits flat_map]. rewrite app_length. fold (bits t). rewrite IH. cbn. lia. Qed.
Lemma run_bits_spec data : forall s, bytes_ok data -> s < M32 -> run (bits data) s = crc_spec data s.
Proof.
  induction data as [|x t IH]; intros s Hd Hs; [reflexivity|]. inversion Hd; subst.
  cbn [bits flat_map]. rewrite run_app. fold (bits t). rewrite run_byte by assumption.
  rewrite IH by (auto; apply byte_bitwise_lt; assumption). reflexivity.
Qed.
Theorem crc_bits_spec data init : bytes_ok data -> init < M32 -> crc_bits data init = crc_spec data init.
Proof. apply run_bits_spec. Qed.

(* ---------- feeding the register's own value returns to zero ---------- *)
Lemma land_shiftl_disjoint a b n : b < 2 ^ n -> N.land (N.shiftl a n) b = 0.
Proof.
  intro Hb. apply N.bits_inj; intro m. rewrite N.land_spec, N.bits_0. destruct (N.ltb_spec m n).
  - now rewrite N.shiftl_spec_low.
  - rewrite (testbit_high b n m Hb) by assumption. apply andb_false_r.
Qed.
Lemma shiftl_add_disjoint a b n : b < 2 ^ n -> N.shiftl a n + b = N.lxor (N.shiftl a n) b.
Proof. intro Hb. apply N.add_nocarry_lxor. now apply land_shiftl_disjoint. Qed.

Lemma iter_add a b s : iter a (iter b s) = iter (b + a) s.
Proof. revert s; induction b as [|b IH]; intro s; [reflexivity|]. cbn [iter Nat.add]. apply IH. Qed.

Lemma be32_xor T : T < M32 ->
  T = N.lxor (N.shiftl ((T / 16777216) mod 256) 24)
        (N.lxor (N.shiftl ((T / 65536) mod 256) 16) (N.lxor (N.shiftl ((T / 256) mod 256) 8) (T mod 256))).
Proof.
  intro HT. change M32 with 4294967296 in HT.
  set (b3 := (T / 16777216) mod 256). set (b2 := (T / 65536) mod 256). set (b1 := (T / 256) mod 256). set (b0 := T mod 256).
  assert (H3 : b3 < 256) by (apply N.mod_lt; discriminate). assert (H2 : b2 < 256) by (apply N.mod_lt; discriminate).
  assert (H1 : b1 < 256) by (apply N.mod_lt; discriminate). assert (H0 : b0 < 256) by (apply N.mod_lt; discriminate).
  assert (E : T = b3 * 16777216 + (b2 * 65536 + (b1 * 256 + b0))) by (subst b3 b2 b1 b0; lia).
  rewrite <- (shiftl_add_disjoint b1 b0 8) by (change (2 ^ 8) with 256; lia).
  rewrite <- (shiftl_add_disjoint b2 _ 16) by (rewrite N.shiftl_mul_pow2; change (2 ^ 8) with 256; change (2 ^ 16) with 65536; lia).
  rewrite <- (shiftl_add_disjoint b3 _ 24) by (rewrite !N.shiftl_mul_pow2; change (2 ^ 8) with 256; change (2 ^ 16) with 65536; change (2 ^ 24) with 16777216; lia).
  rewrite !N.shiftl_mul_pow2. exact E.
Qed.

Lemma iter_lxor_back k a b : (k <= 32)%nat -> a < M32 -> b < 2 ^ (32 - N.of_nat k) ->
  N.lxor (iter k a) (N.shiftl b (N.of_nat k)) = iter k (N.lxor a b).
Proof. intros. symmetry. now apply iter_lxor. Qed.

Lemma crc_spec_be32 T s : T < M32 -> s < M32 -> crc_spec (be32 T) s = iter 32 (N.lxor s T).
Proof.
  intros HT Hs. rewrite (be32_xor T HT) at 2. unfold be32, crc_spec. cbn [fold_left]. unfold byte_bitwise.
  set (b3 := (T / 16777216) mod 256). set (b2 := (T / 65536) mod 256). set (b1 := (T / 256) mod 256). set (b0 := T mod 256).
  assert (H3 : b3 < 256) by (apply N.mod_lt; discriminate). assert (H2 : b2 < 256) by (apply N.mod_lt; discriminate).
  assert (H1 : b1 < 256) by (apply N.mod_lt; discriminate). assert (H0 : b0 < 256) by (apply N.mod_lt; discriminate).
  assert (L3 : N.lxor s (N.shiftl b3 24) < M32).
  { change M32 with (2 ^ 32) in *. apply lxor_lt; [exact Hs|]. rewrite N.shiftl_mul_pow2. change (2 ^ 32) with (256 * 2 ^ 24). lia. }
  (* second byte *)
  replace (N.shiftl b2 24) with (N.shiftl (N.shiftl b2 16) (N.of_nat 8)) by (rewrite N.shiftl_shiftl; reflexivity).
  rewrite (iter_lxor_back 8) by (try lia; try exact L3; rewrite N.shiftl_mul_pow2; change (2 ^ (32 - N.of_nat 8)) with (256 * 2 ^ 16); lia).
  rewrite iter_add. cbn [Nat.add].
  set (X := N.lxor (N.lxor s (N.shiftl b3 24)) (N.shiftl b2 16)).
  assert (LX : X < M32).
  { subst X. change M32 with (2 ^ 32) in *. apply lxor_lt; [exact L3|]. rewrite N.shiftl_mul_pow2. change (2 ^ 32) with (65536 * 2 ^ 16). lia. }
  (* third byte *)
  replace (N.shiftl b1 24) with (N.shiftl (N.shiftl b1 8) (N.of_nat 16)) by (rewrite N.shiftl_shiftl; reflexivity).
  rewrite (iter_lxor_back 16) by (try lia; try exact LX; rewrite N.shiftl_mul_pow2; change (2 ^ (32 - N.of_nat 16)) with (256 * 2 ^ 8); lia).
  rewrite iter_add. cbn [Nat.add].
  set (Y := N.lxor X (N.shiftl b1 8)).
  assert (LY : Y < M32).
  { subst Y. change M32 with (2 ^ 32) in *. apply lxor_lt; [exact LX|]. rewrite N.shiftl_mul_pow2. change (2 ^ 32) with (16777216 * 2 ^ 8). lia. }
  (* fourth byte *)
  change (N.shiftl b0 24) with (N.shiftl b0 (N.of_nat 24)).
  rewrite (iter_lxor_back 24) by (try lia; try exact LY; change (2 ^ (32 - N.of_nat 24)) with 256; lia).
  rewrite iter_add. cbn [Nat.add]. f_equal. subst Y X. rewrite !N.lxor_assoc. reflexivity.
Qed.

Lemma self_feed T s : T < M32 -> s < M32 -> (crc_spec (be32 T) s = 0 <-> s = T).
Proof.
  intros HT Hs. rewrite crc_spec_be32 by assumption. split.
  - intro H. apply N.lxor_eq. apply (iter_zero 32); [change M32 with (2 ^ 32) in *; now apply lxor_lt|exact H].
  - intros ->. rewrite N.lxor_nilpotent. apply iter_0.
Qed.

(* ---------- bursts ---------- *)
(* an error pattern whose 1 bits all lie within a window of at most 32 consecutive positions, and which is not zero *)
Definition burst (e : list bool) : Prop :=
  exists a w j, e = repeat false a ++ w ++ repeat false j /\ (length w <= 32)%nat /\ existsb (fun b => b) w = true.

Lemma run_zeros n s : run (repeat false n) s = iter n s.
Proof. revert s; induction n as [|n IH]; intro s; [reflexivity|]. cbn [repeat]. rewrite run_cons. cbn [iter]. rewrite <- IH.
  unfold feed_bit. now rewrite N.lxor_0_r. Qed.
Lemma iter_nonzero k s : s < M32 -> s <> 0 -> iter k s <> 0.
Proof. intros Hs Hn H. apply Hn. now apply (iter_zero k). Qed.

Lemma burst_nonzero e : burst e -> run e 0 <> 0.
Proof.
  intros (a & w & j & -> & Hw & Hx). rewrite !run_app. rewrite (run_zeros a 0), iter_0, run_zeros.
  apply iter_nonzero; [apply run_lt; reflexivity|].
  rewrite run_iter by (try exact Hw; reflexivity). rewrite N.lxor_0_l.
  apply iter_nonzero.
  - rewrite N.shiftl_mul_pow2. pose proof (val_lt w) as L. change M32 with (2 ^ 32).
    replace (2 ^ 32) with (2 ^ N.of_nat (length w) * 2 ^ (32 - N.of_nat (length w))) by (rewrite <- N.pow_add_r; f_equal; lia).
    apply N.mul_lt_mono_pos_r; [apply N.neq_0_lt_0, N.pow_nonzero; discriminate|exact L].
  - rewrite N.shiftl_mul_pow2. pose proof (val_nonzero w Hx). pose proof (N.pow_nonzero 2 (32 - N.of_nat (length w)) ltac:(discriminate)). lia.
Qed.

(* ---------- the theorem ---------- *)
(* P, P': CRC-protected byte strings (total length | protocol type | label | PDU) as sent and as received;
   T = CRC of P (what a sender appends), T' the received trailer. If the received bits differ from the sent ones
   by a burst, the receiver's comparison crc(P') = T' fails. *)
Theorem burst_detected P T P' T' e : bytes_ok P -> bytes_ok P' -> T' < M32 ->
  T = crc_spec P 0xFFFFFFFF ->
  length (bits (P ++ be32 T)) = length e ->
  bits (P' ++ be32 T') = xorl (bits (P ++ be32 T)) e -> burst e ->
  crc_spec P' 0xFFFFFFFF <> T'.
Proof.
  intros HP HP' HT' ET Hlen Hx Hb Hacc.
  assert (I : 0xFFFFFFFF < M32) by reflexivity.
  assert (HT : T < M32) by (subst T; now apply crc_spec_lt).
  assert (V : run (bits (P ++ be32 T)) 0xFFFFFFFF = 0).
  { rewrite bits_app, run_app. rewrite (run_bits_spec P) by auto. rewrite run_bits_spec by (auto using be32_ok; now apply crc_spec_lt).
    apply self_feed; [exact HT|now apply crc_spec_lt|now symmetry]. }
  assert (V' : run (bits (P' ++ be32 T')) 0xFFFFFFFF = 0).
  { rewrite bits_app, run_app. rewrite (run_bits_spec P') by auto. rewrite run_bits_spec by (auto using be32_ok; now apply crc_spec_lt).
    apply self_feed; [exact HT'|now apply crc_spec_lt|exact Hacc]. }
  rewrite Hx in V'. replace 0xFFFFFFFF with (N.lxor 0xFFFFFFFF 0) in V' at 1 by reflexivity.
  rewrite run_lin in V' by exact Hlen. rewrite V, N.lxor_0_l in V'. exact (burst_nonzero e Hb V').
Qed.
