#!/usr/bin/env python3
"""Re-run some checks for an already recorded seeded change and update its meta.json.
   seed_recheck.py <name> <Cxx> [<Cxx> ...]"""
import json, os, sys
sys.path.insert(0, os.path.dirname(os.path.abspath(__file__)))
import seed_eval as SE
ROOT = SE.ROOT
name, props = sys.argv[1], sys.argv[2:]
d = os.path.join(ROOT, "seeded", name)
meta = json.load(open(os.path.join(d, "meta.json")))
patch = os.path.join(d, "patch.diff")
rc, out = SE.sh(["git", "-C", "/repo", "status", "--porcelain"])
assert not out.strip(), out
rc, out = SE.sh(["git", "-C", "/repo", "apply", patch])
assert rc == 0, out
try:
    import re, time
    for pid in props:
        rc, out = SE.sh([os.path.join(ROOT, "check"), pid], cwd=ROOT)
        vio = [l for l in out.split("\n") if l.startswith("VIOLATION")]
        what = ""
        for v in vio[:1]:
            m = re.search(r"replay=(\S+)", v)
            if m and os.path.exists(m.group(1)):
                r = json.load(open(m.group(1)))
                what = "%s: %s" % (r.get("kind"), str(r.get("what") or r.get("first_difference") or r.get("detail") or r.get("note"))[:300])
        old = meta["checks"].get(pid)
        meta["checks"][pid] = {"rc": rc, "violation": bool(vio), "no_failing_input": any("no-failing-input-found" in v for v in vio), "what": what,
                               "rechecked": True, "before_recheck": {k: old.get(k) for k in ("violation", "no_failing_input", "what")} if old else None}
finally:
    SE.sh(["git", "-C", "/repo", "checkout", "--", "."])
prev = {k: meta.get(k) for k in ("caught_by", "caught_with_failing_input", "target_check_catches")}
meta["caught_by"] = sorted(p for p, r in meta["checks"].items() if r["violation"])
meta["caught_with_failing_input"] = sorted(p for p, r in meta["checks"].items() if r["violation"] and not r["no_failing_input"])
meta["target_check_catches"] = meta["breaks_property"] in meta["caught_by"]
meta.setdefault("recheck_log", []).append({"props": props, "before": prev})
json.dump(meta, open(os.path.join(d, "meta.json"), "w"), indent=1)
print(name, "caught by", ",".join(meta["caught_by"]) or "NONE", "| failing input:", ",".join(meta["caught_with_failing_input"]) or "none")
