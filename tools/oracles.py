"""Property registry: per property the pinned theorems, the correspondence families, the property-specific case
generator and the oracle(s): an executable reading of the property text evaluated on the implementation's
observations only (own parser / CRC / bookkeeping from gsepy, never the Coq model)."""
from cases import *
from gsepy import *

PROPS = {}


def prop(pid, theorems, families, gen, oracles, **kw):
    PROPS[pid] = dict(theorems=theorems, families=families, gen=gen, oracles=oracles, **kw)


def no_cases(rng, t):
    return []


# ------------------------------------------------------------------------------------------------
# C14 header codec
# ------------------------------------------------------------------------------------------------
def gen_c14(rng, t):
    c = Case("c14_read")
    for w in range(65536):
        c.add("HREAD %d" % w)
    d = Case("c14_gen")
    for k in "CFIE":
        for lt in "63BR":
            for l in range(4096):
                d.add("HGEN %s %s %d" % (k, lt, l))
    return [c, d]


LTS = {"6": 0, "3": 1, "B": 2, "R": 3}


def orc_c14(case, obs):
    bad = []
    if not case.name.startswith("c14"):
        return bad
    for op, ob in zip(case.ops, obs):
        t = op.split()
        if t[0] == "HREAD":
            w = int(t[1])
            if ob == "PANIC":
                bad.append("read_gse_header(%#06x) panics" % w)
            elif ob == "none":
                if w >> 12 != 0:
                    bad.append("read_gse_header(%#06x) = None for a non-padding value" % w)
            else:
                l, k, lt = ob.split()
                if w >> 12 == 0:
                    bad.append("read_gse_header(%#06x) yields a packet for the padding pattern" % w)
                elif int.from_bytes(header(k, LTS[lt], int(l)), "big") != w or int(l) > 4095:
                    bad.append("read_gse_header(%#06x) = (%s,%s,%s) does not re-encode to the value" % (w, l, k, lt))
        elif t[0] == "HGEN":
            k, lt, l = t[1], t[2], int(t[3])
            if ob == "PANIC":
                bad.append("generate_gse_header panics on %s" % op)
            elif int(ob) != int.from_bytes(header(k, LTS[lt], l), "big"):
                bad.append("generate_gse_header(%s,%s,%d) = %s" % (k, lt, l, ob))
        if len(bad) > 5:
            break
    return bad


prop("C14", ["c14_read_total_and_inverse", "c14_gen_inverse", "c14_wire_layout"], ["HDR"], gen_c14, [orc_c14],
     exhaustive="HDR: all 65536 header words and all 16 x 4096 (kind, label type, length) triples, every run")
