(* C09 -- encapsulation calls are total and failure-atomic. Pinned statements only. *)
Require Import GSE.model.Base GSE.model.Types GSE.model.Ext GSE.model.Encap
  GSE.proofs.Tactics GSE.proofs.EncapSpec GSE.proofs.EncapProps GSE.proofs.ExtSpec GSE.proofs.ExtTrip GSE.proofs.ExtProps.
Open Scope N_scope.

(* states reachable through the public API are well formed (the hypothesis of the theorems below) *)
Inductive enc_call :=
  | CEncap (pdu : list byte) (fid pt : N) (lab : label) (buf : list byte)
  | CEncapExt (pdu : list byte) (fid pt : N) (lab : label) (buf : list byte) (exts : list ext)
  | CReset | CDisable | CEnable | CEnableMax (m : N).
Definition call_ok (c : enc_call) : Prop :=
  match c with
  | CEncap _ _ _ lab _ => label_wf lab
  | CEncapExt _ _ _ lab _ exts => label_wf lab /\ Forall ext_built exts   (* extensions come from Extension::new *)
  | CEnableMax m => m < 256 | _ => True end.
Definition call_step crc (s : enc_state) (c : enc_call) : res enc_state :=
  match c with
  | CEncap pdu fid pt lab buf => do r <- encap crc s pdu fid pt lab buf; Ret (fst (fst r))
  | CEncapExt pdu fid pt lab buf exts => do r <- encap_ext crc s pdu fid pt lab buf exts; Ret (fst (fst r))
  | CReset => Ret (enc_reset s) | CDisable => Ret (enc_disable s) | CEnable => Ret (enc_enable s)
  | CEnableMax m => Ret (enc_enable_max s m)
  end.
Fixpoint call_run crc (s : enc_state) (cs : list enc_call) : res enc_state :=
  match cs with [] => Ret s | c :: t => do s' <- call_step crc s c; call_run crc s' t end.

Theorem c09_reachable_wf : forall crc cs, Forall call_ok cs ->
  exists s, call_run crc enc_new cs = Ret s /\ enc_wf s.
Proof.
  intros crc cs. generalize enc_new_wf. generalize enc_new.
  induction cs as [|c t IH]; intros s Hs Hok; cbn [call_run]; [eauto|].
  inversion Hok; subst.
  assert (exists s', call_step crc s c = Ret s' /\ enc_wf s') as (s' & -> & Hs').
  { destruct c; cbn [call_step call_ok] in *.
    - destruct (encap_total crc s pdu fid pt lab buf Hs H1) as ([[s' b'] r] & E). rewrite E. cbn [bind fst].
      eexists; split; [reflexivity|]. eapply encap_wf; eauto.
    - destruct H1 as [Hl Hx]. rewrite encap_ext_spec by (auto; revert Hx; apply Forall_impl; exact ext_built_wf). cbn [bind].
      eexists; split; [reflexivity|]. destruct (encap_ext_hl crc s pdu fid pt lab buf exts) as [[s' b'] r] eqn:E. cbn [fst].
      eapply encap_ext_hl_wf; eauto.
    - eexists; split; [reflexivity|now apply enc_reset_wf].
    - eexists; split; [reflexivity|apply enc_disable_wf].
    - eexists; split; [reflexivity|now apply enc_enable_wf].
    - eexists; split; [reflexivity|now apply enc_enable_max_wf]. }
  cbn [bind]. now apply IH.
Qed.

(* totality: Ok or Err, never a panic, for every PDU, metadata, context and buffer (no bound on any length) *)
Theorem c09_total_encap : forall crc s pdu fid pt lab buf, enc_wf s -> label_wf lab ->
  exists r, encap crc s pdu fid pt lab buf = Ret r.
Proof. exact encap_total. Qed.
Theorem c09_total_encap_frag : forall pdu ctx buf, exists r, encap_frag pdu ctx buf = Ret r.
Proof. exact encap_frag_total. Qed.
Theorem c09_total_previews : forall pdu pt lab ctx buf, label_wf lab ->
  (exists r, encap_preview pdu pt lab buf = Ret r) /\ (exists r, encap_frag_preview pdu ctx buf = Ret r).
Proof. intros. split; eexists; [now apply encap_preview_spec|apply encap_frag_preview_spec]. Qed.

Theorem c09_total_encap_ext : forall crc s pdu fid pt lab buf exts, enc_wf s -> label_wf lab -> Forall ext_built exts ->
  exists r, encap_ext crc s pdu fid pt lab buf exts = Ret r.
Proof. intros. eexists. apply encap_ext_spec; auto. eapply Forall_impl; [|eassumption]. exact ext_built_wf. Qed.

(* failure atomicity: on Err the buffer is byte-for-byte unchanged and the encapsulator state is the same *)
Theorem c09_atomic_encap : forall crc s pdu fid pt lab buf s' buf' e, enc_wf s -> label_wf lab ->
  encap crc s pdu fid pt lab buf = Ret (s', buf', inr e) -> s' = s /\ buf' = buf.
Proof. exact encap_atomic. Qed.
Theorem c09_atomic_encap_frag : forall pdu ctx buf buf' e,
  encap_frag pdu ctx buf = Ret (buf', inr e) -> buf' = buf.
Proof. exact encap_frag_atomic. Qed.

Theorem c09_atomic_encap_ext : forall crc s pdu fid pt lab buf exts s' buf' e, enc_wf s -> label_wf lab -> Forall ext_built exts ->
  encap_ext crc s pdu fid pt lab buf exts = Ret (s', buf', inr e) -> s' = s /\ buf' = buf.
Proof.
  intros crc s pdu fid pt lab buf exts s' buf' e Hs Hw Hx H.
  rewrite encap_ext_spec in H by (auto; revert Hx; apply Forall_impl; exact ext_built_wf). injection H as H.
  eapply encap_ext_hl_err; eauto.
Qed.

(* rejections: a zero 6-byte label, a protocol type in 0x0100..=0x05FF, a PDU exceeding the 16-bit total length
   never give a packet; encap_frag rejects a context pointing beyond the PDU *)
Theorem c09_rejects : forall crc s pdu fid pt lab buf, enc_wf s -> label_wf lab ->
  (lab = L6 [0;0;0;0;0;0] -> encap crc s pdu fid pt lab buf = Ret (s, buf, inr EInvalidLabel)) /\
  (0x0100 <= pt <= 0x05FF -> exists e, encap crc s pdu fid pt lab buf = Ret (s, buf, inr e)) /\
  (forall s' buf' st, encap crc s pdu fid pt lab buf = Ret (s', buf', inl st) ->
     lenN pdu + 2 + lenN (label_bytes (snd (check_reuse_hl s lab))) <= 65535).
Proof.
  intros crc s pdu fid pt lab buf Hs Hw. rewrite !encap_spec by assumption. repeat split.
  - intros ->. now rewrite encap_rejects_zero.
  - intro Hp. destruct (encap_rejects_ptype crc s pdu fid pt lab buf Hp) as (e & ->). eauto.
  - intros s' buf' st [= H]. eapply encap_ok_total_len; eauto.
Qed.
Theorem c09_rejects_ext : forall crc s pdu fid pt lab buf exts, enc_wf s -> label_wf lab -> Forall ext_built exts ->
  (lab = L6 [0;0;0;0;0;0] -> exists e, encap_ext crc s pdu fid pt lab buf exts = Ret (s, buf, inr e)) /\
  (0x0100 <= pt <= 0x05FF -> exists e, encap_ext crc s pdu fid pt lab buf exts = Ret (s, buf, inr e)) /\
  (forall s' buf' st, encap_ext crc s pdu fid pt lab buf exts = Ret (s', buf', inl st) ->
     lenN pdu + 2 + lenN (label_bytes (snd (check_reuse_hl s lab))) <= 65535).
Proof.
  intros crc s pdu fid pt lab buf exts Hs Hw Hx.
  rewrite !encap_ext_spec by (auto; revert Hx; apply Forall_impl; exact ext_built_wf). repeat split.
  - intros ->. destruct (encap_ext_rejects_zero crc s pdu fid pt buf exts) as (e & ->). eauto.
  - intro Hp. destruct (encap_ext_rejects_ptype crc s pdu fid pt lab buf exts Hp) as (e & ->). eauto.
  - intros s' buf' st [= H]. eapply encap_ext_ok_total_len; eauto.
Qed.
Theorem c09_rejects_frag : forall pdu ctx buf, lenN pdu < cf_len ctx ->
  encap_frag pdu ctx buf = Ret (buf, inr EPduLength).
Proof. exact encap_frag_rejects_beyond. Qed.

Example c09_nonvacuous : enc_wf enc_new /\ label_wf (L3 [1;2;3]) /\
  encap (fun _ _ _ _ => 0) enc_new [7;7] 1 0x0800 (L3 [1;2;3]) [0;0;0] = Ret (enc_new, [0;0;0], inr ESizeBuffer).
Proof. split; [apply enc_new_wf|]. split; [cbn; repeat constructor; lia|reflexivity]. Qed.

Print Assumptions c09_reachable_wf.
Print Assumptions c09_total_encap.
Print Assumptions c09_total_encap_ext.
Print Assumptions c09_atomic_encap_ext.
Print Assumptions c09_rejects_ext.
Print Assumptions c09_total_encap_frag.
Print Assumptions c09_total_previews.
Print Assumptions c09_atomic_encap.
Print Assumptions c09_atomic_encap_frag.
Print Assumptions c09_rejects.
Print Assumptions c09_rejects_frag.
