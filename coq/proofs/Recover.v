(* C16 support: the configuration of the memory (slots, PDU size, free-list capacity) is constant along every
   history; after a reset and one provisioning the receiver is ready. No model code. *)
Require Import GSE.gen.Consts GSE.model.Base GSE.model.Types GSE.model.Header GSE.model.Ext GSE.model.Memory GSE.model.Decap
  GSE.proofs.Tactics GSE.proofs.BaseLemmas GSE.proofs.MemoryLemmas GSE.proofs.DecapBase GSE.proofs.DecapSpec
  GSE.proofs.DecapProps.
Open Scope N_scope.

Definition same_cfg (m m' : mem) : Prop :=
  max_frag_id m' = max_frag_id m /\ max_pdu_size m' = max_pdu_size m /\ cap m' = cap m.
Lemma same_cfg_refl m : same_cfg m m. Proof. repeat split. Qed.
Lemma same_cfg_trans a b c : same_cfg a b -> same_cfg b c -> same_cfg a c.
Proof. unfold same_cfg. intuition congruence. Qed.
Lemma cfg_provision m b m' r : provision m b = (m', r) -> same_cfg m m'.
Proof. unfold provision. destruct (cap m =? _); [intros [= <- _]; apply same_cfg_refl|].
  destruct (_ <? _); intros [= <- _]; repeat split. Qed.
Lemma cfg_new_frag m c m' r : new_frag_fn m c = (m', r) -> same_cfg m m'.
Proof. unfold new_frag_fn. destruct (_ =? 0); [intros [= <- _]; apply same_cfg_refl|].
  destruct (slot_of m _) as [[? ?]|]; [intros [= <- _]; repeat split|]. destruct (storages m); intros [= <- _]; repeat split. Qed.
Lemma cfg_take_frag m f m' r : take_frag_fn m f = (m', r) -> same_cfg m m'.
Proof. unfold take_frag_fn. destruct (_ =? 0); [intros [= <- _]; apply same_cfg_refl|].
  destruct (slot_of m f) as [[c b]|]; [destruct (_ =? f)|]; intros [= <- _]; repeat split. Qed.
Lemma cfg_save_frag m cb m' r : save_frag_fn m cb = (m', r) -> same_cfg m m'.
Proof. unfold save_frag_fn. destruct (_ =? 0); [intros [= <- _]; apply same_cfg_refl|].
  destruct (slot_of m _); intros [= <- _]; repeat split. Qed.
Lemma cfg_give_back s pb e n s' r : give_back_hl s pb e n = (s', r) -> same_cfg (dmem s) (dmem s').
Proof. unfold give_back_hl. destruct (provision (dmem s) pb) as [m [me|]] eqn:E; intros [= <- _]; cbn [dmem set_dmem];
  eapply cfg_provision; eauto. Qed.

Section Cfg.
Variable crc : list byte -> N -> N -> list byte -> N.
Variable mgr : N -> mand.

Lemma decap_hl_cfg s buf : same_cfg (dmem s) (dmem (fst (decap_hl crc mgr s buf))).
Proof.
  unfold decap_hl, err_last. destruct (lenN buf <? 2); [apply same_cfg_refl|].
  destruct (hdr_view (rd16 (takeN 2 buf))) as [[[gl k] t]|]; [|apply same_cfg_refl].
  destruct (lenN buf <? gl + 2); [apply same_cfg_refl|].
  set (pkt := takeN (gl + 2) buf).
  destruct k.
  - unfold complete_hl, err_last. destruct (_ <? _); [apply same_cfg_refl|]. cbv zeta.
    destruct (is_zero6 _); [apply same_cfg_refl|]. destruct (walk_fn mgr _ _) as [w|[|]]; try apply same_cfg_refl.
    destruct (resolve_hl s t _) as [[s1 cur]|e] eqn:Er; [|apply same_cfg_refl]. rewrite <- (resolve_hl_mem _ _ _ _ _ Er).
    destruct (storages (dmem s1)); [apply same_cfg_refl|]. destruct (_ <? _); [apply same_cfg_refl|repeat split].
  - unfold first_hl, err_last. destruct (_ <? _); [apply same_cfg_refl|]. cbv zeta.
    destruct (is_zero6 _); [apply same_cfg_refl|].
    destruct (resolve_hl s t _) as [[s1 cur]|e] eqn:Er; [|apply same_cfg_refl]. rewrite <- (resolve_hl_mem _ _ _ _ _ Er).
    destruct (walk_fn mgr _ _) as [w|[|]]; try apply same_cfg_refl.
    destruct (_ <=? _); [apply same_cfg_refl|].
    match goal with |- context [new_frag_fn (dmem s1) ?c] => destruct (new_frag_fn (dmem s1) c) as [m [[c' pb]|e]] eqn:En end;
      pose proof (cfg_new_frag _ _ _ _ En) as C1; [|exact C1].
    destruct (_ <? _).
    + match goal with |- context [give_back_hl ?a ?b ?c ?d] => destruct (give_back_hl a b c d) as [s' r] eqn:Eg end.
      cbn [fst]. eapply same_cfg_trans; [exact C1|]. apply cfg_give_back in Eg. exact Eg.
    + match goal with |- context [save_frag_fn m ?x] => destruct (save_frag_fn m x) as [m' r] eqn:Esv end.
      pose proof (cfg_save_frag _ _ _ _ Esv) as C2. destruct r; cbn [fst dmem set_dmem]; eapply same_cfg_trans; eauto.
  - unfold inter_hl, err_last. destruct (_ <=? _); [apply same_cfg_refl|]. cbv zeta.
    destruct (take_frag_fn (dmem s) (hd0 (dropN 2 pkt))) as [m [[c pb]|e]] eqn:Et;
      pose proof (cfg_take_frag _ _ _ _ Et) as C1; [|exact C1].
    destruct (_ || _).
    + match goal with |- context [give_back_hl ?a ?b ?c ?d] => destruct (give_back_hl a b c d) as [s' r] eqn:Eg end.
      cbn [fst]. eapply same_cfg_trans; [exact C1|]. apply cfg_give_back in Eg. exact Eg.
    + match goal with |- context [save_frag_fn m ?x] => destruct (save_frag_fn m x) as [m' r] eqn:Esv end.
      pose proof (cfg_save_frag _ _ _ _ Esv) as C2. destruct r; cbn [fst dmem set_dmem]; eapply same_cfg_trans; eauto.
  - unfold end_hl, err_last. destruct (_ <? _); [apply same_cfg_refl|]. cbv zeta.
    destruct (take_frag_fn (dmem s) (hd0 (dropN 2 pkt))) as [m [[c pb]|e]] eqn:Et;
      pose proof (cfg_take_frag _ _ _ _ Et) as C1; [|exact C1].
    assert (GB : forall pb' e, same_cfg (dmem s) (dmem (fst (give_back_hl (set_dmem s m) pb' e (lenN pkt))))).
    { intros pb' e. destruct (give_back_hl (set_dmem s m) pb' e (lenN pkt)) as [s' r] eqn:Eg. cbn [fst].
      eapply same_cfg_trans; [exact C1|]. apply cfg_give_back in Eg. exact Eg. }
    destruct (_ <? _); [apply GB|]. destruct (negb (c_total c =? _)); [apply GB|]. destruct (negb (_ =? _)); [apply GB|].
    exact C1.
Qed.
End Cfg.
