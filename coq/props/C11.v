(* C11 -- fragmentation always progresses and partitions the PDU exactly. Pinned statements only. *)
Require Import GSE.model.Base GSE.model.Types GSE.model.Ext GSE.model.Encap
  GSE.proofs.Tactics GSE.proofs.BaseLemmas GSE.proofs.EncapSpec GSE.proofs.EncapProps GSE.proofs.FragRun.
Require Import GSE.proofs.ExtSpec GSE.proofs.ExtTrip GSE.proofs.ExtProps.
Open Scope N_scope.
#[local] Opaque pkt_complete pkt_first pkt_end pkt_inter.

(* the context returned with a first fragment counts exactly the payload bytes that fragment carried *)
Theorem c11_first_ctx : forall crc s pdu fid pt lab buf s' buf' n c, enc_wf s -> label_wf lab ->
  encap crc s pdu fid pt lab buf = Ret (s', buf', inl (Fragmented n c)) ->
  exists l, cf_id c = fid /\ cf_len c < lenN pdu /\
    takeN n buf' = pkt_first l fid (lenN pdu + 2 + lenN (label_bytes l)) pt (takeN (cf_len c) pdu) /\
    n = 7 + lenN (label_bytes l) + cf_len c.
Proof.
  intros crc s pdu fid pt lab buf s' buf' n c Hs Hw H. rewrite encap_spec in H by assumption. injection H as H.
  pose proof (encap_hl_shape crc s pdu fid pt lab buf Hw) as Sh. rewrite H in Sh.
  remember (s', buf', @inl enc_status enc_error (Fragmented n c)) as oo eqn:E.
  destruct Sh as [e|s1 l Hc Hf Hg|s1 l pe Hc Hpe Hb Hlt Hbig]; try discriminate E.
  injection E as <- <- <- <-. exists l. cbn [cf_id cf_len]. repeat split; auto.
  rewrite takeN_app_eq; [reflexivity|]. rewrite lenN_pkt_first, lenN_takeN. lia.
Qed.

#[local] Opaque pkt_first_x.
(* the same for a first fragment of encap_ext: the context counts exactly the PDU bytes carried after the extension area *)
Theorem c11_first_ctx_ext : forall crc s pdu fid pt lab buf exts s' buf' n c, enc_wf s -> label_wf lab -> Forall ext_built exts ->
  encap_ext crc s pdu fid pt lab buf exts = Ret (s', buf', inl (Fragmented n c)) ->
  let l := snd (check_reuse_hl s lab) in
  let chain := chain_bytes exts (pt <? 256) pt in
  cf_id c = fid /\ cf_len c < lenN pdu /\
  takeN n buf' = pkt_first_x l fid (lenN pdu + 2 + lenN (label_bytes l)) (first_id exts pt) chain (takeN (cf_len c) pdu) /\
  n = 7 + lenN (label_bytes l) + lenN chain + cf_len c.
Proof.
  intros crc s pdu fid pt lab buf exts s' buf' n c Hs Hw Hx H.
  assert (Hxw : Forall ext_wf exts) by (revert Hx; apply Forall_impl; exact ext_built_wf).
  rewrite encap_ext_spec in H by assumption. injection H as H.
  destruct (encap_ext_fragmented crc _ _ _ _ _ _ _ _ _ _ _ Hw H) as (_ & _ & _ & Hb' & Hc & Hn & Hnb & Hlt & _).
  cbv zeta in *. split; [rewrite Hc; reflexivity|]. split; [exact Hlt|]. split; [|exact Hn].
  rewrite Hb'. apply takeN_app_eq. rewrite (lenN_pkt_first_x crc), lenN_takeN. lia.
Qed.

(* each successful continuation either emits the final CRC-bearing packet or writes at least one payload byte and
   returns a context advanced by exactly the bytes written, with fragment id and CRC unchanged *)
Theorem c11_step : forall pdu ctx buf buf' r, lenN pdu <= 65535 -> cf_len ctx <= lenN pdu ->
  encap_frag pdu ctx buf = Ret (buf', inl r) ->
  (exists n, r = Completed n /\ n = 7 + (lenN pdu - cf_len ctx) /\
     takeN n buf' = pkt_end (cf_id ctx) (dropN (cf_len ctx) pdu) (cf_crc ctx)) \/
  (exists n c k, r = Fragmented n c /\ 1 <= k /\ cf_len c = cf_len ctx + k /\ cf_len c <= lenN pdu /\
     cf_id c = cf_id ctx /\ cf_crc c = cf_crc ctx /\ n = 3 + k /\
     takeN n buf' = pkt_inter (cf_id ctx) (takeN k (dropN (cf_len ctx) pdu))).
Proof.
  intros pdu ctx buf buf' r Hp Hc H. rewrite encap_frag_spec in H. injection H as H.
  pose proof (encap_frag_hl_shape pdu ctx buf) as Sh. rewrite H in Sh.
  remember (buf', @inl enc_status enc_error r) as oo eqn:E.
  destruct Sh as [e|H1 H2 H3|k H1 H2 H3 H4 H5 H6]; try discriminate E; injection E as <- <-.
  - left. eexists. repeat split. rewrite takeN_app_eq; [reflexivity|]. rewrite lenN_pkt_end, lenN_dropN. lia.
  - right. exists (3 + k), {| cf_id := cf_id ctx; cf_crc := cf_crc ctx; cf_len := u16 (cf_len ctx + k) |}, k.
    cbn [cf_id cf_crc cf_len]. rewrite u16_small by lia. repeat split; auto; try lia.
    rewrite takeN_app_eq; [reflexivity|]. rewrite lenN_pkt_inter, lenN_takeN, lenN_dropN. lia.
Qed.

(* the packets of any schedule of buffers are consecutive, non-overlapping slices (train_from), whose
   concatenation is the PDU once the end packet has been produced *)
Theorem c11_partition : forall pdu ctx bufs ps o, lenN pdu <= 65535 -> cf_len ctx <= lenN pdu ->
  frag_run pdu ctx bufs = Ret (ps, o) ->
  exists pls, train_from pdu (cf_id ctx) (cf_crc ctx) (cf_len ctx) ps pls (option_map cf_len o) /\
    (o = None -> takeN (cf_len ctx) pdu ++ concat pls = pdu) /\
    (forall c, o = Some c -> takeN (cf_len ctx) pdu ++ concat pls = takeN (cf_len c) pdu).
Proof.
  intros pdu ctx bufs ps o Hp Hc H.
  destruct (frag_run_train pdu Hp bufs ctx ps o Hc H) as (pls & Tr & Ho). exists pls. split; [exact Tr|].
  destruct (train_concat _ _ _ _ _ _ _ Tr Hc) as [E B]. split.
  - intros ->. cbn [option_map] in E. rewrite E. apply takeN_dropN.
  - intros c ->. cbn [option_map] in E, B. rewrite E.
    replace (cf_len c) with (cf_len ctx + (cf_len c - cf_len ctx)) at 2 by lia. now rewrite takeN_add.
Qed.

(* after the first fragment, any schedule of buffers of at least 7 bytes finishes within (remaining + 1) calls *)
Theorem c11_bound : forall pdu ctx bufs, lenN pdu <= 65535 -> cf_len ctx <= lenN pdu ->
  Forall (fun b => 7 <= lenN b) bufs -> lenN pdu - cf_len ctx + 1 <= lenN bufs ->
  exists ps, frag_run pdu ctx bufs = Ret (ps, None) /\ lenN ps <= lenN pdu - cf_len ctx + 1.
Proof. intros. now apply frag_run_completes. Qed.

(* a buffer that can carry nothing useful is rejected, never answered with an empty fragment *)
Theorem c11_useless_rejected : forall pdu ctx buf, cf_len ctx <= lenN pdu ->
  ~ (lenN pdu - cf_len ctx + 7 <= lenN buf /\ lenN pdu - cf_len ctx <= 4090) ->
  (lenN buf < 4 \/ lenN pdu - cf_len ctx = 0) ->
  encap_frag pdu ctx buf = Ret (buf, inr ESizeBuffer).
Proof. exact encap_frag_useless_rejected. Qed.

Example c11_nonvacuous :
  frag_run [1;2;3;4;5;6;7;8;9] {| cf_id := 1; cf_crc := 0xAABBCCDD; cf_len := 2 |} [zeros 5; zeros 3; zeros 6; zeros 20]
  = Ret ([[48;3;1;3;4]; [48;4;1;5;6;7]; [112;7;1;8;9;170;187;204;221]], None).
Proof. vm_compute. reflexivity. Qed.

Print Assumptions c11_first_ctx.
Print Assumptions c11_first_ctx_ext.
Print Assumptions c11_step.
Print Assumptions c11_partition.
Print Assumptions c11_bound.
Print Assumptions c11_useless_rejected.
