(* C04 -- label re-use never attributes a PDU to a label the sender did not intend. Pinned statements only. *)
Require Import GSE.model.Base GSE.model.Types GSE.model.Ext GSE.model.Encap GSE.model.Memory GSE.model.Decap
  GSE.proofs.Tactics GSE.proofs.BaseLemmas GSE.proofs.EncapSpec GSE.proofs.EncapProps GSE.proofs.Policy
  GSE.proofs.MemoryLemmas GSE.proofs.DecapBase GSE.proofs.DecapSpec GSE.proofs.DecapProps GSE.proofs.LabelSync.
Open Scope N_scope.

(* Lock step, unbounded histories: any mix of encap and encap_ext calls (any label, any extension chain built by
   Extension::new, any manager at the receiver; any label including an explicitly passed re-use label,
   any buffer: the call may fail, produce a complete packet or a first fragment), continuation packets, resets at the
   same frame boundaries on both sides, changes of the re-use settings, storage management at the receiver. Every
   packet encap reports as produced is fed to the receiver. Whenever the receiver answers a start/complete packet
   with a status carrying a label (FragmentedPkt or CompletedPkt), that label is the label the sender passed for
   that PDU -- for an explicitly passed re-use label: the label of the preceding start/complete packet.
   (The label reported at an end fragment is the one recorded in the context at the first fragment: C02/C03.) *)
Theorem c04_attribution : forall crc mgr slots maxpdu os, Forall sop_ok os ->
  exists S g R ds, srun crc mgr (enc_new, {| prev := None; run := 0 |}, dec_new slots maxpdu) os = Ret (S, g, R, ds) /\
    Forall (fun p => fst p = Some (snd p)) ds.
Proof.
  intros crc mgr slots maxpdu os Hok.
  destruct (srun_attribution crc mgr os _ _ _ (J_init slots maxpdu) Hok) as (S & g & R & ds & E & _ & H).
  exists S, g, R, ds. split; assumption.
Qed.

(* the invariant behind it: at every point the receiver's label memory is empty or holds exactly the label of the
   sender's preceding start/complete packet *)
Theorem c04_sync : forall crc mgr slots maxpdu os, Forall sop_ok os ->
  exists S g R ds, srun crc mgr (enc_new, {| prev := None; run := 0 |}, dec_new slots maxpdu) os = Ret (S, g, R, ds) /\
    (dlast R = None \/ dlast R = prev g) /\ (forall l, last S = Some l -> prev g = Some l).
Proof.
  intros crc mgr slots maxpdu os Hok.
  destruct (srun_attribution crc mgr os _ _ _ (J_init slots maxpdu) Hok) as (S & g & R & ds & E & ((_ & Hp & _) & _ & HL) & _).
  exists S, g, R, ds. auto.
Qed.

(* Independently of the sender, for arbitrary bytes: after a call the receiver's label memory is empty, or untouched
   by an intermediate/end packet, or it is the label that the start/complete packet just processed carried (3- or
   6-byte label) or resolved to from the memory before the call (re-use); and whenever a status with a label is
   returned for a re-use packet, that label is exactly the remembered one. By induction the remembered label is
   always the one of the nearest preceding start/complete packet of the same frame. *)
Theorem c04_receiver_only : forall crc mgr s buf s' r, dstate_wf s -> bytes_ok buf ->
  decap crc mgr s buf = Ret (s', r) ->
  dlast s' = None \/
  (dlast s' = dlast s /\ exists gl k t, hdr_view (rd16 (takeN 2 buf)) = Some (gl, k, t) /\ (k = KInter \/ k = KEnd)) \/
  (exists gl k t lab, hdr_view (rd16 (takeN 2 buf)) = Some (gl, k, t) /\ (k = KComplete \/ k = KFirst) /\
      label_step s t lab s' r).
Proof.
  intros crc mgr s buf s' r Hwf Hb H. rewrite decap_spec in H by assumption. injection H as H.
  pose proof (decap_hl_label_memory crc mgr s buf) as L. cbv zeta in L. now rewrite H in L.
Qed.

(* padding ends the frame: whatever was remembered is forgotten, so a re-use packet behind it cannot be resolved
   to a label of the frame before *)
Theorem c04_padding_clears : forall crc mgr s buf s' r, dstate_wf s -> bytes_ok buf -> 2 <= lenN buf ->
  hdr_view (rd16 (takeN 2 buf)) = None ->
  decap crc mgr s buf = Ret (s', r) -> dlast s' = None /\ r = inl (DPadding, lenN buf) /\ dmem s' = dmem s.
Proof.
  intros crc mgr s buf s' r Hs Hb Hl Hv H. rewrite decap_spec in H by assumption. injection H as H.
  unfold decap_hl in H. destruct (N.ltb_spec (lenN buf) 2); [lia|]. rewrite Hv in H. injection H as <- <-.
  repeat split.
Qed.

(* with sufficient storage every PDU sent with an explicit or broadcast label is delivered: c16_complete and
   c16_fragmented (props/C16.v) hold from every well-formed receiver state *)

Print Assumptions c04_attribution.
Print Assumptions c04_sync.
Print Assumptions c04_receiver_only.
Print Assumptions c04_padding_clears.
