(* C15 -- label re-use policy bounds are respected. Pinned statements only; proofs in proofs/Policy.v.
   The history is unbounded: any sequence of encap calls (successful or failed), resets and configuration
   changes. `pstep` is the abstract effect of one call on the policy state; c15_link ties it to the model's encap. *)
Require Import GSE.model.Base GSE.model.Types GSE.model.Ext GSE.model.Encap
  GSE.proofs.Tactics GSE.proofs.BaseLemmas GSE.proofs.HeaderLemmas GSE.proofs.EncapSpec GSE.proofs.EncapProps GSE.proofs.Policy
  GSE.proofs.ExtSpec GSE.proofs.ExtTrip GSE.proofs.ExtProps.
Open Scope N_scope.

(* encap moves the policy state exactly as pstep says, and the label type written on the wire is that of the
   label pstep chose *)
Theorem c15_link : forall crc s pdu fid pt lab buf s' b' r, enc_wf s -> label_wf lab ->
  encap crc s pdu fid pt lab buf = Ret (s', b', r) ->
  s' = fst (pstep s (PEncap lab (match r with inl _ => true | inr _ => false end))) /\
  (forall st, r = inl st -> exists k glen rest,
     b' = be16 (GSE.proofs.HeaderLemmas.hdr_arith k (label_type (snd (check_reuse_hl s lab))) glen) ++ rest).
Proof.
  intros crc s pdu fid pt lab buf s' b' r Hs Hw H.
  pose proof (encap_state crc s pdu fid pt lab buf s' b' r Hs Hw H) as L.
  destruct r as [st|e]; cbn [pstep].
  - destruct L as (-> & k & glen & rest & -> & _). destruct (check_reuse_hl s lab); cbn [fst snd].
    split; [reflexivity|]. intros ? _. eauto.
  - destruct L as [-> _]. split; [reflexivity|discriminate].
Qed.

(* the same for encap_ext: it moves the policy state as pstep says (nothing on an error), and writes the label type pstep chose *)
Theorem c15_link_ext : forall crc s pdu fid pt lab buf exts s' b' r, enc_wf s -> label_wf lab -> Forall ext_built exts ->
  encap_ext crc s pdu fid pt lab buf exts = Ret (s', b', r) ->
  s' = fst (pstep s (PEncap lab (match r with inl _ => true | inr _ => false end))) /\
  (forall st, r = inl st -> exists k glen rest,
     b' = be16 (hdr_arith k (label_type (snd (check_reuse_hl s lab))) glen) ++ rest).
Proof.
  intros crc s pdu fid pt lab buf exts s' b' r Hs Hw Hx H.
  assert (Hxw : Forall ext_wf exts) by (revert Hx; apply Forall_impl; exact ext_built_wf).
  rewrite encap_ext_spec in H by assumption. injection H as H.
  destruct r as [st|e]; cbn [pstep].
  - destruct st as [n|n c].
    + destruct (encap_ext_completed crc _ _ _ _ _ _ _ _ _ _ Hw H) as (_ & _ & HS' & Hb' & _).
      destruct (check_reuse_hl s lab) as [s1 l]; cbn [fst snd] in *. split; [exact HS'|]. intros ? _.
      rewrite Hb'. with_strategy transparent [pkt_complete_x] unfold pkt_complete_x. rewrite <- !app_assoc. eauto.
    + destruct (encap_ext_fragmented crc _ _ _ _ _ _ _ _ _ _ _ Hw H) as (_ & _ & HS' & Hb' & _).
      destruct (check_reuse_hl s lab) as [s1 l]; cbn [fst snd] in *. split; [exact HS'|]. intros ? _.
      rewrite Hb'. with_strategy transparent [pkt_first_x] unfold pkt_first_x. rewrite <- !app_assoc. eauto.
  - apply encap_ext_hl_err in H as [-> _]. split; [reflexivity|discriminate].
Qed.

(* the invariant holds after every history from a new encapsulator *)
Theorem c15_invariant : forall ops, Forall op_ok ops ->
  let '(s, g, _) := prun enc_new {| prev := None; run := 0 |} ops in Inv s g.
Proof. intros ops H. exact (Inv_run ops _ _ Inv_init H). Qed.

(* with re-use disabled the encapsulator never replaces a label by the re-use marker *)
Theorem c15_disabled : forall s lab, re_on s = false -> snd (check_reuse_hl s lab) = lab.
Proof. exact policy_disabled. Qed.

(* a re-use marker is only ever substituted for a 3- or 6-byte label identical to the one carried (or stood for)
   by the immediately preceding start/complete packet; hence never right after a reset or a broadcast packet *)
Theorem c15_sub_only_same : forall s g lab l, Inv s g -> label_wf lab ->
  snd (pstep s (PEncap lab true)) = Some (ESub l) ->
  l = lab /\ is36 lab /\ prev g = Some lab /\ re_on s = true.
Proof. exact policy_sub_only_same. Qed.
Theorem c15_after_reset_or_bcast : forall s g lab l, Inv s g -> label_wf lab -> prev g = None ->
  snd (pstep s (PEncap lab true)) <> Some (ESub l).
Proof. exact policy_no_sub_without_prev. Qed.

(* with a maximum of N > 0 consecutive re-uses configured, at most N substitutions since the last packet carrying
   its full label (or broadcast, or configuration call) *)
Theorem c15_max : forall s g o, Inv s g -> op_ok o -> 0 < re_max (fst (pstep s o)) ->
  run (gstep g o (snd (pstep s o))) <= re_max (fst (pstep s o)).
Proof. exact policy_run_bound. Qed.

Example c15_nonvacuous :
  let A := L6 [1;2;3;4;5;6] in
  snd (fst (prun enc_new {| prev := None; run := 0 |}
             [PEnableMax 2; PEncap A true; PEncap A true; PEncap A true; PEncap A true; PEncap A true]))
  = {| prev := Some A; run := 1 |}.
Proof. vm_compute. reflexivity. Qed.

Print Assumptions c15_link.
Print Assumptions c15_link_ext.
Print Assumptions c15_invariant.
Print Assumptions c15_disabled.
Print Assumptions c15_sub_only_same.
Print Assumptions c15_after_reset_or_bcast.
Print Assumptions c15_max.
