(* Closed-form characterisation of the sender: the statement-by-statement model of encap / encap_frag /
   previews equals a panic-free description written with literal numbers and list concatenation.
   All sender-side properties are proved from these `_hl` forms. No model code. *)
Require Import GSE.gen.Consts GSE.model.Base GSE.model.Types GSE.model.Header GSE.model.Ext GSE.model.Encap
  GSE.proofs.Tactics GSE.proofs.BaseLemmas GSE.proofs.HeaderLemmas.
Open Scope N_scope.
Set Default Proof Using "Type".

Ltac consts :=
  unfold FIRST_FRAG_LEN in *;
  unfold FIXED_HEADER_LEN, PROTOCOL_LEN, FRAG_ID_LEN, TOTAL_LENGTH_LEN, FIRST_FRAG_LEN, GSE_LEN_MAX,
    TOTAL_LEN_MAX, CRC_LEN, MAX_MANDATORY_VAL_PTYPE, SECOND_RANGE_PTYPE, LABEL_6_B_LEN, LABEL_3_B_LEN,
    LABEL_BROADCAST_LEN, LABEL_REUSE_LEN in *.

(* ---------- labels ---------- *)
Definition is36 (l : label) : Prop := match l with L6 _ | L3 _ => True | _ => False end.
Definition enc_wf (s : enc_state) : Prop :=
  re_max s < 256 /\ re_cur s <= re_max s /\
  match last s with Some l => label_wf l /\ is36 l | None => True end.

Lemma label_len_bytes l : label_wf l -> lenN (label_bytes l) = label_len l.
Proof. destruct l; cbn; consts; intuition. Qed.
Lemma label_len_le l : label_len l <= 6. Proof. destruct l; cbn; consts; lia. Qed.
Lemma label_len_type l : ltype_len (label_type l) = label_len l. Proof. destruct l; reflexivity. Qed.
Lemma label_bytes_ok l : label_wf l -> bytes_ok (label_bytes l).
Proof. destruct l; cbn; try tauto; constructor. Qed.
Lemma label_eqb_eq a b : label_eqb a b = true <-> a = b.
Proof. destruct a, b; cbn; rewrite ?bytes_eqb_eq; split; congruence. Qed.
Lemma label_eqb_refl a : label_eqb a a = true. Proof. now apply label_eqb_eq. Qed.
Lemma label_eqb_neq a b : label_eqb a b = false <-> a <> b.
Proof. rewrite <- label_eqb_eq. destruct (label_eqb a b); split; congruence. Qed.

(* ---------- check_label_re_use ---------- *)
Definition check_reuse_hl (s : enc_state) (next : label) : enc_state * label :=
  if re_on s then
    if opt_label_eqb (Some next) (last s) then
      if re_max s =? 0 then (s, LReUse)
      else if re_cur s <? re_max s then (set_cur s (re_cur s + 1), LReUse)
      else (update_last (set_cur s 0) next, next)
    else (update_last s next, next)
  else (s, next).

Lemma check_reuse_ok s next : enc_wf s -> check_reuse s next = Ret (check_reuse_hl s next).
Proof.
  intros (Hm & Hc & _). unfold check_reuse, check_reuse_hl.
  destruct (re_on s); [|reflexivity]. destruct (opt_label_eqb (Some next) (last s)); [|reflexivity].
  destruct (re_max s =? 0); [reflexivity|]. destruct (N.ltb_spec (re_cur s) (re_max s)); [|reflexivity].
  rewrite add_chk_ok by (change (2 ^ 8) with 256; lia). reflexivity.
Qed.

(* what the substitution does, as a relation *)
Lemma check_reuse_cases s next s1 l : check_reuse_hl s next = (s1, l) ->
  (l = LReUse /\ next <> LReUse /\ re_on s = true /\ last s = Some next /\ last s1 = last s /\ re_on s1 = re_on s /\ re_max s1 = re_max s
     /\ (re_max s = 0 \/ re_cur s < re_max s)) \/
  (l = next /\ re_on s1 = re_on s /\ re_max s1 = re_max s /\
     last s1 = (if re_on s then match next with LBroadcast => None | LReUse => last s | _ => Some next end else last s)).
Proof.
  unfold check_reuse_hl. destruct (re_on s) eqn:Eon.
  - destruct (opt_label_eqb (Some next) (last s)) eqn:Eeq.
    + assert (Hl : last s = Some next).
      { destruct (last s) as [p|]; cbn in Eeq; [|discriminate]. apply label_eqb_eq in Eeq. now subst. }
      destruct (N.eqb_spec (re_max s) 0).
      * intros [= <- <-]. destruct next; [left|left|left|right]; cbn; rewrite ?Eon, ?Hl;
          repeat split; auto; try congruence.
      * destruct (N.ltb_spec (re_cur s) (re_max s)).
        -- intros [= <- <-]. destruct next; [left|left|left|right]; cbn; rewrite ?Eon, ?Hl;
             repeat split; auto; try congruence.
        -- intros [= <- <-]. right. unfold update_last. destruct next; cbn; auto.
    + intros [= <- <-]. right. unfold update_last. destruct next; cbn; auto.
  - intros [= <- <-]. right. auto.
Qed.

Lemma check_reuse_label_wf s next s1 l : label_wf next -> check_reuse_hl s next = (s1, l) -> label_wf l.
Proof. intros Hw H. apply check_reuse_cases in H as [(-> & _)|(-> & _)]; [exact I|exact Hw]. Qed.

Lemma check_reuse_wf s next s1 l : enc_wf s -> label_wf next -> check_reuse_hl s next = (s1, l) -> enc_wf s1.
Proof.
  intros (Hm & Hc & Hl) Hw. unfold check_reuse_hl, enc_wf.
  destruct (re_on s).
  - destruct (opt_label_eqb (Some next) (last s)).
    + destruct (N.eqb_spec (re_max s) 0); [intros [= <- <-]; auto|].
      destruct (N.ltb_spec (re_cur s) (re_max s)); intros [= <- <-]; cbn.
      * repeat split; try lia; exact Hl.
      * unfold update_last. destruct next; cbn in *; repeat split; try lia; try tauto; auto.
    + intros [= <- <-]. unfold update_last. destruct next; cbn in *; repeat split; try tauto; auto.
  - intros [= <- <-]. auto.
Qed.

Lemma restore_id s next s1 l : check_reuse_hl s next = (s1, l) -> restore s s1 = s.
Proof.
  intro H. assert (re_on s1 = re_on s /\ re_max s1 = re_max s) as [E1 E2].
  { apply check_reuse_cases in H as [H|H]; intuition. }
  unfold restore. rewrite E1, E2. destruct s; reflexivity.
Qed.

Lemma lenN_one {A} (x : A) : lenN [x] = 1. Proof. reflexivity. Qed.
#[export] Hint Rewrite @lenN_app lenN_be16 lenN_be32 @lenN_one @lenN_nil @lenN_cons @lenN_takeN @lenN_dropN : lens.

(* ---------- write chains ---------- *)
Lemma write_next (pre : list byte) k buf src off : off = k -> lenN pre = k -> k + lenN src <= lenN buf ->
  write (pre ++ dropN k buf) off src = Ret ((pre ++ src) ++ dropN (k + lenN src) buf).
Proof. intros -> Hk H. rewrite write_at by (rewrite ?lenN_dropN; lia). rewrite dropN_dropN. do 3 f_equal. lia. Qed.
Lemma write_first buf src : lenN src <= lenN buf -> write buf 0 src = Ret (([] ++ src) ++ dropN (0 + lenN src) buf).
Proof. intro H. rewrite <- (dropN_0 buf) at 1. change (dropN 0 buf) with ([] ++ dropN 0 buf).
  now apply write_next. Qed.

(* ---------- encap ---------- *)
Definition pkt_complete (l : label) (pt : N) (pdu : list byte) : list byte :=
  be16 (hdr_arith KComplete (label_type l) (lenN pdu + lenN (label_bytes l) + 2)) ++ be16 pt ++ label_bytes l ++ pdu.
Definition pkt_first (l : label) (fid tl pt : N) (payload : list byte) : list byte :=
  be16 (hdr_arith KFirst (label_type l) (5 + lenN (label_bytes l) + lenN payload))
  ++ [fid] ++ be16 tl ++ be16 pt ++ label_bytes l ++ payload.

Lemma lenN_pkt_complete l pt pdu : lenN (pkt_complete l pt pdu) = 4 + lenN (label_bytes l) + lenN pdu.
Proof. unfold pkt_complete. rewrite !lenN_app, !lenN_be16. lia. Qed.
Lemma lenN_pkt_first l fid tl pt p : lenN (pkt_first l fid tl pt p) = 7 + lenN (label_bytes l) + lenN p.
Proof. unfold pkt_first. rewrite !lenN_app, !lenN_be16, lenN_cons, lenN_nil. lia. Qed.

Section WithCrc.
Variable crc : list byte -> N -> N -> list byte -> N.

Definition encap_hl (s : enc_state) (pdu : list byte) (fid pt : N) (lab : label) (buf : list byte) : enc_out :=
  if is_zero6 lab then (s, buf, inr EInvalidLabel) else
  if (256 <=? pt) && (pt <? 1536) then (s, buf, inr EProtocolType) else
  let '(s1, l) := check_reuse_hl s lab in
  let ll := lenN (label_bytes l) in
  let pl := lenN pdu in
  if (4 + ll + pl <=? lenN buf) && (pl + ll + 2 <=? 4095) then
    let pkt := pkt_complete l pt pdu in
    (s1, pkt ++ dropN (lenN pkt) buf, inl (Completed (lenN pkt)))
  else if lenN buf <? 7 + ll then (s, buf, inr ESizeBuffer)
  else if 65535 <? pl + 2 + ll then (s, buf, inr EPduLength)
  else
    let pe := N.min (lenN buf - (7 + ll)) (4090 - ll) in
    let tl := pl + 2 + ll in
    let pkt := pkt_first l fid tl pt (takeN pe pdu) in
    (s1, pkt ++ dropN (lenN pkt) buf,
     inl (Fragmented (lenN pkt) {| cf_id := fid; cf_crc := crc pdu pt tl (label_bytes l); cf_len := pe |})).

Lemma encap_spec s pdu fid pt lab buf : enc_wf s -> label_wf lab ->
  encap crc s pdu fid pt lab buf = Ret (encap_hl s pdu fid pt lab buf).
Proof.
  intros Hs Hw. unfold encap, encap_hl.
  destruct (is_zero6 lab); [reflexivity|].
  change MAX_MANDATORY_VAL_PTYPE with 256. change SECOND_RANGE_PTYPE with 1536.
  destruct ((256 <=? pt) && (pt <? 1536)); [reflexivity|].
  rewrite check_reuse_ok by exact Hs. cbn [bind].
  destruct (check_reuse_hl s lab) as [s1 l] eqn:Hc.
  pose proof (check_reuse_label_wf _ _ _ _ Hw Hc) as Hwl.
  pose proof (label_len_bytes l Hwl) as Hll. pose proof (label_len_le l) as Hl6.
  rewrite <- Hll in *. clear Hll.
  consts.
  replace (2 + 2 + lenN (label_bytes l) + lenN pdu <=? lenN buf)
    with (4 + lenN (label_bytes l) + lenN pdu <=? lenN buf) by (f_equal; lia).
  replace (2 + 2 + lenN (label_bytes l) + 1 + 2) with (7 + lenN (label_bytes l)) by lia.
  destruct ((4 + lenN (label_bytes l) + lenN pdu <=? lenN buf) && (lenN pdu + lenN (label_bytes l) + 2 <=? 4095)) eqn:Hfit.
  - apply andb_prop in Hfit as [Hf Hg]. apply N.leb_le in Hf. apply N.leb_le in Hg.
    rewrite u16_small by lia.
    rewrite gen_hdr_arith by lia.
    rewrite write_first by (rewrite lenN_be16; lia). cbn [bind].
    rewrite u16_small by lia. rewrite add_chk_ok by (change (2 ^ 16) with 65536; lia). cbn [bind].
    rewrite write_next by (autorewrite with lens; lia). cbn [bind].
    rewrite write_next by (autorewrite with lens; lia). cbn [bind].
    rewrite slice_prefix by lia. cbn [bind]. rewrite takeN_all by lia.
    rewrite write_next by (autorewrite with lens; lia). cbn [bind].
    rewrite lenN_pkt_complete. unfold pkt_complete. autorewrite with lens. cbn [app].
    rewrite <- !app_assoc.
    replace (0 + 2 + 2 + lenN (label_bytes l) + lenN pdu) with (4 + lenN (label_bytes l) + lenN pdu) by lia.
    replace (lenN pdu + lenN (label_bytes l) + 2 + 2) with (4 + lenN (label_bytes l) + lenN pdu) by lia.
    reflexivity.
  - rename Hfit into Hnc.
    destruct (N.ltb_spec (lenN buf) (7 + lenN (label_bytes l))) as [Hb|Hb]; [now rewrite (restore_id _ _ _ _ Hc)|].
    destruct (N.ltb_spec 65535 (lenN pdu + 2 + lenN (label_bytes l))) as [Hbig|Hbig]; [now rewrite (restore_id _ _ _ _ Hc)|].
    rewrite !subN_ok by lia. cbn [bind]. rewrite subN_ok by lia. cbn [bind]. cbv zeta.
    replace (4095 - (7 + lenN (label_bytes l) - 2)) with (4090 - lenN (label_bytes l)) by lia.
    remember (N.min (lenN buf - (7 + lenN (label_bytes l))) (4090 - lenN (label_bytes l))) as pe eqn:Epe.
    assert (Hpe : pe <= lenN pdu).
    { apply andb_false_iff in Hnc as [Hn|Hn]; [apply N.leb_gt in Hn|apply N.leb_gt in Hn]; lia. }
    assert (Hpe2 : 7 + lenN (label_bytes l) + pe <= lenN buf) by lia.
    assert (Hpe3 : pe <= 4090 - lenN (label_bytes l)) by lia.
    rewrite !u16_small by lia.
    rewrite gen_hdr_arith by lia.
    rewrite write_first by (rewrite lenN_be16; lia). cbn [bind].
    rewrite write_next by (autorewrite with lens; lia). cbn [bind].
    rewrite write_next by (autorewrite with lens; lia). cbn [bind].
    rewrite slice_prefix by lia. cbn [bind]. rewrite (takeN_all (lenN pdu)) by lia.
    rewrite write_next by (autorewrite with lens; lia). cbn [bind].
    rewrite write_next by (autorewrite with lens; lia). cbn [bind].
    rewrite slice_prefix by lia. cbn [bind].
    rewrite write_next by (autorewrite with lens; lia). cbn [bind].
    rewrite lenN_pkt_first. unfold pkt_first. autorewrite with lens.
    replace (N.min pe (lenN pdu)) with pe by lia.
    cbn [app]. rewrite <- !app_assoc. cbn [app].
    replace (1 + 2 + 2 + lenN (label_bytes l) + pe) with (5 + lenN (label_bytes l) + pe) by lia.
    replace (0 + 2 + (1 + 0) + 2 + 2 + lenN (label_bytes l) + pe) with (7 + lenN (label_bytes l) + pe) by lia.
    replace (2 + 1 + 2 + 2 + lenN (label_bytes l) + pe) with (7 + lenN (label_bytes l) + pe) by lia.
    rewrite <- ?app_assoc. reflexivity.
Qed.

End WithCrc.

(* ---------- encap_frag ---------- *)
Definition pkt_end (fid : N) (payload : list byte) (crcv : N) : list byte :=
  be16 (hdr_arith KEnd TR (5 + lenN payload)) ++ [fid] ++ payload ++ be32 crcv.
Definition pkt_inter (fid : N) (payload : list byte) : list byte :=
  be16 (hdr_arith KInter TR (1 + lenN payload)) ++ [fid] ++ payload.

Definition encap_frag_hl (pdu : list byte) (ctx : ctxfrag) (buf : list byte) : list byte * enc_result :=
  let lpf := cf_len ctx in
  if lenN pdu <? lpf then (buf, inr EPduLength) else
  let rem := lenN pdu - lpf in
  if (rem + 7 <=? lenN buf) && (rem <=? 4090) then
    let pkt := pkt_end (cf_id ctx) (dropN lpf pdu) (cf_crc ctx) in
    (pkt ++ dropN (lenN pkt) buf, inl (Completed (lenN pkt)))
  else if (4 <=? lenN buf) && (1 <=? rem) then
    let pe := N.min (N.min (lenN buf - 3) 4094) rem in
    let pkt := pkt_inter (cf_id ctx) (takeN pe (dropN lpf pdu)) in
    (pkt ++ dropN (lenN pkt) buf,
     inl (Fragmented (lenN pkt) {| cf_id := cf_id ctx; cf_crc := cf_crc ctx; cf_len := u16 (lpf + pe) |}))
  else (buf, inr ESizeBuffer).

Lemma lenN_pkt_end fid p c : lenN (pkt_end fid p c) = 7 + lenN p.
Proof. unfold pkt_end. autorewrite with lens. lia. Qed.
Lemma lenN_pkt_inter fid p : lenN (pkt_inter fid p) = 3 + lenN p.
Proof. unfold pkt_inter. autorewrite with lens. lia. Qed.

Lemma encap_frag_spec pdu ctx buf : encap_frag pdu ctx buf = Ret (encap_frag_hl pdu ctx buf).
Proof.
  unfold encap_frag, encap_frag_hl. unfold set_idx.
  destruct (N.ltb_spec (lenN pdu) (cf_len ctx)) as [Hlt|Hge]; [reflexivity|].
  rewrite subN_ok by lia. cbn [bind]. consts.
  remember (lenN pdu - cf_len ctx) as rem eqn:Erem.
  replace (1 + rem + 4 + 2 <=? lenN buf) with (rem + 7 <=? lenN buf) by (f_equal; lia).
  replace (1 + rem + 4 <=? 4095) with (rem <=? 4090).
  2:{ destruct (N.leb_spec rem 4090); destruct (N.leb_spec (1 + rem + 4) 4095); (reflexivity || lia). }
  destruct ((rem + 7 <=? lenN buf) && (rem <=? 4090)) eqn:Hend.
  - apply andb_prop in Hend as [H1 H2]. apply N.leb_le in H1. apply N.leb_le in H2.
    rewrite u16_small by lia. rewrite gen_hdr_arith by lia.
    rewrite (write_ok buf (2 + 1 + rem)) by (rewrite lenN_be32; lia). cbn [bind].
    set (b1 := takeN (2 + 1 + rem) buf ++ be32 (cf_crc ctx) ++ dropN (2 + 1 + rem + lenN (be32 (cf_crc ctx))) buf).
    assert (Lb1 : lenN b1 = lenN buf) by (subst b1; autorewrite with lens; lia).
    rewrite write_first by (rewrite lenN_be16; lia). cbn [bind].
    rewrite write_next by (autorewrite with lens; lia). cbn [bind].
    rewrite slice_ok by lia.
    replace (cf_len ctx + rem - cf_len ctx) with rem by lia.
    rewrite (takeN_all rem) by (rewrite lenN_dropN; lia). cbn [bind].
    rewrite write_next by (autorewrite with lens; lia). cbn [bind].
    rewrite lenN_pkt_end. unfold pkt_end. autorewrite with lens.
    replace (lenN pdu - cf_len ctx) with rem by lia.
    assert (D : dropN (0 + 2 + (1 + 0) + rem) b1 = be32 (cf_crc ctx) ++ dropN (7 + rem) buf).
    { subst b1. rewrite dropN_app_eq by (autorewrite with lens; lia). rewrite lenN_be32. do 2 f_equal. lia. }
    rewrite D. clear D.
    rewrite u16_small by lia. cbn [app]. rewrite <- ?app_assoc. cbn [app].
    replace (1 + rem + 4) with (5 + rem) by lia.
    replace (2 + 1 + rem + 4) with (7 + rem) by lia.
    rewrite <- ?app_assoc. reflexivity.
  - destruct (N.ltb_spec (2 + 1) (lenN buf)) as [Hb|Hb].
    + destruct (N.ltb_spec 0 rem) as [Hr|Hr].
      * replace (4 <=? lenN buf) with true by (symmetry; apply N.leb_le; lia).
        replace (1 <=? rem) with true by (symmetry; apply N.leb_le; lia). cbn [andb].
        rewrite !subN_ok by lia. cbn [bind].
        replace (4095 - 1) with 4094 by reflexivity.
        remember (N.min (lenN buf - (2 + 1)) 4094) as avail eqn:Eav.
        replace (if rem <? avail then rem else avail) with (N.min (N.min (lenN buf - 3) 4094) rem).
        2:{ destruct (N.ltb_spec rem avail); lia. }
        remember (N.min (N.min (lenN buf - 3) 4094) rem) as pe eqn:Epe.
        rewrite !u16_small by lia. rewrite gen_hdr_arith by lia.
        rewrite write_first by (rewrite lenN_be16; lia). cbn [bind].
        rewrite write_next by (autorewrite with lens; lia). cbn [bind].
        rewrite slice_ok by lia.
        replace (cf_len ctx + pe - cf_len ctx) with pe by lia. cbn [bind].
        rewrite write_next by (autorewrite with lens; lia). cbn [bind].
        rewrite lenN_pkt_inter. unfold pkt_inter. autorewrite with lens.
        replace (N.min pe (lenN pdu - cf_len ctx)) with pe by lia.
        cbn [app]. rewrite <- ?app_assoc. cbn [app].
        replace (0 + 2 + 1 + pe) with (3 + pe) by lia.
        replace (2 + (1 + pe)) with (3 + pe) by lia.
        rewrite <- ?app_assoc. reflexivity.
      * replace (1 <=? rem) with false by (symmetry; apply N.leb_gt; lia).
        now rewrite !andb_false_r.
    + replace (4 <=? lenN buf) with false by (symmetry; apply N.leb_gt; lia). reflexivity.
Qed.

(* ---------- previews ---------- *)
Definition encap_preview_hl (pdu : list byte) (pt : N) (lab : label) (buf : list byte) : preview + enc_error :=
  let ll := lenN (label_bytes lab) in
  let pl := lenN pdu in
  if is_zero6 lab then inr EInvalidLabel else
  if (256 <=? pt) && (pt <? 1536) then inr EProtocolType else
  if (4 + ll + pl <=? lenN buf) && (pl + ll + 2 <=? 4095) then
    inl {| pv_kind := KComplete; pv_pdu_len := pl; pv_pkt_len := 4 + ll + pl |}
  else if lenN buf <? 7 + ll then inr ESizeBuffer
  else if 65535 <? pl + 2 + ll then inr EPduLength
  else inl {| pv_kind := KFirst; pv_pdu_len := pl;
              pv_pkt_len := 7 + ll + N.min (lenN buf - (7 + ll)) (4090 - ll) |}.

Lemma encap_preview_spec pdu pt lab buf : label_wf lab ->
  encap_preview pdu pt lab buf = Ret (encap_preview_hl pdu pt lab buf).
Proof.
  intro Hw. unfold encap_preview, encap_preview_hl.
  destruct (is_zero6 lab); [reflexivity|].
  change MAX_MANDATORY_VAL_PTYPE with 256. change SECOND_RANGE_PTYPE with 1536.
  destruct ((256 <=? pt) && (pt <? 1536)); [reflexivity|].
  pose proof (label_len_bytes lab Hw) as Hll. pose proof (label_len_le lab) as Hl6.
  rewrite <- Hll in *. clear Hll. consts.
  replace (2 + 2 + lenN (label_bytes lab) + lenN pdu <=? lenN buf)
    with (4 + lenN (label_bytes lab) + lenN pdu <=? lenN buf) by (f_equal; lia).
  replace (2 + 2 + lenN (label_bytes lab) + 1 + 2) with (7 + lenN (label_bytes lab)) by lia.
  destruct ((4 + lenN (label_bytes lab) + lenN pdu <=? lenN buf) && (lenN pdu + lenN (label_bytes lab) + 2 <=? 4095)) eqn:Hfit.
  - apply andb_prop in Hfit as [Hf Hg]. apply N.leb_le in Hf. apply N.leb_le in Hg.
    rewrite !u16_small by lia. rewrite add_chk_ok by (change (2 ^ 16) with 65536; lia). cbn [bind].
    do 3 f_equal. lia.
  - destruct (N.ltb_spec (lenN buf) (7 + lenN (label_bytes lab))) as [Hb|Hb]; [reflexivity|].
    destruct (N.ltb_spec 65535 (lenN pdu + 2 + lenN (label_bytes lab))) as [Hbig|Hbig]; [reflexivity|].
    rewrite !subN_ok by lia. cbn [bind]. rewrite subN_ok by lia. cbn [bind]. cbv zeta.
    replace (4095 - (7 + lenN (label_bytes lab) - 2)) with (4090 - lenN (label_bytes lab)) by lia.
    rewrite !u16_small by lia. rewrite add_chk_ok by (change (2 ^ 16) with 65536; lia). cbn [bind].
    do 3 f_equal. lia.
Qed.

Definition encap_frag_preview_hl (pdu : list byte) (ctx : ctxfrag) (buf : list byte) : preview + enc_error :=
  let lpf := cf_len ctx in
  if lenN pdu <? lpf then inr EPduLength else
  let rem := lenN pdu - lpf in
  if (rem + 7 <=? lenN buf) && (rem <=? 4090) then
    inl {| pv_kind := KEnd; pv_pdu_len := rem; pv_pkt_len := 7 + rem |}
  else if (4 <=? lenN buf) && (1 <=? rem) then
    let pe := N.min (N.min (lenN buf - 3) 4094) rem in
    inl {| pv_kind := KInter; pv_pdu_len := pe; pv_pkt_len := 3 + pe |}
  else inr ESizeBuffer.

Lemma encap_frag_preview_spec pdu ctx buf :
  encap_frag_preview pdu ctx buf = Ret (encap_frag_preview_hl pdu ctx buf).
Proof.
  unfold encap_frag_preview, encap_frag_preview_hl.
  destruct (N.ltb_spec (lenN pdu) (cf_len ctx)) as [Hlt|Hge]; [reflexivity|].
  rewrite subN_ok by lia. cbn [bind]. consts.
  remember (lenN pdu - cf_len ctx) as rem eqn:Erem.
  replace (1 + rem + 4 + 2 <=? lenN buf) with (rem + 7 <=? lenN buf) by (f_equal; lia).
  replace (1 + rem + 4 <=? 4095) with (rem <=? 4090).
  2:{ destruct (N.leb_spec rem 4090); destruct (N.leb_spec (1 + rem + 4) 4095); (reflexivity || lia). }
  destruct ((rem + 7 <=? lenN buf) && (rem <=? 4090)) eqn:Hend.
  - apply andb_prop in Hend as [H1 H2]. apply N.leb_le in H1. apply N.leb_le in H2.
    rewrite u16_small by lia. do 3 f_equal. lia.
  - destruct (N.ltb_spec (2 + 1) (lenN buf)) as [Hb|Hb].
    + destruct (N.ltb_spec 0 rem) as [Hr|Hr].
      * replace (4 <=? lenN buf) with true by (symmetry; apply N.leb_le; lia).
        replace (1 <=? rem) with true by (symmetry; apply N.leb_le; lia). cbn [andb].
        rewrite !subN_ok by lia. cbn [bind]. replace (4095 - 1) with 4094 by reflexivity.
        remember (N.min (lenN buf - (2 + 1)) 4094) as avail eqn:Eav.
        replace (if rem <? avail then rem else avail) with (N.min (N.min (lenN buf - 3) 4094) rem).
        2:{ destruct (N.ltb_spec rem avail); lia. }
        rewrite u16_small by lia. do 3 f_equal. lia.
      * replace (1 <=? rem) with false by (symmetry; apply N.leb_gt; lia). now rewrite !andb_false_r.
    + replace (4 <=? lenN buf) with false by (symmetry; apply N.leb_gt; lia). reflexivity.
Qed.
