(* C08: storage buffers are conserved -- every call moves buffer identities between the free list, the slots,
   and what is handed to the caller; nothing is lost or duplicated. No model code. *)
Require Import GSE.gen.Consts GSE.model.Base GSE.model.Types GSE.model.Header GSE.model.Ext
  GSE.model.Memory GSE.model.Decap
  GSE.proofs.Tactics GSE.proofs.BaseLemmas GSE.proofs.MemoryLemmas GSE.proofs.DecapBase GSE.proofs.DecapSpec
  GSE.proofs.DecapProps.
Require Import Coq.Sorting.Permutation.
Open Scope N_scope.

Definition slot_bids (o : option mctx) : list N := match o with Some (_, b) => [bid b] | None => [] end.
Definition mem_bids (m : mem) : list N := map bid (storages m) ++ flat_map slot_bids (frags m).
Definition merr_bids (e : mem_error) : list N := match e with MOverflow b | MTooSmall b => [bid b] | _ => [] end.
(* buffers handed to the caller by a decap result: the completed PDU, or the buffer inside an error value *)
Definition res_bids (r : dec_result) : list N :=
  match r with
  | inl (DCompleted b _, _) => [bid b]
  | inr (DMemory e, _) => merr_bids e
  | _ => []
  end.

Lemma flat_map_upd {A B} (f : A -> list B) (l : list A) : forall i old v, nthN i l = Some old ->
  Permutation (f v ++ flat_map f l) (f old ++ flat_map f (upd_nth l i v)).
Proof.
  induction l as [|x t IH]; intros i old v H; [discriminate|]. cbn [nthN upd_nth flat_map] in *.
  destruct (N.eqb_spec i 0).
  - injection H as ->. cbn [flat_map]. rewrite !app_assoc. apply Permutation_app_tail. apply Permutation_app_comm.
  - cbn [flat_map]. specialize (IH _ _ v H).
    rewrite (app_assoc (f v)), (Permutation_app_comm (f v) (f x)), <- app_assoc. rewrite IH.
    rewrite (app_assoc (f x)), (Permutation_app_comm (f x) (f old)), <- app_assoc. reflexivity.
Qed.

Lemma mem_bids_set_slot m i old v : nthN i (frags m) = Some old ->
  Permutation (slot_bids v ++ mem_bids m) (slot_bids old ++ mem_bids (set_slot m i v)).
Proof.
  intro H. unfold mem_bids, set_slot; cbn [storages frags set_frags].
  rewrite !app_assoc, (Permutation_app_comm (slot_bids v)), (Permutation_app_comm (slot_bids old)), <- !app_assoc.
  apply Permutation_app_head. now apply flat_map_upd.
Qed.
Lemma mem_bids_set_storages m st : mem_bids (set_storages m st) = map bid st ++ flat_map slot_bids (frags m).
Proof. reflexivity. Qed.

Lemma slot_of_nth m f o : mem_wf m -> max_frag_id m <> 0 -> slot_of m f = o ->
  nthN (f mod max_frag_id m) (frags m) = Some o.
Proof.
  intros [Hf _] Hz H. unfold slot_of in H.
  destruct (nthN_lt_some (f mod max_frag_id m) (frags m)) as (x & E); [rewrite Hf; apply N.mod_lt; assumption|].
  rewrite E in *. now subst.
Qed.

(* ---------- memory operations ---------- *)
Lemma provision_conserves m b m' r : provision m b = (m', r) ->
  Permutation (mem_bids m' ++ match r with Some e => merr_bids e | None => [] end) (bid b :: mem_bids m).
Proof.
  unfold provision. destruct (cap m =? lenN (storages m)); [intros [= <- <-]; cbn; symmetry; apply Permutation_cons_append|].
  destruct (lenN (bdata b) <? max_pdu_size m); intros [= <- <-]; [cbn; symmetry; apply Permutation_cons_append|].
  rewrite app_nil_r. reflexivity.
Qed.

Lemma new_frag_conserves m c m' r : mem_ok m -> new_frag_fn m c = (m', r) ->
  Permutation (match r with inl (_, b) => [bid b] | inr _ => [] end ++ mem_bids m') (mem_bids m).
Proof.
  intros Hok. unfold new_frag_fn. destruct (N.eqb_spec (max_frag_id m) 0) as [Hz|Hz]; [intros [= <- <-]; reflexivity|].
  destruct (slot_of m (c_fid c)) as [[c0 b0]|] eqn:Es.
  - intros [= <- <-]. destruct Hok as (Hw & _).
    pose proof (mem_bids_set_slot m _ _ None (slot_of_nth _ _ _ Hw Hz Es)) as P. cbn [slot_bids app] in P.
    symmetry. exact P.
  - destruct (storages m) as [|b t] eqn:E; intros [= <- <-]; [reflexivity|].
    unfold mem_bids. cbn [storages frags set_storages]. rewrite E. reflexivity.
Qed.

Lemma take_frag_conserves m f m' r : mem_ok m -> take_frag_fn m f = (m', r) ->
  Permutation (match r with inl (_, b) => [bid b] | inr _ => [] end ++ mem_bids m') (mem_bids m).
Proof.
  intros Hok. unfold take_frag_fn. destruct (N.eqb_spec (max_frag_id m) 0) as [Hz|Hz]; [intros [= <- <-]; reflexivity|].
  destruct (slot_of m f) as [[c b]|] eqn:Es; [|intros [= <- <-]; reflexivity].
  destruct (c_fid c =? f); intros [= <- <-]; [|reflexivity]. destruct Hok as (Hw & _).
  pose proof (mem_bids_set_slot m _ _ None (slot_of_nth _ _ _ Hw Hz Es)) as P. cbn [slot_bids app] in P.
  symmetry. exact P.
Qed.

Lemma save_frag_empty m cb : mem_wf m -> max_frag_id m <> 0 -> slot_of m (c_fid (fst cb)) = None ->
  save_frag_fn m cb = (set_slot m (c_fid (fst cb) mod max_frag_id m) (Some cb), None) /\
  Permutation (mem_bids (set_slot m (c_fid (fst cb) mod max_frag_id m) (Some cb))) (bid (snd cb) :: mem_bids m).
Proof.
  intros Hw Hz Hs. unfold save_frag_fn. destruct (N.eqb_spec (max_frag_id m) 0); [contradiction|]. rewrite Hs.
  split; [reflexivity|].
  pose proof (mem_bids_set_slot m _ _ (Some cb) (slot_of_nth _ _ _ Hw Hz Hs)) as P. destruct cb as [c b].
  cbn [slot_bids app snd] in *. symmetry. exact P.
Qed.

Lemma give_back_conserves s pb e n s' r : (forall me, e <> DMemory me) -> give_back_hl s pb e n = (s', r) ->
  Permutation (mem_bids (dmem s') ++ res_bids r) (bid pb :: mem_bids (dmem s)).
Proof.
  intros He. unfold give_back_hl. destruct (provision (dmem s) pb) as [m [me|]] eqn:E; intros [= <- <-];
    pose proof (provision_conserves _ _ _ _ E) as P; cbn [dmem set_dmem res_bids].
  - exact P.
  - destruct e; try exact P. exfalso. eapply He. reflexivity.
Qed.

Lemma new_frag_err m c m' e : new_frag_fn m c = (m', inr e) -> e = MUnderflow.
Proof. unfold new_frag_fn. destruct (max_frag_id m =? 0); [now intros [= _ <-]|].
  destruct (slot_of m (c_fid c)) as [[? ?]|]; [discriminate|]. destruct (storages m); [now intros [= _ <-]|discriminate]. Qed.
Lemma take_frag_err m f m' e : take_frag_fn m f = (m', inr e) -> e = MUndefinedId.
Proof. unfold take_frag_fn. destruct (max_frag_id m =? 0); [now intros [= _ <-]|].
  destruct (slot_of m f) as [[c0 b0]|]; [destruct (c_fid c0 =? f); [discriminate|]|]; now intros [= _ <-]. Qed.

Lemma resolve_err_nobuf s t lab e n : resolve_hl s t lab = inr e -> res_bids (inr (e, n)) = [].
Proof. unfold resolve_hl. destruct t; try discriminate. destruct (dlast s) as [[| | |]|]; try discriminate; intros [= <-]; reflexivity. Qed.

Ltac done_err := cbn [fst snd dmem set_dlast set_dmem res_bids merr_bids]; rewrite ?app_nil_r; reflexivity.

(* ---------- decap ---------- *)
Section Decap.
Variable crc : list byte -> N -> N -> list byte -> N.
Variable mgr : N -> mand.

Lemma set_dlast_bids s l : mem_bids (dmem (set_dlast s l)) = mem_bids (dmem s). Proof. reflexivity. Qed.

Lemma complete_conserves s pkt t blen : dstate_wf s ->
  Permutation (mem_bids (dmem (fst (complete_hl mgr s pkt t blen))) ++ res_bids (snd (complete_hl mgr s pkt t blen)))
              (mem_bids (dmem s)).
Proof.
  intros Hwf. unfold complete_hl, err_last.
  destruct (lenN pkt - 2 <? lt_len t + 2); [done_err|]. cbv zeta.
  destruct (is_zero6 _); [done_err|].
  destruct (walk_fn mgr _ _) as [w|[|]]; try done_err.
  destruct (resolve_hl s t _) as [[s1 cur]|e] eqn:Er;
    [|cbn [fst snd]; rewrite (resolve_err_nobuf _ _ _ _ _ Er); done_err].
  rewrite <- (resolve_hl_mem _ _ _ _ _ Er).
  destruct (storages (dmem s1)) as [|pb rest] eqn:Es; [done_err|].
  destruct (lenN (bdata pb) <? _); [done_err|].
  cbn [fst snd dmem set_dmem res_bids bid]. unfold mem_bids. cbn [storages frags set_storages]. rewrite Es. cbn [map].
  cbn [app]. symmetry. apply Permutation_cons_append.
Qed.

Lemma first_conserves s pkt t blen : dstate_wf s ->
  Permutation (mem_bids (dmem (fst (first_hl mgr s pkt t blen))) ++ res_bids (snd (first_hl mgr s pkt t blen)))
              (mem_bids (dmem s)).
Proof.
  intros Hwf. unfold first_hl, err_last.
  destruct (lenN pkt - 2 <? lt_len t + 5); [done_err|]. cbv zeta.
  destruct (is_zero6 _); [done_err|].
  destruct (resolve_hl s t _) as [[s1 cur]|e] eqn:Er;
    [|cbn [fst snd]; rewrite (resolve_err_nobuf _ _ _ _ _ Er); done_err].
  pose proof (resolve_hl_wf _ _ _ _ _ Hwf Er) as Hwf1. rewrite <- (resolve_hl_mem _ _ _ _ _ Er).
  destruct (walk_fn mgr _ _) as [w|[|]]; try done_err.
  destruct (_ <=? _); [done_err|].
  match goal with |- context [new_frag_fn (dmem s1) ?c] => destruct (new_frag_fn (dmem s1) c) as [m [[c' pb]|e]] eqn:En end.
  2:{ pose proof (new_frag_err _ _ _ _ En) as ->. destruct (mem_ok_new_frag _ _ _ _ Hwf1 En) as (_ & _ & _ & ->). done_err. }
  destruct (mem_ok_new_frag _ _ _ _ Hwf1 En) as (Hok & Hmf & Hmp & -> & Hbo & Hsl & Hz).
  pose proof (new_frag_conserves _ _ _ _ Hwf1 En) as P. cbn [app] in P.
  destruct (lenN (bdata pb) <? _).
  - match goal with |- context [give_back_hl ?a ?b ?c ?d] => destruct (give_back_hl a b c d) as [s' r] eqn:Eg end.
    cbn [fst snd]. apply give_back_conserves in Eg; [|discriminate]. cbn [dmem set_dmem set_dlast] in Eg.
    rewrite Eg. exact P.
  - match goal with |- context [save_frag_fn m ?x] => set (cb := x) end.
    destruct (save_frag_empty m cb) as (Esv & Psv); [apply Hok|now rewrite Hmf|exact Hsl|].
    rewrite Esv. cbn [fst snd dmem set_dmem res_bids]. rewrite app_nil_r, Psv. exact P.
Qed.

Lemma inter_conserves s pkt blen : dstate_wf s ->
  Permutation (mem_bids (dmem (fst (inter_hl s pkt blen))) ++ res_bids (snd (inter_hl s pkt blen))) (mem_bids (dmem s)).
Proof.
  intros Hwf. unfold inter_hl, err_last.
  destruct (lenN pkt - 2 <=? 1); [done_err|]. cbv zeta.
  destruct (take_frag_fn (dmem s) (hd0 (dropN 2 pkt))) as [m [[c pb]|e]] eqn:Et.
  2:{ pose proof (take_frag_err _ _ _ _ Et) as ->. destruct (mem_ok_take_frag _ _ _ _ Hwf Et) as (_ & _ & _ & _ & ->). done_err. }
  destruct (mem_ok_take_frag _ _ _ _ Hwf Et) as (Hok & Hmf & Hmp & Hst & Hso & Hctx & Hbo & Hfid & Hnone & Hz & _).
  pose proof (take_frag_conserves _ _ _ _ Hwf Et) as P. cbn [app] in P.
  destruct (_ || _).
  - match goal with |- context [give_back_hl ?a ?b ?c ?d] => destruct (give_back_hl a b c d) as [s' r] eqn:Eg end.
    cbn [fst snd]. apply give_back_conserves in Eg; [|discriminate]. cbn [dmem set_dmem] in Eg. rewrite Eg. exact P.
  - match goal with |- context [save_frag_fn m ?x] => set (cb := x) end.
    destruct (save_frag_empty m cb) as (Esv & Psv); [apply Hok|now rewrite Hmf|cbn [fst c_fid cb]; now rewrite Hfid|].
    rewrite Esv. cbn [fst snd dmem set_dmem res_bids]. rewrite app_nil_r, Psv. exact P.
Qed.

Lemma end_conserves s pkt blen : dstate_wf s ->
  Permutation (mem_bids (dmem (fst (end_hl crc s pkt blen))) ++ res_bids (snd (end_hl crc s pkt blen))) (mem_bids (dmem s)).
Proof.
  intros Hwf. unfold end_hl, err_last.
  destruct (lenN pkt - 2 <? 5); [done_err|]. cbv zeta.
  destruct (take_frag_fn (dmem s) (hd0 (dropN 2 pkt))) as [m [[c pb]|e]] eqn:Et.
  2:{ pose proof (take_frag_err _ _ _ _ Et) as ->. destruct (mem_ok_take_frag _ _ _ _ Hwf Et) as (_ & _ & _ & _ & ->). done_err. }
  pose proof (take_frag_conserves _ _ _ _ Hwf Et) as P. cbn [app] in P.
  assert (GB : forall pb' e, (forall me, e <> DMemory me) -> bid pb' = bid pb ->
    Permutation (mem_bids (dmem (fst (give_back_hl (set_dmem s m) pb' e (lenN pkt)))) ++
                 res_bids (snd (give_back_hl (set_dmem s m) pb' e (lenN pkt)))) (mem_bids (dmem s))).
  { intros pb' e He Hb. destruct (give_back_hl (set_dmem s m) pb' e (lenN pkt)) as [s' r] eqn:Eg. cbn [fst snd].
    apply give_back_conserves in Eg; [|exact He]. cbn [dmem set_dmem] in Eg. rewrite Eg, Hb. exact P. }
  destruct (_ <? _); [apply GB; [discriminate|reflexivity]|].
  destruct (negb (c_total c =? _)); [apply GB; [discriminate|reflexivity]|].
  destruct (negb (_ =? _)); [apply GB; [discriminate|reflexivity]|].
  cbn [fst snd dmem set_dmem res_bids bid]. rewrite Permutation_app_comm. exact P.
Qed.

Theorem decap_conserves s buf : dstate_wf s ->
  Permutation (mem_bids (dmem (fst (decap_hl crc mgr s buf))) ++ res_bids (snd (decap_hl crc mgr s buf)))
              (mem_bids (dmem s)).
Proof.
  intros Hwf. unfold decap_hl, err_last. destruct (lenN buf <? 2); [done_err|].
  destruct (hdr_view (rd16 (takeN 2 buf))) as [[[gse_len k] t]|]; [|done_err].
  destruct (lenN buf <? gse_len + 2); [done_err|].
  destruct k; [now apply complete_conserves|now apply first_conserves|now apply inter_conserves|now apply end_conserves].
Qed.


Lemma c05_like s buf : dstate_wf s -> bytes_ok buf ->
  exists s' r, decap crc mgr s buf = Ret (s', r) /\ dstate_wf s'.
Proof.
  intros Hwf Hb. rewrite decap_spec by assumption. destruct (decap_hl crc mgr s buf) as [s' r] eqn:E.
  exists s', r. split; [reflexivity|]. pose proof (decap_hl_wf crc mgr s buf Hwf Hb) as W. now rewrite E in W.
Qed.

End Decap.
