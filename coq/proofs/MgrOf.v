(* A receiver that knows a chain exists whenever the chain uses each mandatory id once (C13: "decodably"). *)
Require Import GSE.gen.Consts GSE.model.Base GSE.model.Types GSE.model.Ext GSE.model.Decap
  GSE.proofs.Tactics GSE.proofs.BaseLemmas GSE.proofs.DecapBase GSE.proofs.ExtSpec GSE.proofs.ExtTrip.
Open Scope N_scope.

(* the manager read off a chain: every mandatory extension but a final last one is NonFinal(|data|) *)
Fixpoint mgr_of (es : list ext) (final : bool) (id : N) : mand :=
  match es with
  | [] => MUnknown
  | e :: t =>
    if (ext_id e =? id) && (id <? 256) then
      match t with
      | [] => if final then MFinal (lenN (ext_bytes e)) else MNonFinal (lenN (ext_bytes e))
      | _ => MNonFinal (lenN (ext_bytes e))
      end
    else mgr_of t final id
  end.

Definition mand_ids (es : list ext) : list N := map ext_id (filter (fun e => ext_id e <? 256) es).

Lemma mgr_of_skip e t final id : ext_id e <> id \/ 256 <= id -> mgr_of (e :: t) final id = mgr_of t final id.
Proof.
  intro H. cbn [mgr_of]. destruct (N.eqb_spec (ext_id e) id) as [E|E]; [|reflexivity].
  destruct (N.ltb_spec id 256); [|reflexivity]. destruct H; [contradiction|lia].
Qed.

Lemma nf_known_ext (m1 m2 : N -> mand) e : ext_id e < 256 -> m1 (ext_id e) = m2 (ext_id e) -> nf_known m1 e -> nf_known m2 e.
Proof. intros _ E [Hb Hm]. split; [exact Hb|]. intro Hl. rewrite <- E. now apply Hm. Qed.

Lemma mand_ids_cons e t : mand_ids (e :: t) = if ext_id e <? 256 then ext_id e :: mand_ids t else mand_ids t.
Proof. unfold mand_ids. cbn [filter]. destruct (ext_id e <? 256); reflexivity. Qed.

(* every extension of t is nf_known for a manager that agrees with mgr_of t ... on the mandatory ids of t *)
Lemma chain_known_mgr_of es final : es <> [] -> Forall ext_built es -> NoDup (mand_ids es) ->
  (final = true -> forall d, ext_id (last_of es d) < 256) ->
  forall m, (forall id, In id (mand_ids es) -> m id = mgr_of es final id) -> chain_known m es final.
Proof.
  induction es as [|e t IH]; intros Hne Hb Hnd Hfin m Hm; [contradiction|].
  inversion Hb as [|? ? He Ht]; subst.
  destruct t as [|e' t'].
  - (* single extension *)
    unfold chain_known. destruct final.
    + cbn [removelast last_of]. split; [constructor|]. intro d. specialize (Hfin eq_refl d). cbn [last_of] in Hfin.
      split; [exact He|]. split; [exact Hfin|]. rewrite Hm.
      * cbn [mgr_of]. rewrite N.eqb_refl. destruct (N.ltb_spec (ext_id e) 256); [reflexivity|lia].
      * rewrite mand_ids_cons. destruct (N.ltb_spec (ext_id e) 256); [left; reflexivity|lia].
    + constructor; [|constructor]. split; [exact He|]. intro Hl. rewrite Hm.
      * cbn [mgr_of]. rewrite N.eqb_refl. destruct (N.ltb_spec (ext_id e) 256); [reflexivity|lia].
      * rewrite mand_ids_cons. destruct (N.ltb_spec (ext_id e) 256); [left; reflexivity|lia].
  - (* e :: e' :: t' *)
    assert (Hnd' : NoDup (mand_ids (e' :: t'))).
    { rewrite mand_ids_cons in Hnd. destruct (ext_id e <? 256); [now inversion Hnd|exact Hnd]. }
    assert (Hm' : forall id, In id (mand_ids (e' :: t')) -> m id = mgr_of (e' :: t') final id).
    { intros id Hin. rewrite Hm.
      - apply mgr_of_skip. rewrite mand_ids_cons in Hnd. destruct (N.ltb_spec (ext_id e) 256) as [Hl|Hl].
        + left. inversion Hnd as [|? ? Hnot _]; subst. intro E. apply Hnot. now rewrite E.
        + left. intro E. rewrite <- E in Hin. unfold mand_ids in Hin. apply in_map_iff in Hin as (x & Ex & Hx).
          apply filter_In in Hx as [_ Hx]. apply N.ltb_lt in Hx. lia.
      - rewrite mand_ids_cons. destruct (ext_id e <? 256); [right; exact Hin|exact Hin]. }
    assert (Hfin' : final = true -> forall d, ext_id (last_of (e' :: t') d) < 256) by (intros Hf d; exact (Hfin Hf d)).
    specialize (IH ltac:(discriminate) Ht Hnd' Hfin' m Hm').
    assert (Hnf : nf_known m e).
    { split; [exact He|]. intro Hl. rewrite Hm.
      - cbn [mgr_of]. rewrite N.eqb_refl. destruct (N.ltb_spec (ext_id e) 256); [reflexivity|lia].
      - rewrite mand_ids_cons. destruct (N.ltb_spec (ext_id e) 256); [left; reflexivity|lia]. }
    unfold chain_known in *. destruct final.
    + destruct IH as [Hrl Hlast]. split.
      * change (removelast (e :: e' :: t')) with (e :: removelast (e' :: t')). constructor; assumption.
      * intro d. exact (Hlast d).
    + constructor; assumption.
Qed.

Lemma last_of_default (es : list ext) d d' : es <> [] -> last_of es d = last_of es d'.
Proof.
  induction es as [|a t IH]; intro H; [contradiction|]. destruct t as [|b t']; [reflexivity|].
  change (last_of (a :: b :: t') d) with (last_of (b :: t') d). change (last_of (a :: b :: t') d') with (last_of (b :: t') d').
  apply IH. discriminate.
Qed.

Theorem decodable_exists es pt : Forall ext_built es -> ext_type_ok es pt -> NoDup (mand_ids es) ->
  chain_known (mgr_of es (pt <? 256)) es (pt <? 256).
Proof.
  intros Hb (e0 & rest & Ee & Hty) Hnd. apply chain_known_mgr_of; auto.
  - rewrite Ee. discriminate.
  - intros Hf d. rewrite Hf in Hty. apply N.ltb_lt in Hf.
    rewrite (last_of_default es d e0) by (rewrite Ee; discriminate).
    rewrite Hty. exact Hf.
Qed.
