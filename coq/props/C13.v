(* C13 -- extension-header chains round-trip; unknown mandatory extensions cause a drop. Pinned statements only. *)
Require Import GSE.gen.HLenTable GSE.model.Base GSE.model.Types GSE.model.Header GSE.model.Ext GSE.model.Encap GSE.model.Memory GSE.model.Decap
  GSE.proofs.Tactics GSE.proofs.BaseLemmas GSE.proofs.HeaderLemmas GSE.proofs.EncapSpec GSE.proofs.EncapProps
  GSE.proofs.FragRun GSE.proofs.MemoryLemmas GSE.proofs.DecapBase GSE.proofs.DecapSpec GSE.proofs.DecapProps GSE.proofs.RoundTrip GSE.proofs.FragTrip
  GSE.proofs.ExtSpec GSE.proofs.ExtTrip GSE.proofs.MgrOf.
Open Scope N_scope.

(* Vocabulary (proofs/ExtTrip.v):
   ext_built e          e is a value Extension::new returns (the only constructor: fields are private);
   nf_known mgr e       e is built and, when mandatory (id < 0x100), the manager answers NonFinal(|data|) for its id;
   fin_known mgr e      e is built, mandatory, and the manager answers Final(|data|) for its id;
   chain_known mgr es f the receiver knows the chain: every extension but the last is nf_known, the last one is
                        fin_known when f (protocol type < 0x100) and nf_known otherwise;
   ext_type_ok es pt    the chain is not empty and, if pt < 0x100, the last extension has id pt, else pt >= 0x600. *)

(* encap_ext, statement by statement, is the closed form encap_ext_hl: it never panics *)
Theorem c13_encap_ext_total : forall crc s pdu fid pt lab buf exts, enc_wf s -> label_wf lab -> Forall ext_built exts ->
  encap_ext crc s pdu fid pt lab buf exts = Ret (encap_ext_hl crc s pdu fid pt lab buf exts).
Proof. intros. apply encap_ext_spec; auto. eapply Forall_impl; [|eassumption]. exact ext_built_wf. Qed.

(* Complete packets: same ordered extension list, protocol type, label (as resolved) and PDU; decap consumes the
   length encap_ext reported, which is the GSE length field + 2 *)
Theorem c13_complete_roundtrip : forall crc mgr S pdu fid pt lab buf exts S' buf' n R tail cur R1 pb rest,
  enc_wf S -> label_wf lab -> bytes_ok pdu -> bytes_ok tail -> pt < 65536 ->
  Forall ext_built exts -> Forall (fun e => bytes_ok (ext_bytes e)) exts ->
  encap_ext crc S pdu fid pt lab buf exts = Ret (S', buf', inl (Completed n)) ->
  chain_known mgr exts (pt <? 256) ->
  dstate_wf R ->
  let l := snd (check_reuse_hl S lab) in
  resolve_hl R (label_type l) l = inl (R1, cur) ->
  storages (dmem R) = pb :: rest -> lenN pdu <= lenN (bdata pb) ->
  decap crc mgr R (takeN n buf' ++ tail) =
    Ret (set_dmem R1 (set_storages (dmem R1) rest),
         inl (DCompleted {| bid := bid pb; bdata := pdu ++ dropN (lenN pdu) (bdata pb) |}
                {| md_pdu_len := lenN pdu; md_ptype := pt; md_label := cur; md_exts := exts |}, n))
  /\ hdr_view (rd16 (takeN 2 buf')) = Some (n - 2, KComplete, label_type l).
Proof. exact ext_complete_roundtrip. Qed.

(* Fragmented PDUs, any schedule of continuation buffers: every status carries the extension list, protocol type
   and label; the completed PDU equals the original; each call consumes the length the sender reported; the first
   fragment's reported length is its GSE length field + 2 *)
Theorem c13_fragmented_roundtrip : forall crc mgr, (forall a b c d, crc a b c d < 4294967296) ->
  forall S pdu fid pt lab b0 exts S' b0' n0 c0 bufs ps R R1 cur,
  enc_wf S -> label_wf lab -> bytes_ok pdu -> fid < 256 -> pt < 65536 ->
  Forall ext_built exts -> Forall (fun e => bytes_ok (ext_bytes e)) exts ->
  encap_ext crc S pdu fid pt lab b0 exts = Ret (S', b0', inl (Fragmented n0 c0)) ->
  frag_run pdu c0 bufs = Ret (ps, None) ->
  chain_known mgr exts (pt <? 256) ->
  dstate_wf R ->
  let l := snd (check_reuse_hl S lab) in
  resolve_hl R (label_type l) l = inl (R1, cur) ->
  lenN pdu <= max_pdu_size (dmem R) -> max_frag_id (dmem R) <> 0 ->
  (slot_of (dmem R) fid <> None \/ storages (dmem R) <> []) ->
  let mdf := {| md_pdu_len := 0; md_ptype := pt; md_label := cur; md_exts := exts |} in
  exists R' b lastp,
    ps = removelast ps ++ [lastp] /\
    recv_run crc mgr R (takeN n0 b0' :: ps) =
      Ret (R', inl (DFragmented mdf, n0)
               :: map (fun p => inl (DFragmented mdf, lenN p)) (removelast ps)
               ++ [inl (DCompleted b {| md_pdu_len := lenN pdu; md_ptype := pt; md_label := cur; md_exts := exts |},
                        lenN lastp)])
    /\ takeN (lenN pdu) (bdata b) = pdu /\ dstate_wf R'
    /\ hdr_view (rd16 (takeN 2 b0')) = Some (n0 - 2, KFirst, label_type l).
Proof. exact ext_fragmented_roundtrip. Qed.

(* encap_ext answers Ok only for an encodable combination: a non-empty chain and either a protocol type >= 0x600
   written after the chain, or a protocol type < 0x100 equal to the id of the last extension (final mandatory) *)
Theorem c13_encodable : forall crc S pdu fid pt lab buf exts S' buf' st, enc_wf S -> label_wf lab -> Forall ext_built exts ->
  encap_ext crc S pdu fid pt lab buf exts = Ret (S', buf', inl st) -> ext_type_ok exts pt.
Proof.
  intros crc S pdu fid pt lab buf exts S' buf' st HS Hw Hb H. rewrite c13_encap_ext_total in H by assumption. injection H as H.
  destruct st as [n|n c]; [eapply encap_ext_completed|eapply encap_ext_fragmented]; eauto.
Qed.

(* ... and what it answers Ok for is decodable: when the chain uses each mandatory id once, the manager read off
   the chain (mgr_of: every mandatory extension NonFinal(|data|), the last one Final(|data|) when the protocol type is
   below 0x0100) knows it, so c13_complete_roundtrip / c13_fragmented_roundtrip apply to that receiver *)
Theorem c13_decodable : forall crc S pdu fid pt lab buf exts S' buf' st, enc_wf S -> label_wf lab -> Forall ext_built exts ->
  encap_ext crc S pdu fid pt lab buf exts = Ret (S', buf', inl st) -> NoDup (mand_ids exts) ->
  chain_known (mgr_of exts (pt <? 256)) exts (pt <? 256).
Proof. intros. apply decodable_exists; auto. eapply c13_encodable; eauto. Qed.

(* Whenever decap reports an unknown mandatory extension, the input started with a complete or first packet, the
   call consumed exactly that packet's length (GSE length + 2) and the memory (free buffers, contexts) is untouched *)
Theorem c13_unknown_whole_packet : forall crc mgr R buf R' n, dstate_wf R -> bytes_ok buf ->
  decap crc mgr R buf = Ret (R', inr (DUnkownMandatoryHeader, n)) ->
  exists gl k t, hdr_view (rd16 (takeN 2 buf)) = Some (gl, k, t) /\ (k = KComplete \/ k = KFirst) /\
    n = gl + 2 /\ gl + 2 <= lenN buf /\ dmem R' = dmem R.
Proof. intros crc mgr R buf R' n HR Hb H. rewrite decap_spec in H by assumption. injection H as H. eapply decap_hl_unknown; eauto. Qed.

(* ... and it does report it for what encap_ext writes: a chain whose extensions are known up to a mandatory one the
   manager does not know is rejected, complete packet or first fragment, consuming the reported length *)
Theorem c13_unknown_mandatory : forall crc mgr S pdu fid pt lab buf exts S' buf' st R tail es1 e es2,
  enc_wf S -> label_wf lab -> bytes_ok pdu -> bytes_ok tail -> fid < 256 -> pt < 65536 ->
  Forall ext_built exts -> Forall (fun e => bytes_ok (ext_bytes e)) exts ->
  encap_ext crc S pdu fid pt lab buf exts = Ret (S', buf', inl st) ->
  exts = es1 ++ e :: es2 -> Forall (nf_known mgr) es1 -> ext_id e < 256 -> mgr (ext_id e) = MUnknown ->
  dstate_wf R ->
  let n := match st with Completed n => n | Fragmented n _ => n end in
  let l := snd (check_reuse_hl S lab) in
  exists R' err, decap crc mgr R (takeN n buf' ++ tail) = Ret (R', inr (err, n)) /\ dmem R' = dmem R /\
    (err = DUnkownMandatoryHeader \/
     (exists n' c, st = Fragmented n' c) /\ resolve_hl R (label_type l) l = inr err).
Proof. exact ext_unknown_dropped. Qed.

(* Extension::new: total; Ok exactly for ids below 0x0600 whose data length, for optional ids, is the H-LEN size *)
Theorem c13_new : forall id data,
  (1536 <= id /\ ext_new id data = Ret (inr XIncorrectExtensionId)) \/
  (id < 256 /\ ext_new id data = Ret (inl {| ext_id := id; ext_dat := DMand data |})) \/
  (256 <= id < 1536 /\ hlen_table (id / 256) = Some (lenN data) /\
     exists e, ext_new id data = Ret (inl e) /\ ext_id e = id /\ ext_bytes e = data /\ is_mand e = false) \/
  (256 <= id < 1536 /\ hlen_table (id / 256) <> Some (lenN data) /\ ext_new id data = Ret (inr XIdAndVecSizeNotMatching)).
Proof. exact ext_new_total. Qed.

(* non-vacuity: a chain optional(2 bytes) -> mandatory non-final -> final mandatory, complete and fragmented *)
Definition ex_mgr (id : N) : mand := if id =? 0x42 then MNonFinal 3 else if id =? 0x81 then MFinal 1 else MUnknown.
Definition ex_exts : list ext :=
  [ {| ext_id := 0x0233; ext_dat := D2 [1;2] |}; {| ext_id := 0x42; ext_dat := DMand [7;8;9] |};
    {| ext_id := 0x81; ext_dat := DMand [5] |} ].
Example c13_nonvacuous_known : Forall ext_built ex_exts /\ chain_known ex_mgr ex_exts true /\ ext_type_ok ex_exts 0x81.
Proof.
  split; [repeat constructor|split].
  - split; [repeat constructor; cbn; intros; try lia; reflexivity|]. intro d. repeat split.
  - exists {| ext_id := 0x0233; ext_dat := D2 [1;2] |}, [ {| ext_id := 0x42; ext_dat := DMand [7;8;9] |}; {| ext_id := 0x81; ext_dat := DMand [5] |} ].
    split; reflexivity.
Qed.
Example c13_nonvacuous_complete :
  let R := fst (dec_provision (dec_new 1 4) {| bid := 7; bdata := [0;0;0;0;0] |}) in
  (do r <- encap_ext (fun _ _ _ _ => 0) enc_new [9;8;7] 1 0x81 (L3 [1;2;3]) (zeros 40) ex_exts;
   let '(_, b, _) := r in decap (fun _ _ _ _ => 0) ex_mgr R (takeN 20 b ++ [0xAA]))
  = Ret ({| dmem := mem_new 1 4; dlast := Some (L3 [1;2;3]) |},
         inl (DCompleted {| bid := 7; bdata := [9;8;7;0;0] |}
                {| md_pdu_len := 3; md_ptype := 0x81; md_label := L3 [1;2;3]; md_exts := ex_exts |}, 20)).
Proof. vm_compute. reflexivity. Qed.
Example c13_nonvacuous_unknown :
  let R := fst (dec_provision (dec_new 1 4) {| bid := 7; bdata := [0;0;0;0;0] |}) in
  (do r <- encap_ext (fun _ _ _ _ => 0) enc_new [9;8;7] 1 0x81 (L3 [1;2;3]) (zeros 40) ex_exts;
   let '(_, b, _) := r in decap (fun _ _ _ _ => 0) mgr_simple R (takeN 20 b ++ [0xAA]))
  = Ret ({| dmem := dmem R; dlast := None |}, inr (DUnkownMandatoryHeader, 20)).
Proof. vm_compute. reflexivity. Qed.

Print Assumptions c13_encap_ext_total.
Print Assumptions c13_complete_roundtrip.
Print Assumptions c13_fragmented_roundtrip.
Print Assumptions c13_encodable.
Print Assumptions c13_decodable.
Print Assumptions c13_unknown_whole_packet.
Print Assumptions c13_unknown_mandatory.
Print Assumptions c13_new.
