(* C20: the utils packet structs generate exactly the packets of the codec and parse them back. No model code. *)
Require Import GSE.gen.Consts GSE.model.Base GSE.model.Types GSE.model.Header GSE.model.Ext GSE.model.Encap GSE.model.Utils
  GSE.proofs.Tactics GSE.proofs.BaseLemmas GSE.proofs.HeaderLemmas GSE.proofs.EncapSpec
  GSE.proofs.DecapBase GSE.proofs.DecapSpec GSE.proofs.RoundTrip.
Open Scope N_scope.

(* ---------- generate ---------- *)
Lemma gen_complete_spec d buf : label_wf (uc_label d) ->
  uc_gse_len d = lenN (uc_pdu d) + lenN (label_bytes (uc_label d)) + 2 -> uc_gse_len d < 4096 ->
  4 + lenN (label_bytes (uc_label d)) + lenN (uc_pdu d) <= lenN buf ->
  gen_complete d buf = Ret (pkt_complete (uc_label d) (uc_ptype d) (uc_pdu d)
                            ++ dropN (4 + lenN (label_bytes (uc_label d)) + lenN (uc_pdu d)) buf).
Proof.
  intros Hw Hg Hlt Hb. unfold gen_complete. pose proof (label_len_bytes _ Hw) as Hll. rewrite <- Hll. consts.
  rewrite gen_hdr_arith by assumption. rewrite Hg.
  rewrite write_first by (rewrite lenN_be16; lia). cbn [bind].
  rewrite write_next by (autorewrite with lens; lia). cbn [bind].
  rewrite write_next by (autorewrite with lens; lia). cbn [bind].
  rewrite write_next by (autorewrite with lens; lia).
  unfold pkt_complete. autorewrite with lens. cbn [app]. rewrite <- !app_assoc.
  replace (0 + 2 + 2 + lenN (label_bytes (uc_label d)) + lenN (uc_pdu d)) with (4 + lenN (label_bytes (uc_label d)) + lenN (uc_pdu d)) by lia.
  reflexivity.
Qed.

Lemma gen_first_spec d buf : label_wf (uf_label d) ->
  uf_gse_len d = 5 + lenN (label_bytes (uf_label d)) + lenN (uf_pdu d) -> uf_gse_len d < 4096 ->
  7 + lenN (label_bytes (uf_label d)) + lenN (uf_pdu d) <= lenN buf ->
  gen_first d buf = Ret (pkt_first (uf_label d) (uf_fid d) (uf_total d) (uf_ptype d) (uf_pdu d)
                         ++ dropN (7 + lenN (label_bytes (uf_label d)) + lenN (uf_pdu d)) buf).
Proof.
  intros Hw Hg Hlt Hb. unfold gen_first. pose proof (label_len_bytes _ Hw) as Hll. rewrite <- Hll. consts.
  rewrite gen_hdr_arith by assumption. rewrite Hg.
  rewrite write_first by (rewrite lenN_be16; lia). cbn [bind].
  rewrite write_next by (autorewrite with lens; lia). cbn [bind].
  rewrite write_next by (autorewrite with lens; lia). cbn [bind].
  rewrite write_next by (autorewrite with lens; lia). cbn [bind].
  rewrite write_next by (autorewrite with lens; lia). cbn [bind].
  rewrite write_next by (autorewrite with lens; lia).
  unfold pkt_first. autorewrite with lens. cbn [app]. rewrite <- !app_assoc. cbn [app].
  replace (0 + 2 + 1 + 2 + 2 + lenN (label_bytes (uf_label d)) + lenN (uf_pdu d)) with (7 + lenN (label_bytes (uf_label d)) + lenN (uf_pdu d)) by lia.
  rewrite <- ?app_assoc. reflexivity.
Qed.

Lemma gen_inter_spec d buf : ui_gse_len d = 1 + lenN (ui_pdu d) -> ui_gse_len d < 4096 -> 3 + lenN (ui_pdu d) <= lenN buf ->
  gen_inter d buf = Ret (pkt_inter (ui_fid d) (ui_pdu d) ++ dropN (3 + lenN (ui_pdu d)) buf).
Proof.
  intros Hg Hlt Hb. unfold gen_inter. consts. rewrite gen_hdr_arith by assumption. rewrite Hg.
  rewrite write_first by (rewrite lenN_be16; lia). cbn [bind].
  rewrite write_next by (autorewrite with lens; lia). cbn [bind].
  rewrite write_next by (autorewrite with lens; lia).
  unfold pkt_inter. autorewrite with lens. cbn [app]. rewrite <- !app_assoc. cbn [app].
  replace (0 + 2 + 1 + lenN (ui_pdu d)) with (3 + lenN (ui_pdu d)) by lia. rewrite <- ?app_assoc. reflexivity.
Qed.

Lemma gen_end_spec d buf : ue_gse_len d = 5 + lenN (ue_pdu d) -> ue_gse_len d < 4096 -> 7 + lenN (ue_pdu d) <= lenN buf ->
  gen_end d buf = Ret (pkt_end (ue_fid d) (ue_pdu d) (ue_crc d) ++ dropN (7 + lenN (ue_pdu d)) buf).
Proof.
  intros Hg Hlt Hb. unfold gen_end. consts. rewrite gen_hdr_arith by assumption. rewrite Hg.
  rewrite write_first by (rewrite lenN_be16; lia). cbn [bind].
  rewrite write_next by (autorewrite with lens; lia). cbn [bind].
  rewrite write_next by (autorewrite with lens; lia). cbn [bind].
  replace (2 + 1 + lenN (ue_pdu d)) with (0 + 2 + 1 + lenN (ue_pdu d)) by lia.
  rewrite write_next by (autorewrite with lens; lia).
  unfold pkt_end. autorewrite with lens. cbn [app]. rewrite <- !app_assoc. cbn [app].
  replace (0 + 2 + (1 + 0) + lenN (ue_pdu d) + 4) with (7 + lenN (ue_pdu d)) by lia. rewrite <- ?app_assoc. reflexivity.
Qed.

(* ---------- parse ---------- *)
Lemma read_hdr_unwrap_ok k t gl rest : gl < 4096 -> ~ (k = KInter /\ t = T6) ->
  read_hdr_unwrap (be16 (hdr_arith k t gl) ++ rest) = Ret (gl, k, t).
Proof.
  intros Hg Hn. unfold read_hdr_unwrap. consts.
  rewrite slice_prefix by (rewrite lenN_app, lenN_be16; lia). cbn [bind]. rewrite take2_be16.
  rewrite rd16_be16 by (now apply hdr_arith_lt). rewrite read_hdr_view by (now apply hdr_arith_lt). cbn [bind].
  now rewrite hdr_view_arith.
Qed.


Lemma idx0_singleton (x : N) : idx [x] 0 = Ret x. Proof. reflexivity. Qed.

Lemma parse_complete_spec l pt pdu rest : label_wf l -> pt < 65536 -> lenN pdu + lenN (label_bytes l) + 2 < 4096 ->
  parse_complete (pkt_complete l pt pdu ++ rest) =
  Ret (Some {| uc_gse_len := lenN pdu + lenN (label_bytes l) + 2; uc_ptype := pt; uc_label := l; uc_pdu := pdu |}).
Proof.
  intros Hw Hpt Hg. unfold parse_complete, pkt_complete. rewrite <- !app_assoc.
  rewrite read_hdr_unwrap_ok by (auto; intros [? _]; discriminate). cbn [bind kind_eqb negb]. consts.
  pose proof (lt_len_label l Hw) as Hll. pose proof (lt_len_le (label_type l)) as Hl6. rewrite ltype_len_lt, Hll.
  set (hdr := be16 (hdr_arith KComplete (label_type l) (lenN pdu + lenN (label_bytes l) + 2))).
  assert (Lh : lenN hdr = 2) by reflexivity.
  rewrite (slice_mid hdr (be16 pt) (label_bytes l ++ pdu ++ rest)) by (rewrite ?lenN_be16; lia). cbn [bind].
  replace (hdr ++ be16 pt ++ label_bytes l ++ pdu ++ rest) with ((hdr ++ be16 pt) ++ label_bytes l ++ pdu ++ rest) by (now rewrite <- !app_assoc).
  rewrite slice_mid by (rewrite ?lenN_app, ?lenN_be16; lia). cbn [bind].
  rewrite label_new_ok by (now rewrite Hll). cbn [bind]. rewrite mk_label_bytes.
  rewrite <- (label_len_bytes l Hw).
  replace ((hdr ++ be16 pt) ++ label_bytes l ++ pdu ++ rest) with ((hdr ++ be16 pt ++ label_bytes l) ++ pdu ++ rest) by (now rewrite <- !app_assoc).
  rewrite slice_mid by (rewrite ?lenN_app, ?lenN_be16; lia). cbn [bind].
  unfold to_u16. destruct (N.ltb_spec (lenN pdu + lenN (label_bytes l) + 2) 65536); [|lia]. cbn [bind].
  rewrite rd16_be16 by assumption. reflexivity.
Qed.

Lemma parse_first_spec l fid tl pt pdu rest : label_wf l -> fid < 256 -> tl < 65536 -> pt < 65536 ->
  5 + lenN (label_bytes l) + lenN pdu < 4096 ->
  parse_first (pkt_first l fid tl pt pdu ++ rest) =
  Ret (Some {| uf_gse_len := 5 + lenN (label_bytes l) + lenN pdu; uf_fid := fid; uf_total := tl; uf_ptype := pt;
               uf_label := l; uf_pdu := pdu |}).
Proof.
  intros Hw Hfid Htl Hpt Hg. unfold parse_first, pkt_first. rewrite <- !app_assoc.
  rewrite read_hdr_unwrap_ok by (auto; intros [? _]; discriminate). cbn [bind kind_eqb negb]. consts.
  pose proof (lt_len_label l Hw) as Hll. pose proof (lt_len_le (label_type l)) as Hl6. rewrite ltype_len_lt, Hll.
  set (hdr := be16 (hdr_arith KFirst (label_type l) (5 + lenN (label_bytes l) + lenN pdu))).
  assert (Lh : lenN hdr = 2) by reflexivity.
  rewrite (slice_mid hdr [fid] (be16 tl ++ be16 pt ++ label_bytes l ++ pdu ++ rest)) by (rewrite ?lenN_be16; cbn; lia). cbn [bind].
  rewrite idx0_singleton. cbn [bind].
  replace (hdr ++ [fid] ++ be16 tl ++ be16 pt ++ label_bytes l ++ pdu ++ rest) with ((hdr ++ [fid]) ++ be16 tl ++ be16 pt ++ label_bytes l ++ pdu ++ rest) by (now rewrite <- !app_assoc).
  rewrite slice_mid by (rewrite ?lenN_app, ?lenN_be16; cbn; lia). cbn [bind].
  replace ((hdr ++ [fid]) ++ be16 tl ++ be16 pt ++ label_bytes l ++ pdu ++ rest) with ((hdr ++ [fid] ++ be16 tl) ++ be16 pt ++ label_bytes l ++ pdu ++ rest) by (now rewrite <- !app_assoc).
  rewrite slice_mid by (rewrite ?lenN_app, ?lenN_be16; cbn; lia). cbn [bind].
  replace ((hdr ++ [fid] ++ be16 tl) ++ be16 pt ++ label_bytes l ++ pdu ++ rest) with ((hdr ++ [fid] ++ be16 tl ++ be16 pt) ++ label_bytes l ++ pdu ++ rest) by (now rewrite <- !app_assoc).
  rewrite slice_mid by (rewrite ?lenN_app, ?lenN_be16; cbn; lia). cbn [bind].
  rewrite label_new_ok by (now rewrite Hll). cbn [bind]. rewrite mk_label_bytes.
  rewrite <- (label_len_bytes l Hw).
  replace ((hdr ++ [fid] ++ be16 tl ++ be16 pt) ++ label_bytes l ++ pdu ++ rest) with ((hdr ++ [fid] ++ be16 tl ++ be16 pt ++ label_bytes l) ++ pdu ++ rest) by (now rewrite <- !app_assoc).
  rewrite slice_mid by (rewrite ?lenN_app, ?lenN_be16; cbn; lia). cbn [bind].
  unfold to_u16. destruct (N.ltb_spec (5 + lenN (label_bytes l) + lenN pdu) 65536); [|lia]. cbn [bind].
  rewrite !rd16_be16 by assumption. reflexivity.
Qed.

Lemma parse_inter_spec fid pdu rest : fid < 256 -> 1 + lenN pdu < 4096 ->
  parse_inter (pkt_inter fid pdu ++ rest) = Ret (Some {| ui_gse_len := 1 + lenN pdu; ui_fid := fid; ui_pdu := pdu |}).
Proof.
  intros Hfid Hg. unfold parse_inter, pkt_inter. rewrite <- !app_assoc.
  rewrite read_hdr_unwrap_ok by (auto; intros [_ ?]; discriminate). cbn [bind kind_eqb negb]. consts.
  set (hdr := be16 (hdr_arith KInter TR (1 + lenN pdu))).
  assert (Lh : lenN hdr = 2) by reflexivity.
  rewrite (slice_mid hdr [fid] (pdu ++ rest)) by (cbn; lia). cbn [bind]. rewrite idx0_singleton. cbn [bind].
  replace (hdr ++ [fid] ++ pdu ++ rest) with ((hdr ++ [fid]) ++ pdu ++ rest) by (now rewrite <- !app_assoc).
  rewrite slice_mid by (rewrite ?lenN_app; cbn; lia). cbn [bind].
  unfold to_u16. destruct (N.ltb_spec (1 + lenN pdu) 65536); [|lia]. reflexivity.
Qed.

Lemma parse_end_spec fid pdu c rest : fid < 256 -> c < 4294967296 -> 5 + lenN pdu < 4096 ->
  parse_end (pkt_end fid pdu c ++ rest) = Ret (Some {| ue_gse_len := 5 + lenN pdu; ue_fid := fid; ue_pdu := pdu; ue_crc := c |}).
Proof.
  intros Hfid Hc Hg. unfold parse_end, pkt_end. rewrite <- !app_assoc.
  rewrite read_hdr_unwrap_ok by (auto; intros [? _]; discriminate). cbn [bind kind_eqb negb]. consts.
  set (hdr := be16 (hdr_arith KEnd TR (5 + lenN pdu))).
  assert (Lh : lenN hdr = 2) by reflexivity.
  rewrite (slice_mid hdr [fid] (pdu ++ be32 c ++ rest)) by (cbn; lia). cbn [bind]. rewrite idx0_singleton. cbn [bind].
  rewrite subN_ok by lia. cbn [bind].
  replace (hdr ++ [fid] ++ pdu ++ be32 c ++ rest) with ((hdr ++ [fid]) ++ pdu ++ be32 c ++ rest) by (now rewrite <- !app_assoc).
  rewrite slice_mid by (rewrite ?lenN_app; cbn; lia). cbn [bind].
  replace ((hdr ++ [fid]) ++ pdu ++ be32 c ++ rest) with ((hdr ++ [fid] ++ pdu) ++ be32 c ++ rest) by (now rewrite <- !app_assoc).
  rewrite slice_mid by (rewrite ?lenN_app, ?lenN_be32; cbn; lia). cbn [bind].
  unfold to_u16. destruct (N.ltb_spec (5 + lenN pdu) 65536); [|lia]. cbn [bind].
  rewrite rd32_be32 by assumption. reflexivity.
Qed.
