// Witness replays for the findings F1..F16 of DESIGN.md section 7.
// Each witness returns Ok(()) when the property holds on that input and Err(what) when the
// defect manifests. A panic inside the library is caught and reported as Err("PANIC").
// Usage: findings            -> run all, one line per witness: "<id> <props> ok|FAIL <what>"
//        findings <id>       -> run one
use dvb_gse_rust::crc::DefaultCrc;
use dvb_gse_rust::gse_decap::{
    DecapError, DecapMemoryError, DecapStatus, Decapsulator, GseDecapMemory, SimpleGseMemory,
};
use dvb_gse_rust::gse_encap::{
    encap_frag_preview, encap_preview, ContextFrag, EncapError, EncapMetadata, EncapStatus,
    Encapsulator,
};
use dvb_gse_rust::header_extension::{
    Extension, SignalisationMandatoryExtensionHeaderManager, SimpleMandatoryExtensionHeaderManager,
};
use dvb_gse_rust::label::Label;
use std::panic::{catch_unwind, AssertUnwindSafe};

type R = Result<(), String>;
type Dec = Decapsulator<SimpleGseMemory, DefaultCrc, SimpleMandatoryExtensionHeaderManager>;

fn dec(slots: usize, max_pdu: usize, bufs: usize, size: usize) -> Dec {
    let mut m = SimpleGseMemory::new(slots, max_pdu, 0, 0);
    for _ in 0..bufs {
        m.provision_storage(vec![0u8; size].into_boxed_slice()).unwrap();
    }
    Decapsulator::new(m, DefaultCrc {}, SimpleMandatoryExtensionHeaderManager {})
}
fn free_count(d: &mut Dec) -> usize {
    let mut n = 0;
    while d.new_pdu().is_ok() {
        n += 1;
    }
    n
}
const A: Label = Label::SixBytesLabel([1, 2, 3, 4, 5, 6]);
const B: Label = Label::SixBytesLabel([9, 9, 9, 9, 9, 9]);

fn f1() -> R {
    let mut e = Encapsulator::new(DefaultCrc {});
    let pdu = [7u8; 10];
    let mut big = [0u8; 100];
    e.encap(&pdu, 0, EncapMetadata::new(0x800, A), &mut big).map_err(|x| format!("{:?}", x))?;
    let snap = e.clone();
    let mut small = [0u8; 3];
    let r = e.encap(&pdu, 0, EncapMetadata::new(0x800, B), &mut small);
    if r.is_ok() {
        return Err("3-byte buffer accepted".into());
    }
    if e != snap {
        return Err(format!("failed encap changed the encapsulator: {:?} -> {:?}", snap, e));
    }
    e.encap(&pdu, 0, EncapMetadata::new(0x800, B), &mut big).map_err(|x| format!("{:?}", x))?;
    if big[0] & 0x30 == 0x30 {
        return Err("label B emitted as re-use after a failed call (receiver resolves it to A)".into());
    }
    Ok(())
}
fn f2a() -> R {
    let mut e = Encapsulator::new(DefaultCrc {});
    let pdu = vec![1u8; 5000];
    let mut buf = vec![0u8; 70000];
    match e.encap(&pdu, 1, EncapMetadata::new(0x800, Label::Broadcast), &mut buf) {
        Ok(EncapStatus::FragmentedPkt(n, c)) => {
            let gl = (((buf[0] as usize) & 0xF) << 8) | buf[1] as usize;
            if gl + 2 != n as usize || c.len_pdu_frag() as usize != gl - 5 {
                return Err(format!("len {} gse_len {} ctx {}", n, gl, c.len_pdu_frag()));
            }
            Ok(())
        }
        x => Err(format!("{:?}", x)),
    }
}
fn f2b() -> R {
    let mut e = Encapsulator::new(DefaultCrc {});
    let pdu = vec![1u8; 5000];
    let mut buf = vec![0u8; 4500];
    match e.encap(&pdu, 1, EncapMetadata::new(0x800, A), &mut buf) {
        Ok(EncapStatus::FragmentedPkt(n, c)) => {
            let gl = (((buf[0] as usize) & 0xF) << 8) | buf[1] as usize;
            if gl + 2 != n as usize || n as usize > 4097 {
                return Err(format!("returned {} but GSE length field {} (header {:02x}{:02x}) ctx {}", n, gl, buf[0], buf[1], c.len_pdu_frag()));
            }
            Ok(())
        }
        x => Err(format!("{:?}", x)),
    }
}
fn f2p() -> R {
    // preview mirrors encap on the same input
    let pdu = vec![1u8; 5000];
    let buf = vec![0u8; 4500];
    let p = encap_preview(&pdu, EncapMetadata::new(0x800, A), &buf).map_err(|x| format!("{:?}", x))?;
    if p.pkt_len() as usize > 4097 {
        return Err(format!("preview announces a {}-byte packet", p.pkt_len()));
    }
    Ok(())
}
fn f2x() -> R {
    // label + extensions alone exceed the 12-bit GSE length
    let mut e = Encapsulator::new(DefaultCrc {});
    let pdu = vec![1u8; 10];
    let mut buf = vec![0u8; 70000];
    let ext = Extension::new(0x0005, &vec![3u8; 5000]).map_err(|x| format!("{:?}", x))?;
    let before = buf.clone();
    match e.encap_ext(&pdu, 1, EncapMetadata::new(0x800, A), &mut buf, vec![ext]) {
        Err(_) => {
            if buf != before {
                return Err("buffer modified by a failed call".into());
            }
            Ok(())
        }
        Ok(s) => Err(format!("{:?} for a header that cannot fit in 4095 bytes (field {:02x}{:02x})", s, buf[0], buf[1])),
    }
}
fn f3a() -> R {
    let e = Encapsulator::new(DefaultCrc {});
    let pdu = vec![1u8; 5000];
    let mut buf = vec![0u8; 70000];
    match e.encap_frag(&pdu, &ContextFrag::new(1, 0xAABBCCDD, 0), &mut buf) {
        Ok(EncapStatus::CompletedPkt(n)) | Ok(EncapStatus::FragmentedPkt(n, _)) => {
            let gl = (((buf[0] as usize) & 0xF) << 8) | buf[1] as usize;
            if gl + 2 != n as usize {
                return Err(format!("returned {} but GSE length field {} (header {:02x}{:02x})", n, gl, buf[0], buf[1]));
            }
            Ok(())
        }
        x => Err(format!("{:?}", x)),
    }
}
fn f3b() -> R {
    let e = Encapsulator::new(DefaultCrc {});
    let pdu = vec![1u8; 5000];
    let mut buf = vec![0u8; 4500];
    match e.encap_frag(&pdu, &ContextFrag::new(1, 0xAABBCCDD, 0), &mut buf) {
        Ok(EncapStatus::CompletedPkt(n)) | Ok(EncapStatus::FragmentedPkt(n, _)) => {
            let gl = (((buf[0] as usize) & 0xF) << 8) | buf[1] as usize;
            if gl + 2 != n as usize {
                return Err(format!("returned {} but GSE length field {} (header {:02x}{:02x})", n, gl, buf[0], buf[1]));
            }
            Ok(())
        }
        x => Err(format!("{:?}", x)),
    }
}
fn f3c() -> R {
    let e = Encapsulator::new(DefaultCrc {});
    let pdu = vec![1u8; 20];
    let mut buf = vec![0u8; 5];
    match e.encap_frag(&pdu, &ContextFrag::new(1, 0xAABBCCDD, 20), &mut buf) {
        Err(EncapError::ErrorSizeBuffer) => Ok(()),
        x => Err(format!("{:?} bytes {:02x?} (empty fragment)", x, &buf[..3])),
    }
}
fn f3p() -> R {
    let pdu = vec![1u8; 20];
    let buf = vec![0u8; 5];
    match encap_frag_preview(&pdu, &ContextFrag::new(1, 0xAABBCCDD, 20), &buf) {
        Err(EncapError::ErrorSizeBuffer) => Ok(()),
        x => Err(format!("{:?}", x)),
    }
}
fn f4() -> R {
    let mut e = Encapsulator::new(DefaultCrc {});
    let pdu = vec![5u8; 100];
    let mut buf = vec![0u8; 40];
    let ext = Extension::new(0x0200, &[1, 2]).map_err(|x| format!("{:?}", x))?;
    match e.encap_ext(&pdu, 1, EncapMetadata::new(0x800, A), &mut buf, vec![ext]) {
        Ok(EncapStatus::FragmentedPkt(n, _)) => {
            let gl = (((buf[0] as usize) & 0xF) << 8) | buf[1] as usize;
            if gl + 2 != n as usize {
                return Err(format!("returned {} but {} bytes on the wire", n, gl + 2));
            }
            if n != 40 {
                return Err(format!("only {} of 40 buffer bytes used", n));
            }
            Ok(())
        }
        x => Err(format!("{:?}", x)),
    }
}
fn f5() -> R {
    for pkt in [
        vec![0xC0u8, 0x00],
        vec![0x80, 0x00],
        vec![0x10, 0x00],
        vec![0x50, 0x00],
        vec![0xE0, 0x00],
        vec![0xC0, 0x02, 0x08, 0x00],
    ] {
        let mut d = dec(2, 16, 2, 16);
        let r = catch_unwind(AssertUnwindSafe(|| d.decap(&pkt)));
        match r {
            Err(_) => return Err(format!("PANIC on {:02x?}", pkt)),
            Ok(Ok((s, _))) => return Err(format!("{:02x?} accepted: {:?}", pkt, s)),
            Ok(Err((_, n))) => {
                if n > pkt.len() || n < 2 {
                    return Err(format!("{:02x?} consumed {}", pkt, n));
                }
            }
        }
    }
    Ok(())
}
fn f6a() -> R {
    let mut pkt = vec![0xE0u8, 0x02, 0x05, 0x00];
    pkt.extend_from_slice(&[0u8; 8]);
    pkt.extend_from_slice(&[0x08, 0x00, 0x09]);
    let mut d = dec(2, 16, 2, 16);
    match catch_unwind(AssertUnwindSafe(|| d.decap(&pkt))) {
        Err(_) => Err(format!("PANIC on {:02x?}", pkt)),
        Ok(Ok((s, _))) => Err(format!("accepted {:?}", s)),
        Ok(Err(_)) => Ok(()),
    }
}
fn f6b() -> R {
    // signalling packets with a 0- or 1-byte PDU: outcome must not depend on the tail
    for pkt in [vec![0xE0u8, 0x02, 0x00, 0x82], vec![0xE0, 0x03, 0x00, 0x82, 0x07]] {
        let mk = || {
            let mut m = SimpleGseMemory::new(2, 16, 0, 0);
            m.provision_storage(vec![0u8; 16].into_boxed_slice()).unwrap();
            Decapsulator::new(m, DefaultCrc {}, SignalisationMandatoryExtensionHeaderManager {})
        };
        let mut d1 = mk();
        let mut d2 = mk();
        let mut long = pkt.clone();
        long.extend_from_slice(&[0, 0]);
        let r1 = catch_unwind(AssertUnwindSafe(|| d1.decap(&pkt))).map_err(|_| "PANIC".to_string())?;
        let r2 = catch_unwind(AssertUnwindSafe(|| d2.decap(&long))).map_err(|_| "PANIC".to_string())?;
        let k = |r: &Result<(DecapStatus, usize), (DecapError, usize)>| match r {
            Ok((DecapStatus::CompletedPkt(_, m), n)) => format!("completed {} {}", m.pdu_len(), n),
            Ok((s, n)) => format!("{} {}", s.to_str(), n),
            Err((e, _)) => format!("err {:?}", e),
        };
        if k(&r1) != k(&r2) || !k(&r1).starts_with("completed") {
            return Err(format!("{:02x?}: alone -> {}; followed by 2 bytes -> {}", pkt, k(&r1), k(&r2)));
        }
    }
    Ok(())
}
fn f7() -> R {
    let mut d = dec(2, 16, 2, 16);
    let r = d.decap(&[0xF0, 0x03, 0x08, 0x00, 0x2A]);
    if !matches!(r, Err((DecapError::ErrorNoLabelSaved, 5))) {
        return Err(format!("{:?}", r));
    }
    let n = free_count(&mut d);
    if n != 2 {
        return Err(format!("{} of 2 free buffers left after a rejected packet", n));
    }
    Ok(())
}
fn f8() -> R {
    // first fragment with a 10-byte payload, 4-byte storage
    let mut pkt = vec![0xA0u8, 15, 1, 0x00, 40, 0x08, 0x00];
    pkt.extend_from_slice(&[7u8; 10]);
    let mut d = dec(2, 4, 2, 4);
    match catch_unwind(AssertUnwindSafe(|| d.decap(&pkt))) {
        Err(_) => Err("PANIC".into()),
        Ok(Ok((s, _))) => Err(format!("accepted {:?}", s)),
        Ok(Err((DecapError::ErrorSizePduBuffer, 17))) => {
            let n = free_count(&mut d);
            if n != 2 {
                return Err(format!("{} of 2 buffers left", n));
            }
            Ok(())
        }
        Ok(Err(e)) => Err(format!("{:?}", e)),
    }
}
fn f9() -> R {
    // first fragment; caller provisions until StorageOverflow; end fragment with a wrong CRC
    let mut d = dec(1, 16, 1, 16);
    let mut first = vec![0xA0u8, 9, 1, 0x00, 12, 0x08, 0x00];
    first.extend_from_slice(&[7u8; 4]);
    d.decap(&first).map_err(|e| format!("{:?}", e))?;
    let mut handed = 0;
    loop {
        match d.provision_storage(vec![0u8; 16].into_boxed_slice()) {
            Ok(()) => handed += 1,
            Err(DecapMemoryError::StorageOverflow(_)) => break,
            Err(e) => return Err(format!("{:?}", e)),
        }
    }
    let end = vec![0x70u8, 11, 1, 1, 2, 3, 4, 5, 6, 0, 0, 0, 0];
    match catch_unwind(AssertUnwindSafe(|| d.decap(&end))) {
        Err(_) => Err("PANIC".into()),
        Ok(Ok((s, _))) => Err(format!("accepted {:?}", s)),
        Ok(Err((e, 13))) => {
            // the buffer must be somewhere: free list (handed+1) or inside the error
            let inside = matches!(&e, DecapError::ErrorMemory(DecapMemoryError::StorageOverflow(_)));
            let n = free_count(&mut d);
            if n + (inside as usize) != handed + 1 {
                return Err(format!("{:?}: {} free + {} in error, expected {}", e, n, inside as usize, handed + 1));
            }
            Ok(())
        }
        Ok(Err(e)) => Err(format!("{:?}", e)),
    }
}
fn f10() -> R {
    let mut d = dec(2, 16, 2, 16);
    let mut first = vec![0xA0u8, 9, 1, 0x00, 10, 0x08, 0x00];
    first.extend_from_slice(&[7u8; 4]);
    d.decap(&first).map_err(|e| format!("{:?}", e))?;
    let stray = vec![0x30u8, 3, 3, 1, 1];
    match d.decap(&stray) {
        Err((DecapError::ErrorMemory(DecapMemoryError::UndefinedId), 5)) => {}
        x => return Err(format!("stray: {:?}", x)),
    }
    let inter = vec![0x30u8, 3, 1, 8, 8];
    match d.decap(&inter) {
        Ok((DecapStatus::FragmentedPkt(_), 5)) => Ok(()),
        x => Err(format!("fragment of id 1 after a stray of id 3 (same slot): {:?}", x)),
    }
}
fn f11() -> R {
    match catch_unwind(|| Extension::new(0x600, &[])) {
        Err(_) => Err("PANIC".into()),
        Ok(Ok(e)) => Err(format!("accepted {:?}", e)),
        Ok(Err(_)) => Ok(()),
    }
}
fn f12() -> R {
    let pdu = [1u8; 10];
    let mut buf = [0u8; 64];
    let mut e = Encapsulator::new(DefaultCrc {});
    let a = e.encap(&pdu, 0, EncapMetadata::new(0x0081, A), &mut buf);
    let p = encap_preview(&pdu, EncapMetadata::new(0x0081, A), &buf);
    match (&a, &p) {
        (Ok(EncapStatus::CompletedPkt(n)), Ok(pv)) if pv.pkt_len() == *n => Ok(()),
        (Err(x), Err(y)) if x == y => Ok(()),
        _ => Err(format!("encap {:?} preview {:?}", a, p)),
    }
}
fn f12b() -> R {
    let pdu = [1u8; 4];
    let mut buf = [0u8; 64];
    let mut e = Encapsulator::new(DefaultCrc {});
    let ext = Extension::new(0x0200, &[1, 2]).map_err(|x| format!("{:?}", x))?;
    match e.encap_ext(&pdu, 0, EncapMetadata::new(0x0081, A), &mut buf, vec![ext]) {
        Err(_) => Ok(()),
        Ok(s) => Err(format!("{:?} with no protocol type on the wire: {:02x?}", s, &buf[..16])),
    }
}
fn f13a() -> R {
    // fill a 65536-byte storage exactly
    let mut d = dec(1, 65536, 1, 65536);
    let mut first = vec![0xA0u8, 5, 1, 0xFF, 0xFF, 0x08, 0x00];
    first[0] = 0xA0;
    d.decap(&first).map_err(|e| format!("first {:?}", e))?;
    let mut inter = vec![0x3Fu8, 0xFF, 1];
    inter.extend_from_slice(&vec![0u8; 4094]);
    let mut total = 0usize;
    for i in 0..17 {
        let pkt = if i < 16 {
            inter.clone()
        } else {
            let mut p = vec![0x30u8, 33, 1];
            p.extend_from_slice(&[0u8; 32]);
            p
        };
        let k = pkt.len() - 3;
        let r = catch_unwind(AssertUnwindSafe(|| d.decap(&pkt)));
        match r {
            Err(_) => return Err(format!("PANIC at {} + {} bytes", total, k)),
            Ok(Ok(_)) => total += k,
            Ok(Err(_)) => return Ok(()),
        }
        if total > 65535 {
            return Err(format!("{} bytes accepted for a 16-bit total length", total));
        }
    }
    Ok(())
}
fn f13b() -> R {
    // total length 2 announced with a 6-byte label; 65530 bytes delivered if the check wraps
    use dvb_gse_rust::crc::CrcCalculator;
    let mut d = dec(1, 70000, 1, 70000);
    let lab = [1u8, 2, 3, 4, 5, 6];
    let mut first = vec![0x80u8, 11, 1, 0x00, 0x02, 0x08, 0x00];
    first.extend_from_slice(&lab);
    d.decap(&first).map_err(|e| format!("first {:?}", e))?;
    let mut pdu: Vec<u8> = Vec::new();
    let mut left = 65530usize;
    while left > 0 {
        let k = left.min(4094);
        let gl = k + 1;
        let mut inter = vec![0x30u8 | (gl >> 8) as u8, (gl & 0xFF) as u8, 1];
        inter.extend_from_slice(&vec![0xAB; k]);
        pdu.extend_from_slice(&vec![0xAB; k]);
        match catch_unwind(AssertUnwindSafe(|| d.decap(&inter))) {
            Err(_) => return Err("PANIC".into()),
            Ok(Err(_)) => return Ok(()),
            Ok(Ok(_)) => {}
        }
        left -= k;
    }
    let crc = DefaultCrc {}.calculate_crc32(&pdu, 0x0800, 2, &lab);
    let mut end = vec![0x70u8, 5, 1];
    end.extend_from_slice(&crc.to_be_bytes());
    match catch_unwind(AssertUnwindSafe(|| d.decap(&end))) {
        Err(_) => Err("PANIC".into()),
        Ok(Ok((DecapStatus::CompletedPkt(_, m), _))) => Err(format!("{}-byte PDU delivered, total length announced 2", m.pdu_len())),
        Ok(_) => Ok(()),
    }
}
fn f14() -> R {
    let mut e = Encapsulator::new(DefaultCrc {});
    let pdu = [1u8; 4];
    let mut buf = [0u8; 64];
    let mut d = dec(1, 16, 3, 16);
    let mut send = |e: &mut Encapsulator<DefaultCrc>, l: Label| -> Result<Label, String> {
        let n = match e.encap(&pdu, 0, EncapMetadata::new(0x800, l), &mut buf) {
            Ok(EncapStatus::CompletedPkt(n)) => n as usize,
            x => return Err(format!("{:?}", x)),
        };
        match d.decap(&buf[..n]) {
            Ok((DecapStatus::CompletedPkt(_, m), _)) => Ok(m.label()),
            x => Err(format!("decap {:?}", x)),
        }
    };
    let l1 = send(&mut e, A)?;
    e.disable_re_use_label();
    let l2 = send(&mut e, B)?;
    e.enable_re_use_label();
    let l3 = send(&mut e, A)?;
    if (l1, l2, l3) != (A, B, A) {
        return Err(format!("delivered labels {:?} {:?} {:?}", l1, l2, l3));
    }
    Ok(())
}
fn f15() -> R {
    // first fragment: 8-byte optional extension, 96-byte payload, 100-byte storage
    let mut pkt = vec![0xA0u8, 0, 1, 0x01, 0x00, 0x05, 0x00];
    pkt.extend_from_slice(&[1, 2, 3, 4, 5, 6, 7, 8]);
    pkt.extend_from_slice(&[0x08, 0x00]);
    pkt.extend_from_slice(&[9u8; 96]);
    let gl = pkt.len() - 2;
    pkt[0] |= (gl >> 8) as u8;
    pkt[1] = (gl & 0xFF) as u8;
    let mut d = dec(1, 100, 1, 100);
    match catch_unwind(AssertUnwindSafe(|| d.decap(&pkt))) {
        Err(_) => Err("PANIC".into()),
        Ok(Ok((DecapStatus::FragmentedPkt(_), _))) => Ok(()),
        Ok(x) => Err(format!("96-byte payload, 100-byte storage: {:?}", x)),
    }
}
fn f16() -> R {
    let m = SimpleGseMemory::new(0, 16, 0, 0);
    let mut d = Decapsulator::new(m, DefaultCrc {}, SimpleMandatoryExtensionHeaderManager {});
    let _ = d.provision_storage(vec![0u8; 16].into_boxed_slice());
    let mut first = vec![0xA0u8, 9, 1, 0x00, 10, 0x08, 0x00];
    first.extend_from_slice(&[7u8; 4]);
    for pkt in [first, vec![0x30u8, 3, 1, 8, 8], vec![0x70, 6, 1, 9, 0, 0, 0, 0]] {
        match catch_unwind(AssertUnwindSafe(|| d.decap(&pkt))) {
            Err(_) => return Err(format!("PANIC on {:02x?} with a zero-slot memory", &pkt[..3])),
            Ok(_) => {}
        }
    }
    Ok(())
}

fn main() {
    std::panic::set_hook(Box::new(|_| {}));
    let all: Vec<(&str, &str, fn() -> R)> = vec![
        ("F1", "C04,C09,C15", f1),
        ("F2a", "C02,C06,C09,C11", f2a),
        ("F2b", "C02,C06,C11", f2b),
        ("F2p", "C18", f2p),
        ("F2x", "C06,C09", f2x),
        ("F3a", "C02,C06,C11", f3a),
        ("F3b", "C02,C06,C11", f3b),
        ("F3c", "C02,C11", f3c),
        ("F3p", "C18", f3p),
        ("F4", "C06,C10,C13", f4),
        ("F5", "C05,C16", f5),
        ("F6a", "C05,C10,C13", f6a),
        ("F6b", "C10,C13", f6b),
        ("F7", "C08,C16", f7),
        ("F8", "C05", f8),
        ("F9", "C05,C08", f9),
        ("F10", "C03,C07,C08,C17", f10),
        ("F11", "C13", f11),
        ("F12", "C18", f12),
        ("F12b", "C13", f12b),
        ("F13a", "C05", f13a),
        ("F13b", "C03", f13b),
        ("F14", "C04,C15", f14),
        ("F15", "C13", f15),
        ("F16", "C05", f16),
    ];
    let only = std::env::args().nth(1);
    let mut bad = 0;
    for (id, props, f) in all {
        if let Some(o) = &only {
            if o != id {
                continue;
            }
        }
        let r = match catch_unwind(f) {
            Ok(r) => r,
            Err(_) => Err("PANIC".to_string()),
        };
        match r {
            Ok(()) => println!("{} {} ok", id, props),
            Err(w) => {
                bad += 1;
                println!("{} {} FAIL {}", id, props, w)
            }
        }
    }
    std::process::exit(if bad > 0 { 1 } else { 0 });
}
