(* Closed form of the receiver: decap (statement-by-statement model) equals a panic-free function of the
   packet bytes, the receiver state and the buffer length. All receiver-side properties are proved from it. *)
Require Import GSE.gen.Consts GSE.gen.HLenTable GSE.model.Base GSE.model.Types GSE.model.Header GSE.model.Ext
  GSE.model.Memory GSE.model.Decap
  GSE.proofs.Tactics GSE.proofs.BaseLemmas GSE.proofs.HeaderLemmas GSE.proofs.EncapSpec GSE.proofs.MemoryLemmas
  GSE.proofs.DecapBase.
Open Scope N_scope.

(* ---------- well-formed receiver states ---------- *)
Definition buf_ok (m : mem) (b : sbuf) : Prop := max_pdu_size m <= lenN (bdata b).
Definition ctx_ok (cb : mctx) : Prop :=
  c_pdulen (fst cb) <= lenN (bdata (snd cb)) /\ c_pdulen (fst cb) < 65536 /\ c_total (fst cb) < 65536.
Definition dstate_wf (s : dstate) : Prop :=
  mem_wf (dmem s) /\ Forall (buf_ok (dmem s)) (storages (dmem s)) /\
  (forall i cb, nthN i (frags (dmem s)) = Some (Some cb) ->
     ctx_ok cb /\ buf_ok (dmem s) (snd cb) /\ c_fid (fst cb) mod max_frag_id (dmem s) = i).

Definition hd0 (l : list byte) : byte := match l with x :: _ => x | [] => 0 end.
Definition mk_label (t : ltype) (b : list byte) : label :=
  match t with T6 => L6 b | T3 => L3 b | TB => LBroadcast | TR => LReUse end.
Definition lt_len (t : ltype) : N := match t with T6 => 6 | T3 => 3 | _ => 0 end.

Section HL.
Variable crc : list byte -> N -> N -> list byte -> N.
Variable mgr : N -> mand.

Definition hl_out := (dstate * dec_result)%type.
Definition err_last (s : dstate) (e : dec_error) (n : N) : hl_out := (set_dlast s None, inr (e, n)).

Definition resolve_hl (s : dstate) (t : ltype) (lab : label) : (dstate * label) + dec_error :=
  match t with
  | TR => match dlast s with
          | Some LBroadcast => inr DLabelBroadcastSaved
          | Some LReUse => inr DLabelReUseSaved
          | None => inr DNoLabelSaved
          | Some l => inl (s, l)
          end
  | TB => inl (set_dlast s None, LBroadcast)
  | _ => inl (set_dlast s (Some lab), lab)
  end.

Definition give_back_hl (s : dstate) (pb : sbuf) (e : dec_error) (n : N) : hl_out :=
  match provision (dmem s) pb with
  | (m, Some me) => (set_dmem s m, inr (DMemory me, n))
  | (m, None) => (set_dmem s m, inr (e, n))
  end.

(* pkt: exactly the packet (GSE length + 2 bytes); blen: length of the whole input buffer *)
Definition complete_hl (s : dstate) (pkt : list byte) (t : ltype) (blen : N) : hl_out :=
  let pkt_len := lenN pkt in
  let ll := lt_len t in
  if pkt_len - 2 <? ll + 2 then err_last s DGseLength blen else
  let ptype := rd16 (takeN 2 (dropN 2 pkt)) in
  let lab := mk_label t (takeN ll (dropN 4 pkt)) in
  if is_zero6 lab then err_last s DInvalidLabel pkt_len else
  match walk_fn mgr (dropN (4 + ll) pkt) ptype with
  | inr WBufferTooSmall => err_last s DSizePduBuffer blen
  | inr WUnknownMandatory => err_last s DUnkownMandatoryHeader pkt_len
  | inl w =>
    match resolve_hl s t lab with
    | inr e => err_last s e pkt_len
    | inl (s1, cur) =>
      match storages (dmem s1) with
      | [] => err_last s1 (DMemory MUnderflow) pkt_len
      | pb :: rest =>
        let payload := dropN (4 + ll + w_len w) pkt in
        if lenN (bdata pb) <? lenN payload then err_last s1 DSizePduBuffer pkt_len
        else (set_dmem s1 (set_storages (dmem s1) rest),
              inl (DCompleted {| bid := bid pb; bdata := payload ++ dropN (lenN payload) (bdata pb) |}
                     {| md_pdu_len := lenN payload; md_ptype := w_ptype w; md_label := cur; md_exts := w_exts w |},
                   pkt_len))
      end
    end
  end.

Definition first_hl (s : dstate) (pkt : list byte) (t : ltype) (blen : N) : hl_out :=
  let pkt_len := lenN pkt in
  let ll := lt_len t in
  if pkt_len - 2 <? ll + 5 then err_last s DGseLength blen else
  let fid := hd0 (dropN 2 pkt) in
  let total := rd16 (takeN 2 (dropN 3 pkt)) in
  let ptype := rd16 (takeN 2 (dropN 5 pkt)) in
  let lab := mk_label t (takeN ll (dropN 7 pkt)) in
  if is_zero6 lab then err_last s DInvalidLabel pkt_len else
  match resolve_hl s t lab with
  | inr e => err_last s e pkt_len
  | inl (s1, cur) =>
    match walk_fn mgr (dropN (7 + ll) pkt) ptype with
    | inr WBufferTooSmall => err_last s1 DSizePduBuffer blen
    | inr WUnknownMandatory => err_last s1 DUnkownMandatoryHeader pkt_len
    | inl w =>
      let payload := dropN (7 + ll + w_len w) pkt in
      let cpl := lenN payload in
      if total <=? cpl then err_last s1 DTotalLength blen else
      let c := {| c_label := cur; c_ptype := w_ptype w; c_fid := fid; c_total := total; c_pdulen := cpl;
                  c_reuse := ltype_eqb t TR; c_exts := w_exts w |} in
      match new_frag_fn (dmem s1) c with
      | (m, inr e) => err_last (set_dmem s1 m) (DMemory e) pkt_len
      | (m, inl (c', pb)) =>
        if lenN (bdata pb) <? cpl
        then give_back_hl (set_dlast (set_dmem s1 m) None) pb DSizePduBuffer pkt_len
        else
          match save_frag_fn m (c', {| bid := bid pb; bdata := payload ++ dropN cpl (bdata pb) |}) with
          | (m', None) =>
              (set_dmem s1 m',
               inl (DFragmented {| md_pdu_len := 0; md_ptype := c_ptype c'; md_label := c_label c'; md_exts := w_exts w |},
                    pkt_len))
          | (m', Some e) => (set_dmem s1 m', inr (DMemory e, pkt_len))
          end
      end
    end
  end.

Definition inter_hl (s : dstate) (pkt : list byte) (blen : N) : hl_out :=
  let pkt_len := lenN pkt in
  if pkt_len - 2 <=? 1 then err_last s DGseLength blen else
  let fid := hd0 (dropN 2 pkt) in
  let payload := dropN 3 pkt in
  let cpl := lenN payload in
  match take_frag_fn (dmem s) fid with
  | (m, inr e) => (set_dmem s m, inr (DMemory e, pkt_len))
  | (m, inl (c, pb)) =>
    let s1 := set_dmem s m in
    if (lenN (bdata pb) - c_pdulen c <? cpl) || (65535 <? c_pdulen c + cpl)
    then give_back_hl s1 pb DSizePduBuffer pkt_len
    else
      let c' := {| c_label := c_label c; c_ptype := c_ptype c; c_fid := c_fid c; c_total := c_total c;
                   c_pdulen := c_pdulen c + cpl; c_reuse := c_reuse c; c_exts := c_exts c |} in
      let data := takeN (c_pdulen c) (bdata pb) ++ payload ++ dropN (c_pdulen c + cpl) (bdata pb) in
      match save_frag_fn m (c', {| bid := bid pb; bdata := data |}) with
      | (m', None) =>
          (set_dmem s1 m',
           inl (DFragmented {| md_pdu_len := 0; md_ptype := c_ptype c; md_label := c_label c; md_exts := c_exts c |},
                pkt_len))
      | (m', Some e) => (set_dmem s1 m', inr (DMemory e, pkt_len))
      end
  end.

Definition end_hl (s : dstate) (pkt : list byte) (blen : N) : hl_out :=
  let pkt_len := lenN pkt in
  if pkt_len - 2 <? 5 then err_last s DSizeBuffer blen else
  let fid := hd0 (dropN 2 pkt) in
  let cpl := pkt_len - 7 in
  let payload := takeN cpl (dropN 3 pkt) in
  let received := rd32 (dropN (3 + cpl) pkt) in
  match take_frag_fn (dmem s) fid with
  | (m, inr e) => (set_dmem s m, inr (DMemory e, pkt_len))
  | (m, inl (c, pb)) =>
    let s1 := set_dmem s m in
    if lenN (bdata pb) - c_pdulen c <? cpl then give_back_hl s1 pb DSizePduBuffer pkt_len else
    let data := takeN (c_pdulen c) (bdata pb) ++ payload ++ dropN (c_pdulen c + cpl) (bdata pb) in
    let pb' := {| bid := bid pb; bdata := data |} in
    let pdu_len := c_pdulen c + cpl in
    let first_ll := if c_reuse c then 0 else lt_len (label_type (c_label c)) in
    let crc_label := if c_reuse c then [] else label_bytes (c_label c) in
    if negb (c_total c =? pdu_len + 2 + first_ll) then give_back_hl s1 pb' DTotalLength pkt_len else
    if negb (crc (takeN pdu_len data) (c_ptype c) (c_total c) crc_label =? received)
    then give_back_hl s1 pb' DCrc pkt_len
    else (s1, inl (DCompleted pb' {| md_pdu_len := pdu_len; md_ptype := c_ptype c; md_label := c_label c;
                                     md_exts := c_exts c |}, pkt_len))
  end.

Definition decap_hl (s : dstate) (buf : list byte) : hl_out :=
  let blen := lenN buf in
  if blen <? 2 then err_last s DSizeBuffer blen else
  match hdr_view (rd16 (takeN 2 buf)) with
  | None => (set_dlast s None, inl (DPadding, blen))
  | Some (gse_len, k, t) =>
    if blen <? gse_len + 2 then err_last s DSizeBuffer blen else
    let pkt := takeN (gse_len + 2) buf in
    match k with
    | KComplete => complete_hl s pkt t blen
    | KFirst => first_hl s pkt t blen
    | KInter => inter_hl s pkt blen
    | KEnd => end_hl s pkt blen
    end
  end.

End HL.

(* ---------- reading the packet through the whole buffer ---------- *)
Lemma dropN_takeN {A} a n (l : list A) : dropN a (takeN n l) = takeN (n - a) (dropN a l).
Proof.
  destruct (N.le_gt_cases a n) as [H|H].
  - replace n with ((n - a) + a) at 1 by lia. now rewrite <- takeN_dropN_comm.
  - replace (n - a) with 0 by lia. rewrite takeN_0. apply dropN_all. rewrite lenN_takeN. lia.
Qed.
Lemma slice_pkt buf n a b : n <= lenN buf -> a <= b -> b <= n ->
  slice buf a b = Ret (takeN (b - a) (dropN a (takeN n buf))).
Proof. intros Hn Hab Hb. rewrite slice_ok by lia. rewrite dropN_takeN, takeN_takeN. do 2 f_equal. lia. Qed.
Lemma slice_pkt_tail buf n a : n <= lenN buf -> a <= n -> slice buf a n = Ret (dropN a (takeN n buf)).
Proof. intros Hn Ha. rewrite (slice_pkt buf n a n) by lia. rewrite takeN_all; [reflexivity|].
  rewrite lenN_dropN, lenN_takeN. lia. Qed.
Lemma hd0_take1 (l : list byte) x : takeN 1 l = [x] -> hd0 l = x.
Proof. destruct l as [|y t]; [discriminate|]. rewrite takeN_cons by lia. now intros [= ->]. Qed.
Lemma idx_pkt buf n i : n <= lenN buf -> i < n -> idx buf i = Ret (hd0 (dropN i (takeN n buf))).
Proof.
  intros Hn Hi. destruct (idx_ok buf i ltac:(lia)) as (x & -> & T). f_equal. symmetry. apply hd0_take1.
  rewrite dropN_takeN, takeN_takeN. replace (N.min 1 (n - i)) with 1 by lia. exact T.
Qed.
Lemma ltype_len_lt t : ltype_len t = lt_len t. Proof. destruct t; reflexivity. Qed.
Lemma lt_len_le t : lt_len t <= 6. Proof. destruct t; cbn; lia. Qed.
Lemma label_new_ok t b : lenN b = lt_len t -> label_new t b = Ret (mk_label t b).
Proof. intro H. unfold label_new. rewrite ltype_len_lt, H, N.eqb_refl. destruct t; reflexivity. Qed.

Lemma set_dmem_id s : set_dmem s (dmem s) = s. Proof. destruct s; reflexivity. Qed.
Lemma set_storages_id2 m t : set_storages (set_storages m t) (storages m) = m. Proof. destruct m; reflexivity. Qed.
Lemma set_dmem_id2 s m : set_dmem (set_dmem s m) (dmem s) = s. Proof. destruct s; reflexivity. Qed.

Section Spec.
Variable crc : list byte -> N -> N -> list byte -> N.
Variable mgr : N -> mand.

Lemma resolve_label_hl s t lab : resolve_label s t lab = Ret (resolve_hl s t lab).
Proof. unfold resolve_label, resolve_hl. destruct t; try reflexivity. destruct (dlast s) as [[| | |]|]; reflexivity. Qed.

Lemma give_back_ok s pb e n : give_back s pb e n = Ret (give_back_hl s pb e n).
Proof. unfold give_back, give_back_hl, derr. destruct (provision (dmem s) pb) as [m [me|]]; reflexivity. Qed.

(* the walker on the slice of the packet, unified with the no-extension case *)
Lemma walker_step buf n off ptype : n <= lenN buf -> off <= n ->
  (if ptype <? 1536 then
     do sl <- slice buf off n;
     do r <- iterate_ext mgr sl ptype;
     match r with None => Panic | Some r => Ret r end
   else Ret (inl {| w_exts := []; w_ptype := ptype; w_len := 0 |}))
  = Ret (walk_fn mgr (dropN off (takeN n buf)) ptype).
Proof.
  intros Hn Ho. destruct (N.ltb_spec ptype 1536) as [Hp|Hp].
  - rewrite slice_pkt_tail by assumption. cbn [bind]. rewrite iterate_ext_fn. reflexivity.
  - now rewrite walk_fn_noext.
Qed.

Lemma decap_complete_spec s buf t gse_len : dstate_wf s -> gse_len + 2 <= lenN buf ->
  decap_complete mgr s buf t (gse_len + 2) gse_len =
  Ret (complete_hl mgr s (takeN (gse_len + 2) buf) t (lenN buf)).
Proof.
  intros Hwf Hlen. unfold decap_complete, complete_hl, derr, err_last.
  set (n := gse_len + 2) in *. set (pkt := takeN n buf).
  assert (Lp : lenN pkt = n) by (subst pkt; rewrite lenN_takeN; lia).
  rewrite Lp, ltype_len_lt. consts. pose proof (lt_len_le t) as Hll.
  replace (n - 2) with gse_len by lia.
  destruct (N.ltb_spec gse_len (lt_len t + 2)) as [Hs|Hs]; [reflexivity|].
  rewrite (slice_pkt buf n) by lia. cbn [bind]. replace (2 + 2 - 2) with 2 by lia. fold pkt.
  rewrite (slice_pkt buf n) by lia. cbn [bind]. replace (2 + 2 + lt_len t - (2 + 2)) with (lt_len t) by lia. fold pkt.
  replace (2 + 2) with 4 by lia.
  rewrite label_new_ok by (rewrite lenN_takeN, lenN_dropN; lia). cbn [bind].
  destruct (is_zero6 (mk_label t (takeN (lt_len t) (dropN 4 pkt)))); [reflexivity|].
  (* walker *)
  rewrite (walker_step buf n) by lia. fold pkt. cbn [bind].
  destruct (walk_fn mgr (dropN (4 + lt_len t) pkt) (rd16 (takeN 2 (dropN 2 pkt)))) as [w|[|]] eqn:Ew; try reflexivity.
  pose proof (walk_fn_bound _ _ _ _ Ew) as Hw. rewrite lenN_dropN, Lp in Hw.
  rewrite resolve_label_hl. cbn [bind].
  destruct (resolve_hl s t (mk_label t (takeN (lt_len t) (dropN 4 pkt)))) as [[s1 cur]|e] eqn:Er; [|reflexivity].
  assert (Hm1 : dmem s1 = dmem s).
  { unfold resolve_hl in Er. destruct t; try (injection Er as <- _; reflexivity).
    destruct (dlast s) as [[| | |]|]; try discriminate; injection Er as <- _; reflexivity. }
  unfold new_pdu.
  destruct Hwf as (Hmw & Hbufs & Hslots). rewrite <- Hm1 in Hmw, Hbufs.
  destruct (storages (dmem s1)) as [|pb rest] eqn:Es.
  { now rewrite set_dmem_id. }
  cbn [storages set_storages].
  set (payload := dropN (4 + lt_len t + w_len w) pkt).
  assert (Lpay : lenN payload = gse_len - lt_len t - w_len w - 2) by (subst payload; rewrite lenN_dropN; lia).
  replace (lenN (bdata pb) + lt_len t + w_len w + 2 <? gse_len) with (lenN (bdata pb) <? lenN payload).
  2:{ rewrite Lpay. destruct (N.ltb_spec (lenN (bdata pb)) (gse_len - lt_len t - w_len w - 2));
        destruct (N.ltb_spec (lenN (bdata pb) + lt_len t + w_len w + 2) gse_len); (reflexivity || lia). }
  destruct (N.ltb_spec (lenN (bdata pb)) (lenN payload)) as [Hsm|Hbig].
  - (* storage too small: the buffer goes back on top of the free list *)
    unfold provision. cbn [storages set_storages cap max_pdu_size].
    destruct Hmw as [_ Hcap]. rewrite Es, lenN_cons in Hcap.
    destruct (N.eqb_spec (cap (dmem s1)) (lenN rest)); [lia|].
    inversion Hbufs as [|? ? Hb1 Hb2]; subst. unfold buf_ok in Hb1.
    destruct (N.ltb_spec (lenN (bdata pb)) (max_pdu_size (dmem s1))); [lia|].
    do 3 f_equal. rewrite <- Es. rewrite set_storages_id2. now rewrite set_dmem_id2.
  - rewrite !subN_ok by lia. cbn [bind]. rewrite subN_ok by lia. cbn [bind]. rewrite subN_ok by lia. cbn [bind].
    rewrite (slice_pkt buf n) by lia. cbn [bind]. fold pkt.
    replace (4 + lt_len t + w_len w + (gse_len - lt_len t - w_len w - 2) - (4 + lt_len t + w_len w))
      with (gse_len - lt_len t - w_len w - 2) by lia.
    rewrite takeN_all by (fold payload; lia). fold payload.
    rewrite write_ok by (rewrite N.add_0_l; lia). cbn [bind]. rewrite takeN_0, N.add_0_l. cbn [app].
    rewrite <- Lpay. reflexivity.
Qed.


Lemma idx_take1 (l : list byte) : 1 <= lenN l -> idx (takeN 1 l) 0 = Ret (hd0 l).
Proof. destruct l as [|x t]; [rewrite lenN_nil; lia|]. intros _. rewrite takeN_cons by lia. reflexivity. Qed.

Lemma resolve_hl_mem s t lab s1 cur : resolve_hl s t lab = inl (s1, cur) -> dmem s1 = dmem s.
Proof. unfold resolve_hl. destruct t; try (intros [= <- _]; reflexivity).
  destruct (dlast s) as [[| | |]|]; try discriminate; intros [= <- _]; reflexivity. Qed.

Lemma new_frag_fn_wf m c : mem_wf m -> mem_wf (fst (new_frag_fn m c)).
Proof.
  intro H. unfold new_frag_fn. destruct (max_frag_id m =? 0); [exact H|].
  destruct (slot_of m (c_fid c)) as [[c0 b0]|]; cbn [fst]; [now apply set_slot_wf|].
  destruct (storages m) as [|b t] eqn:E; cbn [fst]; [exact H|].
  destruct H as [Hf Hc]. unfold mem_wf; cbn [frags storages max_frag_id cap set_storages].
  rewrite E, lenN_cons in Hc. split; [assumption|lia].
Qed.
Lemma take_frag_fn_wf m f : mem_wf m -> mem_wf (fst (take_frag_fn m f)).
Proof.
  intro H. unfold take_frag_fn. destruct (max_frag_id m =? 0); [exact H|].
  destruct (slot_of m f) as [[c b]|]; [|exact H]. destruct (c_fid c =? f); cbn [fst]; [now apply set_slot_wf|exact H].
Qed.

Lemma decap_first_spec s buf t gse_len : dstate_wf s -> gse_len + 2 <= lenN buf -> gse_len < 4096 ->
  decap_first mgr s buf t (gse_len + 2) gse_len =
  Ret (first_hl mgr s (takeN (gse_len + 2) buf) t (lenN buf)).
Proof.
  intros Hwf Hlen Hg. unfold decap_first, first_hl, derr, err_last.
  set (n := gse_len + 2) in *. set (pkt := takeN n buf).
  assert (Lp : lenN pkt = n) by (subst pkt; rewrite lenN_takeN; lia).
  rewrite Lp, ltype_len_lt. consts. pose proof (lt_len_le t) as Hll.
  replace (n - 2) with gse_len by lia.
  replace (lt_len t + 2 + 1 + 2) with (lt_len t + 5) by lia.
  destruct (N.ltb_spec gse_len (lt_len t + 5)) as [Hs|Hs]; [reflexivity|].
  rewrite (slice_pkt buf n) by lia. cbn [bind]. fold pkt. replace (2 + 1 - 2) with 1 by lia.
  rewrite idx_take1 by (rewrite lenN_dropN; lia). cbn [bind].
  rewrite (slice_pkt buf n) by lia. cbn [bind]. fold pkt. replace (2 + 1 + 2 - (2 + 1)) with 2 by lia.
  rewrite (slice_pkt buf n) by lia. cbn [bind]. fold pkt. replace (2 + 1 + 2 + 2 - (2 + 1 + 2)) with 2 by lia.
  rewrite (slice_pkt buf n) by lia. cbn [bind]. fold pkt.
  replace (2 + 1 + 2 + 2 + lt_len t - (2 + 1 + 2 + 2)) with (lt_len t) by lia.
  replace (2 + 1) with 3 by lia. replace (3 + 2) with 5 by lia. replace (5 + 2) with 7 by lia.
  rewrite label_new_ok by (rewrite lenN_takeN, lenN_dropN; lia). cbn [bind].
  destruct (is_zero6 (mk_label t (takeN (lt_len t) (dropN 7 pkt)))); [reflexivity|].
  rewrite resolve_label_hl. cbn [bind].
  destruct (resolve_hl s t (mk_label t (takeN (lt_len t) (dropN 7 pkt)))) as [[s1 cur]|e] eqn:Er; [|reflexivity].
  pose proof (resolve_hl_mem _ _ _ _ _ Er) as Hm1.
  rewrite (walker_step buf n) by lia. fold pkt. cbn [bind].
  destruct (walk_fn mgr (dropN (7 + lt_len t) pkt) (rd16 (takeN 2 (dropN 5 pkt)))) as [w|[|]] eqn:Ew; try reflexivity.
  pose proof (walk_fn_bound _ _ _ _ Ew) as Hw. rewrite lenN_dropN, Lp in Hw.
  rewrite subN_ok by lia. cbn [bind].
  set (payload := dropN (7 + lt_len t + w_len w) pkt).
  assert (Lpay : lenN payload = gse_len - (1 + 2 + lt_len t + w_len w + 2)) by (subst payload; rewrite lenN_dropN; lia).
  rewrite <- Lpay. rewrite u16_small by lia.
  destruct (rd16 (takeN 2 (dropN 3 pkt)) <=? lenN payload); [reflexivity|].
  destruct Hwf as (Hmw & Hbufs & Hslots). rewrite <- Hm1 in Hmw.
  rewrite new_frag_fn_ok by assumption. cbn [bind].
  match goal with |- context [new_frag_fn (dmem s1) ?c] =>
    pose proof (new_frag_fn_wf (dmem s1) c Hmw) as Hmw2; destruct (new_frag_fn (dmem s1) c) as [m [[c' pb]|e]] end;
    [|reflexivity]. cbn [fst] in Hmw2.
  replace (lenN (bdata pb) + lt_len t + w_len w + 2 + 1 + 2 <? gse_len) with (lenN (bdata pb) <? lenN payload).
  2:{ rewrite Lpay. destruct (N.ltb_spec (lenN (bdata pb)) (gse_len - (1 + 2 + lt_len t + w_len w + 2)));
        destruct (N.ltb_spec (lenN (bdata pb) + lt_len t + w_len w + 2 + 1 + 2) gse_len); (reflexivity || lia). }
  destruct (N.ltb_spec (lenN (bdata pb)) (lenN payload)) as [Hsm|Hbig]; [apply give_back_ok|].
  rewrite (slice_pkt buf n) by lia. cbn [bind]. fold pkt.
  replace (7 + lt_len t + w_len w + lenN payload - (7 + lt_len t + w_len w)) with (lenN payload) by lia.
  rewrite takeN_all by (fold payload; lia). fold payload.
  rewrite write_ok by (rewrite N.add_0_l; lia). cbn [bind]. rewrite takeN_0, N.add_0_l. cbn [app].
  rewrite save_frag_fn_ok by assumption. cbn [bind].
  match goal with |- context [save_frag_fn m ?x] => destruct (save_frag_fn m x) as [m' [e|]] end; reflexivity.
Qed.

Lemma decap_intermediate_spec s buf gse_len : dstate_wf s -> gse_len + 2 <= lenN buf -> gse_len < 4096 ->
  decap_intermediate s buf (gse_len + 2) gse_len =
  Ret (inter_hl s (takeN (gse_len + 2) buf) (lenN buf)).
Proof.
  intros Hwf Hlen Hg. unfold decap_intermediate, inter_hl, derr, err_last.
  set (n := gse_len + 2) in *. set (pkt := takeN n buf).
  assert (Lp : lenN pkt = n) by (subst pkt; rewrite lenN_takeN; lia).
  rewrite Lp. consts. replace (n - 2) with gse_len by lia.
  destruct (N.leb_spec gse_len 1) as [Hs|Hs]; [reflexivity|].
  rewrite (idx_pkt buf n) by lia. cbn [bind]. fold pkt.
  rewrite subN_ok by lia. cbn [bind].
  destruct Hwf as (Hmw & Hbufs & Hslots).
  rewrite take_frag_fn_ok by assumption. cbn [bind].
  pose proof (take_frag_fn_wf (dmem s) (hd0 (dropN 2 pkt)) Hmw) as Hmw2.
  assert (Hctx : forall m c pb, take_frag_fn (dmem s) (hd0 (dropN 2 pkt)) = (m, inl (c, pb)) -> ctx_ok (c, pb)).
  { intros m c pb. unfold take_frag_fn. destruct (max_frag_id (dmem s) =? 0); [discriminate|].
    unfold slot_of. destruct (nthN (hd0 (dropN 2 pkt) mod max_frag_id (dmem s)) (frags (dmem s))) as [[[c0 b0]|]|] eqn:En; try discriminate.
    destruct (c_fid c0 =? hd0 (dropN 2 pkt)); [|discriminate]. intros [= _ <- <-]. now apply (Hslots _ _ En). }
  destruct (take_frag_fn (dmem s) (hd0 (dropN 2 pkt))) as [m [[c pb]|e]]; [|reflexivity]. cbn [fst] in Hmw2.
  destruct (Hctx m c pb eq_refl) as (Hc1 & Hc2 & Hc3). cbn [fst snd] in *.
  rewrite subN_ok by lia. cbn [bind].
  assert (Lpay : lenN (dropN 3 pkt) = gse_len - 1) by (rewrite lenN_dropN; lia). rewrite <- Lpay.
  destruct ((lenN (bdata pb) - c_pdulen c <? lenN (dropN 3 pkt)) || (65535 <? c_pdulen c + lenN (dropN 3 pkt))) eqn:Hchk;
    [apply give_back_ok|].
  apply orb_false_iff in Hchk as [Hk1 Hk2]. apply N.ltb_ge in Hk1. apply N.ltb_ge in Hk2.
  rewrite (slice_pkt buf n) by lia. cbn [bind]. fold pkt. replace (2 + 1) with 3 by lia.
  replace (3 + lenN (dropN 3 pkt) - 3) with (lenN (dropN 3 pkt)) by lia.
  rewrite (takeN_all (lenN (dropN 3 pkt))) by lia.
  rewrite write_ok by lia. cbn [bind].
  rewrite u16_small by lia. rewrite add_chk_ok by (change (2 ^ 16) with 65536; lia). cbn [bind].
  rewrite save_frag_fn_ok by assumption. cbn [bind].
  match goal with |- context [save_frag_fn m ?x] => destruct (save_frag_fn m x) as [m' [e|]] end; reflexivity.
Qed.

Lemma decap_end_spec s buf gse_len : dstate_wf s -> gse_len + 2 <= lenN buf -> gse_len < 4096 ->
  decap_end crc s buf (gse_len + 2) gse_len =
  Ret (end_hl crc s (takeN (gse_len + 2) buf) (lenN buf)).
Proof.
  intros Hwf Hlen Hg. unfold decap_end, end_hl, derr, err_last.
  set (n := gse_len + 2) in *. set (pkt := takeN n buf).
  assert (Lp : lenN pkt = n) by (subst pkt; rewrite lenN_takeN; lia).
  rewrite Lp. consts. replace (n - 2) with gse_len by lia. replace (1 + 4) with 5 by lia.
  destruct (N.ltb_spec gse_len 5) as [Hs|Hs]; [reflexivity|].
  rewrite (idx_pkt buf n) by lia. cbn [bind]. fold pkt.
  rewrite subN_ok by lia. cbn [bind].
  destruct Hwf as (Hmw & Hbufs & Hslots).
  rewrite take_frag_fn_ok by assumption. cbn [bind].
  assert (Hctx : forall m c pb, take_frag_fn (dmem s) (hd0 (dropN 2 pkt)) = (m, inl (c, pb)) -> ctx_ok (c, pb)).
  { intros m c pb. unfold take_frag_fn. destruct (max_frag_id (dmem s) =? 0); [discriminate|].
    unfold slot_of. destruct (nthN (hd0 (dropN 2 pkt) mod max_frag_id (dmem s)) (frags (dmem s))) as [[[c0 b0]|]|] eqn:En; try discriminate.
    destruct (c_fid c0 =? hd0 (dropN 2 pkt)); [|discriminate]. intros [= _ <- <-]. now apply (Hslots _ _ En). }
  destruct (take_frag_fn (dmem s) (hd0 (dropN 2 pkt))) as [m [[c pb]|e]]; [|reflexivity].
  destruct (Hctx m c pb eq_refl) as (Hc1 & Hc2 & Hc3). cbn [fst snd] in *.
  rewrite subN_ok by lia. cbn [bind].
  replace (n - 7) with (gse_len - 5) by lia.
  destruct (N.ltb_spec (lenN (bdata pb) - c_pdulen c) (gse_len - 5)) as [Hsm|Hbig]; [apply give_back_ok|].
  rewrite (slice_pkt buf n) by lia. cbn [bind]. fold pkt. replace (2 + 1) with 3 by lia.
  replace (3 + (gse_len - 5) - 3) with (gse_len - 5) by lia.
  rewrite write_ok by (rewrite lenN_takeN, lenN_dropN; lia). cbn [bind].
  rewrite lenN_takeN, lenN_dropN, Lp. replace (N.min (gse_len - 5) (n - 3)) with (gse_len - 5) by lia.
  rewrite (slice_pkt buf n) by lia. cbn [bind]. fold pkt.
  replace (3 + (gse_len - 5) + 4 - (3 + (gse_len - 5))) with 4 by lia.
  rewrite (takeN_all 4) by (rewrite lenN_dropN; lia).
  rewrite ltype_len_lt.
  match goal with |- context [negb (c_total c =? ?x)] => destruct (negb (c_total c =? x)) end; [apply give_back_ok|].
  rewrite slice_prefix by (rewrite !lenN_app, lenN_takeN, lenN_takeN, lenN_dropN, lenN_dropN; lia). cbn [bind].
  match goal with |- context [negb (?a =? ?b)] => destruct (negb (a =? b)) end; [apply give_back_ok|reflexivity].
Qed.

Theorem decap_spec s buf : dstate_wf s -> bytes_ok buf ->
  decap crc mgr s buf = Ret (decap_hl crc mgr s buf).
Proof.
  intros Hwf Hb. unfold decap, decap_hl, derr, err_last. consts.
  destruct (N.ltb_spec (lenN buf) 2) as [Hs|Hs]; [reflexivity|].
  rewrite slice_prefix by lia. cbn [bind].
  rewrite read_hdr_view by (apply rd16_takeN2_lt; assumption). cbn [bind].
  destruct (hdr_view (rd16 (takeN 2 buf))) as [[[gse_len k] t]|] eqn:Ev; [|reflexivity].
  pose proof (hdr_view_len _ _ _ _ Ev) as Hg.
  destruct (N.ltb_spec (lenN buf) (gse_len + 2)) as [Hs2|Hs2]; [reflexivity|].
  destruct k.
  - now apply decap_complete_spec.
  - now apply decap_first_spec.
  - now apply decap_intermediate_spec.
  - now apply decap_end_spec.
Qed.

End Spec.
