(* Extension chains written by encap_ext, read back by the receiver's walker (C13). No model code. *)
Require Import GSE.gen.Consts GSE.gen.HLenTable GSE.model.Base GSE.model.Types GSE.model.Header GSE.model.Ext GSE.model.Encap
  GSE.model.Memory GSE.model.Decap
  GSE.proofs.Tactics GSE.proofs.BaseLemmas GSE.proofs.HeaderLemmas GSE.proofs.EncapSpec GSE.proofs.EncapProps
  GSE.proofs.FragRun GSE.proofs.MemoryLemmas GSE.proofs.DecapBase GSE.proofs.DecapSpec GSE.proofs.DecapProps
  GSE.proofs.Conserve GSE.proofs.RoundTrip GSE.proofs.FragTrip GSE.proofs.ExtSpec.
Open Scope N_scope.

(* an extension as the only constructor, Extension::new, returns it *)
Definition ext_built (e : ext) : Prop := ext_new (ext_id e) (ext_bytes e) = Ret (inl e).

Lemma ext_built_id e : ext_built e -> ext_id e < 1536.
Proof. unfold ext_built. intro H. destruct (N.lt_ge_cases (ext_id e) 1536); [assumption|]. rewrite ext_new_bad in H by assumption. discriminate. Qed.
Lemma ext_built_opt e : ext_built e -> 256 <= ext_id e -> lenN (ext_bytes e) = opt_size (ext_id e).
Proof.
  intros H Hp. pose proof (ext_built_id e H) as Hi. unfold ext_built in H.
  destruct (N.eq_dec (lenN (ext_bytes e)) (opt_size (ext_id e))); [assumption|].
  rewrite ext_new_size in H by (try lia; assumption). discriminate.
Qed.
Lemma ext_built_wf e : ext_built e -> ext_wf e.
Proof.
  intro H. pose proof (ext_built_id e H) as Hi. destruct (N.lt_ge_cases (ext_id e) 256) as [Hm|Hm].
  - unfold ext_built in H. rewrite ext_new_mand in H by assumption. injection H as H. unfold ext_wf. rewrite <- H. exact I.
  - pose proof (ext_built_opt e H Hm) as Hsz. unfold ext_built in H.
    destruct (ext_new_opt (ext_id e) (ext_bytes e) ltac:(lia) Hsz) as (e' & E & _ & Hb & Hl & _). rewrite E in H. injection H as ->.
    unfold ext_wf, ext_len, ext_bytes in *. revert Hl. consts. destruct (ext_dat e); intros; try lia; exact I.
Qed.

(* what a receiver must know about one extension that is not the final one *)
Definition nf_known (mgr : N -> mand) (e : ext) : Prop :=
  ext_built e /\ (ext_id e < 256 -> mgr (ext_id e) = MNonFinal (lenN (ext_bytes e))).
Definition fin_known (mgr : N -> mand) (e : ext) : Prop :=
  ext_built e /\ ext_id e < 256 /\ mgr (ext_id e) = MFinal (lenN (ext_bytes e)).

(* the bytes of extensions that are each followed by a type field *)
Definition first_id (es : list ext) (nxt : N) : N := match es with [] => nxt | e :: _ => ext_id e end.
Fixpoint seg (es : list ext) (nxt : N) : list byte :=
  match es with
  | [] => []
  | e :: t => ext_bytes e ++ be16 (first_id t nxt) ++ seg t nxt
  end.

Lemma seg_length es nxt : (length es <= length (seg es nxt))%nat.
Proof. induction es as [|e t IH]; [apply le_n|]. cbn [seg length]. rewrite !app_length. unfold be16 at 1. cbn [length]. lia. Qed.
Lemma chain_body_seg es e : chain_body (es ++ [e]) = seg es (ext_id e) ++ ext_bytes e.
Proof.
  induction es as [|a t IH]; [reflexivity|]. destruct t as [|b t'].
  - cbn [app]. rewrite chain_body_cons2. cbn [chain_body seg first_id]. now rewrite <- !app_assoc.
  - change ((a :: b :: t') ++ [e]) with (a :: b :: (t' ++ [e])). rewrite chain_body_cons2.
    change (b :: t' ++ [e]) with ((b :: t') ++ [e]). rewrite IH. cbn [seg first_id]. now rewrite <- !app_assoc.
Qed.
Lemma chain_bytes_seg es pt : es <> [] -> chain_bytes es false pt = seg es pt.
Proof.
  unfold chain_bytes. induction es as [|a t IH]; intro Hne; [contradiction|]. destruct t as [|b t'].
  - cbn [chain_body seg first_id]. now rewrite app_nil_r.
  - rewrite chain_body_cons2. cbn [seg first_id]. rewrite <- !app_assoc. f_equal. f_equal. apply IH. discriminate.
Qed.
Lemma split_last (es : list ext) d : es <> [] -> es = removelast es ++ [last_of es d].
Proof.
  induction es as [|a t IH]; intro Hne; [contradiction|]. destruct t as [|b t']; [reflexivity|].
  change (removelast (a :: b :: t')) with (a :: removelast (b :: t')). change (last_of (a :: b :: t') d) with (last_of (b :: t') d).
  cbn [app]. f_equal. apply IH. discriminate.
Qed.
Lemma first_id_app es e nxt : first_id (es ++ [e]) nxt = first_id es (ext_id e).
Proof. destruct es; reflexivity. Qed.

Section Chain.
Variable mgr : N -> mand.

Lemma slice_mid (pre x rest : list byte) a b : a = lenN pre -> b = lenN pre + lenN x ->
  slice (pre ++ x ++ rest) a b = Ret x.
Proof.
  intros -> ->. rewrite slice_ok by (rewrite ?lenN_app; lia).
  rewrite dropN_app_eq by reflexivity. f_equal. apply takeN_app_eq. lia.
Qed.

(* the walker runs through a known non-final segment and continues behind it *)
Lemma walk_seg es : Forall (nf_known mgr) es -> forall nxt pre rest acc fuel, nxt < 65536 ->
  walk mgr (length es + fuel) (pre ++ seg es nxt ++ rest) (first_id es nxt) (lenN pre) acc =
  walk mgr fuel (pre ++ seg es nxt ++ rest) nxt (lenN pre + lenN (seg es nxt)) (acc ++ es).
Proof.
  induction es as [|e t IH]; intros Hk nxt pre rest acc fuel Hn.
  - cbn [length seg first_id Nat.add]. rewrite lenN_nil, N.add_0_r, app_nil_r. reflexivity.
  - inversion Hk as [|? ? [Hb Hm] Ht]; subst. pose proof (ext_built_id e Hb) as Hid.
    cbn [length Nat.add first_id seg]. cbn [walk]. change SECOND_RANGE_PTYPE with 1536. change PROTOCOL_LEN with 2.
    destruct (N.ltb_spec (ext_id e) 1536); [|lia]. cbn [negb].
    destruct (extid_hlen (ext_id e) Hid) as [-> _].
    assert (Hh : ext_id e / 256 < 6) by (apply N.div_lt_upper_bound; lia).
    destruct (N.ltb_spec (ext_id e / 256) 256); [|lia]. cbn [bind].
    set (nid := first_id t nxt).
    assert (Hnid : nid < 65536).
    { subst nid. destruct t as [|e' t']; [exact Hn|]. cbn. inversion Ht as [|? ? [Hb' _] _]; subst. pose proof (ext_built_id e' Hb'). lia. }
    set (pdu := pre ++ (ext_bytes e ++ be16 nid ++ seg t nxt) ++ rest).
    assert (Epdu : pdu = pre ++ ext_bytes e ++ (be16 nid ++ seg t nxt ++ rest)) by (subst pdu; now rewrite <- !app_assoc).
    assert (Epdu2 : pdu = (pre ++ ext_bytes e) ++ be16 nid ++ (seg t nxt ++ rest)) by (subst pdu; now rewrite <- !app_assoc).
    assert (Epdu3 : pdu = (pre ++ ext_bytes e ++ be16 nid) ++ seg t nxt ++ rest) by (subst pdu; now rewrite <- !app_assoc).
    assert (Lpdu : lenN pdu = lenN pre + lenN (ext_bytes e) + 2 + lenN (seg t nxt) + lenN rest).
    { subst pdu. rewrite !lenN_app, lenN_be16. lia. }
    (* the step shared by the three arms *)
    assert (STEP : forall size, size = lenN (ext_bytes e) ->
      (if lenN pdu <? lenN pre + size then Ret (Some (inr WBufferTooSmall)) else
       do d <- slice pdu (lenN pre) (lenN pre + size);
       do e1 <- ext_new_or_todo (ext_id e) d;
       (if lenN pdu <? lenN pre + size + 2 then Ret (Some (inr WBufferTooSmall)) else
        do s <- slice pdu (lenN pre + size) (lenN pre + size + 2);
        walk mgr (length t + fuel) pdu (rd16 s) (lenN pre + size + 2) (acc ++ [e1])))
      = walk mgr fuel pdu nxt (lenN pre + lenN (ext_bytes e ++ be16 nid ++ seg t nxt)) (acc ++ e :: t)).
    { intros size ->. destruct (N.ltb_spec (lenN pdu) (lenN pre + lenN (ext_bytes e))); [lia|].
      rewrite Epdu at 1. rewrite slice_mid by reflexivity. cbn [bind].
      unfold ext_new_or_todo. rewrite Hb. cbn [bind].
      destruct (N.ltb_spec (lenN pdu) (lenN pre + lenN (ext_bytes e) + 2)); [lia|].
      rewrite Epdu2 at 1. rewrite slice_mid by (rewrite ?lenN_app, ?lenN_be16; lia). cbn [bind].
      rewrite rd16_be16 by exact Hnid.
      rewrite Epdu3. replace (lenN pre + lenN (ext_bytes e) + 2) with (lenN (pre ++ ext_bytes e ++ be16 nid))
        by (rewrite !lenN_app, lenN_be16; lia).
      subst nid. rewrite (IH Ht nxt _ rest (acc ++ [e]) fuel Hn).
      f_equal; [rewrite !lenN_app, lenN_be16; lia|now rewrite <- app_assoc]. }
    destruct (N.eqb_spec (ext_id e / 256) 0) as [Hz|Hz].
    + assert (Hlt : ext_id e < 256).
      { destruct (N.lt_ge_cases (ext_id e) 256); [assumption|]. assert (1 <= ext_id e / 256) by (apply N.div_le_lower_bound; lia). lia. }
      rewrite (Hm Hlt). fold pdu. apply STEP. reflexivity.
    + assert (Hge : 256 <= ext_id e).
      { destruct (N.lt_ge_cases (ext_id e) 256) as [Hlt|]; [|assumption]. rewrite N.div_small in Hz by assumption. contradiction. }
      rewrite hlen_table_opt by lia. fold pdu. apply STEP. symmetry. apply ext_built_opt; assumption.
Qed.

(* the three ways a walk ends *)
Lemma walk_stop fuel pdu pt off acc : 1536 <= pt ->
  walk mgr fuel pdu pt off acc = Ret (Some (inl {| w_exts := acc; w_ptype := pt; w_len := off |})).
Proof. intro H. destruct fuel; cbn [walk]; change SECOND_RANGE_PTYPE with 1536; destruct (N.ltb_spec pt 1536); try lia; reflexivity. Qed.
Lemma walk_final fuel pre e rest acc : fin_known mgr e ->
  walk mgr (S fuel) (pre ++ ext_bytes e ++ rest) (ext_id e) (lenN pre) acc =
  Ret (Some (inl {| w_exts := acc ++ [e]; w_ptype := ext_id e; w_len := lenN pre + lenN (ext_bytes e) |})).
Proof.
  intros (Hb & Hlt & Hm). cbn [walk]. change SECOND_RANGE_PTYPE with 1536.
  destruct (N.ltb_spec (ext_id e) 1536); [|lia]. cbn [negb].
  destruct (extid_hlen (ext_id e) ltac:(lia)) as [-> _]. rewrite N.div_small by assumption. cbn [N.ltb N.compare bind N.eqb].
  rewrite Hm. destruct (N.ltb_spec (lenN (pre ++ ext_bytes e ++ rest)) (lenN pre + lenN (ext_bytes e))) as [H1|_]; [rewrite !lenN_app in H1; lia|].
  rewrite slice_mid by reflexivity. cbn [bind]. unfold ext_new_or_todo. rewrite Hb. reflexivity.
Qed.
Lemma walk_unknown fuel pdu id off acc : id < 256 -> mgr id = MUnknown ->
  walk mgr (S fuel) pdu id off acc = Ret (Some (inr WUnknownMandatory)).
Proof.
  intros Hlt Hm. cbn [walk]. change SECOND_RANGE_PTYPE with 1536.
  destruct (N.ltb_spec id 1536); [|lia]. cbn [negb].
  destruct (extid_hlen id ltac:(lia)) as [-> _]. rewrite N.div_small by assumption. cbn [N.ltb N.compare bind N.eqb].
  now rewrite Hm.
Qed.

Lemma walk_fn_of pdu p r : iterate_ext mgr pdu p = Ret (Some r) -> walk_fn mgr pdu p = r.
Proof. unfold walk_fn. now intros ->. Qed.

Lemma fuel_split es nxt rest : exists fuel, S (length (seg es nxt ++ rest)) = (length es + S fuel)%nat.
Proof. pose proof (seg_length es nxt). rewrite app_length. exists (length (seg es nxt) + length rest - length es)%nat. lia. Qed.

(* a whole chain as encap_ext writes it, followed by anything *)
Definition chain_known (es : list ext) (final : bool) : Prop :=
  if final then Forall (nf_known mgr) (removelast es) /\ (forall d, fin_known mgr (last_of es d))
  else Forall (nf_known mgr) es.

Lemma walk_fn_chain es e0 final pt rest : es <> [] -> chain_known es final ->
  (if final then ext_id (last_of es e0) = pt else 1536 <= pt < 65536) ->
  walk_fn mgr (chain_bytes es final pt ++ rest) (first_id es pt) =
  inl {| w_exts := es; w_ptype := pt; w_len := lenN (chain_bytes es final pt) |}.
Proof.
  intros Hne Hk Hpt. apply walk_fn_of. unfold iterate_ext. destruct final.
  - destruct Hk as [Hnf Hfin]. specialize (Hfin e0). set (el := last_of es e0) in *.
    assert (Ees : es = removelast es ++ [el]) by (apply split_last; assumption).
    set (es1 := removelast es) in *. unfold chain_bytes. rewrite app_nil_r.
    rewrite Ees at 1 2 3. rewrite chain_body_seg, first_id_app. rewrite <- app_assoc.
    destruct (fuel_split es1 (ext_id el) (ext_bytes el ++ rest)) as [fuel ->].
    assert (Hel : ext_id el < 65536) by (destruct Hfin as (_ & H & _); lia).
    pose proof (walk_seg es1 Hnf (ext_id el) [] (ext_bytes el ++ rest) [] (S fuel) Hel) as W.
    cbn [app] in W. rewrite lenN_nil in W. rewrite W. clear W. rewrite N.add_0_l.
    cbn [app]. rewrite (walk_final fuel (seg es1 (ext_id el)) el rest es1 Hfin). rewrite <- Ees.
    assert (Ecb : lenN (chain_body es) = lenN (seg es1 (ext_id el)) + lenN (ext_bytes el)).
    { rewrite Ees at 1. now rewrite chain_body_seg, lenN_app. }
    rewrite Ecb, Hpt. reflexivity.
  - rewrite chain_bytes_seg by assumption.
    destruct (fuel_split es pt rest) as [fuel ->].
    pose proof (walk_seg es Hk pt [] rest [] (S fuel) ltac:(lia)) as W.
    cbn [app] in W. rewrite lenN_nil in W. rewrite W. clear W. rewrite walk_stop by lia. now rewrite N.add_0_l.
Qed.

(* a known non-final prefix, then a mandatory id the receiver does not know: the walk reports it *)
Lemma walk_fn_unknown es id rest : Forall (nf_known mgr) es -> id < 256 -> mgr id = MUnknown ->
  walk_fn mgr (seg es id ++ rest) (first_id es id) = inr WUnknownMandatory.
Proof.
  intros Hk Hlt Hm. apply walk_fn_of. unfold iterate_ext.
  destruct (fuel_split es id rest) as [fuel ->].
  pose proof (walk_seg es Hk id [] rest [] (S fuel) ltac:(lia)) as W. cbn [app] in W. rewrite lenN_nil in W. rewrite W.
  apply walk_unknown; assumption.
Qed.
End Chain.

#[local] Hint Rewrite @lenN_app lenN_be16 @lenN_cons @lenN_nil : lens.

Section XT.
Variable crc : list byte -> N -> N -> list byte -> N.
Variable mgr : N -> mand.

(* ---------- the receiver on a complete packet with an extension area ---------- *)
Lemma complete_hl_sender_x s l id0 chain pdu blen xs p : label_wf l -> is_zero6 l = false -> id0 < 65536 ->
  lenN pdu + lenN (label_bytes l) + 2 + lenN chain < 4096 ->
  walk_fn mgr (chain ++ pdu) id0 = inl {| w_exts := xs; w_ptype := p; w_len := lenN chain |} ->
  complete_hl mgr s (pkt_complete_x l id0 chain pdu) (label_type l) blen =
  let n := 4 + lenN (label_bytes l) + lenN chain + lenN pdu in
  match resolve_hl s (label_type l) l with
  | inr e => err_last s e n
  | inl (s1, cur) =>
    match storages (dmem s1) with
    | [] => err_last s1 (DMemory MUnderflow) n
    | pb :: rest =>
      if lenN (bdata pb) <? lenN pdu then err_last s1 DSizePduBuffer n
      else (set_dmem s1 (set_storages (dmem s1) rest),
            inl (DCompleted {| bid := bid pb; bdata := pdu ++ dropN (lenN pdu) (bdata pb) |}
                   {| md_pdu_len := lenN pdu; md_ptype := p; md_label := cur; md_exts := xs |}, n))
    end
  end.
Proof.
  intros Hw Hz Hid Hlen Hwalk. unfold complete_hl. rewrite (lenN_pkt_complete_x crc), (lt_len_label l Hw).
  set (ll := lenN (label_bytes l)) in *.
  assert (Hl6 : ll <= 6) by (subst ll; rewrite <- (lt_len_label l Hw); apply lt_len_le).
  destruct (N.ltb_spec (4 + ll + lenN chain + lenN pdu - 2) (ll + 2)); [lia|].
  unfold pkt_complete_x. fold ll. rewrite drop2_be16, take2_be16, rd16_be16 by lia.
  set (hdr := be16 (hdr_arith KComplete (label_type l) (lenN pdu + ll + 2 + lenN chain))).
  replace (dropN 4 (hdr ++ be16 id0 ++ label_bytes l ++ chain ++ pdu)) with (label_bytes l ++ chain ++ pdu).
  2:{ replace (hdr ++ be16 id0 ++ label_bytes l ++ chain ++ pdu) with ((hdr ++ be16 id0) ++ label_bytes l ++ chain ++ pdu) by (now rewrite <- !app_assoc).
      symmetry. apply dropN_app_eq. reflexivity. }
  rewrite takeN_app_eq by reflexivity. rewrite mk_label_bytes, Hz.
  replace (dropN (4 + ll) (hdr ++ be16 id0 ++ label_bytes l ++ chain ++ pdu)) with (chain ++ pdu).
  2:{ replace (hdr ++ be16 id0 ++ label_bytes l ++ chain ++ pdu) with ((hdr ++ be16 id0 ++ label_bytes l) ++ chain ++ pdu) by (now rewrite <- !app_assoc).
      symmetry. apply dropN_app_eq. subst hdr. autorewrite with lens. subst ll. lia. }
  rewrite Hwalk. cbn [w_len w_ptype w_exts]. cbv zeta.
  destruct (resolve_hl s (label_type l) l) as [[s1 cur]|e]; [|reflexivity].
  destruct (storages (dmem s1)) as [|pb rest]; [reflexivity|].
  replace (dropN (4 + ll + lenN chain) (hdr ++ be16 id0 ++ label_bytes l ++ chain ++ pdu)) with pdu.
  2:{ replace (hdr ++ be16 id0 ++ label_bytes l ++ chain ++ pdu) with ((hdr ++ be16 id0 ++ label_bytes l ++ chain) ++ pdu) by (now rewrite <- !app_assoc).
      symmetry. apply dropN_app_eq. subst hdr. autorewrite with lens. subst ll. lia. }
  reflexivity.
Qed.

(* a packet whose extension area names a mandatory extension the receiver does not know is dropped whole *)
Lemma complete_hl_unknown_x s l id0 body blen : label_wf l -> is_zero6 l = false -> id0 < 65536 ->
  lenN body + lenN (label_bytes l) + 2 < 4096 ->
  walk_fn mgr body id0 = inr WUnknownMandatory ->
  complete_hl mgr s (pkt_complete_x l id0 body []) (label_type l) blen =
  err_last s DUnkownMandatoryHeader (4 + lenN (label_bytes l) + lenN body).
Proof.
  intros Hw Hz Hid Hlen Hwalk. unfold complete_hl. rewrite (lenN_pkt_complete_x crc), (lt_len_label l Hw). rewrite lenN_nil, N.add_0_r.
  set (ll := lenN (label_bytes l)) in *.
  assert (Hl6 : ll <= 6) by (subst ll; rewrite <- (lt_len_label l Hw); apply lt_len_le).
  destruct (N.ltb_spec (4 + ll + lenN body - 2) (ll + 2)); [lia|].
  unfold pkt_complete_x. fold ll. rewrite app_nil_r. rewrite drop2_be16, take2_be16, rd16_be16 by lia.
  set (hdr := be16 (hdr_arith KComplete (label_type l) (lenN (@nil byte) + ll + 2 + lenN body))).
  replace (dropN 4 (hdr ++ be16 id0 ++ label_bytes l ++ body)) with (label_bytes l ++ body).
  2:{ replace (hdr ++ be16 id0 ++ label_bytes l ++ body) with ((hdr ++ be16 id0) ++ label_bytes l ++ body) by (now rewrite <- !app_assoc).
      symmetry. apply dropN_app_eq. reflexivity. }
  rewrite takeN_app_eq by reflexivity. rewrite mk_label_bytes, Hz.
  replace (dropN (4 + ll) (hdr ++ be16 id0 ++ label_bytes l ++ body)) with body.
  2:{ replace (hdr ++ be16 id0 ++ label_bytes l ++ body) with ((hdr ++ be16 id0 ++ label_bytes l) ++ body) by (now rewrite <- !app_assoc).
      symmetry. apply dropN_app_eq. subst hdr. autorewrite with lens. subst ll. lia. }
  rewrite Hwalk. reflexivity.
Qed.

(* ---------- first fragment with an extension area ---------- *)
Lemma first_hl_sender_x s l fid tl id0 chain payload blen xs p : label_wf l -> is_zero6 l = false -> id0 < 65536 ->
  tl < 65536 -> 5 + lenN (label_bytes l) + lenN chain + lenN payload < 4096 ->
  walk_fn mgr (chain ++ payload) id0 = inl {| w_exts := xs; w_ptype := p; w_len := lenN chain |} ->
  first_hl mgr s (pkt_first_x l fid tl id0 chain payload) (label_type l) blen =
  let n := 7 + lenN (label_bytes l) + lenN chain + lenN payload in
  match resolve_hl s (label_type l) l with
  | inr e => err_last s e n
  | inl (s1, cur) =>
    if tl <=? lenN payload then err_last s1 DTotalLength blen else
    let c := {| c_label := cur; c_ptype := p; c_fid := fid; c_total := tl; c_pdulen := lenN payload;
                c_reuse := ltype_eqb (label_type l) TR; c_exts := xs |} in
    match new_frag_fn (dmem s1) c with
    | (m, inr e) => err_last (set_dmem s1 m) (DMemory e) n
    | (m, inl (c', pb)) =>
      if lenN (bdata pb) <? lenN payload
      then give_back_hl (set_dlast (set_dmem s1 m) None) pb DSizePduBuffer n
      else
        match save_frag_fn m (c', {| bid := bid pb; bdata := payload ++ dropN (lenN payload) (bdata pb) |}) with
        | (m', None) =>
            (set_dmem s1 m',
             inl (DFragmented {| md_pdu_len := 0; md_ptype := c_ptype c'; md_label := c_label c'; md_exts := xs |}, n))
        | (m', Some e) => (set_dmem s1 m', inr (DMemory e, n))
        end
    end
  end.
Proof.
  intros Hw Hz Hid Htl Hlen Hwalk. unfold first_hl. rewrite (lenN_pkt_first_x crc), (lt_len_label l Hw).
  set (ll := lenN (label_bytes l)) in *.
  assert (Hl6 : ll <= 6) by (subst ll; rewrite <- (lt_len_label l Hw); apply lt_len_le).
  destruct (N.ltb_spec (7 + ll + lenN chain + lenN payload - 2) (ll + 5)); [lia|].
  unfold pkt_first_x. fold ll. rewrite drop2_be16. cbn [app hd0].
  set (hdr := be16 (hdr_arith KFirst (label_type l) (5 + ll + lenN chain + lenN payload))).
  set (whole := hdr ++ fid :: be16 tl ++ be16 id0 ++ label_bytes l ++ chain ++ payload).
  assert (D3 : dropN 3 whole = be16 tl ++ be16 id0 ++ label_bytes l ++ chain ++ payload).
  { replace whole with ((hdr ++ [fid]) ++ be16 tl ++ be16 id0 ++ label_bytes l ++ chain ++ payload) by (subst whole; now rewrite <- !app_assoc).
    apply dropN_app_eq. reflexivity. }
  assert (D5 : dropN 5 whole = be16 id0 ++ label_bytes l ++ chain ++ payload).
  { replace whole with ((hdr ++ [fid] ++ be16 tl) ++ be16 id0 ++ label_bytes l ++ chain ++ payload) by (subst whole; now rewrite <- !app_assoc).
    apply dropN_app_eq. reflexivity. }
  assert (D7 : dropN 7 whole = label_bytes l ++ chain ++ payload).
  { replace whole with ((hdr ++ [fid] ++ be16 tl ++ be16 id0) ++ label_bytes l ++ chain ++ payload) by (subst whole; now rewrite <- !app_assoc).
    apply dropN_app_eq. reflexivity. }
  assert (D7l : forall x, x = 7 + ll -> dropN x whole = chain ++ payload).
  { intros x ->. replace whole with ((hdr ++ [fid] ++ be16 tl ++ be16 id0 ++ label_bytes l) ++ chain ++ payload) by (subst whole; now rewrite <- !app_assoc).
    apply dropN_app_eq. subst hdr. autorewrite with lens. subst ll. lia. }
  assert (D7c : forall x, x = 7 + ll + lenN chain -> dropN x whole = payload).
  { intros x ->. replace whole with ((hdr ++ [fid] ++ be16 tl ++ be16 id0 ++ label_bytes l ++ chain) ++ payload) by (subst whole; now rewrite <- !app_assoc).
    apply dropN_app_eq. subst hdr. autorewrite with lens. subst ll. lia. }
  rewrite D3, D5, D7. rewrite !take2_be16, !rd16_be16 by lia.
  rewrite takeN_app_eq by reflexivity. rewrite mk_label_bytes, Hz.
  destruct (resolve_hl s (label_type l) l) as [[s1 cur]|e]; [|reflexivity].
  rewrite (D7l (7 + ll)) by reflexivity. rewrite Hwalk. cbn [w_len w_ptype w_exts]. cbv zeta.
  rewrite (D7c (7 + ll + lenN chain)) by lia.
  reflexivity.
Qed.

Lemma first_hl_unknown_x s l fid tl id0 body blen : label_wf l -> is_zero6 l = false -> id0 < 65536 ->
  tl < 65536 -> 5 + lenN (label_bytes l) + lenN body < 4096 ->
  walk_fn mgr body id0 = inr WUnknownMandatory ->
  first_hl mgr s (pkt_first_x l fid tl id0 body []) (label_type l) blen =
  match resolve_hl s (label_type l) l with
  | inr e => err_last s e (7 + lenN (label_bytes l) + lenN body)
  | inl (s1, _) => err_last s1 DUnkownMandatoryHeader (7 + lenN (label_bytes l) + lenN body)
  end.
Proof.
  intros Hw Hz Hid Htl Hlen Hwalk. unfold first_hl. rewrite (lenN_pkt_first_x crc), (lt_len_label l Hw). rewrite lenN_nil, N.add_0_r.
  set (ll := lenN (label_bytes l)) in *.
  assert (Hl6 : ll <= 6) by (subst ll; rewrite <- (lt_len_label l Hw); apply lt_len_le).
  destruct (N.ltb_spec (7 + ll + lenN body - 2) (ll + 5)); [lia|].
  unfold pkt_first_x. fold ll. rewrite drop2_be16. rewrite app_nil_r. cbn [app hd0].
  set (hdr := be16 (hdr_arith KFirst (label_type l) (5 + ll + lenN body + lenN (@nil byte)))).
  set (whole := hdr ++ fid :: be16 tl ++ be16 id0 ++ label_bytes l ++ body).
  assert (D3 : dropN 3 whole = be16 tl ++ be16 id0 ++ label_bytes l ++ body).
  { replace whole with ((hdr ++ [fid]) ++ be16 tl ++ be16 id0 ++ label_bytes l ++ body) by (subst whole; now rewrite <- !app_assoc).
    apply dropN_app_eq. reflexivity. }
  assert (D5 : dropN 5 whole = be16 id0 ++ label_bytes l ++ body).
  { replace whole with ((hdr ++ [fid] ++ be16 tl) ++ be16 id0 ++ label_bytes l ++ body) by (subst whole; now rewrite <- !app_assoc).
    apply dropN_app_eq. reflexivity. }
  assert (D7 : dropN 7 whole = label_bytes l ++ body).
  { replace whole with ((hdr ++ [fid] ++ be16 tl ++ be16 id0) ++ label_bytes l ++ body) by (subst whole; now rewrite <- !app_assoc).
    apply dropN_app_eq. reflexivity. }
  assert (D7l : forall x, x = 7 + ll -> dropN x whole = body).
  { intros x ->. replace whole with ((hdr ++ [fid] ++ be16 tl ++ be16 id0 ++ label_bytes l) ++ body) by (subst whole; now rewrite <- !app_assoc).
    apply dropN_app_eq. subst hdr. autorewrite with lens. subst ll. lia. }
  rewrite D3, D5, D7. rewrite !take2_be16, !rd16_be16 by lia.
  rewrite takeN_app_eq by reflexivity. rewrite mk_label_bytes, Hz.
  destruct (resolve_hl s (label_type l) l) as [[s1 cur]|e]; [|reflexivity].
  rewrite (D7l (7 + ll)) by reflexivity. rewrite Hwalk. reflexivity.
Qed.
End XT.

Lemma chain_body_ok es : Forall (fun e => bytes_ok (ext_bytes e)) es -> bytes_ok (chain_body es).
Proof.
  induction es as [|e t IH]; intro H; [constructor|]. inversion H as [|? ? He Ht]; subst. destruct t as [|e' t'].
  - exact He.
  - rewrite chain_body_cons2. apply bytes_ok_app; split; [exact He|]. apply bytes_ok_app; split; [apply be16_ok|]. apply IH, Ht.
Qed.
Lemma chain_bytes_ok es final pt : Forall (fun e => bytes_ok (ext_bytes e)) es -> bytes_ok (chain_bytes es final pt).
Proof. intro H. unfold chain_bytes. apply bytes_ok_app; split; [now apply chain_body_ok|]. destruct final; [constructor|apply be16_ok]. Qed.

Section XF.
Variable crc : list byte -> N -> N -> list byte -> N.
Variable mgr : N -> mand.
Hypothesis crc_bound : forall a b c d, crc a b c d < 4294967296.

Lemma pkt_first_x_ok l fid tl id0 chain payload : label_wf l -> fid < 256 -> bytes_ok chain -> bytes_ok payload ->
  bytes_ok (pkt_first_x l fid tl id0 chain payload).
Proof. intros. unfold pkt_first_x. repeat (apply bytes_ok_app; split); auto using be16_ok, label_bytes_ok. repeat constructor. assumption. Qed.
Lemma pkt_complete_x_ok l id0 chain pdu : label_wf l -> bytes_ok chain -> bytes_ok pdu -> bytes_ok (pkt_complete_x l id0 chain pdu).
Proof. intros. unfold pkt_complete_x. repeat (apply bytes_ok_app; split); auto using be16_ok, label_bytes_ok. Qed.

(* the first fragment, carrying the whole extension area, opens the reassembly with the extensions recorded *)
Lemma decap_first_step_x R l fid id0 chain xs p pdu k0 R1 cur : label_wf l -> is_zero6 l = false -> id0 < 65536 -> fid < 256 ->
  bytes_ok pdu -> bytes_ok chain -> k0 < lenN pdu -> lenN pdu + 2 + lenN (label_bytes l) <= 65535 ->
  5 + lenN (label_bytes l) + lenN chain + k0 < 4096 ->
  walk_fn mgr (chain ++ takeN k0 pdu) id0 = inl {| w_exts := xs; w_ptype := p; w_len := lenN chain |} ->
  dstate_wf R -> resolve_hl R (label_type l) l = inl (R1, cur) ->
  lenN pdu <= max_pdu_size (dmem R) -> max_frag_id (dmem R) <> 0 ->
  (slot_of (dmem R) fid <> None \/ storages (dmem R) <> []) ->
  let tl := lenN pdu + 2 + lenN (label_bytes l) in
  let c0 := {| c_label := cur; c_ptype := p; c_fid := fid; c_total := tl; c_pdulen := 0;
               c_reuse := ltype_eqb (label_type l) TR; c_exts := xs |} in
  exists R', decap crc mgr R (pkt_first_x l fid tl id0 chain (takeN k0 pdu)) =
      Ret (R', inl (DFragmented {| md_pdu_len := 0; md_ptype := p; md_label := cur; md_exts := xs |},
                    7 + lenN (label_bytes l) + lenN chain + k0))
    /\ slot_inv R' c0 pdu k0 /\ dlast R' = dlast R1.
Proof.
  intros Hw Hz Hid Hfid Hpdu Hchain Hk Htl Hg Hwalk Hwf Hres Hmax Hslots Havail tl c0.
  set (payload := takeN k0 pdu) in *.
  assert (Lp : lenN payload = k0) by (subst payload; rewrite lenN_takeN; lia).
  assert (Hb : bytes_ok (pkt_first_x l fid tl id0 chain payload)) by (apply pkt_first_x_ok; auto; apply bytes_ok_takeN, Hpdu).
  rewrite decap_spec by assumption.
  rewrite <- (app_nil_r (pkt_first_x l fid tl id0 chain payload)).
  rewrite (decap_hl_packet crc mgr R _ [] (5 + lenN (label_bytes l) + lenN chain + k0) KFirst (label_type l)).
  2:{ rewrite (lenN_pkt_first_x crc). lia. }
  2:{ unfold pkt_first_x. rewrite take2_be16, rd16_be16 by (apply hdr_arith_lt; lia). rewrite Lp.
      apply hdr_view_arith; [lia|]. intros [? _]; discriminate. }
  pose proof (first_hl_wf crc mgr R (pkt_first_x l fid tl id0 chain payload) (label_type l)
                (lenN (pkt_first_x l fid tl id0 chain payload) + lenN (@nil byte)) Hwf Hb ltac:(rewrite (lenN_pkt_first_x crc); lia)) as W.
  rewrite (first_hl_sender_x crc mgr _ _ _ _ _ _ _ _ xs p) in * by (auto; subst tl; lia). cbv zeta in *. rewrite Hres in *. rewrite Lp in *.
  destruct (N.leb_spec tl k0) as [Hbad|_]; [subst tl; lia|].
  pose proof (resolve_hl_wf _ _ _ _ _ Hwf Hres) as Hwf1. pose proof (resolve_hl_mem _ _ _ _ _ Hres) as Hm1.
  destruct (new_frag_fn (dmem R1) (ctx_at c0 k0)) as [m r] eqn:En.
  change {| c_label := cur; c_ptype := p; c_fid := fid; c_total := tl; c_pdulen := k0;
            c_reuse := ltype_eqb (label_type l) TR; c_exts := xs |} with (ctx_at c0 k0) in *.
  rewrite En in *.
  destruct (mem_ok_new_frag _ _ _ _ Hwf1 En) as (Hok & Hmf & Hmp & Hr).
  destruct r as [[c' pb]|e].
  2:{ exfalso. subst m. unfold new_frag_fn in En. rewrite Hm1 in En.
      destruct (N.eqb_spec (max_frag_id (dmem R)) 0); [contradiction|].
      cbn [ctx_at c_fid c0] in En. destruct (slot_of (dmem R) fid) as [[? ?]|]; [discriminate|].
      destruct (storages (dmem R)); [|discriminate]. destruct Havail as [H|H]; now apply H. }
  destruct Hr as (-> & Hbo & Hsl & Hz2).
  assert (Hbig : lenN pdu <= lenN (bdata pb)) by (unfold buf_ok in Hbo; rewrite Hm1 in Hbo; lia).
  destruct (N.ltb_spec (lenN (bdata pb)) k0); [lia|].
  match type of W with context [save_frag_fn m ?x] => set (cb := x) in * end.
  destruct (save_frag_empty m cb) as (Esv & _); [apply Hok|now rewrite Hmf|exact Hsl|].
  rewrite Esv in *. cbn [fst] in W.
  eexists. split; [reflexivity|]. split; [|reflexivity].
  exists (snd cb). split; [exact W|]. cbn [dmem set_dmem].
  destruct Hok as (Hmw & _).
  rewrite slot_of_set_slot by (try assumption; apply N.mod_lt; now rewrite Hmf).
  cbn [fst cb c_fid ctx_at c0]. rewrite N.eqb_refl. split; [reflexivity|].
  cbn [snd cb bdata]. split.
  - rewrite takeN_app_eq by (now rewrite Lp). reflexivity.
  - rewrite lenN_app, lenN_dropN, Lp. lia.
Qed.
End XF.

(* ---------- what an Ok answer of encap_ext says ---------- *)
#[local] Opaque pkt_complete_x pkt_first_x.
Section Inv.
Variable crc : list byte -> N -> N -> list byte -> N.

Definition ext_type_ok (exts : list ext) (pt : N) : Prop :=
  exists e0 rest, exts = e0 :: rest /\
    (if pt <? 256 then ext_id (last_of exts e0) = pt else 1536 <= pt).

Lemma encap_ext_completed S pdu fid pt lab buf exts S' b' n : label_wf lab ->
  encap_ext_hl crc S pdu fid pt lab buf exts = (S', b', inl (Completed n)) ->
  ext_type_ok exts pt /\ is_zero6 lab = false /\
  let l := snd (check_reuse_hl S lab) in
  let chain := chain_bytes exts (pt <? 256) pt in
  S' = fst (check_reuse_hl S lab) /\
  b' = pkt_complete_x l (first_id exts pt) chain pdu ++ dropN n buf /\
  n = 4 + lenN (label_bytes l) + lenN chain + lenN pdu /\ n <= lenN buf /\
  lenN pdu + lenN (label_bytes l) + 2 + lenN chain <= 4095.
Proof.
  intros Hw H. unfold encap_ext_hl in H. destruct exts as [|e0 rest] eqn:Ee; [discriminate|]. rewrite <- Ee in *.
  destruct (pt <? 256) eqn:Ef; cbn [andb negb] in H.
  - destruct (N.eqb_spec (ext_id (last_of exts e0)) pt) as [Hl|Hl]; cbn [negb] in H; [|discriminate].
    destruct (is_zero6 lab) eqn:Ez; [discriminate|].
    destruct (check_reuse_hl S lab) as [s1 l] eqn:Hc. cbn [fst snd].
    destruct ((4 + lenN (label_bytes l) + lenN (chain_bytes exts true pt) + lenN pdu <=? lenN buf) &&
              (lenN pdu + lenN (label_bytes l) + 2 + lenN (chain_bytes exts true pt) <=? 4095)) eqn:Hfit.
    + injection H as <- <- <-. apply andb_prop in Hfit as [Hf Hg]. apply N.leb_le in Hf. apply N.leb_le in Hg.
      split; [exists e0, rest; rewrite Ef; auto|]. split; [reflexivity|]. rewrite (lenN_pkt_complete_x crc).
      subst exts. cbn [first_id]. repeat split; lia.
    + destruct (lenN buf <? _); [discriminate|]. destruct (65535 <? _); [discriminate|]. destruct (4095 <? _); discriminate.
  - destruct (pt <? 1536) eqn:Ep; [discriminate|]. apply N.ltb_ge in Ep.
    destruct (is_zero6 lab) eqn:Ez; [discriminate|].
    destruct (check_reuse_hl S lab) as [s1 l] eqn:Hc. cbn [fst snd].
    destruct ((4 + lenN (label_bytes l) + lenN (chain_bytes exts false pt) + lenN pdu <=? lenN buf) &&
              (lenN pdu + lenN (label_bytes l) + 2 + lenN (chain_bytes exts false pt) <=? 4095)) eqn:Hfit.
    + injection H as <- <- <-. apply andb_prop in Hfit as [Hf Hg]. apply N.leb_le in Hf. apply N.leb_le in Hg.
      split; [exists e0, rest; rewrite Ef; auto|]. split; [reflexivity|]. rewrite (lenN_pkt_complete_x crc).
      subst exts. cbn [first_id]. repeat split; lia.
    + destruct (lenN buf <? _); [discriminate|]. destruct (65535 <? _); [discriminate|]. destruct (4095 <? _); discriminate.
Qed.

Lemma encap_ext_fragmented S pdu fid pt lab buf exts S' b' n c : label_wf lab ->
  encap_ext_hl crc S pdu fid pt lab buf exts = (S', b', inl (Fragmented n c)) ->
  ext_type_ok exts pt /\ is_zero6 lab = false /\
  let l := snd (check_reuse_hl S lab) in
  let chain := chain_bytes exts (pt <? 256) pt in
  let tl := lenN pdu + 2 + lenN (label_bytes l) in
  S' = fst (check_reuse_hl S lab) /\
  b' = pkt_first_x l fid tl (first_id exts pt) chain (takeN (cf_len c) pdu) ++ dropN n buf /\
  c = {| cf_id := fid; cf_crc := crc pdu pt tl (label_bytes l); cf_len := cf_len c |} /\
  n = 7 + lenN (label_bytes l) + lenN chain + cf_len c /\ n <= lenN buf /\ cf_len c < lenN pdu /\
  tl <= 65535 /\ 5 + lenN (label_bytes l) + lenN chain + cf_len c <= 4095.
Proof.
  intros Hw H. unfold encap_ext_hl in H. destruct exts as [|e0 rest] eqn:Ee; [discriminate|]. rewrite <- Ee in *.
  assert (TAIL : forall final, ext_type_ok exts pt -> final = (pt <? 256) -> is_zero6 lab = false ->
    (let '(s1, l) := check_reuse_hl S lab in
     if (4 + lenN (label_bytes l) + lenN (chain_bytes exts final pt) + lenN pdu <=? lenN buf) &&
        (lenN pdu + lenN (label_bytes l) + 2 + lenN (chain_bytes exts final pt) <=? 4095)
     then (s1, pkt_complete_x l (ext_id e0) (chain_bytes exts final pt) pdu ++
               dropN (lenN (pkt_complete_x l (ext_id e0) (chain_bytes exts final pt) pdu)) buf,
           inl (Completed (lenN (pkt_complete_x l (ext_id e0) (chain_bytes exts final pt) pdu))))
     else if lenN buf <? 7 + lenN (label_bytes l) + lenN (chain_bytes exts final pt) then (S, buf, inr ESizeBuffer)
     else if 65535 <? lenN pdu + 2 + lenN (label_bytes l) then (S, buf, inr EPduLength)
     else if 4095 <? 5 + lenN (label_bytes l) + lenN (chain_bytes exts final pt) then (S, buf, inr EPduLength)
     else
       (s1, pkt_first_x l fid (lenN pdu + 2 + lenN (label_bytes l)) (ext_id e0) (chain_bytes exts final pt)
              (takeN (N.min (lenN buf - (7 + lenN (label_bytes l) + lenN (chain_bytes exts final pt)))
                            (4095 - (5 + lenN (label_bytes l) + lenN (chain_bytes exts final pt)))) pdu) ++
            dropN (lenN (pkt_first_x l fid (lenN pdu + 2 + lenN (label_bytes l)) (ext_id e0) (chain_bytes exts final pt)
              (takeN (N.min (lenN buf - (7 + lenN (label_bytes l) + lenN (chain_bytes exts final pt)))
                            (4095 - (5 + lenN (label_bytes l) + lenN (chain_bytes exts final pt)))) pdu))) buf,
        inl (Fragmented (lenN (pkt_first_x l fid (lenN pdu + 2 + lenN (label_bytes l)) (ext_id e0) (chain_bytes exts final pt)
              (takeN (N.min (lenN buf - (7 + lenN (label_bytes l) + lenN (chain_bytes exts final pt)))
                            (4095 - (5 + lenN (label_bytes l) + lenN (chain_bytes exts final pt)))) pdu)))
               {| cf_id := fid; cf_crc := crc pdu pt (lenN pdu + 2 + lenN (label_bytes l)) (label_bytes l);
                  cf_len := N.min (lenN buf - (7 + lenN (label_bytes l) + lenN (chain_bytes exts final pt)))
                                  (4095 - (5 + lenN (label_bytes l) + lenN (chain_bytes exts final pt))) |})))
    = (S', b', inl (Fragmented n c)) ->
    ext_type_ok exts pt /\ is_zero6 lab = false /\
    S' = fst (check_reuse_hl S lab) /\
    b' = pkt_first_x (snd (check_reuse_hl S lab)) fid (lenN pdu + 2 + lenN (label_bytes (snd (check_reuse_hl S lab)))) (first_id exts pt)
           (chain_bytes exts (pt <? 256) pt) (takeN (cf_len c) pdu) ++ dropN n buf /\
    c = {| cf_id := fid; cf_crc := crc pdu pt (lenN pdu + 2 + lenN (label_bytes (snd (check_reuse_hl S lab)))) (label_bytes (snd (check_reuse_hl S lab)));
           cf_len := cf_len c |} /\
    n = 7 + lenN (label_bytes (snd (check_reuse_hl S lab))) + lenN (chain_bytes exts (pt <? 256) pt) + cf_len c /\ n <= lenN buf /\
    cf_len c < lenN pdu /\
    lenN pdu + 2 + lenN (label_bytes (snd (check_reuse_hl S lab))) <= 65535 /\
    5 + lenN (label_bytes (snd (check_reuse_hl S lab))) + lenN (chain_bytes exts (pt <? 256) pt) + cf_len c <= 4095).
  { intros final Hok -> Ez H'. destruct (check_reuse_hl S lab) as [s1 l] eqn:Hc. cbn [fst snd].
    destruct ((4 + lenN (label_bytes l) + lenN (chain_bytes exts (pt <? 256) pt) + lenN pdu <=? lenN buf) &&
              (lenN pdu + lenN (label_bytes l) + 2 + lenN (chain_bytes exts (pt <? 256) pt) <=? 4095)) eqn:Hfit; [discriminate|].
    destruct (N.ltb_spec (lenN buf) (7 + lenN (label_bytes l) + lenN (chain_bytes exts (pt <? 256) pt))); [discriminate|].
    destruct (N.ltb_spec 65535 (lenN pdu + 2 + lenN (label_bytes l))); [discriminate|].
    destruct (N.ltb_spec 4095 (5 + lenN (label_bytes l) + lenN (chain_bytes exts (pt <? 256) pt))); [discriminate|].
    injection H' as <- <- <- <-. rewrite (lenN_pkt_first_x crc), lenN_takeN. cbn [cf_len].
    assert (Hpe : N.min (lenN buf - (7 + lenN (label_bytes l) + lenN (chain_bytes exts (pt <? 256) pt)))
                        (4095 - (5 + lenN (label_bytes l) + lenN (chain_bytes exts (pt <? 256) pt))) < lenN pdu).
    { apply andb_false_iff in Hfit as [Hn|Hn]; apply N.leb_gt in Hn; lia. }
    subst exts. cbn [first_id]. repeat split; try assumption; try lia. }
  destruct (pt <? 256) eqn:Ef; cbn [andb negb] in H.
  - destruct (N.eqb_spec (ext_id (last_of exts e0)) pt) as [Hl|Hl]; cbn [negb] in H; [|discriminate].
    destruct (is_zero6 lab) eqn:Ez; [discriminate|].
    apply (TAIL true); auto. exists e0, rest. rewrite Ef. auto.
  - destruct (pt <? 1536) eqn:Ep; [discriminate|]. apply N.ltb_ge in Ep.
    destruct (is_zero6 lab) eqn:Ez; [discriminate|].
    apply (TAIL false); auto. exists e0, rest. rewrite Ef. auto.
Qed.
End Inv.

(* ---------- the round trips ---------- *)
Lemma first_id_lt exts pt : Forall ext_built exts -> pt < 65536 -> first_id exts pt < 65536.
Proof. intros H Hp. destruct exts as [|e t]; [exact Hp|]. inversion H as [|? ? He _]; subst. pose proof (ext_built_id e He). cbn. lia. Qed.

Lemma chain_walk (mgr : N -> mand) exts pt pdu' : Forall ext_built exts -> ext_type_ok exts pt -> pt < 65536 ->
  chain_known mgr exts (pt <? 256) ->
  walk_fn mgr (chain_bytes exts (pt <? 256) pt ++ pdu') (first_id exts pt) =
  inl {| w_exts := exts; w_ptype := pt; w_len := lenN (chain_bytes exts (pt <? 256) pt) |}.
Proof.
  intros Hb (e0 & rest & Ee & Hty) Hp Hk. apply (walk_fn_chain mgr exts e0); [rewrite Ee; discriminate|exact Hk|].
  destruct (pt <? 256); [exact Hty|lia].
Qed.

Section Trips0.
Variable crc : list byte -> N -> N -> list byte -> N.
Variable mgr : N -> mand.

Theorem ext_complete_roundtrip S pdu fid pt lab buf exts S' buf' n R tail cur R1 pb rest :
  enc_wf S -> label_wf lab -> bytes_ok pdu -> bytes_ok tail -> pt < 65536 ->
  Forall ext_built exts -> Forall (fun e => bytes_ok (ext_bytes e)) exts ->
  encap_ext crc S pdu fid pt lab buf exts = Ret (S', buf', inl (Completed n)) ->
  chain_known mgr exts (pt <? 256) ->
  dstate_wf R ->
  let l := snd (check_reuse_hl S lab) in
  resolve_hl R (label_type l) l = inl (R1, cur) ->
  storages (dmem R) = pb :: rest -> lenN pdu <= lenN (bdata pb) ->
  decap crc mgr R (takeN n buf' ++ tail) =
    Ret (set_dmem R1 (set_storages (dmem R1) rest),
         inl (DCompleted {| bid := bid pb; bdata := pdu ++ dropN (lenN pdu) (bdata pb) |}
                {| md_pdu_len := lenN pdu; md_ptype := pt; md_label := cur; md_exts := exts |}, n))
  /\ hdr_view (rd16 (takeN 2 buf')) = Some (n - 2, KComplete, label_type l).
Proof.
  intros HS Hw Hpdu Htail Hpt Hb Hbo He Hk HR l Hres Hst Hfit.
  assert (Hxw : Forall ext_wf exts) by (revert Hb; apply Forall_impl; exact ext_built_wf).
  rewrite encap_ext_spec in He by assumption. injection He as He.
  destruct (encap_ext_completed crc _ _ _ _ _ _ _ _ _ _ Hw He) as (Hty & Hz & HS' & Hb' & Hn & Hnb & Hg). fold l in HS', Hb', Hn, Hg.
  set (chain := chain_bytes exts (pt <? 256) pt) in *.
  destruct (check_reuse_hl S lab) as [s1 l'] eqn:Hc. cbn [snd fst] in *. subst l.
  pose proof (check_reuse_label_wf _ _ _ _ Hw Hc) as Hwl.
  assert (Hzl : is_zero6 l' = false).
  { apply check_reuse_cases in Hc as [(-> & _)|(-> & _)]; [reflexivity|exact Hz]. }
  assert (Hid : first_id exts pt < 65536) by (apply first_id_lt; assumption).
  assert (Hhdr : hdr_view (rd16 (takeN 2 buf')) = Some (n - 2, KComplete, label_type l')).
  { rewrite Hb'. with_strategy transparent [pkt_complete_x] unfold pkt_complete_x. rewrite <- !app_assoc.
    rewrite take2_be16, rd16_be16 by (apply hdr_arith_lt; lia).
    replace (n - 2) with (lenN pdu + lenN (label_bytes l') + 2 + lenN chain) by lia.
    apply hdr_view_arith; [lia|]. intros [? _]; discriminate. }
  split; [|exact Hhdr].
  rewrite Hb'. rewrite takeN_app_eq by (rewrite (lenN_pkt_complete_x crc); lia).
  assert (Hbytes : bytes_ok (pkt_complete_x l' (first_id exts pt) chain pdu ++ tail)).
  { apply bytes_ok_app. split; [|exact Htail]. apply pkt_complete_x_ok; auto. now apply chain_bytes_ok. }
  rewrite decap_spec by assumption.
  rewrite (decap_hl_packet crc mgr R _ tail (lenN pdu + lenN (label_bytes l') + 2 + lenN chain) KComplete (label_type l')).
  2:{ rewrite (lenN_pkt_complete_x crc). lia. }
  2:{ with_strategy transparent [pkt_complete_x] unfold pkt_complete_x. rewrite take2_be16, rd16_be16 by (apply hdr_arith_lt; lia).
      apply hdr_view_arith; [lia|]. intros [? _]; discriminate. }
  rewrite (complete_hl_sender_x crc mgr R l' (first_id exts pt) chain pdu _ exts pt) by (auto; try lia; apply (chain_walk mgr); assumption).
  cbv zeta. rewrite Hres.
  assert (Hm : dmem R1 = dmem R) by (eapply resolve_hl_mem; eauto). rewrite Hm, Hst.
  destruct (N.ltb_spec (lenN (bdata pb)) (lenN pdu)); [lia|].
  rewrite Hn. reflexivity.
Qed.

End Trips0.

Section Trips.
Variable crc : list byte -> N -> N -> list byte -> N.
Variable mgr : N -> mand.
Hypothesis crc_bound : forall a b c d, crc a b c d < 4294967296.

Theorem ext_fragmented_roundtrip S pdu fid pt lab b0 exts S' b0' n0 c0 bufs ps R R1 cur :
  enc_wf S -> label_wf lab -> bytes_ok pdu -> fid < 256 -> pt < 65536 ->
  Forall ext_built exts -> Forall (fun e => bytes_ok (ext_bytes e)) exts ->
  encap_ext crc S pdu fid pt lab b0 exts = Ret (S', b0', inl (Fragmented n0 c0)) ->
  frag_run pdu c0 bufs = Ret (ps, None) ->
  chain_known mgr exts (pt <? 256) ->
  dstate_wf R ->
  let l := snd (check_reuse_hl S lab) in
  resolve_hl R (label_type l) l = inl (R1, cur) ->
  lenN pdu <= max_pdu_size (dmem R) -> max_frag_id (dmem R) <> 0 ->
  (slot_of (dmem R) fid <> None \/ storages (dmem R) <> []) ->
  let mdf := {| md_pdu_len := 0; md_ptype := pt; md_label := cur; md_exts := exts |} in
  exists R' b lastp,
    ps = removelast ps ++ [lastp] /\
    recv_run crc mgr R (takeN n0 b0' :: ps) =
      Ret (R', inl (DFragmented mdf, n0)
               :: map (fun p => inl (DFragmented mdf, lenN p)) (removelast ps)
               ++ [inl (DCompleted b {| md_pdu_len := lenN pdu; md_ptype := pt; md_label := cur; md_exts := exts |},
                        lenN lastp)])
    /\ takeN (lenN pdu) (bdata b) = pdu /\ dstate_wf R'
    /\ hdr_view (rd16 (takeN 2 b0')) = Some (n0 - 2, KFirst, label_type l).
Proof.
  intros HS Hw Hpdu Hfid Hpt Hb Hbo He Hrun Hk HR l Hres Hmax Hz Hav mdf.
  assert (Hxw : Forall ext_wf exts) by (revert Hb; apply Forall_impl; exact ext_built_wf).
  rewrite encap_ext_spec in He by assumption. injection He as He.
  destruct (encap_ext_fragmented crc _ _ _ _ _ _ _ _ _ _ _ Hw He) as (Hty & Hzl & HS' & Hb' & Hc0 & Hn & Hnb & Hlt & Htl & Hg).
  fold l in HS', Hb', Hc0, Hn, Htl, Hg.
  set (chain := chain_bytes exts (pt <? 256) pt) in *. set (pe := cf_len c0) in *.
  destruct (check_reuse_hl S lab) as [s1 l'] eqn:Hc. cbn [snd fst] in *. subst l.
  pose proof (check_reuse_label_wf _ _ _ _ Hw Hc) as Hwl.
  pose proof (lt_len_label l' Hwl) as Hll. pose proof (lt_len_le (label_type l')) as Hl6.
  assert (Hzl' : is_zero6 l' = false).
  { apply check_reuse_cases in Hc as [(-> & _)|(-> & _)]; [reflexivity|exact Hzl]. }
  assert (Hid : first_id exts pt < 65536) by (apply first_id_lt; assumption).
  set (tl := lenN pdu + 2 + lenN (label_bytes l')) in *.
  assert (Hhdr : hdr_view (rd16 (takeN 2 b0')) = Some (n0 - 2, KFirst, label_type l')).
  { rewrite Hb'. with_strategy transparent [pkt_first_x] unfold pkt_first_x. rewrite <- !app_assoc.
    rewrite take2_be16, rd16_be16 by (apply hdr_arith_lt; rewrite lenN_takeN; lia).
    replace (n0 - 2) with (5 + lenN (label_bytes l') + lenN chain + lenN (takeN pe pdu)) by (rewrite lenN_takeN; lia).
    apply hdr_view_arith; [rewrite lenN_takeN; lia|]. intros [? _]; discriminate. }
  rewrite Hb'. rewrite takeN_app_eq by (rewrite (lenN_pkt_first_x crc), lenN_takeN; lia).
  (* first fragment *)
  destruct (decap_first_step_x crc mgr crc_bound R l' fid (first_id exts pt) chain exts pt pdu pe R1 cur Hwl Hzl' Hid Hfid Hpdu
              ltac:(now apply chain_bytes_ok) Hlt ltac:(subst tl; lia) ltac:(lia)
              ltac:(apply (chain_walk mgr); assumption) HR Hres Hmax Hz Hav) as (Ra & Ea & Hinv & Hla).
  fold tl in Ea, Hinv.
  set (c0r := {| c_label := cur; c_ptype := pt; c_fid := fid; c_total := tl; c_pdulen := 0;
                 c_reuse := ltype_eqb (label_type l') TR; c_exts := exts |}) in *.
  assert (Hp16 : lenN pdu <= 65535) by (subst tl; lia).
  assert (Hcl : cf_len c0 <= lenN pdu) by (fold pe; lia).
  destruct (frag_run_train pdu Hp16 bufs c0 ps None Hcl Hrun) as (pls & Tr & _).
  rewrite Hc0 in Tr. cbn [cf_id cf_crc cf_len option_map] in Tr. fold pe in Tr.
  assert (Htot : c_total c0r = lenN pdu + 2 + (if c_reuse c0r then 0 else lt_len (label_type (c_label c0r)))).
  { cbn [c0r c_total c_reuse c_label]. subst tl. destruct (ltype_eqb (label_type l') TR) eqn:Et.
    - destruct l'; try discriminate. reflexivity.
    - rewrite (resolve_cur R l' R1 cur Hres) by (intro X; rewrite X in Et; discriminate). now rewrite Hll. }
  assert (Hcrcv : crc pdu pt tl (label_bytes l') =
                  crc pdu (c_ptype c0r) (c_total c0r) (if c_reuse c0r then [] else label_bytes (c_label c0r))).
  { cbn [c0r c_total c_reuse c_label c_ptype]. destruct (ltype_eqb (label_type l') TR) eqn:Et.
    - destruct l'; try discriminate. reflexivity.
    - now rewrite (resolve_cur R l' R1 cur Hres) by (intro X; rewrite X in Et; discriminate). }
  rewrite Hcrcv in Tr.
  destruct (train_recv crc mgr crc_bound pdu c0r Hpdu Hfid Hp16 Htot pe ps pls Tr Ra Hinv) as (R' & b & rs & lastp & Er & Eps & Ers & Hd & Hw' & _).
  exists R', b, lastp. split; [exact Eps|]. cbn [recv_run]. rewrite Ea. cbn [bind]. rewrite Er. cbn [bind].
  split; [|split; [assumption|split; [assumption|rewrite <- Hb'; exact Hhdr]]]. rewrite Ers, Hn. reflexivity.
Qed.
End Trips.

(* ---------- unknown mandatory extension: reported only for a whole complete / first packet, which is skipped ---------- *)
Section Unknown.
Variable crc : list byte -> N -> N -> list byte -> N.
Variable mgr : N -> mand.

Lemma give_back_not_unknown s pb e n R' n' : e <> DUnkownMandatoryHeader ->
  give_back_hl s pb e n <> (R', inr (DUnkownMandatoryHeader, n')).
Proof. intros He. unfold give_back_hl. destruct (provision (dmem s) pb) as [m [me|]]; intro H; injection H as _ H _; congruence. Qed.

Lemma resolve_not_unknown s t lab e : resolve_hl s t lab = inr e -> e <> DUnkownMandatoryHeader.
Proof. unfold resolve_hl. destruct t; try discriminate. destruct (dlast s) as [[| | |]|]; intros [= <-]; discriminate. Qed.

Lemma decap_hl_unknown R buf R' n : decap_hl crc mgr R buf = (R', inr (DUnkownMandatoryHeader, n)) ->
  exists gl k t, hdr_view (rd16 (takeN 2 buf)) = Some (gl, k, t) /\ (k = KComplete \/ k = KFirst) /\
    n = gl + 2 /\ gl + 2 <= lenN buf /\ dmem R' = dmem R.
Proof.
  unfold decap_hl. intro H.
  destruct (lenN buf <? 2); [discriminate|].
  destruct (hdr_view (rd16 (takeN 2 buf))) as [[[gl k] t]|]; [|discriminate].
  destruct (N.ltb_spec (lenN buf) (gl + 2)) as [|Hb]; [discriminate|].
  exists gl, k, t. split; [reflexivity|].
  assert (Lp : lenN (takeN (gl + 2) buf) = gl + 2) by (rewrite lenN_takeN; lia).
  destruct k.
  - (* complete *)
    unfold complete_hl, err_last in H. rewrite Lp in H.
    destruct (_ <? _) in H; [discriminate|]. cbv zeta in H.
    destruct (is_zero6 _) in H; [discriminate|].
    destruct (walk_fn _ _ _) as [w|[|]] in H.
    + destruct (resolve_hl _ _ _) as [[s1 cur]|e] eqn:Er in H.
      * destruct (storages (dmem s1)); [discriminate|]. destruct (_ <? _) in H; discriminate.
      * apply resolve_not_unknown in Er. injection H as _ H _. contradiction.
    + injection H as <- <-. cbn. auto.
    + discriminate.
  - (* first *)
    unfold first_hl, err_last in H. rewrite Lp in H.
    destruct (_ <? _) in H; [discriminate|]. cbv zeta in H.
    destruct (is_zero6 _) in H; [discriminate|].
    destruct (resolve_hl _ _ _) as [[s1 cur]|e] eqn:Er in H.
    2:{ apply resolve_not_unknown in Er. injection H as _ H _. contradiction. }
    pose proof (resolve_hl_mem _ _ _ _ _ Er) as Hm.
    destruct (walk_fn _ _ _) as [w|[|]] in H.
    + destruct (_ <=? _) in H; [discriminate|].
      destruct (new_frag_fn _ _) as [m [[c' pb]|e]] in H; [|discriminate].
      destruct (_ <? _) in H; [exfalso; revert H; apply give_back_not_unknown; discriminate|].
      destruct (save_frag_fn _ _) as [m' [e|]] in H; discriminate.
    + injection H as <- <-. cbn. auto.
    + discriminate.
  - (* intermediate *)
    exfalso. unfold inter_hl, err_last in H.
    destruct (_ <=? _) in H; [discriminate|]. cbv zeta in H.
    destruct (take_frag_fn _ _) as [m [[c pb]|e]] in H; [|discriminate].
    destruct (_ || _) in H; [revert H; apply give_back_not_unknown; discriminate|].
    destruct (save_frag_fn _ _) as [m' [e|]] in H; discriminate.
  - (* end *)
    exfalso. unfold end_hl, err_last in H.
    destruct (_ <? _) in H; [discriminate|]. cbv zeta in H.
    destruct (take_frag_fn _ _) as [m [[c pb]|e]] in H; [|discriminate].
    destruct (_ <? _) in H; [revert H; apply give_back_not_unknown; discriminate|].
    destruct (negb _) in H; [revert H; apply give_back_not_unknown; discriminate|].
    destruct (negb _) in H; [revert H; apply give_back_not_unknown; discriminate|].
    discriminate.
Qed.
End Unknown.

Lemma chain_body_prefix es1 e es2 : chain_body (es1 ++ e :: es2) = seg es1 (ext_id e) ++ chain_body (e :: es2).
Proof.
  induction es1 as [|a t IH]; [reflexivity|]. destruct t as [|b t'].
  - cbn [app]. rewrite chain_body_cons2. cbn [seg first_id]. now rewrite <- !app_assoc.
  - change ((a :: b :: t') ++ e :: es2) with (a :: b :: (t' ++ e :: es2)). rewrite chain_body_cons2.
    change (b :: t' ++ e :: es2) with ((b :: t') ++ e :: es2). rewrite IH. cbn [seg first_id]. now rewrite <- !app_assoc.
Qed.
Lemma first_id_prefix es1 e es2 nxt : first_id (es1 ++ e :: es2) nxt = first_id es1 (ext_id e).
Proof. destruct es1; reflexivity. Qed.

Lemma pkt_complete_x_body l id0 chain pdu : pkt_complete_x l id0 chain pdu = pkt_complete_x l id0 (chain ++ pdu) [].
Proof. with_strategy transparent [pkt_complete_x] unfold pkt_complete_x. rewrite lenN_app, lenN_nil, app_nil_r. do 3 f_equal. lia. Qed.
Lemma pkt_first_x_body l fid tl id0 chain payload : pkt_first_x l fid tl id0 chain payload = pkt_first_x l fid tl id0 (chain ++ payload) [].
Proof. with_strategy transparent [pkt_first_x] unfold pkt_first_x. rewrite lenN_app, lenN_nil, app_nil_r. do 3 f_equal. lia. Qed.

Section UnknownSender.
Variable crc : list byte -> N -> N -> list byte -> N.
Variable mgr : N -> mand.

Theorem ext_unknown_dropped S pdu fid pt lab buf exts S' buf' st R tail es1 e es2 :
  enc_wf S -> label_wf lab -> bytes_ok pdu -> bytes_ok tail -> fid < 256 -> pt < 65536 ->
  Forall ext_built exts -> Forall (fun e => bytes_ok (ext_bytes e)) exts ->
  encap_ext crc S pdu fid pt lab buf exts = Ret (S', buf', inl st) ->
  exts = es1 ++ e :: es2 -> Forall (nf_known mgr) es1 -> ext_id e < 256 -> mgr (ext_id e) = MUnknown ->
  dstate_wf R ->
  let n := match st with Completed n => n | Fragmented n _ => n end in
  let l := snd (check_reuse_hl S lab) in
  exists R' err, decap crc mgr R (takeN n buf' ++ tail) = Ret (R', inr (err, n)) /\ dmem R' = dmem R /\
    (err = DUnkownMandatoryHeader \/
     (exists n' c, st = Fragmented n' c) /\ resolve_hl R (label_type l) l = inr err).
Proof.
  intros HS Hw Hpdu Htail Hfid Hpt Hb Hbo He Hex Hk1 Hid Hunk HR n l.
  assert (Hxw : Forall ext_wf exts) by (revert Hb; apply Forall_impl; exact ext_built_wf).
  rewrite encap_ext_spec in He by assumption. injection He as He.
  assert (Hfi : first_id exts pt < 65536) by (apply first_id_lt; assumption).
  destruct st as [n0|n0 c0]; subst n.
  - destruct (encap_ext_completed crc _ _ _ _ _ _ _ _ _ _ Hw He) as (Hty & Hz & HS' & Hb' & Hn & Hnb & Hg). fold l in HS', Hb', Hn, Hg.
    set (chain := chain_bytes exts (pt <? 256) pt) in *.
    destruct (check_reuse_hl S lab) as [s1 l'] eqn:Hc. cbn [snd fst] in *. subst l.
    pose proof (check_reuse_label_wf _ _ _ _ Hw Hc) as Hwl.
    assert (Hzl : is_zero6 l' = false).
    { apply check_reuse_cases in Hc as [(-> & _)|(-> & _)]; [reflexivity|exact Hz]. }
    rewrite Hb'. rewrite takeN_app_eq by (rewrite (lenN_pkt_complete_x crc); lia).
    assert (Hbytes : bytes_ok (pkt_complete_x l' (first_id exts pt) chain pdu ++ tail)).
    { apply bytes_ok_app. split; [|exact Htail]. apply pkt_complete_x_ok; auto. now apply chain_bytes_ok. }
    rewrite decap_spec by assumption.
    rewrite (decap_hl_packet crc mgr R _ tail (lenN pdu + lenN (label_bytes l') + 2 + lenN chain) KComplete (label_type l')).
    2:{ rewrite (lenN_pkt_complete_x crc). lia. }
    2:{ with_strategy transparent [pkt_complete_x] unfold pkt_complete_x. rewrite take2_be16, rd16_be16 by (apply hdr_arith_lt; lia).
        apply hdr_view_arith; [lia|]. intros [? _]; discriminate. }
    rewrite pkt_complete_x_body.
    rewrite (complete_hl_unknown_x crc mgr) by (auto; try (rewrite lenN_app; lia);
      subst chain; unfold chain_bytes; rewrite Hex, chain_body_prefix, first_id_prefix, <- !app_assoc; apply walk_fn_unknown; assumption).
    unfold err_last. eexists _, _. split; [f_equal; f_equal; f_equal; f_equal; rewrite lenN_app; lia|]. split; [reflexivity|]. now left.
  - destruct (encap_ext_fragmented crc _ _ _ _ _ _ _ _ _ _ _ Hw He) as (Hty & Hz & HS' & Hb' & Hc0 & Hn & Hnb & Hlt & Htl & Hg).
    fold l in HS', Hb', Hc0, Hn, Htl, Hg.
    set (chain := chain_bytes exts (pt <? 256) pt) in *. set (pe := cf_len c0) in *.
    destruct (check_reuse_hl S lab) as [s1 l'] eqn:Hc. cbn [snd fst] in *. subst l.
    pose proof (check_reuse_label_wf _ _ _ _ Hw Hc) as Hwl.
    assert (Hzl : is_zero6 l' = false).
    { apply check_reuse_cases in Hc as [(-> & _)|(-> & _)]; [reflexivity|exact Hz]. }
    set (tl := lenN pdu + 2 + lenN (label_bytes l')) in *.
    assert (Lp : lenN (takeN pe pdu) = pe) by (rewrite lenN_takeN; lia).
    rewrite Hb'. rewrite takeN_app_eq by (rewrite (lenN_pkt_first_x crc), Lp; lia).
    assert (Hbytes : bytes_ok (pkt_first_x l' fid tl (first_id exts pt) chain (takeN pe pdu) ++ tail)).
    { apply bytes_ok_app. split; [|exact Htail]. apply pkt_first_x_ok; auto; [now apply chain_bytes_ok|now apply bytes_ok_takeN]. }
    rewrite decap_spec by assumption.
    rewrite (decap_hl_packet crc mgr R _ tail (5 + lenN (label_bytes l') + lenN chain + pe) KFirst (label_type l')).
    2:{ rewrite (lenN_pkt_first_x crc), Lp. lia. }
    2:{ with_strategy transparent [pkt_first_x] unfold pkt_first_x. rewrite take2_be16, rd16_be16 by (apply hdr_arith_lt; rewrite Lp; lia).
        rewrite Lp. apply hdr_view_arith; [lia|]. intros [? _]; discriminate. }
    rewrite pkt_first_x_body.
    rewrite (first_hl_unknown_x crc mgr) by (auto; try (subst tl; lia); try (rewrite lenN_app, Lp; lia);
      subst chain; unfold chain_bytes; rewrite Hex, chain_body_prefix, first_id_prefix, <- !app_assoc; apply walk_fn_unknown; assumption).
    unfold err_last. destruct (resolve_hl R (label_type l') l') as [[R1 cur]|err] eqn:Er.
    + eexists _, _. split; [f_equal; f_equal; f_equal; f_equal; rewrite lenN_app, Lp; lia|]. split; [|now left].
      cbn. eapply resolve_hl_mem; eauto.
    + eexists _, _. split; [f_equal; f_equal; f_equal; f_equal; rewrite lenN_app, Lp; lia|]. split; [reflexivity|]. right. split; eauto.
Qed.
End UnknownSender.

(* ---------- Extension::new ---------- *)
Theorem ext_new_total id data :
  (1536 <= id /\ ext_new id data = Ret (inr XIncorrectExtensionId)) \/
  (id < 256 /\ ext_new id data = Ret (inl {| ext_id := id; ext_dat := DMand data |})) \/
  (256 <= id < 1536 /\ hlen_table (id / 256) = Some (lenN data) /\
     exists e, ext_new id data = Ret (inl e) /\ ext_id e = id /\ ext_bytes e = data /\ is_mand e = false) \/
  (256 <= id < 1536 /\ hlen_table (id / 256) <> Some (lenN data) /\ ext_new id data = Ret (inr XIdAndVecSizeNotMatching)).
Proof.
  destruct (N.lt_ge_cases id 1536) as [H1|H1]; [|left; split; [assumption|now apply ext_new_bad]].
  destruct (N.lt_ge_cases id 256) as [H2|H2]; [right; left; split; [assumption|now apply ext_new_mand]|].
  pose proof (hlen_table_opt id ltac:(lia)) as Ht.
  destruct (N.eq_dec (lenN data) (opt_size id)) as [E|E].
  - right. right. left. split; [lia|]. split; [now rewrite Ht, E|].
    destruct (ext_new_opt id data ltac:(lia) E) as (e & -> & A & B & _ & D). eauto.
  - right. right. right. split; [lia|]. split; [rewrite Ht; congruence|]. apply ext_new_size; [lia|assumption].
Qed.
Lemma ext_new_built id data e : ext_new id data = Ret (inl e) -> ext_built e /\ ext_id e = id /\ ext_bytes e = data.
Proof.
  intro H. destruct (ext_new_total id data) as [(_ & E)|[(Hl & E)|[(Hr & _ & e' & E & Hi & Hb & _)|(_ & _ & E)]]]; rewrite E in H; try discriminate.
  - injection H as <-. unfold ext_built. cbn. now rewrite ext_new_mand.
  - injection H as <-. unfold ext_built. now rewrite Hi, Hb.
Qed.
