(* Common proof setup: lia with N div/mod and booleans. No model code. *)
From Coq Require Export Lia ZArith ZifyBool ZifyN.
Ltac Zify.zify_post_hook ::= Z.div_mod_to_equations.
