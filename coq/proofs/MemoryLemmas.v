(* SimpleGseMemory: characterisation of the five operations on well-formed memories (C17), and the
   facts about buffers the receiver proofs need. No model code. *)
Require Import GSE.gen.Consts GSE.model.Base GSE.model.Types GSE.model.Ext GSE.model.Memory
  GSE.proofs.Tactics GSE.proofs.BaseLemmas.
Require Import Coq.Sorting.Permutation.
Open Scope N_scope.

(* ---------- set_nth / nthN ---------- *)
Lemma nthN_lt_some {A} i (l : list A) : i < lenN l -> exists x, nthN i l = Some x.
Proof. intro H. destruct (nthN_some i l H) as (x & E & _). eauto. Qed.
Lemma nthN_Some_lt {A} i (l : list A) x : nthN i l = Some x -> i < lenN l.
Proof. intro H. destruct (N.lt_ge_cases i (lenN l)); [assumption|]. rewrite nthN_none in H by assumption. discriminate. Qed.

Lemma set_nth_ok {A} (l : list A) : forall i v, i < lenN l ->
  exists l', set_nth l i v = Ret l' /\ lenN l' = lenN l /\ nthN i l' = Some v /\
             (forall j, j <> i -> nthN j l' = nthN j l).
Proof.
  induction l as [|x t IH]; intros i v H; [rewrite lenN_nil in H; lia|].
  cbn [set_nth]. destruct (N.eqb_spec i 0) as [->|Hi].
  - eexists. split; [reflexivity|]. rewrite !lenN_cons. repeat split.
    intros j Hj. cbn [nthN]. destruct (N.eqb_spec j 0); [lia|reflexivity].
  - rewrite lenN_cons in H. destruct (IH (N.pred i) v ltac:(lia)) as (t' & -> & L & G & O). cbn [bind].
    eexists. split; [reflexivity|]. rewrite !lenN_cons, L. repeat split.
    + cbn [nthN]. destruct (N.eqb_spec i 0); [lia|exact G].
    + intros j Hj. cbn [nthN]. destruct (N.eqb_spec j 0); [reflexivity|]. apply O. lia.
Qed.
Lemma set_nth_same {A} (l : list A) : forall i v, nthN i l = Some v -> set_nth l i v = Ret l.
Proof.
  induction l as [|x t IH]; intros i v H; [discriminate|]. cbn [set_nth nthN] in *.
  destruct (N.eqb_spec i 0); [now injection H as ->|]. now rewrite (IH _ _ H).
Qed.
Lemma nthN_ext {A} (a b : list A) : lenN a = lenN b -> (forall i, nthN i a = nthN i b) -> a = b.
Proof.
  revert b; induction a as [|x a IH]; intros [|y b] L H; try reflexivity; rewrite ?lenN_cons, ?lenN_nil in L; try lia.
  pose proof (H 0) as H0. cbn in H0. injection H0 as ->. f_equal. apply IH; [lia|].
  intro i. specialize (H (N.succ i)). cbn [nthN] in H.
  destruct (N.eqb_spec (N.succ i) 0); [lia|]. now rewrite N.pred_succ in H.
Qed.
Lemma lenN_noneN {A} n : lenN (@noneN A n) = n.
Proof. unfold noneN. induction n as [|n IH] using N.peano_ind.
  - now rewrite N.recursion_0.
  - rewrite N.recursion_succ by (try reflexivity; intros ? ? -> ? ? ->; reflexivity). rewrite lenN_cons, IH. lia. Qed.
Lemma nthN_noneN {A} n i : i < n -> nthN i (@noneN A n) = Some None.
Proof.
  unfold noneN. revert i. induction n as [|n IH] using N.peano_ind; intros i H; [lia|].
  rewrite N.recursion_succ by (try reflexivity; intros ? ? -> ? ? ->; reflexivity). cbn [nthN].
  destruct (N.eqb_spec i 0); [reflexivity|]. apply IH. lia.
Qed.

(* ---------- well-formed memories ---------- *)
Definition mem_wf (m : mem) : Prop :=
  lenN (frags m) = max_frag_id m /\ lenN (storages m) <= cap m.
(* the slot a frag id maps to *)
Definition slot_of (m : mem) (fid : N) : option mctx :=
  match nthN (fid mod max_frag_id m) (frags m) with Some s => s | None => None end.

Lemma mem_new_wf slots maxpdu : mem_wf (mem_new slots maxpdu).
Proof. unfold mem_wf, mem_new; cbn [frags storages max_frag_id cap]. rewrite lenN_noneN, lenN_nil. split; [reflexivity|lia]. Qed.
Lemma mem_new_slots slots maxpdu fid : slot_of (mem_new slots maxpdu) fid = None.
Proof. unfold slot_of, mem_new; cbn [frags max_frag_id]. destruct (N.eq_dec slots 0) as [->|H]; [reflexivity|].
  rewrite nthN_noneN; [reflexivity|]. apply N.mod_lt. exact H. Qed.

(* ---------- provision_storage ---------- *)
Lemma provision_spec m b :
  provision m b =
    if cap m =? lenN (storages m) then (m, Some (MOverflow b))
    else if lenN (bdata b) <? max_pdu_size m then (m, Some (MTooSmall b))
    else (set_storages m (b :: storages m), None).
Proof. reflexivity. Qed.
Lemma provision_wf m b m' r : mem_wf m -> provision m b = (m', r) -> mem_wf m'.
Proof.
  intros [Hf Hc]. unfold provision. destruct (N.eqb_spec (cap m) (lenN (storages m))); [now intros [= <- <-]|].
  destruct (lenN (bdata b) <? max_pdu_size m); [now intros [= <- <-]|]. intros [= <- <-].
  unfold mem_wf; cbn [frags storages max_frag_id max_pdu_size cap set_storages set_frags]. rewrite lenN_cons. split; [assumption|lia].
Qed.

(* ---------- new_pdu ---------- *)
Lemma new_pdu_spec m :
  new_pdu m = match storages m with [] => (m, inr MUnderflow) | b :: t => (set_storages m t, inl b) end.
Proof. reflexivity. Qed.
Lemma new_pdu_wf m m' r : mem_wf m -> new_pdu m = (m', r) -> mem_wf m'.
Proof. intros [Hf Hc]. unfold new_pdu. destruct (storages m) as [|b t] eqn:E; intros [= <- <-].
  - unfold mem_wf. now rewrite E.
  - unfold mem_wf; cbn [frags storages max_frag_id max_pdu_size cap set_storages set_frags].
    rewrite lenN_cons in Hc. split; [assumption|lia]. Qed.

(* ---------- slots ---------- *)
Lemma slot_idx_ok m fid : max_frag_id m <> 0 -> slot_idx m fid = Ret (fid mod max_frag_id m).
Proof. intro H. unfold slot_idx. destruct (N.eqb_spec (max_frag_id m) 0); [contradiction|reflexivity]. Qed.
Lemma get_slot_ok m i : mem_wf m -> i < max_frag_id m -> exists s, get_slot m i = Ret s /\ nthN i (frags m) = Some s.
Proof. intros [Hf _] Hi. unfold get_slot. destruct (nthN_lt_some i (frags m)) as (s & E); [lia|]. rewrite E. eauto. Qed.

(* replacing the content of slot i *)
Definition with_slot (m m' : mem) (i : N) (v : option mctx) : Prop :=
  storages m' = storages m /\ max_frag_id m' = max_frag_id m /\ max_pdu_size m' = max_pdu_size m /\ cap m' = cap m /\
  lenN (frags m') = lenN (frags m) /\ nthN i (frags m') = Some v /\ (forall j, j <> i -> nthN j (frags m') = nthN j (frags m)).

Lemma set_frags_slot m i v : mem_wf m -> i < max_frag_id m ->
  exists fr, set_nth (frags m) i v = Ret fr /\ with_slot m (set_frags m fr) i v.
Proof.
  intros [Hf _] Hi. destruct (set_nth_ok (frags m) i v ltac:(lia)) as (fr & E & L & G & O).
  exists fr. split; [exact E|]. unfold with_slot; cbn [frags storages max_frag_id max_pdu_size cap set_storages set_frags]. auto 10.
Qed.
Lemma with_slot_wf m m' i v : mem_wf m -> with_slot m m' i v -> mem_wf m'.
Proof. intros [Hf Hc] (Hs & Hm & _ & Hcap & Hl & _). unfold mem_wf. rewrite Hs, Hm, Hcap, Hl. auto. Qed.

(* ---------- new_frag ---------- *)
Inductive new_frag_res (m : mem) (c : dctx) : mem * (mctx + mem_error) -> Prop :=
| NF_noslot : max_frag_id m = 0 -> new_frag_res m c (m, inr MUnderflow)
| NF_steal m' c0 b0 : max_frag_id m <> 0 -> slot_of m (c_fid c) = Some (c0, b0) ->
    with_slot m m' (c_fid c mod max_frag_id m) None -> new_frag_res m c (m', inl (c, b0))
| NF_fresh m' b t : max_frag_id m <> 0 -> slot_of m (c_fid c) = None -> storages m = b :: t ->
    storages m' = t -> frags m' = frags m -> max_frag_id m' = max_frag_id m -> max_pdu_size m' = max_pdu_size m ->
    cap m' = cap m -> new_frag_res m c (m', inl (c, b))
| NF_underflow : max_frag_id m <> 0 -> slot_of m (c_fid c) = None -> storages m = [] ->
    new_frag_res m c (m, inr MUnderflow).

Lemma new_frag_spec m c : mem_wf m -> exists r, new_frag m c = Ret r /\ new_frag_res m c r.
Proof.
  intros Hwf. unfold new_frag. destruct (N.eqb_spec (max_frag_id m) 0) as [Hz|Hz].
  - eexists. split; [reflexivity|now constructor].
  - rewrite slot_idx_ok by assumption. cbn [bind].
    assert (Hi : c_fid c mod max_frag_id m < max_frag_id m) by (apply N.mod_lt; assumption).
    destruct (get_slot_ok m _ Hwf Hi) as (old & -> & Hn). cbn [bind].
    destruct (set_frags_slot m _ None Hwf Hi) as (fr & Efr & Hw). rewrite Efr. cbn [bind].
    assert (Hs : slot_of m (c_fid c) = old) by (unfold slot_of; now rewrite Hn).
    destruct old as [[c0 b0]|].
    + eexists. split; [reflexivity|]. eapply NF_steal; eauto.
    + (* the slot was already empty: the frags list is unchanged *)
      assert (fr = frags m) by (rewrite (set_nth_same (frags m) _ None Hn) in Efr; now injection Efr as <-).
      subst fr. unfold new_pdu. cbn [storages set_frags].
      destruct (storages m) as [|b t] eqn:Es.
      * eexists. split; [reflexivity|]. replace (set_frags m (frags m)) with m by (destruct m; reflexivity).
        now apply NF_underflow.
      * eexists. split; [reflexivity|]. eapply NF_fresh; eauto.
Qed.

(* ---------- take_frag ---------- *)
Inductive take_frag_res (m : mem) (fid : N) : mem * (mctx + mem_error) -> Prop :=
| TF_hit m' c b : max_frag_id m <> 0 -> slot_of m fid = Some (c, b) -> c_fid c = fid ->
    with_slot m m' (fid mod max_frag_id m) None -> take_frag_res m fid (m', inl (c, b))
| TF_miss : (max_frag_id m = 0 \/ slot_of m fid = None \/ exists c b, slot_of m fid = Some (c, b) /\ c_fid c <> fid) ->
    take_frag_res m fid (m, inr MUndefinedId).

Lemma take_frag_spec m fid : mem_wf m -> exists r, take_frag m fid = Ret r /\ take_frag_res m fid r.
Proof.
  intros Hwf. unfold take_frag. destruct (N.eqb_spec (max_frag_id m) 0) as [Hz|Hz].
  - eexists. split; [reflexivity|]. apply TF_miss. auto.
  - rewrite slot_idx_ok by assumption. cbn [bind].
    assert (Hi : fid mod max_frag_id m < max_frag_id m) by (apply N.mod_lt; assumption).
    destruct (get_slot_ok m _ Hwf Hi) as (cur & -> & Hn). cbn [bind].
    assert (Hs : slot_of m fid = cur) by (unfold slot_of; now rewrite Hn).
    destruct cur as [[c b]|].
    + destruct (N.eqb_spec (c_fid c) fid) as [He|He].
      * destruct (set_frags_slot m _ None Hwf Hi) as (fr & -> & Hw). cbn [bind].
        eexists. split; [reflexivity|]. eapply TF_hit; eauto.
      * eexists. split; [reflexivity|]. apply TF_miss. right. right. eauto.
    + eexists. split; [reflexivity|]. apply TF_miss. auto.
Qed.

(* ---------- save_frag ---------- *)
Inductive save_frag_res (m : mem) (cb : mctx) : mem * option mem_error -> Prop :=
| SF_ok m' : max_frag_id m <> 0 -> slot_of m (c_fid (fst cb)) = None ->
    with_slot m m' (c_fid (fst cb) mod max_frag_id m) (Some cb) -> save_frag_res m cb (m', None)
| SF_refused : (max_frag_id m = 0 \/ exists x, slot_of m (c_fid (fst cb)) = Some x) ->
    save_frag_res m cb (m, Some MCorrupted).

Lemma save_frag_spec m cb : mem_wf m -> exists r, save_frag m cb = Ret r /\ save_frag_res m cb r.
Proof.
  intros Hwf. unfold save_frag. destruct (N.eqb_spec (max_frag_id m) 0) as [Hz|Hz].
  - eexists. split; [reflexivity|]. apply SF_refused. auto.
  - rewrite slot_idx_ok by assumption. cbn [bind].
    assert (Hi : c_fid (fst cb) mod max_frag_id m < max_frag_id m) by (apply N.mod_lt; assumption).
    destruct (get_slot_ok m _ Hwf Hi) as (cur & -> & Hn). cbn [bind].
    assert (Hs : slot_of m (c_fid (fst cb)) = cur) by (unfold slot_of; now rewrite Hn).
    destruct cur as [x|].
    + eexists. split; [reflexivity|]. apply SF_refused. eauto.
    + destruct (set_frags_slot m _ (Some cb) Hwf Hi) as (fr & -> & Hw). cbn [bind].
      eexists. split; [reflexivity|]. eapply SF_ok; eauto.
Qed.

(* slot_of after a slot update *)
Lemma with_slot_slot_of m m' i v fid : with_slot m m' i v ->
  slot_of m' fid = if fid mod max_frag_id m =? i then v else slot_of m fid.
Proof.
  intros (_ & Hm & _ & _ & _ & G & O). unfold slot_of. rewrite Hm.
  destruct (N.eqb_spec (fid mod max_frag_id m) i) as [->|Hn]; [now rewrite G|now rewrite O].
Qed.

(* ---------- panic-free functional forms (used by the closed form of decap) ---------- *)
Fixpoint upd_nth {A} (l : list A) (i : N) (v : A) : list A :=
  match l with [] => [] | x :: t => if i =? 0 then v :: t else x :: upd_nth t (N.pred i) v end.
Lemma set_nth_upd {A} (l : list A) : forall i v, i < lenN l -> set_nth l i v = Ret (upd_nth l i v).
Proof.
  induction l as [|x t IH]; intros i v H; [rewrite lenN_nil in H; lia|]. cbn [set_nth upd_nth].
  destruct (N.eqb_spec i 0); [reflexivity|]. rewrite lenN_cons in H. rewrite IH by lia. reflexivity.
Qed.
Lemma upd_nth_len {A} (l : list A) i v : lenN (upd_nth l i v) = lenN l.
Proof. revert i; induction l as [|x t IH]; intro i; cbn [upd_nth]; [reflexivity|].
  destruct (i =? 0); rewrite !lenN_cons; [reflexivity|now rewrite IH]. Qed.
Lemma nthN_upd_same {A} (l : list A) i v : i < lenN l -> nthN i (upd_nth l i v) = Some v.
Proof. revert i; induction l as [|x t IH]; intros i H; [rewrite lenN_nil in H; lia|]. cbn [upd_nth].
  destruct (N.eqb_spec i 0) as [->|Hi]; [reflexivity|]. cbn [nthN]. destruct (N.eqb_spec i 0); [lia|].
  rewrite lenN_cons in H. apply IH. lia. Qed.
Lemma nthN_upd_other {A} (l : list A) i j v : j <> i -> nthN j (upd_nth l i v) = nthN j l.
Proof. revert i j; induction l as [|x t IH]; intros i j H; [reflexivity|]. cbn [upd_nth].
  destruct (N.eqb_spec i 0) as [->|Hi]; cbn [nthN]; destruct (N.eqb_spec j 0); try reflexivity; try lia.
  apply IH. lia. Qed.
Lemma upd_nth_same {A} (l : list A) i v : nthN i l = Some v -> upd_nth l i v = l.
Proof. revert i; induction l as [|x t IH]; intros i H; [reflexivity|]. cbn [upd_nth nthN] in *.
  destruct (N.eqb_spec i 0); [now injection H as ->|]. now rewrite IH. Qed.

Definition set_slot (m : mem) (i : N) (v : option mctx) : mem := set_frags m (upd_nth (frags m) i v).

Definition new_frag_fn (m : mem) (c : dctx) : mem * (mctx + mem_error) :=
  if max_frag_id m =? 0 then (m, inr MUnderflow) else
  match slot_of m (c_fid c) with
  | Some (_, b) => (set_slot m (c_fid c mod max_frag_id m) None, inl (c, b))
  | None => match storages m with
            | [] => (m, inr MUnderflow)
            | b :: t => (set_storages m t, inl (c, b))
            end
  end.
Definition take_frag_fn (m : mem) (fid : N) : mem * (mctx + mem_error) :=
  if max_frag_id m =? 0 then (m, inr MUndefinedId) else
  match slot_of m fid with
  | Some (c, b) => if c_fid c =? fid then (set_slot m (fid mod max_frag_id m) None, inl (c, b))
                   else (m, inr MUndefinedId)
  | None => (m, inr MUndefinedId)
  end.
Definition save_frag_fn (m : mem) (cb : mctx) : mem * option mem_error :=
  if max_frag_id m =? 0 then (m, Some MCorrupted) else
  match slot_of m (c_fid (fst cb)) with
  | None => (set_slot m (c_fid (fst cb) mod max_frag_id m) (Some cb), None)
  | Some _ => (m, Some MCorrupted)
  end.

Lemma set_frags_id m : set_frags m (frags m) = m. Proof. destruct m; reflexivity. Qed.

Lemma new_frag_fn_ok m c : mem_wf m -> new_frag m c = Ret (new_frag_fn m c).
Proof.
  intros Hwf. unfold new_frag, new_frag_fn. destruct (N.eqb_spec (max_frag_id m) 0) as [Hz|Hz]; [reflexivity|].
  rewrite slot_idx_ok by assumption. cbn [bind].
  assert (Hi : c_fid c mod max_frag_id m < max_frag_id m) by (apply N.mod_lt; assumption).
  destruct (get_slot_ok m _ Hwf Hi) as (old & -> & Hn). cbn [bind].
  rewrite set_nth_upd by (destruct Hwf; lia). cbn [bind].
  unfold slot_of. rewrite Hn. destruct old as [[c0 b0]|]; [reflexivity|].
  rewrite (upd_nth_same _ _ _ Hn), set_frags_id. unfold new_pdu. destruct (storages m); reflexivity.
Qed.
Lemma take_frag_fn_ok m fid : mem_wf m -> take_frag m fid = Ret (take_frag_fn m fid).
Proof.
  intros Hwf. unfold take_frag, take_frag_fn. destruct (N.eqb_spec (max_frag_id m) 0) as [Hz|Hz]; [reflexivity|].
  rewrite slot_idx_ok by assumption. cbn [bind].
  assert (Hi : fid mod max_frag_id m < max_frag_id m) by (apply N.mod_lt; assumption).
  destruct (get_slot_ok m _ Hwf Hi) as (cur & -> & Hn). cbn [bind].
  unfold slot_of. rewrite Hn. destruct cur as [[c b]|]; [|reflexivity].
  destruct (c_fid c =? fid); [|reflexivity]. rewrite set_nth_upd by (destruct Hwf; lia). reflexivity.
Qed.
Lemma save_frag_fn_ok m cb : mem_wf m -> save_frag m cb = Ret (save_frag_fn m cb).
Proof.
  intros Hwf. unfold save_frag, save_frag_fn. destruct (N.eqb_spec (max_frag_id m) 0) as [Hz|Hz]; [reflexivity|].
  rewrite slot_idx_ok by assumption. cbn [bind].
  assert (Hi : c_fid (fst cb) mod max_frag_id m < max_frag_id m) by (apply N.mod_lt; assumption).
  destruct (get_slot_ok m _ Hwf Hi) as (cur & -> & Hn). cbn [bind].
  unfold slot_of. rewrite Hn. destruct cur; [reflexivity|].
  rewrite set_nth_upd by (destruct Hwf; lia). reflexivity.
Qed.

Lemma set_slot_wf m i v : mem_wf m -> mem_wf (set_slot m i v).
Proof. intros [Hf Hc]. unfold mem_wf, set_slot; cbn [frags storages max_frag_id cap set_frags]. now rewrite upd_nth_len. Qed.
Lemma slot_of_set_slot m i v fid : mem_wf m -> i < max_frag_id m ->
  slot_of (set_slot m i v) fid = if fid mod max_frag_id m =? i then v else slot_of m fid.
Proof.
  intros [Hf _] Hi. unfold slot_of, set_slot; cbn [frags max_frag_id set_frags].
  destruct (N.eqb_spec (fid mod max_frag_id m) i) as [->|Hn].
  - now rewrite nthN_upd_same by lia.
  - now rewrite nthN_upd_other.
Qed.
Lemma slot_of_set_storages m st fid : slot_of (set_storages m st) fid = slot_of m fid.
Proof. reflexivity. Qed.
