(* Sender-side properties derived from the closed forms of EncapSpec.v. No model code. *)
Require Import GSE.gen.Consts GSE.model.Base GSE.model.Types GSE.model.Header GSE.model.Ext GSE.model.Encap
  GSE.proofs.Tactics GSE.proofs.BaseLemmas GSE.proofs.HeaderLemmas GSE.proofs.EncapSpec.
Open Scope N_scope.
Set Default Proof Using "Type".

(* the packet builders are only used through their length lemmas here *)
#[local] Opaque pkt_complete pkt_first pkt_end pkt_inter.

Ltac shape_inv' Sh o :=
  let E := fresh "E" in let oo := fresh "oo" in
  remember o as oo eqn:E; destruct Sh; try discriminate E; injection E as ? ? ?; subst.

Section WithCrc.
Variable crc : list byte -> N -> N -> list byte -> N.

(* ---------- shape of every result of encap ---------- *)
(* what a successful encap wrote and how the state moved; what a failed one left alone *)
Inductive encap_shape (s : enc_state) (pdu : list byte) (fid pt : N) (lab : label) (buf : list byte)
  : enc_out -> Prop :=
| ES_err e : encap_shape s pdu fid pt lab buf (s, buf, inr e)
| ES_complete s1 l :
    check_reuse_hl s lab = (s1, l) ->
    4 + lenN (label_bytes l) + lenN pdu <= lenN buf -> lenN pdu + lenN (label_bytes l) + 2 <= 4095 ->
    encap_shape s pdu fid pt lab buf
      (s1, pkt_complete l pt pdu ++ dropN (4 + lenN (label_bytes l) + lenN pdu) buf,
       inl (Completed (4 + lenN (label_bytes l) + lenN pdu)))
| ES_first s1 l pe :
    check_reuse_hl s lab = (s1, l) ->
    pe = N.min (lenN buf - (7 + lenN (label_bytes l))) (4090 - lenN (label_bytes l)) ->
    7 + lenN (label_bytes l) + pe <= lenN buf -> pe < lenN pdu ->
    lenN pdu + 2 + lenN (label_bytes l) <= 65535 ->
    encap_shape s pdu fid pt lab buf
      (s1, pkt_first l fid (lenN pdu + 2 + lenN (label_bytes l)) pt (takeN pe pdu)
           ++ dropN (7 + lenN (label_bytes l) + pe) buf,
       inl (Fragmented (7 + lenN (label_bytes l) + pe)
              {| cf_id := fid; cf_crc := crc pdu pt (lenN pdu + 2 + lenN (label_bytes l)) (label_bytes l);
                 cf_len := pe |})).

Lemma encap_hl_shape s pdu fid pt lab buf : label_wf lab ->
  encap_shape s pdu fid pt lab buf (encap_hl crc s pdu fid pt lab buf).
Proof.
  intro Hw. unfold encap_hl.
  destruct (is_zero6 lab); [constructor|].
  destruct ((256 <=? pt) && (pt <? 1536)); [constructor|].
  destruct (check_reuse_hl s lab) as [s1 l] eqn:Hc.
  pose proof (check_reuse_label_wf _ _ _ _ Hw Hc) as Hwl.
  pose proof (label_len_bytes l Hwl) as Hll. pose proof (label_len_le l) as Hl6.
  destruct ((4 + lenN (label_bytes l) + lenN pdu <=? lenN buf) && (lenN pdu + lenN (label_bytes l) + 2 <=? 4095)) eqn:Hfit.
  - apply andb_prop in Hfit as [Hf Hg]. apply N.leb_le in Hf. apply N.leb_le in Hg.
    rewrite lenN_pkt_complete. now apply ES_complete.
  - destruct (N.ltb_spec (lenN buf) (7 + lenN (label_bytes l))) as [Hb|Hb]; [constructor|].
    destruct (N.ltb_spec 65535 (lenN pdu + 2 + lenN (label_bytes l))) as [Hbig|Hbig]; [constructor|].
    cbv zeta. rewrite lenN_pkt_first, lenN_takeN.
    remember (N.min (lenN buf - (7 + lenN (label_bytes l))) (4090 - lenN (label_bytes l))) as pe eqn:Epe.
    assert (Hpe : pe < lenN pdu).
    { apply andb_false_iff in Hfit as [Hn|Hn]; [apply N.leb_gt in Hn|apply N.leb_gt in Hn]; lia. }
    replace (N.min pe (lenN pdu)) with pe by lia.
    apply ES_first; auto; lia.
Qed.

(* case analysis on a shape without unfolding the packet builders *)
Ltac shape_inv Sh :=
  let E := fresh "E" in let oo := fresh "oo" in
  match type of Sh with
  | encap_shape _ _ _ _ _ _ ?o => remember o as oo eqn:E; destruct Sh; try discriminate E; injection E as ? ? ?; subst
  end.

(* ---------- C09: totality and failure atomicity ---------- *)
Lemma encap_total s pdu fid pt lab buf : enc_wf s -> label_wf lab ->
  exists r, encap crc s pdu fid pt lab buf = Ret r.
Proof. intros. eexists. now apply encap_spec. Qed.

Lemma encap_atomic s pdu fid pt lab buf s' buf' e : enc_wf s -> label_wf lab ->
  encap crc s pdu fid pt lab buf = Ret (s', buf', inr e) -> s' = s /\ buf' = buf.
Proof.
  intros Hs Hw H. rewrite encap_spec in H by assumption. injection H as H.
  pose proof (encap_hl_shape s pdu fid pt lab buf Hw) as Sh. rewrite H in Sh.
  shape_inv Sh; auto.
Qed.

Lemma encap_wf s pdu fid pt lab buf s' buf' r : enc_wf s -> label_wf lab ->
  encap crc s pdu fid pt lab buf = Ret (s', buf', r) -> enc_wf s' /\ lenN buf' = lenN buf.
Proof.
  intros Hs Hw H. rewrite encap_spec in H by assumption. injection H as H.
  pose proof (encap_hl_shape s pdu fid pt lab buf Hw) as Sh. rewrite H in Sh.
  shape_inv Sh.
  - auto.
  - split; [eapply check_reuse_wf; eauto|]. rewrite lenN_app, lenN_pkt_complete, lenN_dropN. lia.
  - split; [eapply check_reuse_wf; eauto|]. rewrite lenN_app, lenN_pkt_first, lenN_takeN, lenN_dropN. lia.
Qed.

Lemma encap_rejects_zero s pdu fid pt buf :
  encap_hl crc s pdu fid pt (L6 [0;0;0;0;0;0]) buf = (s, buf, inr EInvalidLabel).
Proof. reflexivity. Qed.
Lemma encap_rejects_ptype s pdu fid pt lab buf : 256 <= pt <= 1535 ->
  exists e, encap_hl crc s pdu fid pt lab buf = (s, buf, inr e).
Proof.
  intros [H1 H2]. unfold encap_hl. destruct (is_zero6 lab); [eauto|].
  replace ((256 <=? pt) && (pt <? 1536)) with true; [eauto|].
  symmetry. apply andb_true_iff. split; [apply N.leb_le|apply N.ltb_lt]; lia.
Qed.
(* a packet is only ever produced when the PDU fits the 16-bit total length (with the label as written) *)
Lemma encap_ok_total_len s pdu fid pt lab buf s' buf' st : label_wf lab ->
  encap_hl crc s pdu fid pt lab buf = (s', buf', inl st) ->
  lenN pdu + 2 + lenN (label_bytes (snd (check_reuse_hl s lab))) <= 65535.
Proof.
  intros Hw H. pose proof (encap_hl_shape s pdu fid pt lab buf Hw) as Sh. rewrite H in Sh.
  shape_inv Sh; match goal with E : check_reuse_hl _ _ = _ |- _ => rewrite E end; cbn [snd]; lia.
Qed.

End WithCrc.

(* ---------- encap_frag ---------- *)
Inductive frag_shape (pdu : list byte) (ctx : ctxfrag) (buf : list byte) : list byte * enc_result -> Prop :=
| FS_err e : frag_shape pdu ctx buf (buf, inr e)
| FS_end : cf_len ctx <= lenN pdu -> lenN pdu - cf_len ctx + 7 <= lenN buf -> lenN pdu - cf_len ctx <= 4090 ->
    frag_shape pdu ctx buf
      (pkt_end (cf_id ctx) (dropN (cf_len ctx) pdu) (cf_crc ctx) ++ dropN (7 + (lenN pdu - cf_len ctx)) buf,
       inl (Completed (7 + (lenN pdu - cf_len ctx))))
| FS_inter k : cf_len ctx <= lenN pdu -> 1 <= k -> k <= lenN pdu - cf_len ctx -> k <= 4094 -> 3 + k <= lenN buf ->
    k = N.min (N.min (lenN buf - 3) 4094) (lenN pdu - cf_len ctx) ->
    frag_shape pdu ctx buf
      (pkt_inter (cf_id ctx) (takeN k (dropN (cf_len ctx) pdu)) ++ dropN (3 + k) buf,
       inl (Fragmented (3 + k) {| cf_id := cf_id ctx; cf_crc := cf_crc ctx; cf_len := u16 (cf_len ctx + k) |})).

Lemma encap_frag_hl_shape pdu ctx buf : frag_shape pdu ctx buf (encap_frag_hl pdu ctx buf).
Proof.
  unfold encap_frag_hl.
  destruct (N.ltb_spec (lenN pdu) (cf_len ctx)) as [Hlt|Hge]; [constructor|]. cbv zeta.
  destruct ((lenN pdu - cf_len ctx + 7 <=? lenN buf) && (lenN pdu - cf_len ctx <=? 4090)) eqn:Hend.
  - apply andb_prop in Hend as [H1 H2]. apply N.leb_le in H1. apply N.leb_le in H2.
    rewrite lenN_pkt_end, lenN_dropN. now apply FS_end.
  - destruct ((4 <=? lenN buf) && (1 <=? lenN pdu - cf_len ctx)) eqn:Hint; [|constructor].
    apply andb_prop in Hint as [H1 H2]. apply N.leb_le in H1. apply N.leb_le in H2.
    rewrite lenN_pkt_inter, lenN_takeN, lenN_dropN.
    remember (N.min (N.min (lenN buf - 3) 4094) (lenN pdu - cf_len ctx)) as k eqn:Ek.
    replace (N.min k (lenN pdu - cf_len ctx)) with k by lia.
    apply FS_inter; auto; lia.
Qed.

Lemma encap_frag_total pdu ctx buf : exists r, encap_frag pdu ctx buf = Ret r.
Proof. eexists. apply encap_frag_spec. Qed.
Lemma encap_frag_atomic pdu ctx buf buf' e : encap_frag pdu ctx buf = Ret (buf', inr e) -> buf' = buf.
Proof. rewrite encap_frag_spec. intros [= H]. pose proof (encap_frag_hl_shape pdu ctx buf) as Sh.
  rewrite H in Sh. remember (buf', @inr enc_status _ e) as oo eqn:E.
  destruct Sh; try discriminate E; injection E as ? ?; subst; auto. Qed.
Lemma encap_frag_rejects_beyond pdu ctx buf : lenN pdu < cf_len ctx ->
  encap_frag pdu ctx buf = Ret (buf, inr EPduLength).
Proof. intro H. rewrite encap_frag_spec. unfold encap_frag_hl.
  destruct (N.ltb_spec (lenN pdu) (cf_len ctx)); [reflexivity|lia]. Qed.
(* a buffer that can hold neither the end packet nor one payload byte is rejected *)
Lemma encap_frag_useless_rejected pdu ctx buf : cf_len ctx <= lenN pdu ->
  ~ (lenN pdu - cf_len ctx + 7 <= lenN buf /\ lenN pdu - cf_len ctx <= 4090) ->
  (lenN buf < 4 \/ lenN pdu - cf_len ctx = 0) ->
  encap_frag pdu ctx buf = Ret (buf, inr ESizeBuffer).
Proof.
  intros Hge Hne Hu. rewrite encap_frag_spec. unfold encap_frag_hl.
  destruct (N.ltb_spec (lenN pdu) (cf_len ctx)); [lia|]. cbv zeta.
  destruct ((lenN pdu - cf_len ctx + 7 <=? lenN buf) && (lenN pdu - cf_len ctx <=? 4090)) eqn:Hend.
  - apply andb_prop in Hend as [H1 H2]. apply N.leb_le in H1. apply N.leb_le in H2. tauto.
  - destruct ((4 <=? lenN buf) && (1 <=? lenN pdu - cf_len ctx)) eqn:Hint; [|reflexivity].
    apply andb_prop in Hint as [H1 H2]. apply N.leb_le in H1. apply N.leb_le in H2. lia.
Qed.

(* ---------- reachable encapsulator states are well formed ---------- *)
Lemma enc_new_wf : enc_wf enc_new. Proof. unfold enc_wf, enc_new; cbn. lia. Qed.
Lemma enc_reset_wf s : enc_wf s -> enc_wf (enc_reset s).
Proof. unfold enc_wf, enc_reset, set_last; cbn. tauto. Qed.
Lemma enc_disable_wf s : enc_wf (enc_disable s). Proof. unfold enc_wf, enc_disable; cbn. lia. Qed.
Lemma enc_enable_wf s : enc_wf s -> enc_wf (enc_enable s).
Proof. unfold enc_wf, enc_enable; cbn. intros (_ & _ & H). repeat split; try lia. exact H. Qed.
Lemma enc_enable_max_wf s m : m < 256 -> enc_wf s -> enc_wf (enc_enable_max s m).
Proof. unfold enc_wf, enc_enable_max; cbn. intros Hm (_ & _ & H). repeat split; try lia. exact H. Qed.

(* ---------- previews (C18) ---------- *)
Section Previews.
Variable crc : list byte -> N -> N -> list byte -> N.

(* result of a call, projected on what a preview can predict *)
Definition proj_enc (r : enc_result) (pdu_len : N) : preview + enc_error :=
  match r with
  | inl (Completed n) => inl {| pv_kind := KComplete; pv_pdu_len := pdu_len; pv_pkt_len := n |}
  | inl (Fragmented n _) => inl {| pv_kind := KFirst; pv_pdu_len := pdu_len; pv_pkt_len := n |}
  | inr e => inr e
  end.

Lemma preview_predicts s pdu fid pt lab buf : label_wf lab -> snd (check_reuse_hl s lab) = lab ->
  encap_preview_hl pdu pt lab buf = proj_enc (snd (encap_hl crc s pdu fid pt lab buf)) (lenN pdu).
Proof.
  intros Hw Hsame. unfold encap_preview_hl, encap_hl.
  destruct (is_zero6 lab); [reflexivity|].
  destruct ((256 <=? pt) && (pt <? 1536)); [reflexivity|].
  destruct (check_reuse_hl s lab) as [s1 l] eqn:Hc. cbn [snd] in Hsame. subst l.
  destruct ((4 + lenN (label_bytes lab) + lenN pdu <=? lenN buf) && (lenN pdu + lenN (label_bytes lab) + 2 <=? 4095)) eqn:Hfit.
  - cbn [snd proj_enc]. now rewrite lenN_pkt_complete.
  - destruct (lenN buf <? 7 + lenN (label_bytes lab)); [reflexivity|].
    destruct (65535 <? lenN pdu + 2 + lenN (label_bytes lab)); [reflexivity|].
    cbn [snd proj_enc]. rewrite lenN_pkt_first, lenN_takeN.
    apply andb_false_iff in Hfit. do 3 f_equal.
    destruct Hfit as [Hn|Hn]; apply N.leb_gt in Hn; lia.
Qed.

End Previews.

Definition proj_frag (ctx : ctxfrag) (r : enc_result) (pdu_len : N) : preview + enc_error :=
  match r with
  | inl (Completed n) => inl {| pv_kind := KEnd; pv_pdu_len := pdu_len - cf_len ctx; pv_pkt_len := n |}
  | inl (Fragmented n _) => inl {| pv_kind := KInter; pv_pdu_len := n - 3; pv_pkt_len := n |}
  | inr e => inr e
  end.
Lemma frag_preview_predicts pdu ctx buf :
  encap_frag_preview_hl pdu ctx buf = proj_frag ctx (snd (encap_frag_hl pdu ctx buf)) (lenN pdu).
Proof.
  unfold encap_frag_preview_hl, encap_frag_hl.
  destruct (lenN pdu <? cf_len ctx) eqn:E; [reflexivity|]. apply N.ltb_ge in E. cbv zeta.
  destruct ((lenN pdu - cf_len ctx + 7 <=? lenN buf) && (lenN pdu - cf_len ctx <=? 4090)).
  - cbn [snd proj_frag]. rewrite lenN_pkt_end, lenN_dropN. reflexivity.
  - destruct ((4 <=? lenN buf) && (1 <=? lenN pdu - cf_len ctx)) eqn:Hint; [|reflexivity].
    cbn [snd proj_frag]. rewrite lenN_pkt_inter, lenN_takeN, lenN_dropN.
    f_equal. f_equal; lia.
Qed.

(* ---------- how a call moves the policy state, and which label type goes on the wire ---------- *)
Section StateLink.
Variable crc : list byte -> N -> N -> list byte -> N.

Lemma encap_state s pdu fid pt lab buf s' b' r : enc_wf s -> label_wf lab ->
  encap crc s pdu fid pt lab buf = Ret (s', b', r) ->
  match r with
  | inl st => s' = fst (check_reuse_hl s lab) /\
              exists k glen rest, b' = be16 (hdr_arith k (label_type (snd (check_reuse_hl s lab))) glen) ++ rest
                             /\ (k = KComplete \/ k = KFirst)
  | inr _ => s' = s /\ b' = buf
  end.
Proof.
  intros Hs Hw H. rewrite encap_spec in H by assumption. injection H as H.
  pose proof (encap_hl_shape crc s pdu fid pt lab buf Hw) as Sh. rewrite H in Sh.
  shape_inv' Sh (s', b', r).
  - auto.
  - match goal with E : check_reuse_hl _ _ = _ |- _ => rewrite E end. cbn [fst snd]. split; [reflexivity|].
    Transparent pkt_complete. unfold pkt_complete. Opaque pkt_complete.
    exists KComplete. do 2 eexists. rewrite <- app_assoc. split; [reflexivity|auto].
  - match goal with E : check_reuse_hl _ _ = _ |- _ => rewrite E end. cbn [fst snd]. split; [reflexivity|].
    Transparent pkt_first. unfold pkt_first. Opaque pkt_first.
    exists KFirst. do 2 eexists. rewrite <- app_assoc. split; [reflexivity|auto].
Qed.
End StateLink.

(* ---------- when encap must / does produce a complete packet ---------- *)
Section Complete.
Variable crc : list byte -> N -> N -> list byte -> N.

Lemma encap_ok_guards s pdu fid pt lab buf s' b' st :
  encap_hl crc s pdu fid pt lab buf = (s', b', inl st) -> is_zero6 lab = false /\ ~ (256 <= pt < 1536).
Proof.
  unfold encap_hl. destruct (is_zero6 lab); [discriminate|].
  destruct ((256 <=? pt) && (pt <? 1536)) eqn:E; [discriminate|]. intros _. split; [reflexivity|].
  intros [H1 H2]. apply andb_false_iff in E. destruct E as [E|E]; [apply N.leb_gt in E|apply N.ltb_ge in E]; lia.
Qed.

Lemma encap_must_complete s pdu fid pt lab buf : is_zero6 lab = false -> ~ (256 <= pt < 1536) ->
  let l := snd (check_reuse_hl s lab) in
  lenN pdu + lenN (label_bytes l) + 2 <= 4095 -> 4 + lenN (label_bytes l) + lenN pdu <= lenN buf ->
  snd (encap_hl crc s pdu fid pt lab buf) = inl (Completed (4 + lenN (label_bytes l) + lenN pdu)).
Proof.
  intros Hz Hp l Hg Hf. unfold encap_hl. rewrite Hz.
  replace ((256 <=? pt) && (pt <? 1536)) with false.
  2:{ symmetry. apply andb_false_iff. destruct (N.leb_spec 256 pt); [|now left]. right. apply N.ltb_ge. lia. }
  subst l. destruct (check_reuse_hl s lab) as [s1 l]. cbn [snd] in *.
  replace (4 + lenN (label_bytes l) + lenN pdu <=? lenN buf) with true by (symmetry; now apply N.leb_le).
  replace (lenN pdu + lenN (label_bytes l) + 2 <=? 4095) with true by (symmetry; now apply N.leb_le).
  cbn [andb snd]. now rewrite lenN_pkt_complete.
Qed.
End Complete.
