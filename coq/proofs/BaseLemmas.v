(* Lemmas about the N-indexed byte lists, slice/write and big-endian integers. No model code. *)
Require Import GSE.model.Base GSE.proofs.Tactics.
Open Scope N_scope.

Lemma lenN__spec {A} (l : list A) acc : lenN_ l acc = acc + N.of_nat (length l).
Proof. revert acc; induction l as [|x t IH]; intro acc; cbn [lenN_ length]; [lia|rewrite IH; lia]. Qed.
Lemma lenN_spec {A} (l : list A) : lenN l = N.of_nat (length l).
Proof. unfold lenN. rewrite lenN__spec. lia. Qed.
Lemma takeN_spec {A} n (l : list A) : takeN n l = firstn (N.to_nat n) l.
Proof. revert n; induction l as [|x t IH]; intro n; cbn [takeN]. - now rewrite firstn_nil.
  - destruct (N.eqb_spec n 0) as [->|Hn]; [reflexivity|]. rewrite IH.
    replace (N.to_nat n) with (S (N.to_nat (N.pred n))) by lia. reflexivity. Qed.
Lemma dropN_spec {A} n (l : list A) : dropN n l = skipn (N.to_nat n) l.
Proof. revert n; induction l as [|x t IH]; intro n; cbn [dropN]. - now rewrite skipn_nil.
  - destruct (N.eqb_spec n 0) as [->|Hn]; [reflexivity|]. rewrite IH.
    replace (N.to_nat n) with (S (N.to_nat (N.pred n))) by lia. reflexivity. Qed.

Lemma lenN_nil {A} : lenN (@nil A) = 0. Proof. reflexivity. Qed.
Lemma lenN_cons {A} (x : A) l : lenN (x :: l) = 1 + lenN l.
Proof. rewrite !lenN_spec. cbn [length]. lia. Qed.
Lemma lenN_app {A} (a b : list A) : lenN (a ++ b) = lenN a + lenN b.
Proof. rewrite !lenN_spec, app_length. lia. Qed.
Lemma lenN_takeN {A} n (l : list A) : lenN (takeN n l) = N.min n (lenN l).
Proof. rewrite takeN_spec, !lenN_spec, firstn_length. lia. Qed.
Lemma lenN_dropN {A} n (l : list A) : lenN (dropN n l) = lenN l - n.
Proof. rewrite dropN_spec, !lenN_spec, skipn_length. lia. Qed.
Lemma lenN_0_nil {A} (l : list A) : lenN l = 0 -> l = [].
Proof. rewrite lenN_spec. destruct l; cbn; [reflexivity|lia]. Qed.
Lemma takeN_dropN {A} n (l : list A) : takeN n l ++ dropN n l = l.
Proof. rewrite takeN_spec, dropN_spec. apply firstn_skipn. Qed.
Lemma takeN_0 {A} (l : list A) : takeN 0 l = [].
Proof. destruct l; reflexivity. Qed.
Lemma dropN_0 {A} (l : list A) : dropN 0 l = l.
Proof. destruct l; reflexivity. Qed.
Lemma takeN_cons {A} n (x : A) l : n <> 0 -> takeN n (x :: l) = x :: takeN (n - 1) l.
Proof. intro H. cbn [takeN]. destruct (N.eqb_spec n 0); [contradiction|]. now rewrite N.sub_1_r. Qed.
Lemma dropN_cons {A} n (x : A) l : n <> 0 -> dropN n (x :: l) = dropN (n - 1) l.
Proof. intro H. cbn [dropN]. destruct (N.eqb_spec n 0); [contradiction|]. now rewrite N.sub_1_r. Qed.
Lemma takeN_all {A} n (l : list A) : lenN l <= n -> takeN n l = l.
Proof. intro H. rewrite takeN_spec. apply firstn_all2. rewrite lenN_spec in H. lia. Qed.
Lemma dropN_all {A} n (l : list A) : lenN l <= n -> dropN n l = [].
Proof. intro H. rewrite dropN_spec. apply skipn_all2. rewrite lenN_spec in H. lia. Qed.
Lemma takeN_app_exact {A} (a b : list A) : takeN (lenN a) (a ++ b) = a.
Proof. rewrite takeN_spec, lenN_spec, Nat2N.id. rewrite firstn_app, Nat.sub_diag, firstn_all. cbn. apply app_nil_r. Qed.
Lemma dropN_app_exact {A} (a b : list A) : dropN (lenN a) (a ++ b) = b.
Proof. rewrite dropN_spec, lenN_spec, Nat2N.id. rewrite skipn_app, Nat.sub_diag, skipn_all. reflexivity. Qed.
Lemma takeN_app_eq {A} n (a b : list A) : n = lenN a -> takeN n (a ++ b) = a.
Proof. intros ->. apply takeN_app_exact. Qed.
Lemma dropN_app_eq {A} n (a b : list A) : n = lenN a -> dropN n (a ++ b) = b.
Proof. intros ->. apply dropN_app_exact. Qed.
Lemma takeN_app_le {A} n (a b : list A) : n <= lenN a -> takeN n (a ++ b) = takeN n a.
Proof. intro H. rewrite !takeN_spec, firstn_app. rewrite lenN_spec in H.
  replace (N.to_nat n - length a)%nat with 0%nat by lia. cbn. apply app_nil_r. Qed.
Lemma takeN_app_ge {A} n (a b : list A) : lenN a <= n -> takeN n (a ++ b) = a ++ takeN (n - lenN a) b.
Proof. intro H. rewrite !takeN_spec, firstn_app. rewrite lenN_spec in *.
  rewrite firstn_all2 by lia. f_equal. f_equal. lia. Qed.
Lemma dropN_app_ge {A} n (a b : list A) : lenN a <= n -> dropN n (a ++ b) = dropN (n - lenN a) b.
Proof. intro H. rewrite !dropN_spec, skipn_app. rewrite lenN_spec in *.
  rewrite skipn_all2 by lia. cbn. f_equal. lia. Qed.
Lemma dropN_app_le {A} n (a b : list A) : n <= lenN a -> dropN n (a ++ b) = dropN n a ++ b.
Proof. intro H. rewrite !dropN_spec, skipn_app. rewrite lenN_spec in *.
  replace (N.to_nat n - length a)%nat with 0%nat by lia. reflexivity. Qed.
Lemma skipn_skipn' {A} (x y : nat) (l : list A) : skipn x (skipn y l) = skipn (x + y) l.
Proof. revert l; induction y as [|y IH]; intro l. - now rewrite Nat.add_0_r.
  - rewrite Nat.add_succ_r. destruct l; cbn [skipn]. + now rewrite skipn_nil. + apply IH. Qed.
Lemma dropN_dropN {A} a b (l : list A) : dropN a (dropN b l) = dropN (a + b) l.
Proof. rewrite !dropN_spec, skipn_skipn'. f_equal. lia. Qed.
Lemma takeN_takeN {A} a b (l : list A) : takeN a (takeN b l) = takeN (N.min a b) l.
Proof. rewrite !takeN_spec, firstn_firstn. f_equal. lia. Qed.
Lemma takeN_dropN_comm {A} a b (l : list A) : takeN a (dropN b l) = dropN b (takeN (a + b) l).
Proof. rewrite !takeN_spec, !dropN_spec. rewrite skipn_firstn_comm. f_equal. lia. Qed.
Lemma takeN_add {A} a b (l : list A) : takeN (a + b) l = takeN a l ++ takeN b (dropN a l).
Proof.
  rewrite <- (takeN_dropN a l) at 1.
  destruct (N.le_gt_cases (lenN l) a) as [H|H].
  - rewrite (dropN_all a l H), app_nil_r, takeN_all; [|rewrite lenN_takeN; lia].
    destruct (takeN b []) eqn:E; [now rewrite app_nil_r|]. destruct b; discriminate.
  - rewrite takeN_app_ge by (rewrite lenN_takeN; lia). rewrite lenN_takeN. f_equal. f_equal. lia.
Qed.

(* ---- slice / write ---- *)
Lemma slice_ok buf a b : a <= b -> b <= lenN buf -> slice buf a b = Ret (takeN (b - a) (dropN a buf)).
Proof. intros H1 H2. unfold slice. destruct (N.leb_spec a b); [|lia]. destruct (N.leb_spec b (lenN buf)); [|lia]. reflexivity. Qed.
Lemma slice_panic buf a b : b < a \/ lenN buf < b -> slice buf a b = Panic.
Proof. intros H. unfold slice. destruct (N.leb_spec a b); destruct (N.leb_spec b (lenN buf)); try reflexivity; lia. Qed.
Lemma slice_inv buf a b r : slice buf a b = Ret r -> a <= b /\ b <= lenN buf /\ r = takeN (b - a) (dropN a buf).
Proof. unfold slice. destruct (N.leb_spec a b) as [H1|H1]; destruct (N.leb_spec b (lenN buf)) as [H2|H2]; cbn; intro E; try discriminate.
  injection E as <-. auto. Qed.
Lemma slice_len buf a b r : slice buf a b = Ret r -> lenN r = b - a.
Proof. intro H. apply slice_inv in H as (H1 & H2 & ->). rewrite lenN_takeN, lenN_dropN. lia. Qed.
Lemma slice_mid (pre mid post : list byte) a b :
  a = lenN pre -> b = lenN pre + lenN mid -> slice (pre ++ mid ++ post) a b = Ret mid.
Proof. intros -> ->. rewrite slice_ok; rewrite ?lenN_app; try lia.
  rewrite dropN_app_exact. replace (lenN pre + lenN mid - lenN pre) with (lenN mid) by lia.
  now rewrite takeN_app_exact. Qed.
Lemma slice_prefix (l : list byte) n : n <= lenN l -> slice l 0 n = Ret (takeN n l).
Proof. intro H. rewrite slice_ok by lia. now rewrite N.sub_0_r, dropN_0. Qed.

Lemma write_ok buf off src : off + lenN src <= lenN buf ->
  write buf off src = Ret (takeN off buf ++ src ++ dropN (off + lenN src) buf).
Proof. intro H. unfold write. destruct (N.leb_spec (off + lenN src) (lenN buf)); [reflexivity|lia]. Qed.
Lemma write_inv buf off src r : write buf off src = Ret r ->
  off + lenN src <= lenN buf /\ r = takeN off buf ++ src ++ dropN (off + lenN src) buf.
Proof. unfold write. destruct (N.leb_spec (off + lenN src) (lenN buf)) as [H1|H1]; intro E; [|discriminate].
  injection E as <-. auto. Qed.
Lemma write_len buf off src r : write buf off src = Ret r -> lenN r = lenN buf.
Proof. intro H. apply write_inv in H as (H & ->). rewrite !lenN_app, lenN_takeN, lenN_dropN. lia. Qed.
(* writing right after an already written prefix *)
Lemma write_at (pre rest src : list byte) off : off = lenN pre -> lenN src <= lenN rest ->
  write (pre ++ rest) off src = Ret ((pre ++ src) ++ dropN (lenN src) rest).
Proof. intros -> H. rewrite write_ok by (rewrite lenN_app; lia).
  rewrite takeN_app_exact, dropN_app_ge by lia. rewrite <- app_assoc. repeat f_equal. lia. Qed.
(* writing inside the prefix region is also needed for encap_frag (CRC first, header later) *)
Lemma write_panic buf off src : lenN buf < off + lenN src -> write buf off src = Panic.
Proof. intro H. unfold write. destruct (N.leb_spec (off + lenN src) (lenN buf)); [lia|reflexivity]. Qed.

(* ---- nthN / idx ---- *)
Lemma nthN_app_exact {A} (a : list A) x b : nthN (lenN a) (a ++ x :: b) = Some x.
Proof. induction a as [|y a IH]; cbn [nthN app]. - reflexivity.
  - rewrite lenN_cons. destruct (N.eqb_spec (1 + lenN a) 0); [lia|]. replace (N.pred (1 + lenN a)) with (lenN a) by lia. exact IH. Qed.
Lemma nthN_some {A} n (l : list A) : n < lenN l -> exists x, nthN n l = Some x /\ takeN 1 (dropN n l) = [x].
Proof. revert n; induction l as [|y l IH]; intros n H. - rewrite lenN_nil in H. lia.
  - cbn [nthN dropN]. destruct (N.eqb_spec n 0) as [->|Hn].
    + exists y. split; [reflexivity|]. cbn. now rewrite takeN_0.
    + rewrite lenN_cons in H. apply IH. lia. Qed.
Lemma nthN_none {A} n (l : list A) : lenN l <= n -> nthN n l = None.
Proof. revert n; induction l as [|y l IH]; intros n H; cbn [nthN]. - reflexivity.
  - rewrite lenN_cons in H. destruct (N.eqb_spec n 0); [lia|]. apply IH. lia. Qed.
Lemma idx_ok buf i : i < lenN buf -> exists x, idx buf i = Ret x /\ takeN 1 (dropN i buf) = [x].
Proof. intro H. destruct (nthN_some i buf H) as (x & E & T). exists x. unfold idx. now rewrite E. Qed.
Lemma idx_app_exact (a : list byte) x b i : i = lenN a -> idx (a ++ x :: b) i = Ret x.
Proof. intros ->. unfold idx. now rewrite nthN_app_exact. Qed.
Lemma idx_panic buf i : lenN buf <= i -> idx buf i = Panic.
Proof. intro H. unfold idx. now rewrite nthN_none. Qed.

(* ---- bytes ---- *)
Lemma bytes_eqb_eq a b : bytes_eqb a b = true <-> a = b.
Proof. revert b; induction a as [|x a IH]; destruct b as [|y b]; cbn; try (split; congruence).
  rewrite andb_true_iff, IH, N.eqb_eq. split; [intros [-> ->]; reflexivity|intros [= -> ->]; auto]. Qed.
Lemma bytes_eqb_refl a : bytes_eqb a a = true.
Proof. now apply bytes_eqb_eq. Qed.
Lemma bytes_eqb_neq a b : bytes_eqb a b = false <-> a <> b.
Proof. rewrite <- bytes_eqb_eq. destruct (bytes_eqb a b); split; congruence. Qed.
Lemma bytes_ok_app a b : bytes_ok (a ++ b) <-> bytes_ok a /\ bytes_ok b.
Proof. unfold bytes_ok. apply Forall_app. Qed.
Lemma bytes_ok_takeN n l : bytes_ok l -> bytes_ok (takeN n l).
Proof. intro H. rewrite <- (takeN_dropN n l) in H. now apply bytes_ok_app in H. Qed.
Lemma bytes_ok_dropN n l : bytes_ok l -> bytes_ok (dropN n l).
Proof. intro H. rewrite <- (takeN_dropN n l) in H. now apply bytes_ok_app in H. Qed.
Lemma bytes_okb_ok l : bytes_okb l = true <-> bytes_ok l.
Proof. unfold bytes_okb, bytes_ok. rewrite forallb_forall, Forall_forall. split; intros H x Hx; specialize (H x Hx); lia. Qed.

(* ---- big-endian integers ---- *)
Lemma lenN_be16 x : lenN (be16 x) = 2. Proof. reflexivity. Qed.
Lemma lenN_be32 x : lenN (be32 x) = 4. Proof. reflexivity. Qed.
Lemma rd16_be16 x : x < 65536 -> rd16 (be16 x) = x.
Proof. intro H. unfold rd16, be16. lia. Qed.
Lemma rd32_be32 x : x < 4294967296 -> rd32 (be32 x) = x.
Proof. intro H. unfold rd32, be32. lia. Qed.
Lemma be16_ok x : bytes_ok (be16 x).
Proof. unfold be16, bytes_ok. repeat constructor; lia. Qed.
Lemma be32_ok x : bytes_ok (be32 x).
Proof. unfold be32, bytes_ok. repeat constructor; lia. Qed.
Lemma be16_rd16 a b : a < 256 -> b < 256 -> be16 (rd16 [a; b]) = [a; b].
Proof. intros. unfold be16, rd16. f_equal; [|f_equal]; lia. Qed.
Lemma rd16_lt a b : a < 256 -> b < 256 -> rd16 [a; b] < 65536.
Proof. intros. unfold rd16. lia. Qed.
Lemma be16_inj x y : x < 65536 -> y < 65536 -> be16 x = be16 y -> x = y.
Proof. intros Hx Hy E. rewrite <- (rd16_be16 x Hx), <- (rd16_be16 y Hy). now rewrite E. Qed.
Lemma be32_inj x y : x < 4294967296 -> y < 4294967296 -> be32 x = be32 y -> x = y.
Proof. intros Hx Hy E. rewrite <- (rd32_be32 x Hx), <- (rd32_be32 y Hy). now rewrite E. Qed.

Lemma u16_small x : x < 65536 -> u16 x = x.
Proof. intro H. unfold u16. apply N.mod_small. exact H. Qed.
Lemma u16_lt x : u16 x < 65536.
Proof. unfold u16. apply N.mod_lt. discriminate. Qed.

Lemma lenN_zeros n : lenN (zeros n) = n.
Proof. unfold zeros. induction n as [|n IH] using N.peano_ind.
  - now rewrite N.recursion_0.
  - rewrite N.recursion_succ by (try reflexivity; intros ? ? -> ? ? ->; reflexivity). rewrite lenN_cons, IH. lia. Qed.

(* ---- monad ---- *)
Lemma bind_ret {A B} (a : A) (f : A -> res B) : bind (Ret a) f = f a. Proof. reflexivity. Qed.
Lemma bind_inv {A B} (m : res A) (f : A -> res B) r : bind m f = Ret r -> exists a, m = Ret a /\ f a = Ret r.
Proof. destruct m; cbn; [eauto|discriminate]. Qed.
Lemma subN_ok a b : b <= a -> subN a b = Ret (a - b).
Proof. intro H. unfold subN. destruct (N.leb_spec b a); [reflexivity|lia]. Qed.
Lemma add_chk_ok w a b : a + b < 2 ^ w -> add_chk w a b = Ret (a + b).
Proof. intro H. unfold add_chk. destruct (N.ltb_spec (a + b) (2 ^ w)); [reflexivity|lia]. Qed.
