(* Extraction of the executable model to OCaml. ExtrOcamlBasic only (bool, option, unit, list, prod,
   sumbool, sumor -> OCaml natives); N / positive / nat stay the extracted inductives; no Extract Constant. *)
Require Extraction.
Require Import ExtrOcamlBasic.
Require Import GSE.model.Base GSE.model.Types GSE.model.Header GSE.model.Crc GSE.model.Ext
  GSE.model.Encap GSE.model.Memory GSE.model.Decap GSE.model.Utils
  GSE.proofs.EncapSpec GSE.proofs.DecapSpec GSE.proofs.ExtSpec.
Extraction Language OCaml.
Set Extraction Optimize.
Extraction "model.ml"
  lenN takeN dropN zeros
  gen_hdr read_hdr
  default_crc default_crc_res
  ext_new ext_len ext_bytes mgr_simple mgr_signal
  enc_new enc_reset enc_disable enc_enable enc_enable_max
  encap encap_frag encap_ext encap_preview encap_frag_preview
  mem_new provision new_pdu new_frag take_frag save_frag
  dec_new dec_reset dec_provision dec_new_pdu decap peek
  encap_hl encap_frag_hl decap_hl encap_ext_hl
  gen_complete parse_complete gen_first parse_first gen_inter parse_inter gen_end parse_end.
