(* C19 -- peeking the label or fragment id agrees with decapsulation. Pinned statements only. *)
Require Import GSE.model.Base GSE.model.Types GSE.model.Ext GSE.model.Encap GSE.model.Memory GSE.model.Decap
  GSE.proofs.Tactics GSE.proofs.BaseLemmas GSE.proofs.HeaderLemmas GSE.proofs.EncapSpec GSE.proofs.EncapProps
  GSE.proofs.DecapBase GSE.proofs.DecapSpec GSE.proofs.RoundTrip GSE.proofs.Peek GSE.proofs.ExtSpec GSE.proofs.ExtTrip GSE.proofs.ExtProps.
Open Scope N_scope.
#[local] Opaque pkt_complete pkt_first pkt_end pkt_inter.

(* For every start/complete packet produced by encap, followed by anything: the peek function returns the label
   carried when it is a 3-byte, 6-byte or broadcast label, and the re-use error when the label was replaced (or
   passed as re-use). This is the label decap reads before resolution (c01_roundtrip / c02_roundtrip: the label
   as written, `snd (check_reuse_hl S lab)`). *)
Theorem c19_peek_start : forall crc S pdu fid pt lab buf S' buf' st tail, enc_wf S -> label_wf lab ->
  encap crc S pdu fid pt lab buf = Ret (S', buf', inl st) ->
  peek (takeN (match st with Completed n | Fragmented n _ => n end) buf' ++ tail)
  = Ret (peek_label (snd (check_reuse_hl S lab))).
Proof.
  intros crc S pdu fid pt lab buf S' buf' st tail HS Hw He.
  rewrite encap_spec in He by assumption. injection He as He.
  pose proof (encap_hl_shape crc S pdu fid pt lab buf Hw) as Sh. rewrite He in Sh.
  remember (S', buf', @inl enc_status enc_error st) as oo eqn:E.
  destruct Sh as [e|s1 l Hc Hf Hg|s1 l pe Hc Hpe Hb Hlt Hbig]; try discriminate E; injection E as <- <- <-;
    rewrite Hc; cbn [snd]; pose proof (check_reuse_label_wf _ _ _ _ Hw Hc) as Hwl.
  - rewrite takeN_app_eq by (now rewrite lenN_pkt_complete).
    with_strategy transparent [pkt_complete] unfold pkt_complete. rewrite <- !app_assoc.
    apply (peek_start KComplete l [] pt (pdu ++ tail)); auto; lia.
  - pose proof (lt_len_label l Hwl) as Hll. pose proof (lt_len_le (label_type l)) as Hl6.
    rewrite takeN_app_eq by (rewrite lenN_pkt_first, lenN_takeN; lia).
    with_strategy transparent [pkt_first] unfold pkt_first. rewrite <- !app_assoc.
    rewrite (app_assoc [fid] (be16 _)).
    apply (peek_start KFirst l ([fid] ++ be16 (lenN pdu + 2 + lenN (label_bytes l))) pt (takeN pe pdu ++ tail)); auto.
    rewrite lenN_takeN. lia.
Qed.

(* the same for every start/complete packet of encap_ext (any extension chain built by Extension::new) *)
Theorem c19_peek_start_ext : forall crc S pdu fid pt lab buf exts S' buf' st tail, enc_wf S -> label_wf lab -> Forall ext_built exts ->
  encap_ext crc S pdu fid pt lab buf exts = Ret (S', buf', inl st) ->
  peek (takeN (match st with Completed n | Fragmented n _ => n end) buf' ++ tail)
  = Ret (peek_label (snd (check_reuse_hl S lab))).
Proof. exact peek_start_ext. Qed.

(* For every intermediate and end packet produced by encap_frag, the peek function returns the fragment id, which
   is the id decap looks up (hd0 (dropN 2 packet) in the closed form of decap; c02_roundtrip). *)
Theorem c19_peek_frag : forall pdu ctx buf buf' st tail, lenN pdu <= 65535 ->
  encap_frag pdu ctx buf = Ret (buf', inl st) ->
  let p := takeN (match st with Completed n | Fragmented n _ => n end) buf' in
  peek (p ++ tail) = Ret (inl (PFragId (cf_id ctx))) /\ hd0 (dropN 2 p) = cf_id ctx.
Proof.
  intros pdu ctx buf buf' st tail Hp He. rewrite encap_frag_spec in He. injection He as He.
  pose proof (encap_frag_hl_shape pdu ctx buf) as Sh. rewrite He in Sh.
  remember (buf', @inl enc_status enc_error st) as oo eqn:E.
  destruct Sh as [e|H1 H2 H3|k H1 H2 H3 H4 H5 H6]; try discriminate E; injection E as <- <-; cbv zeta.
  - rewrite takeN_app_eq by (rewrite lenN_pkt_end, lenN_dropN; lia).
    with_strategy transparent [pkt_end] unfold pkt_end. split.
    + rewrite <- !app_assoc. apply peek_cont; [auto|rewrite lenN_dropN; lia|].
      rewrite !lenN_app. change (lenN (be32 (cf_crc ctx))) with 4. lia.
    + rewrite drop2_be16. reflexivity.
  - rewrite takeN_app_eq by (rewrite lenN_pkt_inter, lenN_takeN, lenN_dropN; lia).
    with_strategy transparent [pkt_inter] unfold pkt_inter. split.
    + rewrite <- !app_assoc. apply peek_cont; [auto|rewrite lenN_takeN, lenN_dropN; lia|].
      rewrite lenN_app, lenN_takeN, lenN_dropN. lia.
    + rewrite drop2_be16. reflexivity.
Qed.

Print Assumptions c19_peek_start.
Print Assumptions c19_peek_frag.
Print Assumptions c19_peek_start_ext.
