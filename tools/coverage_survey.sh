#!/bin/bash
# Build-time aid (not a registered check): which lines of the crate do the quick-tier cases of all families and all
# property generators (seed 1) execute?  Needs the nightly toolchain's llvm-tools; works on a scratch worktree of /repo.
#   tools/coverage_survey.sh            prints the llvm-cov report and the uncovered lines
set -e
W=/tmp/gse_cov; rm -rf $W; mkdir -p $W/run
git -C /repo worktree add -q --detach $W/repo HEAD
trap 'git -C /repo worktree remove --force $W/repo; rm -rf $W' EXIT
cp -r /verif/harness $W/h; rm -rf $W/h/target
sed -i "s#path = \"/repo\"#path = \"$W/repo\"#" $W/h/Cargo.toml
(cd $W/h && CARGO_NET_OFFLINE=true RUSTFLAGS="-C instrument-coverage" cargo +nightly build --release --offline -q 2>/dev/null)
python3 - <<PY
import sys; sys.path.insert(0,'/verif/tools')
import cases as CS, oracles as OR
from gsepy import Rng
allc=[]
for fam,f in CS.FAMILIES.items():
    cs=f(Rng(1000003+sum(map(ord,fam))),1)
    for c in cs: c.name=fam+"."+c.name
    allc+=cs
for pid,cfg in OR.PROPS.items():
    cs=cfg["gen"](Rng(7919+13),1)
    for c in cs: c.name=pid+"."+c.name
    allc+=cs
for i in range(16):
    with open('$W/run/s%02d.case'%i,'w') as f:
        for c in allc[i::16]: f.write(c.text())
print(len(allc), "cases", sum(len(c.ops) for c in allc), "operations")
PY
T=$(dirname $(rustup +nightly which rustc))/../lib/rustlib/x86_64-unknown-linux-gnu/bin
for i in $(seq -w 0 15); do LLVM_PROFILE_FILE=$W/run/p$i.profraw $W/h/target/release/gse_verif_harness $W/run/s$i.case > /dev/null & done; wait
LLVM_PROFILE_FILE=$W/run/pf.profraw $W/h/target/release/findings > /dev/null
$T/llvm-profdata merge -sparse $W/run/*.profraw -o $W/run/all.profdata
$T/llvm-cov report $W/h/target/release/gse_verif_harness -instr-profile=$W/run/all.profdata $W/repo/src
$T/llvm-cov show $W/h/target/release/gse_verif_harness -instr-profile=$W/run/all.profdata $W/repo/src -show-line-counts 2>/dev/null \
  | grep -E "^/|^\s+[0-9]+\|\s+0\|" | grep -v "to_str\|=> \"\|unreachable!\|todo!" 
