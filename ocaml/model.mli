
val negb : bool -> bool

type nat =
| O
| S of nat

type ('a, 'b) sum =
| Inl of 'a
| Inr of 'b

val fst : ('a1 * 'a2) -> 'a1

val snd : ('a1 * 'a2) -> 'a2

val length : 'a1 list -> nat

val app : 'a1 list -> 'a1 list -> 'a1 list

type comparison =
| Eq
| Lt
| Gt

type positive =
| XI of positive
| XO of positive
| XH

type n =
| N0
| Npos of positive

module Pos :
 sig
  type mask =
  | IsNul
  | IsPos of positive
  | IsNeg
 end

module Coq_Pos :
 sig
  val succ : positive -> positive

  val add : positive -> positive -> positive

  val add_carry : positive -> positive -> positive

  val pred_double : positive -> positive

  val pred_N : positive -> n

  type mask = Pos.mask =
  | IsNul
  | IsPos of positive
  | IsNeg

  val succ_double_mask : mask -> mask

  val double_mask : mask -> mask

  val double_pred_mask : positive -> mask

  val sub_mask : positive -> positive -> mask

  val sub_mask_carry : positive -> positive -> mask

  val mul : positive -> positive -> positive

  val iter : ('a1 -> 'a1) -> 'a1 -> positive -> 'a1

  val pow : positive -> positive -> positive

  val compare_cont : comparison -> positive -> positive -> comparison

  val compare : positive -> positive -> comparison

  val eqb : positive -> positive -> bool

  val coq_Nsucc_double : n -> n

  val coq_Ndouble : n -> n

  val coq_lor : positive -> positive -> positive

  val coq_land : positive -> positive -> n

  val coq_lxor : positive -> positive -> n

  val shiftl : positive -> n -> positive

  val peano_rect : 'a1 -> (positive -> 'a1 -> 'a1) -> positive -> 'a1
 end

module N :
 sig
  val succ_double : n -> n

  val double : n -> n

  val succ : n -> n

  val pred : n -> n

  val add : n -> n -> n

  val sub : n -> n -> n

  val mul : n -> n -> n

  val compare : n -> n -> comparison

  val eqb : n -> n -> bool

  val leb : n -> n -> bool

  val ltb : n -> n -> bool

  val min : n -> n -> n

  val div2 : n -> n

  val pow : n -> n -> n

  val pos_div_eucl : positive -> n -> n * n

  val div_eucl : n -> n -> n * n

  val div : n -> n -> n

  val modulo : n -> n -> n

  val coq_lor : n -> n -> n

  val coq_land : n -> n -> n

  val coq_lxor : n -> n -> n

  val shiftl : n -> n -> n

  val shiftr : n -> n -> n

  val peano_rect : 'a1 -> (n -> 'a1 -> 'a1) -> n -> 'a1

  val recursion : 'a1 -> (n -> 'a1 -> 'a1) -> n -> 'a1
 end

type byte = n

type 'a res =
| Ret of 'a
| Panic

val bind : 'a1 res -> ('a1 -> 'a2 res) -> 'a2 res

val lenN_ : 'a1 list -> n -> n

val lenN : 'a1 list -> n

val takeN : n -> 'a1 list -> 'a1 list

val dropN : n -> 'a1 list -> 'a1 list

val nthN : n -> 'a1 list -> 'a1 option

val bytes_eqb : byte list -> byte list -> bool

val subN : n -> n -> n res

val add_chk : n -> n -> n -> n res

val u16 : n -> n

val slice : byte list -> n -> n -> byte list res

val write : byte list -> n -> byte list -> byte list res

val idx : byte list -> n -> byte res

val set_idx : byte list -> n -> byte -> byte list res

val be16 : n -> byte list

val be32 : n -> byte list

val rd16 : byte list -> n

val rd32 : byte list -> n

val zeros : n -> byte list

val cOMPLETE_PKT : n

val fIRST_PKT : n

val iNTERMEDIATE_PKT : n

val eND_PKT : n

val sTART_END_MASK : n

val lABEL_6_B : n

val lABEL_3_B : n

val lABEL_BROADCAST : n

val lABEL_REUSE : n

val lABEL_TYPE_MASK : n

val lABEL_6_B_LEN : n

val lABEL_3_B_LEN : n

val lABEL_BROADCAST_LEN : n

val lABEL_REUSE_LEN : n

val fIXED_HEADER_LEN : n

val pROTOCOL_LEN : n

val fRAG_ID_LEN : n

val tOTAL_LENGTH_LEN : n

val fIRST_FRAG_LEN : n

val gSE_LEN_MAX : n

val gSE_LEN_MASK : n

val tOTAL_LEN_MAX : n

val cRC_LEN : n

val cRC_INIT : n

val sECOND_RANGE_PTYPE : n

val mAX_MANDATORY_VAL_PTYPE : n

val nCR_PROTOCOL_ID : n

val iNTERNAL_SIGNALING_PROTOCOL_ID : n

val h_LEN_MASK : n

type kind =
| KComplete
| KFirst
| KInter
| KEnd

type ltype =
| T6
| T3
| TB
| TR

type label =
| L6 of byte list
| L3 of byte list
| LBroadcast
| LReUse

val kind_eqb : kind -> kind -> bool

val ltype_eqb : ltype -> ltype -> bool

val ltype_len : ltype -> n

val label_type : label -> ltype

val label_len : label -> n

val label_bytes : label -> byte list

val label_new : ltype -> byte list -> label res

val label_eqb : label -> label -> bool

val is_zero6 : label -> bool

val kind_bits : kind -> n

val ltype_bits : ltype -> n

val gen_hdr : kind -> ltype -> n -> n

val read_hdr : n -> ((n * kind) * ltype) option res

val cRC_TAB : n list

val m32 : n

val crc_byte : n list -> n -> byte -> n res

val crc32_tab : n list -> byte list -> n -> n res

val default_crc_res : byte list -> n -> n -> byte list -> n res

val default_crc : byte list -> n -> n -> byte list -> n

val hlen_table : n -> n option

type ext_data =
| D2 of byte list
| D4 of byte list
| D6 of byte list
| D8 of byte list
| DNo
| DMand of byte list

type ext = { ext_id : n; ext_dat : ext_data }

type ext_err =
| XIdAndVecSizeNotMatching
| XIncorrectExtensionId

val ext_bytes : ext -> byte list

val ext_len : ext -> n

val ext_new : n -> byte list -> (ext, ext_err) sum res

type mand =
| MFinal of n
| MNonFinal of n
| MUnknown

val mgr_simple : n -> mand

val mgr_signal : n -> mand

type enc_state = { re_on : bool; re_max : n; re_cur : n; last : label option }

type ctxfrag = { cf_id : n; cf_crc : n; cf_len : n }

type enc_status =
| Completed of n
| Fragmented of n * ctxfrag

type enc_error =
| ESizeBuffer
| EPduLength
| EProtocolType
| EInvalidLabel
| ENoExtensionFound
| EFinalMandatoryExtensionHeader

type enc_result = (enc_status, enc_error) sum

val set_last : enc_state -> label option -> enc_state

val set_cur : enc_state -> n -> enc_state

val enc_new : enc_state

val enc_reset : enc_state -> enc_state

val enc_disable : enc_state -> enc_state

val enc_enable : enc_state -> enc_state

val enc_enable_max : enc_state -> n -> enc_state

val opt_label_eqb : label option -> label option -> bool

val update_last : enc_state -> label -> enc_state

val check_reuse : enc_state -> label -> (enc_state * label) res

val restore : enc_state -> enc_state -> enc_state

type enc_out = (enc_state * byte list) * enc_result

val encap :
  (byte list -> n -> n -> byte list -> n) -> enc_state -> byte list -> n -> n
  -> label -> byte list -> enc_out res

val encap_frag :
  byte list -> ctxfrag -> byte list -> (byte list * enc_result) res

val last_ext : ext list -> ext res

val sum_ext_len : ext list -> n

val write_chain : byte list -> n -> ext list -> (byte list * n) res

val encap_ext :
  (byte list -> n -> n -> byte list -> n) -> enc_state -> byte list -> n -> n
  -> label -> byte list -> ext list -> enc_out res

type preview = { pv_kind : kind; pv_pdu_len : n; pv_pkt_len : n }

val encap_preview :
  byte list -> n -> label -> byte list -> (preview, enc_error) sum res

val encap_frag_preview :
  byte list -> ctxfrag -> byte list -> (preview, enc_error) sum res

type sbuf = { bid : n; bdata : byte list }

type dctx = { c_label : label; c_ptype : n; c_fid : n; c_total : n;
              c_pdulen : n; c_reuse : bool; c_exts : ext list }

type mctx = dctx * sbuf

type mem_error =
| MOverflow of sbuf
| MUnderflow
| MUndefinedId
| MTooSmall of sbuf
| MCorrupted

type mem = { storages : sbuf list; frags : mctx option list; max_frag_id : 
             n; max_pdu_size : n; cap : n }

val mIN_MARGIN : n

val set_storages : mem -> sbuf list -> mem

val set_frags : mem -> mctx option list -> mem

val noneN : n -> 'a1 option list

val mem_new : n -> n -> mem

val provision : mem -> sbuf -> mem * mem_error option

val new_pdu : mem -> mem * (sbuf, mem_error) sum

val set_nth : 'a1 list -> n -> 'a1 -> 'a1 list res

val get_slot : mem -> n -> mctx option res

val slot_idx : mem -> n -> n res

val new_frag : mem -> dctx -> (mem * (mctx, mem_error) sum) res

val take_frag : mem -> n -> (mem * (mctx, mem_error) sum) res

val save_frag : mem -> mctx -> (mem * mem_error option) res

type dmeta = { md_pdu_len : n; md_ptype : n; md_label : label;
               md_exts : ext list }

type dec_status =
| DCompleted of sbuf * dmeta
| DFragmented of dmeta
| DPadding

type dec_error =
| DSizeBuffer
| DTotalLength
| DGseLength
| DSizePduBuffer
| DProtocolType
| DMemory of mem_error
| DCrc
| DInvalidLabel
| DNoLabelSaved
| DLabelBroadcastSaved
| DLabelReUseSaved
| DUnkownMandatoryHeader

type dec_result = (dec_status * n, dec_error * n) sum

type dstate = { dmem : mem; dlast : label option }

val set_dlast : dstate -> label option -> dstate

val set_dmem : dstate -> mem -> dstate

val dec_new : n -> n -> dstate

val dec_reset : dstate -> dstate

val dec_provision : dstate -> sbuf -> dstate * mem_error option

val dec_new_pdu : dstate -> dstate * (sbuf, mem_error) sum

type walk_err =
| WUnknownMandatory
| WBufferTooSmall

type walk_ok = { w_exts : ext list; w_ptype : n; w_len : n }

val ext_new_or_todo : n -> byte list -> ext res

val walk :
  (n -> mand) -> nat -> byte list -> n -> n -> ext list -> (walk_ok,
  walk_err) sum option res

val iterate_ext :
  (n -> mand) -> byte list -> n -> (walk_ok, walk_err) sum option res

type dec_out = dstate * dec_result

val derr : dstate -> dec_error -> n -> dec_out res

val resolve_label :
  dstate -> ltype -> label -> (dstate * label, dec_error) sum res

val decap_complete :
  (n -> mand) -> dstate -> byte list -> ltype -> n -> n -> dec_out res

val give_back : dstate -> sbuf -> dec_error -> n -> dec_out res

val decap_first :
  (n -> mand) -> dstate -> byte list -> ltype -> n -> n -> dec_out res

val decap_intermediate : dstate -> byte list -> n -> n -> dec_out res

val decap_end :
  (byte list -> n -> n -> byte list -> n) -> dstate -> byte list -> n -> n ->
  dec_out res

val decap :
  (byte list -> n -> n -> byte list -> n) -> (n -> mand) -> dstate -> byte
  list -> dec_out res

type peek_ok =
| PLabel of label
| PFragId of n

type peek_err =
| PErrLabelReuse
| PErrSizeBuffer
| PErrHeaderRead

val peek : byte list -> (peek_ok, peek_err) sum res

type u_complete = { uc_gse_len : n; uc_ptype : n; uc_label : label;
                    uc_pdu : byte list }

type u_first = { uf_gse_len : n; uf_fid : n; uf_total : n; uf_ptype : 
                 n; uf_label : label; uf_pdu : byte list }

type u_inter = { ui_gse_len : n; ui_fid : n; ui_pdu : byte list }

type u_end = { ue_gse_len : n; ue_fid : n; ue_pdu : byte list; ue_crc : n }

val gen_complete : u_complete -> byte list -> byte list res

val read_hdr_unwrap : byte list -> ((n * kind) * ltype) res

val to_u16 : n -> n res

val parse_complete : byte list -> u_complete option res

val gen_first : u_first -> byte list -> byte list res

val parse_first : byte list -> u_first option res

val gen_inter : u_inter -> byte list -> byte list res

val parse_inter : byte list -> u_inter option res

val gen_end : u_end -> byte list -> byte list res

val parse_end : byte list -> u_end option res
