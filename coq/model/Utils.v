(* utils packet structs (src/utils/mod.rs): Serialisable::generate / parse. *)
Require Import GSE.gen.Consts GSE.model.Base GSE.model.Types GSE.model.Header.
Open Scope N_scope.

Record u_complete := { uc_gse_len : N; uc_ptype : N; uc_label : label; uc_pdu : list byte }.
Record u_first := { uf_gse_len : N; uf_fid : N; uf_total : N; uf_ptype : N; uf_label : label; uf_pdu : list byte }.
Record u_inter := { ui_gse_len : N; ui_fid : N; ui_pdu : list byte }.
Record u_end := { ue_gse_len : N; ue_fid : N; ue_pdu : list byte; ue_crc : N }.

Definition gen_complete (d : u_complete) (buf : list byte) : res (list byte) :=
  do b <- write buf 0 (be16 (gen_hdr KComplete (label_type (uc_label d)) (uc_gse_len d)));
  let off := FIXED_HEADER_LEN in
  do b <- write b off (be16 (uc_ptype d));
  let off := off + PROTOCOL_LEN in
  do b <- write b off (label_bytes (uc_label d));
  let off := off + label_len (uc_label d) in
  write b off (uc_pdu d).

(* read_gse_header(..).unwrap() *)
Definition read_hdr_unwrap (buf : list byte) : res (N * kind * ltype) :=
  do hs <- slice buf 0 FIXED_HEADER_LEN;
  do h <- read_hdr (rd16 hs);
  match h with Some x => Ret x | None => Panic end.
(* gse_len.try_into::<u16>().unwrap() *)
Definition to_u16 (x : N) : res N := if x <? 65536 then Ret x else Panic.

Definition parse_complete (buf : list byte) : res (option u_complete) :=
  do '(gse_len, k, t) <- read_hdr_unwrap buf;
  if negb (kind_eqb k KComplete) then Ret None else
  let off := FIXED_HEADER_LEN in
  do pts <- slice buf off (off + PROTOCOL_LEN);
  let off := off + PROTOCOL_LEN in
  do lb <- slice buf off (off + ltype_len t);
  do lab <- label_new t lb;
  let off := off + label_len lab in
  do pdu <- slice buf off (gse_len + FIXED_HEADER_LEN);
  do g <- to_u16 gse_len;
  Ret (Some {| uc_gse_len := g; uc_ptype := rd16 pts; uc_label := lab; uc_pdu := pdu |}).

Definition gen_first (d : u_first) (buf : list byte) : res (list byte) :=
  do b <- write buf 0 (be16 (gen_hdr KFirst (label_type (uf_label d)) (uf_gse_len d)));
  let off := FIXED_HEADER_LEN in
  do b <- write b off [uf_fid d];
  let off := off + FRAG_ID_LEN in
  do b <- write b off (be16 (uf_total d));
  let off := off + TOTAL_LENGTH_LEN in
  do b <- write b off (be16 (uf_ptype d));
  let off := off + PROTOCOL_LEN in
  do b <- write b off (label_bytes (uf_label d));
  let off := off + label_len (uf_label d) in
  write b off (uf_pdu d).

Definition parse_first (buf : list byte) : res (option u_first) :=
  do '(gse_len, k, t) <- read_hdr_unwrap buf;
  if negb (kind_eqb k KFirst) then Ret None else
  let off := FIXED_HEADER_LEN in
  do fs <- slice buf off (off + FRAG_ID_LEN);
  do fid <- idx fs 0;
  let off := off + FRAG_ID_LEN in
  do tls <- slice buf off (off + TOTAL_LENGTH_LEN);
  let off := off + TOTAL_LENGTH_LEN in
  do pts <- slice buf off (off + PROTOCOL_LEN);
  let off := off + PROTOCOL_LEN in
  do lb <- slice buf off (off + ltype_len t);
  do lab <- label_new t lb;
  let off := off + label_len lab in
  do pdu <- slice buf off (gse_len + FIXED_HEADER_LEN);
  do g <- to_u16 gse_len;
  Ret (Some {| uf_gse_len := g; uf_fid := fid; uf_total := rd16 tls; uf_ptype := rd16 pts;
               uf_label := lab; uf_pdu := pdu |}).

Definition gen_inter (d : u_inter) (buf : list byte) : res (list byte) :=
  do b <- write buf 0 (be16 (gen_hdr KInter TR (ui_gse_len d)));
  let off := FIXED_HEADER_LEN in
  do b <- write b off [ui_fid d];
  let off := off + FRAG_ID_LEN in
  write b off (ui_pdu d).

Definition parse_inter (buf : list byte) : res (option u_inter) :=
  do '(gse_len, k, t) <- read_hdr_unwrap buf;
  if negb (kind_eqb k KInter) then Ret None else
  let off := FIXED_HEADER_LEN in
  do fs <- slice buf off (off + FRAG_ID_LEN);
  do fid <- idx fs 0;
  let off := off + FRAG_ID_LEN in
  do pdu <- slice buf off (gse_len + FIXED_HEADER_LEN);
  do g <- to_u16 gse_len;
  Ret (Some {| ui_gse_len := g; ui_fid := fid; ui_pdu := pdu |}).

Definition gen_end (d : u_end) (buf : list byte) : res (list byte) :=
  do b <- write buf 0 (be16 (gen_hdr KEnd TR (ue_gse_len d)));
  let off := FIXED_HEADER_LEN in
  do b <- write b off [ue_fid d];
  let off := off + FRAG_ID_LEN in
  do b <- write b off (ue_pdu d);
  let off := off + lenN (ue_pdu d) in
  write b off (be32 (ue_crc d)).

Definition parse_end (buf : list byte) : res (option u_end) :=
  do '(gse_len, k, t) <- read_hdr_unwrap buf;
  if negb (kind_eqb k KEnd) then Ret None else
  let off := FIXED_HEADER_LEN in
  do fs <- slice buf off (off + FRAG_ID_LEN);
  do fid <- idx fs 0;
  let off := off + FRAG_ID_LEN in
  do e <- subN (gse_len + FIXED_HEADER_LEN) CRC_LEN;
  do pdu <- slice buf off e;
  do cs <- slice buf e (e + CRC_LEN);
  do g <- to_u16 gse_len;
  Ret (Some {| ue_gse_len := g; ue_fid := fid; ue_pdu := pdu; ue_crc := rd32 cs |}).
