(* Sender packets through the receiver: parsing lemmas for the packet builders, the complete-packet round
   trip (C01), tail independence (C10). No model code. *)
Require Import GSE.gen.Consts GSE.model.Base GSE.model.Types GSE.model.Header GSE.model.Ext GSE.model.Encap
  GSE.model.Memory GSE.model.Decap
  GSE.proofs.Tactics GSE.proofs.BaseLemmas GSE.proofs.HeaderLemmas GSE.proofs.EncapSpec GSE.proofs.EncapProps
  GSE.proofs.MemoryLemmas GSE.proofs.DecapBase GSE.proofs.DecapSpec GSE.proofs.DecapProps.
Open Scope N_scope.

(* ---------- labels on the wire ---------- *)
Lemma lt_len_label l : label_wf l -> lt_len (label_type l) = lenN (label_bytes l).
Proof. destruct l; cbn; intuition. Qed.
Lemma mk_label_bytes l : mk_label (label_type l) (label_bytes l) = l.
Proof. destruct l; reflexivity. Qed.
Lemma label_type_not_pad k l : ~ (k = KInter /\ label_type l = T6) \/ k = KInter.
Proof. destruct k; auto; left; intros [? _]; discriminate. Qed.

(* reading a buffer that starts with a 2-byte header word *)
Lemma take2_be16 w rest : takeN 2 (be16 w ++ rest) = be16 w.
Proof. apply takeN_app_eq. reflexivity. Qed.
Lemma drop2_be16 w rest : dropN 2 (be16 w ++ rest) = rest.
Proof. apply dropN_app_eq. reflexivity. Qed.

Section RT.
Variable crc : list byte -> N -> N -> list byte -> N.
Variable mgr : N -> mand.

(* ---------- the receiver on a complete packet built by the sender ---------- *)
Lemma complete_hl_sender s l pt pdu blen : label_wf l -> is_zero6 l = false -> 1536 <= pt < 65536 ->
  lenN pdu + lenN (label_bytes l) + 2 < 4096 ->
  complete_hl mgr s (pkt_complete l pt pdu) (label_type l) blen =
  let n := 4 + lenN (label_bytes l) + lenN pdu in
  match resolve_hl s (label_type l) l with
  | inr e => err_last s e n
  | inl (s1, cur) =>
    match storages (dmem s1) with
    | [] => err_last s1 (DMemory MUnderflow) n
    | pb :: rest =>
      if lenN (bdata pb) <? lenN pdu then err_last s1 DSizePduBuffer n
      else (set_dmem s1 (set_storages (dmem s1) rest),
            inl (DCompleted {| bid := bid pb; bdata := pdu ++ dropN (lenN pdu) (bdata pb) |}
                   {| md_pdu_len := lenN pdu; md_ptype := pt; md_label := cur; md_exts := [] |}, n))
    end
  end.
Proof.
  intros Hw Hz Hpt Hlen. unfold complete_hl. rewrite lenN_pkt_complete, (lt_len_label l Hw).
  set (ll := lenN (label_bytes l)) in *.
  assert (Hl6 : ll <= 6) by (subst ll; rewrite <- (lt_len_label l Hw); apply lt_len_le).
  destruct (N.ltb_spec (4 + ll + lenN pdu - 2) (ll + 2)); [lia|].
  unfold pkt_complete. fold ll. rewrite drop2_be16, take2_be16, rd16_be16 by lia.
  replace (dropN 4 (be16 (hdr_arith KComplete (label_type l) (lenN pdu + ll + 2)) ++ be16 pt ++ label_bytes l ++ pdu))
    with (label_bytes l ++ pdu).
  2:{ rewrite app_assoc. symmetry. apply dropN_app_eq. reflexivity. }
  rewrite takeN_app_eq by reflexivity. rewrite mk_label_bytes, Hz.
  replace (dropN (4 + ll) (be16 (hdr_arith KComplete (label_type l) (lenN pdu + ll + 2)) ++ be16 pt ++ label_bytes l ++ pdu)) with pdu.
  2:{ rewrite !app_assoc. symmetry. apply dropN_app_eq. rewrite !lenN_app, !lenN_be16. subst ll. lia. }
  rewrite walk_fn_noext by lia. cbn [w_len w_ptype w_exts]. cbv zeta.
  destruct (resolve_hl s (label_type l) l) as [[s1 cur]|e]; [|reflexivity].
  destruct (storages (dmem s1)) as [|pb rest]; [reflexivity|].
  replace (dropN (4 + ll + 0) (be16 (hdr_arith KComplete (label_type l) (lenN pdu + ll + 2)) ++ be16 pt ++ label_bytes l ++ pdu)) with pdu.
  2:{ rewrite !app_assoc. symmetry. apply dropN_app_eq. rewrite !lenN_app, !lenN_be16. subst ll. lia. }
  reflexivity.
Qed.

(* decap of a buffer that starts with a packet: only the packet and the buffer length matter *)
Lemma decap_hl_packet s p tail gl k t : lenN p = gl + 2 -> hdr_view (rd16 (takeN 2 p)) = Some (gl, k, t) ->
  decap_hl crc mgr s (p ++ tail) =
  match k with
  | KComplete => complete_hl mgr s p t (lenN p + lenN tail)
  | KFirst => first_hl mgr s p t (lenN p + lenN tail)
  | KInter => inter_hl s p (lenN p + lenN tail)
  | KEnd => end_hl crc s p (lenN p + lenN tail)
  end.
Proof.
  intros Hl Hv. unfold decap_hl. rewrite lenN_app.
  destruct (N.ltb_spec (lenN p + lenN tail) 2); [lia|].
  rewrite takeN_app_le by lia. rewrite Hv.
  destruct (N.ltb_spec (lenN p + lenN tail) (gl + 2)); [lia|].
  rewrite takeN_app_eq by lia. reflexivity.
Qed.


(* ---------- fragments built by the sender, seen by the receiver ---------- *)
Lemma upd_nth_twice {A} (l : list A) : forall i a b, upd_nth (upd_nth l i a) i b = upd_nth l i b.
Proof. induction l as [|x t IH]; intros i a b; cbn [upd_nth]; [reflexivity|].
  destruct (i =? 0) eqn:E; cbn [upd_nth]; rewrite E; [reflexivity|]. now rewrite IH. Qed.
Lemma set_slot_twice m i a b : set_slot (set_slot m i a) i b = set_slot m i b.
Proof. unfold set_slot; cbn [frags set_frags]. rewrite upd_nth_twice. reflexivity. Qed.
Lemma set_frags_twice m a b : set_frags (set_frags m a) b = set_frags m b. Proof. reflexivity. Qed.

Definition ctx_adv (c : dctx) (k : N) : dctx :=
  {| c_label := c_label c; c_ptype := c_ptype c; c_fid := c_fid c; c_total := c_total c;
     c_pdulen := c_pdulen c + k; c_reuse := c_reuse c; c_exts := c_exts c |}.
Definition buf_put (b : sbuf) (off : N) (payload : list byte) : sbuf :=
  {| bid := bid b; bdata := takeN off (bdata b) ++ payload ++ dropN (off + lenN payload) (bdata b) |}.

Lemma inter_hl_sender s fid payload blen c b :
  dstate_wf s -> slot_of (dmem s) fid = Some (c, b) -> c_fid c = fid -> 1 <= lenN payload ->
  c_pdulen c + lenN payload <= lenN (bdata b) -> c_pdulen c + lenN payload <= 65535 ->
  inter_hl s (pkt_inter fid payload) blen =
    (set_dmem s (set_slot (dmem s) (fid mod max_frag_id (dmem s)) (Some (ctx_adv c (lenN payload), buf_put b (c_pdulen c) payload))),
     inl (DFragmented {| md_pdu_len := 0; md_ptype := c_ptype c; md_label := c_label c; md_exts := c_exts c |},
          3 + lenN payload)).
Proof.
  intros Hwf Hs Hf Hp Hfit H16. unfold inter_hl. rewrite lenN_pkt_inter.
  destruct (N.leb_spec (3 + lenN payload - 2) 1); [lia|]. cbv zeta.
  unfold pkt_inter. rewrite drop2_be16. cbn [app hd0].
  replace (dropN 3 (be16 (hdr_arith KInter TR (1 + lenN payload)) ++ fid :: payload)) with payload.
  2:{ change (fid :: payload) with ([fid] ++ payload). rewrite app_assoc. symmetry. apply dropN_app_eq. reflexivity. }
  destruct (slot_of_some _ _ _ Hwf Hs) as (Hz & _).
  unfold take_frag_fn. destruct (N.eqb_spec (max_frag_id (dmem s)) 0); [contradiction|]. rewrite Hs, Hf, N.eqb_refl.
  replace ((lenN (bdata b) - c_pdulen c <? lenN payload) || (65535 <? c_pdulen c + lenN payload)) with false.
  2:{ symmetry. apply orb_false_iff. split; [apply N.ltb_ge|apply N.ltb_ge]; lia. }
  unfold save_frag_fn. cbn [max_frag_id set_slot set_frags fst c_fid].
  destruct (N.eqb_spec (max_frag_id (dmem s)) 0); [contradiction|].
  destruct Hwf as (Hw & _).
  assert (Hi : fid mod max_frag_id (dmem s) < max_frag_id (dmem s)) by (apply N.mod_lt; assumption).
  fold (set_slot (dmem s) (fid mod max_frag_id (dmem s)) None).
  rewrite Hf. rewrite slot_of_set_slot by assumption. rewrite N.eqb_refl.
  rewrite set_slot_twice. unfold ctx_adv, buf_put. rewrite Hf. reflexivity.
Qed.

Lemma end_hl_sender s fid payload crcv blen c b :
  dstate_wf s -> slot_of (dmem s) fid = Some (c, b) -> c_fid c = fid -> crcv < 4294967296 ->
  c_pdulen c + lenN payload <= lenN (bdata b) ->
  end_hl crc s (pkt_end fid payload crcv) blen =
    let s1 := set_dmem s (set_slot (dmem s) (fid mod max_frag_id (dmem s)) None) in
    let pb' := buf_put b (c_pdulen c) payload in
    let pdu_len := c_pdulen c + lenN payload in
    let first_ll := if c_reuse c then 0 else lt_len (label_type (c_label c)) in
    let crc_label := if c_reuse c then [] else label_bytes (c_label c) in
    if negb (c_total c =? pdu_len + 2 + first_ll) then give_back_hl s1 pb' DTotalLength (7 + lenN payload) else
    if negb (crc (takeN pdu_len (bdata pb')) (c_ptype c) (c_total c) crc_label =? crcv)
    then give_back_hl s1 pb' DCrc (7 + lenN payload)
    else (s1, inl (DCompleted pb' {| md_pdu_len := pdu_len; md_ptype := c_ptype c; md_label := c_label c;
                                     md_exts := c_exts c |}, 7 + lenN payload)).
Proof.
  intros Hwf Hs Hf Hcrc Hfit. unfold end_hl. rewrite lenN_pkt_end.
  destruct (N.ltb_spec (7 + lenN payload - 2) 5); [lia|]. cbv zeta.
  unfold pkt_end. rewrite drop2_be16. cbn [app hd0].
  replace (7 + lenN payload - 7) with (lenN payload) by lia.
  replace (dropN 3 (be16 (hdr_arith KEnd TR (5 + lenN payload)) ++ fid :: payload ++ be32 crcv)) with (payload ++ be32 crcv).
  2:{ change (fid :: payload ++ be32 crcv) with ([fid] ++ payload ++ be32 crcv). rewrite app_assoc. symmetry. apply dropN_app_eq. reflexivity. }
  rewrite takeN_app_eq by reflexivity.
  replace (dropN (3 + lenN payload) (be16 (hdr_arith KEnd TR (5 + lenN payload)) ++ fid :: payload ++ be32 crcv)) with (be32 crcv).
  2:{ change (fid :: payload ++ be32 crcv) with ([fid] ++ payload ++ be32 crcv). rewrite !app_assoc. symmetry. apply dropN_app_eq.
      rewrite !lenN_app, lenN_be16. change (lenN [fid]) with 1. lia. }
  rewrite rd32_be32 by assumption.
  destruct (slot_of_some _ _ _ Hwf Hs) as (Hz & _).
  unfold take_frag_fn. destruct (N.eqb_spec (max_frag_id (dmem s)) 0); [contradiction|]. rewrite Hs, Hf, N.eqb_refl.
  destruct (N.ltb_spec (lenN (bdata b) - c_pdulen c) (lenN payload)); [lia|].
  reflexivity.
Qed.


Lemma first_hl_sender s l fid tl pt payload blen : label_wf l -> is_zero6 l = false -> 1536 <= pt < 65536 ->
  tl < 65536 -> 5 + lenN (label_bytes l) + lenN payload < 4096 ->
  first_hl mgr s (pkt_first l fid tl pt payload) (label_type l) blen =
  let n := 7 + lenN (label_bytes l) + lenN payload in
  match resolve_hl s (label_type l) l with
  | inr e => err_last s e n
  | inl (s1, cur) =>
    if tl <=? lenN payload then err_last s1 DTotalLength blen else
    let c := {| c_label := cur; c_ptype := pt; c_fid := fid; c_total := tl; c_pdulen := lenN payload;
                c_reuse := ltype_eqb (label_type l) TR; c_exts := [] |} in
    match new_frag_fn (dmem s1) c with
    | (m, inr e) => err_last (set_dmem s1 m) (DMemory e) n
    | (m, inl (c', pb)) =>
      if lenN (bdata pb) <? lenN payload
      then give_back_hl (set_dlast (set_dmem s1 m) None) pb DSizePduBuffer n
      else
        match save_frag_fn m (c', {| bid := bid pb; bdata := payload ++ dropN (lenN payload) (bdata pb) |}) with
        | (m', None) =>
            (set_dmem s1 m',
             inl (DFragmented {| md_pdu_len := 0; md_ptype := c_ptype c'; md_label := c_label c'; md_exts := [] |}, n))
        | (m', Some e) => (set_dmem s1 m', inr (DMemory e, n))
        end
    end
  end.
Proof.
  intros Hw Hz Hpt Htl Hlen. unfold first_hl. rewrite lenN_pkt_first, (lt_len_label l Hw).
  set (ll := lenN (label_bytes l)) in *.
  assert (Hl6 : ll <= 6) by (subst ll; rewrite <- (lt_len_label l Hw); apply lt_len_le).
  destruct (N.ltb_spec (7 + ll + lenN payload - 2) (ll + 5)); [lia|].
  unfold pkt_first. fold ll. rewrite drop2_be16. cbn [app hd0].
  set (hdr := be16 (hdr_arith KFirst (label_type l) (5 + ll + lenN payload))).
  set (whole := hdr ++ fid :: be16 tl ++ be16 pt ++ label_bytes l ++ payload).
  assert (D3 : dropN 3 whole = be16 tl ++ be16 pt ++ label_bytes l ++ payload).
  { replace whole with ((hdr ++ [fid]) ++ be16 tl ++ be16 pt ++ label_bytes l ++ payload) by (subst whole; now rewrite <- !app_assoc).
    apply dropN_app_eq. reflexivity. }
  assert (D5 : dropN 5 whole = be16 pt ++ label_bytes l ++ payload).
  { replace whole with ((hdr ++ [fid] ++ be16 tl) ++ be16 pt ++ label_bytes l ++ payload) by (subst whole; now rewrite <- !app_assoc).
    apply dropN_app_eq. reflexivity. }
  assert (D7 : dropN 7 whole = label_bytes l ++ payload).
  { replace whole with ((hdr ++ [fid] ++ be16 tl ++ be16 pt) ++ label_bytes l ++ payload) by (subst whole; now rewrite <- !app_assoc).
    apply dropN_app_eq. reflexivity. }
  assert (D7l : forall x, x = 7 + ll -> dropN x whole = payload).
  { intros x ->. replace whole with ((hdr ++ [fid] ++ be16 tl ++ be16 pt ++ label_bytes l) ++ payload) by (subst whole; now rewrite <- !app_assoc).
    apply dropN_app_eq. rewrite !lenN_app. subst hdr. rewrite !lenN_be16. change (lenN [fid]) with 1. subst ll. lia. }
  rewrite D3, D5, D7. rewrite !take2_be16, !rd16_be16 by lia.
  rewrite takeN_app_eq by reflexivity. rewrite mk_label_bytes, Hz.
  destruct (resolve_hl s (label_type l) l) as [[s1 cur]|e]; [|reflexivity].
  rewrite (D7l (7 + ll)) by reflexivity. rewrite walk_fn_noext by lia. cbn [w_len w_ptype w_exts]. cbv zeta.
  rewrite (D7l (7 + ll + 0)) by lia.
  reflexivity.
Qed.

End RT.
