(* Closed form of encap_ext (sender side of C13; encap_ext parts of C06 / C09 / C10 / C19). No model code. *)
Require Import GSE.gen.Consts GSE.model.Base GSE.model.Types GSE.model.Header GSE.model.Ext GSE.model.Encap
  GSE.proofs.Tactics GSE.proofs.BaseLemmas GSE.proofs.HeaderLemmas GSE.proofs.EncapSpec GSE.proofs.EncapProps.
Open Scope N_scope.

(* an extension as Extension::new builds it: the data has the length its variant announces *)
Definition ext_wf (e : ext) : Prop :=
  match ext_dat e with
  | D2 b => lenN b = 2 | D4 b => lenN b = 4 | D6 b => lenN b = 6 | D8 b => lenN b = 8
  | DNo => True | DMand _ => True
  end.
Lemma ext_len_bytes e : ext_wf e -> ext_len e = 2 + lenN (ext_bytes e).
Proof. unfold ext_wf, ext_len, ext_bytes. consts. destruct (ext_dat e); intros; try lia. reflexivity. Qed.

(* the bytes between the label and the payload: data of ext 0, id of ext 1, data of ext 1, ..., data of the last *)
Fixpoint chain_body (es : list ext) : list byte :=
  match es with
  | [] => []
  | [e] => ext_bytes e
  | e :: ((e' :: _) as t) => ext_bytes e ++ be16 (ext_id e') ++ chain_body t
  end.
Definition chain_bytes (es : list ext) (final : bool) (pt : N) : list byte :=
  chain_body es ++ (if final then [] else be16 pt).

Lemma chain_body_cons2 e e' t : chain_body (e :: e' :: t) = ext_bytes e ++ be16 (ext_id e') ++ chain_body (e' :: t).
Proof. reflexivity. Qed.
Lemma sum_ext_len_cons e t : sum_ext_len (e :: t) = ext_len e + sum_ext_len t. Proof. reflexivity. Qed.

Lemma chain_body_len es : es <> [] -> Forall ext_wf es -> lenN (chain_body es) + 2 = sum_ext_len es.
Proof.
  induction es as [|e t IH]; intros Hne Hwf; [contradiction|]. inversion Hwf as [|? ? He Ht]; subst.
  destruct t as [|e' t'].
  - cbn [chain_body sum_ext_len]. rewrite (ext_len_bytes e He). lia.
  - rewrite chain_body_cons2, sum_ext_len_cons. rewrite !lenN_app, lenN_be16. rewrite (ext_len_bytes e He).
    specialize (IH ltac:(discriminate) Ht). lia.
Qed.

Fixpoint last_of (es : list ext) (d : ext) : ext := match es with [] => d | [e] => e | _ :: t => last_of t d end.
Lemma last_ext_any es : es <> [] -> forall d, last_ext es = Ret (last_of es d).
Proof.
  induction es as [|e t IH]; intros Hne d; [contradiction|]. destruct t as [|e' t']; [reflexivity|].
  change (last_ext (e :: e' :: t')) with (last_ext (e' :: t')). change (last_of (e :: e' :: t') d) with (last_of (e' :: t') d).
  apply IH. discriminate.
Qed.
Lemma last_ext_ok es e0 : last_ext (e0 :: es) = Ret (last_of (e0 :: es) e0).
Proof. apply last_ext_any. discriminate. Qed.

(* the chain writer *)
Lemma write_chain_spec es : es <> [] -> forall (pre : list byte) k buf off, off = k -> lenN pre = k ->
  k + lenN (chain_body es) <= lenN buf ->
  write_chain (pre ++ dropN k buf) off es =
    Ret ((pre ++ chain_body es) ++ dropN (k + lenN (chain_body es)) buf, k + lenN (chain_body es)).
Proof.
  induction es as [|e t IH]; intros Hne pre k buf off -> Hk Hfit; [contradiction|].
  destruct t as [|e' t'].
  - cbn [write_chain chain_body] in *. rewrite write_next by (auto; lia). cbn [bind]. reflexivity.
  - rewrite chain_body_cons2 in *. rewrite !lenN_app, lenN_be16 in Hfit.
    change (write_chain (pre ++ dropN k buf) k (e :: e' :: t'))
      with (do b <- write (pre ++ dropN k buf) k (ext_bytes e);
            do b <- write b (k + lenN (ext_bytes e)) (be16 (ext_id e'));
            write_chain b (k + lenN (ext_bytes e) + PROTOCOL_LEN) (e' :: t')).
    rewrite write_next by (auto; lia). cbn [bind].
    rewrite write_next by (rewrite ?lenN_app, ?lenN_be16; lia). cbn [bind]. consts.
    rewrite IH by (try discriminate; rewrite ?lenN_app, ?lenN_be16; lia).
    rewrite !lenN_app, lenN_be16. rewrite <- !app_assoc.
    replace (k + (lenN (ext_bytes e) + (2 + lenN (chain_body (e' :: t'))))) with (k + lenN (ext_bytes e) + 2 + lenN (chain_body (e' :: t'))) by lia.
    reflexivity.
Qed.

Section WithCrc.
Variable crc : list byte -> N -> N -> list byte -> N.

Definition pkt_complete_x (l : label) (id0 : N) (chain pdu : list byte) : list byte :=
  be16 (hdr_arith KComplete (label_type l) (lenN pdu + lenN (label_bytes l) + 2 + lenN chain))
  ++ be16 id0 ++ label_bytes l ++ chain ++ pdu.
Definition pkt_first_x (l : label) (fid tl id0 : N) (chain payload : list byte) : list byte :=
  be16 (hdr_arith KFirst (label_type l) (5 + lenN (label_bytes l) + lenN chain + lenN payload))
  ++ [fid] ++ be16 tl ++ be16 id0 ++ label_bytes l ++ chain ++ payload.

Definition encap_ext_hl (s : enc_state) (pdu : list byte) (fid pt : N) (lab : label) (buf : list byte) (exts : list ext)
  : enc_out :=
  match exts with
  | [] => (s, buf, inr ENoExtensionFound)
  | e0 :: _ =>
    let final := pt <? 256 in
    if final && negb (ext_id (last_of exts e0) =? pt) then (s, buf, inr EFinalMandatoryExtensionHeader) else
    if negb final && (pt <? 1536) then (s, buf, inr EProtocolType) else
    if is_zero6 lab then (s, buf, inr EInvalidLabel) else
    let '(s1, l) := check_reuse_hl s lab in
    let ll := lenN (label_bytes l) in
    let pl := lenN pdu in
    let chain := chain_bytes exts final pt in
    let tle := lenN chain in
    if (4 + ll + tle + pl <=? lenN buf) && (pl + ll + 2 + tle <=? 4095) then
      let pkt := pkt_complete_x l (ext_id e0) chain pdu in
      (s1, pkt ++ dropN (lenN pkt) buf, inl (Completed (lenN pkt)))
    else if lenN buf <? 7 + ll + tle then (s, buf, inr ESizeBuffer)
    else if 65535 <? pl + 2 + ll then (s, buf, inr EPduLength)
    else if 4095 <? 5 + ll + tle then (s, buf, inr EPduLength)
    else
      let pe := N.min (lenN buf - (7 + ll + tle)) (4095 - (5 + ll + tle)) in
      let tl := pl + 2 + ll in
      let pkt := pkt_first_x l fid tl (ext_id e0) chain (takeN pe pdu) in
      (s1, pkt ++ dropN (lenN pkt) buf,
       inl (Fragmented (lenN pkt) {| cf_id := fid; cf_crc := crc pdu pt tl (label_bytes l); cf_len := pe |}))
  end.

Lemma lenN_pkt_complete_x l id0 chain pdu : lenN (pkt_complete_x l id0 chain pdu) = 4 + lenN (label_bytes l) + lenN chain + lenN pdu.
Proof. unfold pkt_complete_x. rewrite !lenN_app, !lenN_be16. lia. Qed.
Lemma lenN_pkt_first_x l fid tl id0 chain p : lenN (pkt_first_x l fid tl id0 chain p) = 7 + lenN (label_bytes l) + lenN chain + lenN p.
Proof. unfold pkt_first_x. rewrite !lenN_app, !lenN_be16, lenN_cons, lenN_nil. lia. Qed.


Lemma chain_bytes_len es final pt : es <> [] -> Forall ext_wf es ->
  lenN (chain_bytes es final pt) + (if final then 2 else 0) = sum_ext_len es.
Proof.
  intros Hne Hwf. unfold chain_bytes. rewrite lenN_app. pose proof (chain_body_len es Hne Hwf).
  destruct final; [rewrite lenN_nil|rewrite lenN_be16]; lia.
Qed.

Lemma encap_ext_spec s pdu fid pt lab buf exts : enc_wf s -> label_wf lab -> Forall ext_wf exts ->
  encap_ext crc s pdu fid pt lab buf exts = Ret (encap_ext_hl s pdu fid pt lab buf exts).
Proof.
  intros Hs Hw Hx. unfold encap_ext, encap_ext_hl.
  destruct exts as [|e0 rest] eqn:Eex; [reflexivity|]. rewrite <- Eex in *.
  assert (Hne : exts <> []) by (rewrite Eex; discriminate).
  rewrite (last_ext_any exts Hne e0). cbn [bind].
  change MAX_MANDATORY_VAL_PTYPE with 256. change SECOND_RANGE_PTYPE with 1536.
  destruct ((pt <? 256) && negb (ext_id (last_of exts e0) =? pt)); [reflexivity|].
  destruct (negb (pt <? 256) && (pt <? 1536)); [reflexivity|].
  set (final := pt <? 256).
  pose proof (chain_bytes_len exts final pt Hne Hx) as Hcl.
  set (chain := chain_bytes exts final pt) in *.
  assert (Etle : (if final then subN (sum_ext_len exts) PROTOCOL_LEN else Ret (sum_ext_len exts)) = Ret (lenN chain)).
  { consts. destruct final; [rewrite subN_ok by lia; f_equal; lia|f_equal; lia]. }
  rewrite Etle. cbn [bind].
  destruct (is_zero6 lab); [reflexivity|].
  rewrite check_reuse_ok by exact Hs. cbn [bind].
  destruct (check_reuse_hl s lab) as [s1 l] eqn:Hc.
  pose proof (check_reuse_label_wf _ _ _ _ Hw Hc) as Hwl.
  pose proof (label_len_bytes l Hwl) as Hll. pose proof (label_len_le l) as Hl6.
  rewrite <- Hll in *. clear Hll. consts.
  (* the shared tail *)
  assert (TAIL : forall (pre : list byte) k pe st, lenN pre = k ->
     k + 2 + lenN (label_bytes l) + lenN chain + pe <= lenN buf -> pe <= lenN pdu ->
     (do b <- write (pre ++ dropN k buf) k (be16 (ext_id e0));
      do b0 <- write b (k + 2) (label_bytes l);
      do '(b1, off2) <- write_chain b0 (k + 2 + lenN (label_bytes l)) exts;
      do '(b2, off3) <- (if final then Ret (b1, off2) else do b2 <- write b1 off2 (be16 pt); Ret (b2, off2 + 2));
      do src <- slice pdu 0 pe;
      do b3 <- write b2 off3 src; Ret (s1, b3, inl st))
     = Ret (s1, (pre ++ be16 (ext_id e0) ++ label_bytes l ++ chain ++ takeN pe pdu)
                 ++ dropN (k + 2 + lenN (label_bytes l) + lenN chain + pe) buf, @inl enc_status enc_error st)).
  { intros pre k pe st Hk Hfit Hpe.
    assert (Hcb : lenN chain = lenN (chain_body exts) + (if final then 0 else 2)).
    { subst chain. unfold chain_bytes. rewrite lenN_app. destruct final; [now rewrite lenN_nil|now rewrite lenN_be16]. }
    rewrite write_next by (rewrite ?lenN_be16; lia). cbn [bind].
    rewrite write_next by (rewrite ?lenN_app, ?lenN_be16; lia). cbn [bind].
    rewrite write_chain_spec by (auto; rewrite ?lenN_app, ?lenN_be16; try lia). cbn [bind].
    destruct final.
    - cbn [bind]. rewrite slice_prefix by lia. cbn [bind].
      rewrite write_next by (rewrite ?lenN_app, ?lenN_be16, ?lenN_takeN; lia). cbn [bind].
      subst chain. unfold chain_bytes. rewrite app_nil_r, lenN_takeN. rewrite !lenN_be16.
      replace (N.min pe (lenN pdu)) with pe by lia. rewrite <- !app_assoc.
      replace (k + 2 + lenN (label_bytes l) + lenN (chain_body exts) + pe) with (k + 2 + lenN (label_bytes l) + lenN (chain_body exts) + pe) by lia.
      reflexivity.
    - rewrite write_next by (rewrite ?lenN_app, ?lenN_be16; lia). cbn [bind].
      rewrite slice_prefix by lia. cbn [bind].
      rewrite write_next by (rewrite ?lenN_app, ?lenN_be16, ?lenN_takeN; lia). cbn [bind].
      subst chain. unfold chain_bytes. rewrite lenN_takeN, !lenN_app, !lenN_be16.
      replace (N.min pe (lenN pdu)) with pe by lia. rewrite <- !app_assoc.
      replace (k + 2 + lenN (label_bytes l) + lenN (chain_body exts) + 2 + pe) with (k + 2 + lenN (label_bytes l) + (lenN (chain_body exts) + 2) + pe) by lia.
      reflexivity. }
  replace (2 + 2 + lenN (label_bytes l) + lenN chain + lenN pdu <=? lenN buf)
    with (4 + lenN (label_bytes l) + lenN chain + lenN pdu <=? lenN buf) by (f_equal; lia).
  destruct ((4 + lenN (label_bytes l) + lenN chain + lenN pdu <=? lenN buf) && (lenN pdu + lenN (label_bytes l) + 2 + lenN chain <=? 4095)) eqn:Hfit.
  - apply andb_prop in Hfit as [Hf Hg]. apply N.leb_le in Hf. apply N.leb_le in Hg.
    rewrite u16_small by lia. rewrite gen_hdr_arith by lia.
    rewrite write_first by (rewrite lenN_be16; lia). cbn [bind].
    rewrite u16_small by lia. rewrite add_chk_ok by (change (2 ^ 16) with 65536; lia). cbn [bind].
    rewrite lenN_be16. rewrite (TAIL _ (0 + 2) (lenN pdu)) by (rewrite ?lenN_app, ?lenN_be16, ?lenN_nil; lia).
    rewrite takeN_all by lia. rewrite lenN_pkt_complete_x. unfold pkt_complete_x. cbn [app]. rewrite <- !app_assoc.
    replace (0 + 2 + 2 + lenN (label_bytes l) + lenN chain + lenN pdu) with (4 + lenN (label_bytes l) + lenN chain + lenN pdu) by lia.
    replace (lenN pdu + lenN (label_bytes l) + 2 + lenN chain + 2) with (4 + lenN (label_bytes l) + lenN chain + lenN pdu) by lia.
    reflexivity.
  - rename Hfit into Hnc.
    replace (2 + 2 + lenN (label_bytes l) + lenN chain + 1 + 2) with (7 + lenN (label_bytes l) + lenN chain) by lia.
    destruct (N.ltb_spec (lenN buf) (7 + lenN (label_bytes l) + lenN chain)) as [Hb|Hb]; [now rewrite (restore_id _ _ _ _ Hc)|].
    destruct (N.ltb_spec 65535 (lenN pdu + 2 + lenN (label_bytes l))) as [Hbig|Hbig]; [now rewrite (restore_id _ _ _ _ Hc)|].
    rewrite subN_ok by lia. cbn [bind].
    replace (7 + lenN (label_bytes l) + lenN chain - 2) with (5 + lenN (label_bytes l) + lenN chain) by lia.
    destruct (N.ltb_spec 4095 (5 + lenN (label_bytes l) + lenN chain)) as [Hh|Hh]; [now rewrite (restore_id _ _ _ _ Hc)|].
    rewrite !subN_ok by lia. cbn [bind]. cbv zeta.
    remember (N.min (lenN buf - (7 + lenN (label_bytes l) + lenN chain)) (4095 - (5 + lenN (label_bytes l) + lenN chain))) as pe eqn:Epe.
    assert (Hpe : pe <= lenN pdu).
    { apply andb_false_iff in Hnc as [Hn|Hn]; [apply N.leb_gt in Hn|apply N.leb_gt in Hn]; lia. }
    rewrite !u16_small by lia. rewrite gen_hdr_arith by lia.
    rewrite write_first by (rewrite lenN_be16; lia). cbn [bind].
    rewrite write_next by (autorewrite with lens; lia). cbn [bind].
    rewrite write_next by (autorewrite with lens; lia). cbn [bind].
    rewrite slice_prefix by lia. cbn [bind]. rewrite (takeN_all (lenN pdu)) by lia.
    rewrite (TAIL _ (0 + 2 + 1 + 2) pe) by (autorewrite with lens; lia).
    rewrite lenN_pkt_first_x, lenN_takeN. replace (N.min pe (lenN pdu)) with pe by lia.
    unfold pkt_first_x. rewrite lenN_takeN. replace (N.min pe (lenN pdu)) with pe by lia.
    autorewrite with lens. cbn [app]. rewrite <- !app_assoc. cbn [app].
    replace (1 + 2 + 2 + lenN (label_bytes l) + pe + lenN chain) with (5 + lenN (label_bytes l) + lenN chain + pe) by lia.
    replace (0 + 2 + 1 + 2 + 2 + lenN (label_bytes l) + lenN chain + pe) with (7 + lenN (label_bytes l) + lenN chain + pe) by lia.
    replace (2 + 1 + 2 + 2 + lenN (label_bytes l) + lenN chain + pe) with (7 + lenN (label_bytes l) + lenN chain + pe) by lia.
    rewrite <- ?app_assoc. reflexivity.
Qed.

End WithCrc.
