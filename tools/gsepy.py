"""Shared helpers for the case generators and the property oracles.
Independent reading of ETSI TS 102 606 in plain Python: own packet builder / parser and own bitwise
CRC-32/MPEG-2, so that the oracles do not go through the Coq model nor through the crate."""


class Rng:
    """SplitMix64: every random choice of a run derives from one seed."""

    def __init__(self, seed):
        self.s = seed & 0xFFFFFFFFFFFFFFFF

    def next(self):
        self.s = (self.s + 0x9E3779B97F4A7C15) & 0xFFFFFFFFFFFFFFFF
        z = self.s
        z = ((z ^ (z >> 30)) * 0xBF58476D1CE4E5B9) & 0xFFFFFFFFFFFFFFFF
        z = ((z ^ (z >> 27)) * 0x94D049BB133111EB) & 0xFFFFFFFFFFFFFFFF
        return z ^ (z >> 31)

    def below(self, n):
        return self.next() % n if n > 0 else 0

    def range(self, a, b):  # inclusive
        return a + self.below(b - a + 1)

    def choice(self, xs):
        return xs[self.below(len(xs))]

    def chance(self, p):
        return self.below(1000) < int(p * 1000)

    def bytes(self, n):
        return bytes(self.below(256) for _ in range(n))

    def fork(self):
        return Rng(self.next())


def gen_bytes(length, seed):
    """The byte stream behind a `g<len>.<seed>` token (same LCG in harness/src/main.rs and ocaml/driver.ml)."""
    x = seed & 0x7FFFFFFF
    out = bytearray()
    for _ in range(length):
        x = (x * 1103515245 + 12345) & 0x7FFFFFFF
        out.append((x >> 16) & 0xFF)
    return bytes(out)


def tok_bytes(tok):
    if tok.startswith("g"):
        l, s = tok[1:].split(".")
        return gen_bytes(int(l), int(s))
    return b"" if tok == "-" else bytes.fromhex(tok)


def hx(b):
    return b.hex() if len(b) else "-"


def crc32_mpeg2(data, reg=0xFFFFFFFF):
    """bit-serial CRC-32, polynomial 0x04C11DB7, MSB first, no reflection, no final xor"""
    for byte in data:
        reg ^= byte << 24
        for _ in range(8):
            if reg & 0x80000000:
                reg = ((reg << 1) ^ 0x04C11DB7) & 0xFFFFFFFF
            else:
                reg = (reg << 1) & 0xFFFFFFFF
    return reg


_TAB = None


def crc32_fast(data, reg=0xFFFFFFFF):
    """table version of the same polynomial, table computed here from the bit-serial definition"""
    global _TAB
    if _TAB is None:
        _TAB = [crc32_mpeg2(bytes([i]), 0) for i in range(256)]
    for b in data:
        reg = ((reg << 8) & 0xFFFFFFFF) ^ _TAB[((reg >> 24) ^ b) & 0xFF]
    return reg


def gse_crc(pdu, ptype, total_len, label_bytes):
    return crc32_fast(total_len.to_bytes(2, "big") + ptype.to_bytes(2, "big") + label_bytes + pdu)


# ---- labels: token form "6:hex" "3:hex" "B" "R" ----
def label_bytes(tok):
    return b"" if tok in ("B", "R") else bytes.fromhex(tok[2:])


def label_lt(tok):
    return {"6": 0, "3": 1, "B": 2, "R": 3}[tok[0]]


def label_from(lt, b):
    return {0: "6:" + b.hex(), 1: "3:" + b.hex(), 2: "B", 3: "R"}[lt]


LT_LEN = {0: 6, 1: 3, 2: 0, 3: 0}
KIND = {3: "C", 2: "F", 0: "I", 1: "E"}
SE = {"C": 3, "F": 2, "I": 0, "E": 1}


def header(kind, lt, gse_len):
    return ((SE[kind] << 14) | (lt << 12) | (gse_len & 0xFFF)).to_bytes(2, "big")


def build_complete(ptype, label, pdu, exts=b"", first_id=None):
    """exts: bytes that follow the label (extension data / ids / final protocol type), first_id replaces ptype"""
    body = (first_id if first_id is not None else ptype).to_bytes(2, "big") + label_bytes(label) + exts + pdu
    return header("C", label_lt(label), len(body)) + body


def build_first(fid, total, ptype, label, payload, exts=b"", first_id=None):
    body = bytes([fid]) + total.to_bytes(2, "big") + (first_id if first_id is not None else ptype).to_bytes(2, "big") \
        + label_bytes(label) + exts + payload
    return header("F", label_lt(label), len(body)) + body


def build_inter(fid, payload, lt=3):
    body = bytes([fid]) + payload
    return header("I", lt, len(body)) + body


def build_end(fid, payload, crc, lt=3):
    body = bytes([fid]) + payload + crc.to_bytes(4, "big")
    return header("E", lt, len(body)) + body


def fragment(pdu, fid, ptype, label, sizes, crc_label=None, wire_label=None):
    """Split a PDU into a train with the given payload sizes (last chunk goes to the end packet).
    label: the label the CRC/total length are computed with; wire_label (default = label) is what the first
    fragment carries (use "R" for a re-use first fragment: then crc_label defaults to b"")."""
    wl = wire_label if wire_label is not None else label
    cl = crc_label if crc_label is not None else label_bytes(wl)
    total = len(pdu) + 2 + len(label_bytes(wl))
    crc = gse_crc(pdu, ptype, total, cl)
    pkts, off = [], 0
    for i, s in enumerate(sizes):
        chunk = pdu[off:off + s]
        off += s
        if i == 0:
            pkts.append(build_first(fid, total, ptype, wl, chunk))
        else:
            pkts.append(build_inter(fid, chunk))
    pkts.append(build_end(fid, pdu[off:], crc))
    return pkts


class Parsed:
    pass


def parse_packet(b, ext_sizes=None):
    """Independent parser of one GSE packet at the start of b. Returns Parsed or a string (why not).
    ext_sizes: dict mandatory id -> ('F'|'N', size) known to the reader."""
    if len(b) < 2:
        return "short"
    w = int.from_bytes(b[:2], "big")
    se, lt, gl = w >> 14, (w >> 12) & 3, w & 0xFFF
    if se == 0 and lt == 0:
        return "padding"
    if len(b) < gl + 2:
        return "truncated"
    p = Parsed()
    p.kind, p.lt, p.gse_len, p.pkt = KIND[se], lt, gl, b[:gl + 2]
    body = b[2:gl + 2]
    o = 0
    p.fid = p.total = p.ptype = p.crc = None
    p.label = None
    p.exts = []
    if p.kind in ("F", "I", "E"):
        if len(body) < 1:
            return "no frag id"
        p.fid = body[0]
        o = 1
    if p.kind == "F":
        if len(body) < o + 2:
            return "no total length"
        p.total = int.from_bytes(body[o:o + 2], "big")
        o += 2
    if p.kind in ("C", "F"):
        if len(body) < o + 2 + LT_LEN[lt]:
            return "no ptype/label"
        p.ptype = int.from_bytes(body[o:o + 2], "big")
        o += 2
        p.label = label_from(lt, body[o:o + LT_LEN[lt]])
        o += LT_LEN[lt]
        # extension chain
        while p.ptype < 0x600:
            h = p.ptype >> 8
            if h == 0:
                if ext_sizes is None or p.ptype not in ext_sizes:
                    p.unknown_mandatory = p.ptype
                    p.payload = body[o:]
                    p.hdr_len = 2 + o
                    return p
                fin, size = ext_sizes[p.ptype]
            else:
                fin, size = "N", [None, 0, 2, 4, 6, 8][h]
            if len(body) < o + size:
                return "extension past the packet"
            p.exts.append((p.ptype, body[o:o + size]))
            o += size
            if fin == "F":
                break
            if len(body) < o + 2:
                return "no protocol type after extensions"
            p.ptype = int.from_bytes(body[o:o + 2], "big")
            o += 2
    if p.kind == "E":
        if len(body) < o + 4:
            return "no crc"
        p.crc = int.from_bytes(body[-4:], "big")
        p.payload = body[o:-4]
    else:
        p.payload = body[o:]
    p.hdr_len = 2 + o
    return p


def exts_tok(exts):
    """[(id, data)] -> token for EEXT"""
    return ",".join("%04x:%s" % (i, d.hex() if d else "-") for i, d in exts) if exts else "-"


def exts_obs(exts):
    """[(id, data)] -> the way executors print an extension list"""
    if not exts:
        return "-"
    out = []
    for i, d in exts:
        k = "DM" if i < 0x100 else {0: "DN", 2: "D2", 4: "D4", 6: "D6", 8: "D8"}[len(d)]
        out.append("%04x:%s:%s" % (i, k, d.hex() if d else "-"))
    return ",".join(out)


def kv(line):
    """'ok completed len=65 pdulen=26 ...' -> (['ok','completed'], {'len':'65',...})"""
    words, d = [], {}
    for t in line.split(" "):
        if "=" in t:
            k, v = t.split("=", 1)
            d[k] = v
        else:
            words.append(t)
    return words, d
