(* C08 -- storage buffers are conserved: never leaked, never duplicated. Pinned statements only.
   Scope: the bundled SimpleGseMemory (DESIGN.md section 5). A storage buffer carries a ghost identity `bid`;
   the library moves buffers, it never copies them. *)
Require Import GSE.model.Base GSE.model.Types GSE.model.Ext GSE.model.Memory GSE.model.Decap
  GSE.proofs.Tactics GSE.proofs.BaseLemmas GSE.proofs.MemoryLemmas GSE.proofs.DecapSpec GSE.proofs.DecapProps
  GSE.proofs.Conserve.
Require Import Coq.Sorting.Permutation.
Open Scope N_scope.

(* per call: the identities held by the memory (free list + slots) after the call, together with the buffer handed
   out in the result (completed PDU, or the buffer inside an error value), are exactly those held before.
   In particular every decap call that ends in an error returns any buffer it took. *)
Theorem c08_decap_conserves : forall crc mgr s buf s' r, dstate_wf s -> bytes_ok buf ->
  decap crc mgr s buf = Ret (s', r) ->
  Permutation (mem_bids (dmem s') ++ res_bids r) (mem_bids (dmem s)).
Proof.
  intros crc mgr s buf s' r Hwf Hb H. rewrite decap_spec in H by assumption. injection H as H.
  pose proof (decap_conserves crc mgr s buf Hwf) as P. now rewrite H in P.
Qed.

(* histories: the caller provisions new buffers, gives back buffers it owns, takes PDU buffers, resets, and
   calls decap on arbitrary bytes; `owned` is what the caller holds (handed out in results and not given back) *)
Inductive cop :=
  | CODecap (buf : list byte) | COProvNew (b : sbuf) | COProvBack (k : nat) | CONewPdu | COReset.
Definition cop_ok (o : cop) : Prop := match o with CODecap buf => bytes_ok buf | _ => True end.

Definition handed (r : dec_result) : list sbuf :=
  match r with
  | inl (DCompleted b _, _) => [b]
  | inr (DMemory (MOverflow b), _) | inr (DMemory (MTooSmall b), _) => [b]
  | _ => []
  end.
Fixpoint remove_nth {A} (k : nat) (l : list A) : list A :=
  match k, l with O, _ :: t => t | S k', x :: t => x :: remove_nth k' t | _, [] => [] end.

Definition cstep crc mgr (w : dstate * list sbuf) (o : cop) : res (dstate * list sbuf) :=
  let '(s, owned) := w in
  match o with
  | CODecap buf => do '(s', r) <- decap crc mgr s buf; Ret (s', handed r ++ owned)
  | COProvNew b =>
      let '(s', r) := dec_provision s b in
      Ret (s', match r with Some (MOverflow b') | Some (MTooSmall b') => b' :: owned | _ => owned end)
  | COProvBack k =>
      match nth_error owned k with
      | None => Ret (s, owned)
      | Some b =>
        let '(s', r) := dec_provision s b in
        Ret (s', match r with Some (MOverflow b') | Some (MTooSmall b') => b' :: remove_nth k owned | _ => remove_nth k owned end)
      end
  | CONewPdu => let '(s', r) := dec_new_pdu s in Ret (s', match r with inl b => b :: owned | inr _ => owned end)
  | COReset => Ret (dec_reset s, owned)
  end.
Fixpoint crun crc mgr (w : dstate * list sbuf) (os : list cop) : res (dstate * list sbuf) :=
  match os with [] => Ret w | o :: t => do w' <- cstep crc mgr w o; crun crc mgr w' t end.
Fixpoint news (os : list cop) : list N :=
  match os with [] => [] | COProvNew b :: t => bid b :: news t | _ :: t => news t end.

(* at every point of every history, each buffer ever provisioned is in exactly one place: the memory (free list or
   a slot) or the caller's hands *)
Theorem c08_conservation : forall crc mgr slots maxpdu os, Forall cop_ok os ->
  exists s owned, crun crc mgr (dec_new slots maxpdu, []) os = Ret (s, owned) /\
    Permutation (mem_bids (dmem s) ++ map bid owned) (news os) /\
    (NoDup (news os) -> NoDup (mem_bids (dmem s) ++ map bid owned)).
Proof.
  intros crc mgr slots maxpdu os Hok.
  assert (G : forall os s owned, Forall cop_ok os -> dstate_wf s ->
     exists s' owned', crun crc mgr (s, owned) os = Ret (s', owned') /\
       Permutation (mem_bids (dmem s') ++ map bid owned') (news os ++ mem_bids (dmem s) ++ map bid owned)).
  { clear os Hok. induction os as [|o t IH]; intros s owned Hok Hwf; cbn [crun news].
    - exists s, owned. split; reflexivity.
    - inversion Hok; subst.
      assert (ST : exists s1 owned1, cstep crc mgr (s, owned) o = Ret (s1, owned1) /\ dstate_wf s1 /\
                Permutation (mem_bids (dmem s1) ++ map bid owned1)
                            (match o with COProvNew b => [bid b] | _ => [] end ++ mem_bids (dmem s) ++ map bid owned)).
      { destruct o as [buf|b|k| |]; cbn [cstep cop_ok] in *.
        - destruct (c05_like crc mgr s buf Hwf H1) as (s1 & r & E & W). rewrite E. cbn [bind].
          exists s1, (handed r ++ owned). split; [reflexivity|]. split; [exact W|].
          pose proof (c08_decap_conserves crc mgr s buf s1 r Hwf H1 E) as P. cbn [app].
          rewrite map_app, app_assoc. apply Permutation_app_tail.
          replace (map bid (handed r)) with (res_bids r); [exact P|].
          destruct r as [[[b md| |] n]|[[| | | | |[b|  | |b| ]| | | | | |] n]]; reflexivity.
        - unfold dec_provision. destruct (provision (dmem s) b) as [m r] eqn:E.
          pose proof (provision_conserves _ _ _ _ E) as P.
          eexists _, _. split; [reflexivity|]. split; [apply dstate_wf_mem; cbn [dmem set_dmem]; eapply mem_ok_provision; eauto|].
          cbn [dmem set_dmem app].
          match goal with |- Permutation (_ ++ map bid ?o1) _ =>
            assert (EO : map bid o1 = match r with Some e => merr_bids e | None => [] end ++ map bid owned)
              by (destruct r as [[b'| | |b'| ]|]; reflexivity) end.
          rewrite EO, app_assoc. apply (Permutation_app_tail (map bid owned)) in P. exact P.
        - destruct (nth_error owned k) as [b|] eqn:En.
          2:{ exists s, owned. split; [reflexivity|]. split; [exact Hwf|reflexivity]. }
          unfold dec_provision. destruct (provision (dmem s) b) as [m r] eqn:E.
          pose proof (provision_conserves _ _ _ _ E) as P.
          assert (PO : Permutation (map bid owned) (bid b :: map bid (remove_nth k owned))).
          { clear -En. revert owned En. induction k as [|k IHk]; intros [|x t] En; try discriminate; cbn in *.
            - now injection En as ->.
            - rewrite (IHk _ En). apply perm_swap. }
          eexists _, _. split; [reflexivity|]. split; [apply dstate_wf_mem; cbn [dmem set_dmem]; eapply mem_ok_provision; eauto|].
          cbn [dmem set_dmem app].
          match goal with |- Permutation (_ ++ map bid ?o1) _ =>
            assert (EO : map bid o1 = match r with Some e => merr_bids e | None => [] end ++ map bid (remove_nth k owned))
              by (destruct r as [[b'| | |b'| ]|]; reflexivity) end.
          rewrite EO, app_assoc. apply (Permutation_app_tail (map bid (remove_nth k owned))) in P. rewrite P.
          cbn [app]. rewrite Permutation_middle. apply Permutation_app_head. symmetry. exact PO.
        - unfold dec_new_pdu, new_pdu. destruct (storages (dmem s)) as [|b t0] eqn:E.
          + exists s, owned. split; [now destruct s|]. split; [exact Hwf|reflexivity].
          + eexists _, _. split; [reflexivity|]. split.
            * apply dstate_wf_mem; cbn [dmem set_dmem]. destruct Hwf as ((Hf & Hc) & Hb & Hsl).
              rewrite E in Hb, Hc. inversion Hb; subst. rewrite lenN_cons in Hc.
              apply mem_ok_set_storages; [split; [split|split]; try assumption; rewrite E; [rewrite lenN_cons; lia|constructor; assumption]|lia|assumption].
            * cbn [dmem set_dmem app map]. unfold mem_bids. cbn [storages frags set_storages]. rewrite E. cbn [map].
              rewrite <- !app_assoc. cbn [app]. rewrite <- Permutation_middle. rewrite <- Permutation_middle. reflexivity.
        - exists (dec_reset s), owned. split; [reflexivity|]. split; [exact Hwf|reflexivity]. }
      destruct ST as (s1 & owned1 & -> & W1 & P1). cbn [bind].
      destruct (IH s1 owned1 ltac:(assumption) W1) as (s' & owned' & E & P). exists s', owned'. split; [exact E|].
      rewrite P, P1. destruct o; cbn [app]; try reflexivity.
      rewrite <- Permutation_middle. reflexivity. }
  destruct (G os (dec_new slots maxpdu) [] Hok ltac:(apply dstate_wf_mem, mem_ok_new)) as (s & owned & E & P).
  exists s, owned. split; [exact E|].
  assert (P' : Permutation (mem_bids (dmem s) ++ map bid owned) (news os)).
  { rewrite P. unfold mem_bids, dec_new, mem_new; cbn [dmem storages frags map app].
    rewrite app_nil_r. clear. induction slots as [|n IH] using N.peano_ind.
    - unfold noneN. rewrite N.recursion_0. now rewrite app_nil_r.
    - unfold noneN in *. rewrite N.recursion_succ by (try reflexivity; intros ? ? -> ? ? ->; reflexivity). exact IH. }
  split; [exact P'|]. intro ND. eapply Permutation_NoDup; [symmetry; exact P'|exact ND].
Qed.

Print Assumptions c08_decap_conserves.
Print Assumptions c08_conservation.
