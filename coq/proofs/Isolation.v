(* C07: a packet only ever touches the slot of its own fragment id; reassemblies in other slots (and, for
   intermediate/end packets of another id, in the same slot) are left exactly as they were. No model code. *)
Require Import GSE.gen.Consts GSE.model.Base GSE.model.Types GSE.model.Header GSE.model.Ext GSE.model.Encap
  GSE.model.Memory GSE.model.Decap
  GSE.proofs.Tactics GSE.proofs.BaseLemmas GSE.proofs.HeaderLemmas GSE.proofs.EncapSpec GSE.proofs.EncapProps
  GSE.proofs.FragRun GSE.proofs.MemoryLemmas GSE.proofs.DecapBase GSE.proofs.DecapSpec GSE.proofs.DecapProps
  GSE.proofs.Conserve GSE.proofs.RoundTrip GSE.proofs.FragTrip.
Open Scope N_scope.

(* ---------- memory operations and the slot map ---------- *)
Lemma slot_of_provision m b m' r f : provision m b = (m', r) -> slot_of m' f = slot_of m f.
Proof. unfold provision. destruct (cap m =? lenN (storages m)); [now intros [= <- <-]|].
  destruct (lenN (bdata b) <? max_pdu_size m); now intros [= <- <-]. Qed.

Lemma slot_of_new_frag m c m' r f : mem_ok m -> new_frag_fn m c = (m', r) ->
  f mod max_frag_id m <> c_fid c mod max_frag_id m -> slot_of m' f = slot_of m f.
Proof.
  intros Hok. unfold new_frag_fn. destruct (N.eqb_spec (max_frag_id m) 0); [now intros [= <- <-]|].
  destruct (slot_of m (c_fid c)) as [[c0 b0]|].
  - intros [= <- <-] Hne. destruct Hok as (Hw & _). rewrite slot_of_set_slot by (auto; apply N.mod_lt; assumption).
    destruct (N.eqb_spec (f mod max_frag_id m) (c_fid c mod max_frag_id m)); [contradiction|reflexivity].
  - destruct (storages m); now intros [= <- <-].
Qed.
Lemma slot_of_take_frag m g m' r f : mem_ok m -> take_frag_fn m g = (m', r) ->
  (f mod max_frag_id m <> g mod max_frag_id m \/ forall c b, slot_of m f = Some (c, b) -> c_fid c <> g) ->
  slot_of m' f = slot_of m f.
Proof.
  intros Hok. unfold take_frag_fn. destruct (N.eqb_spec (max_frag_id m) 0); [now intros [= <- <-]|].
  destruct (slot_of m g) as [[c b]|] eqn:Es; [|now intros [= <- <-]].
  destruct (N.eqb_spec (c_fid c) g) as [He|He]; [|now intros [= <- <-]].
  intros [= <- <-] Hd. destruct Hok as (Hw & _). rewrite slot_of_set_slot by (auto; apply N.mod_lt; assumption).
  destruct (N.eqb_spec (f mod max_frag_id m) (g mod max_frag_id m)) as [Heq|Hne]; [|reflexivity].
  destruct Hd as [Hd|Hd]; [contradiction|]. exfalso.
  assert (Hsame : slot_of m f = slot_of m g) by (unfold slot_of; now rewrite Heq).
  rewrite Es in Hsame. exact (Hd _ _ Hsame He).
Qed.
Lemma slot_of_save_frag m cb m' r f : mem_ok m -> save_frag_fn m cb = (m', r) ->
  f mod max_frag_id m <> c_fid (fst cb) mod max_frag_id m -> slot_of m' f = slot_of m f.
Proof.
  intros Hok. unfold save_frag_fn. destruct (N.eqb_spec (max_frag_id m) 0); [now intros [= <- <-]|].
  destruct (slot_of m (c_fid (fst cb))); [now intros [= <- <-]|].
  intros [= <- <-] Hne. destruct Hok as (Hw & _). rewrite slot_of_set_slot by (auto; apply N.mod_lt; assumption).
  destruct (N.eqb_spec (f mod max_frag_id m) (c_fid (fst cb) mod max_frag_id m)); [contradiction|reflexivity].
Qed.
Lemma slot_of_give_back s pb e n s' r f : give_back_hl s pb e n = (s', r) -> slot_of (dmem s') f = slot_of (dmem s) f.
Proof. unfold give_back_hl. destruct (provision (dmem s) pb) as [m [me|]] eqn:E; intros [= <- <-]; cbn [dmem set_dmem];
  eapply slot_of_provision; eauto. Qed.

Section Iso.
Variable crc : list byte -> N -> N -> list byte -> N.
Variable mgr : N -> mand.

(* which slot a buffer can touch: the frag id it carries, when it is a fragment packet long enough to be dispatched *)
Definition frag_of (buf : list byte) : option (kind * N) :=
  if lenN buf <? 2 then None else
  match hdr_view (rd16 (takeN 2 buf)) with
  | Some (gl, k, _) => if lenN buf <? gl + 2 then None
                       else match k with KComplete => None | _ => Some (k, hd0 (dropN 2 (takeN (gl + 2) buf))) end
  | None => None
  end.

(* a buffer is foreign to the reassembly of frag id `fid` when it is not an intermediate/end packet of that id and
   not a first fragment whose id maps to the same slot *)
Definition foreign (slots fid : N) (buf : list byte) : Prop :=
  match frag_of buf with
  | None => True
  | Some (KFirst, g) => g mod slots <> fid mod slots
  | Some (_, g) => g <> fid
  end.

Lemma complete_hl_slots s pkt t blen f : dstate_wf s ->
  slot_of (dmem (fst (complete_hl mgr s pkt t blen))) f = slot_of (dmem s) f.
Proof.
  intros Hwf. unfold complete_hl, err_last. destruct (_ <? _); [reflexivity|]. cbv zeta.
  destruct (is_zero6 _); [reflexivity|]. destruct (walk_fn mgr _ _) as [w|[|]]; try reflexivity.
  destruct (resolve_hl s t _) as [[s1 cur]|e] eqn:Er; [|reflexivity]. rewrite <- (resolve_hl_mem _ _ _ _ _ Er).
  destruct (storages (dmem s1)); [reflexivity|]. destruct (_ <? _); reflexivity.
Qed.

Lemma first_hl_slots s pkt t blen f : dstate_wf s ->
  f mod max_frag_id (dmem s) <> hd0 (dropN 2 pkt) mod max_frag_id (dmem s) ->
  slot_of (dmem (fst (first_hl mgr s pkt t blen))) f = slot_of (dmem s) f.
Proof.
  intros Hwf Hne. unfold first_hl, err_last. destruct (_ <? _); [reflexivity|]. cbv zeta.
  destruct (is_zero6 _); [reflexivity|].
  destruct (resolve_hl s t _) as [[s1 cur]|e] eqn:Er; [|reflexivity].
  pose proof (resolve_hl_wf _ _ _ _ _ Hwf Er) as Hwf1. rewrite <- (resolve_hl_mem _ _ _ _ _ Er) in *.
  destruct (walk_fn mgr _ _) as [w|[|]]; try reflexivity.
  destruct (_ <=? _); [reflexivity|].
  match goal with |- context [new_frag_fn (dmem s1) ?c] => destruct (new_frag_fn (dmem s1) c) as [m [[c' pb]|e]] eqn:En end.
  2:{ cbn [fst dmem set_dmem set_dlast]. eapply slot_of_new_frag; eauto. }
  destruct (mem_ok_new_frag _ _ _ _ Hwf1 En) as (Hok & Hmf & Hmp & -> & Hbo & Hsl & Hz).
  pose proof (slot_of_new_frag _ _ _ _ f Hwf1 En Hne) as S1.
  destruct (_ <? _).
  - match goal with |- context [give_back_hl ?a ?b ?c ?d] => destruct (give_back_hl a b c d) as [s' r] eqn:Eg end.
    cbn [fst]. rewrite (slot_of_give_back _ _ _ _ _ _ f Eg). exact S1.
  - match goal with |- context [save_frag_fn m ?x] => destruct (save_frag_fn m x) as [m' r] eqn:Esv end.
    assert (S2 : slot_of m' f = slot_of m f).
    { eapply slot_of_save_frag; [exact Hok|exact Esv|]. cbn [fst c_fid]. now rewrite Hmf. }
    destruct r; cbn [fst dmem set_dmem]; rewrite S2; exact S1.
Qed.

Lemma inter_hl_slots s pkt blen f : dstate_wf s ->
  (f mod max_frag_id (dmem s) <> hd0 (dropN 2 pkt) mod max_frag_id (dmem s) \/
   forall c b, slot_of (dmem s) f = Some (c, b) -> c_fid c <> hd0 (dropN 2 pkt)) ->
  slot_of (dmem (fst (inter_hl s pkt blen))) f = slot_of (dmem s) f.
Proof.
  intros Hwf Hd. unfold inter_hl, err_last. destruct (_ <=? _); [reflexivity|]. cbv zeta.
  destruct (take_frag_fn (dmem s) (hd0 (dropN 2 pkt))) as [m [[c pb]|e]] eqn:Et.
  2:{ cbn [fst dmem set_dmem]. eapply slot_of_take_frag; eauto. }
  pose proof (slot_of_take_frag _ _ _ _ f Hwf Et Hd) as S1.
  destruct (mem_ok_take_frag _ _ _ _ Hwf Et) as (Hok & Hmf & Hmp & Hst & Hso & Hctx & Hbo & Hfid & Hnone & Hz & _).
  (* the packet's own slot held (c, pb): f is then another slot *)
  assert (Hne : f mod max_frag_id (dmem s) <> hd0 (dropN 2 pkt) mod max_frag_id (dmem s)).
  { destruct Hd as [Hd|Hd]; [exact Hd|]. intro Heq.
    assert (Hsame : slot_of (dmem s) f = slot_of (dmem s) (hd0 (dropN 2 pkt))) by (unfold slot_of; now rewrite Heq).
    rewrite Hso in Hsame. exact (Hd _ _ Hsame Hfid). }
  destruct (_ || _).
  - match goal with |- context [give_back_hl ?a ?b ?c ?d] => destruct (give_back_hl a b c d) as [s' r] eqn:Eg end.
    cbn [fst]. rewrite (slot_of_give_back _ _ _ _ _ _ f Eg). exact S1.
  - match goal with |- context [save_frag_fn m ?x] => destruct (save_frag_fn m x) as [m' r] eqn:Esv end.
    assert (S2 : slot_of m' f = slot_of m f).
    { eapply slot_of_save_frag; [exact Hok|exact Esv|]. cbn [fst c_fid]. rewrite Hmf, Hfid. exact Hne. }
    destruct r; cbn [fst dmem set_dmem]; rewrite S2; exact S1.
Qed.

Lemma end_hl_slots s pkt blen f : dstate_wf s ->
  (f mod max_frag_id (dmem s) <> hd0 (dropN 2 pkt) mod max_frag_id (dmem s) \/
   forall c b, slot_of (dmem s) f = Some (c, b) -> c_fid c <> hd0 (dropN 2 pkt)) ->
  slot_of (dmem (fst (end_hl crc s pkt blen))) f = slot_of (dmem s) f.
Proof.
  intros Hwf Hd. unfold end_hl, err_last. destruct (_ <? _); [reflexivity|]. cbv zeta.
  destruct (take_frag_fn (dmem s) (hd0 (dropN 2 pkt))) as [m [[c pb]|e]] eqn:Et.
  2:{ cbn [fst dmem set_dmem]. eapply slot_of_take_frag; eauto. }
  pose proof (slot_of_take_frag _ _ _ _ f Hwf Et Hd) as S1.
  assert (GB : forall pb' e, slot_of (dmem (fst (give_back_hl (set_dmem s m) pb' e (lenN pkt)))) f = slot_of (dmem s) f).
  { intros pb' e. destruct (give_back_hl (set_dmem s m) pb' e (lenN pkt)) as [s' r] eqn:Eg. cbn [fst].
    rewrite (slot_of_give_back _ _ _ _ _ _ f Eg). exact S1. }
  destruct (_ <? _); [apply GB|]. destruct (negb (c_total c =? _)); [apply GB|]. destruct (negb (_ =? _)); [apply GB|].
  exact S1.
Qed.

(* C07 frame property: a buffer foreign to frag id `fid` leaves the slot of `fid` exactly as it was *)
Theorem decap_hl_frame s buf fid c b : dstate_wf s -> slot_of (dmem s) fid = Some (c, b) -> c_fid c = fid ->
  foreign (max_frag_id (dmem s)) fid buf ->
  slot_of (dmem (fst (decap_hl crc mgr s buf))) fid = Some (c, b).
Proof.
  intros Hwf Hs Hfid Hf. rewrite <- Hs. unfold foreign, frag_of in Hf. unfold decap_hl, err_last.
  destruct (lenN buf <? 2); [reflexivity|].
  destruct (hdr_view (rd16 (takeN 2 buf))) as [[[gl k] t]|]; [|reflexivity].
  destruct (lenN buf <? gl + 2); [reflexivity|].
  destruct k.
  - now apply complete_hl_slots.
  - apply first_hl_slots; [assumption|]. intro E. apply Hf. symmetry. exact E.
  - apply inter_hl_slots; [assumption|]. right. intros c' b' Hs'. rewrite Hs in Hs'. injection Hs' as <- <-. rewrite Hfid. congruence.
  - apply end_hl_slots; [assumption|]. right. intros c' b' Hs'. rewrite Hs in Hs'. injection Hs' as <- <-. rewrite Hfid. congruence.
Qed.

Lemma provision_cfg m b m' r : provision m b = (m', r) -> max_frag_id m' = max_frag_id m.
Proof. unfold provision. destruct (cap m =? lenN (storages m)); [now intros [= <- <-]|].
  destruct (lenN (bdata b) <? max_pdu_size m); now intros [= <- <-]. Qed.
Lemma give_back_cfg s pb e n s' r : give_back_hl s pb e n = (s', r) -> max_frag_id (dmem s') = max_frag_id (dmem s).
Proof. unfold give_back_hl. destruct (provision (dmem s) pb) as [m [me|]] eqn:E; intros [= <- <-]; cbn [dmem set_dmem];
  eapply provision_cfg; eauto. Qed.

Lemma decap_hl_slots_count s buf : dstate_wf s -> max_frag_id (dmem (fst (decap_hl crc mgr s buf))) = max_frag_id (dmem s).
Proof.
  intro Hwf. unfold decap_hl, err_last. destruct (lenN buf <? 2); [reflexivity|].
  destruct (hdr_view (rd16 (takeN 2 buf))) as [[[gl k] t]|]; [|reflexivity].
  destruct (lenN buf <? gl + 2); [reflexivity|].
  set (pkt := takeN (gl + 2) buf).
  destruct k.
  - unfold complete_hl, err_last. destruct (_ <? _); [reflexivity|]. cbv zeta.
    destruct (is_zero6 _); [reflexivity|]. destruct (walk_fn mgr _ _) as [w|[|]]; try reflexivity.
    destruct (resolve_hl s t _) as [[s1 cur]|e] eqn:Er; [|reflexivity]. rewrite <- (resolve_hl_mem _ _ _ _ _ Er).
    destruct (storages (dmem s1)); [reflexivity|]. destruct (_ <? _); reflexivity.
  - unfold first_hl, err_last. destruct (_ <? _); [reflexivity|]. cbv zeta.
    destruct (is_zero6 _); [reflexivity|].
    destruct (resolve_hl s t _) as [[s1 cur]|e] eqn:Er; [|reflexivity].
    pose proof (resolve_hl_wf _ _ _ _ _ Hwf Er) as Hwf1. rewrite <- (resolve_hl_mem _ _ _ _ _ Er) in *.
    destruct (walk_fn mgr _ _) as [w|[|]]; try reflexivity.
    destruct (_ <=? _); [reflexivity|].
    match goal with |- context [new_frag_fn (dmem s1) ?c] => destruct (new_frag_fn (dmem s1) c) as [m [[c' pb]|e]] eqn:En end;
      destruct (mem_ok_new_frag _ _ _ _ Hwf1 En) as (Hok & Hmf & _); [|exact Hmf].
    destruct (_ <? _).
    + match goal with |- context [give_back_hl ?a ?b ?c ?d] => destruct (give_back_hl a b c d) as [s' r] eqn:Eg end.
      cbn [fst]. rewrite (give_back_cfg _ _ _ _ _ _ Eg). exact Hmf.
    + match goal with |- context [save_frag_fn m ?x] => destruct (save_frag_fn m x) as [m' r] eqn:Esv end.
      assert (Hm' : max_frag_id m' = max_frag_id m).
      { unfold save_frag_fn in Esv. destruct (max_frag_id m =? 0); [now injection Esv as <- _|].
        destruct (slot_of m _); now injection Esv as <- _. }
      destruct r; cbn [fst dmem set_dmem]; congruence.
  - unfold inter_hl, err_last. destruct (_ <=? _); [reflexivity|]. cbv zeta.
    destruct (take_frag_fn (dmem s) (hd0 (dropN 2 pkt))) as [m [[c pb]|e]] eqn:Et;
      destruct (mem_ok_take_frag _ _ _ _ Hwf Et) as (Hok & Hmf & _); [|exact Hmf].
    destruct (_ || _).
    + match goal with |- context [give_back_hl ?a ?b ?c ?d] => destruct (give_back_hl a b c d) as [s' r] eqn:Eg end.
      cbn [fst]. rewrite (give_back_cfg _ _ _ _ _ _ Eg). exact Hmf.
    + match goal with |- context [save_frag_fn m ?x] => destruct (save_frag_fn m x) as [m' r] eqn:Esv end.
      assert (Hm' : max_frag_id m' = max_frag_id m).
      { unfold save_frag_fn in Esv. destruct (max_frag_id m =? 0); [now injection Esv as <- _|].
        destruct (slot_of m _); now injection Esv as <- _. }
      destruct r; cbn [fst dmem set_dmem]; congruence.
  - unfold end_hl, err_last. destruct (_ <? _); [reflexivity|]. cbv zeta.
    destruct (take_frag_fn (dmem s) (hd0 (dropN 2 pkt))) as [m [[c pb]|e]] eqn:Et;
      destruct (mem_ok_take_frag _ _ _ _ Hwf Et) as (Hok & Hmf & _); [|exact Hmf].
    assert (GB : forall pb' e, max_frag_id (dmem (fst (give_back_hl (set_dmem s m) pb' e (lenN pkt)))) = max_frag_id (dmem s)).
    { intros pb' e. destruct (give_back_hl (set_dmem s m) pb' e (lenN pkt)) as [s' r] eqn:Eg. cbn [fst].
      rewrite (give_back_cfg _ _ _ _ _ _ Eg). exact Hmf. }
    destruct (_ <? _); [apply GB|]. destruct (negb (c_total c =? _)); [apply GB|]. destruct (negb (_ =? _)); [apply GB|].
    exact Hmf.
Qed.

(* a step by a foreign buffer preserves the reassembly invariant of FragTrip (C07: isolation) *)
Lemma foreign_preserves R c0 pdu off buf : slot_inv R c0 pdu off -> bytes_ok buf ->
  foreign (max_frag_id (dmem R)) (c_fid c0) buf ->
  slot_inv (fst (decap_hl crc mgr R buf)) c0 pdu off.
Proof.
  intros (b & Hwf & Hs & Hpre & Hlen) Hb Hf. exists b. split; [now apply decap_hl_wf|]. split; [|auto].
  apply decap_hl_frame; auto.
Qed.


(* ---------- a train interleaved with foreign traffic ---------- *)
Inductive item := Own (p : list byte) | Other (buf : list byte).
Fixpoint owns (seq : list item) : list (list byte) :=
  match seq with [] => [] | Own p :: t => p :: owns t | Other _ :: t => owns t end.
Definition others_ok (slots fid : N) (seq : list item) : Prop :=
  Forall (fun it => match it with Other buf => bytes_ok buf /\ foreign slots fid buf | Own _ => True end) seq.
(* run the whole sequence; collect the results of the own packets only *)
Fixpoint mixed_run (R : dstate) (seq : list item) : res (dstate * list dec_result) :=
  match seq with
  | [] => Ret (R, [])
  | Own p :: t => do '(R', r) <- decap crc mgr R p; do '(R'', rs) <- mixed_run R' t; Ret (R'', r :: rs)
  | Other buf :: t => do '(R', _) <- decap crc mgr R buf; mixed_run R' t
  end.

Hypothesis crc_bound : forall a b c d, crc a b c d < 4294967296.

Lemma decap_fst R buf R' r : dstate_wf R -> bytes_ok buf -> decap crc mgr R buf = Ret (R', r) ->
  R' = fst (decap_hl crc mgr R buf).
Proof. intros Hwf Hb H. rewrite decap_spec in H by assumption. injection H as H. now rewrite H. Qed.

Lemma others_run : forall sq R2 slots fid, owns sq = [] -> dstate_wf R2 -> others_ok slots fid sq ->
  exists R3, mixed_run R2 sq = Ret (R3, []) /\ dstate_wf R3.
Proof.
  induction sq as [|[q|bf] sq IHs]; intros R2 slots fid Ho Hw2 Hot; cbn [owns] in Ho; try discriminate.
  - exists R2. split; [reflexivity|exact Hw2].
  - inversion Hot as [|? ? Hh Hrr]; subst. cbn beta iota in Hh. destruct Hh as [Hbb Hff].
    cbn [mixed_run]. rewrite decap_spec by assumption.
    pose proof (decap_hl_wf crc mgr R2 bf Hw2 Hbb) as W.
    destruct (decap_hl crc mgr R2 bf) as [R2' r2]. cbn [bind fst] in *.
    destruct (IHs R2' slots fid Ho W Hrr) as (R3 & E3 & W3). eauto.
Qed.

Theorem train_interleaved pdu c0 : bytes_ok pdu -> c_fid c0 < 256 -> lenN pdu <= 65535 ->
  c_total c0 = lenN pdu + 2 + (if c_reuse c0 then 0 else lt_len (label_type (c_label c0))) ->
  let crcv := crc pdu (c_ptype c0) (c_total c0) (if c_reuse c0 then [] else label_bytes (c_label c0)) in
  let mdf := {| md_pdu_len := 0; md_ptype := c_ptype c0; md_label := c_label c0; md_exts := c_exts c0 |} in
  forall seq off ps pls, train_from pdu (c_fid c0) crcv off ps pls None -> owns seq = ps ->
  forall R, slot_inv R c0 pdu off -> others_ok (max_frag_id (dmem R)) (c_fid c0) seq ->
  exists R' b rs lastp, mixed_run R seq = Ret (R', rs) /\
    ps = removelast ps ++ [lastp] /\
    rs = map (fun p => inl (DFragmented mdf, lenN p)) (removelast ps)
         ++ [inl (DCompleted b {| md_pdu_len := lenN pdu; md_ptype := c_ptype c0; md_label := c_label c0; md_exts := c_exts c0 |},
                  lenN lastp)] /\
    takeN (lenN pdu) (bdata b) = pdu /\ dstate_wf R'.
Proof.
  intros Hpdu Hfid H16 Htot crcv mdf.
  induction seq as [|it seq IH]; intros off ps pls Tr Hown R Hinv Hoth.
  - cbn [owns] in Hown. subst ps. inversion Tr.
  - subst ps. inversion Hoth as [|? ? Hit Hrest]; subst.
    assert (Hwf0 : dstate_wf R) by (destruct Hinv as (b0 & H & _); exact H).
    destruct it as [p|buf].
    + (* the train's own next packet *)
      cbn [owns] in Tr |- *. remember (owns seq) as rest eqn:Erest.
      inversion Tr as [|off' k ps'' pls' r Hk Hle Hk2 Ht|off' Ho Hr]; subst.
      * destruct (decap_inter_step crc mgr crc_bound R c0 pdu off k Hpdu Hfid H16 Hinv Hk Hle Hk2) as (R1 & E1 & Hinv1 & _).
        assert (Hb1 : bytes_ok (pkt_inter (c_fid c0) (takeN k (dropN off pdu)))) by (apply pkt_inter_ok; [assumption|apply bytes_ok_takeN, bytes_ok_dropN, Hpdu]).
        pose proof (decap_fst _ _ _ _ Hwf0 Hb1 E1) as ER1.
        assert (Hs1 : max_frag_id (dmem R1) = max_frag_id (dmem R)) by (rewrite ER1; now apply decap_hl_slots_count).
        destruct (IH (off + k) (owns seq) pls' Ht eq_refl R1 Hinv1 ltac:(now rewrite Hs1)) as (R' & b & rs & lastp & Er & Eps & Ers & Hd & Hw).
        exists R', b, (inl (DFragmented mdf, 3 + k) :: rs), lastp.
        cbn [mixed_run]. rewrite E1. cbn [bind]. rewrite Er. cbn [bind]. split; [reflexivity|].
        assert (Hne : owns seq <> []) by (rewrite Eps; destruct (removelast (owns seq)); discriminate).
        split; [|split; [|auto]].
        -- destruct (owns seq) as [|q t]; [contradiction|]. cbn [removelast app]. f_equal. exact Eps.
        -- destruct (owns seq) as [|q t]; [contradiction|]. cbn [removelast map app]. rewrite Ers. f_equal. f_equal. f_equal.
           rewrite lenN_pkt_inter, lenN_takeN, lenN_dropN. lia.
      * destruct (decap_end_step crc mgr crc_bound R c0 pdu off Hpdu Hfid H16 Hinv Ho Hr Htot) as (R1 & b & E & Hd & Hw & _).
        fold crcv in E.
        assert (Hrest0 : owns seq = []) by (symmetry; assumption).
        destruct (others_run seq R1 _ _ Hrest0 Hw Hrest) as (R3 & E3 & W3).
        exists R3, b, [inl (DCompleted b {| md_pdu_len := lenN pdu; md_ptype := c_ptype c0; md_label := c_label c0; md_exts := c_exts c0 |},
                            7 + (lenN pdu - off))], (pkt_end (c_fid c0) (dropN off pdu) crcv).
        cbn [mixed_run]. rewrite E. cbn [bind]. rewrite E3. cbn [bind]. split; [reflexivity|]. split; [reflexivity|].
        cbn [removelast map app]. rewrite lenN_pkt_end, lenN_dropN. auto.
    + (* foreign traffic: the reassembly is untouched *)
      cbn beta iota in Hit. destruct Hit as [Hbb Hff]. cbn [owns] in Tr |- *. cbn [mixed_run]. rewrite decap_spec by assumption.
      pose proof (foreign_preserves R c0 pdu off buf Hinv Hbb Hff) as Hinv1.
      pose proof (decap_hl_slots_count R buf Hwf0) as Cn.
      destruct (decap_hl crc mgr R buf) as [R1 r1]. cbn [bind fst] in *.
      destruct (IH off (owns seq) pls Tr eq_refl R1 Hinv1 ltac:(now rewrite Cn)) as (R' & b & rs & lastp & Er & Rest).
      exists R', b, rs, lastp. split; [exact Er|exact Rest].
Qed.

End Iso.
