(* C17 -- the bundled fragment memory honours the memory-trait contract. Pinned statements only.
   The memory is described by its free list `storages` (a bag: only membership matters to callers) and the
   slot map `slot_of m fid` (the saved context of the slot a frag id maps to). A buffer is a value
   {bid; bdata} moved as a whole: an operation can only hand back buffers it was given or holds, unchanged. *)
Require Import GSE.model.Base GSE.model.Types GSE.model.Ext GSE.model.Memory
  GSE.proofs.Tactics GSE.proofs.BaseLemmas GSE.proofs.MemoryLemmas.
Open Scope N_scope.

Inductive mop := MProv (b : sbuf) | MNewPdu | MNewFrag (c : dctx) | MTake (fid : N) | MSave (cb : mctx).
Definition mstep (m : mem) (o : mop) : res mem :=
  match o with
  | MProv b => Ret (fst (provision m b))
  | MNewPdu => Ret (fst (new_pdu m))
  | MNewFrag c => do r <- new_frag m c; Ret (fst r)
  | MTake f => do r <- take_frag m f; Ret (fst r)
  | MSave cb => do r <- save_frag m cb; Ret (fst r)
  end.
Fixpoint mrun (m : mem) (ops : list mop) : res mem :=
  match ops with [] => Ret m | o :: t => do m' <- mstep m o; mrun m' t end.

(* every sequence of operations on a new memory (any number of slots, including zero) runs without panic and
   keeps the memory well formed *)
Theorem c17_total_wf : forall slots maxpdu ops, exists m, mrun (mem_new slots maxpdu) ops = Ret m /\ mem_wf m.
Proof.
  intros slots maxpdu ops. generalize (mem_new_wf slots maxpdu). generalize (mem_new slots maxpdu).
  induction ops as [|o t IH]; intros m Hwf; cbn [mrun]; [eauto|].
  assert (exists m', mstep m o = Ret m' /\ mem_wf m') as (m' & -> & Hwf').
  { destruct o as [b| |c|f|cb]; cbn [mstep].
    - eexists; split; [reflexivity|]. destruct (provision m b) eqn:E. eapply provision_wf; eauto.
    - eexists; split; [reflexivity|]. destruct (new_pdu m) eqn:E. eapply new_pdu_wf; eauto.
    - destruct (new_frag_spec m c Hwf) as (r & -> & R). cbn [bind]. eexists; split; [reflexivity|].
      destruct R; cbn [fst]; auto.
      + eapply with_slot_wf; eauto.
      + destruct Hwf as [Hf Hc]. unfold mem_wf.
        match goal with E1 : storages m = _, E2 : storages _ = _, E3 : frags _ = frags m,
                        E4 : max_frag_id _ = max_frag_id m, E5 : cap _ = cap m |- _ =>
          rewrite E2, E3, E4, E5; rewrite E1, lenN_cons in Hc end.
        split; [assumption|lia].
    - destruct (take_frag_spec m f Hwf) as (r & -> & R). cbn [bind]. eexists; split; [reflexivity|].
      destruct R; cbn [fst]; auto. eapply with_slot_wf; eauto.
    - destruct (save_frag_spec m cb Hwf) as (r & -> & R). cbn [bind]. eexists; split; [reflexivity|].
      destruct R; cbn [fst]; auto. eapply with_slot_wf; eauto. }
  cbn [bind]. now apply IH.
Qed.

(* provisioning fails with the same buffer handed back when the free list is full or the buffer is smaller than
   the configured PDU size; otherwise the buffer joins the free list and nothing else changes *)
Theorem c17_provision : forall m b,
  provision m b =
    if cap m =? lenN (storages m) then (m, Some (MOverflow b))
    else if lenN (bdata b) <? max_pdu_size m then (m, Some (MTooSmall b))
    else (set_storages m (b :: storages m), None).
Proof. exact provision_spec. Qed.

(* taking a PDU buffer fails only when no buffer is free *)
Theorem c17_new_pdu : forall m,
  new_pdu m = match storages m with [] => (m, inr MUnderflow) | b :: t => (set_storages m t, inl b) end.
Proof. exact new_pdu_spec. Qed.

(* starting a fragment replaces the slot's previous context and reuses its buffer, otherwise takes a free buffer *)
Theorem c17_new_frag : forall m c, mem_wf m -> exists r, new_frag m c = Ret r /\ new_frag_res m c r.
Proof. exact new_frag_spec. Qed.

(* taking a fragment returns the context and buffer saved in the slot when its frag id matches, and otherwise
   reports an undefined id leaving the memory unchanged *)
Theorem c17_take_frag : forall m fid, mem_wf m -> exists r, take_frag m fid = Ret r /\ take_frag_res m fid r.
Proof. exact take_frag_spec. Qed.

(* saving into an occupied slot is refused *)
Theorem c17_save_frag : forall m cb, mem_wf m -> exists r, save_frag m cb = Ret r /\ save_frag_res m cb r.
Proof. exact save_frag_spec. Qed.

(* taking a fragment returns exactly the context and buffer last saved under that fragment id *)
Theorem c17_take_after_save : forall m cb m', mem_wf m -> save_frag m cb = Ret (m', None) ->
  exists m'', take_frag m' (c_fid (fst cb)) = Ret (m'', inl cb) /\ slot_of m'' (c_fid (fst cb)) = None.
Proof.
  intros m cb m' Hwf Hs. destruct (save_frag_spec m cb Hwf) as (r & E & R). rewrite Hs in E. injection E as <-.
  remember (m', @None mem_error) as rr eqn:Er. destruct R as [m1 Hz Hn Hw|]; [|discriminate]. injection Er as ->.
  pose proof (with_slot_wf _ _ _ _ Hwf Hw) as Hwf'.
  destruct (take_frag_spec m' (c_fid (fst cb)) Hwf') as (r & E & R). rewrite E.
  pose proof (with_slot_slot_of _ _ _ _ (c_fid (fst cb)) Hw) as Hso. rewrite N.eqb_refl in Hso.
  assert (Hm : max_frag_id m' = max_frag_id m) by (destruct Hw as (_ & H & _); exact H).
  destruct R as [m2 c b Hz' Hslot Hfid Hw2|Hmiss].
  - rewrite Hso in Hslot. injection Hslot as Hcb. destruct cb as [c0 b0]. cbn [fst] in *. injection Hcb as <- <-.
    eexists. split; [reflexivity|]. rewrite (with_slot_slot_of _ _ _ _ (c_fid c0) Hw2), N.eqb_refl. reflexivity.
  - exfalso. destruct Hmiss as [Hz'|[Hnone|(c & b & Hsl & Hne)]].
    + congruence.
    + congruence.
    + rewrite Hso in Hsl. destruct cb as [c0 b0]. cbn [fst] in *. injection Hsl as <- <-. contradiction.
Qed.

Example c17_nonvacuous :
  let b := {| bid := 0; bdata := [9;9;9] |} in
  let c := {| c_label := LBroadcast; c_ptype := 0x0800; c_fid := 5; c_total := 10; c_pdulen := 1; c_reuse := false; c_exts := [] |} in
  mrun (mem_new 2 2) [MProv b; MNewFrag c] = Ret (mem_new 2 2) /\
  (do r <- new_frag (fst (provision (mem_new 2 2) b)) c; Ret (snd r)) = Ret (inl (c, b)).
Proof. split; vm_compute; reflexivity. Qed.

Print Assumptions c17_total_wf.
Print Assumptions c17_provision.
Print Assumptions c17_new_pdu.
Print Assumptions c17_new_frag.
Print Assumptions c17_take_frag.
Print Assumptions c17_save_frag.
Print Assumptions c17_take_after_save.
