(* Label re-use policy of the sender (C15, sender half of C04): ghost history over unbounded
   sequences of calls. No model code. *)
Require Import GSE.gen.Consts GSE.model.Base GSE.model.Types GSE.model.Header GSE.model.Ext GSE.model.Encap
  GSE.proofs.Tactics GSE.proofs.BaseLemmas GSE.proofs.HeaderLemmas GSE.proofs.EncapSpec GSE.proofs.EncapProps.
Open Scope N_scope.
Set Default Proof Using "Type".

(* what one emitted start/complete packet carries, relative to the label the caller passed *)
Inductive emitted :=
  | EFull (l : label)      (* the 3- or 6-byte label, written in full *)
  | ESub (l : label)       (* the re-use marker, substituted by the encapsulator for l *)
  | EExplicit              (* the re-use marker, because the caller passed Label::ReUse *)
  | EBcast.                (* broadcast *)

Definition classify (passed written : label) : emitted :=
  match passed with
  | LBroadcast => EBcast
  | LReUse => EExplicit
  | _ => if label_eqb written LReUse then ESub passed else EFull passed
  end.

(* the calls that can touch the policy state; `ok` = the call returned Ok (a packet was emitted) *)
Inductive pop :=
  | PEncap (lab : label) (ok : bool) | PReset | PDisable | PEnable | PEnableMax (m : N).

Definition pstep (s : enc_state) (o : pop) : enc_state * option emitted :=
  match o with
  | PEncap lab true => let '(s1, l) := check_reuse_hl s lab in (s1, Some (classify lab l))
  | PEncap lab false => (s, None)
  | PReset => (enc_reset s, None)
  | PDisable => (enc_disable s, None)
  | PEnable => (enc_enable s, None)
  | PEnableMax m => (enc_enable_max s m, None)
  end.

(* ghost history: prev = label that the immediately preceding emitted start/complete packet carried or stood for
   (None at the start, after a reset, after a broadcast); run = substitutions since the last full/broadcast
   packet or the last configuration call *)
Record ghost := { prev : option label; run : N }.
Definition gstep (g : ghost) (o : pop) (ev : option emitted) : ghost :=
  match o, ev with
  | PEncap _ _, Some (EFull l) => {| prev := Some l; run := 0 |}
  | PEncap _ _, Some (ESub l) => {| prev := prev g; run := run g + 1 |}
  | PEncap _ _, Some EExplicit => g
  | PEncap _ _, Some EBcast => {| prev := None; run := 0 |}
  | PEncap _ _, None => g
  | PReset, _ => {| prev := None; run := run g |}
  | _, _ => {| prev := prev g; run := 0 |}
  end.

Definition op_ok (o : pop) : Prop :=
  match o with PEncap lab _ => label_wf lab | PEnableMax m => m < 256 | _ => True end.

Definition Inv (s : enc_state) (g : ghost) : Prop :=
  enc_wf s /\
  (forall l, last s = Some l -> prev g = Some l) /\
  (re_on s = false -> last s = None) /\
  (0 < re_max s -> run g <= re_cur s).

Lemma Inv_init : Inv enc_new {| prev := None; run := 0 |}.
Proof. unfold Inv. split; [apply enc_new_wf|]. cbn. repeat split; try discriminate; lia. Qed.

Lemma label_eqb_reuse l : label_eqb l LReUse = true <-> l = LReUse.
Proof. apply label_eqb_eq. Qed.

(* complete case analysis of the substitution on well-formed states *)
Lemma check_reuse_full s next s1 l : enc_wf s -> check_reuse_hl s next = (s1, l) ->
  re_on s1 = re_on s /\ re_max s1 = re_max s /\
  ( (l = LReUse /\ is36 next /\ re_on s = true /\ last s = Some next /\ last s1 = last s /\
       ((re_max s = 0 /\ re_cur s1 = re_cur s) \/ (0 < re_max s /\ re_cur s < re_max s /\ re_cur s1 = re_cur s + 1)))
  \/ (l = next /\ is36 next /\ last s1 = (if re_on s then Some next else last s) /\ (re_cur s1 = re_cur s \/ re_cur s1 = 0))
  \/ (l = next /\ next = LBroadcast /\ last s1 = (if re_on s then None else last s) /\ re_cur s1 = re_cur s)
  \/ (l = next /\ next = LReUse /\ s1 = s)).
Proof.
  intros (Hm & Hcur & Hlw). unfold check_reuse_hl.
  destruct (re_on s) eqn:Eon.
  2:{ intros [= <- <-]. rewrite Eon. repeat split; auto. destruct next; cbn; auto 10. }
  destruct (opt_label_eqb (Some next) (last s)) eqn:Eeq.
  - assert (Hl : last s = Some next).
    { destruct (last s) as [p|]; cbn in Eeq; [|discriminate]. apply label_eqb_eq in Eeq. now subst. }
    rewrite Hl in Hlw. destruct Hlw as [Hlw H36].
    destruct (N.eqb_spec (re_max s) 0) as [Hz|Hz].
    + intros [= <- <-]. repeat split; auto. left. repeat split; auto.
    + destruct (N.ltb_spec (re_cur s) (re_max s)).
      * intros [= <- <-]. cbn. repeat split; auto. left. repeat split; auto. right. repeat split; auto; lia.
      * intros [= <- <-]. unfold update_last.
        destruct next; try contradiction; cbn; repeat split; auto; right; left; repeat split; auto.
  - intros [= <- <-]. unfold update_last.
    destruct next; cbn; repeat split; auto.
    + right. left. cbn. auto.
    + right. left. cbn. auto.
    + right. right. left. auto.
    + right. right. right. auto.
Qed.

Lemma Inv_step s g o : Inv s g -> op_ok o ->
  let '(s', ev) := pstep s o in Inv s' (gstep g o ev).
Proof.
  intros (Hwf & Hprev & Hoff & Hrun) Hok. destruct o as [lab [|]| | | |m]; cbn [pstep].
  - (* emitted packet *)
    destruct (check_reuse_hl s lab) as [s1 l] eqn:Hc. cbn in Hok.
    pose proof (check_reuse_wf _ _ _ _ Hwf Hok Hc) as Hwf1.
    unfold Inv. split; [exact Hwf1|].
    destruct (check_reuse_full _ _ _ _ Hwf Hc) as (Eon & Emax & [C|[C|[C|C]]]).
    + destruct C as (-> & H36 & Hon & Hl & Hl1 & Hc1).
      assert (Ecl : classify lab LReUse = ESub lab) by (destruct lab; try contradiction; reflexivity).
      rewrite Ecl. cbn [gstep prev run]. rewrite Hl1, Eon, Emax. repeat split; auto; try congruence.
      all: intro Hp; destruct Hc1 as [[Hz _]|(_ & _ & ->)]; [lia|]; specialize (Hrun Hp); lia.
    + destruct C as (-> & H36 & Hl1 & Hc1).
      assert (Ecl : classify lab lab = EFull lab).
      { destruct lab; try contradiction; unfold classify;
          (rewrite (proj2 (label_eqb_neq _ LReUse)) by discriminate); reflexivity. }
      rewrite Ecl. cbn [gstep prev run]. rewrite Hl1, Eon. repeat split.
      * destruct (re_on s) eqn:E; intros l0 Hl0; [congruence|]. rewrite (Hoff eq_refl) in Hl0. discriminate.
      * intro E0. rewrite E0. auto.
      * intros. lia.
    + destruct C as (-> & -> & Hl1 & Hc1). cbn [classify gstep prev run]. rewrite Hl1, Eon. repeat split.
      * destruct (re_on s) eqn:E; intros l0 Hl0; [discriminate|]. rewrite (Hoff eq_refl) in Hl0. discriminate.
      * intro E0. rewrite E0. auto.
      * intros. lia.
    + destruct C as (-> & -> & ->). cbn [classify gstep]. repeat split; auto.
  - unfold Inv. cbn [gstep]. auto.
  - unfold Inv. split; [now apply enc_reset_wf|]. cbn. repeat split; auto; try discriminate.
  - unfold Inv. split; [apply enc_disable_wf|]. cbn. repeat split; auto; try discriminate; try lia.
  - unfold Inv. split; [now apply enc_enable_wf|]. cbn. repeat split; auto; try discriminate; try lia.
  - unfold Inv. split; [now apply enc_enable_max_wf|]. cbn. repeat split; auto; try discriminate; try lia.
Qed.

(* running a history *)
Fixpoint prun (s : enc_state) (g : ghost) (ops : list pop) : enc_state * ghost * list (option emitted) :=
  match ops with
  | [] => (s, g, [])
  | o :: t => let '(s', ev) := pstep s o in
              let '(s'', g'', evs) := prun s' (gstep g o ev) t in (s'', g'', ev :: evs)
  end.

Lemma Inv_run ops : forall s g, Inv s g -> Forall op_ok ops ->
  let '(s', g', _) := prun s g ops in Inv s' g'.
Proof.
  induction ops as [|o t IH]; intros s g HI Hok; cbn [prun]; [exact HI|].
  inversion Hok; subst. pose proof (Inv_step s g o HI ltac:(assumption)) as St.
  destruct (pstep s o) as [s' ev]. specialize (IH s' (gstep g o ev) St ltac:(assumption)).
  destruct (prun s' (gstep g o ev) t) as [[s'' g''] evs]. exact IH.
Qed.

(* ---- the four clauses of C15, for one step from any state satisfying the invariant ---- *)
Lemma policy_disabled s lab : re_on s = false -> snd (check_reuse_hl s lab) = lab.
Proof. intro H. unfold check_reuse_hl. now rewrite H. Qed.

Lemma policy_sub_only_same s g lab l : Inv s g -> label_wf lab ->
  snd (pstep s (PEncap lab true)) = Some (ESub l) ->
  l = lab /\ is36 lab /\ prev g = Some lab /\ re_on s = true.
Proof.
  intros (Hwf & Hprev & Hoff & Hrun) Hw. cbn [pstep].
  destruct (check_reuse_hl s lab) as [s1 w] eqn:Hc. cbn [snd].
  apply check_reuse_cases in Hc as [(-> & Hn & Hon & Hl & _)|(-> & _)].
  - destruct lab; cbn [classify label_eqb]; intros [= <-]; try contradiction; repeat split; auto.
  - unfold classify. destruct lab; try discriminate;
      rewrite (proj2 (label_eqb_neq _ LReUse)) by discriminate; discriminate.
Qed.

Lemma policy_no_sub_without_prev s g lab l : Inv s g -> label_wf lab -> prev g = None ->
  snd (pstep s (PEncap lab true)) <> Some (ESub l).
Proof. intros HI Hw Hp H. apply (policy_sub_only_same s g lab l HI Hw) in H as (_ & _ & H & _). congruence. Qed.

Lemma policy_run_bound s g o : Inv s g -> op_ok o -> 0 < re_max (fst (pstep s o)) ->
  run (gstep g o (snd (pstep s o))) <= re_max (fst (pstep s o)).
Proof.
  intros HI Hok Hm. pose proof (Inv_step s g o HI Hok) as St.
  destruct (pstep s o) as [s' ev]. cbn [fst snd] in *.
  destruct St as ((_ & Hcur & _) & _ & _ & Hrun). specialize (Hrun Hm). lia.
Qed.
