(* C18 -- previews predict exactly what encapsulation will produce. Pinned statements only.
   Previews are pure functions of (pdu, metadata, buffer): "never modify anything" holds by type. *)
Require Import GSE.model.Base GSE.model.Types GSE.model.Ext GSE.model.Encap
  GSE.proofs.Tactics GSE.proofs.BaseLemmas GSE.proofs.EncapSpec GSE.proofs.EncapProps.
Open Scope N_scope.

(* encap_preview returns the packet kind and packet length that encap produces, or the same error,
   whenever no re-use substitution applies (the label written is the label passed) *)
Theorem c18_preview : forall crc s pdu fid pt lab buf s' buf' r p, enc_wf s -> label_wf lab ->
  snd (check_reuse_hl s lab) = lab ->
  encap crc s pdu fid pt lab buf = Ret (s', buf', r) ->
  encap_preview pdu pt lab buf = Ret p ->
  match r, p with
  | inl (Completed n), inl pv => pv_kind pv = KComplete /\ pv_pkt_len pv = n /\ pv_pdu_len pv = lenN pdu
  | inl (Fragmented n _), inl pv => pv_kind pv = KFirst /\ pv_pkt_len pv = n /\ pv_pdu_len pv = lenN pdu
  | inr e, inr e' => e = e'
  | _, _ => False
  end.
Proof.
  intros crc s pdu fid pt lab buf s' buf' r p Hs Hw Hsame He Hp.
  rewrite encap_spec in He by assumption. rewrite encap_preview_spec in Hp by assumption.
  injection He as He. injection Hp as <-.
  rewrite (preview_predicts crc s pdu fid pt lab buf Hw Hsame), He. cbn [snd].
  destruct r as [[n|n c]|e]; cbn [proj_enc pv_kind pv_pkt_len pv_pdu_len]; auto.
Qed.

(* encap_frag_preview returns the kind, payload length and packet length of encap_frag, or the same error *)
Theorem c18_frag_preview : forall pdu ctx buf buf' r p,
  encap_frag pdu ctx buf = Ret (buf', r) ->
  encap_frag_preview pdu ctx buf = Ret p ->
  match r, p with
  | inl (Completed n), inl pv => pv_kind pv = KEnd /\ pv_pkt_len pv = n /\ pv_pdu_len pv = lenN pdu - cf_len ctx /\ n = 7 + pv_pdu_len pv
  | inl (Fragmented n c), inl pv => pv_kind pv = KInter /\ pv_pkt_len pv = n /\ n = 3 + pv_pdu_len pv
  | inr e, inr e' => e = e'
  | _, _ => False
  end.
Proof.
  intros pdu ctx buf buf' r p He Hp.
  rewrite encap_frag_spec in He. rewrite encap_frag_preview_spec in Hp. injection He as He. injection Hp as <-.
  rewrite frag_preview_predicts, He. cbn [snd].
  pose proof (encap_frag_hl_shape pdu ctx buf) as Sh. rewrite He in Sh.
  remember (buf', r) as oo eqn:E.
  destruct Sh as [e|H1 H2 H3|k H1 H2 H3 H4 H5 H6]; injection E as <- <-; cbn [proj_frag pv_kind pv_pkt_len pv_pdu_len];
    repeat split; auto; lia.
Qed.

Print Assumptions c18_preview.
Print Assumptions c18_frag_preview.
