(* C10 -- back-to-back packets and padding in a frame are walked by consumed lengths. Pinned statements only. *)
Require Import GSE.model.Base GSE.model.Types GSE.model.Ext GSE.model.Encap GSE.model.Memory GSE.model.Decap
  GSE.proofs.Tactics GSE.proofs.BaseLemmas GSE.proofs.HeaderLemmas GSE.proofs.EncapSpec GSE.proofs.EncapProps
  GSE.proofs.DecapBase GSE.proofs.DecapSpec GSE.proofs.DecapProps GSE.proofs.RoundTrip GSE.proofs.FragTrip GSE.proofs.Frames
  GSE.proofs.ExtSpec GSE.proofs.ExtTrip GSE.proofs.ExtProps.
Open Scope N_scope.
#[local] Opaque pkt_complete pkt_first pkt_end pkt_inter.

(* The outcome for a well-framed packet does not depend on the bytes that follow it, whatever the outcome is (bad
   CRC, unknown fragment id, lack of storage, unknown mandatory extension, unresolvable re-use label, or success),
   and it consumes exactly its own length. *)
Theorem c10_tail_independent : forall crc mgr s p tail, dstate_wf s -> bytes_ok p -> bytes_ok tail ->
  well_framed mgr p ->
  decap crc mgr s (p ++ tail) = decap crc mgr s p /\
  exists s' r, decap crc mgr s p = Ret (s', r) /\ consumed r = lenN p.
Proof.
  intros crc mgr s p tail Hwf Hp Ht Hf.
  rewrite !decap_spec by (auto; apply bytes_ok_app; auto). rewrite (tail_independent crc mgr s p tail Hf).
  split; [reflexivity|]. pose proof (well_framed_consumed crc mgr s p Hf) as C.
  destruct (decap_hl crc mgr s p) as [s' r]. eauto.
Qed.

(* Walking a frame made of well-framed packets followed by m bytes of zero padding (m = 0 or m >= 2), advancing by
   the consumed length: every packet is seen exactly once, in order, with the same outcome as when the packets are
   decapsulated alone in sequence; then a padding status consuming the rest. *)
Theorem c10_walk : forall crc mgr ps s m, Forall (well_framed mgr) ps -> Forall bytes_ok ps -> dstate_wf s -> m <> 1 ->
  exists s' rs, recv_run crc mgr s ps = Ret (s', rs) /\
    frame_walk crc mgr (S (length ps)) s (concat ps ++ zeros m) =
      Ret (if m =? 0 then s' else set_dlast s' None, rs ++ (if m =? 0 then [] else [inl (DPadding, m)])).
Proof. intros. now apply frame_walk_packets. Qed.

(* Every packet the encapsulator emits (protocol type >= 0x0600; extension packets: C13) is well framed for every
   receiver, hence walked as above, and never reads as padding (well_framed excludes the padding pattern). *)
Theorem c10_sender_well_framed : forall crc mgr S pdu fid pt lab buf S' buf' st, enc_wf S -> label_wf lab ->
  1536 <= pt < 65536 -> encap crc S pdu fid pt lab buf = Ret (S', buf', inl st) ->
  well_framed mgr (takeN (match st with Completed n | Fragmented n _ => n end) buf').
Proof.
  intros crc mgr S pdu fid pt lab buf S' buf' st HS Hw Hpt He.
  rewrite encap_spec in He by assumption. injection He as He.
  pose proof (encap_hl_shape crc S pdu fid pt lab buf Hw) as Sh. rewrite He in Sh.
  remember (S', buf', @inl enc_status enc_error st) as oo eqn:E.
  destruct Sh as [e|s1 l Hc Hf Hg|s1 l pe Hc Hpe Hb Hlt Hbig]; try discriminate E; injection E as <- <- <-;
    pose proof (check_reuse_label_wf _ _ _ _ Hw Hc) as Hwl.
  - rewrite takeN_app_eq by (now rewrite lenN_pkt_complete). apply (wf_complete crc mgr); auto; lia.
  - pose proof (lt_len_label l Hwl) as Hll. pose proof (lt_len_le (label_type l)) as Hl6.
    rewrite takeN_app_eq by (rewrite lenN_pkt_first, lenN_takeN; lia).
    apply (wf_first crc mgr); auto; rewrite ?lenN_takeN; lia.
Qed.
(* encap_ext packets are well framed for every receiver that can read the chain: it knows all the mandatory
   extensions used (chain_known), or it meets, after extensions it knows, a mandatory id it does not know (the packet
   is then dropped as a whole: C13). A manager that announces wrong sizes for the ids used is outside this theorem. *)
Theorem c10_sender_ext_well_framed : forall crc mgr S pdu fid pt lab buf exts S' buf' st, enc_wf S -> label_wf lab -> pt < 65536 ->
  Forall ext_built exts -> encap_ext crc S pdu fid pt lab buf exts = Ret (S', buf', inl st) ->
  chain_readable mgr exts pt ->
  well_framed mgr (takeN (match st with Completed n | Fragmented n _ => n end) buf').
Proof. exact encap_ext_well_framed. Qed.
Theorem c10_sender_frag_well_framed : forall mgr pdu ctx buf buf' st, lenN pdu <= 65535 ->
  encap_frag pdu ctx buf = Ret (buf', inl st) ->
  well_framed mgr (takeN (match st with Completed n | Fragmented n _ => n end) buf').
Proof.
  intros mgr pdu ctx buf buf' st Hp He. rewrite encap_frag_spec in He. injection He as He.
  pose proof (encap_frag_hl_shape pdu ctx buf) as Sh. rewrite He in Sh.
  remember (buf', @inl enc_status enc_error st) as oo eqn:E.
  destruct Sh as [e|H1 H2 H3|k H1 H2 H3 H4 H5 H6]; try discriminate E; injection E as <- <-.
  - rewrite takeN_app_eq by (rewrite lenN_pkt_end, lenN_dropN; lia). apply (wf_end (fun _ _ _ _ => 0) mgr). rewrite lenN_dropN. lia.
  - rewrite takeN_app_eq by (rewrite lenN_pkt_inter, lenN_takeN, lenN_dropN; lia). apply (wf_inter (fun _ _ _ _ => 0) mgr).
    rewrite lenN_takeN, lenN_dropN. lia.
Qed.
Theorem c10_never_padding : forall mgr p, well_framed mgr p -> hdr_view (rd16 (takeN 2 p)) <> None.
Proof. intros mgr p H E. unfold well_framed in H. now rewrite E in H. Qed.

Print Assumptions c10_tail_independent.
Print Assumptions c10_sender_ext_well_framed.
Print Assumptions c10_walk.
Print Assumptions c10_sender_well_framed.
Print Assumptions c10_sender_frag_well_framed.
Print Assumptions c10_never_padding.
