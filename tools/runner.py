"""Run case files through the implementation executor and the model driver, in parallel shards, and diff."""
import concurrent.futures
import hashlib
import os
import subprocess
import time

ROOT = os.path.dirname(os.path.dirname(os.path.abspath(__file__)))
BUILD = os.path.join(ROOT, "build")
HARNESS = os.path.join(BUILD, "target", "release", "gse_verif_harness")
DRIVER = os.path.join(BUILD, "driver")
NSHARD = 16


def _run(cmd, path, outpath, env=None):
    with open(outpath, "w") as out:
        p = subprocess.run(["bash", "-c", "ulimit -s unlimited 2>/dev/null; exec \"$0\" \"$1\"", cmd, path], stdout=out, stderr=subprocess.PIPE, timeout=3000,
                           env=dict(os.environ, **env) if env else None)
    return p.returncode, p.stderr.decode(errors="replace")[-2000:]


def split_obs(path):
    """observation file -> {case name: [lines]} (in file order)"""
    res, cur = {}, None
    with open(path) as f:
        for line in f:
            line = line.rstrip("\n")
            if line.startswith("CASE "):
                cur = line[5:]
                res[cur] = []
            elif cur is not None:
                res[cur].append(line)
    return res


def run_cases(cases, tag, want_model=True, workdir=None):
    """cases: list of Case. Returns (impl: {name: [obs]}, model: {name: [obs]} or None, info)"""
    wd = workdir or os.path.join(BUILD, "run", tag)
    os.makedirs(wd, exist_ok=True)
    shards = [[] for _ in range(NSHARD)]
    # balance by op count (big cases are spread round-robin)
    order = sorted(range(len(cases)), key=lambda i: -sum(len(o) for o in cases[i].ops))
    for k, i in enumerate(order):
        shards[k % NSHARD].append(cases[i])
    jobs = []
    t0 = time.time()
    with concurrent.futures.ThreadPoolExecutor(max_workers=NSHARD) as ex:
        for s, sh in enumerate(shards):
            if not sh:
                continue
            p = os.path.join(wd, "s%02d.case" % s)
            with open(p, "w") as f:
                for c in sh:
                    f.write(c.text())
            jobs.append(("impl", s, ex.submit(_run, HARNESS, p, p + ".impl")))
            if want_model:
                jobs.append(("model", s, ex.submit(_run, DRIVER, p, p + ".model")))
                # the same extracted program evaluating the proved closed forms instead of the statement-level model
                jobs.append(("model-hl", s, ex.submit(_run, DRIVER, p, p + ".hl", {"GSE_HL": "1"})))
        errs = []
        for kind, s, fut in jobs:
            rc, err = fut.result()
            if rc != 0:
                errs.append("%s shard %d exited %d: %s" % (kind, s, rc, err))
    impl, model, hl = {}, ({} if want_model else None), {}
    for s, sh in enumerate(shards):
        if not sh:
            continue
        p = os.path.join(wd, "s%02d.case" % s)
        impl.update(split_obs(p + ".impl"))
        if want_model:
            model.update(split_obs(p + ".model"))
            hl.update(split_obs(p + ".hl"))
    return impl, model, {"errors": errs, "wall_s": time.time() - t0, "dir": wd, "hl": hl}


def diff_obs(cases, impl, model):
    """first differing observation per case: list of (case, op index, op, impl line, model line)"""
    out = []
    for c in cases:
        a, b = impl.get(c.name), model.get(c.name)
        if a is None or b is None:
            out.append((c, -1, "(case missing in %s output)" % ("impl" if a is None else "model"), "", ""))
            continue
        n = max(len(a), len(b))
        for i in range(n):
            x = a[i] if i < len(a) else "(missing)"
            y = b[i] if i < len(b) else "(missing)"
            if x != y:
                out.append((c, i, c.ops[i] if i < len(c.ops) else "?", x, y))
                break
    return out


def sha(*parts):
    h = hashlib.sha256()
    for p in parts:
        h.update(p if isinstance(p, bytes) else p.encode())
    return h.hexdigest()
