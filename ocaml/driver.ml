(* Case-file executor on the extracted Coq model. Prints the same canonical observation lines as
   harness/src/main.rs. Only glue: parsing, int <-> N conversion, printing, FNV hash. *)
open Model

(* ---------- int <-> N ---------- *)
let rec pos_of_int (i : int) : positive =
  if i = 1 then XH else if i land 1 = 0 then XO (pos_of_int (i lsr 1)) else XI (pos_of_int (i lsr 1))
let n_of_int (i : int) : n = if i = 0 then N0 else Npos (pos_of_int i)
let rec int_of_pos (p : positive) : int =
  match p with XH -> 1 | XO q -> 2 * int_of_pos q | XI q -> 2 * int_of_pos q + 1
let int_of_n (x : n) : int = match x with N0 -> 0 | Npos p -> int_of_pos p
let byte_tab : n array = Array.init 256 n_of_int
let nbytes (l : int list) : n list = List.rev (List.rev_map (fun b -> byte_tab.(b land 255)) l)
let ibytes (l : n list) : int list = List.rev (List.rev_map int_of_n l)

(* ---------- text helpers ---------- *)
let hex (l : int list) : string =
  if l = [] then "-" else begin
    let b = Buffer.create (2 * List.length l) in
    List.iter (fun x -> Buffer.add_string b (Printf.sprintf "%02x" x)) l;
    Buffer.contents b
  end
let unhex (s : string) : int list =
  if s = "-" then [] else
    List.init (String.length s / 2) (fun i -> int_of_string ("0x" ^ String.sub s (2 * i) 2))
let gen_bytes (len : int) (seed : int) : int list =
  let x = ref (seed land 0x7FFFFFFF) in
  List.init len (fun _ ->
      x := (!x * 1103515245 + 12345) land 0x7FFFFFFF;
      (!x lsr 16) land 0xFF)
let bytes_tok (s : string) : int list =
  if String.length s > 0 && s.[0] = 'g' then begin
    match String.split_on_char '.' (String.sub s 1 (String.length s - 1)) with
    | [l; sd] -> gen_bytes (int_of_string l) (int_of_string sd)
    | _ -> failwith "bad g token"
  end else unhex s
let fnv_bytes (l : int list) : string =
  let h = ref 0xcbf29ce484222325L in
  List.iter (fun x ->
      h := Int64.logxor !h (Int64.of_int x);
      h := Int64.mul !h 0x100000001b3L) l;
  Printf.sprintf "%016Lx" !h
let fnv_string (s : string) : string =
  let h = ref 0xcbf29ce484222325L in
  String.iter (fun c ->
      h := Int64.logxor !h (Int64.of_int (Char.code c));
      h := Int64.mul !h 0x100000001b3L) s;
  Printf.sprintf "%016Lx" !h

let label_tok (s : string) : label =
  match s with
  | "B" -> LBroadcast
  | "R" -> LReUse
  | _ ->
    let b = nbytes (unhex (String.sub s 2 (String.length s - 2))) in
    if s.[0] = '6' then L6 b else L3 b
let label_str (l : label) : string =
  match l with
  | LBroadcast -> "B" | LReUse -> "R"
  | L6 b -> "6:" ^ hex (ibytes b) | L3 b -> "3:" ^ hex (ibytes b)
let optlabel_str = function None -> "none" | Some l -> label_str l
let ext_str (e : ext) : string =
  let k, d = match e.ext_dat with
    | D2 d -> "D2", d | D4 d -> "D4", d | D6 d -> "D6", d | D8 d -> "D8", d
    | DNo -> "DN", [] | DMand d -> "DM", d in
  Printf.sprintf "%04x:%s:%s" (int_of_n e.ext_id) k (hex (ibytes d))
let exts_str (es : ext list) : string =
  if es = [] then "-" else String.concat "," (List.map ext_str es)

exception ExtNewErr
exception ModelPanic
let exts_tok (s : string) : ext list =
  if s = "-" then [] else
    List.map (fun part ->
        match String.split_on_char ':' part with
        | id :: rest ->
          let data = match rest with d :: _ -> unhex d | [] -> [] in
          (match ext_new (n_of_int (int_of_string ("0x" ^ id))) (nbytes data) with
           | Panic -> raise ModelPanic
           | Ret (Inl e) -> e
           | Ret (Inr _) -> raise ExtNewErr)
        | [] -> failwith "bad ext") (String.split_on_char ',' s)

let enc_err_str = function
  | ESizeBuffer -> "SizeBuffer" | EPduLength -> "PduLength" | EProtocolType -> "ProtocolType"
  | EInvalidLabel -> "InvalidLabel" | ENoExtensionFound -> "NoExtensionFound"
  | EFinalMandatoryExtensionHeader -> "FinalMandatoryExtensionHeader"
let kind_str = function KComplete -> "C" | KFirst -> "F" | KInter -> "I" | KEnd -> "E"
let lt_str = function T6 -> "6" | T3 -> "3" | TB -> "B" | TR -> "R"

(* manager: simple | signal | tab:0005=F2;0007=N4 *)
let mgr_tok (s : string) : n -> mand =
  match s with
  | "simple" -> mgr_simple
  | "signal" -> mgr_signal
  | _ ->
    let parts = List.filter (fun p -> p <> "") (String.split_on_char ';' (String.sub s 4 (String.length s - 4))) in
    let tab = List.map (fun p ->
        let id = int_of_string ("0x" ^ String.sub p 0 4) in
        let f = p.[5] = 'F' in
        let nn = int_of_string (String.sub p 6 (String.length p - 6)) in
        (id, f, nn)) parts in
    fun id ->
      let i = int_of_n id in
      let rec find = function
        | [] -> MUnknown
        | (j, f, nn) :: t -> if i = j then (if f then MFinal (n_of_int nn) else MNonFinal (n_of_int nn)) else find t in
      find tab

(* ---------- world ---------- *)
type world = {
  mutable enc : enc_state;
  mutable last_pkt : int list;
  mutable last_pdu : n list;
  mutable last_ctx : ctxfrag option;
  mutable fresh : bool;
  mutable frame : int list;
  mutable dec : dstate option;
  mutable mgr : n -> mand;
  mutable nprov : int;
  mutable owned : sbuf list;
  mutable held : (dctx * sbuf) option;
}
let new_world () = { enc = enc_new; last_pkt = []; last_pdu = []; last_ctx = None; fresh = false; frame = []; dec = None;
                     mgr = mgr_simple; nprov = 0; owned = []; held = None }

let enc_state_str (s : enc_state) : string =
  Printf.sprintf "re=%d max=%d cur=%d last=%s" (if s.re_on then 1 else 0) (int_of_n s.re_max)
    (int_of_n s.re_cur) (optlabel_str s.last)

let rec take k l = if k <= 0 then [] else match l with [] -> [] | x :: t -> x :: take (k - 1) t
let rec drop k l = if k <= 0 then l else match l with [] -> [] | _ :: t -> drop (k - 1) t

(* common printing of an encap-like result *)
let enc_result (w : world) (r : ((enc_state * n list) * enc_result) res) (before : int list) (pdu : n list)
    (update_state : bool) : string =
  match r with
  | Panic -> "PANIC"
  | Ret ((s, buf), res) ->
    if update_state then w.enc <- s;
    let after = ibytes buf in
    let st = " st=" ^ enc_state_str w.enc in
    (match res with
     | Inr e -> Printf.sprintf "err %s pkt=- tail=%d%s" (enc_err_str e) (if before = after then 1 else 0) st
     | Inl status ->
       let nn, head, ctx = match status with
         | Completed k -> int_of_n k, Printf.sprintf "ok C %d" (int_of_n k), None
         | Fragmented (k, c) ->
           int_of_n k,
           Printf.sprintf "ok F %d %d %d %d" (int_of_n k) (int_of_n c.cf_id) (int_of_n c.cf_crc) (int_of_n c.cf_len),
           Some c in
       let la = List.length after in
       let k = min nn la in
       let tail = List.length before = la && drop k before = drop k after in
       let pkt = take k after in
       w.last_pkt <- pkt; w.last_pdu <- pdu; w.last_ctx <- ctx; w.fresh <- true;
       Printf.sprintf "%s pkt=%s tail=%d%s" head (hex pkt) (if tail then 1 else 0) st)

let md_str (m : dmeta) : string =
  Printf.sprintf "ptype=%d label=%s exts=%s" (int_of_n m.md_ptype) (label_str m.md_label) (exts_str m.md_exts)
let blen (b : sbuf) = int_of_n (lenN b.bdata)
let memerr_str = function
  | MOverflow b -> Printf.sprintf "Overflow:%d" (blen b)
  | MUnderflow -> "Underflow" | MUndefinedId -> "UndefinedId"
  | MTooSmall b -> Printf.sprintf "TooSmall:%d" (blen b)
  | MCorrupted -> "Corrupted"
let decerr_str = function
  | DSizeBuffer -> "SizeBuffer" | DTotalLength -> "TotalLength" | DGseLength -> "GseLength"
  | DSizePduBuffer -> "SizePduBuffer" | DProtocolType -> "ProtocolType"
  | DMemory m -> "Memory:" ^ memerr_str m | DCrc -> "Crc" | DInvalidLabel -> "InvalidLabel"
  | DNoLabelSaved -> "NoLabelSaved" | DLabelBroadcastSaved -> "LabelBroadcastSaved"
  | DLabelReUseSaved -> "LabelReUseSaved" | DUnkownMandatoryHeader -> "UnkownMandatoryHeader"
let ctx_str (c : dctx) : string =
  Printf.sprintf "%d,%d,%d,%d,%s,%d,%s" (int_of_n c.c_fid) (int_of_n c.c_total) (int_of_n c.c_pdulen)
    (if c.c_reuse then 1 else 0) (label_str c.c_label) (int_of_n c.c_ptype) (exts_str c.c_exts)
let ctx_tok (s : string) : dctx =
  match String.split_on_char ',' s with
  | [fid; total; pl; ru; lab; pt] ->
    { c_label = label_tok lab; c_ptype = n_of_int (int_of_string pt); c_fid = n_of_int (int_of_string fid);
      c_total = n_of_int (int_of_string total); c_pdulen = n_of_int (int_of_string pl); c_reuse = (ru = "1");
      c_exts = [] }
  | _ -> failwith "bad ctx"
let sbuf_str (b : sbuf) : string = Printf.sprintf "%d:%s" (blen b) (fnv_bytes (ibytes b.bdata))

let dec_result (w : world) (r : (dstate * dec_result) res) : string =
  match r with
  | Panic -> "PANIC"
  | Ret (s, res) ->
    w.dec <- Some s;
    (match res with
     | Inl (DPadding, k) -> Printf.sprintf "ok padding consumed=%d" (int_of_n k)
     | Inl (DFragmented m, k) ->
       Printf.sprintf "ok fragmented pdulen=%d %s consumed=%d" (int_of_n m.md_pdu_len) (md_str m) (int_of_n k)
     | Inl (DCompleted (b, m), k) ->
       let data = ibytes b.bdata in
       let pl = int_of_n m.md_pdu_len in
       let kk = min pl (List.length data) in
       w.owned <- b :: w.owned;
       Printf.sprintf "ok completed len=%d pdulen=%d data=%s rest=%s %s consumed=%d" (List.length data) pl
         (hex (take kk data)) (fnv_bytes (drop kk data)) (md_str m) (int_of_n k)
     | Inr (e, k) ->
       (match e with
        | DMemory (MOverflow b) | DMemory (MTooSmall b) -> w.owned <- b :: w.owned
        | _ -> ());
       Printf.sprintf "err %s consumed=%d" (decerr_str e) (int_of_n k))

let getdec (w : world) : dstate = match w.dec with Some d -> d | None -> failwith "no decapsulator"

let observe (w : world) : string =
  match w.dec with
  | None -> "nodec"
  | Some d ->
    let m = d.dmem in
    let free = List.map sbuf_str m.storages in
    (* slots in the order frag id 0..255 finds them *)
    let slots = ref [] in
    for f = 255 downto 0 do
      match take_frag m (n_of_int f) with
      | Ret (_, Inl (c, b)) -> slots := (ctx_str c ^ ";" ^ sbuf_str b) :: !slots
      | _ -> ()
    done;
    Printf.sprintf "last=%s free=[%s] slots=[%s]" (optlabel_str d.dlast) (String.concat " " free)
      (String.concat " " !slots)

let hread (wd : int) : string =
  match read_hdr (n_of_int wd) with
  | Panic -> "PANIC"
  | Ret None -> "none"
  | Ret (Some ((len, k), t)) -> Printf.sprintf "%d %s %s" (int_of_n len) (kind_str k) (lt_str t)

let provision_buf (w : world) (b : sbuf) : string =
  let d = getdec w in
  let d', r = dec_provision d b in
  w.dec <- Some d';
  match r with
  | None -> "ok"
  | Some e ->
    (match e with MOverflow b | MTooSmall b -> w.owned <- b :: w.owned | _ -> ());
    "err " ^ memerr_str e

(* GSE_HL=1: run the closed forms (proofs/*Spec.v) instead of the statement-by-statement model; used to validate
   a closed form against the implementation before/after proving it equal to the model *)
let use_hl = (Sys.getenv_opt "GSE_HL" = Some "1")
let encap_m crc s pdu fid pt lab buf = if use_hl then Ret (encap_hl crc s pdu fid pt lab buf) else encap crc s pdu fid pt lab buf
let encap_frag_m pdu ctx buf = if use_hl then Ret (encap_frag_hl pdu ctx buf) else encap_frag pdu ctx buf
let encap_ext_m crc s pdu fid pt lab buf exts = if use_hl then Ret (encap_ext_hl crc s pdu fid pt lab buf exts) else encap_ext crc s pdu fid pt lab buf exts
let decap_m crc mgr s buf = if use_hl then Ret (decap_hl crc mgr s buf) else decap crc mgr s buf

let ios = int_of_string
let nos s = n_of_int (int_of_string s)

let apply (w : world) (line : string) : string =
  let t = Array.of_list (String.split_on_char ' ' line) in
  let op = t.(0) in
  match op with
  | "ENEW" -> w.enc <- enc_new; "enc " ^ enc_state_str w.enc
  | "ERESET" -> w.enc <- enc_reset w.enc; "enc " ^ enc_state_str w.enc
  | "EDIS" -> w.enc <- enc_disable w.enc; "enc " ^ enc_state_str w.enc
  | "EEN" -> w.enc <- enc_enable w.enc; "enc " ^ enc_state_str w.enc
  | "EENMAX" -> w.enc <- enc_enable_max w.enc (nos t.(1)); "enc " ^ enc_state_str w.enc
  | "EISEN" -> if w.enc.re_on then "ok 1" else "ok 0"
  | "ENCAP" | "EEXT" ->
    let pdu = nbytes (bytes_tok t.(1)) in
    let before = gen_bytes (ios t.(5)) (ios t.(6)) in
    let lab = label_tok t.(4) in
    if op = "ENCAP" then
      enc_result w (encap_m default_crc w.enc pdu (nos t.(2)) (nos t.(3)) lab (nbytes before)) before pdu true
    else begin
      match (try Ok (exts_tok t.(7)) with ExtNewErr -> Error "err extnew" | ModelPanic -> Error "PANIC extnew") with
      | Error s -> s
      | Ok exts ->
        enc_result w (encap_ext_m default_crc w.enc pdu (nos t.(2)) (nos t.(3)) lab (nbytes before) exts) before pdu true
    end
  | "EFRAG" ->
    let pdu = nbytes (bytes_tok t.(1)) in
    let ctx = { cf_id = nos t.(2); cf_crc = nos t.(3); cf_len = nos t.(4) } in
    let before = gen_bytes (ios t.(5)) (ios t.(6)) in
    let r = match encap_frag_m pdu ctx (nbytes before) with Panic -> Panic | Ret (b, res) -> Ret ((w.enc, b), res) in
    enc_result w r before pdu false
  | "EFRAGC" ->
    (match w.last_ctx with
     | None -> "skip"
     | Some ctx ->
       let pdu = w.last_pdu in
       let before = gen_bytes (ios t.(1)) (ios t.(2)) in
       let keep_ctx = w.last_ctx and keep_pkt = w.last_pkt in
       let r = match encap_frag_m pdu ctx (nbytes before) with Panic -> Panic | Ret (b, res) -> Ret ((w.enc, b), res) in
       let s = enc_result w r before pdu false in
       if String.length s >= 3 && (String.sub s 0 3 = "err" || String.sub s 0 3 = "PAN") then begin
         w.last_ctx <- keep_ctx; w.last_pkt <- keep_pkt end;
       s)
  | "PENCAP" ->
    let pdu = nbytes (bytes_tok t.(1)) in
    (match encap_preview pdu (nos t.(2)) (label_tok t.(3)) (zeros (nos t.(4))) with
     | Panic -> "PANIC"
     | Ret (Inr e) -> "err " ^ enc_err_str e
     | Ret (Inl p) -> Printf.sprintf "ok %s %d %d" (kind_str p.pv_kind) (int_of_n p.pv_pdu_len) (int_of_n p.pv_pkt_len))
  | "PFRAG" ->
    let pdu = nbytes (bytes_tok t.(1)) in
    let ctx = { cf_id = nos t.(2); cf_crc = nos t.(3); cf_len = nos t.(4) } in
    (match encap_frag_preview pdu ctx (zeros (nos t.(5))) with
     | Panic -> "PANIC"
     | Ret (Inr e) -> "err " ^ enc_err_str e
     | Ret (Inl p) -> Printf.sprintf "ok %s %d %d" (kind_str p.pv_kind) (int_of_n p.pv_pdu_len) (int_of_n p.pv_pkt_len))
  | "DNEW" ->
    w.dec <- Some (dec_new (nos t.(1)) (nos t.(2)));
    w.mgr <- mgr_tok t.(3);
    w.owned <- []; w.held <- None; w.nprov <- 0;
    "ok"
  | "DPROV" ->
    let size = ios t.(1) in
    let fill = (w.nprov * 37 + 11) land 0xFF in
    let b = { bid = n_of_int w.nprov; bdata = nbytes (List.init size (fun _ -> fill)) } in
    w.nprov <- w.nprov + 1;
    provision_buf w b
  | "DPROVBACK" ->
    (match w.owned with
     | [] -> "none"
     | b :: rest -> w.owned <- rest; provision_buf w b)
  | "DNEWPDU" ->
    let d = getdec w in
    let d', r = dec_new_pdu d in
    w.dec <- Some d';
    (match r with
     | Inl b -> w.owned <- b :: w.owned; "ok " ^ sbuf_str b
     | Inr e -> "err " ^ memerr_str e)
  | "DRESET" -> w.dec <- Some (dec_reset (getdec w)); "ok"
  | "DECAPN" when not w.fresh -> "nopkt"
  | "DECAP" | "DECAPL" | "DECAPN" ->
    if op = "DECAPN" then w.fresh <- false;
    let bytes = if op = "DECAP" then bytes_tok t.(1) else w.last_pkt @ bytes_tok t.(1) in
    dec_result w (decap_m default_crc w.mgr (getdec w) (nbytes bytes))
  | "FCLEARFRESH" -> w.fresh <- false; "ok"
  | "FCLEAR" -> w.frame <- []; "ok"
  | "FPUSH" ->
    if not w.fresh then "nopkt" else begin
      w.fresh <- false; w.frame <- w.frame @ w.last_pkt; Printf.sprintf "ok %d" (List.length w.frame) end
  | "FPAD" -> w.frame <- w.frame @ List.init (ios t.(1)) (fun _ -> 0); Printf.sprintf "ok %d" (List.length w.frame)
  | "FRAW" -> w.frame <- w.frame @ bytes_tok t.(1); Printf.sprintf "ok %d" (List.length w.frame)
  | "FWALK" ->
    let total = List.length w.frame in
    let rec go rest off steps acc =
      if rest = [] || steps >= 300 then (off, List.rev acc) else begin
        let s = dec_result w (decap_m default_crc w.mgr (getdec w) (nbytes rest)) in
        let c = (try
                   let i = Str.search_backward (Str.regexp_string "consumed=") s (String.length s - 1) in
                   int_of_string (String.sub s (i + 9) (String.length s - i - 9))
                 with _ -> 0) in
        if c = 0 then (off, List.rev (s :: acc)) else go (drop c rest) (off + c) (steps + 1) (s :: acc)
      end in
    let off, out = go w.frame 0 0 [] in
    ignore total;
    Printf.sprintf "walk %d | %s" off (String.concat " | " out)
  | "PEEK" | "PEEKL" ->
    let bytes = if op = "PEEK" then bytes_tok t.(1) else w.last_pkt @ bytes_tok t.(1) in
    (match peek (nbytes bytes) with
     | Panic -> "PANIC"
     | Ret (Inl (PLabel l)) -> "ok label " ^ label_str l
     | Ret (Inl (PFragId f)) -> Printf.sprintf "ok fragid %d" (int_of_n f)
     | Ret (Inr PErrLabelReuse) -> "err LabelReuse"
     | Ret (Inr PErrSizeBuffer) -> "err SizeBuffer"
     | Ret (Inr PErrHeaderRead) -> "err HeaderRead")
  | "DOBS" -> observe w
  | "MNEWFRAG" | "MTAKE" ->
    let d = getdec w in
    let r = if op = "MNEWFRAG" then new_frag d.dmem (ctx_tok t.(1)) else take_frag d.dmem (nos t.(1)) in
    (match r with
     | Panic -> "PANIC"
     | Ret (m, res) ->
       w.dec <- Some { d with dmem = m };
       (match res with
        | Inl (c, b) ->
          (match w.held with Some (_, old) -> w.owned <- old :: w.owned | None -> ());
          w.held <- Some (c, b);
          Printf.sprintf "ok %s;%s" (ctx_str c) (sbuf_str b)
        | Inr e -> "err " ^ memerr_str e))
  | "MSAVE" | "MSAVEC" ->
    (match w.held with
     | None -> "none"
     | Some (c, b) ->
       w.held <- None;
       let c = if op = "MSAVEC" then ctx_tok t.(1) else c in
       let d = getdec w in
       (match save_frag d.dmem (c, b) with
        | Panic -> "PANIC"
        | Ret (m, None) -> w.dec <- Some { d with dmem = m }; "ok"
        | Ret (m, Some e) -> w.dec <- Some { d with dmem = m }; "err " ^ memerr_str e))
  | "HGEN" ->
    let k = match t.(1) with "C" -> KComplete | "F" -> KFirst | "E" -> KEnd | _ -> KInter in
    let lt = match t.(2) with "6" -> T6 | "3" -> T3 | "B" -> TB | _ -> TR in
    string_of_int (int_of_n (gen_hdr k lt (nos t.(3))))
  | "HREAD" -> hread (ios t.(1))
  | "HREADR" ->
    let b = Buffer.create 4096 in
    for wd = ios t.(1) to ios t.(2) - 1 do Buffer.add_string b (hread wd); Buffer.add_char b '\n' done;
    fnv_string (Buffer.contents b)
  | "CRC" ->
    (match default_crc_res (nbytes (bytes_tok t.(1))) (nos t.(2)) (nos t.(3)) (nbytes (bytes_tok t.(4))) with
     | Panic -> "PANIC" | Ret v -> string_of_int (int_of_n v))
  | "XNEW" ->
    (match ext_new (n_of_int (int_of_string ("0x" ^ t.(1)))) (nbytes (bytes_tok t.(2))) with
     | Panic -> "PANIC"
     | Ret (Inl e) -> Printf.sprintf "ok %s len=%d" (ext_str e) (int_of_n (ext_len e))
     | Ret (Inr XIdAndVecSizeNotMatching) -> "err IdAndVecSizeNotMatching"
     | Ret (Inr XIncorrectExtensionId) -> "err IncorrectExtensionId")
  | "XMGR" ->
    let id = n_of_int (int_of_string ("0x" ^ t.(2))) in
    (match (if t.(1) = "signal" then mgr_signal id else mgr_simple id) with
     | MFinal k -> Printf.sprintf "final %d" (int_of_n k)
     | MNonFinal k -> Printf.sprintf "nonfinal %d" (int_of_n k)
     | MUnknown -> "unknown")
  | "UGEN" ->
    let n = Array.length t in
    let buf = nbytes (gen_bytes (ios t.(n - 2)) (ios t.(n - 1))) in
    let g = nos t.(2) in
    let r = match t.(1) with
      | "C" -> gen_complete { uc_gse_len = g; uc_ptype = nos t.(3); uc_label = label_tok t.(4);
                              uc_pdu = nbytes (bytes_tok t.(5)) } buf
      | "F" -> gen_first { uf_gse_len = g; uf_fid = nos t.(3); uf_total = nos t.(4); uf_ptype = nos t.(5);
                           uf_label = label_tok t.(6); uf_pdu = nbytes (bytes_tok t.(7)) } buf
      | "I" -> gen_inter { ui_gse_len = g; ui_fid = nos t.(3); ui_pdu = nbytes (bytes_tok t.(4)) } buf
      | _ -> gen_end { ue_gse_len = g; ue_fid = nos t.(3); ue_pdu = nbytes (bytes_tok t.(4)); ue_crc = nos t.(5) } buf in
    (match r with Panic -> "PANIC" | Ret b -> "ok " ^ hex (ibytes b))
  | "UPARSE" ->
    let bytes = nbytes (bytes_tok t.(2)) in
    (match t.(1) with
     | "C" -> (match parse_complete bytes with
         | Panic -> "PANIC" | Ret None -> "err"
         | Ret (Some d) -> Printf.sprintf "ok gse_len=%d protocol_type=%d label=%s pdu=%s" (int_of_n d.uc_gse_len)
                             (int_of_n d.uc_ptype) (label_str d.uc_label) (hex (ibytes d.uc_pdu)))
     | "F" -> (match parse_first bytes with
         | Panic -> "PANIC" | Ret None -> "err"
         | Ret (Some d) -> Printf.sprintf "ok gse_len=%d frag_id=%d total_length=%d protocol_type=%d label=%s pdu=%s"
                             (int_of_n d.uf_gse_len) (int_of_n d.uf_fid) (int_of_n d.uf_total) (int_of_n d.uf_ptype)
                             (label_str d.uf_label) (hex (ibytes d.uf_pdu)))
     | "I" -> (match parse_inter bytes with
         | Panic -> "PANIC" | Ret None -> "err"
         | Ret (Some d) -> Printf.sprintf "ok gse_len=%d frag_id=%d pdu=%s" (int_of_n d.ui_gse_len)
                             (int_of_n d.ui_fid) (hex (ibytes d.ui_pdu)))
     | _ -> (match parse_end bytes with
         | Panic -> "PANIC" | Ret None -> "err"
         | Ret (Some d) -> Printf.sprintf "ok gse_len=%d frag_id=%d pdu=%s crc=%d" (int_of_n d.ue_gse_len)
                             (int_of_n d.ue_fid) (hex (ibytes d.ue_pdu)) (int_of_n d.ue_crc)))
  | _ -> "?op " ^ op

let () =
  let ic = if Array.length Sys.argv > 1 then open_in Sys.argv.(1) else stdin in
  let w = ref (new_world ()) in
  (try
     while true do
       let line = input_line ic in
       let line = String.trim line in
       if line = "" || line.[0] = '#' then ()
       else if String.length line >= 4 && String.sub line 0 4 = "CASE" then begin
         w := new_world (); print_endline line end
       else print_endline (apply !w line)
     done
   with End_of_file -> ());
  flush stdout
