#!/usr/bin/env python3
"""Markdown table of the seeded changes under /verif/seeded (for DESIGN.md section 10)."""
import json, os, glob
ROOT = os.path.dirname(os.path.dirname(os.path.abspath(__file__)))
rows = []
for p in sorted(glob.glob(os.path.join(ROOT, "seeded", "*", "meta.json"))):
    m = json.load(open(p))
    rows.append(m)
print("| change | breaks | needs, in order to manifest | target check | caught with a failing input by | also flagged (correspondence only) by |")
print("|---|---|---|---|---|---|")
for m in rows:
    wi = m["caught_with_failing_input"]
    co = [c for c in m["caught_by"] if c not in wi]
    tgt = m["breaks_property"]
    t = "**missed**" if tgt not in m["caught_by"] else ("failing input" if tgt in wi else "correspondence only")
    if m.get("previous_runs"):
        pr = m["previous_runs"][0]
        t0 = "missed" if not pr["target_check_catches"] else ("failing input" if tgt in pr["caught_with_failing_input"] else "correspondence only")
        if t0 != t.strip("*"):
            t = "first run: %s; after strengthening: %s" % (t0, t)
    print("| %s | %s | %s | %s | %s | %s |" % (m["name"], tgt, m["needs_to_manifest"].replace("|", "/"), t, " ".join(wi) or "–", " ".join(co) or "–"))
print()
print("%d seeded changes; target check reports a violation for %d, with a concrete failing input for %d."
      % (len(rows), sum(1 for m in rows if m["breaks_property"] in m["caught_by"]),
         sum(1 for m in rows if m["breaks_property"] in m["caught_with_failing_input"])))
