"""Case generators (one per property and shared families) and property oracles on the implementation's
observations. A case is (name, [op lines]); an oracle gets (case, [observation lines]) and returns a list of
violation messages. See DESIGN.md 3.4-3.6 and appendix B for the op / observation syntax."""
from gsepy import *

L6A, L6B, L3A, L3B = "6:010203040506", "6:0a0b0c0d0e0f", "3:aabbcc", "3:112233"
L3Z = "3:000000"    # legal (only the 6-byte zero label is reserved); a seeded change rejecting it went unnoticed without it
L6N = "6:000000000001"   # almost zero: legal
L6C, L6D, L3C = "6:010203aabbcc", "6:aabbcc040506", "3:010203"   # same first / last three bytes as L6A, and L6A's first three bytes alone
LABELS = [L6A, L6B, L3A, L3B, "B", L3Z, L6N]
ZERO6 = "6:000000000000"
PTYPES_OK = [0x0600, 0x0800, 0x86DD, 0xFFFF, 0x0000, 0x0081, 0x00FF]
PTYPES_BAD = [0x0100, 0x0101, 0x0300, 0x05FF]


def lab_len(l):
    return len(label_bytes(l))


class Case:
    def __init__(self, name):
        self.name = name
        self.ops = []
        self.meta = {}

    def add(self, *ops):
        self.ops.extend(ops)
        return self

    def text(self):
        return "CASE %s\n%s\n" % (self.name, "\n".join(self.ops))


def near(rng, *centers, spread=2, lo=0, hi=None):
    c = rng.choice(centers)
    v = c + rng.range(-spread, spread)
    v = max(lo, v)
    if hi is not None:
        v = min(hi, v)
    return v


def pdu_tok(rng, n):
    return "g%d.%d" % (n, rng.below(1 << 30)) if n else "-"


def size_lattice(rng, big_ok=True):
    """PDU length: small, around the 12-bit limit, (rarely) around the 16-bit limit, random"""
    r = rng.below(100)
    if r < 45:
        return rng.range(0, 40)
    if r < 70:
        return rng.range(0, 600)
    if r < 90:
        return near(rng, 4082, 4087, 4090, 4093, 4095, 4096, spread=3)
    if r < 96 or not big_ok:
        return rng.range(600, 9000)
    return near(rng, 65520, 65527, 65530, 65533, 65536, spread=3)


def buf_lattice(rng, pdu_len, ll, big_ok=True):
    r = rng.below(100)
    if r < 20:
        return rng.range(0, 16)
    if r < 55:
        return max(0, pdu_len + 4 + ll + rng.range(-4, 4))
    if r < 70:
        return rng.range(7, 200)
    if r < 85:
        return near(rng, 4090, 4095, 4097, 4100, 4104, 4110, spread=3)
    if r < 95 or not big_ok:
        return rng.range(0, 9000)
    return rng.choice([65535, 65536, 65539, 65540, 70000, 65536 + 4097])


def enc_prelude(rng, c, label):
    """put the encapsulator in an interesting label-memory state before the call under test"""
    r = rng.below(10)
    c.add("ENEW")
    if r < 3:
        return
    if r < 5:
        c.add("ENCAP g4.1 0 2048 %s 64 1" % (label if label not in ("R", ZERO6) else L6A))
    elif r < 6:
        c.add("ENCAP g4.1 0 2048 %s 64 1" % rng.choice([L6B, L3B, "B"]))
    elif r < 7:
        c.add("EDIS")
    elif r < 8:
        m = rng.choice([1, 2, 255])
        c.add("EENMAX %d" % m)
        lab = label if label not in ("R", ZERO6, "B") else L6A
        for _ in range(rng.range(1, 3)):
            c.add("ENCAP g4.1 0 2048 %s 64 1" % lab)
    elif r < 9:
        c.add("ENCAP g4.1 0 2048 %s 64 1" % (label if label not in ("R", ZERO6) else L3A), "ERESET")
    else:
        c.add("EDIS", "ENCAP g4.1 0 2048 %s 64 1" % L6A, "EEN")


# ============================================================================================
# shared families
# ============================================================================================
def fam_enc(rng, n):
    """ENC: encap / encap_frag on the boundary lattice, with label-memory preludes"""
    out = []
    for i in range(n):
        c = Case("enc%d" % i)
        label = rng.choice(LABELS + [L6A, L3A, "R", ZERO6]) if rng.chance(0.9) else "R"
        enc_prelude(rng, c, label)
        pl = size_lattice(rng, big_ok=(i % 50 == 0))
        ll = lab_len(label)
        bl = buf_lattice(rng, pl, ll, big_ok=(i % 50 == 1))
        pt = rng.choice(PTYPES_OK) if rng.chance(0.85) else rng.choice(PTYPES_BAD)
        c.add("ENCAP %s %d %d %s %d %d" % (pdu_tok(rng, pl), rng.below(256), pt, label, bl, rng.below(1000)))
        for _ in range(rng.range(0, 5)):
            if rng.chance(0.8):
                c.add("EFRAGC %d %d" % (rng.choice([0, 2, 3, 4, 5, 6, 7, 8, 13, 20, 64, 300, 4097, 4098, 5000]), rng.below(1000)))
            else:
                c.add("ENCAP %s %d %d %s %d %d" % (pdu_tok(rng, rng.range(0, 30)), rng.below(256), 2048, rng.choice(LABELS + ["R"]), rng.range(0, 60), 3))
        out.append(c)
    return out


def fam_encfrag(rng, n):
    """encap_frag with hand-made contexts (any len_pdu_frag, including beyond the PDU)"""
    out = []
    for i in range(n):
        c = Case("efrag%d" % i)
        pl = size_lattice(rng, big_ok=(i % 60 == 0))
        r = rng.below(10)
        lpf = rng.range(0, pl) if r < 6 else (pl if r < 8 else pl + rng.range(1, 3))
        rem = max(0, pl - lpf)
        bl = rng.choice([rng.range(0, 12), rem + 7 + rng.range(-3, 3), rem + 3 + rng.range(-2, 2),
                         near(rng, 4094, 4097, 4098, 4100), rng.range(0, 6000)])
        bl = max(0, bl)
        if i % 40 == 7:
            # nearly a whole maximal PDU remaining (lengths of 65531 and more do not fit 16 bits once 7 is added)
            pl = rng.range(65531, 65535)
            lpf = rng.range(0, 4)
            rem = pl - lpf
            bl = rng.choice([20, 4097, 65538, 70000, rem + 7])
        if rem > 4090 and rng.chance(0.3):
            # room for a payload of 65536 bytes and more: lengths that lose their meaning when squeezed into 16 bits
            bl = rng.choice([65538, 65539, 65540, 65539 + 65536, 70000])
        c.add("ENEW", "EFRAG %s %d %d %d %d %d" % (pdu_tok(rng, pl), rng.below(256), rng.below(1 << 32), min(lpf, 65535), bl, rng.below(1000)))
        out.append(c)
    return out


EXT_POOL = [(0x0100, b""), (0x01AB, b""), (0x0200, b"\x01\x02"), (0x0301, b"\x01\x02\x03\x04"),
            (0x04FF, b"\x01\x02\x03\x04\x05\x06"), (0x0500, b"\x01\x02\x03\x04\x05\x06\x07\x08"),
            (0x0005, b"\xaa\xbb\xcc"), (0x0007, b""), (0x0042, b"\x10\x20\x30\x40\x50")]
# a manager that knows the mandatory ids of EXT_POOL as non-final, and the final ids used as protocol types
MGR_ALL = "tab:0005=N3;0007=N0;0042=N5;0081=F0;0082=F0;0033=F2"


def rand_chain(rng, final_id=None, maxn=4):
    n = rng.range(1, maxn)
    ch = [rng.choice(EXT_POOL) for _ in range(n)]
    if final_id is not None:
        ch[-1] = (final_id, {0x33: b"\x77\x88"}.get(final_id, b""))
    return ch


def fam_encx(rng, n):
    out = []
    for i in range(n):
        c = Case("encx%d" % i)
        label = rng.choice(LABELS + ["R", ZERO6])
        enc_prelude(rng, c, label)
        r = rng.below(10)
        if r < 6:
            pt = rng.choice([0x0800, 0x0600, 0xFFFF])
            ch = rand_chain(rng)
        elif r < 8:
            pt = rng.choice([0x81, 0x82, 0x33])
            ch = rand_chain(rng, final_id=pt)
        elif r < 9:
            pt = rng.choice([0x81, 0x33, 0x00])
            ch = rand_chain(rng)  # last id most likely differs
        else:
            pt = rng.choice(PTYPES_BAD + [0x0800])
            ch = rand_chain(rng) if rng.chance(0.7) else []
        if 0x100 <= pt < 0x600 and ch and rng.chance(0.5):
            ch[-1] = (pt, bytes(range(2 * ((pt >> 8) - 1))))      # last extension id == protocol type in the forbidden range
        if rng.chance(0.03):
            ch = ch + [(0x0009, bytes(rng.range(3900, 4200)))]
        el = sum(2 + len(d) for _, d in ch)
        pl = size_lattice(rng, big_ok=False)
        if rng.chance(0.3):
            pl = max(0, 4093 - lab_len(label) - el + rng.range(-3, 3))
        bl = buf_lattice(rng, pl + el, lab_len(label), big_ok=False)
        if i % 20 == 7:
            # around the 16-bit total length (a seeded change dropping the label length from that test went unnoticed without it)
            pl = 65535 - 2 - lab_len(label) + rng.range(-4, 3)
            bl = rng.choice([4097, 5000, 70000, 300, 7 + lab_len(label) + el + rng.range(0, 3)])
        c.add("EEXT %s %d %d %s %d %d %s" % (pdu_tok(rng, pl), rng.below(256), pt, label, bl, rng.below(1000), exts_tok(ch)))
        for _ in range(rng.range(0, 3)):
            c.add("EFRAGC %d %d" % (rng.choice([3, 4, 7, 8, 13, 40, 4097, 5000]), rng.below(1000)))
        out.append(c)
    return out


def malformed_packet(rng):
    """header-directed malformed packets: every kind / label type with lengths around the per-kind minimum"""
    kind = rng.choice("CFIE")
    lt = rng.below(4)
    if kind == "I" and lt == 0:
        lt = 3
    mins = {"C": 2 + LT_LEN[lt], "F": 5 + LT_LEN[lt], "I": 2, "E": 5}[kind]
    gl = max(0, mins + rng.range(-3, 6)) if rng.chance(0.7) else rng.range(0, 60)
    body = bytearray(rng.bytes(gl))
    # make the protocol type an extension id now and then
    if kind in "CF" and rng.chance(0.5):
        o = 0 if kind == "C" else 3
        if len(body) >= o + 2:
            body[o:o + 2] = rng.choice([0x0100, 0x0200, 0x0300, 0x0500, 0x0005, 0x0081, 0x0042, 0x0800,
                                        0x05FF, 0x04FF, 0x01FF, 0x0600, 0x00FF]).to_bytes(2, "big")     # last ids of each H-LEN class too
    if kind in "FIE" and len(body) >= 1 and rng.chance(0.6):
        body[0] = rng.below(4)
    if kind in "CF" and lt == 0 and rng.chance(0.2):
        o = 2 if kind == "C" else 5              # the reserved all-zero 6-byte label (found unexercised for first fragments by a coverage survey)
        if len(body) >= o + 6:
            body[o:o + 6] = bytes(6)
    pkt = header(kind, lt, gl) + bytes(body)
    r = rng.below(10)
    if r < 3:
        pkt = pkt[:max(0, len(pkt) - rng.range(1, 3))]
    elif r < 6:
        pkt = pkt + rng.bytes(rng.range(1, 4))
    return pkt


def dec_prelude(rng, c, slots=None, maxpdu=None, mgr=None, nbuf=None):
    slots = rng.choice([1, 1, 2, 3, 4] * 5 + [255, 256, 257]) if slots is None else slots
    maxpdu = rng.choice([0, 4, 16, 64, 200]) if maxpdu is None else maxpdu
    mgr = rng.choice(["simple", "signal", MGR_ALL]) if mgr is None else mgr
    c.add("DNEW %d %d %s" % (slots, maxpdu, mgr))
    nbuf = rng.range(0, min(slots, 4) + 3) if nbuf is None else nbuf
    c.meta["sizes"] = []
    for k in range(nbuf):
        size = maxpdu + 7 * k + rng.range(0, 3) * 100 + (rng.range(1, 3) if rng.chance(0.1) and maxpdu > 3 else 0) * -1
        size = max(0, size)
        while size in c.meta["sizes"]:
            size += 1
        c.meta["sizes"].append(size)
        c.add("DPROV %d" % size)
    return slots, maxpdu


def valid_traffic(rng, maxpdu, fids=(0, 1, 2, 3, 5, 255)):
    """a list of packets: complete packets and fragment trains, with label re-use"""
    pkts = []
    last = None
    for _ in range(rng.range(1, 4)):
        label = rng.choice(LABELS)
        wire = label
        if last == label and label != "B" and rng.chance(0.7):
            wire = "R"
        pl = rng.range(0, max(1, min(maxpdu + 2, 60)))
        pdu = rng.bytes(pl)
        pt = rng.choice([0x0800, 0x86DD, 0xFFFF])
        if rng.chance(0.5):
            pkts.append(build_complete(pt, wire, pdu))
        else:
            k = rng.range(1, 3)
            sizes, left = [], pl
            for _ in range(k):
                s = rng.range(0, left)
                if s >= left and left > 0:
                    s = left - 1
                sizes.append(s)
                left -= s
            pkts.extend(fragment(pdu, rng.choice(fids), pt, label, sizes, wire_label=wire))
        last = None if label == "B" else label
    return pkts


def mutate(rng, pkt):
    b = bytearray(pkt)
    r = rng.below(6)
    if r == 0 and b:
        b[rng.below(len(b))] ^= 1 << rng.below(8)
    elif r == 1:
        b = b[:rng.below(len(b) + 1)]
    elif r == 2:
        b += rng.bytes(rng.range(1, 5))
    elif r == 3 and len(b) >= 2:
        w = int.from_bytes(b[:2], "big")
        w = (w & 0xF000) | ((w + rng.range(-2, 2)) & 0xFFF)
        b[:2] = w.to_bytes(2, "big")
    elif r == 4 and len(b) >= 2:
        b[0] = (b[0] & 0x0F) | (rng.below(16) << 4)
    elif r == 5 and len(b) > 3:
        i = rng.range(2, len(b) - 1)
        b[i] = rng.below(256)
    return bytes(b)


def fam_dec(rng, n):
    """DEC: valid traffic in order / interleaved / faulted, header-directed malformed packets, raw bytes,
    against receivers with few slots and small / large / no storage; state observed after every few calls"""
    out = []
    for i in range(n):
        c = Case("dec%d" % i)
        slots, maxpdu = dec_prelude(rng, c)
        stream = []
        mode = rng.below(10)
        for _ in range(rng.range(1, 3)):
            tr = valid_traffic(rng, max(maxpdu, 8))
            if mode < 3:
                stream.extend(tr)
            elif mode < 6:
                for p in tr:
                    q = rng.below(10)
                    if q < 6:
                        stream.append(p)
                    elif q < 7:
                        pass
                    elif q < 8:
                        stream.extend([p, p])
                    else:
                        stream.append(mutate(rng, p))
            else:
                stream.extend(tr)
                stream.insert(rng.below(len(stream) + 1), malformed_packet(rng))
        if mode == 9:
            stream = [rng.bytes(rng.range(0, 12)) for _ in range(rng.range(1, 6))] + stream
        if rng.chance(0.3):
            rng2 = rng.fork()
            stream.sort(key=lambda _: rng2.next())
        for k, p in enumerate(stream[:24]):
            q = rng.below(20)
            if q == 0:
                c.add("DRESET")
            elif q == 1:
                c.add("DPROVBACK")
            elif q == 2:
                c.add("DNEWPDU")
            elif q == 3:
                size = maxpdu + 50 + k
                c.add("DPROV %d" % size)
            c.add("DECAP %s" % hx(p))
            if rng.chance(0.25):
                c.add("PEEK %s" % hx(p))
            if rng.chance(0.2):
                c.add("DOBS")
        c.add("DOBS")
        out.append(c)
    return out


def fam_decbig(rng, n):
    """DEC with large storage: long trains, 16-bit length bookkeeping"""
    out = []
    for i in range(n):
        c = Case("decbig%d" % i)
        maxpdu = rng.choice([65535, 65536, 66000])
        c.add("DNEW 1 %d simple" % maxpdu, "DPROV %d" % (maxpdu + rng.range(0, 5)))
        total = rng.choice([2, 100, 65535, 65533])
        label = rng.choice([L6A, "B", L3A])
        c.add("DECAP %s" % hx(build_first(1, total, 0x0800, label, b"")))
        left = rng.choice([65530, 65536, 65535 - 2 - lab_len(label), 70000])
        while left > 0:
            k = min(left, 4094)
            c.add("DECAP %s" % hx(build_inter(1, bytes([0xAB]) * k)))
            left -= k
        c.add("DOBS")
        pdu = bytes([0xAB]) * rng.choice([65530, 65535 - 2 - lab_len(label)])
        crc = gse_crc(pdu, 0x0800, total, label_bytes(label))
        c.add("DECAP %s" % hx(build_end(1, b"", crc)), "DOBS")
        out.append(c)
    return out


def fam_sys(rng, n):
    """SYS: lock-step sender / receiver histories (every produced packet is fed to the receiver)"""
    out = []
    for i in range(n):
        c = Case("sys%d" % i)
        c.add("ENEW")
        maxpdu = 64
        c.add("DNEW %d %d %s" % (rng.choice([1, 2, 4]), maxpdu, MGR_ALL))
        for k in range(4):
            c.add("DPROV %d" % (maxpdu + k))
        for step in range(rng.range(3, 14)):
            r = rng.below(20)
            if r < 9:
                lab = rng.choice([L6A, L6A, L6B, L3A, "B", "R"])
                pl = rng.range(0, 40)
                bl = rng.choice([rng.range(0, 12), pl + 10 + lab_len(lab), 64, rng.range(8, 30)])
                pt = rng.choice([0x0800, 0x0800, 0x0100, 0xFFFF])
                if rng.chance(0.15):
                    lab = ZERO6
                if rng.chance(0.25):
                    ch = rand_chain(rng, maxn=2)
                    c.add("EEXT %s %d %d %s %d %d %s" % (pdu_tok(rng, pl), rng.below(4), pt, lab, bl + 10, rng.below(99), exts_tok(ch)))
                else:
                    c.add("ENCAP %s %d %d %s %d %d" % (pdu_tok(rng, pl), rng.below(4), pt, lab, bl, rng.below(99)))
                c.add("DECAPN -")
                c.add("DPROVBACK")
            elif r < 13:
                c.add("EFRAGC %d %d" % (rng.choice([3, 5, 8, 13, 20, 64]), rng.below(99)), "DECAPN -", "DPROVBACK")
            elif r < 15:
                c.add("ERESET", "DRESET")
            elif r < 16:
                c.add("EDIS")
            elif r < 17:
                c.add("EEN")
            elif r < 18:
                c.add("EENMAX %d" % rng.choice([1, 2, 3]))
            elif r < 19:
                c.add("DECAP 0000")  # padding at the receiver only (label memory cleared there)
            else:
                c.add("DOBS")
        c.add("DOBS")
        out.append(c)
    return out


def fam_mem(rng, n, exhaustive_depth=0):
    """MEM: operation sequences on SimpleGseMemory through d.memory (public field)"""
    out = []
    ctx = lambda f, pl=3: "%d,30,%d,0,%s,2048" % (f, pl, L6A)

    def ops_alphabet(slots):
        f, g = 1, 2
        return ["DPROV", "DNEWPDU", "MNEWFRAG %s" % ctx(f), "MNEWFRAG %s" % ctx(f + slots), "MNEWFRAG %s" % ctx(g),
                "MTAKE %d" % f, "MTAKE %d" % (f + slots), "MTAKE %d" % g, "MSAVE", "MSAVEC %s" % ctx(f, 5),
                "MSAVEC %s" % ctx(f + slots, 7), "DPROVBACK"]

    def emit(c, seq, maxpdu):
        k = 0
        for o in seq:
            if o == "DPROV":
                c.add("DPROV %d" % (maxpdu + k))
                k += 1
            else:
                c.add(o)
            c.add("DOBS")

    if exhaustive_depth:
        import itertools
        for slots in (1, 2):
            f = 1
            al = ["DPROV", "DNEWPDU", "MNEWFRAG %s" % ctx(f), "MNEWFRAG %s" % ctx(f + slots), "MTAKE %d" % f,
                  "MTAKE %d" % (f + slots), "MSAVE", "DPROVBACK"]
            idx = 0
            for seq in itertools.product(range(len(al)), repeat=exhaustive_depth):
                # start from a memory with one free buffer so that depth is spent on interesting prefixes
                c = Case("memx%d_%d" % (slots, idx))
                idx += 1
                c.add("DNEW %d 8 simple" % slots, "DPROV 100")
                emit(c, [al[j] for j in seq], 8)
                out.append(c)
    for slots in (255, 256, 257, 512):
        for rep in range(3):
            c = Case("memwide%d_%d" % (slots, rep))
            c.add("DNEW %d 8 simple" % slots)
            for k in range(4):
                c.add("DPROV %d" % (20 + k))
            ids = [0, 1, 254, 255, rng.below(256)]
            for _ in range(rng.range(4, 14)):
                f = rng.choice(ids)
                c.add(rng.choice(["MNEWFRAG %s" % ctx(f, rng.range(0, 8)), "MTAKE %d" % f, "MSAVE", "DNEWPDU", "DPROVBACK"]))
                if rng.chance(0.3):
                    c.add("DOBS")
            c.add("DOBS")
            out.append(c)
    for rep in range(2):
        # buffers of 65536 bytes and more, whose length modulo 65536 is below / at / above the configured size
        c = Case("membig_%d" % rep)
        maxpdu = rng.choice([8, 300, 4096])
        c.add("DNEW 2 %d simple" % maxpdu)
        for sz in rng.choice([[65536, 65536 + maxpdu - 1, 131072, 65536 + maxpdu, 65535], [131072 + maxpdu - 1, 65537, 65536, 70000, 65536]]):
            c.add("DPROV %d" % sz)
        c.add("DOBS", "DNEWPDU", "MNEWFRAG %s" % ctx(1), "MSAVE", "DOBS", "DPROVBACK", "DOBS")
        out.append(c)
    for i in range(n):
        c = Case("mem%d" % i)
        slots = rng.choice([0, 1, 2, 3, 4])
        maxpdu = rng.choice([0, 8, 8, 33])
        c.add("DNEW %d %d simple" % (slots, maxpdu))
        al = ops_alphabet(max(slots, 1)) + ["DPROV", "DPROV", "MTAKE %d" % rng.below(256), "DPROVSMALL"]
        seq = [rng.choice(al) for _ in range(rng.range(1, 40))]
        k = 0
        for o in seq:
            if o == "DPROV":
                c.add("DPROV %d" % (maxpdu + 10 + k))
                k += 1
            elif o == "DPROVSMALL":
                c.add("DPROV %d" % max(0, maxpdu - 1))
            else:
                c.add(o)
            if rng.chance(0.4):
                c.add("DOBS")
        c.add("DOBS")
        out.append(c)
    return out


def fam_hdr(rng, n):
    out = []
    c = Case("hdr_read_all")
    for a in range(0, 65536, 256):
        c.add("HREADR %d %d" % (a, a + 256))
    out.append(c)
    c = Case("hdr_gen_all")
    for k in "CFIE":
        for t in "63BR":
            for l in list(range(0, 4096, 1)):
                c.add("HGEN %s %s %d" % (k, t, l))
    out.append(c)
    c = Case("hdr_gen_u16")
    for _ in range(n):
        c.add("HGEN %s %s %d" % (rng.choice("CFIE"), rng.choice("63BR"), rng.range(4096, 65535)))
    out.append(c)
    return out


def fam_crc(rng, n):
    out = []
    c = Case("crc")
    for i in range(256):  # every table index at first / middle / last position
        for pos in (0, 3, 7):
            b = bytearray(8)
            b[pos] = i
            c.add("CRC %s %d %d %s" % (hx(bytes(b)), 0, 0, "-"))
    for _ in range(n):
        pl = rng.choice([0, 1, 2, rng.range(0, 64), rng.range(0, 2000)])
        lab = rng.choice(["-", "aabbcc", "010203040506", hx(rng.bytes(rng.range(0, 8)))])
        c.add("CRC %s %d %d %s" % (pdu_tok(rng, pl), rng.below(65536), rng.below(65536), lab))
    c.add("CRC g70000.5 2048 65535 010203040506")
    out.append(c)
    return out


def fam_ext(rng, n):
    out = []
    c = Case("ext_new")
    ids = list(range(0, 0x700, 1)) + [0x600, 0x601, 0x7FF, 0x800, 0xFFFF, 0x8100]
    for i in ids:
        for dl in ([0, 2, 4, 6, 8] if i % 16 else range(0, 11)):
            c.add("XNEW %04x %s" % (i, hx(bytes(range(dl)))))
    for _ in range(n):
        c.add("XNEW %04x %s" % (rng.below(65536), hx(rng.bytes(rng.range(0, 12)))))
    for i in list(range(0, 0x100)) + [0x100, 0x181, 0x8081]:
        c.add("XMGR signal %04x" % i, "XMGR simple %04x" % i)
    out.append(c)
    return out


def fam_pre(rng, n):
    out = []
    for i in range(n):
        c = Case("pre%d" % i)
        label = rng.choice(LABELS + ["R", ZERO6])
        pl = size_lattice(rng, big_ok=(i % 40 == 0))
        bl = buf_lattice(rng, pl, lab_len(label), big_ok=(i % 40 == 1))
        pt = rng.choice(PTYPES_OK + PTYPES_BAD)
        if i % 25 == 3:
            # around the 16-bit total length, with buffers on both sides of the first-fragment header size
            pl = 65535 - 2 - lab_len(label) + rng.range(-3, 4)
            bl = rng.choice([0, 5, 6 + lab_len(label), 7 + lab_len(label), 13, 4097, 70000])
        far = (i % 50 == 9)
        if far:
            pl = rng.choice([65536, 65537, 69631, 70000, rng.range(65536, 70000)])      # 65536 bytes and more behind the context
        p = pdu_tok(rng, pl)
        c.add("ENEW")
        if rng.chance(0.3):
            c.add("EDIS")
        c.add("PENCAP %s %d %s %d" % (p, pt, label, bl), "ENCAP %s 7 %d %s %d 1" % (p, pt, label, bl))
        lpf = rng.range(0, pl + 1) if not far else max(0, rng.choice([0, pl - 65536, pl - 65535, pl - 65537, rng.range(0, pl - 65536)]))
        rem = max(0, pl - lpf)
        bl2 = max(0, rng.choice([rng.range(0, 12), rem + 7 + rng.range(-3, 3), rem + 3 + rng.range(-2, 2), near(rng, 4097, 4098), rng.range(0, 5000)]))
        c.add("PFRAG %s 7 99 %d %d" % (p, min(lpf, 65535), bl2), "EFRAG %s 7 99 %d %d 1" % (p, min(lpf, 65535), bl2))
        out.append(c)
    return out


def fam_utl(rng, n):
    out = []
    for i in range(n):
        c = Case("utl%d" % i)
        label = rng.choice(LABELS + ["R", ZERO6])
        pdu = rng.bytes(rng.choice([0, 1, rng.range(0, 40), rng.range(0, 300)]))
        ll = lab_len(label)
        if i % 12 == 5:
            # GSE lengths with the top bits of the 12-bit field set, up to the limit (a seeded 11-bit mask went unnoticed)
            pdu = rng.bytes(max(0, rng.choice([2048, 3005, 4095 - 5 - ll, 4095 - 5 - ll - rng.range(0, 40), rng.range(2040, 4080)]) - ll))
        pt = rng.choice([0x0800, 0xFFFF, 0x0600, 0x86DD])
        fid = rng.below(256)
        # well-formed descriptions and a few with an inconsistent length / short buffer
        bad = rng.chance(0.15)
        slack = rng.range(0, 4)
        gl_c = 2 + ll + len(pdu) + (rng.range(1, 3) if bad else 0)
        c.add("UGEN C %d %d %s %s %d 3" % (gl_c, pt, label, hx(pdu), 2 + 2 + ll + len(pdu) + slack - (3 if bad and rng.chance(0.5) else 0)))
        c.add("UPARSE C %s" % hx(build_complete(pt, label, pdu) + rng.bytes(slack)))
        tot = rng.below(65536)
        c.add("UGEN F %d %d %d %d %s %s %d 3" % (5 + ll + len(pdu), fid, tot, pt, label, hx(pdu), 7 + ll + len(pdu) + slack))
        c.add("UPARSE F %s" % hx(build_first(fid, tot, pt, label, pdu) + rng.bytes(slack)))
        # what the decapsulator accepts: the same bytes (built independently) given to a receiver with room for the PDU
        if label not in ("R", ZERO6) and not bad:
            c.add("DNEW 1 %d simple" % len(pdu), "DPROV %d" % (len(pdu) + 1), "DPROV %d" % (len(pdu) + 2))
            c.add("DECAP %s" % hx(build_complete(pt, label, pdu)))
            tot2 = len(pdu) + rng.choice([1, 2, 2 + ll, 3 + ll, rng.range(1, 40)])
            c.add("DECAP %s" % hx(build_first(fid, min(tot2, 65535), pt, label, pdu)))
        c.add("UGEN I %d %d %s %d 3" % (1 + len(pdu), fid, hx(pdu), 3 + len(pdu) + slack))
        c.add("UPARSE I %s" % hx(build_inter(fid, pdu) + rng.bytes(slack)))
        crc = rng.below(1 << 32)
        c.add("UGEN E %d %d %s %d %d 3" % (5 + len(pdu), fid, hx(pdu), crc, 7 + len(pdu) + slack))
        c.add("UPARSE E %s" % hx(build_end(fid, pdu, crc) + rng.bytes(slack)))
        if rng.chance(0.2):
            c.add("UPARSE %s %s" % (rng.choice("CFIE"), hx(malformed_packet(rng))))
        if label not in ("R", ZERO6) and i % 3 == 0:
            # a consistent train of generated first / intermediate / end packets (payloads of 0, 1, 2.. bytes), given to a receiver
            pa, pb = rng.bytes(rng.choice([0, 1, 5, rng.range(0, 20)])), rng.bytes(rng.choice([1, 1, 2, 3, rng.range(1, 30)]))
            pb2 = rng.bytes(rng.choice([1, 2, rng.range(1, 9)])) if rng.chance(0.4) else b""
            pc = rng.bytes(rng.choice([0, 1, 2, 4, rng.range(0, 30)]))
            whole = pa + pb + pb2 + pc
            tot3 = 2 + ll + len(whole)
            c.add("DNEW %d %d simple" % (rng.choice([1, 2, 256]), len(whole)), "DPROV %d" % (len(whole) + rng.range(0, 2)))
            c.add("DECAP %s" % hx(build_first(fid, tot3, pt, label, pa)), "DECAP %s" % hx(build_inter(fid, pb)))
            if pb2:
                c.add("DECAP %s" % hx(build_inter(fid, pb2)))
            c.add("DECAP %s" % hx(build_end(fid, pc, gse_crc(whole, pt, tot3, label_bytes(label)))))
        # the same fields through the encapsulator
        c.add("ENEW", "ENCAP %s %d %d %s %d 3" % (hx(pdu), fid, pt, label if label != ZERO6 else L6A, 4 + ll + len(pdu)))
        out.append(c)
    return out


FAMILIES = {
    "HDR": lambda rng, t: fam_hdr(rng, 200 * t),
    "CRC": lambda rng, t: fam_crc(rng, 300 * t),
    "EXT": lambda rng, t: fam_ext(rng, 500 * t),
    "MEM": lambda rng, t: fam_mem(rng, 400 * t, exhaustive_depth=(4 if t == 1 else (5 if t < 24 else 6))),
    "ENC": lambda rng, t: fam_enc(rng, 1500 * t) + fam_encfrag(rng, 800 * t),
    "ENCX": lambda rng, t: fam_encx(rng, 1200 * t),
    "PRE": lambda rng, t: fam_pre(rng, 1200 * t),
    "DEC": lambda rng, t: fam_dec(rng, 1500 * t) + fam_decbig(rng, 2 * t),
    "SYS": lambda rng, t: fam_sys(rng, 1200 * t),
    "UTL": lambda rng, t: fam_utl(rng, 600 * t),
}
