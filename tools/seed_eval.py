#!/usr/bin/env python3
"""Evaluate one seeded change (mutation) against the checks.

  seed_eval.py <name> <property> <worktree> <patch.diff> <demo.rs> [--needs "..."]

 A. confirm, in the scratch worktree (never in /repo): with the patch every pre-existing test passes and the
    demonstration fails; without it the demonstration passes.
 B. detect: apply the patch to /repo, run all 20 quick checks (concurrently), undo the patch straight afterwards.
 C. record /verif/seeded/<name>/{patch.diff, demo.rs, meta.json}.
"""
import concurrent.futures
import json
import os
import re
import shutil
import subprocess
import sys
import time

ROOT = os.path.dirname(os.path.dirname(os.path.abspath(__file__)))
ENV = dict(os.environ, CARGO_NET_OFFLINE="true")


def sh(cmd, cwd=None, timeout=3000):
    p = subprocess.run(cmd, cwd=cwd, stdout=subprocess.PIPE, stderr=subprocess.STDOUT, env=ENV, timeout=timeout)
    return p.returncode, p.stdout.decode(errors="replace")


def test_summary(out):
    """-> {binary: (passed, failed)}"""
    res, cur = {}, None
    for line in out.split("\n"):
        m = re.search(r"Running (?:unittests )?(\S+)", line)
        if m:
            cur = m.group(1)
        m = re.search(r"Doc-tests (\S+)", line)
        if m:
            cur = "doc:" + m.group(1)
        m = re.search(r"test result: \w+\. (\d+) passed; (\d+) failed", line)
        if m and cur:
            res[cur] = (int(m.group(1)), int(m.group(2)))
    return res


def confirm(wt, patch, demo):
    info = {}
    sh(["git", "checkout", "--", "."], cwd=wt)
    demo_dst = os.path.join(wt, "tests", "mut_demo.rs")
    if os.path.exists(demo_dst):
        os.remove(demo_dst)
    rc, out = sh(["git", "apply", patch], cwd=wt)
    if rc != 0:
        return False, {"error": "patch does not apply: " + out[-300:]}
    shutil.copy(demo, demo_dst)
    rc, out = sh(["cargo", "test", "--offline", "--no-fail-fast"], cwd=wt)
    summ = test_summary(out)
    info["with_patch"] = {k: list(v) for k, v in summ.items()}
    demo_keys = [k for k in summ if "mut_demo" in k]
    others_fail = sum(v[1] for k, v in summ.items() if "mut_demo" not in k)
    others_pass = sum(v[0] for k, v in summ.items() if "mut_demo" not in k)
    demo_fail = sum(summ[k][1] for k in demo_keys)
    compiled = bool(summ) and "error: could not compile" not in out
    sh(["git", "checkout", "--", "src"], cwd=wt)
    rc2, out2 = sh(["cargo", "test", "--offline", "--test", "mut_demo"], cwd=wt)
    summ2 = test_summary(out2)
    info["without_patch_demo"] = {k: list(v) for k, v in summ2.items()}
    demo_ok_base = rc2 == 0 and all(v[1] == 0 for v in summ2.values()) and bool(summ2)
    os.remove(demo_dst)
    ok = compiled and others_fail == 0 and others_pass >= 276 and demo_fail > 0 and demo_ok_base
    info.update(compiled=compiled, existing_passed=others_pass, existing_failed=others_fail, demo_failed_with_patch=demo_fail,
                demo_passes_without_patch=demo_ok_base)
    return ok, info


def detect(patch):
    ids = [json.loads(l)["id"] for l in open(os.path.join(ROOT, "properties.jsonl"))]
    rc, out = sh(["git", "-C", "/repo", "status", "--porcelain"])
    if out.strip():
        raise SystemExit("/repo is not clean: " + out)
    rc, out = sh(["git", "-C", "/repo", "apply", patch])
    if rc != 0:
        raise SystemExit("patch does not apply to /repo: " + out)
    res = {}
    try:
        # the first check builds the harness against the changed tree; the others then run concurrently
        def one(pid):
            t0 = time.time()
            rc, out = sh([os.path.join(ROOT, "check"), pid], cwd=ROOT)
            vio = [l for l in out.split("\n") if l.startswith("VIOLATION")]
            what = ""
            for v in vio[:1]:
                m = re.search(r"replay=(\S+)", v)
                if m and os.path.exists(m.group(1)):
                    d = json.load(open(m.group(1)))
                    what = "%s: %s" % (d.get("kind"), str(d.get("what") or d.get("first_difference") or d.get("detail") or d.get("note"))[:300])
            return pid, {"rc": rc, "violation": bool(vio), "no_failing_input": any("no-failing-input-found" in v for v in vio),
                         "what": what, "wall_s": round(time.time() - t0, 1)}
        first = one(ids[0])
        res[first[0]] = first[1]
        with concurrent.futures.ThreadPoolExecutor(max_workers=14) as ex:
            for pid, r in ex.map(one, ids[1:]):
                res[pid] = r
    finally:
        sh(["git", "-C", "/repo", "checkout", "--", "."])
    rc, out = sh(["git", "-C", "/repo", "status", "--porcelain"])
    assert not out.strip(), out
    return res


def main():
    name, prop, wt, patch, demo = sys.argv[1:6]
    needs = sys.argv[sys.argv.index("--needs") + 1] if "--needs" in sys.argv else ""
    old_meta = os.path.join(ROOT, "seeded", name, "meta.json")
    if "--detect-only" in sys.argv and os.path.exists(old_meta):
        # re-run of step B only, for a change that was already confirmed in its scratch worktree (step A is kept from then)
        info = json.load(open(old_meta))["confirmed"]
        patch = os.path.join(ROOT, "seeded", name, "patch.diff")
        demo = os.path.join(ROOT, "seeded", name, "demo.rs")
        needs = needs or json.load(open(old_meta)).get("needs_to_manifest", "")
    else:
        ok, info = confirm(wt, patch, demo)
        print("confirm:", ok, json.dumps({k: v for k, v in info.items() if k not in ("with_patch", "without_patch_demo")}))
        if not ok:
            print(json.dumps(info, indent=1)[:3000])
            return 2
    res = detect(patch)
    caught = sorted(p for p, r in res.items() if r["violation"])
    with_input = sorted(p for p, r in res.items() if r["violation"] and not r["no_failing_input"])
    d = os.path.join(ROOT, "seeded", name)
    os.makedirs(d, exist_ok=True)
    if os.path.abspath(patch) != os.path.abspath(os.path.join(d, "patch.diff")):
        shutil.copy(patch, os.path.join(d, "patch.diff"))
        shutil.copy(demo, os.path.join(d, "demo.rs"))
    meta = {"name": name, "breaks_property": prop, "needs_to_manifest": needs,
            "base_commit": sh(["git", "-C", "/repo", "rev-parse", "HEAD"])[1].strip(),
            "confirmed": info,
            "what_was_run": ["scratch worktree: git apply patch.diff; cp demo.rs tests/mut_demo.rs; cargo test --offline --no-fail-fast (existing tests pass, demo fails); git checkout -- src; cargo test --offline --test mut_demo (passes)",
                             "git -C /repo apply patch.diff; ./check Cxx for all 20 properties; git -C /repo checkout -- ."],
            "caught_by": caught, "caught_with_failing_input": with_input, "target_check_catches": prop in caught,
            "checks": res}
    mp = os.path.join(d, "meta.json")
    if os.path.exists(mp):
        # a re-evaluation after the checks were strengthened: keep the earlier verdicts
        old = json.load(open(mp))
        meta["previous_runs"] = old.get("previous_runs", []) + [{k: old.get(k) for k in ("caught_by", "caught_with_failing_input", "target_check_catches")}]
    json.dump(meta, open(mp, "w"), indent=1)
    print("%s (target %s): caught by %s; with failing input: %s" % (name, prop, ",".join(caught) or "NONE", ",".join(with_input) or "none"))
    if prop in res:
        print("  target:", res[prop]["what"][:300])
    return 0


if __name__ == "__main__":
    sys.exit(main())
