
(** val negb : bool -> bool **)

let negb = function
| true -> false
| false -> true

type nat =
| O
| S of nat

type ('a, 'b) sum =
| Inl of 'a
| Inr of 'b

(** val fst : ('a1 * 'a2) -> 'a1 **)

let fst = function
| (x, _) -> x

(** val snd : ('a1 * 'a2) -> 'a2 **)

let snd = function
| (_, y) -> y

(** val length : 'a1 list -> nat **)

let rec length = function
| [] -> O
| _ :: l' -> S (length l')

(** val app : 'a1 list -> 'a1 list -> 'a1 list **)

let rec app l m =
  match l with
  | [] -> m
  | a :: l1 -> a :: (app l1 m)

type comparison =
| Eq
| Lt
| Gt

type positive =
| XI of positive
| XO of positive
| XH

type n =
| N0
| Npos of positive

module Pos =
 struct
  type mask =
  | IsNul
  | IsPos of positive
  | IsNeg
 end

module Coq_Pos =
 struct
  (** val succ : positive -> positive **)

  let rec succ = function
  | XI p -> XO (succ p)
  | XO p -> XI p
  | XH -> XO XH

  (** val add : positive -> positive -> positive **)

  let rec add x y =
    match x with
    | XI p ->
      (match y with
       | XI q -> XO (add_carry p q)
       | XO q -> XI (add p q)
       | XH -> XO (succ p))
    | XO p ->
      (match y with
       | XI q -> XI (add p q)
       | XO q -> XO (add p q)
       | XH -> XI p)
    | XH -> (match y with
             | XI q -> XO (succ q)
             | XO q -> XI q
             | XH -> XO XH)

  (** val add_carry : positive -> positive -> positive **)

  and add_carry x y =
    match x with
    | XI p ->
      (match y with
       | XI q -> XI (add_carry p q)
       | XO q -> XO (add_carry p q)
       | XH -> XI (succ p))
    | XO p ->
      (match y with
       | XI q -> XO (add_carry p q)
       | XO q -> XI (add p q)
       | XH -> XO (succ p))
    | XH ->
      (match y with
       | XI q -> XI (succ q)
       | XO q -> XO (succ q)
       | XH -> XI XH)

  (** val pred_double : positive -> positive **)

  let rec pred_double = function
  | XI p -> XI (XO p)
  | XO p -> XI (pred_double p)
  | XH -> XH

  (** val pred_N : positive -> n **)

  let pred_N = function
  | XI p -> Npos (XO p)
  | XO p -> Npos (pred_double p)
  | XH -> N0

  type mask = Pos.mask =
  | IsNul
  | IsPos of positive
  | IsNeg

  (** val succ_double_mask : mask -> mask **)

  let succ_double_mask = function
  | IsNul -> IsPos XH
  | IsPos p -> IsPos (XI p)
  | IsNeg -> IsNeg

  (** val double_mask : mask -> mask **)

  let double_mask = function
  | IsPos p -> IsPos (XO p)
  | x0 -> x0

  (** val double_pred_mask : positive -> mask **)

  let double_pred_mask = function
  | XI p -> IsPos (XO (XO p))
  | XO p -> IsPos (XO (pred_double p))
  | XH -> IsNul

  (** val sub_mask : positive -> positive -> mask **)

  let rec sub_mask x y =
    match x with
    | XI p ->
      (match y with
       | XI q -> double_mask (sub_mask p q)
       | XO q -> succ_double_mask (sub_mask p q)
       | XH -> IsPos (XO p))
    | XO p ->
      (match y with
       | XI q -> succ_double_mask (sub_mask_carry p q)
       | XO q -> double_mask (sub_mask p q)
       | XH -> IsPos (pred_double p))
    | XH -> (match y with
             | XH -> IsNul
             | _ -> IsNeg)

  (** val sub_mask_carry : positive -> positive -> mask **)

  and sub_mask_carry x y =
    match x with
    | XI p ->
      (match y with
       | XI q -> succ_double_mask (sub_mask_carry p q)
       | XO q -> double_mask (sub_mask p q)
       | XH -> IsPos (pred_double p))
    | XO p ->
      (match y with
       | XI q -> double_mask (sub_mask_carry p q)
       | XO q -> succ_double_mask (sub_mask_carry p q)
       | XH -> double_pred_mask p)
    | XH -> IsNeg

  (** val mul : positive -> positive -> positive **)

  let rec mul x y =
    match x with
    | XI p -> add y (XO (mul p y))
    | XO p -> XO (mul p y)
    | XH -> y

  (** val iter : ('a1 -> 'a1) -> 'a1 -> positive -> 'a1 **)

  let rec iter f x = function
  | XI n' -> f (iter f (iter f x n') n')
  | XO n' -> iter f (iter f x n') n'
  | XH -> f x

  (** val pow : positive -> positive -> positive **)

  let pow x =
    iter (mul x) XH

  (** val compare_cont : comparison -> positive -> positive -> comparison **)

  let rec compare_cont r x y =
    match x with
    | XI p ->
      (match y with
       | XI q -> compare_cont r p q
       | XO q -> compare_cont Gt p q
       | XH -> Gt)
    | XO p ->
      (match y with
       | XI q -> compare_cont Lt p q
       | XO q -> compare_cont r p q
       | XH -> Gt)
    | XH -> (match y with
             | XH -> r
             | _ -> Lt)

  (** val compare : positive -> positive -> comparison **)

  let compare =
    compare_cont Eq

  (** val eqb : positive -> positive -> bool **)

  let rec eqb p q =
    match p with
    | XI p0 -> (match q with
                | XI q0 -> eqb p0 q0
                | _ -> false)
    | XO p0 -> (match q with
                | XO q0 -> eqb p0 q0
                | _ -> false)
    | XH -> (match q with
             | XH -> true
             | _ -> false)

  (** val coq_Nsucc_double : n -> n **)

  let coq_Nsucc_double = function
  | N0 -> Npos XH
  | Npos p -> Npos (XI p)

  (** val coq_Ndouble : n -> n **)

  let coq_Ndouble = function
  | N0 -> N0
  | Npos p -> Npos (XO p)

  (** val coq_lor : positive -> positive -> positive **)

  let rec coq_lor p q =
    match p with
    | XI p0 ->
      (match q with
       | XI q0 -> XI (coq_lor p0 q0)
       | XO q0 -> XI (coq_lor p0 q0)
       | XH -> p)
    | XO p0 ->
      (match q with
       | XI q0 -> XI (coq_lor p0 q0)
       | XO q0 -> XO (coq_lor p0 q0)
       | XH -> XI p0)
    | XH -> (match q with
             | XO q0 -> XI q0
             | _ -> q)

  (** val coq_land : positive -> positive -> n **)

  let rec coq_land p q =
    match p with
    | XI p0 ->
      (match q with
       | XI q0 -> coq_Nsucc_double (coq_land p0 q0)
       | XO q0 -> coq_Ndouble (coq_land p0 q0)
       | XH -> Npos XH)
    | XO p0 ->
      (match q with
       | XI q0 -> coq_Ndouble (coq_land p0 q0)
       | XO q0 -> coq_Ndouble (coq_land p0 q0)
       | XH -> N0)
    | XH -> (match q with
             | XO _ -> N0
             | _ -> Npos XH)

  (** val coq_lxor : positive -> positive -> n **)

  let rec coq_lxor p q =
    match p with
    | XI p0 ->
      (match q with
       | XI q0 -> coq_Ndouble (coq_lxor p0 q0)
       | XO q0 -> coq_Nsucc_double (coq_lxor p0 q0)
       | XH -> Npos (XO p0))
    | XO p0 ->
      (match q with
       | XI q0 -> coq_Nsucc_double (coq_lxor p0 q0)
       | XO q0 -> coq_Ndouble (coq_lxor p0 q0)
       | XH -> Npos (XI p0))
    | XH ->
      (match q with
       | XI q0 -> Npos (XO q0)
       | XO q0 -> Npos (XI q0)
       | XH -> N0)

  (** val shiftl : positive -> n -> positive **)

  let shiftl p = function
  | N0 -> p
  | Npos n1 -> iter (fun x -> XO x) p n1

  (** val peano_rect : 'a1 -> (positive -> 'a1 -> 'a1) -> positive -> 'a1 **)

  let rec peano_rect a f p =
    let f2 = peano_rect (f XH a) (fun p0 x -> f (succ (XO p0)) (f (XO p0) x))
    in
    (match p with
     | XI q -> f (XO q) (f2 q)
     | XO q -> f2 q
     | XH -> a)
 end

module N =
 struct
  (** val succ_double : n -> n **)

  let succ_double = function
  | N0 -> Npos XH
  | Npos p -> Npos (XI p)

  (** val double : n -> n **)

  let double = function
  | N0 -> N0
  | Npos p -> Npos (XO p)

  (** val succ : n -> n **)

  let succ = function
  | N0 -> Npos XH
  | Npos p -> Npos (Coq_Pos.succ p)

  (** val pred : n -> n **)

  let pred = function
  | N0 -> N0
  | Npos p -> Coq_Pos.pred_N p

  (** val add : n -> n -> n **)

  let add n0 m =
    match n0 with
    | N0 -> m
    | Npos p -> (match m with
                 | N0 -> n0
                 | Npos q -> Npos (Coq_Pos.add p q))

  (** val sub : n -> n -> n **)

  let sub n0 m =
    match n0 with
    | N0 -> N0
    | Npos n' ->
      (match m with
       | N0 -> n0
       | Npos m' ->
         (match Coq_Pos.sub_mask n' m' with
          | Coq_Pos.IsPos p -> Npos p
          | _ -> N0))

  (** val mul : n -> n -> n **)

  let mul n0 m =
    match n0 with
    | N0 -> N0
    | Npos p -> (match m with
                 | N0 -> N0
                 | Npos q -> Npos (Coq_Pos.mul p q))

  (** val compare : n -> n -> comparison **)

  let compare n0 m =
    match n0 with
    | N0 -> (match m with
             | N0 -> Eq
             | Npos _ -> Lt)
    | Npos n' -> (match m with
                  | N0 -> Gt
                  | Npos m' -> Coq_Pos.compare n' m')

  (** val eqb : n -> n -> bool **)

  let eqb n0 m =
    match n0 with
    | N0 -> (match m with
             | N0 -> true
             | Npos _ -> false)
    | Npos p -> (match m with
                 | N0 -> false
                 | Npos q -> Coq_Pos.eqb p q)

  (** val leb : n -> n -> bool **)

  let leb x y =
    match compare x y with
    | Gt -> false
    | _ -> true

  (** val ltb : n -> n -> bool **)

  let ltb x y =
    match compare x y with
    | Lt -> true
    | _ -> false

  (** val min : n -> n -> n **)

  let min n0 n' =
    match compare n0 n' with
    | Gt -> n'
    | _ -> n0

  (** val div2 : n -> n **)

  let div2 = function
  | N0 -> N0
  | Npos p0 -> (match p0 with
                | XI p -> Npos p
                | XO p -> Npos p
                | XH -> N0)

  (** val pow : n -> n -> n **)

  let pow n0 = function
  | N0 -> Npos XH
  | Npos p0 -> (match n0 with
                | N0 -> N0
                | Npos q -> Npos (Coq_Pos.pow q p0))

  (** val pos_div_eucl : positive -> n -> n * n **)

  let rec pos_div_eucl a b =
    match a with
    | XI a' ->
      let (q, r) = pos_div_eucl a' b in
      let r' = succ_double r in
      if leb b r' then ((succ_double q), (sub r' b)) else ((double q), r')
    | XO a' ->
      let (q, r) = pos_div_eucl a' b in
      let r' = double r in
      if leb b r' then ((succ_double q), (sub r' b)) else ((double q), r')
    | XH ->
      (match b with
       | N0 -> (N0, (Npos XH))
       | Npos p -> (match p with
                    | XH -> ((Npos XH), N0)
                    | _ -> (N0, (Npos XH))))

  (** val div_eucl : n -> n -> n * n **)

  let div_eucl a b =
    match a with
    | N0 -> (N0, N0)
    | Npos na -> (match b with
                  | N0 -> (N0, a)
                  | Npos _ -> pos_div_eucl na b)

  (** val div : n -> n -> n **)

  let div a b =
    fst (div_eucl a b)

  (** val modulo : n -> n -> n **)

  let modulo a b =
    snd (div_eucl a b)

  (** val coq_lor : n -> n -> n **)

  let coq_lor n0 m =
    match n0 with
    | N0 -> m
    | Npos p -> (match m with
                 | N0 -> n0
                 | Npos q -> Npos (Coq_Pos.coq_lor p q))

  (** val coq_land : n -> n -> n **)

  let coq_land n0 m =
    match n0 with
    | N0 -> N0
    | Npos p -> (match m with
                 | N0 -> N0
                 | Npos q -> Coq_Pos.coq_land p q)

  (** val coq_lxor : n -> n -> n **)

  let coq_lxor n0 m =
    match n0 with
    | N0 -> m
    | Npos p -> (match m with
                 | N0 -> n0
                 | Npos q -> Coq_Pos.coq_lxor p q)

  (** val shiftl : n -> n -> n **)

  let shiftl a n0 =
    match a with
    | N0 -> N0
    | Npos a0 -> Npos (Coq_Pos.shiftl a0 n0)

  (** val shiftr : n -> n -> n **)

  let shiftr a = function
  | N0 -> a
  | Npos p -> Coq_Pos.iter div2 a p

  (** val peano_rect : 'a1 -> (n -> 'a1 -> 'a1) -> n -> 'a1 **)

  let peano_rect f0 f n0 =
    let f' = fun p -> f (Npos p) in
    (match n0 with
     | N0 -> f0
     | Npos p -> Coq_Pos.peano_rect (f N0 f0) f' p)

  (** val recursion : 'a1 -> (n -> 'a1 -> 'a1) -> n -> 'a1 **)

  let recursion =
    peano_rect
 end

type byte = n

type 'a res =
| Ret of 'a
| Panic

(** val bind : 'a1 res -> ('a1 -> 'a2 res) -> 'a2 res **)

let bind m f =
  match m with
  | Ret a -> f a
  | Panic -> Panic

(** val lenN_ : 'a1 list -> n -> n **)

let rec lenN_ l acc =
  match l with
  | [] -> acc
  | _ :: t -> lenN_ t (N.succ acc)

(** val lenN : 'a1 list -> n **)

let lenN l =
  lenN_ l N0

(** val takeN : n -> 'a1 list -> 'a1 list **)

let rec takeN n0 = function
| [] -> []
| x :: t -> if N.eqb n0 N0 then [] else x :: (takeN (N.pred n0) t)

(** val dropN : n -> 'a1 list -> 'a1 list **)

let rec dropN n0 l = match l with
| [] -> []
| _ :: t -> if N.eqb n0 N0 then l else dropN (N.pred n0) t

(** val nthN : n -> 'a1 list -> 'a1 option **)

let rec nthN n0 = function
| [] -> None
| x :: t -> if N.eqb n0 N0 then Some x else nthN (N.pred n0) t

(** val bytes_eqb : byte list -> byte list -> bool **)

let rec bytes_eqb a b =
  match a with
  | [] -> (match b with
           | [] -> true
           | _ :: _ -> false)
  | x :: a' ->
    (match b with
     | [] -> false
     | y :: b' -> (&&) (N.eqb x y) (bytes_eqb a' b'))

(** val subN : n -> n -> n res **)

let subN a b =
  if N.leb b a then Ret (N.sub a b) else Panic

(** val add_chk : n -> n -> n -> n res **)

let add_chk w a b =
  if N.ltb (N.add a b) (N.pow (Npos (XO XH)) w)
  then Ret (N.add a b)
  else Panic

(** val u16 : n -> n **)

let u16 x =
  N.modulo x (Npos (XO (XO (XO (XO (XO (XO (XO (XO (XO (XO (XO (XO (XO (XO
    (XO (XO XH)))))))))))))))))

(** val slice : byte list -> n -> n -> byte list res **)

let slice buf a b =
  if (&&) (N.leb a b) (N.leb b (lenN buf))
  then Ret (takeN (N.sub b a) (dropN a buf))
  else Panic

(** val write : byte list -> n -> byte list -> byte list res **)

let write buf off src =
  if N.leb (N.add off (lenN src)) (lenN buf)
  then Ret (app (takeN off buf) (app src (dropN (N.add off (lenN src)) buf)))
  else Panic

(** val idx : byte list -> n -> byte res **)

let idx buf i =
  match nthN i buf with
  | Some b -> Ret b
  | None -> Panic

(** val set_idx : byte list -> n -> byte -> byte list res **)

let set_idx buf i v =
  write buf i (v :: [])

(** val be16 : n -> byte list **)

let be16 x =
  (N.modulo (N.div x (Npos (XO (XO (XO (XO (XO (XO (XO (XO XH)))))))))) (Npos
    (XO (XO (XO (XO (XO (XO (XO (XO XH)))))))))) :: ((N.modulo x (Npos (XO
                                                       (XO (XO (XO (XO (XO
                                                       (XO (XO XH)))))))))) :: [])

(** val be32 : n -> byte list **)

let be32 x =
  (N.modulo
    (N.div x (Npos (XO (XO (XO (XO (XO (XO (XO (XO (XO (XO (XO (XO (XO (XO
      (XO (XO (XO (XO (XO (XO (XO (XO (XO (XO XH))))))))))))))))))))))))))
    (Npos (XO (XO (XO (XO (XO (XO (XO (XO XH)))))))))) :: ((N.modulo
                                                             (N.div x (Npos
                                                               (XO (XO (XO
                                                               (XO (XO (XO
                                                               (XO (XO (XO
                                                               (XO (XO (XO
                                                               (XO (XO (XO
                                                               (XO
                                                               XH))))))))))))))))))
                                                             (Npos (XO (XO
                                                             (XO (XO (XO (XO
                                                             (XO (XO
                                                             XH)))))))))) :: (
    (N.modulo (N.div x (Npos (XO (XO (XO (XO (XO (XO (XO (XO XH))))))))))
      (Npos (XO (XO (XO (XO (XO (XO (XO (XO XH)))))))))) :: ((N.modulo x
                                                               (Npos (XO (XO
                                                               (XO (XO (XO
                                                               (XO (XO (XO
                                                               XH)))))))))) :: [])))

(** val rd16 : byte list -> n **)

let rd16 = function
| [] -> N0
| a :: l0 ->
  (match l0 with
   | [] -> N0
   | b :: l1 ->
     (match l1 with
      | [] ->
        N.add (N.mul a (Npos (XO (XO (XO (XO (XO (XO (XO (XO XH)))))))))) b
      | _ :: _ -> N0))

(** val rd32 : byte list -> n **)

let rd32 = function
| [] -> N0
| a :: l0 ->
  (match l0 with
   | [] -> N0
   | b :: l1 ->
     (match l1 with
      | [] -> N0
      | c :: l2 ->
        (match l2 with
         | [] -> N0
         | d :: l3 ->
           (match l3 with
            | [] ->
              N.add
                (N.mul
                  (N.add
                    (N.mul
                      (N.add
                        (N.mul a (Npos (XO (XO (XO (XO (XO (XO (XO (XO
                          XH)))))))))) b) (Npos (XO (XO (XO (XO (XO (XO (XO
                      (XO XH)))))))))) c) (Npos (XO (XO (XO (XO (XO (XO (XO
                  (XO XH)))))))))) d
            | _ :: _ -> N0))))

(** val zeros : n -> byte list **)

let zeros n0 =
  N.recursion [] (fun _ l -> N0 :: l) n0

(** val cOMPLETE_PKT : n **)

let cOMPLETE_PKT =
  Npos (XO (XO (XO (XO (XO (XO (XO (XO (XO (XO (XO (XO (XO (XO (XI
    XH)))))))))))))))

(** val fIRST_PKT : n **)

let fIRST_PKT =
  Npos (XO (XO (XO (XO (XO (XO (XO (XO (XO (XO (XO (XO (XO (XO (XO
    XH)))))))))))))))

(** val iNTERMEDIATE_PKT : n **)

let iNTERMEDIATE_PKT =
  N0

(** val eND_PKT : n **)

let eND_PKT =
  Npos (XO (XO (XO (XO (XO (XO (XO (XO (XO (XO (XO (XO (XO (XO
    XH))))))))))))))

(** val sTART_END_MASK : n **)

let sTART_END_MASK =
  Npos (XO (XO (XO (XO (XO (XO (XO (XO (XO (XO (XO (XO (XO (XO (XI
    XH)))))))))))))))

(** val lABEL_6_B : n **)

let lABEL_6_B =
  N0

(** val lABEL_3_B : n **)

let lABEL_3_B =
  Npos (XO (XO (XO (XO (XO (XO (XO (XO (XO (XO (XO (XO XH))))))))))))

(** val lABEL_BROADCAST : n **)

let lABEL_BROADCAST =
  Npos (XO (XO (XO (XO (XO (XO (XO (XO (XO (XO (XO (XO (XO XH)))))))))))))

(** val lABEL_REUSE : n **)

let lABEL_REUSE =
  Npos (XO (XO (XO (XO (XO (XO (XO (XO (XO (XO (XO (XO (XI XH)))))))))))))

(** val lABEL_TYPE_MASK : n **)

let lABEL_TYPE_MASK =
  Npos (XO (XO (XO (XO (XO (XO (XO (XO (XO (XO (XO (XO (XI XH)))))))))))))

(** val lABEL_6_B_LEN : n **)

let lABEL_6_B_LEN =
  Npos (XO (XI XH))

(** val lABEL_3_B_LEN : n **)

let lABEL_3_B_LEN =
  Npos (XI XH)

(** val lABEL_BROADCAST_LEN : n **)

let lABEL_BROADCAST_LEN =
  N0

(** val lABEL_REUSE_LEN : n **)

let lABEL_REUSE_LEN =
  N0

(** val fIXED_HEADER_LEN : n **)

let fIXED_HEADER_LEN =
  Npos (XO XH)

(** val pROTOCOL_LEN : n **)

let pROTOCOL_LEN =
  Npos (XO XH)

(** val fRAG_ID_LEN : n **)

let fRAG_ID_LEN =
  Npos XH

(** val tOTAL_LENGTH_LEN : n **)

let tOTAL_LENGTH_LEN =
  Npos (XO XH)

(** val fIRST_FRAG_LEN : n **)

let fIRST_FRAG_LEN =
  N.add (N.add (N.add fIXED_HEADER_LEN fRAG_ID_LEN) tOTAL_LENGTH_LEN)
    pROTOCOL_LEN

(** val gSE_LEN_MAX : n **)

let gSE_LEN_MAX =
  Npos (XI (XI (XI (XI (XI (XI (XI (XI (XI (XI (XI XH)))))))))))

(** val gSE_LEN_MASK : n **)

let gSE_LEN_MASK =
  Npos (XI (XI (XI (XI (XI (XI (XI (XI (XI (XI (XI XH)))))))))))

(** val tOTAL_LEN_MAX : n **)

let tOTAL_LEN_MAX =
  Npos (XI (XI (XI (XI (XI (XI (XI (XI (XI (XI (XI (XI (XI (XI (XI
    XH)))))))))))))))

(** val cRC_LEN : n **)

let cRC_LEN =
  Npos (XO (XO XH))

(** val cRC_INIT : n **)

let cRC_INIT =
  Npos (XI (XI (XI (XI (XI (XI (XI (XI (XI (XI (XI (XI (XI (XI (XI (XI (XI
    (XI (XI (XI (XI (XI (XI (XI (XI (XI (XI (XI (XI (XI (XI
    XH)))))))))))))))))))))))))))))))

(** val sECOND_RANGE_PTYPE : n **)

let sECOND_RANGE_PTYPE =
  Npos (XO (XO (XO (XO (XO (XO (XO (XO (XO (XI XH))))))))))

(** val mAX_MANDATORY_VAL_PTYPE : n **)

let mAX_MANDATORY_VAL_PTYPE =
  Npos (XO (XO (XO (XO (XO (XO (XO (XO XH))))))))

(** val nCR_PROTOCOL_ID : n **)

let nCR_PROTOCOL_ID =
  Npos (XI (XO (XO (XO (XO (XO (XO XH)))))))

(** val iNTERNAL_SIGNALING_PROTOCOL_ID : n **)

let iNTERNAL_SIGNALING_PROTOCOL_ID =
  Npos (XO (XI (XO (XO (XO (XO (XO XH)))))))

(** val h_LEN_MASK : n **)

let h_LEN_MASK =
  N.shiftl (Npos (XI (XI XH))) (Npos (XO (XO (XO XH))))

type kind =
| KComplete
| KFirst
| KInter
| KEnd

type ltype =
| T6
| T3
| TB
| TR

type label =
| L6 of byte list
| L3 of byte list
| LBroadcast
| LReUse

(** val kind_eqb : kind -> kind -> bool **)

let kind_eqb a b =
  match a with
  | KComplete -> (match b with
                  | KComplete -> true
                  | _ -> false)
  | KFirst -> (match b with
               | KFirst -> true
               | _ -> false)
  | KInter -> (match b with
               | KInter -> true
               | _ -> false)
  | KEnd -> (match b with
             | KEnd -> true
             | _ -> false)

(** val ltype_eqb : ltype -> ltype -> bool **)

let ltype_eqb a b =
  match a with
  | T6 -> (match b with
           | T6 -> true
           | _ -> false)
  | T3 -> (match b with
           | T3 -> true
           | _ -> false)
  | TB -> (match b with
           | TB -> true
           | _ -> false)
  | TR -> (match b with
           | TR -> true
           | _ -> false)

(** val ltype_len : ltype -> n **)

let ltype_len = function
| T6 -> lABEL_6_B_LEN
| T3 -> lABEL_3_B_LEN
| TB -> lABEL_BROADCAST_LEN
| TR -> lABEL_REUSE_LEN

(** val label_type : label -> ltype **)

let label_type = function
| L6 _ -> T6
| L3 _ -> T3
| LBroadcast -> TB
| LReUse -> TR

(** val label_len : label -> n **)

let label_len = function
| L6 _ -> lABEL_6_B_LEN
| L3 _ -> lABEL_3_B_LEN
| LBroadcast -> lABEL_BROADCAST_LEN
| LReUse -> lABEL_REUSE_LEN

(** val label_bytes : label -> byte list **)

let label_bytes = function
| L6 b -> b
| L3 b -> b
| _ -> []

(** val label_new : ltype -> byte list -> label res **)

let label_new t b =
  if N.eqb (lenN b) (ltype_len t)
  then Ret
         (match t with
          | T6 -> L6 b
          | T3 -> L3 b
          | TB -> LBroadcast
          | TR -> LReUse)
  else Panic

(** val label_eqb : label -> label -> bool **)

let label_eqb a b =
  match a with
  | L6 x -> (match b with
             | L6 y -> bytes_eqb x y
             | _ -> false)
  | L3 x -> (match b with
             | L3 y -> bytes_eqb x y
             | _ -> false)
  | LBroadcast -> (match b with
                   | LBroadcast -> true
                   | _ -> false)
  | LReUse -> (match b with
               | LReUse -> true
               | _ -> false)

(** val is_zero6 : label -> bool **)

let is_zero6 l =
  label_eqb l (L6 (N0 :: (N0 :: (N0 :: (N0 :: (N0 :: (N0 :: [])))))))

(** val kind_bits : kind -> n **)

let kind_bits = function
| KComplete -> cOMPLETE_PKT
| KFirst -> fIRST_PKT
| KInter -> iNTERMEDIATE_PKT
| KEnd -> eND_PKT

(** val ltype_bits : ltype -> n **)

let ltype_bits = function
| T6 -> lABEL_6_B
| T3 -> lABEL_3_B
| TB -> lABEL_BROADCAST
| TR -> lABEL_REUSE

(** val gen_hdr : kind -> ltype -> n -> n **)

let gen_hdr k t gse_len =
  N.coq_lor
    (N.coq_lor (N.coq_land (kind_bits k) sTART_END_MASK)
      (N.coq_land (ltype_bits t) lABEL_TYPE_MASK))
    (N.coq_land gse_len gSE_LEN_MASK)

(** val read_hdr : n -> ((n * kind) * ltype) option res **)

let read_hdr w =
  let se = N.coq_land w sTART_END_MASK in
  bind
    (if N.eqb se cOMPLETE_PKT
     then Ret KComplete
     else if N.eqb se fIRST_PKT
          then Ret KFirst
          else if N.eqb se eND_PKT
               then Ret KEnd
               else if N.eqb se iNTERMEDIATE_PKT then Ret KInter else Panic)
    (fun k ->
    let lt = N.coq_land w lABEL_TYPE_MASK in
    bind
      (if N.eqb lt lABEL_6_B
       then Ret T6
       else if N.eqb lt lABEL_3_B
            then Ret T3
            else if N.eqb lt lABEL_BROADCAST
                 then Ret TB
                 else if N.eqb lt lABEL_REUSE then Ret TR else Panic)
      (fun t ->
      match k with
      | KInter ->
        (match t with
         | T6 -> Ret None
         | _ -> Ret (Some (((N.coq_land w gSE_LEN_MASK), k), t)))
      | _ -> Ret (Some (((N.coq_land w gSE_LEN_MASK), k), t))))

(** val cRC_TAB : n list **)

let cRC_TAB =
  N0 :: ((Npos (XI (XI (XI (XO (XI (XI (XO (XI (XI (XO (XI (XI (XI (XO (XO
    (XO (XI (XO (XO (XO (XO (XO (XI (XI (XO (XO
    XH))))))))))))))))))))))))))) :: ((Npos (XO (XI (XI (XI (XO (XI (XI (XO
    (XI (XI (XO (XI (XI (XI (XO (XO (XO (XI (XO (XO (XO (XO (XO (XI (XI (XO
    (XO XH)))))))))))))))))))))))))))) :: ((Npos (XI (XO (XO (XI (XI (XO (XI
    (XI (XO (XI (XI (XO (XO (XI (XO (XO (XI (XI (XO (XO (XO (XO (XI (XO (XI
    (XO (XI XH)))))))))))))))))))))))))))) :: ((Npos (XO (XO (XI (XI (XI (XO
    (XI (XI (XO (XI (XI (XO (XI (XI (XI (XO (XO (XO (XI (XO (XO (XO (XO (XO
    (XI (XI (XO (XO XH))))))))))))))))))))))))))))) :: ((Npos (XI (XI (XO (XI
    (XO (XI (XI (XO (XI (XI (XO (XI (XO (XI (XI (XO (XI (XO (XI (XO (XO (XO
    (XI (XI (XI (XI (XI (XO XH))))))))))))))))))))))))))))) :: ((Npos (XO (XI
    (XO (XO (XI (XI (XO (XI (XI (XO (XI (XI (XO (XO (XI (XO (XO (XI (XI (XO
    (XO (XO (XO (XI (XO (XI (XO (XI XH))))))))))))))))))))))))))))) :: ((Npos
    (XI (XO (XI (XO (XO (XO (XO (XO (XO (XO (XO (XO (XI (XO (XI (XO (XI (XI
    (XI (XO (XO (XO (XI (XO (XO (XI (XI (XI
    XH))))))))))))))))))))))))))))) :: ((Npos (XO (XO (XO (XI (XI (XI (XO (XI
    (XI (XO (XI (XI (XO (XI (XI (XI (XO (XO (XO (XI (XO (XO (XO (XO (XO (XI
    (XI (XO (XO XH)))))))))))))))))))))))))))))) :: ((Npos (XI (XI (XI (XI
    (XO (XO (XO (XO (XO (XO (XO (XO (XI (XI (XI (XI (XI (XO (XO (XI (XO (XO
    (XI (XI (XO (XI (XO (XO (XO XH)))))))))))))))))))))))))))))) :: ((Npos
    (XO (XI (XI (XO (XI (XO (XI (XI (XO (XI (XI (XO (XI (XO (XI (XI (XO (XI
    (XO (XI (XO (XO (XO (XI (XI (XI (XI (XI (XO
    XH)))))))))))))))))))))))))))))) :: ((Npos (XI (XO (XO (XO (XO (XI (XI
    (XO (XI (XI (XO (XI (XO (XO (XI (XI (XI (XI (XO (XI (XO (XO (XI (XO (XI
    (XI (XO (XI (XO XH)))))))))))))))))))))))))))))) :: ((Npos (XO (XO (XI
    (XO (XO (XI (XI (XO (XI (XI (XO (XI (XI (XO (XO (XI (XO (XO (XI (XI (XO
    (XO (XO (XO (XI (XO (XI (XO (XI
    XH)))))))))))))))))))))))))))))) :: ((Npos (XI (XI (XO (XO (XI (XO (XI
    (XI (XO (XI (XI (XO (XO (XO (XO (XI (XI (XO (XI (XI (XO (XO (XI (XI (XI
    (XO (XO (XO (XI XH)))))))))))))))))))))))))))))) :: ((Npos (XO (XI (XO
    (XI (XO (XO (XO (XO (XO (XO (XO (XO (XO (XI (XO (XI (XO (XI (XI (XI (XO
    (XO (XO (XI (XO (XO (XI (XI (XI
    XH)))))))))))))))))))))))))))))) :: ((Npos (XI (XO (XI (XI (XI (XI (XO
    (XI (XI (XO (XI (XI (XI (XI (XO (XI (XI (XI (XI (XI (XO (XO (XI (XO (XO
    (XO (XO (XI (XI XH)))))))))))))))))))))))))))))) :: ((Npos (XO (XO (XO
    (XO (XI (XI (XI (XO (XI (XI (XO (XI (XI (XO (XI (XI (XI (XO (XO (XO (XI
    (XO (XO (XO (XO (XO (XI (XI (XO (XO
    XH))))))))))))))))))))))))))))))) :: ((Npos (XI (XI (XI (XO (XO (XO (XI
    (XI (XO (XI (XI (XO (XO (XO (XI (XI (XO (XO (XO (XO (XI (XO (XI (XI (XO
    (XO (XO (XI (XO (XO XH))))))))))))))))))))))))))))))) :: ((Npos (XO (XI
    (XI (XI (XI (XO (XO (XO (XO (XO (XO (XO (XO (XI (XI (XI (XI (XI (XO (XO
    (XI (XO (XO (XI (XI (XO (XI (XO (XO (XO
    XH))))))))))))))))))))))))))))))) :: ((Npos (XI (XO (XO (XI (XO (XI (XO
    (XI (XI (XO (XI (XI (XI (XI (XI (XI (XO (XI (XO (XO (XI (XO (XI (XO (XI
    (XO (XO (XO (XO (XO XH))))))))))))))))))))))))))))))) :: ((Npos (XO (XO
    (XI (XI (XO (XI (XO (XI (XI (XO (XI (XI (XO (XI (XO (XI (XI (XO (XI (XO
    (XI (XO (XO (XO (XI (XI (XI (XI (XI (XO
    XH))))))))))))))))))))))))))))))) :: ((Npos (XI (XI (XO (XI (XI (XO (XO
    (XO (XO (XO (XO (XO (XI (XI (XO (XI (XO (XO (XI (XO (XI (XO (XI (XI (XI
    (XI (XO (XI (XI (XO XH))))))))))))))))))))))))))))))) :: ((Npos (XO (XI
    (XO (XO (XO (XO (XI (XI (XO (XI (XI (XO (XI (XO (XO (XI (XI (XI (XI (XO
    (XI (XO (XO (XI (XO (XI (XI (XO (XI (XO
    XH))))))))))))))))))))))))))))))) :: ((Npos (XI (XO (XI (XO (XI (XI (XI
    (XO (XI (XI (XO (XI (XO (XO (XO (XI (XO (XI (XI (XO (XI (XO (XI (XO (XO
    (XI (XO (XO (XI (XO XH))))))))))))))))))))))))))))))) :: ((Npos (XO (XO
    (XO (XI (XO (XO (XI (XI (XO (XI (XI (XO (XI (XI (XO (XO (XI (XO (XO (XI
    (XI (XO (XO (XO (XO (XI (XO (XI (XO (XI
    XH))))))))))))))))))))))))))))))) :: ((Npos (XI (XI (XI (XI (XI (XI (XI
    (XO (XI (XI (XO (XI (XO (XI (XO (XO (XO (XO (XO (XI (XI (XO (XI (XI (XO
    (XI (XI (XI (XO (XI XH))))))))))))))))))))))))))))))) :: ((Npos (XO (XI
    (XI (XO (XO (XI (XO (XI (XI (XO (XI (XI (XO (XO (XO (XO (XI (XI (XO (XI
    (XI (XO (XO (XI (XI (XI (XO (XO (XO (XI
    XH))))))))))))))))))))))))))))))) :: ((Npos (XI (XO (XO (XO (XI (XO (XO
    (XO (XO (XO (XO (XO (XI (XO (XO (XO (XO (XI (XO (XI (XI (XO (XI (XO (XI
    (XI (XI (XO (XO (XI XH))))))))))))))))))))))))))))))) :: ((Npos (XO (XO
    (XI (XO (XI (XO (XO (XO (XO (XO (XO (XO (XO (XO (XI (XO (XI (XO (XI (XI
    (XI (XO (XO (XO (XI (XO (XO (XI (XI (XI
    XH))))))))))))))))))))))))))))))) :: ((Npos (XI (XI (XO (XO (XO (XI (XO
    (XI (XI (XO (XI (XI (XI (XO (XI (XO (XO (XO (XI (XI (XI (XO (XI (XI (XI
    (XO (XI (XI (XI (XI XH))))))))))))))))))))))))))))))) :: ((Npos (XO (XI
    (XO (XI (XI (XI (XI (XO (XI (XI (XO (XI (XI (XI (XI (XO (XI (XI (XI (XI
    (XI (XO (XO (XI (XO (XO (XO (XO (XI (XI
    XH))))))))))))))))))))))))))))))) :: ((Npos (XI (XO (XI (XI (XO (XO (XI
    (XI (XO (XI (XI (XO (XO (XI (XI (XO (XO (XI (XI (XI (XI (XO (XI (XO (XO
    (XO (XI (XO (XI (XI XH))))))))))))))))))))))))))))))) :: ((Npos (XO (XO
    (XO (XO (XO (XI (XI (XI (XO (XI (XI (XO (XI (XI (XO (XI (XI (XI (XO (XO
    (XO (XI (XO (XO (XO (XO (XO (XI (XI (XO (XO
    XH)))))))))))))))))))))))))))))))) :: ((Npos (XI (XI (XI (XO (XI (XO (XI
    (XO (XI (XI (XO (XI (XO (XI (XO (XI (XO (XI (XO (XO (XO (XI (XI (XI (XO
    (XO (XI (XI (XI (XO (XO XH)))))))))))))))))))))))))))))))) :: ((Npos (XO
    (XI (XI (XI (XO (XO (XO (XI (XI (XO (XI (XI (XO (XO (XO (XI (XI (XO (XO
    (XO (XO (XI (XO (XI (XI (XO (XO (XO (XI (XO (XO
    XH)))))))))))))))))))))))))))))))) :: ((Npos (XI (XO (XO (XI (XI (XI (XO
    (XO (XO (XO (XO (XO (XI (XO (XO (XI (XO (XO (XO (XO (XO (XI (XI (XO (XI
    (XO (XI (XO (XI (XO (XO XH)))))))))))))))))))))))))))))))) :: ((Npos (XO
    (XO (XI (XI (XI (XI (XO (XO (XO (XO (XO (XO (XO (XO (XI (XI (XI (XI (XI
    (XO (XO (XI (XO (XO (XI (XI (XO (XI (XO (XO (XO
    XH)))))))))))))))))))))))))))))))) :: ((Npos (XI (XI (XO (XI (XO (XO (XO
    (XI (XI (XO (XI (XI (XI (XO (XI (XI (XO (XI (XI (XO (XO (XI (XI (XI (XI
    (XI (XI (XI (XO (XO (XO XH)))))))))))))))))))))))))))))))) :: ((Npos (XO
    (XI (XO (XO (XI (XO (XI (XO (XI (XI (XO (XI (XI (XI (XI (XI (XI (XO (XI
    (XO (XO (XI (XO (XI (XO (XI (XO (XO (XO (XO (XO
    XH)))))))))))))))))))))))))))))))) :: ((Npos (XI (XO (XI (XO (XO (XI (XI
    (XI (XO (XI (XI (XO (XO (XI (XI (XI (XO (XO (XI (XO (XO (XI (XI (XO (XO
    (XI (XI (XO (XO (XO (XO XH)))))))))))))))))))))))))))))))) :: ((Npos (XO
    (XO (XO (XI (XI (XO (XI (XO (XI (XI (XO (XI (XI (XO (XI (XO (XI (XI (XO
    (XI (XO (XI (XO (XO (XO (XI (XI (XI (XI (XI (XO
    XH)))))))))))))))))))))))))))))))) :: ((Npos (XI (XI (XI (XI (XO (XI (XI
    (XI (XO (XI (XI (XO (XO (XO (XI (XO (XO (XI (XO (XI (XO (XI (XI (XI (XO
    (XI (XO (XI (XI (XI (XO XH)))))))))))))))))))))))))))))))) :: ((Npos (XO
    (XI (XI (XO (XI (XI (XO (XO (XO (XO (XO (XO (XO (XI (XI (XO (XI (XO (XO
    (XI (XO (XI (XO (XI (XI (XI (XI (XO (XI (XI (XO
    XH)))))))))))))))))))))))))))))))) :: ((Npos (XI (XO (XO (XO (XO (XO (XO
    (XI (XI (XO (XI (XI (XI (XI (XI (XO (XO (XO (XO (XI (XO (XI (XI (XO (XI
    (XI (XO (XO (XI (XI (XO XH)))))))))))))))))))))))))))))))) :: ((Npos (XO
    (XO (XI (XO (XO (XO (XO (XI (XI (XO (XI (XI (XO (XI (XO (XO (XI (XI (XI
    (XI (XO (XI (XO (XO (XI (XO (XI (XI (XO (XI (XO
    XH)))))))))))))))))))))))))))))))) :: ((Npos (XI (XI (XO (XO (XI (XI (XO
    (XO (XO (XO (XO (XO (XI (XI (XO (XO (XO (XI (XI (XI (XO (XI (XI (XI (XI
    (XO (XO (XI (XO (XI (XO XH)))))))))))))))))))))))))))))))) :: ((Npos (XO
    (XI (XO (XI (XO (XI (XI (XI (XO (XI (XI (XO (XI (XO (XO (XO (XI (XO (XI
    (XI (XO (XI (XO (XI (XO (XO (XI (XO (XO (XI (XO
    XH)))))))))))))))))))))))))))))))) :: ((Npos (XI (XO (XI (XI (XI (XO (XI
    (XO (XI (XI (XO (XI (XO (XO (XO (XO (XO (XO (XI (XI (XO (XI (XI (XO (XO
    (XO (XO (XO (XO (XI (XO XH)))))))))))))))))))))))))))))))) :: ((Npos (XO
    (XO (XO (XO (XI (XO (XO (XI (XI (XO (XI (XI (XO (XI (XI (XO (XO (XI (XO
    (XO (XI (XI (XO (XO (XO (XO (XI (XO (XI (XO (XI
    XH)))))))))))))))))))))))))))))))) :: ((Npos (XI (XI (XI (XO (XO (XI (XO
    (XO (XO (XO (XO (XO (XI (XI (XI (XO (XI (XI (XO (XO (XI (XI (XI (XI (XO
    (XO (XO (XO (XI (XO (XI XH)))))))))))))))))))))))))))))))) :: ((Npos (XO
    (XI (XI (XI (XI (XI (XI (XI (XO (XI (XI (XO (XI (XO (XI (XO (XO (XO (XO
    (XO (XI (XI (XO (XI (XI (XO (XI (XI (XI (XO (XI
    XH)))))))))))))))))))))))))))))))) :: ((Npos (XI (XO (XO (XI (XO (XO (XI
    (XO (XI (XI (XO (XI (XO (XO (XI (XO (XI (XO (XO (XO (XI (XI (XI (XO (XI
    (XO (XO (XI (XI (XO (XI XH)))))))))))))))))))))))))))))))) :: ((Npos (XO
    (XO (XI (XI (XO (XO (XI (XO (XI (XI (XO (XI (XI (XO (XO (XO (XO (XI (XI
    (XO (XI (XI (XO (XO (XI (XI (XI (XO (XO (XO (XI
    XH)))))))))))))))))))))))))))))))) :: ((Npos (XI (XI (XO (XI (XI (XI (XI
    (XI (XO (XI (XI (XO (XO (XO (XO (XO (XI (XI (XI (XO (XI (XI (XI (XI (XI
    (XI (XO (XO (XO (XO (XI XH)))))))))))))))))))))))))))))))) :: ((Npos (XO
    (XI (XO (XO (XO (XI (XO (XO (XO (XO (XO (XO (XO (XI (XO (XO (XO (XO (XI
    (XO (XI (XI (XO (XI (XO (XI (XI (XI (XO (XO (XI
    XH)))))))))))))))))))))))))))))))) :: ((Npos (XI (XO (XI (XO (XI (XO (XO
    (XI (XI (XO (XI (XI (XI (XI (XO (XO (XI (XO (XI (XO (XI (XI (XI (XO (XO
    (XI (XO (XI (XO (XO (XI XH)))))))))))))))))))))))))))))))) :: ((Npos (XO
    (XO (XO (XI (XO (XI (XO (XO (XO (XO (XO (XO (XO (XO (XO (XI (XO (XI (XO
    (XI (XI (XI (XO (XO (XO (XI (XO (XO (XI (XI (XI
    XH)))))))))))))))))))))))))))))))) :: ((Npos (XI (XI (XI (XI (XI (XO (XO
    (XI (XI (XO (XI (XI (XI (XO (XO (XI (XI (XI (XO (XI (XI (XI (XI (XI (XO
    (XI (XI (XO (XI (XI (XI XH)))))))))))))))))))))))))))))))) :: ((Npos (XO
    (XI (XI (XO (XO (XO (XI (XO (XI (XI (XO (XI (XI (XI (XO (XI (XO (XO (XO
    (XI (XI (XI (XO (XI (XI (XI (XO (XI (XI (XI (XI
    XH)))))))))))))))))))))))))))))))) :: ((Npos (XI (XO (XO (XO (XI (XI (XI
    (XI (XO (XI (XI (XO (XO (XI (XO (XI (XI (XO (XO (XI (XI (XI (XI (XO (XI
    (XI (XI (XI (XI (XI (XI XH)))))))))))))))))))))))))))))))) :: ((Npos (XO
    (XO (XI (XO (XI (XI (XI (XI (XO (XI (XI (XO (XI (XI (XI (XI (XO (XI (XI
    (XI (XI (XI (XO (XO (XI (XO (XO (XO (XO (XI (XI
    XH)))))))))))))))))))))))))))))))) :: ((Npos (XI (XI (XO (XO (XO (XO (XI
    (XO (XI (XI (XO (XI (XO (XI (XI (XI (XI (XI (XI (XI (XI (XI (XI (XI (XI
    (XO (XI (XO (XO (XI (XI XH)))))))))))))))))))))))))))))))) :: ((Npos (XO
    (XI (XO (XI (XI (XO (XO (XI (XI (XO (XI (XI (XO (XO (XI (XI (XO (XO (XI
    (XI (XI (XI (XO (XI (XO (XO (XO (XI (XO (XI (XI
    XH)))))))))))))))))))))))))))))))) :: ((Npos (XI (XO (XI (XI (XO (XI (XO
    (XO (XO (XO (XO (XO (XI (XO (XI (XI (XI (XO (XI (XI (XI (XI (XI (XO (XO
    (XO (XI (XI (XO (XI (XI XH)))))))))))))))))))))))))))))))) :: ((Npos (XI
    (XI (XI (XO (XI (XI (XI (XO (XO (XO (XO (XO (XI (XI (XI (XO (XO (XI (XI
    (XO (XO (XO (XO (XI (XO (XO (XI (XO (XI
    XH)))))))))))))))))))))))))))))) :: ((Npos (XO (XO (XO (XO (XO (XO (XI
    (XI (XI (XO (XI (XI (XO (XI (XI (XO (XI (XI (XI (XO (XO (XO (XI (XO (XO
    (XO (XO (XO (XI XH)))))))))))))))))))))))))))))) :: ((Npos (XI (XO (XO
    (XI (XI (XO (XO (XO (XI (XI (XO (XI (XO (XO (XI (XO (XO (XO (XI (XO (XO
    (XO (XO (XO (XI (XO (XI (XI (XI
    XH)))))))))))))))))))))))))))))) :: ((Npos (XO (XI (XI (XI (XO (XI (XO
    (XI (XO (XI (XI (XO (XI (XO (XI (XO (XI (XO (XI (XO (XO (XO (XI (XI (XI
    (XO (XO (XI (XI XH)))))))))))))))))))))))))))))) :: ((Npos (XI (XI (XO
    (XI (XO (XI (XO (XI (XO (XI (XI (XO (XO (XO (XO (XO (XO (XI (XO (XO (XO
    (XO (XO (XI (XI (XI (XI (XO (XO
    XH)))))))))))))))))))))))))))))) :: ((Npos (XO (XO (XI (XI (XI (XO (XO
    (XO (XI (XI (XO (XI (XI (XO (XO (XO (XI (XI (XO (XO (XO (XO (XI (XO (XI
    (XI (XO (XO (XO XH)))))))))))))))))))))))))))))) :: ((Npos (XI (XO (XI
    (XO (XO (XO (XI (XI (XI (XO (XI (XI (XI (XI (XO (XO (XO (XO (XO (XO (XO
    (XO (XO (XO (XO (XI (XI (XI (XO
    XH)))))))))))))))))))))))))))))) :: ((Npos (XO (XI (XO (XO (XI (XI (XI
    (XO (XO (XO (XO (XO (XO (XI (XO (XO (XI (XO (XO (XO (XO (XO (XI (XI (XO
    (XI (XO (XI (XO XH)))))))))))))))))))))))))))))) :: ((Npos (XI (XI (XI
    (XI (XO (XO (XI (XI (XI (XO (XI (XI (XI (XO (XO (XI (XO (XI (XI (XI (XO
    (XO (XO (XI (XO (XI (XO (XO XH))))))))))))))))))))))))))))) :: ((Npos (XO
    (XO (XO (XI (XI (XI (XI (XO (XO (XO (XO (XO (XO (XO (XO (XI (XI (XI (XI
    (XI (XO (XO (XI (XO (XO (XI (XI (XO
    XH))))))))))))))))))))))))))))) :: ((Npos (XI (XO (XO (XO (XO (XI (XO (XI
    (XO (XI (XI (XO (XO (XI (XO (XI (XO (XO (XI (XI (XO (XO (XO (XO (XI (XI
    (XO (XI XH))))))))))))))))))))))))))))) :: ((Npos (XO (XI (XI (XO (XI (XO
    (XO (XO (XI (XI (XO (XI (XI (XI (XO (XI (XI (XO (XI (XI (XO (XO (XI (XI
    (XI (XI (XI (XI XH))))))))))))))))))))))))))))) :: ((Npos (XI (XI (XO (XO
    (XI (XO (XO (XO (XI (XI (XO (XI (XO (XI (XI (XI (XO (XI (XO (XI (XO (XO
    (XO (XI XH))))))))))))))))))))))))) :: ((Npos (XO (XO (XI (XO (XO (XI (XO
    (XI (XO (XI (XI (XO (XI (XI (XI (XI (XI (XI (XO (XI (XO (XO (XI (XO (XI
    (XO XH))))))))))))))))))))))))))) :: ((Npos (XI (XO (XI (XI (XI (XI (XI
    (XO (XO (XO (XO (XO (XI (XO (XI (XI (XO (XO (XO (XI (XO (XO (XO (XO (XO
    (XO (XO XH)))))))))))))))))))))))))))) :: ((Npos (XO (XI (XO (XI (XO (XO
    (XI (XI (XI (XO (XI (XI (XO (XO (XI (XI (XI (XO (XO (XI (XO (XO (XI (XI
    (XO (XO (XI XH)))))))))))))))))))))))))))) :: ((Npos (XI (XI (XI (XO (XO
    (XO (XO (XO (XI (XI (XO (XI (XO (XI (XO (XI (XI (XI (XI (XO (XI (XO (XO
    (XI (XO (XO (XO (XI (XI (XI XH))))))))))))))))))))))))))))))) :: ((Npos
    (XO (XO (XO (XO (XI (XI (XO (XI (XO (XI (XI (XO (XI (XI (XO (XI (XO (XI
    (XI (XO (XI (XO (XI (XO (XO (XO (XI (XI (XI (XI
    XH))))))))))))))))))))))))))))))) :: ((Npos (XI (XO (XO (XI (XO (XI (XI
    (XO (XO (XO (XO (XO (XI (XO (XO (XI (XI (XO (XI (XO (XI (XO (XO (XO (XI
    (XO (XO (XO (XI (XI XH))))))))))))))))))))))))))))))) :: ((Npos (XO (XI
    (XI (XI (XI (XO (XI (XI (XI (XO (XI (XI (XO (XO (XO (XI (XO (XO (XI (XO
    (XI (XO (XI (XI (XI (XO (XI (XO (XI (XI
    XH))))))))))))))))))))))))))))))) :: ((Npos (XI (XI (XO (XI (XI (XO (XI
    (XI (XI (XO (XI (XI (XI (XO (XI (XI (XI (XI (XO (XO (XI (XO (XO (XI (XI
    (XI (XO (XI (XO (XI XH))))))))))))))))))))))))))))))) :: ((Npos (XO (XO
    (XI (XI (XO (XI (XI (XO (XO (XO (XO (XO (XO (XO (XI (XI (XO (XI (XO (XO
    (XI (XO (XI (XO (XI (XI (XI (XI (XO (XI
    XH))))))))))))))))))))))))))))))) :: ((Npos (XI (XO (XI (XO (XI (XI (XO
    (XI (XO (XI (XI (XO (XO (XI (XI (XI (XI (XO (XO (XO (XI (XO (XO (XO (XO
    (XI (XO (XO (XO (XI XH))))))))))))))))))))))))))))))) :: ((Npos (XO (XI
    (XO (XO (XO (XO (XO (XO (XI (XI (XO (XI (XI (XI (XI (XI (XO (XO (XO (XO
    (XI (XO (XI (XI (XO (XI (XI (XO (XO (XI
    XH))))))))))))))))))))))))))))))) :: ((Npos (XI (XI (XI (XI (XI (XI (XO
    (XI (XO (XI (XI (XO (XO (XO (XI (XO (XI (XI (XI (XI (XI (XO (XO (XI (XO
    (XI (XI (XI (XI (XO XH))))))))))))))))))))))))))))))) :: ((Npos (XO (XO
    (XO (XI (XO (XO (XO (XO (XI (XI (XO (XI (XI (XO (XI (XO (XO (XI (XI (XI
    (XI (XO (XI (XO (XO (XI (XO (XI (XI (XO
    XH))))))))))))))))))))))))))))))) :: ((Npos (XI (XO (XO (XO (XI (XO (XI
    (XI (XI (XO (XI (XI (XI (XI (XI (XO (XI (XO (XI (XI (XI (XO (XO (XO (XI
    (XI (XI (XO (XI (XO XH))))))))))))))))))))))))))))))) :: ((Npos (XO (XI
    (XI (XO (XO (XI (XI (XO (XO (XO (XO (XO (XO (XI (XI (XO (XO (XO (XI (XI
    (XI (XO (XI (XI (XI (XI (XO (XO (XI (XO
    XH))))))))))))))))))))))))))))))) :: ((Npos (XI (XI (XO (XO (XO (XI (XI
    (XO (XO (XO (XO (XO (XI (XI (XO (XO (XI (XI (XO (XI (XI (XO (XO (XI (XI
    (XO (XI (XI (XO (XO XH))))))))))))))))))))))))))))))) :: ((Npos (XO (XO
    (XI (XO (XI (XO (XI (XI (XI (XO (XI (XI (XO (XI (XO (XO (XO (XI (XO (XI
    (XI (XO (XI (XO (XI (XO (XO (XI (XO (XO
    XH))))))))))))))))))))))))))))))) :: ((Npos (XI (XO (XI (XI (XO (XO (XO
    (XO (XI (XI (XO (XI (XO (XO (XO (XO (XI (XO (XO (XI (XI (XO (XO (XO (XO
    (XO (XI (XO (XO (XO XH))))))))))))))))))))))))))))))) :: ((Npos (XO (XI
    (XO (XI (XI (XI (XO (XI (XO (XI (XI (XO (XI (XO (XO (XO (XO (XO (XO (XI
    (XI (XO (XI (XI (XO (XO (XO (XO (XO (XO
    XH))))))))))))))))))))))))))))))) :: ((Npos (XI (XI (XI (XO (XI (XO (XO
    (XI (XO (XI (XI (XO (XO (XO (XI (XI (XI (XO (XI (XO (XO (XI (XO (XI (XO
    (XO (XI (XI (XO (XI (XO XH)))))))))))))))))))))))))))))))) :: ((Npos (XO
    (XO (XO (XO (XO (XI (XO (XO (XI (XI (XO (XI (XI (XO (XI (XI (XO (XO (XI
    (XO (XO (XI (XI (XO (XO (XO (XO (XI (XO (XI (XO
    XH)))))))))))))))))))))))))))))))) :: ((Npos (XI (XO (XO (XI (XI (XI (XI
    (XI (XI (XO (XI (XI (XI (XI (XI (XI (XI (XI (XI (XO (XO (XI (XO (XO (XI
    (XO (XI (XO (XO (XI (XO XH)))))))))))))))))))))))))))))))) :: ((Npos (XO
    (XI (XI (XI (XO (XO (XI (XO (XO (XO (XO (XO (XO (XI (XI (XI (XO (XI (XI
    (XO (XO (XI (XI (XI (XI (XO (XO (XO (XO (XI (XO
    XH)))))))))))))))))))))))))))))))) :: ((Npos (XI (XI (XO (XI (XO (XO (XI
    (XO (XO (XO (XO (XO (XI (XI (XO (XI (XI (XO (XO (XO (XO (XI (XO (XI (XI
    (XI (XI (XI (XI (XI (XO XH)))))))))))))))))))))))))))))))) :: ((Npos (XO
    (XO (XI (XI (XI (XI (XI (XI (XI (XO (XI (XI (XO (XI (XO (XI (XO (XO (XO
    (XO (XO (XI (XI (XO (XI (XI (XO (XI (XI (XI (XO
    XH)))))))))))))))))))))))))))))))) :: ((Npos (XI (XO (XI (XO (XO (XI (XO
    (XO (XI (XI (XO (XI (XO (XO (XO (XI (XI (XI (XO (XO (XO (XI (XO (XO (XO
    (XI (XI (XO (XI (XI (XO XH)))))))))))))))))))))))))))))))) :: ((Npos (XO
    (XI (XO (XO (XI (XO (XO (XI (XO (XI (XI (XO (XI (XO (XO (XI (XO (XI (XO
    (XO (XO (XI (XI (XI (XO (XI (XO (XO (XI (XI (XO
    XH)))))))))))))))))))))))))))))))) :: ((Npos (XI (XI (XI (XI (XO (XI (XO
    (XO (XI (XI (XO (XI (XO (XI (XO (XO (XI (XO (XI (XI (XO (XI (XO (XI (XO
    (XI (XO (XI (XO (XO (XO XH)))))))))))))))))))))))))))))))) :: ((Npos (XO
    (XO (XO (XI (XI (XO (XO (XI (XO (XI (XI (XO (XI (XI (XO (XO (XO (XO (XI
    (XI (XO (XI (XI (XO (XO (XI (XI (XI (XO (XO (XO
    XH)))))))))))))))))))))))))))))))) :: ((Npos (XI (XO (XO (XO (XO (XO (XI
    (XO (XO (XO (XO (XO (XI (XO (XO (XO (XI (XI (XI (XI (XO (XI (XO (XO (XI
    (XI (XO (XO (XO (XO (XO XH)))))))))))))))))))))))))))))))) :: ((Npos (XO
    (XI (XI (XO (XI (XI (XI (XI (XI (XO (XI (XI (XO (XO (XO (XO (XO (XI (XI
    (XI (XO (XI (XI (XI (XI (XI (XI (XO (XO (XO (XO
    XH)))))))))))))))))))))))))))))))) :: ((Npos (XI (XI (XO (XO (XI (XI (XI
    (XI (XI (XO (XI (XI (XI (XO (XI (XO (XI (XO (XO (XI (XO (XI (XO (XI (XI
    (XO (XO (XI (XI (XO (XO XH)))))))))))))))))))))))))))))))) :: ((Npos (XO
    (XO (XI (XO (XO (XO (XI (XO (XO (XO (XO (XO (XO (XO (XI (XO (XO (XO (XO
    (XI (XO (XI (XI (XO (XI (XO (XI (XI (XI (XO (XO
    XH)))))))))))))))))))))))))))))))) :: ((Npos (XI (XO (XI (XI (XI (XO (XO
    (XI (XO (XI (XI (XO (XO (XI (XI (XO (XI (XI (XO (XI (XO (XI (XO (XO (XO
    (XO (XO (XO (XI (XO (XO XH)))))))))))))))))))))))))))))))) :: ((Npos (XO
    (XI (XO (XI (XO (XI (XO (XO (XI (XI (XO (XI (XI (XI (XI (XO (XO (XI (XO
    (XI (XO (XI (XI (XI (XO (XO (XI (XO (XI (XO (XO
    XH)))))))))))))))))))))))))))))))) :: ((Npos (XI (XI (XI (XO (XO (XI (XI
    (XI (XI (XO (XI (XI (XI (XO (XO (XO (XO (XO (XI (XO (XI (XI (XO (XI (XO
    (XO (XO (XO (XO (XI (XI XH)))))))))))))))))))))))))))))))) :: ((Npos (XO
    (XO (XO (XO (XI (XO (XI (XO (XO (XO (XO (XO (XO (XO (XO (XO (XI (XO (XI
    (XO (XI (XI (XI (XO (XO (XO (XI (XO (XO (XI (XI
    XH)))))))))))))))))))))))))))))))) :: ((Npos (XI (XO (XO (XI (XO (XO (XO
    (XI (XO (XI (XI (XO (XO (XI (XO (XO (XO (XI (XI (XO (XI (XI (XO (XO (XI
    (XO (XO (XI (XO (XI (XI XH)))))))))))))))))))))))))))))))) :: ((Npos (XO
    (XI (XI (XI (XI (XI (XO (XO (XI (XI (XO (XI (XI (XI (XO (XO (XI (XI (XI
    (XO (XI (XI (XI (XI (XI (XO (XI (XI (XO (XI (XI
    XH)))))))))))))))))))))))))))))))) :: ((Npos (XI (XI (XO (XI (XI (XI (XO
    (XO (XI (XI (XO (XI (XO (XI (XI (XO (XO (XO (XO (XO (XI (XI (XO (XI (XI
    (XI (XO (XO (XI (XI (XI XH)))))))))))))))))))))))))))))))) :: ((Npos (XO
    (XO (XI (XI (XO (XO (XO (XI (XO (XI (XI (XO (XI (XI (XI (XO (XI (XO (XO
    (XO (XI (XI (XI (XO (XI (XI (XI (XO (XI (XI (XI
    XH)))))))))))))))))))))))))))))))) :: ((Npos (XI (XO (XI (XO (XI (XO (XI
    (XO (XO (XO (XO (XO (XI (XO (XI (XO (XO (XI (XO (XO (XI (XI (XO (XO (XO
    (XI (XO (XI (XI (XI (XI XH)))))))))))))))))))))))))))))))) :: ((Npos (XO
    (XI (XO (XO (XO (XI (XI (XI (XI (XO (XI (XI (XO (XO (XI (XO (XI (XI (XO
    (XO (XI (XI (XI (XI (XO (XI (XI (XI (XI (XI (XI
    XH)))))))))))))))))))))))))))))))) :: ((Npos (XI (XI (XI (XI (XI (XO (XI
    (XO (XO (XO (XO (XO (XI (XI (XI (XI (XO (XO (XI (XI (XI (XI (XO (XI (XO
    (XI (XI (XO (XO (XO (XI XH)))))))))))))))))))))))))))))))) :: ((Npos (XO
    (XO (XO (XI (XO (XI (XI (XI (XI (XO (XI (XI (XO (XI (XI (XI (XI (XO (XI
    (XI (XI (XI (XI (XO (XO (XI (XO (XO (XO (XO (XI
    XH)))))))))))))))))))))))))))))))) :: ((Npos (XI (XO (XO (XO (XI (XI (XO
    (XO (XI (XI (XO (XI (XO (XO (XI (XI (XO (XI (XI (XI (XI (XI (XO (XO (XI
    (XI (XI (XI (XO (XO (XI XH)))))))))))))))))))))))))))))))) :: ((Npos (XO
    (XI (XI (XO (XO (XO (XO (XI (XO (XI (XI (XO (XI (XO (XI (XI (XI (XI (XI
    (XI (XI (XI (XI (XI (XI (XI (XO (XI (XO (XO (XI
    XH)))))))))))))))))))))))))))))))) :: ((Npos (XI (XI (XO (XO (XO (XO (XO
    (XI (XO (XI (XI (XO (XO (XO (XO (XI (XO (XO (XO (XI (XI (XI (XO (XI (XI
    (XO (XI (XO (XI (XO (XI XH)))))))))))))))))))))))))))))))) :: ((Npos (XO
    (XO (XI (XO (XI (XI (XO (XO (XI (XI (XO (XI (XI (XO (XO (XI (XI (XO (XO
    (XI (XI (XI (XI (XO (XI (XO (XO (XO (XI (XO (XI
    XH)))))))))))))))))))))))))))))))) :: ((Npos (XI (XO (XI (XI (XO (XI (XI
    (XI (XI (XO (XI (XI (XI (XI (XO (XI (XO (XI (XO (XI (XI (XI (XO (XO (XO
    (XO (XI (XI (XI (XO (XI XH)))))))))))))))))))))))))))))))) :: ((Npos (XO
    (XI (XO (XI (XI (XO (XI (XO (XO (XO (XO (XO (XO (XI (XO (XI (XI (XI (XO
    (XI (XI (XI (XI (XI (XO (XO (XO (XI (XI (XO (XI
    XH)))))))))))))))))))))))))))))))) :: ((Npos (XO (XI (XI (XI (XO (XI (XI
    (XI (XO (XO (XO (XO (XO (XI (XI (XI (XO (XO (XI (XI (XO (XO (XO (XO (XI
    (XO (XO (XI (XO (XI XH))))))))))))))))))))))))))))))) :: ((Npos (XI (XO
    (XO (XI (XI (XO (XI (XO (XI (XO (XI (XI (XI (XI (XI (XI (XI (XO (XI (XI
    (XO (XO (XI (XI (XI (XO (XI (XI (XO (XI
    XH))))))))))))))))))))))))))))))) :: ((Npos (XO (XO (XO (XO (XO (XO (XO
    (XI (XI (XI (XO (XI (XI (XO (XI (XI (XO (XI (XI (XI (XO (XO (XO (XI (XO
    (XO (XO (XO (XO (XI XH))))))))))))))))))))))))))))))) :: ((Npos (XI (XI
    (XI (XO (XI (XI (XO (XO (XO (XI (XI (XO (XO (XO (XI (XI (XI (XI (XI (XI
    (XO (XO (XI (XO (XO (XO (XI (XO (XO (XI
    XH))))))))))))))))))))))))))))))) :: ((Npos (XO (XI (XO (XO (XI (XI (XO
    (XO (XO (XI (XI (XO (XI (XO (XO (XI (XO (XO (XO (XI (XO (XO (XO (XO (XO
    (XI (XO (XI (XI (XI XH))))))))))))))))))))))))))))))) :: ((Npos (XI (XO
    (XI (XO (XO (XO (XO (XI (XI (XI (XO (XI (XO (XO (XO (XI (XI (XO (XO (XI
    (XO (XO (XI (XI (XO (XI (XI (XI (XI (XI
    XH))))))))))))))))))))))))))))))) :: ((Npos (XO (XO (XI (XI (XI (XO (XI
    (XO (XI (XO (XI (XI (XO (XI (XO (XI (XO (XI (XO (XI (XO (XO (XO (XI (XI
    (XI (XO (XO (XI (XI XH))))))))))))))))))))))))))))))) :: ((Npos (XI (XI
    (XO (XI (XO (XI (XI (XI (XO (XO (XO (XO (XI (XI (XO (XI (XI (XI (XO (XI
    (XO (XO (XI (XO (XI (XI (XI (XO (XI (XI
    XH))))))))))))))))))))))))))))))) :: ((Npos (XO (XI (XI (XO (XI (XO (XI
    (XO (XI (XO (XI (XI (XO (XO (XO (XO (XO (XO (XI (XO (XO (XO (XO (XO (XI
    (XI (XI (XI (XO (XO XH))))))))))))))))))))))))))))))) :: ((Npos (XI (XO
    (XO (XO (XO (XI (XI (XI (XO (XO (XO (XO (XI (XO (XO (XO (XI (XO (XI (XO
    (XO (XO (XI (XI (XI (XI (XO (XI (XO (XO
    XH))))))))))))))))))))))))))))))) :: ((Npos (XO (XO (XO (XI (XI (XI (XO
    (XO (XO (XI (XI (XO (XI (XI (XO (XO (XO (XI (XI (XO (XO (XO (XO (XI (XO
    (XI (XI (XO (XO (XO XH))))))))))))))))))))))))))))))) :: ((Npos (XI (XI
    (XI (XI (XO (XO (XO (XI (XI (XI (XO (XI (XO (XI (XO (XO (XI (XI (XI (XO
    (XO (XO (XI (XO (XO (XI (XO (XO (XO (XO
    XH))))))))))))))))))))))))))))))) :: ((Npos (XO (XI (XO (XI (XO (XO (XO
    (XI (XI (XI (XO (XI (XI (XI (XI (XO (XO (XO (XO (XO (XO (XO (XO (XO (XO
    (XO (XI (XI (XI (XO XH))))))))))))))))))))))))))))))) :: ((Npos (XI (XO
    (XI (XI (XI (XI (XO (XO (XO (XI (XI (XO (XO (XI (XI (XO (XI (XO (XO (XO
    (XO (XO (XI (XI (XO (XO (XO (XI (XI (XO
    XH))))))))))))))))))))))))))))))) :: ((Npos (XO (XO (XI (XO (XO (XI (XI
    (XI (XO (XO (XO (XO (XO (XO (XI (XO (XO (XI (XO (XO (XO (XO (XO (XI (XI
    (XO (XI (XO (XI (XO XH))))))))))))))))))))))))))))))) :: ((Npos (XI (XI
    (XO (XO (XI (XO (XI (XO (XI (XO (XI (XI (XI (XO (XI (XO (XI (XI (XO (XO
    (XO (XO (XI (XO (XI (XO (XO (XO (XI (XO
    XH))))))))))))))))))))))))))))))) :: ((Npos (XO (XI (XI (XI (XI (XO (XO
    (XI (XI (XI (XO (XI (XI (XI (XO (XO (XI (XO (XI (XI (XI (XO (XO (XO (XI
    (XO (XI (XO (XO XH)))))))))))))))))))))))))))))) :: ((Npos (XI (XO (XO
    (XI (XO (XI (XO (XO (XO (XI (XI (XO (XO (XI (XO (XO (XO (XO (XI (XI (XI
    (XO (XI (XI (XI (XO (XO (XO (XO
    XH)))))))))))))))))))))))))))))) :: ((Npos (XO (XO (XO (XO (XI (XI (XI
    (XI (XO (XO (XO (XO (XO (XO (XO (XO (XI (XI (XI (XI (XI (XO (XO (XI (XO
    (XO (XI (XI (XO XH)))))))))))))))))))))))))))))) :: ((Npos (XI (XI (XI
    (XO (XO (XO (XI (XO (XI (XO (XI (XI (XI (XO (XO (XO (XO (XI (XI (XI (XI
    (XO (XI (XO (XO (XO (XO (XI (XO
    XH)))))))))))))))))))))))))))))) :: ((Npos (XO (XI (XO (XO (XO (XO (XI
    (XO (XI (XO (XI (XI (XO (XO (XI (XO (XI (XO (XO (XI (XI (XO (XO (XO (XO
    (XI (XI (XO (XI XH)))))))))))))))))))))))))))))) :: ((Npos (XI (XO (XI
    (XO (XI (XI (XI (XI (XO (XO (XO (XO (XI (XO (XI (XO (XO (XO (XO (XI (XI
    (XO (XI (XI (XO (XI (XO (XO (XI
    XH)))))))))))))))))))))))))))))) :: ((Npos (XO (XO (XI (XI (XO (XI (XO
    (XO (XO (XI (XI (XO (XI (XI (XI (XO (XI (XI (XO (XI (XI (XO (XO (XI (XI
    (XI (XI (XI (XI XH)))))))))))))))))))))))))))))) :: ((Npos (XI (XI (XO
    (XI (XI (XO (XO (XI (XI (XI (XO (XI (XO (XI (XI (XO (XO (XI (XO (XI (XI
    (XO (XI (XO (XI (XI (XO (XI (XI
    XH)))))))))))))))))))))))))))))) :: ((Npos (XO (XI (XI (XO (XO (XI (XO
    (XO (XO (XI (XI (XO (XI (XO (XI (XI (XI (XO (XI (XO (XI (XO (XO (XO (XI
    XH)))))))))))))))))))))))))) :: ((Npos (XI (XO (XO (XO (XI (XO (XO (XI
    (XI (XI (XO (XI (XO (XO (XI (XI (XO (XO (XI (XO (XI (XO (XI (XI (XI (XI
    XH))))))))))))))))))))))))))) :: ((Npos (XO (XO (XO (XI (XO (XO (XI (XO
    (XI (XO (XI (XI (XO (XI (XI (XI (XI (XI (XI (XO (XI (XO (XO (XI (XO (XI
    (XO XH)))))))))))))))))))))))))))) :: ((Npos (XI (XI (XI (XI (XI (XI (XI
    (XI (XO (XO (XO (XO (XI (XI (XI (XI (XO (XI (XI (XO (XI (XO (XI (XO (XO
    (XI (XI XH)))))))))))))))))))))))))))) :: ((Npos (XO (XI (XO (XI (XI (XI
    (XI (XI (XO (XO (XO (XO (XO (XI (XO (XI (XI (XO (XO (XO (XI (XO (XO (XO
    (XO (XO (XO (XO XH))))))))))))))))))))))))))))) :: ((Npos (XI (XO (XI (XI
    (XO (XO (XI (XO (XI (XO (XI (XI (XI (XI (XO (XI (XO (XO (XO (XO (XI (XO
    (XI (XI (XO (XO (XI (XO XH))))))))))))))))))))))))))))) :: ((Npos (XO (XO
    (XI (XO (XI (XO (XO (XI (XI (XI (XO (XI (XI (XO (XO (XI (XI (XI (XO (XO
    (XI (XO (XO (XI (XI (XO (XO (XI XH))))))))))))))))))))))))))))) :: ((Npos
    (XI (XI (XO (XO (XO (XI (XO (XO (XO (XI (XI (XO (XO (XO (XO (XI (XO (XI
    (XO (XO (XI (XO (XI (XO (XI (XO (XI (XI
    XH))))))))))))))))))))))))))))) :: ((Npos (XO (XI (XI (XI (XO (XO (XO (XO
    (XO (XI (XI (XO (XI (XO (XI (XO (XI (XI (XI (XI (XO (XI (XO (XO (XI (XO
    (XO (XO (XI (XI (XI XH)))))))))))))))))))))))))))))))) :: ((Npos (XI (XO
    (XO (XI (XI (XI (XO (XI (XI (XI (XO (XI (XO (XO (XI (XO (XO (XI (XI (XI
    (XO (XI (XI (XI (XI (XO (XI (XO (XI (XI (XI
    XH)))))))))))))))))))))))))))))))) :: ((Npos (XO (XO (XO (XO (XO (XI (XI
    (XO (XI (XO (XI (XI (XO (XI (XI (XO (XI (XO (XI (XI (XO (XI (XO (XI (XO
    (XO (XO (XI (XI (XI (XI XH)))))))))))))))))))))))))))))))) :: ((Npos (XI
    (XI (XI (XO (XI (XO (XI (XI (XO (XO (XO (XO (XI (XI (XI (XO (XO (XO (XI
    (XI (XO (XI (XI (XO (XO (XO (XI (XI (XI (XI (XI
    XH)))))))))))))))))))))))))))))))) :: ((Npos (XO (XI (XO (XO (XI (XO (XI
    (XI (XO (XO (XO (XO (XO (XI (XO (XO (XI (XI (XO (XI (XO (XI (XO (XO (XO
    (XI (XO (XO (XO (XI (XI XH)))))))))))))))))))))))))))))))) :: ((Npos (XI
    (XO (XI (XO (XO (XI (XI (XO (XI (XO (XI (XI (XI (XI (XO (XO (XO (XI (XO
    (XI (XO (XI (XI (XI (XO (XI (XI (XO (XO (XI (XI
    XH)))))))))))))))))))))))))))))))) :: ((Npos (XO (XO (XI (XI (XI (XI (XO
    (XI (XI (XI (XO (XI (XI (XO (XO (XO (XI (XO (XO (XI (XO (XI (XO (XI (XI
    (XI (XO (XI (XO (XI (XI XH)))))))))))))))))))))))))))))))) :: ((Npos (XI
    (XI (XO (XI (XO (XO (XO (XO (XO (XI (XI (XO (XO (XO (XO (XO (XO (XO (XO
    (XI (XO (XI (XI (XO (XI (XI (XI (XI (XO (XI (XI
    XH)))))))))))))))))))))))))))))))) :: ((Npos (XO (XI (XI (XO (XI (XI (XO
    (XI (XI (XI (XO (XI (XI (XI (XO (XI (XI (XI (XI (XO (XO (XI (XO (XO (XI
    (XI (XI (XO (XI (XO (XI XH)))))))))))))))))))))))))))))))) :: ((Npos (XI
    (XO (XO (XO (XO (XO (XO (XO (XO (XI (XI (XO (XO (XI (XO (XI (XO (XI (XI
    (XO (XO (XI (XI (XI (XI (XI (XO (XO (XI (XO (XI
    XH)))))))))))))))))))))))))))))))) :: ((Npos (XO (XO (XO (XI (XI (XO (XI
    (XI (XO (XO (XO (XO (XO (XO (XO (XI (XI (XO (XI (XO (XO (XI (XO (XI (XO
    (XI (XI (XI (XI (XO (XI XH)))))))))))))))))))))))))))))))) :: ((Npos (XI
    (XI (XI (XI (XO (XI (XI (XO (XI (XO (XI (XI (XI (XO (XO (XI (XO (XO (XI
    (XO (XO (XI (XI (XO (XO (XI (XO (XI (XI (XO (XI
    XH)))))))))))))))))))))))))))))))) :: ((Npos (XO (XI (XO (XI (XO (XI (XI
    (XO (XI (XO (XI (XI (XO (XO (XI (XI (XI (XI (XO (XO (XO (XI (XO (XO (XO
    (XO (XI (XO (XO (XO (XI XH)))))))))))))))))))))))))))))))) :: ((Npos (XI
    (XO (XI (XI (XI (XO (XI (XI (XO (XO (XO (XO (XI (XO (XI (XI (XO (XI (XO
    (XO (XO (XI (XI (XI (XO (XO (XO (XO (XO (XO (XI
    XH)))))))))))))))))))))))))))))))) :: ((Npos (XO (XO (XI (XO (XO (XO (XO
    (XO (XO (XI (XI (XO (XI (XI (XI (XI (XI (XO (XO (XO (XO (XI (XO (XI (XI
    (XO (XI (XI (XO (XO (XI XH)))))))))))))))))))))))))))))))) :: ((Npos (XI
    (XI (XO (XO (XI (XI (XO (XI (XI (XI (XO (XI (XO (XI (XI (XI (XO (XO (XO
    (XO (XO (XI (XI (XO (XI (XO (XO (XI (XO (XO (XI
    XH)))))))))))))))))))))))))))))))) :: ((Npos (XO (XI (XI (XI (XI (XI (XI
    (XO (XI (XO (XI (XI (XO (XO (XO (XI (XO (XI (XI (XI (XI (XI (XO (XO (XI
    (XO (XI (XI (XI (XI (XO XH)))))))))))))))))))))))))))))))) :: ((Npos (XI
    (XO (XO (XI (XO (XO (XI (XI (XO (XO (XO (XO (XI (XO (XO (XI (XI (XI (XI
    (XI (XI (XI (XI (XI (XI (XO (XO (XI (XI (XI (XO
    XH)))))))))))))))))))))))))))))))) :: ((Npos (XO (XO (XO (XO (XI (XO (XO
    (XO (XO (XI (XI (XO (XI (XI (XO (XI (XO (XO (XI (XI (XI (XI (XO (XI (XO
    (XO (XI (XO (XI (XI (XO XH)))))))))))))))))))))))))))))))) :: ((Npos (XI
    (XI (XI (XO (XO (XI (XO (XI (XI (XI (XO (XI (XO (XI (XO (XI (XI (XO (XI
    (XI (XI (XI (XI (XO (XO (XO (XO (XO (XI (XI (XO
    XH)))))))))))))))))))))))))))))))) :: ((Npos (XO (XI (XO (XO (XO (XI (XO
    (XI (XI (XI (XO (XI (XI (XI (XI (XI (XO (XI (XO (XI (XI (XI (XO (XO (XO
    (XI (XI (XI (XO (XI (XO XH)))))))))))))))))))))))))))))))) :: ((Npos (XI
    (XO (XI (XO (XI (XO (XO (XO (XO (XI (XI (XO (XO (XI (XI (XI (XI (XI (XO
    (XI (XI (XI (XI (XI (XO (XI (XO (XI (XO (XI (XO
    XH)))))))))))))))))))))))))))))))) :: ((Npos (XO (XO (XI (XI (XO (XO (XI
    (XI (XO (XO (XO (XO (XO (XO (XI (XI (XO (XO (XO (XI (XI (XI (XO (XI (XI
    (XI (XI (XO (XO (XI (XO XH)))))))))))))))))))))))))))))))) :: ((Npos (XI
    (XI (XO (XI (XI (XI (XI (XO (XI (XO (XI (XI (XI (XO (XI (XI (XI (XO (XO
    (XI (XI (XI (XI (XO (XI (XI (XO (XO (XO (XI (XO
    XH)))))))))))))))))))))))))))))))) :: ((Npos (XO (XI (XI (XO (XO (XO (XI
    (XI (XO (XO (XO (XO (XO (XI (XI (XO (XO (XI (XI (XO (XI (XI (XO (XO (XI
    (XI (XO (XI (XI (XO (XO XH)))))))))))))))))))))))))))))))) :: ((Npos (XI
    (XO (XO (XO (XI (XI (XI (XO (XI (XO (XI (XI (XI (XI (XI (XO (XI (XI (XI
    (XO (XI (XI (XI (XI (XI (XI (XI (XI (XI (XO (XO
    XH)))))))))))))))))))))))))))))))) :: ((Npos (XO (XO (XO (XI (XO (XI (XO
    (XI (XI (XI (XO (XI (XI (XO (XI (XO (XO (XO (XI (XO (XI (XI (XO (XI (XO
    (XI (XO (XO (XI (XO (XO XH)))))))))))))))))))))))))))))))) :: ((Npos (XI
    (XI (XI (XI (XI (XO (XO (XO (XO (XI (XI (XO (XO (XO (XI (XO (XI (XO (XI
    (XO (XI (XI (XI (XO (XO (XI (XI (XO (XI (XO (XO
    XH)))))))))))))))))))))))))))))))) :: ((Npos (XO (XI (XO (XI (XI (XO (XO
    (XO (XO (XI (XI (XO (XI (XO (XO (XO (XO (XI (XO (XO (XI (XI (XO (XO (XO
    (XO (XO (XI (XO (XO (XO XH)))))))))))))))))))))))))))))))) :: ((Npos (XI
    (XO (XI (XI (XO (XI (XO (XI (XI (XI (XO (XI (XO (XO (XO (XO (XI (XI (XO
    (XO (XI (XI (XI (XI (XO (XO (XI (XI (XO (XO (XO
    XH)))))))))))))))))))))))))))))))) :: ((Npos (XO (XO (XI (XO (XI (XI (XI
    (XO (XI (XO (XI (XI (XO (XI (XO (XO (XO (XO (XO (XO (XI (XI (XO (XI (XI
    (XO (XO (XO (XO (XO (XO XH)))))))))))))))))))))))))))))))) :: ((Npos (XI
    (XI (XO (XO (XO (XO (XI (XI (XO (XO (XO (XO (XI (XI (XO (XO (XI (XO (XO
    (XO (XI (XI (XI (XO (XI (XO (XI (XO (XO (XO (XO
    XH)))))))))))))))))))))))))))))))) :: ((Npos (XI (XO (XO (XI (XI (XO (XO
    (XI (XO (XO (XO (XO (XI (XO (XO (XI (XO (XI (XO (XI (XO (XO (XO (XI (XI
    (XO (XI (XI (XI (XO XH))))))))))))))))))))))))))))))) :: ((Npos (XO (XI
    (XI (XI (XO (XI (XO (XO (XI (XO (XI (XI (XO (XO (XO (XI (XI (XI (XO (XI
    (XO (XO (XI (XO (XI (XO (XO (XI (XI (XO
    XH))))))))))))))))))))))))))))))) :: ((Npos (XI (XI (XI (XO (XI (XI (XI
    (XI (XI (XI (XO (XI (XO (XI (XO (XI (XO (XO (XO (XI (XO (XO (XO (XO (XO
    (XO (XI (XO (XI (XO XH))))))))))))))))))))))))))))))) :: ((Npos (XO (XO
    (XO (XO (XO (XO (XI (XO (XO (XI (XI (XO (XI (XI (XO (XI (XI (XO (XO (XI
    (XO (XO (XI (XI (XO (XO (XO (XO (XI (XO
    XH))))))))))))))))))))))))))))))) :: ((Npos (XI (XO (XI (XO (XO (XO (XI
    (XO (XO (XI (XI (XO (XO (XI (XI (XI (XO (XI (XI (XI (XO (XO (XO (XI (XO
    (XI (XI (XI (XO (XO XH))))))))))))))))))))))))))))))) :: ((Npos (XO (XI
    (XO (XO (XI (XI (XI (XI (XI (XI (XO (XI (XI (XI (XI (XI (XI (XI (XI (XI
    (XO (XO (XI (XO (XO (XI (XO (XI (XO (XO
    XH))))))))))))))))))))))))))))))) :: ((Npos (XI (XI (XO (XI (XO (XI (XO
    (XO (XI (XO (XI (XI (XI (XO (XI (XI (XO (XO (XI (XI (XO (XO (XO (XO (XI
    (XI (XI (XO (XO (XO XH))))))))))))))))))))))))))))))) :: ((Npos (XO (XO
    (XI (XI (XI (XO (XO (XI (XO (XO (XO (XO (XO (XO (XI (XI (XI (XO (XI (XI
    (XO (XO (XI (XI (XI (XI (XO (XO (XO (XO
    XH))))))))))))))))))))))))))))))) :: ((Npos (XI (XO (XO (XO (XO (XI (XO
    (XO (XI (XO (XI (XI (XI (XI (XI (XO (XO (XI (XO (XO (XO (XO (XO (XI (XI
    (XI (XO (XI (XI (XI XH))))))))))))))))))))))))))))))) :: ((Npos (XO (XI
    (XI (XO (XI (XO (XO (XI (XO (XO (XO (XO (XO (XI (XI (XO (XI (XI (XO (XO
    (XO (XO (XI (XO (XI (XI (XI (XI (XI (XI
    XH))))))))))))))))))))))))))))))) :: ((Npos (XI (XI (XI (XI (XO (XO (XI
    (XO (XO (XI (XI (XO (XO (XO (XI (XO (XO (XO (XO (XO (XO (XO (XO (XO (XO
    (XI (XO (XO (XI (XI XH))))))))))))))))))))))))))))))) :: ((Npos (XO (XO
    (XO (XI (XI (XI (XI (XI (XI (XI (XO (XI (XI (XO (XI (XO (XI (XO (XO (XO
    (XO (XO (XI (XI (XO (XI (XI (XO (XI (XI
    XH))))))))))))))))))))))))))))))) :: ((Npos (XI (XO (XI (XI (XI (XI (XI
    (XI (XI (XI (XO (XI (XO (XO (XO (XO (XO (XI (XI (XO (XO (XO (XO (XI (XO
    (XO (XO (XI (XO (XI XH))))))))))))))))))))))))))))))) :: ((Npos (XO (XI
    (XO (XI (XO (XO (XI (XO (XO (XI (XI (XO (XI (XO (XO (XO (XI (XI (XI (XO
    (XO (XO (XI (XO (XO (XO (XI (XI (XO (XI
    XH))))))))))))))))))))))))))))))) :: ((Npos (XI (XI (XO (XO (XI (XO (XO
    (XI (XO (XO (XO (XO (XI (XI (XO (XO (XO (XO (XI (XO (XO (XO (XO (XO (XI
    (XO (XO (XO (XO (XI XH))))))))))))))))))))))))))))))) :: ((Npos (XO (XO
    (XI (XO (XO (XI (XO (XO (XI (XO (XI (XI (XO (XI (XO (XO (XI (XO (XI (XO
    (XO (XO (XI (XI (XI (XO (XI (XO (XO (XI
    XH))))))))))))))))))))))))))))))) :: ((Npos (XI (XO (XO (XI (XO (XI (XI
    (XI (XI (XI (XO (XI (XO (XO (XI (XO (XI (XI (XO (XI (XI (XO (XO (XI (XI
    (XO (XO (XO XH))))))))))))))))))))))))))))) :: ((Npos (XO (XI (XI (XI (XI
    (XO (XI (XO (XO (XI (XI (XO (XI (XO (XI (XO (XO (XI (XO (XI (XI (XO (XI
    (XO (XI (XO (XI (XO XH))))))))))))))))))))))))))))) :: ((Npos (XI (XI (XI
    (XO (XO (XO (XO (XI (XO (XO (XO (XO (XI (XI (XI (XO (XI (XO (XO (XI (XI
    (XO (XO (XO (XO (XO (XO (XI XH))))))))))))))))))))))))))))) :: ((Npos (XO
    (XO (XO (XO (XI (XI (XO (XO (XI (XO (XI (XI (XO (XI (XI (XO (XO (XO (XO
    (XI (XI (XO (XI (XI (XO (XO (XI (XI
    XH))))))))))))))))))))))))))))) :: ((Npos (XI (XO (XI (XO (XI (XI (XO (XO
    (XI (XO (XI (XI (XI (XI (XO (XO (XI (XI (XI (XI (XI (XO (XO (XI (XO
    XH)))))))))))))))))))))))))) :: ((Npos (XO (XI (XO (XO (XO (XO (XO (XI
    (XO (XO (XO (XO (XO (XI (XO (XO (XO (XI (XI (XI (XI (XO (XI (XO (XO (XI
    XH))))))))))))))))))))))))))) :: ((Npos (XI (XI (XO (XI (XI (XO (XI (XO
    (XO (XI (XI (XO (XO (XO (XO (XO (XI (XO (XI (XI (XI (XO (XO (XO (XI (XI
    (XO XH)))))))))))))))))))))))))))) :: ((Npos (XO (XO (XI (XI (XO (XI (XI
    (XI (XI (XI (XO (XI (XI (XO (XO (XO (XO (XO (XI (XI (XI (XO (XI (XI (XI
    (XI (XI XH)))))))))))))))))))))))))))) :: ((Npos (XI (XO (XO (XO (XI (XO
    (XI (XO (XO (XI (XI (XO (XO (XI (XO (XI (XI (XI (XO (XO (XI (XO (XO (XI
    (XI (XI (XI (XO (XI XH)))))))))))))))))))))))))))))) :: ((Npos (XO (XI
    (XI (XO (XO (XI (XI (XI (XI (XI (XO (XI (XI (XI (XO (XI (XO (XI (XO (XO
    (XI (XO (XI (XO (XI (XI (XO (XO (XI
    XH)))))))))))))))))))))))))))))) :: ((Npos (XI (XI (XI (XI (XI (XI (XO
    (XO (XI (XO (XI (XI (XI (XO (XO (XI (XI (XO (XO (XO (XI (XO (XO (XO (XO
    (XI (XI (XI (XI XH)))))))))))))))))))))))))))))) :: ((Npos (XO (XO (XO
    (XI (XO (XO (XO (XI (XO (XO (XO (XO (XO (XO (XO (XI (XO (XO (XO (XO (XI
    (XO (XI (XI (XO (XI (XO (XI (XI
    XH)))))))))))))))))))))))))))))) :: ((Npos (XI (XO (XI (XI (XO (XO (XO
    (XI (XO (XO (XO (XO (XI (XO (XI (XI (XI (XI (XI (XO (XI (XO (XO (XI (XO
    (XO (XI (XO (XO XH)))))))))))))))))))))))))))))) :: ((Npos (XO (XI (XO
    (XI (XI (XI (XO (XO (XI (XO (XI (XI (XO (XO (XI (XI (XO (XI (XI (XO (XI
    (XO (XI (XO (XO (XO (XO (XO (XO
    XH)))))))))))))))))))))))))))))) :: ((Npos (XI (XI (XO (XO (XO (XI (XI
    (XI (XI (XI (XO (XI (XO (XI (XI (XI (XI (XO (XI (XO (XI (XO (XO (XO (XI
    (XO (XI (XI (XO XH)))))))))))))))))))))))))))))) :: ((Npos (XO (XO (XI
    (XO (XI (XO (XI (XO (XO (XI (XI (XO (XI (XI (XI (XI (XO (XO (XI (XO (XI
    (XO (XI (XI (XI (XO (XO (XI (XO
    XH)))))))))))))))))))))))))))))) :: ((Npos (XI (XO (XO (XI (XI (XI (XI
    (XO (XO (XI (XI (XO (XO (XI (XO (XO (XI (XO (XO (XI (XO (XI (XO (XI (XI
    (XO (XI (XO (XO (XO (XI XH)))))))))))))))))))))))))))))))) :: ((Npos (XO
    (XI (XI (XI (XO (XO (XI (XI (XI (XI (XO (XI (XI (XI (XO (XO (XO (XO (XO
    (XI (XO (XI (XI (XO (XI (XO (XO (XO (XO (XO (XI
    XH)))))))))))))))))))))))))))))))) :: ((Npos (XI (XI (XI (XO (XI (XO (XO
    (XO (XI (XO (XI (XI (XI (XO (XO (XO (XI (XI (XO (XI (XO (XI (XO (XO (XO
    (XO (XI (XI (XO (XO (XI XH)))))))))))))))))))))))))))))))) :: ((Npos (XO
    (XO (XO (XO (XO (XI (XO (XI (XO (XO (XO (XO (XO (XO (XO (XO (XO (XI (XO
    (XI (XO (XI (XI (XI (XO (XO (XO (XI (XO (XO (XI
    XH)))))))))))))))))))))))))))))))) :: ((Npos (XI (XO (XI (XO (XO (XI (XO
    (XI (XO (XO (XO (XO (XI (XO (XI (XO (XI (XO (XI (XI (XO (XI (XO (XI (XO
    (XI (XI (XO (XI (XO (XI XH)))))))))))))))))))))))))))))))) :: ((Npos (XO
    (XI (XO (XO (XI (XO (XO (XO (XI (XO (XI (XI (XO (XO (XI (XO (XO (XO (XI
    (XI (XO (XI (XI (XO (XO (XI (XO (XO (XI (XO (XI
    XH)))))))))))))))))))))))))))))))) :: ((Npos (XI (XI (XO (XI (XO (XO (XI
    (XI (XI (XI (XO (XI (XO (XI (XI (XO (XI (XI (XI (XI (XO (XI (XO (XO (XI
    (XI (XI (XI (XI (XO (XI XH)))))))))))))))))))))))))))))))) :: ((Npos (XO
    (XO (XI (XI (XI (XI (XI (XO (XO (XI (XI (XO (XI (XI (XI (XO (XO (XI (XI
    (XI (XO (XI (XI (XI (XI (XI (XO (XI (XI (XO (XI
    XH)))))))))))))))))))))))))))))))) :: ((Npos (XI (XO (XO (XO (XO (XO (XI
    (XI (XI (XI (XO (XI (XO (XO (XI (XI (XI (XO (XO (XO (XO (XI (XO (XI (XI
    (XI (XO (XO (XO (XI (XI XH)))))))))))))))))))))))))))))))) :: ((Npos (XO
    (XI (XI (XO (XI (XI (XI (XO (XO (XI (XI (XO (XI (XO (XI (XI (XO (XO (XO
    (XO (XO (XI (XI (XO (XI (XI (XI (XO (XO (XI (XI
    XH)))))))))))))))))))))))))))))))) :: ((Npos (XI (XI (XI (XI (XO (XI (XO
    (XI (XO (XO (XO (XO (XI (XI (XI (XI (XI (XI (XO (XO (XO (XI (XO (XO (XO
    (XI (XO (XI (XO (XI (XI XH)))))))))))))))))))))))))))))))) :: ((Npos (XO
    (XO (XO (XI (XI (XO (XO (XO (XI (XO (XI (XI (XO (XI (XI (XI (XO (XI (XO
    (XO (XO (XI (XI (XI (XO (XI (XI (XI (XO (XI (XI
    XH)))))))))))))))))))))))))))))))) :: ((Npos (XI (XO (XI (XI (XI (XO (XO
    (XO (XI (XO (XI (XI (XI (XI (XO (XI (XI (XO (XI (XO (XO (XI (XO (XI (XO
    (XO (XO (XO (XI (XI (XI XH)))))))))))))))))))))))))))))))) :: ((Npos (XO
    (XI (XO (XI (XO (XI (XO (XI (XO (XO (XO (XO (XO (XI (XO (XI (XO (XO (XI
    (XO (XO (XI (XI (XO (XO (XO (XI (XO (XI (XI (XI
    XH)))))))))))))))))))))))))))))))) :: ((Npos (XI (XI (XO (XO (XI (XI (XI
    (XO (XO (XI (XI (XO (XO (XO (XO (XI (XI (XI (XI (XO (XO (XI (XO (XO (XI
    (XO (XO (XI (XI (XI (XI XH)))))))))))))))))))))))))))))))) :: ((Npos (XO
    (XO (XI (XO (XO (XO (XI (XI (XI (XI (XO (XI (XI (XO (XO (XI (XO (XI (XI
    (XO (XO (XI (XI (XI (XI (XO (XI (XI (XI (XI (XI
    XH)))))))))))))))))))))))))))))))) :: ((Npos (XI (XO (XO (XI (XO (XO (XO
    (XO (XI (XO (XI (XI (XI (XI (XI (XI (XO (XO (XO (XI (XI (XI (XO (XI (XI
    (XO (XO (XI (XO (XO (XO XH)))))))))))))))))))))))))))))))) :: ((Npos (XO
    (XI (XI (XI (XI (XI (XO (XI (XO (XO (XO (XO (XO (XI (XI (XI (XI (XO (XO
    (XI (XI (XI (XI (XO (XI (XO (XI (XI (XO (XO (XO
    XH)))))))))))))))))))))))))))))))) :: ((Npos (XI (XI (XI (XO (XO (XI (XI
    (XO (XO (XI (XI (XO (XO (XO (XI (XI (XO (XI (XO (XI (XI (XI (XO (XO (XO
    (XO (XO (XO (XO (XO (XO XH)))))))))))))))))))))))))))))))) :: ((Npos (XO
    (XO (XO (XO (XI (XO (XI (XI (XI (XI (XO (XI (XI (XO (XI (XI (XI (XI (XO
    (XI (XI (XI (XI (XI (XO (XO (XI (XO (XO (XO (XO
    XH)))))))))))))))))))))))))))))))) :: ((Npos (XI (XO (XI (XO (XI (XO (XI
    (XI (XI (XI (XO (XI (XO (XO (XO (XI (XO (XO (XI (XI (XI (XI (XO (XI (XO
    (XI (XO (XI (XI (XO (XO XH)))))))))))))))))))))))))))))))) :: ((Npos (XO
    (XI (XO (XO (XO (XI (XI (XO (XO (XI (XI (XO (XI (XO (XO (XI (XI (XO (XI
    (XI (XI (XI (XI (XO (XO (XI (XI (XI (XI (XO (XO
    XH)))))))))))))))))))))))))))))))) :: ((Npos (XI (XI (XO (XI (XI (XI (XO
    (XI (XO (XO (XO (XO (XI (XI (XO (XI (XO (XI (XI (XI (XI (XI (XO (XO (XI
    (XI (XO (XO (XI (XO (XO XH)))))))))))))))))))))))))))))))) :: ((Npos (XO
    (XO (XI (XI (XO (XO (XO (XO (XI (XO (XI (XI (XO (XI (XO (XI (XI (XI (XI
    (XI (XI (XI (XI (XI (XI (XI (XI (XO (XI (XO (XO
    XH)))))))))))))))))))))))))))))))) :: ((Npos (XI (XO (XO (XO (XI (XI (XO
    (XI (XO (XO (XO (XO (XI (XO (XO (XO (XO (XO (XO (XO (XI (XI (XO (XI (XI
    (XI (XI (XI (XO (XI (XO XH)))))))))))))))))))))))))))))))) :: ((Npos (XO
    (XI (XI (XO (XO (XO (XO (XO (XI (XO (XI (XI (XO (XO (XO (XO (XI (XO (XO
    (XO (XI (XI (XI (XO (XI (XI (XO (XI (XO (XI (XO
    XH)))))))))))))))))))))))))))))))) :: ((Npos (XI (XI (XI (XI (XI (XO (XI
    (XI (XI (XI (XO (XI (XO (XI (XO (XO (XO (XI (XO (XO (XI (XI (XO (XO (XO
    (XI (XI (XO (XO (XI (XO XH)))))))))))))))))))))))))))))))) :: ((Npos (XO
    (XO (XO (XI (XO (XI (XI (XO (XO (XI (XI (XO (XI (XI (XO (XO (XI (XI (XO
    (XO (XI (XI (XI (XI (XO (XI (XO (XO (XO (XI (XO
    XH)))))))))))))))))))))))))))))))) :: ((Npos (XI (XO (XI (XI (XO (XI (XI
    (XO (XO (XI (XI (XO (XO (XI (XI (XO (XO (XO (XI (XO (XI (XI (XO (XI (XO
    (XO (XI (XI (XI (XI (XO XH)))))))))))))))))))))))))))))))) :: ((Npos (XO
    (XI (XO (XI (XI (XO (XI (XI (XI (XI (XO (XI (XI (XI (XI (XO (XI (XO (XI
    (XO (XI (XI (XI (XO (XO (XO (XO (XI (XI (XI (XO
    XH)))))))))))))))))))))))))))))))) :: ((Npos (XI (XI (XO (XO (XO (XO (XO
    (XO (XI (XO (XI (XI (XI (XO (XI (XO (XO (XI (XI (XO (XI (XI (XO (XO (XI
    (XO (XI (XO (XI (XI (XO XH)))))))))))))))))))))))))))))))) :: ((Npos (XO
    (XO (XI (XO (XI (XI (XO (XI (XO (XO (XO (XO (XO (XO (XI (XO (XI (XI (XI
    (XO (XI (XI (XI (XI (XI (XO (XO (XO (XI (XI (XO
    XH)))))))))))))))))))))))))))))))) :: [])))))))))))))))))))))))))))))))))))))))))))))))))))))))))))))))))))))))))))))))))))))))))))))))))))))))))))))))))))))))))))))))))))))))))))))))))))))))))))))))))))))))))))))))))))))))))))))))))))))))))))))))))))))))))))))))))))))))))))))))))))))))))))))))

(** val m32 : n **)

let m32 =
  Npos (XO (XO (XO (XO (XO (XO (XO (XO (XO (XO (XO (XO (XO (XO (XO (XO (XO
    (XO (XO (XO (XO (XO (XO (XO (XO (XO (XO (XO (XO (XO (XO (XO
    XH))))))))))))))))))))))))))))))))

(** val crc_byte : n list -> n -> byte -> n res **)

let crc_byte tab acc octet =
  bind
    (idx tab (N.coq_lxor (N.shiftr acc (Npos (XO (XO (XO (XI XH)))))) octet))
    (fun t -> Ret
    (N.coq_lxor
      (N.coq_land (N.shiftl acc (Npos (XO (XO (XO XH)))))
        (N.sub m32 (Npos XH))) t))

(** val crc32_tab : n list -> byte list -> n -> n res **)

let rec crc32_tab tab data acc =
  match data with
  | [] -> Ret acc
  | o :: t -> bind (crc_byte tab acc o) (fun a -> crc32_tab tab t a)

(** val default_crc_res : byte list -> n -> n -> byte list -> n res **)

let default_crc_res pdu ptype total_len label0 =
  bind (crc32_tab cRC_TAB (be16 total_len) cRC_INIT) (fun c ->
    bind (crc32_tab cRC_TAB (be16 ptype) c) (fun c0 ->
      bind (crc32_tab cRC_TAB label0 c0) (fun c1 -> crc32_tab cRC_TAB pdu c1)))

(** val default_crc : byte list -> n -> n -> byte list -> n **)

let default_crc pdu ptype total_len label0 =
  match default_crc_res pdu ptype total_len label0 with
  | Ret v -> v
  | Panic -> N0

(** val hlen_table : n -> n option **)

let hlen_table h =
  if N.eqb h N0
  then None
  else if N.eqb h (Npos XH)
       then Some N0
       else if N.eqb h (Npos (XO XH))
            then Some (Npos (XO XH))
            else if N.eqb h (Npos (XI XH))
                 then Some (Npos (XO (XO XH)))
                 else if N.eqb h (Npos (XO (XO XH)))
                      then Some (Npos (XO (XI XH)))
                      else if N.eqb h (Npos (XI (XO XH)))
                           then Some (Npos (XO (XO (XO XH))))
                           else None

type ext_data =
| D2 of byte list
| D4 of byte list
| D6 of byte list
| D8 of byte list
| DNo
| DMand of byte list

type ext = { ext_id : n; ext_dat : ext_data }

type ext_err =
| XIdAndVecSizeNotMatching
| XIncorrectExtensionId

(** val ext_bytes : ext -> byte list **)

let ext_bytes e =
  match e.ext_dat with
  | D2 b -> b
  | D4 b -> b
  | D6 b -> b
  | D8 b -> b
  | DNo -> []
  | DMand b -> b

(** val ext_len : ext -> n **)

let ext_len e =
  match e.ext_dat with
  | D2 _ -> N.add (Npos (XO XH)) pROTOCOL_LEN
  | D4 _ -> N.add (Npos (XO (XO XH))) pROTOCOL_LEN
  | D6 _ -> N.add (Npos (XO (XI XH))) pROTOCOL_LEN
  | D8 _ -> N.add (Npos (XO (XO (XO XH)))) pROTOCOL_LEN
  | DNo -> pROTOCOL_LEN
  | DMand b -> N.add pROTOCOL_LEN (lenN b)

(** val ext_new : n -> byte list -> (ext, ext_err) sum res **)

let ext_new id data =
  if N.leb sECOND_RANGE_PTYPE id
  then Ret (Inr XIncorrectExtensionId)
  else if N.ltb id mAX_MANDATORY_VAL_PTYPE
       then Ret (Inl { ext_id = id; ext_dat = (DMand data) })
       else bind
              (let h = N.shiftr id (Npos (XO (XO (XO XH)))) in
               if N.ltb h (Npos (XO (XO (XO (XO (XO (XO (XO (XO XH)))))))))
               then Ret h
               else Panic) (fun h ->
              match hlen_table h with
              | Some size ->
                if negb (N.eqb size (lenN data))
                then Ret (Inr XIdAndVecSizeNotMatching)
                else let n0 = lenN data in
                     if N.eqb n0 N0
                     then Ret (Inl { ext_id = id; ext_dat = DNo })
                     else if N.eqb n0 (Npos (XO XH))
                          then Ret (Inl { ext_id = id; ext_dat = (D2 data) })
                          else if N.eqb n0 (Npos (XO (XO XH)))
                               then Ret (Inl { ext_id = id; ext_dat = (D4
                                      data) })
                               else if N.eqb n0 (Npos (XO (XI XH)))
                                    then Ret (Inl { ext_id = id; ext_dat =
                                           (D6 data) })
                                    else if N.eqb n0 (Npos (XO (XO (XO XH))))
                                         then Ret (Inl { ext_id = id;
                                                ext_dat = (D8 data) })
                                         else Panic
              | None -> Panic)

type mand =
| MFinal of n
| MNonFinal of n
| MUnknown

(** val mgr_simple : n -> mand **)

let mgr_simple _ =
  MUnknown

(** val mgr_signal : n -> mand **)

let mgr_signal id =
  if (||) (N.eqb id iNTERNAL_SIGNALING_PROTOCOL_ID) (N.eqb id nCR_PROTOCOL_ID)
  then MFinal N0
  else MUnknown

type enc_state = { re_on : bool; re_max : n; re_cur : n; last : label option }

type ctxfrag = { cf_id : n; cf_crc : n; cf_len : n }

type enc_status =
| Completed of n
| Fragmented of n * ctxfrag

type enc_error =
| ESizeBuffer
| EPduLength
| EProtocolType
| EInvalidLabel
| ENoExtensionFound
| EFinalMandatoryExtensionHeader

type enc_result = (enc_status, enc_error) sum

(** val set_last : enc_state -> label option -> enc_state **)

let set_last s l =
  { re_on = s.re_on; re_max = s.re_max; re_cur = s.re_cur; last = l }

(** val set_cur : enc_state -> n -> enc_state **)

let set_cur s c =
  { re_on = s.re_on; re_max = s.re_max; re_cur = c; last = s.last }

(** val enc_new : enc_state **)

let enc_new =
  { re_on = true; re_max = N0; re_cur = N0; last = None }

(** val enc_reset : enc_state -> enc_state **)

let enc_reset s =
  set_last s None

(** val enc_disable : enc_state -> enc_state **)

let enc_disable _ =
  { re_on = false; re_max = N0; re_cur = N0; last = None }

(** val enc_enable : enc_state -> enc_state **)

let enc_enable s =
  { re_on = true; re_max = N0; re_cur = N0; last = s.last }

(** val enc_enable_max : enc_state -> n -> enc_state **)

let enc_enable_max s m =
  { re_on = true; re_max = m; re_cur = N0; last = s.last }

(** val opt_label_eqb : label option -> label option -> bool **)

let opt_label_eqb a b =
  match a with
  | Some x -> (match b with
               | Some y -> label_eqb x y
               | None -> false)
  | None -> (match b with
             | Some _ -> false
             | None -> true)

(** val update_last : enc_state -> label -> enc_state **)

let update_last s next =
  if label_eqb next LBroadcast
  then set_last s None
  else if negb (label_eqb next LReUse) then set_last s (Some next) else s

(** val check_reuse : enc_state -> label -> (enc_state * label) res **)

let check_reuse s next =
  if s.re_on
  then if opt_label_eqb (Some next) s.last
       then if N.eqb s.re_max N0
            then Ret (s, LReUse)
            else if N.ltb s.re_cur s.re_max
                 then bind
                        (add_chk (Npos (XO (XO (XO XH)))) s.re_cur (Npos XH))
                        (fun c -> Ret ((set_cur s c), LReUse))
                 else Ret ((update_last (set_cur s N0) next), next)
       else Ret ((update_last s next), next)
  else Ret (s, next)

(** val restore : enc_state -> enc_state -> enc_state **)

let restore saved s =
  { re_on = s.re_on; re_max = s.re_max; re_cur = saved.re_cur; last =
    saved.last }

type enc_out = (enc_state * byte list) * enc_result

(** val encap :
    (byte list -> n -> n -> byte list -> n) -> enc_state -> byte list -> n ->
    n -> label -> byte list -> enc_out res **)

let encap crc s pdu fid pt lab buf =
  if is_zero6 lab
  then Ret ((s, buf), (Inr EInvalidLabel))
  else if (&&) (N.leb mAX_MANDATORY_VAL_PTYPE pt)
            (N.ltb pt sECOND_RANGE_PTYPE)
       then Ret ((s, buf), (Inr EProtocolType))
       else bind (check_reuse s lab) (fun x ->
              let (s1, l) = x in
              let ll = label_len l in
              let pl = lenN pdu in
              let gmin = N.add (N.add pl ll) pROTOCOL_LEN in
              let hmin = N.add (N.add fIXED_HEADER_LEN pROTOCOL_LEN) ll in
              let bl = lenN buf in
              if (&&) (N.leb (N.add hmin pl) bl) (N.leb gmin gSE_LEN_MAX)
              then let glen = u16 gmin in
                   bind
                     (write buf N0
                       (be16 (gen_hdr KComplete (label_type l) glen)))
                     (fun b1 ->
                     bind
                       (add_chk (Npos (XO (XO (XO (XO XH))))) glen
                         (u16 fIXED_HEADER_LEN)) (fun n0 ->
                       bind (write b1 fIXED_HEADER_LEN (be16 pt)) (fun b2 ->
                         bind
                           (write b2 (N.add fIXED_HEADER_LEN pROTOCOL_LEN)
                             (label_bytes l)) (fun b3 ->
                           bind (slice pdu N0 pl) (fun src ->
                             bind
                               (write b3
                                 (N.add (N.add fIXED_HEADER_LEN pROTOCOL_LEN)
                                   ll) src) (fun b4 -> Ret ((s1, b4), (Inl
                               (Completed n0)))))))))
              else let hf = N.add (N.add hmin fRAG_ID_LEN) tOTAL_LENGTH_LEN in
                   if N.ltb bl hf
                   then Ret (((restore s s1), buf), (Inr ESizeBuffer))
                   else if N.ltb tOTAL_LEN_MAX
                             (N.add (N.add pl pROTOCOL_LEN) ll)
                        then Ret (((restore s s1), buf), (Inr EPduLength))
                        else bind (subN bl hf) (fun room ->
                               bind (subN hf fIXED_HEADER_LEN) (fun hf2 ->
                                 bind (subN gSE_LEN_MAX hf2) (fun cap0 ->
                                   let pe = N.min room cap0 in
                                   let glen =
                                     u16
                                       (N.add
                                         (N.add
                                           (N.add
                                             (N.add fRAG_ID_LEN
                                               tOTAL_LENGTH_LEN) pROTOCOL_LEN)
                                           ll) pe)
                                   in
                                   bind
                                     (write buf N0
                                       (be16
                                         (gen_hdr KFirst (label_type l) glen)))
                                     (fun b1 ->
                                     bind
                                       (write b1 fIXED_HEADER_LEN (fid :: []))
                                       (fun b2 ->
                                       let tl =
                                         u16
                                           (N.add (N.add pl pROTOCOL_LEN) ll)
                                       in
                                       bind
                                         (write b2
                                           (N.add fIXED_HEADER_LEN
                                             fRAG_ID_LEN) (be16 tl))
                                         (fun b3 ->
                                         bind (slice pdu N0 pl) (fun whole ->
                                           let c = { cf_id = fid; cf_crc =
                                             (crc whole pt tl (label_bytes l));
                                             cf_len = (u16 pe) }
                                           in
                                           let n0 =
                                             u16
                                               (N.add
                                                 (N.add fIRST_FRAG_LEN ll) pe)
                                           in
                                           let off =
                                             N.add
                                               (N.add fIXED_HEADER_LEN
                                                 fRAG_ID_LEN) tOTAL_LENGTH_LEN
                                           in
                                           bind (write b3 off (be16 pt))
                                             (fun b4 ->
                                             bind
                                               (write b4
                                                 (N.add off pROTOCOL_LEN)
                                                 (label_bytes l)) (fun b5 ->
                                               bind (slice pdu N0 pe)
                                                 (fun src ->
                                                 bind
                                                   (write b5
                                                     (N.add
                                                       (N.add off
                                                         pROTOCOL_LEN) ll)
                                                     src) (fun b6 -> Ret
                                                   ((s1, b6), (Inl
                                                   (Fragmented (n0, c))))))))))))))))

(** val encap_frag :
    byte list -> ctxfrag -> byte list -> (byte list * enc_result) res **)

let encap_frag pdu ctx buf =
  let lpf = ctx.cf_len in
  let fid = ctx.cf_id in
  let bl = lenN buf in
  let pl = lenN pdu in
  if N.ltb pl lpf
  then Ret (buf, (Inr EPduLength))
  else bind (subN pl lpf) (fun rem ->
         let gend = N.add (N.add fRAG_ID_LEN rem) cRC_LEN in
         if (&&) (N.leb (N.add gend fIXED_HEADER_LEN) bl)
              (N.leb gend gSE_LEN_MAX)
         then let hdr = gen_hdr KEnd TR (u16 gend) in
              let off = N.add (N.add fIXED_HEADER_LEN fRAG_ID_LEN) rem in
              bind (write buf off (be32 ctx.cf_crc)) (fun b1 ->
                let n0 = u16 (N.add off cRC_LEN) in
                bind (write b1 N0 (be16 hdr)) (fun b2 ->
                  bind (set_idx b2 fIXED_HEADER_LEN fid) (fun b3 ->
                    bind (slice pdu lpf (N.add lpf rem)) (fun src ->
                      bind
                        (write b3 (N.add fIXED_HEADER_LEN fRAG_ID_LEN) src)
                        (fun b4 -> Ret (b4, (Inl (Completed n0))))))))
         else if (&&) (N.ltb (N.add fIXED_HEADER_LEN fRAG_ID_LEN) bl)
                   (N.ltb N0 rem)
              then bind (subN bl (N.add fIXED_HEADER_LEN fRAG_ID_LEN))
                     (fun room ->
                     bind (subN gSE_LEN_MAX fRAG_ID_LEN) (fun cap0 ->
                       let avail = N.min room cap0 in
                       let pe = if N.ltb rem avail then rem else avail in
                       let glen = N.add fRAG_ID_LEN pe in
                       let hdr = gen_hdr KInter TR (u16 glen) in
                       let n0 = u16 (N.add fIXED_HEADER_LEN glen) in
                       let c = { cf_id = fid; cf_crc = ctx.cf_crc; cf_len =
                         (u16 (N.add lpf pe)) }
                       in
                       bind (write buf N0 (be16 hdr)) (fun b2 ->
                         bind (set_idx b2 fIXED_HEADER_LEN fid) (fun b3 ->
                           bind (slice pdu lpf (N.add lpf pe)) (fun src ->
                             bind
                               (write b3 (N.add fIXED_HEADER_LEN fRAG_ID_LEN)
                                 src) (fun b4 -> Ret (b4, (Inl (Fragmented
                               (n0, c))))))))))
              else Ret (buf, (Inr ESizeBuffer)))

(** val last_ext : ext list -> ext res **)

let rec last_ext = function
| [] -> Panic
| e :: t -> (match t with
             | [] -> Ret e
             | _ :: _ -> last_ext t)

(** val sum_ext_len : ext list -> n **)

let rec sum_ext_len = function
| [] -> N0
| e :: t -> N.add (ext_len e) (sum_ext_len t)

(** val write_chain : byte list -> n -> ext list -> (byte list * n) res **)

let rec write_chain buf off = function
| [] -> Panic
| e :: t ->
  (match t with
   | [] ->
     bind (write buf off (ext_bytes e)) (fun b -> Ret (b,
       (N.add off (lenN (ext_bytes e)))))
   | e' :: _ ->
     bind (write buf off (ext_bytes e)) (fun b ->
       let off0 = N.add off (lenN (ext_bytes e)) in
       bind (write b off0 (be16 e'.ext_id)) (fun b0 ->
         write_chain b0 (N.add off0 pROTOCOL_LEN) t)))

(** val encap_ext :
    (byte list -> n -> n -> byte list -> n) -> enc_state -> byte list -> n ->
    n -> label -> byte list -> ext list -> enc_out res **)

let encap_ext crc s pdu fid pt lab buf exts = match exts with
| [] -> Ret ((s, buf), (Inr ENoExtensionFound))
| e0 :: _ ->
  bind (last_ext exts) (fun laste ->
    if (&&) (N.ltb pt mAX_MANDATORY_VAL_PTYPE) (negb (N.eqb laste.ext_id pt))
    then Ret ((s, buf), (Inr EFinalMandatoryExtensionHeader))
    else if (&&) (negb (N.ltb pt mAX_MANDATORY_VAL_PTYPE))
              (N.ltb pt sECOND_RANGE_PTYPE)
         then Ret ((s, buf), (Inr EProtocolType))
         else let final = N.ltb pt mAX_MANDATORY_VAL_PTYPE in
              bind
                (if final
                 then subN (sum_ext_len exts) pROTOCOL_LEN
                 else Ret (sum_ext_len exts)) (fun tle ->
                if is_zero6 lab
                then Ret ((s, buf), (Inr EInvalidLabel))
                else bind (check_reuse s lab) (fun x ->
                       let (s1, l) = x in
                       let ll = label_len l in
                       let pl = lenN pdu in
                       let gmin = N.add (N.add (N.add pl ll) pROTOCOL_LEN) tle
                       in
                       let hmin =
                         N.add
                           (N.add (N.add fIXED_HEADER_LEN pROTOCOL_LEN) ll)
                           tle
                       in
                       let bl = lenN buf in
                       let tail = fun b off pe st ->
                         bind (write b off (be16 e0.ext_id)) (fun b0 ->
                           bind
                             (write b0 (N.add off pROTOCOL_LEN)
                               (label_bytes l)) (fun b1 ->
                             bind
                               (write_chain b1
                                 (N.add (N.add off pROTOCOL_LEN) ll) exts)
                               (fun x0 ->
                               let (b2, off2) = x0 in
                               bind
                                 (if final
                                  then Ret (b2, off2)
                                  else bind (write b2 off2 (be16 pt))
                                         (fun b3 -> Ret (b3,
                                         (N.add off2 pROTOCOL_LEN))))
                                 (fun x1 ->
                                 let (b3, off3) = x1 in
                                 bind (slice pdu N0 pe) (fun src ->
                                   bind (write b3 off3 src) (fun b4 -> Ret
                                     ((s1, b4), (Inl st))))))))
                       in
                       if (&&) (N.leb (N.add hmin pl) bl)
                            (N.leb gmin gSE_LEN_MAX)
                       then let glen = u16 gmin in
                            bind
                              (write buf N0
                                (be16 (gen_hdr KComplete (label_type l) glen)))
                              (fun b1 ->
                              bind
                                (add_chk (Npos (XO (XO (XO (XO XH))))) glen
                                  (u16 fIXED_HEADER_LEN)) (fun n0 ->
                                tail b1 fIXED_HEADER_LEN pl (Completed n0)))
                       else let hf =
                              N.add (N.add hmin fRAG_ID_LEN) tOTAL_LENGTH_LEN
                            in
                            if N.ltb bl hf
                            then Ret (((restore s s1), buf), (Inr
                                   ESizeBuffer))
                            else if N.ltb tOTAL_LEN_MAX
                                      (N.add (N.add pl pROTOCOL_LEN) ll)
                                 then Ret (((restore s s1), buf), (Inr
                                        EPduLength))
                                 else bind (subN hf fIXED_HEADER_LEN)
                                        (fun hf2 ->
                                        if N.ltb gSE_LEN_MAX hf2
                                        then Ret (((restore s s1), buf), (Inr
                                               EPduLength))
                                        else bind (subN bl hf) (fun room ->
                                               bind (subN gSE_LEN_MAX hf2)
                                                 (fun cap0 ->
                                                 let pe = N.min room cap0 in
                                                 let glen =
                                                   u16
                                                     (N.add
                                                       (N.add
                                                         (N.add
                                                           (N.add
                                                             (N.add
                                                               fRAG_ID_LEN
                                                               tOTAL_LENGTH_LEN)
                                                             pROTOCOL_LEN) ll)
                                                         pe) tle)
                                                 in
                                                 bind
                                                   (write buf N0
                                                     (be16
                                                       (gen_hdr KFirst
                                                         (label_type l) glen)))
                                                   (fun b1 ->
                                                   bind
                                                     (write b1
                                                       fIXED_HEADER_LEN
                                                       (fid :: []))
                                                     (fun b2 ->
                                                     let tl =
                                                       u16
                                                         (N.add
                                                           (N.add pl
                                                             pROTOCOL_LEN) ll)
                                                     in
                                                     bind
                                                       (write b2
                                                         (N.add
                                                           fIXED_HEADER_LEN
                                                           fRAG_ID_LEN)
                                                         (be16 tl))
                                                       (fun b3 ->
                                                       bind (slice pdu N0 pl)
                                                         (fun whole ->
                                                         let c = { cf_id =
                                                           fid; cf_crc =
                                                           (crc whole pt tl
                                                             (label_bytes l));
                                                           cf_len = (u16 pe) }
                                                         in
                                                         let n0 =
                                                           u16
                                                             (N.add
                                                               (N.add
                                                                 (N.add
                                                                   fIRST_FRAG_LEN
                                                                   ll) tle)
                                                               pe)
                                                         in
                                                         tail b3
                                                           (N.add
                                                             (N.add
                                                               fIXED_HEADER_LEN
                                                               fRAG_ID_LEN)
                                                             tOTAL_LENGTH_LEN)
                                                           pe (Fragmented
                                                           (n0, c))))))))))))

type preview = { pv_kind : kind; pv_pdu_len : n; pv_pkt_len : n }

(** val encap_preview :
    byte list -> n -> label -> byte list -> (preview, enc_error) sum res **)

let encap_preview pdu pt lab buf =
  let ll = label_len lab in
  let pl = lenN pdu in
  let gmin = N.add (N.add pl ll) pROTOCOL_LEN in
  if is_zero6 lab
  then Ret (Inr EInvalidLabel)
  else if (&&) (N.leb mAX_MANDATORY_VAL_PTYPE pt)
            (N.ltb pt sECOND_RANGE_PTYPE)
       then Ret (Inr EProtocolType)
       else let hmin = N.add (N.add fIXED_HEADER_LEN pROTOCOL_LEN) ll in
            let bl = lenN buf in
            if (&&) (N.leb (N.add hmin pl) bl) (N.leb gmin gSE_LEN_MAX)
            then bind
                   (add_chk (Npos (XO (XO (XO (XO XH))))) (u16 gmin)
                     (u16 fIXED_HEADER_LEN)) (fun n0 -> Ret (Inl { pv_kind =
                   KComplete; pv_pdu_len = pl; pv_pkt_len = n0 }))
            else let hf = N.add (N.add hmin fRAG_ID_LEN) tOTAL_LENGTH_LEN in
                 if N.ltb bl hf
                 then Ret (Inr ESizeBuffer)
                 else if N.ltb tOTAL_LEN_MAX
                           (N.add (N.add pl pROTOCOL_LEN) ll)
                      then Ret (Inr EPduLength)
                      else bind (subN bl hf) (fun room ->
                             bind (subN hf fIXED_HEADER_LEN) (fun hf2 ->
                               bind (subN gSE_LEN_MAX hf2) (fun cap0 ->
                                 let pe = N.min room cap0 in
                                 let glen =
                                   u16
                                     (N.add
                                       (N.add
                                         (N.add
                                           (N.add fRAG_ID_LEN
                                             tOTAL_LENGTH_LEN) pROTOCOL_LEN)
                                         ll) pe)
                                 in
                                 bind
                                   (add_chk (Npos (XO (XO (XO (XO XH)))))
                                     glen (u16 fIXED_HEADER_LEN)) (fun n0 ->
                                   Ret (Inl { pv_kind = KFirst; pv_pdu_len =
                                   pl; pv_pkt_len = n0 })))))

(** val encap_frag_preview :
    byte list -> ctxfrag -> byte list -> (preview, enc_error) sum res **)

let encap_frag_preview pdu ctx buf =
  let lpf = ctx.cf_len in
  let bl = lenN buf in
  let pl = lenN pdu in
  if N.ltb pl lpf
  then Ret (Inr EPduLength)
  else bind (subN pl lpf) (fun rem ->
         let gend = N.add (N.add fRAG_ID_LEN rem) cRC_LEN in
         if (&&) (N.leb (N.add gend fIXED_HEADER_LEN) bl)
              (N.leb gend gSE_LEN_MAX)
         then Ret (Inl { pv_kind = KEnd; pv_pdu_len = rem; pv_pkt_len =
                (u16
                  (N.add (N.add (N.add fIXED_HEADER_LEN fRAG_ID_LEN) rem)
                    cRC_LEN)) })
         else if (&&) (N.ltb (N.add fIXED_HEADER_LEN fRAG_ID_LEN) bl)
                   (N.ltb N0 rem)
              then bind (subN bl (N.add fIXED_HEADER_LEN fRAG_ID_LEN))
                     (fun room ->
                     bind (subN gSE_LEN_MAX fRAG_ID_LEN) (fun cap0 ->
                       let avail = N.min room cap0 in
                       let pe = if N.ltb rem avail then rem else avail in
                       Ret (Inl { pv_kind = KInter; pv_pdu_len = pe;
                       pv_pkt_len =
                       (u16 (N.add fIXED_HEADER_LEN (N.add fRAG_ID_LEN pe))) })))
              else Ret (Inr ESizeBuffer))

type sbuf = { bid : n; bdata : byte list }

type dctx = { c_label : label; c_ptype : n; c_fid : n; c_total : n;
              c_pdulen : n; c_reuse : bool; c_exts : ext list }

type mctx = dctx * sbuf

type mem_error =
| MOverflow of sbuf
| MUnderflow
| MUndefinedId
| MTooSmall of sbuf
| MCorrupted

type mem = { storages : sbuf list; frags : mctx option list; max_frag_id : 
             n; max_pdu_size : n; cap : n }

(** val mIN_MARGIN : n **)

let mIN_MARGIN =
  Npos (XO XH)

(** val set_storages : mem -> sbuf list -> mem **)

let set_storages m s =
  { storages = s; frags = m.frags; max_frag_id = m.max_frag_id;
    max_pdu_size = m.max_pdu_size; cap = m.cap }

(** val set_frags : mem -> mctx option list -> mem **)

let set_frags m f =
  { storages = m.storages; frags = f; max_frag_id = m.max_frag_id;
    max_pdu_size = m.max_pdu_size; cap = m.cap }

(** val noneN : n -> 'a1 option list **)

let noneN n0 =
  N.recursion [] (fun _ l -> None :: l) n0

(** val mem_new : n -> n -> mem **)

let mem_new max_frag max_pdu =
  { storages = []; frags = (noneN max_frag); max_frag_id = max_frag;
    max_pdu_size = max_pdu; cap = (N.add max_frag mIN_MARGIN) }

(** val provision : mem -> sbuf -> mem * mem_error option **)

let provision m b =
  if N.eqb m.cap (lenN m.storages)
  then (m, (Some (MOverflow b)))
  else if N.ltb (lenN b.bdata) m.max_pdu_size
       then (m, (Some (MTooSmall b)))
       else ((set_storages m (b :: m.storages)), None)

(** val new_pdu : mem -> mem * (sbuf, mem_error) sum **)

let new_pdu m =
  match m.storages with
  | [] -> (m, (Inr MUnderflow))
  | b :: t -> ((set_storages m t), (Inl b))

(** val set_nth : 'a1 list -> n -> 'a1 -> 'a1 list res **)

let rec set_nth l i v =
  match l with
  | [] -> Panic
  | x :: t ->
    if N.eqb i N0
    then Ret (v :: t)
    else bind (set_nth t (N.pred i) v) (fun t' -> Ret (x :: t'))

(** val get_slot : mem -> n -> mctx option res **)

let get_slot m i =
  match nthN i m.frags with
  | Some s -> Ret s
  | None -> Panic

(** val slot_idx : mem -> n -> n res **)

let slot_idx m fid =
  if N.eqb m.max_frag_id N0 then Panic else Ret (N.modulo fid m.max_frag_id)

(** val new_frag : mem -> dctx -> (mem * (mctx, mem_error) sum) res **)

let new_frag m c =
  if N.eqb m.max_frag_id N0
  then Ret (m, (Inr MUnderflow))
  else bind (slot_idx m c.c_fid) (fun i ->
         bind (get_slot m i) (fun old ->
           bind (set_nth m.frags i None) (fun fr ->
             let m1 = set_frags m fr in
             (match old with
              | Some m0 -> let (_, b) = m0 in Ret (m1, (Inl (c, b)))
              | None ->
                let (m2, s) = new_pdu m1 in
                (match s with
                 | Inl b -> Ret (m2, (Inl (c, b)))
                 | Inr e -> Ret (m2, (Inr e)))))))

(** val take_frag : mem -> n -> (mem * (mctx, mem_error) sum) res **)

let take_frag m fid =
  if N.eqb m.max_frag_id N0
  then Ret (m, (Inr MUndefinedId))
  else bind (slot_idx m fid) (fun i ->
         bind (get_slot m i) (fun cur ->
           match cur with
           | Some m0 ->
             let (c, b) = m0 in
             if N.eqb c.c_fid fid
             then bind (set_nth m.frags i None) (fun fr -> Ret
                    ((set_frags m fr), (Inl (c, b))))
             else Ret (m, (Inr MUndefinedId))
           | None -> Ret (m, (Inr MUndefinedId))))

(** val save_frag : mem -> mctx -> (mem * mem_error option) res **)

let save_frag m cb =
  if N.eqb m.max_frag_id N0
  then Ret (m, (Some MCorrupted))
  else bind (slot_idx m (fst cb).c_fid) (fun i ->
         bind (get_slot m i) (fun cur ->
           match cur with
           | Some _ -> Ret (m, (Some MCorrupted))
           | None ->
             bind (set_nth m.frags i (Some cb)) (fun fr -> Ret
               ((set_frags m fr), None))))

type dmeta = { md_pdu_len : n; md_ptype : n; md_label : label;
               md_exts : ext list }

type dec_status =
| DCompleted of sbuf * dmeta
| DFragmented of dmeta
| DPadding

type dec_error =
| DSizeBuffer
| DTotalLength
| DGseLength
| DSizePduBuffer
| DProtocolType
| DMemory of mem_error
| DCrc
| DInvalidLabel
| DNoLabelSaved
| DLabelBroadcastSaved
| DLabelReUseSaved
| DUnkownMandatoryHeader

type dec_result = (dec_status * n, dec_error * n) sum

type dstate = { dmem : mem; dlast : label option }

(** val set_dlast : dstate -> label option -> dstate **)

let set_dlast s l =
  { dmem = s.dmem; dlast = l }

(** val set_dmem : dstate -> mem -> dstate **)

let set_dmem s m =
  { dmem = m; dlast = s.dlast }

(** val dec_new : n -> n -> dstate **)

let dec_new slots max_pdu =
  { dmem = (mem_new slots max_pdu); dlast = None }

(** val dec_reset : dstate -> dstate **)

let dec_reset s =
  set_dlast s None

(** val dec_provision : dstate -> sbuf -> dstate * mem_error option **)

let dec_provision s b =
  let (m, r) = provision s.dmem b in ((set_dmem s m), r)

(** val dec_new_pdu : dstate -> dstate * (sbuf, mem_error) sum **)

let dec_new_pdu s =
  let (m, r) = new_pdu s.dmem in ((set_dmem s m), r)

type walk_err =
| WUnknownMandatory
| WBufferTooSmall

type walk_ok = { w_exts : ext list; w_ptype : n; w_len : n }

(** val ext_new_or_todo : n -> byte list -> ext res **)

let ext_new_or_todo id data =
  bind (ext_new id data) (fun r ->
    match r with
    | Inl e -> Ret e
    | Inr _ -> Panic)

(** val walk :
    (n -> mand) -> nat -> byte list -> n -> n -> ext list -> (walk_ok,
    walk_err) sum option res **)

let rec walk mgr fuel pdu ptype offset acc =
  if negb (N.ltb ptype sECOND_RANGE_PTYPE)
  then Ret (Some (Inl { w_exts = acc; w_ptype = ptype; w_len = offset }))
  else (match fuel with
        | O -> Ret None
        | S fuel' ->
          let pdu_len = lenN pdu in
          bind
            (let h =
               N.shiftr (N.coq_land ptype h_LEN_MASK) (Npos (XO (XO (XO XH))))
             in
             if N.ltb h (Npos (XO (XO (XO (XO (XO (XO (XO (XO XH)))))))))
             then Ret h
             else Panic) (fun h ->
            let next = fun offset0 acc0 ->
              if N.ltb pdu_len (N.add offset0 pROTOCOL_LEN)
              then Ret (Some (Inr WBufferTooSmall))
              else bind (slice pdu offset0 (N.add offset0 pROTOCOL_LEN))
                     (fun s ->
                     walk mgr fuel' pdu (rd16 s) (N.add offset0 pROTOCOL_LEN)
                       acc0)
            in
            if N.eqb h N0
            then (match mgr ptype with
                  | MFinal size ->
                    if N.ltb pdu_len (N.add offset size)
                    then Ret (Some (Inr WBufferTooSmall))
                    else bind (slice pdu offset (N.add offset size))
                           (fun d ->
                           bind (ext_new_or_todo ptype d) (fun e -> Ret (Some
                             (Inl { w_exts = (app acc (e :: [])); w_ptype =
                             ptype; w_len = (N.add offset size) }))))
                  | MNonFinal size ->
                    if N.ltb pdu_len (N.add offset size)
                    then Ret (Some (Inr WBufferTooSmall))
                    else bind (slice pdu offset (N.add offset size))
                           (fun d ->
                           bind (ext_new_or_todo ptype d) (fun e ->
                             next (N.add offset size) (app acc (e :: []))))
                  | MUnknown -> Ret (Some (Inr WUnknownMandatory)))
            else (match hlen_table h with
                  | Some size ->
                    if N.ltb pdu_len (N.add offset size)
                    then Ret (Some (Inr WBufferTooSmall))
                    else bind (slice pdu offset (N.add offset size))
                           (fun d ->
                           bind (ext_new_or_todo ptype d) (fun e ->
                             next (N.add offset size) (app acc (e :: []))))
                  | None -> Panic)))

(** val iterate_ext :
    (n -> mand) -> byte list -> n -> (walk_ok, walk_err) sum option res **)

let iterate_ext mgr pdu first_id =
  walk mgr (S (length pdu)) pdu first_id N0 []

type dec_out = dstate * dec_result

(** val derr : dstate -> dec_error -> n -> dec_out res **)

let derr s e n0 =
  Ret (s, (Inr (e, n0)))

(** val resolve_label :
    dstate -> ltype -> label -> (dstate * label, dec_error) sum res **)

let resolve_label s t lab =
  match t with
  | TB -> Ret (Inl ((set_dlast s None), LBroadcast))
  | TR ->
    (match s.dlast with
     | Some l ->
       (match l with
        | LBroadcast -> Ret (Inr DLabelBroadcastSaved)
        | LReUse -> Ret (Inr DLabelReUseSaved)
        | _ -> Ret (Inl (s, l)))
     | None -> Ret (Inr DNoLabelSaved))
  | _ -> Ret (Inl ((set_dlast s (Some lab)), lab))

(** val decap_complete :
    (n -> mand) -> dstate -> byte list -> ltype -> n -> n -> dec_out res **)

let decap_complete mgr s buf t pkt_len gse_len =
  let buffer_len = lenN buf in
  let ll = ltype_len t in
  if N.ltb gse_len (N.add ll pROTOCOL_LEN)
  then derr (set_dlast s None) DGseLength buffer_len
  else bind
         (slice buf fIXED_HEADER_LEN (N.add fIXED_HEADER_LEN pROTOCOL_LEN))
         (fun pts ->
         let ptype = rd16 pts in
         let offset = N.add fIXED_HEADER_LEN pROTOCOL_LEN in
         bind (slice buf offset (N.add offset ll)) (fun lb ->
           bind (label_new t lb) (fun lab ->
             let offset0 = N.add offset ll in
             if is_zero6 lab
             then derr (set_dlast s None) DInvalidLabel pkt_len
             else bind
                    (if N.ltb ptype sECOND_RANGE_PTYPE
                     then bind (slice buf offset0 pkt_len) (fun sl ->
                            bind (iterate_ext mgr sl ptype) (fun r ->
                              match r with
                              | Some r0 -> Ret r0
                              | None -> Panic))
                     else Ret (Inl { w_exts = []; w_ptype = ptype; w_len =
                            N0 })) (fun wr ->
                    match wr with
                    | Inl w ->
                      let offset1 = N.add offset0 w.w_len in
                      let hel = w.w_len in
                      bind (resolve_label s t lab) (fun rl ->
                        match rl with
                        | Inl p ->
                          let (s1, cur) = p in
                          let (m, s0) = new_pdu s1.dmem in
                          (match s0 with
                           | Inl pb ->
                             let s2 = set_dmem s1 m in
                             let pbl = lenN pb.bdata in
                             if N.ltb
                                  (N.add (N.add (N.add pbl ll) hel)
                                    pROTOCOL_LEN) gse_len
                             then let (m', o) = provision m pb in
                                  (match o with
                                   | Some _ -> Panic
                                   | None ->
                                     derr (set_dlast (set_dmem s2 m') None)
                                       DSizePduBuffer pkt_len)
                             else bind (subN gse_len ll) (fun x ->
                                    bind (subN x hel) (fun x0 ->
                                      bind (subN x0 pROTOCOL_LEN) (fun cpl ->
                                        bind
                                          (slice buf offset1
                                            (N.add offset1 cpl)) (fun src ->
                                          bind (write pb.bdata N0 src)
                                            (fun data ->
                                            let md = { md_pdu_len = cpl;
                                              md_ptype = w.w_ptype;
                                              md_label = cur; md_exts =
                                              w.w_exts }
                                            in
                                            Ret (s2, (Inl ((DCompleted
                                            ({ bid = pb.bid; bdata = data },
                                            md)), pkt_len))))))))
                           | Inr e ->
                             derr (set_dlast (set_dmem s1 m) None) (DMemory
                               e) pkt_len)
                        | Inr e -> derr (set_dlast s None) e pkt_len)
                    | Inr w ->
                      (match w with
                       | WUnknownMandatory ->
                         derr (set_dlast s None) DUnkownMandatoryHeader
                           pkt_len
                       | WBufferTooSmall ->
                         derr (set_dlast s None) DSizePduBuffer buffer_len)))))

(** val give_back : dstate -> sbuf -> dec_error -> n -> dec_out res **)

let give_back s pb e pkt_len =
  let (m, o) = provision s.dmem pb in
  (match o with
   | Some me -> derr (set_dmem s m) (DMemory me) pkt_len
   | None -> derr (set_dmem s m) e pkt_len)

(** val decap_first :
    (n -> mand) -> dstate -> byte list -> ltype -> n -> n -> dec_out res **)

let decap_first mgr s buf t pkt_len gse_len =
  let buffer_len = lenN buf in
  let ll = ltype_len t in
  if N.ltb gse_len
       (N.add (N.add (N.add ll pROTOCOL_LEN) fRAG_ID_LEN) tOTAL_LENGTH_LEN)
  then derr (set_dlast s None) DGseLength buffer_len
  else bind (slice buf fIXED_HEADER_LEN (N.add fIXED_HEADER_LEN fRAG_ID_LEN))
         (fun fs ->
         bind (idx fs N0) (fun fid ->
           let offset = N.add fIXED_HEADER_LEN fRAG_ID_LEN in
           bind (slice buf offset (N.add offset tOTAL_LENGTH_LEN))
             (fun tls ->
             let total_len = rd16 tls in
             let offset0 = N.add offset tOTAL_LENGTH_LEN in
             bind (slice buf offset0 (N.add offset0 pROTOCOL_LEN))
               (fun pts ->
               let ptype = rd16 pts in
               let offset1 = N.add offset0 pROTOCOL_LEN in
               bind (slice buf offset1 (N.add offset1 ll)) (fun lb ->
                 bind (label_new t lb) (fun lab ->
                   let offset2 = N.add offset1 ll in
                   if is_zero6 lab
                   then derr (set_dlast s None) DInvalidLabel pkt_len
                   else bind (resolve_label s t lab) (fun rl ->
                          match rl with
                          | Inl p ->
                            let (s1, cur) = p in
                            bind
                              (if N.ltb ptype sECOND_RANGE_PTYPE
                               then bind (slice buf offset2 pkt_len)
                                      (fun sl ->
                                      bind (iterate_ext mgr sl ptype)
                                        (fun r ->
                                        match r with
                                        | Some r0 -> Ret r0
                                        | None -> Panic))
                               else Ret (Inl { w_exts = []; w_ptype = ptype;
                                      w_len = N0 })) (fun wr ->
                              match wr with
                              | Inl w ->
                                let offset3 = N.add offset2 w.w_len in
                                let hel = w.w_len in
                                bind
                                  (subN gse_len
                                    (N.add
                                      (N.add
                                        (N.add
                                          (N.add fRAG_ID_LEN tOTAL_LENGTH_LEN)
                                          ll) hel) pROTOCOL_LEN)) (fun cpl ->
                                  if N.leb total_len (u16 cpl)
                                  then derr (set_dlast s1 None) DTotalLength
                                         buffer_len
                                  else let c = { c_label = cur; c_ptype =
                                         w.w_ptype; c_fid = fid; c_total =
                                         total_len; c_pdulen = (u16 cpl);
                                         c_reuse = (ltype_eqb t TR); c_exts =
                                         w.w_exts }
                                       in
                                       bind (new_frag s1.dmem c) (fun nf ->
                                         let (m, s0) = nf in
                                         (match s0 with
                                          | Inl m0 ->
                                            let (c', pb) = m0 in
                                            let s2 = set_dmem s1 m in
                                            let pbl = lenN pb.bdata in
                                            if N.ltb
                                                 (N.add
                                                   (N.add
                                                     (N.add
                                                       (N.add (N.add pbl ll)
                                                         hel) pROTOCOL_LEN)
                                                     fRAG_ID_LEN)
                                                   tOTAL_LENGTH_LEN) gse_len
                                            then give_back
                                                   (set_dlast s2 None) pb
                                                   DSizePduBuffer pkt_len
                                            else bind
                                                   (slice buf offset3
                                                     (N.add offset3 cpl))
                                                   (fun src ->
                                                   bind
                                                     (write pb.bdata N0 src)
                                                     (fun data ->
                                                     let md = { md_pdu_len =
                                                       N0; md_ptype =
                                                       c'.c_ptype; md_label =
                                                       c'.c_label; md_exts =
                                                       w.w_exts }
                                                     in
                                                     bind
                                                       (save_frag m (c',
                                                         { bid = pb.bid;
                                                         bdata = data }))
                                                       (fun sv ->
                                                       let (m', o) = sv in
                                                       (match o with
                                                        | Some e ->
                                                          derr
                                                            (set_dmem s2 m')
                                                            (DMemory e)
                                                            pkt_len
                                                        | None ->
                                                          Ret
                                                            ((set_dmem s2 m'),
                                                            (Inl
                                                            ((DFragmented
                                                            md), pkt_len)))))))
                                          | Inr e ->
                                            derr
                                              (set_dlast (set_dmem s1 m) None)
                                              (DMemory e) pkt_len)))
                              | Inr w ->
                                (match w with
                                 | WUnknownMandatory ->
                                   derr (set_dlast s1 None)
                                     DUnkownMandatoryHeader pkt_len
                                 | WBufferTooSmall ->
                                   derr (set_dlast s1 None) DSizePduBuffer
                                     buffer_len))
                          | Inr e -> derr (set_dlast s None) e pkt_len)))))))

(** val decap_intermediate : dstate -> byte list -> n -> n -> dec_out res **)

let decap_intermediate s buf pkt_len gse_len =
  let buffer_len = lenN buf in
  if N.leb gse_len fRAG_ID_LEN
  then derr (set_dlast s None) DGseLength buffer_len
  else bind (idx buf fIXED_HEADER_LEN) (fun fid ->
         let offset = N.add fIXED_HEADER_LEN fRAG_ID_LEN in
         bind (subN gse_len fRAG_ID_LEN) (fun cpl ->
           bind (take_frag s.dmem fid) (fun tf ->
             let (m, s0) = tf in
             (match s0 with
              | Inl m0 ->
                let (c, pb) = m0 in
                let s1 = set_dmem s m in
                bind (subN (lenN pb.bdata) c.c_pdulen) (fun pbl ->
                  if (||) (N.ltb pbl cpl)
                       (N.ltb (Npos (XI (XI (XI (XI (XI (XI (XI (XI (XI (XI
                         (XI (XI (XI (XI (XI XH))))))))))))))))
                         (N.add c.c_pdulen cpl))
                  then give_back s1 pb DSizePduBuffer pkt_len
                  else bind (slice buf offset (N.add offset cpl)) (fun src ->
                         bind (write pb.bdata c.c_pdulen src) (fun data ->
                           bind
                             (add_chk (Npos (XO (XO (XO (XO XH)))))
                               c.c_pdulen (u16 cpl)) (fun npl ->
                             let c' = { c_label = c.c_label; c_ptype =
                               c.c_ptype; c_fid = c.c_fid; c_total =
                               c.c_total; c_pdulen = npl; c_reuse =
                               c.c_reuse; c_exts = c.c_exts }
                             in
                             let md = { md_pdu_len = N0; md_ptype =
                               c'.c_ptype; md_label = c'.c_label; md_exts =
                               c'.c_exts }
                             in
                             bind
                               (save_frag m (c', { bid = pb.bid; bdata =
                                 data })) (fun sv ->
                               let (m', o) = sv in
                               (match o with
                                | Some e ->
                                  derr (set_dmem s1 m') (DMemory e) pkt_len
                                | None ->
                                  Ret ((set_dmem s1 m'), (Inl ((DFragmented
                                    md), pkt_len)))))))))
              | Inr e -> derr (set_dmem s m) (DMemory e) pkt_len))))

(** val decap_end :
    (byte list -> n -> n -> byte list -> n) -> dstate -> byte list -> n -> n
    -> dec_out res **)

let decap_end crc s buf pkt_len gse_len =
  let buffer_len = lenN buf in
  if N.ltb gse_len (N.add fRAG_ID_LEN cRC_LEN)
  then derr (set_dlast s None) DSizeBuffer buffer_len
  else bind (idx buf fIXED_HEADER_LEN) (fun fid ->
         let offset = N.add fIXED_HEADER_LEN fRAG_ID_LEN in
         bind (subN gse_len (N.add fRAG_ID_LEN cRC_LEN)) (fun cpl ->
           bind (take_frag s.dmem fid) (fun tf ->
             let (m, s0) = tf in
             (match s0 with
              | Inl m0 ->
                let (c, pb) = m0 in
                let s1 = set_dmem s m in
                bind (subN (lenN pb.bdata) c.c_pdulen) (fun pbl ->
                  if N.ltb pbl cpl
                  then give_back s1 pb DSizePduBuffer pkt_len
                  else bind (slice buf offset (N.add offset cpl)) (fun src ->
                         bind (write pb.bdata c.c_pdulen src) (fun data ->
                           let pb' = { bid = pb.bid; bdata = data } in
                           let offset0 = N.add offset cpl in
                           bind (slice buf offset0 (N.add offset0 cRC_LEN))
                             (fun crcs ->
                             let received = rd32 crcs in
                             let pdu_len = N.add c.c_pdulen cpl in
                             let md = { md_pdu_len = pdu_len; md_ptype =
                               c.c_ptype; md_label = c.c_label; md_exts =
                               c.c_exts }
                             in
                             let first_ll =
                               if c.c_reuse
                               then N0
                               else ltype_len (label_type c.c_label)
                             in
                             let crc_label =
                               if c.c_reuse then [] else label_bytes c.c_label
                             in
                             if negb
                                  (N.eqb c.c_total
                                    (N.add (N.add pdu_len pROTOCOL_LEN)
                                      first_ll))
                             then give_back s1 pb' DTotalLength pkt_len
                             else bind (slice data N0 pdu_len) (fun whole ->
                                    if negb
                                         (N.eqb
                                           (crc whole c.c_ptype c.c_total
                                             crc_label) received)
                                    then give_back s1 pb' DCrc pkt_len
                                    else Ret (s1, (Inl ((DCompleted (pb',
                                           md)), pkt_len))))))))
              | Inr e -> derr (set_dmem s m) (DMemory e) pkt_len))))

(** val decap :
    (byte list -> n -> n -> byte list -> n) -> (n -> mand) -> dstate -> byte
    list -> dec_out res **)

let decap crc mgr s buf =
  let buffer_len = lenN buf in
  if N.ltb buffer_len fIXED_HEADER_LEN
  then derr (set_dlast s None) DSizeBuffer buffer_len
  else bind (slice buf N0 fIXED_HEADER_LEN) (fun hs ->
         bind (read_hdr (rd16 hs)) (fun h ->
           match h with
           | Some p ->
             let (p0, t) = p in
             let (gse_len, k) = p0 in
             let pkt_len = N.add gse_len fIXED_HEADER_LEN in
             if N.ltb buffer_len pkt_len
             then derr (set_dlast s None) DSizeBuffer buffer_len
             else (match k with
                   | KComplete -> decap_complete mgr s buf t pkt_len gse_len
                   | KFirst -> decap_first mgr s buf t pkt_len gse_len
                   | KInter -> decap_intermediate s buf pkt_len gse_len
                   | KEnd -> decap_end crc s buf pkt_len gse_len)
           | None -> Ret ((set_dlast s None), (Inl (DPadding, buffer_len)))))

type peek_ok =
| PLabel of label
| PFragId of n

type peek_err =
| PErrLabelReuse
| PErrSizeBuffer
| PErrHeaderRead

(** val peek : byte list -> (peek_ok, peek_err) sum res **)

let peek buf =
  let bl = lenN buf in
  if N.ltb bl fIXED_HEADER_LEN
  then Ret (Inr PErrSizeBuffer)
  else bind (idx buf N0) (fun b0 ->
         bind (idx buf (Npos XH)) (fun b1 ->
           bind (read_hdr (rd16 (b0 :: (b1 :: [])))) (fun h ->
             match h with
             | Some p ->
               let (p0, t) = p in
               let (_, k) = p0 in
               if (||) (kind_eqb k KInter) (kind_eqb k KEnd)
               then if N.ltb bl
                         (N.add (N.add fIXED_HEADER_LEN pROTOCOL_LEN)
                           (ltype_len t))
                    then Ret (Inr PErrSizeBuffer)
                    else bind (idx buf fIXED_HEADER_LEN) (fun f -> Ret (Inl
                           (PFragId f)))
               else if ltype_eqb t TB
                    then Ret (Inl (PLabel LBroadcast))
                    else if ltype_eqb t TR
                         then Ret (Inr PErrLabelReuse)
                         else let offset =
                                if kind_eqb k KFirst
                                then N.add fIXED_HEADER_LEN
                                       (N.add tOTAL_LENGTH_LEN fRAG_ID_LEN)
                                else fIXED_HEADER_LEN
                              in
                              let offset0 = N.add offset pROTOCOL_LEN in
                              if N.ltb bl (N.add offset0 (ltype_len t))
                              then Ret (Inr PErrSizeBuffer)
                              else (match t with
                                    | T6 ->
                                      bind
                                        (slice buf offset0
                                          (N.add offset0 lABEL_6_B_LEN))
                                        (fun lb ->
                                        bind (label_new T6 lb) (fun l -> Ret
                                          (Inl (PLabel l))))
                                    | T3 ->
                                      bind
                                        (slice buf offset0
                                          (N.add offset0 lABEL_3_B_LEN))
                                        (fun lb ->
                                        bind (label_new T3 lb) (fun l -> Ret
                                          (Inl (PLabel l))))
                                    | _ -> Panic)
             | None -> Ret (Inr PErrHeaderRead))))

type u_complete = { uc_gse_len : n; uc_ptype : n; uc_label : label;
                    uc_pdu : byte list }

type u_first = { uf_gse_len : n; uf_fid : n; uf_total : n; uf_ptype : 
                 n; uf_label : label; uf_pdu : byte list }

type u_inter = { ui_gse_len : n; ui_fid : n; ui_pdu : byte list }

type u_end = { ue_gse_len : n; ue_fid : n; ue_pdu : byte list; ue_crc : n }

(** val gen_complete : u_complete -> byte list -> byte list res **)

let gen_complete d buf =
  bind
    (write buf N0
      (be16 (gen_hdr KComplete (label_type d.uc_label) d.uc_gse_len)))
    (fun b ->
    bind (write b fIXED_HEADER_LEN (be16 d.uc_ptype)) (fun b0 ->
      let off = N.add fIXED_HEADER_LEN pROTOCOL_LEN in
      bind (write b0 off (label_bytes d.uc_label)) (fun b1 ->
        let off0 = N.add off (label_len d.uc_label) in write b1 off0 d.uc_pdu)))

(** val read_hdr_unwrap : byte list -> ((n * kind) * ltype) res **)

let read_hdr_unwrap buf =
  bind (slice buf N0 fIXED_HEADER_LEN) (fun hs ->
    bind (read_hdr (rd16 hs)) (fun h ->
      match h with
      | Some x -> Ret x
      | None -> Panic))

(** val to_u16 : n -> n res **)

let to_u16 x =
  if N.ltb x (Npos (XO (XO (XO (XO (XO (XO (XO (XO (XO (XO (XO (XO (XO (XO
       (XO (XO XH)))))))))))))))))
  then Ret x
  else Panic

(** val parse_complete : byte list -> u_complete option res **)

let parse_complete buf =
  bind (read_hdr_unwrap buf) (fun x ->
    let (p, t) = x in
    let (gse_len, k) = p in
    if negb (kind_eqb k KComplete)
    then Ret None
    else bind
           (slice buf fIXED_HEADER_LEN (N.add fIXED_HEADER_LEN pROTOCOL_LEN))
           (fun pts ->
           let off = N.add fIXED_HEADER_LEN pROTOCOL_LEN in
           bind (slice buf off (N.add off (ltype_len t))) (fun lb ->
             bind (label_new t lb) (fun lab ->
               let off0 = N.add off (label_len lab) in
               bind (slice buf off0 (N.add gse_len fIXED_HEADER_LEN))
                 (fun pdu ->
                 bind (to_u16 gse_len) (fun g -> Ret (Some { uc_gse_len = g;
                   uc_ptype = (rd16 pts); uc_label = lab; uc_pdu = pdu })))))))

(** val gen_first : u_first -> byte list -> byte list res **)

let gen_first d buf =
  bind
    (write buf N0
      (be16 (gen_hdr KFirst (label_type d.uf_label) d.uf_gse_len))) (fun b ->
    bind (write b fIXED_HEADER_LEN (d.uf_fid :: [])) (fun b0 ->
      let off = N.add fIXED_HEADER_LEN fRAG_ID_LEN in
      bind (write b0 off (be16 d.uf_total)) (fun b1 ->
        let off0 = N.add off tOTAL_LENGTH_LEN in
        bind (write b1 off0 (be16 d.uf_ptype)) (fun b2 ->
          let off1 = N.add off0 pROTOCOL_LEN in
          bind (write b2 off1 (label_bytes d.uf_label)) (fun b3 ->
            let off2 = N.add off1 (label_len d.uf_label) in
            write b3 off2 d.uf_pdu)))))

(** val parse_first : byte list -> u_first option res **)

let parse_first buf =
  bind (read_hdr_unwrap buf) (fun x ->
    let (p, t) = x in
    let (gse_len, k) = p in
    if negb (kind_eqb k KFirst)
    then Ret None
    else bind
           (slice buf fIXED_HEADER_LEN (N.add fIXED_HEADER_LEN fRAG_ID_LEN))
           (fun fs ->
           bind (idx fs N0) (fun fid ->
             let off = N.add fIXED_HEADER_LEN fRAG_ID_LEN in
             bind (slice buf off (N.add off tOTAL_LENGTH_LEN)) (fun tls ->
               let off0 = N.add off tOTAL_LENGTH_LEN in
               bind (slice buf off0 (N.add off0 pROTOCOL_LEN)) (fun pts ->
                 let off1 = N.add off0 pROTOCOL_LEN in
                 bind (slice buf off1 (N.add off1 (ltype_len t))) (fun lb ->
                   bind (label_new t lb) (fun lab ->
                     let off2 = N.add off1 (label_len lab) in
                     bind (slice buf off2 (N.add gse_len fIXED_HEADER_LEN))
                       (fun pdu ->
                       bind (to_u16 gse_len) (fun g -> Ret (Some
                         { uf_gse_len = g; uf_fid = fid; uf_total =
                         (rd16 tls); uf_ptype = (rd16 pts); uf_label = lab;
                         uf_pdu = pdu }))))))))))

(** val gen_inter : u_inter -> byte list -> byte list res **)

let gen_inter d buf =
  bind (write buf N0 (be16 (gen_hdr KInter TR d.ui_gse_len))) (fun b ->
    bind (write b fIXED_HEADER_LEN (d.ui_fid :: [])) (fun b0 ->
      let off = N.add fIXED_HEADER_LEN fRAG_ID_LEN in write b0 off d.ui_pdu))

(** val parse_inter : byte list -> u_inter option res **)

let parse_inter buf =
  bind (read_hdr_unwrap buf) (fun x ->
    let (p, _) = x in
    let (gse_len, k) = p in
    if negb (kind_eqb k KInter)
    then Ret None
    else bind
           (slice buf fIXED_HEADER_LEN (N.add fIXED_HEADER_LEN fRAG_ID_LEN))
           (fun fs ->
           bind (idx fs N0) (fun fid ->
             let off = N.add fIXED_HEADER_LEN fRAG_ID_LEN in
             bind (slice buf off (N.add gse_len fIXED_HEADER_LEN))
               (fun pdu ->
               bind (to_u16 gse_len) (fun g -> Ret (Some { ui_gse_len = g;
                 ui_fid = fid; ui_pdu = pdu }))))))

(** val gen_end : u_end -> byte list -> byte list res **)

let gen_end d buf =
  bind (write buf N0 (be16 (gen_hdr KEnd TR d.ue_gse_len))) (fun b ->
    bind (write b fIXED_HEADER_LEN (d.ue_fid :: [])) (fun b0 ->
      let off = N.add fIXED_HEADER_LEN fRAG_ID_LEN in
      bind (write b0 off d.ue_pdu) (fun b1 ->
        let off0 = N.add off (lenN d.ue_pdu) in write b1 off0 (be32 d.ue_crc))))

(** val parse_end : byte list -> u_end option res **)

let parse_end buf =
  bind (read_hdr_unwrap buf) (fun x ->
    let (p, _) = x in
    let (gse_len, k) = p in
    if negb (kind_eqb k KEnd)
    then Ret None
    else bind
           (slice buf fIXED_HEADER_LEN (N.add fIXED_HEADER_LEN fRAG_ID_LEN))
           (fun fs ->
           bind (idx fs N0) (fun fid ->
             let off = N.add fIXED_HEADER_LEN fRAG_ID_LEN in
             bind (subN (N.add gse_len fIXED_HEADER_LEN) cRC_LEN) (fun e ->
               bind (slice buf off e) (fun pdu ->
                 bind (slice buf e (N.add e cRC_LEN)) (fun cs ->
                   bind (to_u16 gse_len) (fun g -> Ret (Some { ue_gse_len =
                     g; ue_fid = fid; ue_pdu = pdu; ue_crc = (rd32 cs) }))))))))
