(* Packet kinds, labels, label types (src/pkt_type.rs, src/label/mod.rs). *)
Require Import GSE.gen.Consts GSE.model.Base.
Open Scope N_scope.

Inductive kind := KComplete | KFirst | KInter | KEnd.
Inductive ltype := T6 | T3 | TB | TR.

(* Label: the Rust arrays [u8;6] / [u8;3] are byte lists here; well-formedness = exact length *)
Inductive label := L6 (b : list byte) | L3 (b : list byte) | LBroadcast | LReUse.

Definition kind_eqb (a b : kind) : bool :=
  match a, b with
  | KComplete, KComplete | KFirst, KFirst | KInter, KInter | KEnd, KEnd => true
  | _, _ => false end.
Definition ltype_eqb (a b : ltype) : bool :=
  match a, b with T6, T6 | T3, T3 | TB, TB | TR, TR => true | _, _ => false end.

(* LabelType::len *)
Definition ltype_len (t : ltype) : N :=
  match t with T6 => LABEL_6_B_LEN | T3 => LABEL_3_B_LEN | TB => LABEL_BROADCAST_LEN | TR => LABEL_REUSE_LEN end.
(* Label::get_type / len / get_bytes *)
Definition label_type (l : label) : ltype :=
  match l with L6 _ => T6 | L3 _ => T3 | LBroadcast => TB | LReUse => TR end.
Definition label_len (l : label) : N :=
  match l with L6 _ => LABEL_6_B_LEN | L3 _ => LABEL_3_B_LEN | LBroadcast => LABEL_BROADCAST_LEN | LReUse => LABEL_REUSE_LEN end.
Definition label_bytes (l : label) : list byte :=
  match l with L6 b | L3 b => b | _ => [] end.
(* Label::new(label_type, slice): panics ("Wrong size label content") on a length mismatch *)
Definition label_new (t : ltype) (b : list byte) : res label :=
  if lenN b =? ltype_len t then
    Ret (match t with T6 => L6 b | T3 => L3 b | TB => LBroadcast | TR => LReUse end)
  else Panic.
(* derived PartialEq *)
Definition label_eqb (a b : label) : bool :=
  match a, b with
  | L6 x, L6 y | L3 x, L3 y => bytes_eqb x y
  | LBroadcast, LBroadcast | LReUse, LReUse => true
  | _, _ => false end.
Definition label_wf (l : label) : Prop :=
  match l with L6 b => lenN b = 6 /\ bytes_ok b | L3 b => lenN b = 3 /\ bytes_ok b | _ => True end.
Definition label_wfb (l : label) : bool :=
  match l with L6 b => (lenN b =? 6) && bytes_okb b | L3 b => (lenN b =? 3) && bytes_okb b | _ => true end.
(* label == Label::SixBytesLabel([0,0,0,0,0,0]) *)
Definition is_zero6 (l : label) : bool := label_eqb l (L6 [0;0;0;0;0;0]).
