"""Property registry: per property the pinned theorems, the correspondence families, the property-specific case
generator and the oracle(s): an executable reading of the property text evaluated on the implementation's
observations only (own parser / CRC / bookkeeping from gsepy, never the Coq model)."""
from cases import *
from gsepy import *

PROPS = {}


def prop(pid, theorems, families, gen, oracles, **kw):
    PROPS[pid] = dict(theorems=theorems, families=families, gen=gen, oracles=oracles, **kw)


def no_cases(rng, t):
    return []


# ------------------------------------------------------------------------------------------------
# C14 header codec
# ------------------------------------------------------------------------------------------------
def gen_c14(rng, t):
    c = Case("c14_read")
    for w in range(65536):
        c.add("HREAD %d" % w)
    d = Case("c14_gen")
    for k in "CFIE":
        for lt in "63BR":
            for l in range(4096):
                d.add("HGEN %s %s %d" % (k, lt, l))
    # the answer for a word is a function of the word alone, whatever was read before: every padding word twice in a row behind
    # a non-padding word, random words read twice, random walks
    e = Case("c14_read_seq")
    for p in range(4096):
        e.add("HREAD %d" % rng.range(4096, 65535), "HREAD %d" % p, "HREAD %d" % p)
    for _ in range(3000 * t):
        w = rng.below(65536)
        e.add("HREAD %d" % w, "HREAD %d" % rng.choice([w, w ^ (1 << rng.below(16)), rng.below(4096), rng.below(65536)]), "HREAD %d" % w)
    return [c, d, e]


LTS = {"6": 0, "3": 1, "B": 2, "R": 3}


def orc_c14(case, obs):
    bad = []
    if not case.name.startswith("c14"):
        return bad
    for op, ob in zip(case.ops, obs):
        t = op.split()
        if t[0] == "HREAD":
            w = int(t[1])
            if ob == "PANIC":
                bad.append("read_gse_header(%#06x) panics" % w)
            elif ob == "none":
                if w >> 12 != 0:
                    bad.append("read_gse_header(%#06x) = None for a non-padding value" % w)
            else:
                l, k, lt = ob.split()
                if w >> 12 == 0:
                    bad.append("read_gse_header(%#06x) yields a packet for the padding pattern" % w)
                elif int.from_bytes(header(k, LTS[lt], int(l)), "big") != w or int(l) > 4095:
                    bad.append("read_gse_header(%#06x) = (%s,%s,%s) does not re-encode to the value" % (w, l, k, lt))
        elif t[0] == "HGEN":
            k, lt, l = t[1], t[2], int(t[3])
            if ob == "PANIC":
                bad.append("generate_gse_header panics on %s" % op)
            elif int(ob) != int.from_bytes(header(k, LTS[lt], l), "big"):
                bad.append("generate_gse_header(%s,%s,%d) = %s" % (k, lt, l, ob))
        if len(bad) > 5:
            break
    return bad


prop("C14", ["c14_read_total_and_inverse", "c14_gen_inverse", "c14_wire_layout"], ["HDR"], gen_c14, [orc_c14],
     exhaustive="HDR: all 65536 header words and all 16 x 4096 (kind, label type, length) triples, every run", exhaustive_run=True)


# ------------------------------------------------------------------------------------------------
# helpers over ENC observations
# ------------------------------------------------------------------------------------------------
KNOWN_EXT = {0x0005: ("N", 3), 0x0007: ("N", 0), 0x0042: ("N", 5), 0x0081: ("F", 0), 0x0082: ("F", 0), 0x0033: ("F", 2),
             0x0009: ("N", None)}


class EncObs:
    """one ENCAP / EEXT / EFRAG / EFRAGC observation, decoded"""

    def __init__(self, ob):
        self.raw = ob
        self.panic = ob.startswith("PANIC")
        self.skip = ob == "skip"
        w, d = kv(ob)
        self.ok = (not self.panic) and w and w[0] == "ok"
        self.err = w[1] if (w and w[0] == "err") else None
        self.status = w[1] if self.ok else None          # C | F
        self.n = int(w[2]) if self.ok else None
        self.ctx = tuple(int(x) for x in w[3:6]) if self.ok and self.status == "F" else None
        self.pkt = bytes.fromhex(d["pkt"]) if self.ok and d.get("pkt", "-") != "-" else b""
        self.tail = d.get("tail")
        self.st = ob[ob.index(" st=") + 4:] if " st=" in ob else None


def enc_ops(case, obs):
    """yield (op tokens, EncObs, previous encapsulator state string) for the encap-like ops of a case"""
    st = None
    for op, ob in zip(case.ops, obs):
        t = op.split(" ")
        if t[0] in ("ENEW", "ERESET", "EDIS", "EEN", "EENMAX"):
            st = ob[4:] if ob.startswith("enc ") else st
            yield t, None, st
        elif t[0] in ("ENCAP", "EEXT", "EFRAG", "EFRAGC"):
            e = EncObs(ob)
            yield t, e, st
            if e.st is not None:
                st = e.st
        else:
            yield t, None, st


# ------------------------------------------------------------------------------------------------
# C12 CRC
# ------------------------------------------------------------------------------------------------
def orc_c12(case, obs):
    bad = []
    last = None   # (pdu, ptype) of the last ENCAP/EEXT
    ctx = None
    rx = None     # c12_rx cases: the train the receiver has accepted so far
    for (t, e, _), ob in zip(enc_ops(case, obs), obs):
        if t[0] == "CRC":
            exp = gse_crc(tok_bytes(t[1]), int(t[2]), int(t[3]), tok_bytes(t[4]))
            if ob != str(exp):
                bad.append("DefaultCrc(%s) = %s, CRC-32/MPEG-2 = %d" % (" ".join(t[1:])[:80], ob, exp))
        elif t[0] in ("ENCAP", "EEXT") and e is not None and e.ok and e.status == "F":
            pdu, pt = tok_bytes(t[1]), int(t[3])
            p = parse_packet(e.pkt, KNOWN_EXT_FIXED)
            if isinstance(p, str) or p.kind != "F":
                continue  # C06's business
            written = label_bytes(p.label)
            exp = gse_crc(pdu, pt, p.total, written)
            if e.ctx[1] != exp:
                bad.append("context CRC %d != CRC-32/MPEG-2 %d over total=%d ptype=%d label=%s" % (e.ctx[1], exp, p.total, pt, p.label))
            ctx = e.ctx
        elif t[0] in ("EFRAG", "EFRAGC") and e is not None and e.ok and e.status == "C":
            crc = int(t[3]) if t[0] == "EFRAG" else (ctx[1] if ctx else None)
            if crc is not None and e.pkt[-4:] != crc.to_bytes(4, "big"):
                bad.append("end packet trailer %s != context CRC %08x" % (e.pkt[-4:].hex(), crc))
        elif t[0] == "DECAP" and case.name.startswith("c12_rx"):
            p = parse_packet(tok_bytes(t[1]))
            if isinstance(p, str):
                continue
            if p.kind == "F":
                rx = {"fid": p.fid, "total": p.total, "pt": p.ptype, "lb": label_bytes(p.label), "data": bytes(p.payload)} if ob.startswith("ok fragmented") else None
            elif p.kind == "I" and rx is not None and p.fid == rx["fid"]:
                rx = dict(rx, data=rx["data"] + bytes(p.payload)) if ob.startswith("ok fragmented") else None
            elif p.kind == "E" and rx is not None and p.fid == rx["fid"]:
                if len(rx["data"]) + len(p.payload) + 2 + len(rx["lb"]) == rx["total"]:
                    std = gse_crc(rx["data"] + bytes(p.payload), rx["pt"], rx["total"], rx["lb"])
                    if p.crc == std and not ob.startswith("ok completed"):
                        bad.append("trailer %08x is the CRC-32/MPEG-2 of total|type|label|PDU, the receiver answers %s" % (p.crc, ob[:40]))
                    if p.crc != std and not ob.startswith("err Crc"):
                        bad.append("trailer %08x differs from the CRC-32/MPEG-2 %08x the receiver has to recompute, it answers %s" % (p.crc, std, ob[:40]))
                rx = None
        elif t[0] == "DECAPN" and ob.startswith("err Crc"):
            # every train in these cases is produced by the sender and delivered in order to a receiver that knows the chain
            bad.append("the receiver computes another CRC than the trailer the sender appended (err Crc on an unmodified train)")
        if t[0] in ("EFRAG", "EFRAGC") and e is not None and e.ok and e.status == "F":
            ctx = e.ctx
    return bad


KNOWN_EXT_FIXED = {k: v for k, v in KNOWN_EXT.items() if v[1] is not None}


def gen_c12(rng, t):
    out = fam_crc(rng, 200 * t)
    # fragmented sends whose context CRC and trailer are checked against the independent CRC
    for i in range(300 * t):
        c = Case("c12_frag%d" % i)
        lab = rng.choice(LABELS)
        pl = rng.range(1, 300)
        enc_prelude(rng, c, lab)
        c.add("ENCAP %s %d %d %s %d 5" % (pdu_tok(rng, pl), rng.below(256), rng.choice([0x0800, 0xFFFF, 0x0081]), lab,
                                         rng.range(7 + lab_len(lab), 8 + lab_len(lab) + pl // 2)))
        for _ in range(4):
            c.add("EFRAGC %d 1" % rng.choice([8, 20, 400]))
        out.append(c)
    # the same through encap_ext (re-used labels, final mandatory extensions), delivered to a receiver: the arguments both
    # sides pass to the CRC (label as written, protocol type behind the chain, total length) must be those of the standard
    for i in range(300 * t):
        c = Case("c12_ext%d" % i)
        lab = rng.choice(LABELS)
        pl = rng.range(1, 200)
        c.add("ENEW", "DNEW 2 200 %s" % MGR_ALL, "DPROV 200", "DPROV 201")
        if rng.chance(0.5) and lab != "B":
            c.add("ENCAP - 0 2048 %s 40 1" % lab, "DECAPN -", "DPROVBACK")      # the next label is re-used
        pt = rng.choice([0x0800, 0xFFFF, 0x0081, 0x0033])
        ch = rand_chain(rng, final_id=(pt if pt < 0x100 else None), maxn=3)
        el = sum(2 + len(d) for _, d in ch)
        c.add("EEXT %s %d %d %s %d 5 %s" % (pdu_tok(rng, pl), rng.below(256), pt, lab,
                                           rng.range(7 + lab_len(lab) + el, 8 + lab_len(lab) + el + pl // 2), exts_tok(ch)), "DECAPN -")
        for _ in range(4):
            c.add("EFRAGC %d 1" % rng.choice([8, 20, 400]), "DECAPN -")
        out.append(c)
    # the receiver's side alone: hand-built trains whose trailer is the standard CRC (must be delivered) or differs from it in
    # one to four of its bytes, the others coinciding (must be refused with ErrorCrc); PDUs of 0, 1, .. bytes
    for i in range(200 * t):
        c = Case("c12_rx%d" % i)
        lab = rng.choice([L6A, L3A, "B"])
        pl = rng.choice([0, 0, 1, 2, rng.range(0, 40), rng.range(0, 200)])
        pdu = rng.bytes(pl)
        pt = rng.choice([0x0800, 0xFFFF, 0x86DD])
        fid = rng.below(256)
        c.add("DNEW 2 200 simple", "DPROV 200", "DPROV 201")
        nf = rng.choice([1, 1, 2, 3])
        sizes, left = [rng.range(0, min(pl, 20))], pl
        left -= sizes[0]
        for _ in range(nf - 1):
            if left >= 1:
                sizes.append(rng.range(1, max(1, left // 2)))
                left -= sizes[-1]
        pk = fragment(pdu, fid, pt, lab, sizes)
        mode = rng.below(3)
        if mode:
            tr = bytearray(pk[-1][-4:])
            for pos in rng.choice([[0], [1], [2], [3], [0, 1], [2, 3], [0, 1, 2], [1, 2, 3], [0, 1, 2, 3]]):
                tr[pos] ^= rng.range(1, 255)
            pk[-1] = pk[-1][:-4] + bytes(tr)
        for q in pk:
            c.add("DECAP %s" % hx(q))
        out.append(c)
    return out


prop("C12", ["c12_table", "c12_default_crc", "c12_spec_unfold", "c12_bit_serial"], ["CRC"], gen_c12, [orc_c12],
     exhaustive="CRC: every table index at three byte positions; c12_table is proved for all 256 generated entries")


# ------------------------------------------------------------------------------------------------
# C09 totality and failure atomicity
# ------------------------------------------------------------------------------------------------
def orc_c09(case, obs):
    bad = []
    for (t, e, st), ob in zip(enc_ops(case, obs), obs):
        if t[0] in ("PENCAP", "PFRAG") and ob.startswith("PANIC"):
            bad.append("%s panics" % " ".join(t)[:100])
        if e is None or e.skip:
            continue
        what = " ".join(t)[:120]
        if e.panic:
            bad.append("panic: %s" % what)
            continue
        if e.err is not None:
            if e.tail != "1":
                bad.append("failed call modified the buffer: %s" % what)
            if e.st is not None and st is not None and e.st != st:
                bad.append("failed call changed the encapsulator (%s -> %s): %s" % (st, e.st, what))
        if t[0] in ("ENCAP", "EEXT"):
            pl = len(tok_bytes(t[1]))
            pt = int(t[3])
            if e.ok and t[4] == ZERO6:
                bad.append("packet produced for the zero 6-byte label")
            if e.ok and 0x100 <= pt <= 0x5FF:
                bad.append("packet produced for protocol type %#x" % pt)
            if e.ok:
                ll = LT_LEN[(e.pkt[0] >> 4) & 3]
                if pl + 2 + ll > 65535:
                    bad.append("packet produced for a %d-byte PDU (total length > 65535)" % pl)
        if t[0] == "EFRAG" and e.ok and int(t[4]) > len(tok_bytes(t[1])):
            bad.append("encap_frag accepted a context beyond the PDU")
    return bad


def gen_c09(rng, t):
    out = []
    # failing call in the middle of a history: the next packet must be what it would have been
    for i in range(400 * t):
        a, b = Case("c09_with%d" % i), Case("c09_without%d" % i)
        pre = ["ENEW"]
        if rng.chance(0.3):
            pre.append("EENMAX %d" % rng.choice([1, 2]))
        for _ in range(rng.range(0, 3)):
            pre.append("ENCAP g5.1 0 2048 %s 40 1" % rng.choice([L6A, L6B, L3A, "B"]))
        lab = rng.choice([L6A, L6B, L3A])
        fail = rng.choice(["ENCAP g5.1 0 2048 %s %d 1" % (lab, rng.range(0, 6)),
                           "ENCAP g66000.1 0 2048 %s 70 1" % lab,
                           "EEXT g5.1 0 2048 %s 3 1 0200:0102" % lab,
                           "ENCAP g5.1 0 256 %s 40 1" % lab,
                           "ENCAP g5.1 0 2048 %s 40 1" % ZERO6])
        nxt = "ENCAP g7.2 1 2048 %s %d 2" % (rng.choice([lab, L6A, L3A]), rng.choice([12, 40]))
        a.ops = pre + [fail, nxt]
        b.ops = pre + [nxt]
        a.meta["pair"] = b.name
        out += [a, b]
    return out


def orc_c09_pairs(cases_by_name, impl):
    """the packet after a failed call equals the packet without it"""
    bad = []
    for name, c in cases_by_name.items():
        if "pair" not in c.meta:
            continue
        a, b = impl.get(name), impl.get(c.meta["pair"])
        if not a or not b:
            continue
        fa = EncObs(a[-2])
        if fa.err is None:
            continue
        if a[-1] != b[-1]:
            bad.append((c, "after the failed call %r the next call returns %r instead of %r" % (c.ops[-2][:60], a[-1][:120], b[-1][:120])))
    return bad


prop("C09", ["c09_reachable_wf", "c09_total_encap", "c09_total_encap_frag", "c09_total_previews", "c09_atomic_encap",
             "c09_atomic_encap_frag", "c09_rejects", "c09_rejects_frag", "c09_total_encap_ext", "c09_atomic_encap_ext", "c09_rejects_ext"],
     ["ENC", "ENCX", "PRE"], gen_c09, [orc_c09], pair_oracle=orc_c09_pairs)


# ------------------------------------------------------------------------------------------------
# C11 progress and partition
# ------------------------------------------------------------------------------------------------
def orc_c11(case, obs):
    bad = []
    pdu = None
    ctx = None       # (fid, crc, len) the sender currently holds
    calls_since_first = 0
    rem_at_first = None
    all_big = True
    for (t, e, _), ob in zip(enc_ops(case, obs), obs):
        if e is None or e.skip:
            continue
        if t[0] == "EFRAG":
            # the caller's own context: judged like a continuation call when it lies within the PDU
            pdu, ctx = tok_bytes(t[1]), (int(t[2]), int(t[3]), int(t[4]))
            if ctx[2] > len(pdu):
                ctx = None
                continue
            calls_since_first, rem_at_first, all_big = 0, len(pdu) - ctx[2], True
            t = ["EFRAGC", t[5], t[6]]
        if e.panic:
            if t[0] == "EFRAGC" and ctx is not None and pdu is not None and len(pdu) <= 65535:
                # neither a packet nor a rejection: the caller holding a valid context gets no answer at all
                bad.append("encap_frag panics on a %s-byte buffer with %d bytes left instead of rejecting or filling it" % (t[1], len(pdu) - ctx[2]))
                ctx = None
            continue
        if t[0] in ("ENCAP", "EEXT"):
            pdu, ctx = tok_bytes(t[1]), None
            if e.ok and e.status == "F":
                if t[0] == "EEXT":
                    # the extension area is known from the call (the parser cannot size unknown mandatory extensions)
                    chain = c13_parse_exts(t[7])
                    area = sum(2 + len(x) for _, x in chain) - (2 if int(t[3]) < 0x100 else 0)
                    if (e.pkt[0] >> 6) != 2 or len(e.pkt) < 7 + LT_LEN[(e.pkt[0] >> 4) & 3] + area:
                        continue
                    payload = e.pkt[7 + LT_LEN[(e.pkt[0] >> 4) & 3] + area:]
                else:
                    p = parse_packet(e.pkt, KNOWN_EXT_FIXED)
                    if isinstance(p, str) or p.kind != "F":
                        continue
                    payload = p.payload
                fid, crc, ln = e.ctx
                if ln != len(payload):
                    bad.append("first fragment carries %d payload bytes, context says %d" % (len(payload), ln))
                if payload != pdu[:len(payload)]:
                    bad.append("first fragment payload is not the PDU prefix")
                if fid != int(t[2]):
                    bad.append("context frag id %d != %s" % (fid, t[2]))
                ctx = e.ctx
                calls_since_first, rem_at_first, all_big = 0, len(pdu) - ln, True
        elif t[0] == "EFRAGC" and ctx is not None and pdu is not None and len(pdu) <= 65535:
            fid, crc, ln = ctx
            bl = int(t[1])
            calls_since_first += 1
            all_big = all_big and bl >= 7
            rem = len(pdu) - ln
            if e.err is not None:
                can_end = bl >= rem + 7 and rem <= 4090
                if can_end or (bl >= 4 and rem >= 1):
                    bad.append("usable %d-byte buffer rejected (%s) with %d bytes left" % (bl, e.err, rem))
                continue
            p = parse_packet(e.pkt)
            if isinstance(p, str):
                bad.append("continuation packet does not parse: %s" % p)
                ctx = None
                continue
            if p.fid != fid:
                bad.append("fragment id changed %d -> %d" % (fid, p.fid))
            if e.status == "C":
                if p.kind != "E" or p.payload != pdu[ln:] or p.crc != crc:
                    bad.append("end packet does not carry the rest of the PDU and the context CRC")
                if all_big and calls_since_first > rem_at_first + 1:
                    bad.append("%d calls with buffers >= 7 bytes for %d remaining bytes" % (calls_since_first, rem_at_first))
                ctx = None
            else:
                nf, ncrc, nln = e.ctx
                if p.kind != "I" or len(p.payload) < 1:
                    bad.append("continuation answered with an empty / non-intermediate packet")
                if nln != ln + len(p.payload) or p.payload != pdu[ln:nln]:
                    bad.append("context advanced %d -> %d but the packet carries %d bytes / wrong slice" % (ln, nln, len(p.payload)))
                if nf != fid or ncrc != crc:
                    bad.append("frag id / crc changed in the context")
                ctx = e.ctx
                if all_big and calls_since_first > rem_at_first + 1:
                    bad.append("not finished after %d calls with buffers >= 7 bytes (%d bytes were left)" % (calls_since_first, rem_at_first))
    return bad


def gen_c11(rng, t):
    out = []
    for i in range(700 * t):
        c = Case("c11_%d" % i)
        lab = rng.choice(LABELS + ["R"])
        pl = rng.choice([rng.range(1, 40), rng.range(1, 40), rng.range(40, 400), near(rng, 4090, 4096, 8200, lo=1)])
        c.add("ENEW")
        if lab == "R":
            c.add("ENCAP g3.1 0 2048 %s 40 1" % L6A)
        first = rng.range(7 + lab_len(lab), 7 + lab_len(lab) + min(pl, 30))
        c.add("ENCAP %s %d 2048 %s %d 3" % (pdu_tok(rng, pl), rng.below(256), lab, first))
        mode = rng.below(4)
        for k in range(min(pl + 3, 60)):
            if mode == 0:
                c.add("EFRAGC 7 1")          # slowest legal schedule: one byte per call, then the end packet
            elif mode == 1:
                c.add("EFRAGC %d 1" % rng.choice([4, 5, 6, 7, 8, 13]))
            elif mode == 2:
                c.add("EFRAGC %d 1" % rng.choice([0, 2, 3, 4, 9, 20, 100, 4097, 4098, 6000, 65539, 65540]))
            else:
                c.add("EFRAGC %d 1" % rng.range(7, 40))
        out.append(c)
    return out


prop("C11", ["c11_first_ctx", "c11_first_ctx_ext", "c11_step", "c11_partition", "c11_bound", "c11_useless_rejected"], ["ENC", "ENCX"], gen_c11, [orc_c11])


# ------------------------------------------------------------------------------------------------
# C06 well-formed, length-accurate packets
# ------------------------------------------------------------------------------------------------
def orc_c06(case, obs):
    bad = []
    for (t, e, _), ob in zip(enc_ops(case, obs), obs):
        if e is None or not e.ok:
            continue
        what = " ".join(t)[:100]
        bl = int(t[5]) if t[0] in ("ENCAP", "EEXT", "EFRAG") else int(t[1])
        if e.n > bl:
            bad.append("reported length %d exceeds the %d-byte buffer: %s" % (e.n, bl, what))
            continue
        if e.tail != "1":
            bad.append("bytes at or beyond the reported length were modified: %s" % what)
        p = parse_packet(e.pkt, KNOWN_EXT_FIXED)
        if isinstance(p, str):
            bad.append("emitted packet does not parse (%s): %s -> %s" % (p, what, e.pkt[:12].hex()))
            continue
        if p.gse_len + 2 != e.n or p.gse_len > 4095:
            bad.append("GSE length field %d but %d bytes reported: %s" % (p.gse_len, e.n, what))
        exp_kind = {"ENCAP": {"C": "C", "F": "F"}, "EEXT": {"C": "C", "F": "F"}, "EFRAG": {"C": "E", "F": "I"},
                    "EFRAGC": {"C": "E", "F": "I"}}[t[0]][e.status]
        if p.kind != exp_kind:
            bad.append("start/end bits say %s, status says %s: %s" % (p.kind, exp_kind, what))
        if t[0] in ("ENCAP", "EEXT"):
            pdu, fid, pt, lab = tok_bytes(t[1]), int(t[2]), int(t[3]), t[4]
            if getattr(p, "unknown_mandatory", None) is not None:
                continue
            if p.label != lab and not (p.label == "R"):
                bad.append("label on the wire %s, passed %s" % (p.label, lab))
            if p.ptype != pt and t[0] == "ENCAP":
                bad.append("protocol type on the wire %d, passed %d" % (p.ptype, pt))
            if p.kind == "F":
                if p.fid != fid:
                    bad.append("frag id on the wire %d" % p.fid)
                if p.total != 2 + LT_LEN[p.lt] + len(pdu):
                    bad.append("total length %d != 2 + %d + %d" % (p.total, LT_LEN[p.lt], len(pdu)))
            if p.payload != pdu[:len(p.payload)] or (p.kind == "C" and p.payload != pdu):
                bad.append("payload is not the PDU (prefix): %s" % what)
        else:
            if p.lt != 3:
                bad.append("continuation packet with label type %d" % p.lt)
    return bad


prop("C06", ["c06_encap", "c06_encap_frag", "c06_encap_ext"], ["ENC", "ENCX"], no_cases, [orc_c06])


# ------------------------------------------------------------------------------------------------
# C18 previews
# ------------------------------------------------------------------------------------------------
def orc_c18(case, obs):
    bad = []
    for i, (op, ob) in enumerate(zip(case.ops, obs)):
        t = op.split(" ")
        if t[0] not in ("PENCAP", "PFRAG") or i + 1 >= len(case.ops):
            continue
        nxt = case.ops[i + 1].split(" ")
        e = EncObs(obs[i + 1])
        if ob.startswith("PANIC") or e.panic:
            bad.append("panic in %s" % op[:80])
            continue
        w = ob.split(" ")
        if t[0] == "PENCAP" and nxt[0] == "ENCAP":
            if e.ok and (e.pkt[0] >> 4) & 3 == 3 and t[3] != "R":
                continue  # substitution applied
            if e.err is not None:
                if w[:2] != ["err", e.err]:
                    bad.append("encap %s, preview %s: %s" % (e.err, ob, op[:80]))
            else:
                kind = {"C": "C", "F": "F"}[e.status]
                if w[0] != "ok" or w[1] != kind or int(w[3]) != e.n:
                    bad.append("encap %s %d, preview %s: %s" % (e.status, e.n, ob, op[:80]))
        if t[0] == "PFRAG" and nxt[0] == "EFRAG":
            if e.err is not None:
                if w[:2] != ["err", e.err]:
                    bad.append("encap_frag %s, preview %s" % (e.err, ob))
            else:
                kind = {"C": "E", "F": "I"}[e.status]
                payload = e.n - (7 if kind == "E" else 3)
                if w[0] != "ok" or w[1] != kind or int(w[2]) != payload or int(w[3]) != e.n:
                    bad.append("encap_frag %s %d (payload %d), preview %s" % (e.status, e.n, payload, ob))
    return bad


prop("C18", ["c18_preview", "c18_frag_preview"], ["PRE"], no_cases, [orc_c18])


# ------------------------------------------------------------------------------------------------
# C15 re-use policy
# ------------------------------------------------------------------------------------------------
def orc_c15(case, obs):
    bad = []
    enabled, maxn, run = True, 0, 0
    prev = None      # label carried / stood for by the immediately preceding emitted start/complete packet
    for (t, e, _), ob in zip(enc_ops(case, obs), obs):
        if t[0] == "ENEW":
            enabled, maxn, run, prev = True, 0, 0, None
        elif t[0] == "ERESET":
            prev = None
        elif t[0] == "EDIS":
            enabled, maxn, run = False, 0, 0
        elif t[0] == "EEN":
            enabled, maxn, run = True, 0, 0
        elif t[0] == "EENMAX":
            enabled, maxn, run = True, int(t[1]), 0
        elif t[0] == "EISEN":
            if ob != "ok %d" % (1 if enabled else 0):
                bad.append("is_enabled_re_use_label answers %s, the last setting was %s" % (ob, "enabled" if enabled else "disabled"))
        elif t[0] in ("ENCAP", "EEXT") and e is not None and e.ok:
            lab = t[4]
            lt = (e.pkt[0] >> 4) & 3
            if lab == "R":
                continue            # the caller asked for the marker: outside the policy clauses
            if lab == "B":
                if lt == 3:
                    bad.append("re-use marker written for a broadcast label (only a 3- or 6-byte label may be substituted): %s" % " ".join(t)[:80])
                prev, run = None, 0
                continue
            if lt == 3:             # substituted
                if not enabled:
                    bad.append("re-use marker substituted while re-use is disabled: %s" % " ".join(t)[:80])
                if prev != lab:
                    bad.append("re-use marker substituted for %s but the preceding packet carried %s" % (lab, prev))
                run += 1
                if maxn > 0 and run > maxn:
                    bad.append("%d consecutive re-use packets with a maximum of %d" % (run, maxn))
            else:
                prev, run = lab, 0
    return bad


def gen_c15(rng, t):
    out = []
    for i in range(600 * t):
        c = Case("c15_%d" % i)
        c.add("ENEW")
        labs = [L6A, L6A, L6A, L6B, L3A, "B", "R", L6C, L6A, L6D, L3C]      # L6C / L6D / L3C share three bytes with L6A
        for _ in range(rng.range(3, 30)):
            r = rng.below(20)
            if r < 13:
                lab = rng.choice(labs)
                kind = rng.below(10)
                if kind < 7:
                    c.add("ENCAP g6.1 0 2048 %s 40 1" % lab)
                elif kind < 8:
                    c.add("ENCAP g6.1 0 2048 %s %d 1" % (lab, rng.range(0, 8)))      # too small: fails or fragments
                elif kind < 9:
                    c.add("ENCAP g66000.1 0 2048 %s 80 1" % lab)                      # PDU too long: fails late
                elif rng.chance(0.5):
                    c.add("EEXT g6.1 0 2048 %s 60 1 0200:0102" % lab)
                else:
                    # encap_ext calls rejected before anything is written: forbidden protocol type, final mandatory id that is
                    # not the last extension's, no extension, too small a buffer; the next packet must not notice them
                    c.add(rng.choice(["EEXT g6.1 0 %d %s 60 1 0200:0102" % (rng.choice(PTYPES_BAD), lab),
                                      "EEXT g6.1 0 129 %s 60 1 0200:0102" % lab,
                                      "EEXT g6.1 0 2048 %s 60 1 -" % lab,
                                      "EEXT g6.1 0 2048 %s %d 1 0200:0102" % (lab, rng.range(0, 10)),
                                      "EEXT g66000.1 0 2048 %s 80 1 0200:0102" % lab]))
            elif r < 14:
                c.add("ERESET")
            elif r < 15:
                c.add("EDIS")
            elif r < 16:
                c.add("EEN")
            else:
                c.add("EENMAX %d" % rng.choice([1, 2, 3, 255]))
            if r >= 13 and rng.chance(0.5):
                c.add("EISEN")
        out.append(c)
    # counter wrap: long runs with max 255
    c = Case("c15_long")
    c.add("ENEW", "EENMAX 255")
    for _ in range(600):
        c.add("ENCAP g2.1 0 2048 %s 20 1" % L6A)
    out.append(c)
    return out


prop("C15", ["c15_link", "c15_link_ext", "c15_invariant", "c15_disabled", "c15_sub_only_same", "c15_after_reset_or_bcast", "c15_max"],
     ["ENC", "ENCX"], gen_c15, [orc_c15])


# ------------------------------------------------------------------------------------------------
# C17 memory contract: a bag of free buffers plus one saved context per slot, evaluated in Python
# ------------------------------------------------------------------------------------------------
def fnv64(b):
    h = 0xcbf29ce484222325
    for x in b:
        h ^= x
        h = (h * 0x100000001b3) & 0xFFFFFFFFFFFFFFFF
    return "%016x" % h


def orc_c17(case, obs):
    bad = []
    if not any(o.startswith("M") for o in case.ops):
        return bad
    slots = maxpdu = 0
    free, slot, owned, held, nprov = [], {}, [], None, 0

    def bstr(b):
        return "%d:%s" % (len(b), fnv64(b))

    def cstr(c):          # ctx token fid,total,pdulen,reuse,label,ptype -> printed form (adds exts "-")
        return c + ",-"

    for op, ob in zip(case.ops, obs):
        t = op.split(" ")
        exp = None
        if t[0] == "DNEW":
            slots, maxpdu = int(t[1]), int(t[2])
            free, slot, owned, held, nprov = [], {}, [], None, 0
            exp = "ok"
        elif t[0] in ("DPROV", "DPROVBACK"):
            if t[0] == "DPROV":
                b = bytes([(nprov * 37 + 11) & 0xFF]) * int(t[1])
                nprov += 1
            elif owned:
                b = owned.pop()
            else:
                exp = "none"
                b = None
            if b is not None:
                if len(free) == slots + 2:
                    exp = "err Overflow:%d" % len(b)
                    owned.append(b)
                elif len(b) < maxpdu:
                    exp = "err TooSmall:%d" % len(b)
                    owned.append(b)
                else:
                    free.append(b)
                    exp = "ok"
        elif t[0] == "DNEWPDU":
            if free:
                b = free.pop()
                owned.append(b)
                exp = "ok " + bstr(b)
            else:
                exp = "err Underflow"
        elif t[0] == "MNEWFRAG":
            fid = int(t[1].split(",")[0])
            if slots == 0:
                exp = "err Underflow"
            else:
                i = fid % slots
                if i in slot:
                    _, b = slot.pop(i)
                elif free:
                    b = free.pop()
                else:
                    b = None
                    exp = "err Underflow"
                if b is not None:
                    if held:
                        owned.append(held[1])
                    held = (t[1], b)
                    exp = "ok %s;%s" % (cstr(t[1]), bstr(b))
        elif t[0] == "MTAKE":
            fid = int(t[1])
            i = fid % slots if slots else None
            if i is not None and i in slot and int(slot[i][0].split(",")[0]) == fid:
                c, b = slot.pop(i)
                if held:
                    owned.append(held[1])
                held = (c, b)
                exp = "ok %s;%s" % (cstr(c), bstr(b))
            else:
                exp = "err UndefinedId"
        elif t[0] in ("MSAVE", "MSAVEC"):
            if held is None:
                exp = "none"
            else:
                c, b = held
                held = None
                if t[0] == "MSAVEC":
                    c = t[1]
                fid = int(c.split(",")[0])
                if slots == 0 or (fid % slots) in slot:
                    exp = "err Corrupted"      # the trait consumes the context: the buffer is gone by design
                else:
                    slot[fid % slots] = (c, b)
                    exp = "ok"
        elif t[0] == "DOBS":
            fr = " ".join(bstr(b) for b in reversed(free))
            ss = []
            for i in sorted(slot, key=lambda i: int(slot[i][0].split(",")[0])):
                ss.append("%s;%s" % (cstr(slot[i][0]), bstr(slot[i][1])))
            exp = "last=none free=[%s] slots=[%s]" % (fr, " ".join(ss))
        if exp is not None and ob != exp:
            bad.append("%s: memory answered %r, the bag/slot contract says %r" % (op[:60], ob[:120], exp[:120]))
            break
    return bad


prop("C17", ["c17_total_wf", "c17_provision", "c17_new_pdu", "c17_new_frag", "c17_take_frag", "c17_save_frag", "c17_take_after_save"],
     ["MEM"], no_cases, [orc_c17],
     exhaustive="MEM: all operation sequences of depth 4 (quick) / 5 (thorough) over an 8-operation alphabet on 1 and 2 slots")


# ------------------------------------------------------------------------------------------------
# C05 decap / peek total, consumption bounded and progressing
# ------------------------------------------------------------------------------------------------
def orc_c05(case, obs):
    bad = []
    for op, ob in zip(case.ops, obs):
        t = op.split(" ")
        if t[0] in ("DECAP", "DECAPL", "DECAPN", "PEEK", "PEEKL") and ob.startswith("PANIC"):
            bad.append("panic: %s" % op[:100])
            continue
        if t[0] == "DECAP":
            n = len(tok_bytes(t[1]))
            _, d = kv(ob)
            c = int(d.get("consumed", "-1"))
            if c > n:
                bad.append("consumed %d of a %d-byte buffer: %s" % (c, n, op[:80]))
            if n > 0 and c < min(2, n):
                bad.append("consumed %d of a %d-byte buffer (no progress): %s" % (c, n, op[:80]))
    return bad



def full_list_exits(rng, prefix, n):
    """an open reassembly, the free list refilled to capacity (slots + 2), then each error exit that has to give the
    reassembly buffer back: larger first fragment on the same / an aliasing id, oversize intermediate, end fragment with a
    wrong total length, with a wrong CRC, with too much payload"""
    out = []
    for i in range(n):
        c = Case("%s_full%d" % (prefix, i))
        slots = rng.choice([1, 1, 2, 3])
        maxpdu = rng.choice([4, 8, 16])
        lab = rng.choice([L6A, L3A, "B"])
        ll = len(label_bytes(lab))
        fid = rng.below(256)
        c.add("DNEW %d %d simple" % (slots, maxpdu))
        for k in range(slots + 2):
            c.add("DPROV %d" % (maxpdu + k))
        pl = rng.range(2, maxpdu)
        data = rng.bytes(pl)
        first = rng.range(0, pl - 1)
        total = pl + 2 + ll
        c.add("DECAP %s" % hx(build_first(fid, total, 0x0800, lab, data[:first])))
        c.add("DPROV %d" % (maxpdu + 50), "DPROV %d" % (maxpdu + 51))          # the second one must be refused: the list is full
        kind = rng.below(6)
        if kind == 0:
            g = rng.choice([fid, (fid + slots) % 256])
            c.add("DECAP %s" % hx(build_first(g, 200, 0x0800, lab, rng.bytes(maxpdu + slots + 60))))
        elif kind == 1:
            c.add("DECAP %s" % hx(build_inter(fid, rng.bytes(maxpdu + slots + 60))))
        elif kind == 2:
            c.add("DECAP %s" % hx(build_end(fid, data[first:] + rng.bytes(1), gse_crc(data, 0x0800, total, label_bytes(lab)))))
        elif kind == 3:
            c.add("DECAP %s" % hx(build_end(fid, data[first:], gse_crc(data, 0x0800, total, label_bytes(lab)) ^ 0x10)))
        elif kind == 4:
            c.add("DECAP %s" % hx(build_end(fid, rng.bytes(maxpdu + slots + 60), 0)))
        else:
            c.add("DECAP %s" % hx(build_end(fid, data[first:], gse_crc(data, 0x0800, total, label_bytes(lab)))))   # the good case
        c.add("DOBS", "DECAP %s" % hx(build_complete(0x0800, "B", rng.bytes(2))), "DOBS")
        out.append(c)
    return out


def gen_c05(rng, t):
    out = []
    # every buffer of length 0..2 against receivers in several states
    for k, (slots, nbuf) in enumerate([(1, 0), (1, 1), (2, 3), (0, 1)]):
        c = Case("c05_short%d" % k)
        c.add("DNEW %d 4 signal" % slots)
        for j in range(nbuf):
            c.add("DPROV %d" % (8 + j))
        c.add("DECAP %s" % hx(build_first(1, 9, 0x0800, "B", b"\x01")))
        c.add("DECAP -")
        for a in range(256):
            c.add("DECAP %02x" % a)
        for w in range(0, 65536, 1 if t > 1 else 7):
            c.add("DECAP %04x" % w)
            if w % 4096 == 0:
                c.add("DPROVBACK")
        out.append(c)
    # every header word followed by a few adversarial tails
    for k in range(4 * t):
        c = Case("c05_hdr%d" % k)
        c.add("DNEW 2 8 %s" % MGR_ALL, "DPROV 8", "DPROV 9", "DPROV 70")
        for w in range(k, 65536, 37):
            tail = rng.choice([b"", b"\x00", b"\x01\x00\x02", rng.bytes(rng.range(0, 9)), b"\x00\x82", b"\x02\x00" + rng.bytes(4),
                               b"\x05\xff" + rng.bytes(12), b"\x01\xff\x08\x00" + rng.bytes(3), b"\x00" * 5 + b"\x05\xff" + rng.bytes(14)])
            c.add("DECAP %s" % hx(w.to_bytes(2, "big") + tail))
            if rng.chance(0.1):
                c.add("PEEK %s" % hx(w.to_bytes(2, "big") + tail))
            if rng.chance(0.05):
                c.add("DPROVBACK")
        out.append(c)
    out.extend(full_list_exits(rng, "c05", 60 * t))
    return out


prop("C05", ["c05_total", "c05_reachable", "c05_peek_total"], ["DEC"], gen_c05, [orc_c05],
     exhaustive="all buffers of length 0..1 and (thorough: all, quick: every 7th) 2-byte buffers against four receiver states")


# ------------------------------------------------------------------------------------------------
# C08 buffer conservation (identity of a buffer = its length; multisets, so equal lengths are fine)
# ------------------------------------------------------------------------------------------------
from collections import Counter


def obs_lengths(ob):
    """lengths of all buffers in a DOBS line"""
    import re as _re
    free = _re.search(r"free=\[([^\]]*)\]", ob).group(1).split()
    slots = _re.search(r"slots=\[([^\]]*)\]", ob).group(1).split()
    c = Counter(int(x.split(":")[0]) for x in free)
    c.update(int(x.split(";")[1].split(":")[0]) for x in slots)
    return c


def orc_c08(case, obs):
    bad = []
    if any(o.split(" ")[0] in ("MNEWFRAG", "MTAKE", "MSAVE", "MSAVEC") for o in case.ops):
        return bad      # direct use of the memory trait (save_frag consumes its argument by design)
    prov, owned = Counter(), []
    for op, ob in zip(case.ops, obs):
        t = op.split(" ")
        w, d = kv(ob)
        if t[0] == "DNEW":
            prov, owned = Counter(), []
        elif t[0] == "DPROV":
            prov[int(t[1])] += 1
            if w[0] == "err":
                owned.append(int(w[1].split(":")[1]))
        elif t[0] == "DPROVBACK":
            if ob == "none":
                continue
            if not owned:
                bad.append("DPROVBACK handed a buffer the oracle does not know about")
                break
            b = owned.pop()
            if w[0] == "err":
                owned.append(int(w[1].split(":")[1]))
        elif t[0] == "DNEWPDU" and w[0] == "ok":
            owned.append(int(w[1].split(":")[0]))
        elif t[0] in ("DECAP", "DECAPL", "DECAPN"):
            if w[:2] == ["ok", "completed"]:
                owned.append(int(d["len"]))
            elif w[0] == "err" and (w[1].startswith("Memory:Overflow") or w[1].startswith("Memory:TooSmall")):
                owned.append(int(w[1].split(":")[2]))
        elif t[0] == "DOBS" and ob.startswith("last="):
            have = obs_lengths(ob) + Counter(owned)
            if have != prov:
                lost = prov - have
                extra = have - prov
                bad.append("buffers provisioned %s; memory + caller hold %s (lost %s, duplicated %s)"
                           % (dict(prov), dict(have), dict(lost), dict(extra)))
                break
    return bad


def gen_c08(rng, t):
    """rejected traffic must not exhaust the receiver: many failing packets, then count"""
    out = []
    for i in range(300 * t):
        c = Case("c08_%d" % i)
        slots, maxpdu = dec_prelude(rng, c, nbuf=rng.range(1, 4))
        pool = []
        for _ in range(rng.range(2, 5)):
            pool.extend(valid_traffic(rng, max(maxpdu, 8), fids=(0, 1, 2, (1 + slots) % 256, (2 + slots) % 256)))
        for _ in range(rng.range(5, 30)):
            r = rng.below(10)
            p = rng.choice(pool) if pool else b"\x00\x00"
            if r < 3:
                p = mutate(rng, p)
            elif r < 4:
                p = malformed_packet(rng)
            elif r < 5:
                p = build_complete(0x0800, "R", rng.bytes(3))       # unresolvable re-use
            c.add("DECAP %s" % hx(p))
            q = rng.below(12)
            if q == 0:
                c.add("DPROVBACK")
            elif q == 1:
                c.add("DPROV %d" % (maxpdu + 400 + rng.below(50)))
            elif q == 2:
                c.add("DRESET")
            elif q == 3:
                c.add("DOBS")
        c.add("DOBS")
        out.append(c)
    out.extend(big_trains(rng, "c08"))
    out.extend(full_list_exits(rng, "c08", 60 * t))
    return out


prop("C08", ["c08_decap_conserves", "c08_conservation"], ["DEC", "SYS"], gen_c08, [orc_c08],
     assumes=["C08 is proved for the bundled SimpleGseMemory; a foreign GseDecapMemory whose save_frag fails consumes the buffer by the trait's own signature"])


# ------------------------------------------------------------------------------------------------
# C01 / C02 round trips (sender output fed to the receiver, lock-step)
# ------------------------------------------------------------------------------------------------
def gen_c01(rng, t):
    out = []
    for i in range(900 * t):
        c = Case("c01_%d" % i)
        lab = rng.choice(LABELS)
        pl = rng.choice([0, 1, rng.range(0, 40), rng.range(0, 300), near(rng, 4085, 4089, 4092, 4095, lo=0)])
        maxpdu = rng.choice([0, pl, pl, max(0, pl - 1), pl + 5])
        c.add("ENEW", "DNEW %d %d simple" % (rng.choice([0, 1, 2]), maxpdu))
        nb = rng.range(1, 3)
        for k in range(nb):
            c.add("DPROV %d" % (max(maxpdu, pl) + 3 * k + rng.range(0, 2)))
        if i % 30 == 11:
            c.add("DPROV %d" % rng.choice([65536, 65537, 65536 + pl, 131072, 70000]))      # storages of 65536 bytes and more (taken first)
        pre = rng.below(6)
        if pre == 5 and lab != "B":
            # a refused call with the same label comes first (forbidden protocol type, or no room for any packet)
            c.add(rng.choice(["ENCAP - 0 %d %s 40 1" % (rng.choice(PTYPES_BAD), lab), "ENCAP g9.1 0 2048 %s %d 1" % (lab, rng.range(0, 6))]))
        if pre == 1 and lab != "B":
            c.add("ENCAP - 0 2048 %s 40 1" % lab, "DECAPN -", "DPROVBACK")     # same label: re-use next
        elif pre == 4:
            # same label, then a frame boundary: both label memories are reset, the label must be written in full
            if rng.chance(0.3):
                c.add("EENMAX %d" % rng.choice([1, 2, 255]))
            c.add("ENCAP - 0 2048 %s 40 1" % lab, "DECAPN -", "DPROVBACK", "ERESET", "DRESET")
        elif pre == 2:
            c.add("ENCAP - 0 2048 %s 40 1" % rng.choice(LABELS), "DECAPN -", "DPROVBACK")
        elif pre == 3:
            c.add("EDIS")
        ll = lab_len(lab)
        bl = rng.choice([4 + ll + pl, 4 + pl, 4 + ll + pl + rng.range(0, 9), 70000 if i % 97 == 0 else 4200, max(0, 4 + ll + pl - 1)])
        pt = rng.choice([0x0600, 0x0800, 0x86DD, 0xFFFF])
        c.add("ENCAP %s %d %d %s %d %d" % (pdu_tok(rng, pl), rng.below(256), pt, lab, bl, rng.below(999)))
        c.add("DECAPL %s" % hx(rng.bytes(rng.choice([0, 0, 1, 2, 7]))))
        c.meta["c01"] = True
        out.append(c)
    return out


def orc_c01(case, obs):
    bad = []
    if not case.meta.get("c01"):
        return bad
    i = len(case.ops) - 2
    t = case.ops[i].split(" ")
    e = EncObs(obs[i])
    pdu, pt, lab, bl = tok_bytes(t[1]), int(t[3]), t[4], int(t[5])
    if e.panic:
        return ["encap panics"]
    wire_ll = 0
    if e.ok:
        wire_ll = LT_LEN[(e.pkt[0] >> 4) & 3]
    else:
        # would a re-use substitution apply? (previous packet of the case carried the same label, re-use enabled)
        prev = [o for o, b in zip(case.ops[:i], obs[:i]) if (o.startswith("ENCAP") and EncObs(b).ok) or o == "ERESET"]     # refused calls leave no trace
        sub = bool(prev) and prev[-1] != "ERESET" and prev[-1].split(" ")[4] == lab and lab != "B" and "EDIS" not in case.ops
        wire_ll = 0 if sub else lab_len(lab)
    must = (2 + wire_ll + len(pdu) <= 4095) and (4 + wire_ll + len(pdu) <= bl)
    if must and not (e.ok and e.status == "C"):
        bad.append("PDU, label and protocol type fit (%d+%d+2 <= 4095, buffer %d) but encap answered %s" % (len(pdu), wire_ll, bl, obs[i][:60]))
    if e.ok and e.status == "C":
        w, d = kv(obs[i + 1])
        mx = int(case.ops[1].split(" ")[2])
        if w[:2] != ["ok", "completed"]:
            bad.append("completed packet of %d bytes not delivered: %s" % (e.n, obs[i + 1][:100]))
        else:
            if d["data"] != hx(pdu) or int(d["pdulen"]) != len(pdu):
                bad.append("delivered bytes differ from the PDU")
            if int(d["ptype"]) != pt or d["label"] != lab:
                bad.append("delivered ptype/label %s/%s, sent %d/%s" % (d["ptype"], d["label"], pt, lab))
            if int(d["consumed"]) != e.n:
                bad.append("decap consumed %s, encap reported %d" % (d["consumed"], e.n))
    return bad


prop("C01", ["c01_roundtrip", "c01_must_complete"], ["ENC", "SYS"], gen_c01, [orc_c01], positional_meta=True)


def gen_c02(rng, t):
    out = []
    for i in range(500 * t):
        c = Case("c02_%d" % i)
        lab = rng.choice(LABELS)
        big = (i % 40 == 0)
        pl = rng.choice([rng.range(1, 60), rng.range(1, 60), rng.range(60, 700), near(rng, 4090, 4096, 8190, lo=1)]) if not big \
            else rng.choice([65535 - 2 - lab_len(lab), 65535 - 2 - lab_len(lab), 65534 - 2 - lab_len(lab), 65000, 20000])
        slots = rng.choice([1, 2, 4, 1, 2, 4, 256])
        c.add("ENEW", "DNEW %d %d simple" % (slots, pl), "DPROV %d" % (pl + rng.range(0, 3)))
        fid = rng.below(256)
        if rng.chance(0.3):
            # an older reassembly sits in the slot: the new first fragment replaces it
            c.add("DECAP %s" % hx(build_first(fid if rng.chance(0.5) else (fid + slots) % 256, 50, 0x0800, "B", b"\x01\x02")))
            c.add("DPROV %d" % (pl + 10))
        if rng.chance(0.3) and lab != "B":
            c.add("ENCAP - 0 2048 %s 40 1" % lab, "DECAPN -", "DPROVBACK")
        first = rng.range(7 + lab_len(lab), 7 + lab_len(lab) + min(pl, 40)) if not big else rng.choice([4097, 5000, 200])
        ptok, ptc = pdu_tok(rng, pl), rng.choice([0x0800, 0xFFFF])
        for _ in range(rng.choice([0, 0, 1, 2])):
            # buffers offered before the one that is accepted: too small for any first fragment, must leave no trace
            c.add("ENCAP %s %d %d %s %d %d" % (ptok, fid, ptc, lab, rng.range(0, 6), rng.below(99)))
        c.add("ENCAP %s %d %d %s %d %d" % (ptok, fid, ptc, lab, first, rng.below(99)))
        c.add("DECAPN -")
        mode = rng.below(4)
        steps = min(pl + 3, 50) if not big else 40
        for k in range(steps):
            if big:
                bl = rng.choice([4097, 4098, 5000, 70000, 3000])
            elif mode == 0:
                bl = 13
            elif mode == 1:
                bl = rng.choice([0, 3, 5, 7, 13, 14, 20])
            elif mode == 2:
                bl = rng.range(13, 60)
            else:
                bl = rng.choice([13, 100, 4097, 6000])
            c.add("EFRAGC %d %d" % (bl, rng.below(99)), "DECAPN -")
        c.meta["c02"] = True
        out.append(c)
    return out


def orc_c02(case, obs):
    bad = []
    if not case.meta.get("c02"):
        return bad
    idx = max(i for i, o in enumerate(case.ops) if o.startswith("ENCAP"))
    t = case.ops[idx].split(" ")
    pdu, pt, lab = tok_bytes(t[1]), int(t[3]), t[4]
    e = EncObs(obs[idx])
    if e.err is not None and int(t[5]) >= 13 and len(pdu) + 2 + lab_len(lab) <= 65535 and (pt >= 0x600 or pt < 0x100) and lab != ZERO6:
        bad.append("encap refused a PDU within the 16-bit total length although the buffer holds a first fragment: %s" % obs[idx][:60])
    if not (e.ok and e.status == "F"):
        return bad
    ctx_len = e.ctx[2]
    big13 = 0
    done = False
    pending = e.n       # length reported for the packet the next DECAPN delivers
    for i in range(idx + 1, len(case.ops)):
        op, ob = case.ops[i], obs[i]
        if op.startswith("EFRAGC"):
            if done:
                continue
            f = EncObs(ob)
            if int(op.split(" ")[1]) >= 13:
                big13 += 1
                if f.err is not None:
                    bad.append("13-byte (or larger) buffer rejected: %s" % ob[:60])
            if f.ok:
                pending = f.n
                if f.status == "C":
                    done = True
                else:
                    ctx_len = f.ctx[2]
            rem_after_first = len(pdu) - e.ctx[2]
            if not done and big13 > rem_after_first + 1:
                bad.append("not completed after %d buffers of >= 13 bytes for %d remaining bytes" % (big13, rem_after_first))
        elif op.startswith("DECAPN") and ob != "nopkt":
            w, d = kv(ob)
            if pending is not None and "consumed" in d and int(d["consumed"]) != pending:
                bad.append("decap consumed %s, sender reported %d" % (d["consumed"], pending))
            last = done and not any(o.startswith("DECAPN") and obs[j] != "nopkt" for j, o in enumerate(case.ops) if j > i)
            if last:
                if w[:2] != ["ok", "completed"] or d.get("data") != hx(pdu) or int(d["pdulen"]) != len(pdu) \
                        or int(d["ptype"]) != pt or d["label"] != lab:
                    bad.append("last packet: %s (expected the %d-byte PDU, ptype %d, label %s)" % (ob[:90], len(pdu), pt, lab))
            else:
                if w[:2] != ["ok", "fragmented"] or int(d["ptype"]) != pt or d["label"] != lab:
                    bad.append("fragment answered %s (expected fragmented ptype %d label %s)" % (ob[:90], pt, lab))
            pending = None
    return bad


prop("C02", ["c02_roundtrip", "c02_accepts_13", "c02_first_accepted", "c02_completes", "c02_schedule"], ["ENC", "DEC", "SYS"], gen_c02, [orc_c02])


# ------------------------------------------------------------------------------------------------
# C10 frames walked by consumed lengths (twin cases: frame walk vs packets delivered alone)
# ------------------------------------------------------------------------------------------------
def gen_c10(rng, t):
    out = []
    for i in range(500 * t):
        a, b = Case("c10_walk%d" % i), Case("c10_alone%d" % i)
        slots = rng.choice([1, 2, 3])
        maxpdu = 40
        mgr = rng.choice(["simple", MGR_ALL])
        pre = ["ENEW", "DNEW %d %d %s" % (slots, maxpdu, mgr)]
        for k in range(rng.range(0, 4)):
            pre.append("DPROV %d" % (maxpdu + k))
        a.ops, b.ops = list(pre), list(pre)
        a.add("FCLEAR")
        npk = 0
        for _ in range(rng.range(1, 8)):
            r = rng.below(14)
            lab = rng.choice([L6A, L6A, L3A, "B", "R"])
            pl = rng.range(0, 50)
            if r >= 12:
                # a hand-built train whose end fragment (or an intermediate one) is corrupted: rejected packets inside a frame
                rp = rng.bytes(rng.range(2, 30))
                sizes = [rng.range(0, len(rp) - 1)]
                if len(rp) - sizes[0] > 1 and rng.chance(0.5):
                    sizes.append(rng.range(1, len(rp) - sizes[0] - 1))
                train = fragment(rp, rng.below(3), 0x0800, rng.choice([L6A, L3A, "B"]), sizes)
                # corrupt payload / trailer bytes only (never header fields: a first fragment announcing less than it carries
                # is not something the encapsulator produces and is outside C10's list of rejections)
                k = len(train) - 1 if (rng.chance(0.7) or len(train) < 3) else rng.range(1, len(train) - 1)
                bad_p = bytearray(train[k])
                bad_p[rng.range(3, len(bad_p) - 1)] ^= 1 << rng.below(8)
                train[k] = bytes(bad_p)
                for p in train:
                    a.add("FRAW %s" % hx(p))
                    b.add("DECAP %s" % hx(p))
                    npk += 1
                continue
            if r < 5:
                op = "ENCAP %s %d 2048 %s %d 1" % (pdu_tok(rng, pl), rng.below(3), lab, rng.choice([80, pl + 4, rng.range(8, 30)]))
            elif r < 8:
                op = "EFRAGC %d 1" % rng.choice([5, 8, 13, 30, 80])
            elif r < 9:
                op = "EFRAG %s %d %d %d %d 1" % (pdu_tok(rng, pl), rng.below(3), rng.below(1 << 32), rng.range(0, pl), rng.choice([pl + 7, 9, 20]))
            elif r < 10:
                op = "EEXT %s %d 2048 %s 90 1 %s" % (pdu_tok(rng, pl), rng.below(3), lab, exts_tok(rand_chain(rng, maxn=2)))
            else:
                op = "ENCAP %s %d 2048 %s 90 1" % (pdu_tok(rng, rng.range(41, 60)), rng.below(3), lab)   # too big for the storage
            drop = rng.chance(0.12)     # the packet is produced but not put in the frame (lost): later ones get rejected
            a.add(op)
            b.add(op)
            if drop:
                a.add("FCLEARFRESH")
                b.add("FCLEARFRESH")
            else:
                a.add("FPUSH")
                b.add("DECAPN -")
                npk += 1
        m = rng.choice([0, 0, 2, 3, 10, 1])
        a.add("FPAD %d" % m, "FWALK")
        b.meta["pad"] = m
        a.meta["twin"] = b.name
        out += [a, b]
    return out


def orc_c10_pairs(byname, impl):
    bad = []
    for name, a in byname.items():
        if "twin" not in a.meta:
            continue
        oa, ob = impl.get(name), impl.get(a.meta["twin"])
        b = byname[a.meta["twin"]]
        if not oa or not ob:
            continue
        alone = [ob[i] for i, op in enumerate(b.ops) if op.startswith(("DECAPN", "DECAP ")) and ob[i] != "nopkt"]
        pushed = [oa[i] for i, op in enumerate(a.ops) if op == "FPUSH" and oa[i] != "nopkt"]
        walk = oa[-1]
        if walk.startswith("PANIC") or "PANIC" in walk:
            bad.append((a, "panic while walking the frame"))
            continue
        parts = walk.split(" | ")
        results = [x for x in parts[1:] if x.strip()]
        m = b.meta["pad"]
        exp = list(alone)
        flen = int(pushed[-1].split(" ")[1]) if pushed else 0
        if m >= 2:
            exp.append("ok padding consumed=%d" % m)
        elif m == 1:
            exp.append("err SizeBuffer consumed=1")
        if results != exp:
            k = next((j for j in range(max(len(results), len(exp))) if j >= len(results) or j >= len(exp) or results[j] != exp[j]), 0)
            bad.append((a, "frame walk step %d: %r, alone: %r" % (k, (results[k] if k < len(results) else None), (exp[k] if k < len(exp) else None))))
    return bad


def orc_c10(case, obs):
    bad = []
    for op, ob in zip(case.ops, obs):
        t = op.split(" ")
        if t[0] in ("ENCAP", "EEXT", "EFRAG", "EFRAGC"):
            e = EncObs(ob)
            if e.ok and len(e.pkt) >= 1 and (e.pkt[0] >> 4) == 0:
                bad.append("the encapsulator emitted a packet that reads as padding: %s" % e.pkt[:4].hex())
    return bad


prop("C10", ["c10_tail_independent", "c10_walk", "c10_sender_well_framed", "c10_sender_frag_well_framed", "c10_sender_ext_well_framed", "c10_never_padding"],
     ["DEC", "ENC"], gen_c10, [orc_c10], pair_oracle=orc_c10_pairs)


# ------------------------------------------------------------------------------------------------
# C19 peek agrees with decap
# ------------------------------------------------------------------------------------------------
def gen_c19(rng, t):
    out = []
    for i in range(700 * t):
        c = Case("c19_%d" % i)
        c.add("ENEW", "DNEW 2 64 %s" % MGR_ALL, "DPROV 64", "DPROV 65", "DPROV 66")
        for _ in range(rng.range(1, 6)):
            r = rng.below(10)
            lab = rng.choice([L6A, L6A, L3A, "B", "R", L6B, L3Z, L6N])
            pl = rng.range(0, 60)
            if rng.chance(0.08) and lab not in ("B", "R"):
                # a call refused because label and extension chain alone exceed the GSE length: it must leave no trace in the next packet
                c.add("EEXT g3.1 %d 2048 %s %d 1 %s" % (rng.below(256), lab, rng.choice([4300, 5000]), exts_tok([(0x0009, bytes(rng.range(4091, 4100)))])),
                      "PEEKL -", "DECAPN -", "DPROVBACK")
            if r < 5:
                c.add("ENCAP %s %d %d %s %d 1" % (pdu_tok(rng, pl), rng.below(256), rng.choice([2048, 0xFFFF]), lab, rng.choice([100, rng.range(7, 40)])))
            elif r < 7:
                c.add("EEXT %s %d 2048 %s %d 1 %s" % (pdu_tok(rng, pl), rng.below(256), lab, rng.choice([120, rng.range(20, 50)]), exts_tok(rand_chain(rng, maxn=3))))
            else:
                c.add("EFRAGC %d 1" % rng.choice([8, 13, 30, 100, 4, 5, 6, 7, 9, 10]))      # 4..6: intermediate packets of 1..3 bytes
            c.add("PEEKL %s" % hx(rng.bytes(rng.choice([0, 0, 3]))), "DECAPN -", "DPROVBACK")
        c.meta["c19"] = True
        out.append(c)
    return out


def orc_c19(case, obs):
    bad = []
    if not case.meta.get("c19"):
        return bad
    last = None
    for i, (op, ob) in enumerate(zip(case.ops, obs)):
        t = op.split(" ")
        if t[0] in ("ENCAP", "EEXT", "EFRAGC"):
            e = EncObs(ob)
            last = (t, e) if e.ok else None
        elif t[0] == "PEEKL" and last is not None:
            (lt, e) = last
            p = parse_packet(e.pkt, KNOWN_EXT_FIXED)
            if isinstance(p, str):
                continue
            if ob.startswith("PANIC"):
                bad.append("peek panics on %s" % e.pkt[:8].hex())
            elif p.kind in ("I", "E"):
                if ob != "ok fragid %d" % p.fid:
                    bad.append("peek on a continuation packet of frag id %d: %s" % (p.fid, ob))
            else:
                exp = "err LabelReuse" if p.lt == 3 else "ok label %s" % p.label
                if ob != exp:
                    bad.append("peek %s, the packet carries %s" % (ob, exp))
                # what decap associates with the packet (next op is DECAPN of the same packet)
                nxt = obs[i + 1] if i + 1 < len(obs) else ""
                w, d = kv(nxt)
                if p.lt == 3 and lt[4] not in ("R", "B") and w[:1] == ["ok"] and d.get("label") not in (None, lt[4]):
                    # every packet of these cases reaches the receiver in order: a replaced label stands for the label passed
                    bad.append("peek announces a re-used label for a packet sent with %s, decap associates %s" % (lt[4], d.get("label")))
                if w[:1] == ["ok"] and p.lt != 3 and d.get("label") not in (None, p.label):
                    bad.append("peek label %s, decap label %s" % (p.label, d.get("label")))
                if w[:1] == ["err"] and len(w) > 1 and not w[1].startswith(("Memory", "InvalidLabel")) and p.lt != 3 and not ob.startswith("err"):
                    # the receiver of these cases knows every extension used and has storage for every PDU
                    bad.append("peek returns %s for a packet the encapsulator produced, decap refuses it (%s)" % (ob, nxt[:60]))
                if w[:2] == ["err", "InvalidLabel"] and p.lt != 3 and not ob.startswith("err"):
                    bad.append("peek returns %s for a packet the encapsulator produced, decap refuses the label (%s)" % (ob, nxt[:60]))
            last = None
    return bad


prop("C19", ["c19_peek_start", "c19_peek_frag", "c19_peek_start_ext"], ["SYS"], gen_c19, [orc_c19])


# ------------------------------------------------------------------------------------------------
# C07 isolation of concurrent reassemblies under interleavings
# ------------------------------------------------------------------------------------------------
def gen_c07(rng, t):
    out = []
    for i in range(500 * t):
        c = Case("c07_%d" % i)
        slots = rng.choice([2, 3, 4, 5] * 5 + [255, 256])
        ntr = rng.range(2, min(4, slots))
        maxpdu = 48
        c.add("DNEW %d %d simple" % (slots, maxpdu))
        nb = min(slots + 2, ntr + 2)
        for k in range(nb):
            c.add("DPROV %d" % (maxpdu + k))
        base = rng.below(200)
        ids = rng.fork()
        fids = [0, 255] if slots == 256 else ([0, 254] if slots == 255 else [])
        while len(fids) < ntr:
            f = (base + ids.below(min(slots, 64) * 3)) % 256
            if all(f % slots != g % slots for g in fids):
                fids.append(f)
        trains, exp = [], {}
        reuse_mode = (i % 5 == 3)      # the label memory is shared by all reassemblies: strays must not disturb it either
        # a third PDU re-using the label of the second one, its first fragment right behind the end of the first PDU (other label):
        # finishing a reassembly must leave the label memory alone
        cross_mode = (i % 10 == 6) and ntr == 3
        cross_labs = [rng.choice([L6A, L3A]), rng.choice([L6B, L3B])]
        for f in fids:
            pl = rng.range(2, maxpdu)
            pdu = rng.bytes(pl)
            nfr = rng.range(1, 4)
            sizes, left = [], pl
            for j in range(nfr):
                lo = 0 if j == 0 else 1          # only a first fragment may be empty
                if left - 1 < lo:
                    break
                s = rng.range(lo, left - 1)
                sizes.append(s)
                left -= s
            if not sizes:
                sizes = [0]
            lab = rng.choice([L6A, L3A, "B", L6B]) if not reuse_mode else L6A
            if cross_mode:
                lab = cross_labs[0] if not trains else cross_labs[1]
            pt = rng.choice([0x0800, 0x86DD])
            wire = "R" if (reuse_mode and trains) or (cross_mode and len(trains) == 2) else None
            tr = [("own", f, p) for p in fragment(pdu, f, pt, lab, sizes, wire_label=wire)]
            if not reuse_mode and not cross_mode and rng.chance(0.3):
                # an abandoned attempt on the same id comes first (its end fragment never arrives): the same train (a
                # retransmission), another PDU of the same length, label and type, or an unrelated one; the new first fragment restarts the id
                v = rng.below(3)
                if v == 0:
                    old = [q for _, _, q in tr]
                elif v == 1:
                    s2, l2 = [], pl
                    for j in range(rng.range(1, 3)):
                        lo = 0 if j == 0 else 1
                        if l2 - 1 < lo:
                            break
                        s2.append(rng.range(lo, l2 - 1))
                        l2 -= s2[-1]
                    old = fragment(rng.bytes(pl), f, pt, lab, s2 or [0])
                else:
                    p2 = rng.range(2, maxpdu)
                    old = fragment(rng.bytes(p2), f, rng.choice([0x0800, 0x86DD]), rng.choice([L6A, L3A, "B", L6B]), [rng.range(0, p2 - 1)])
                tr = [("old", f, q) for q in old[:rng.range(1, len(old) - 1)]] + tr
            trains.append(tr)
            exp[f] = (pdu, pt, lab)
        # order-preserving merge
        seq = []
        pos = [0] * ntr
        if reuse_mode:
            seq.append(trains[0][0])       # the packet that carries the label comes first
            pos[0] = 1
        if cross_mode:
            seq = [trains[0][0], trains[1][0]] + trains[0][1:] + [trains[2][0]]
            pos = [len(trains[0]), 1, 1]
            reuse_mode = True              # strays: continuation packets only
        while any(pos[k] < len(trains[k]) for k in range(ntr)):
            k = rng.choice([k for k in range(ntr) if pos[k] < len(trains[k])])
            seq.append(trains[k][pos[k]])
            pos[k] += 1
        # strays at random positions: aliasing continuation packets, unknown ids, complete packets, garbage
        nstray = rng.range(0, 6)
        free_slots = [x for x in range(slots) if all(f % slots != x for f in fids)]
        for _ in range(nstray):
            r = rng.below(6) if not reuse_mode else rng.choice([0, 1, 1] + ([4] if free_slots else []))
            f = rng.choice(fids)
            def foreign(g):       # an id that is not one of the trains' own (with >= 128 slots f + slots wraps onto real ids)
                g %= 256
                while g in fids:
                    g = (g + 1) % 256
                return g
            if r == 0:
                p = build_inter(foreign(f + slots), rng.bytes(3))
            elif r == 1:
                p = build_end(foreign(f + slots * 2), rng.bytes(2), rng.below(1 << 32))
            elif r == 2:
                p = build_complete(0x0800, rng.choice(["B", L6A]), rng.bytes(rng.range(0, 10)))
            elif r == 3:
                p = rng.bytes(rng.range(0, 6))
            elif r == 4 and free_slots:
                p = build_inter(foreign(rng.choice(free_slots)), rng.bytes(4))
            else:
                p = b"\x00\x00\x00"
            seq.insert(rng.range(1, len(seq)) if reuse_mode else rng.below(len(seq) + 1), ("stray", None, p))
        c.meta["c07"] = {"exp": {f: (hx(v[0]), v[1], v[2]) for f, v in exp.items()}, "kinds": []}
        for kind, f, p in seq:
            c.add("DECAP %s" % hx(p))
            c.meta["c07"]["kinds"].append((kind, f, len(c.ops) - 1))
            if kind == "stray":
                c.add("DPROVBACK")      # a stray complete packet took a buffer: give it back
        out.append(c)
    return out


def orc_c07(case, obs):
    bad = []
    m = case.meta.get("c07")
    if not m:
        return bad
    delivered = Counter()
    exp = {int(k): v for k, v in m["exp"].items()}      # keys are strings after the JSON round trip of a replay file
    for kind, f, idx in m["kinds"]:
        ob = obs[idx]
        if kind != "own":
            continue
        w, d = kv(ob)
        pdu, pt, lab = exp[f]
        p = parse_packet(tok_bytes(case.ops[idx].split(" ")[1]))
        if p.kind == "E":
            if w[:2] != ["ok", "completed"] or d.get("data") != pdu or int(d.get("ptype", -1)) != pt or d.get("label") != lab:
                bad.append("train of frag id %d: end fragment answered %s" % (f, ob[:100]))
            else:
                delivered[f] += 1
        else:
            if w[:2] != ["ok", "fragmented"] or int(d.get("ptype", -1)) != pt or d.get("label") != lab:
                bad.append("train of frag id %d: %s fragment answered %s" % (f, p.kind, ob[:100]))
    for f in exp:
        if delivered[f] != 1 and not bad:
            bad.append("PDU of frag id %d delivered %d times" % (f, delivered[f]))
    return bad


prop("C07", ["c07_frame", "c07_interleave", "c07_first_establishes"], ["DEC", "MEM"], gen_c07, [orc_c07], positional_meta=True)


# ------------------------------------------------------------------------------------------------
# C16 recovery after any history
# ------------------------------------------------------------------------------------------------
def gen_c16(rng, t):
    out = []
    for i in range(500 * t):
        c = Case("c16_%d" % i)
        slots = rng.choice([1, 1, 2, 4])
        wide = (i % 20 == 7)
        if wide:
            slots = rng.choice([255, 256, 257, 300])      # one slot per fragment id and more: the probe then uses the last ids
        maxpdu = rng.choice([8, 32, 64])
        mgr = rng.choice(["simple", "signal", MGR_ALL])
        c.add("DNEW %d %d %s" % (slots, maxpdu, mgr))
        for k in range(rng.range(0, (slots if not wide else 2) + 2)):
            c.add("DPROV %d" % (maxpdu + 3 * k))
        # hostile history
        for _ in range(rng.range(3, 25)):
            r = rng.below(10)
            if r < 3:
                p = rng.choice(valid_traffic(rng, maxpdu))
            elif r < 5:
                p = mutate(rng, rng.choice(valid_traffic(rng, maxpdu)))
            elif r < 8:
                p = malformed_packet(rng)
            else:
                p = rng.bytes(rng.range(0, 10))
            c.add("DECAP %s" % hx(p))
            q = rng.below(15)
            if q == 0:
                c.add("DNEWPDU")
            elif q == 1:
                c.add("DPROVBACK")
        # recovery: reset the label memory, make one buffer available
        c.add("DRESET", "DPROV %d" % (maxpdu + 100))
        rec = len(c.ops)
        lab = rng.choice([L6A, L3A, "B"])
        pl = rng.range(0, maxpdu)
        kind = rng.below(2)
        c.add("ENEW")
        pfid = rng.below(256) if not wide else rng.choice([255, 255, 254, 0, rng.below(256)])
        if kind == 0:
            c.add("ENCAP %s %d 2048 %s %d 1" % (pdu_tok(rng, pl), pfid, lab, pl + 4 + lab_len(lab)), "DECAPN -")
        else:
            pl = max(pl, 2)
            c.add("ENCAP %s %d 2048 %s %d 1" % (pdu_tok(rng, pl), pfid, lab, 7 + lab_len(lab) + rng.range(0, pl - 1)), "DECAPN -")
            for _ in range(pl + 2):
                c.add("EFRAGC %d 1" % rng.choice([13, 20, 100]), "DECAPN -")
        c.meta["c16"] = rec
        out.append(c)
    out.extend(full_list_exits(rng, "c16", 60 * t))
    return out


def orc_c16(case, obs):
    bad = []
    rec = case.meta.get("c16")
    if rec is None:
        # cases without a probe (DEC family, full-list exits): a panicking decap is still the history nothing comes after
        for op, ob in zip(case.ops, obs):
            if ob.startswith("PANIC") and op.startswith(("DECAP", "DPEEK")):
                return ["the history panics the decapsulator (%s): no receiver is left to recover" % op[:60]]
        return bad
    prov = obs[rec - 1]
    for op, ob in zip(case.ops[:rec], obs[:rec]):
        if ob.startswith("PANIC") and op.startswith(("DECAP", "DPEEK")):
            # a panic is the one history nothing comes after: the caller's receiver is gone with the unwinding call
            bad.append("the history panics the decapsulator (%s): no receiver is left to recover" % op[:60])
            return bad
    if not (prov == "ok" or prov.startswith("err Overflow")):
        return bad
    i = rec + 1
    t = case.ops[i].split(" ")
    pdu, lab = tok_bytes(t[1]), t[4]
    delivered = [ob for op, ob in zip(case.ops[i:], obs[i:]) if op.startswith("DECAPN") and ob.startswith("ok completed")]
    answers = [ob for op, ob in zip(case.ops[i:], obs[i:]) if op.startswith("DECAPN") and ob != "nopkt"]
    if len(delivered) != 1:
        bad.append("after reset + provisioning the probe PDU was delivered %d times: %s" % (len(delivered), [a[:50] for a in answers][:6]))
    else:
        w, d = kv(delivered[0])
        if d["data"] != hx(pdu) or d["label"] != lab or int(d["ptype"]) != 2048:
            bad.append("probe PDU delivered wrongly: %s" % delivered[0][:120])
    return bad


prop("C16", ["c16_ready", "c16_complete", "c16_fragmented"], ["DEC"], gen_c16, [orc_c16], positional_meta=True)


# ------------------------------------------------------------------------------------------------
# C04 label attribution in lock step
# ------------------------------------------------------------------------------------------------
def gen_c04(rng, t):
    out = []
    for i in range(700 * t):
        c = Case("c04_%d" % i)
        c.add("ENEW", "DNEW 4 64 %s" % (MGR_ALL if i % 5 else "tab:0005=N9;0007=N4;0042=N5;0081=F0;0082=F0;0033=F2"))
        for k in range(6):
            c.add("DPROV %d" % (64 + k))
        labs = [L6A, L6A, L6A, L6B, L3A, "B", "R", L6C, L6A, L6D, L3C]      # L6C / L6D / L3C share three bytes with L6A
        for _ in range(rng.range(3, 25)):
            r = rng.below(24)
            if r < 14:
                lab = rng.choice(labs)
                kind = rng.below(12)
                pl = rng.range(0, 40)
                if kind < 5:
                    c.add("ENCAP %s %d 2048 %s 80 1" % (pdu_tok(rng, pl), rng.below(4), lab))
                elif kind < 6:
                    c.add("EEXT %s %d 2048 %s %d 1 %s" % (pdu_tok(rng, rng.range(0, 6)), rng.below(4), lab, rng.choice([90, 24]),
                                                          exts_tok([(0x0005, b"\xaa\xbb\xcc")] + rand_chain(rng, maxn=1))))
                elif kind < 8:
                    c.add("ENCAP %s %d 2048 %s %d 1" % (pdu_tok(rng, pl), rng.below(4), lab, rng.range(0, 14)))   # fails or fragments
                elif kind < 9:
                    c.add("ENCAP g66000.1 0 2048 %s 80 1" % lab)                                                  # fails late
                elif kind < 10:
                    c.add("ENCAP %s 0 %d %s 80 1" % (pdu_tok(rng, pl), rng.choice(PTYPES_BAD), lab))             # fails early
                elif kind < 11:
                    c.add("ENCAP %s 0 2048 %s 80 1" % (pdu_tok(rng, pl), ZERO6))
                else:
                    c.add("EEXT %s %d 2048 %s 90 1 %s" % (pdu_tok(rng, pl), rng.below(4), lab, exts_tok(rand_chain(rng, maxn=2))))
                c.add("DECAPN -", "DPROVBACK")
            elif r < 17:
                c.add("EFRAGC %d 1" % rng.choice([5, 9, 13, 30, 80]), "DECAPN -", "DPROVBACK")
            elif r < 19:
                c.add("ERESET", "DRESET")
            elif r < 20:
                c.add("EDIS")
            elif r < 21:
                c.add("EEN")
            elif r < 22:
                c.add("EENMAX %d" % rng.choice([1, 2, 3]))
            else:
                c.add("DECAPN -")
        c.meta["c04"] = True
        out.append(c)
    return out


def orc_c04(case, obs):
    bad = []
    if not case.meta.get("c04") and not case.name.startswith("SYS."):
        return bad
    prev = None          # label of the preceding emitted start/complete packet (what a re-use marker stands for)
    pend = None          # (intended label, packet, op) of the packet the next DECAPN delivers
    ample = bool(case.meta.get("c04"))
    for op, ob in zip(case.ops, obs):
        t = op.split(" ")
        if t[0] == "ENEW":
            prev, pend = None, None
        elif t[0] == "ERESET":
            prev = None
        elif t[0] in ("ENCAP", "EEXT"):
            e = EncObs(ob)
            pend = None
            if e.ok:
                lab = t[4]
                if lab == "R":
                    intended = prev
                elif lab == "B":
                    intended, prev = "B", None
                else:
                    intended, prev = lab, lab
                pend = (intended, e, op)
        elif t[0] == "EFRAGC":
            pend = None
        elif t[0] in ("DECAPN",) and ob != "nopkt" and pend is not None:
            intended, e, eop = pend
            pend = None
            w, d = kv(ob)
            if w and w[0] == "ok" and "label" in d:
                if d["label"] != intended:
                    bad.append("PDU sent with label %s (%s) delivered with label %s" % (intended, eop[:60], d["label"]))
            elif ample and e.status == "C" and (e.pkt[0] >> 4) & 3 != 3 and eop.startswith("ENCAP"):
                bad.append("complete packet with an explicit/broadcast label not delivered: %s -> %s" % (eop[:60], ob[:60]))
            elif ample and e.status == "F" and (e.pkt[0] >> 4) & 3 != 3 and eop.startswith("ENCAP"):
                # free storages and 64-byte buffers throughout these cases: nothing entitles the receiver to refuse the start of a PDU
                bad.append("first fragment with an explicit/broadcast label refused, its PDU can not be delivered: %s -> %s" % (eop[:60], ob[:60]))
    return bad



def orc_c04_receiver(case, obs):
    """receiver-only clause: a re-use start/complete packet is only ever resolved to the label carried by the nearest
    preceding start/complete packet of the same frame (a frame ends at a reset of the label memory or at padding)"""
    bad = []
    if not case.meta.get("c04") and not case.name.startswith(("SYS.", "DEC.")):
        return bad
    mem = None          # label string, None (nothing usable), or "?" (a start/complete packet was rejected: not judged)
    last_pkt = None
    for op, ob in zip(case.ops, obs):
        t = op.split(" ")
        if t[0] in ("ENCAP", "EEXT", "EFRAG", "EFRAGC"):
            e = EncObs(ob)
            last_pkt = e.pkt if e.ok else None
            continue
        if t[0] in ("DNEW", "DRESET"):
            mem = None
            continue
        if t[0] == "DECAP":
            pkt = tok_bytes(t[1])
        elif t[0] in ("DECAPN", "DECAPL"):
            if ob == "nopkt" or last_pkt is None:
                continue
            pkt = last_pkt
        else:
            continue
        if len(pkt) < 2:
            mem = None
            continue
        s_e, lt = pkt[0] >> 6, (pkt[0] >> 4) & 3
        if (pkt[0] >> 4) == 0:
            mem = None                          # padding: the rest of the frame is empty
            continue
        if s_e in (0, 1):
            continue                            # intermediate / end packets carry no label
        w, d = kv(ob)
        ok = bool(w) and w[0] == "ok" and "label" in d
        if lt == 3:
            if ok and mem != "?" and d["label"] != mem:
                bad.append("re-use packet resolved to %s; the nearest preceding start/complete packet of the frame carried %s" % (d["label"], mem))
            if not ok:
                mem = "?" if mem is not None else None
        elif lt == 2:
            mem = None if ok else "?"
        else:
            mem = d["label"] if ok else "?"
    return bad


prop("C04", ["c04_attribution", "c04_sync", "c04_receiver_only", "c04_padding_clears"], ["SYS", "DEC"], gen_c04, [orc_c04, orc_c04_receiver])


# ------------------------------------------------------------------------------------------------
# C03 only length- and CRC-verified PDUs are delivered (fault injection on fragment trains)
# ------------------------------------------------------------------------------------------------
def burst(rng, data, lo_bit, hi_bit, maxlen=32):
    """flip a non-empty set of bits within a window of at most maxlen bits inside [lo_bit, hi_bit)"""
    b = bytearray(data)
    if hi_bit <= lo_bit:
        return bytes(b)
    start = rng.range(lo_bit, hi_bit - 1)
    ln = rng.range(1, min(maxlen, hi_bit - start))
    bits = [start] + [start + k for k in range(1, ln) if rng.chance(0.5)]
    if ln > 1:
        bits.append(start + ln - 1)
    for k in set(bits):
        b[k // 8] ^= 0x80 >> (k % 8)
    return bytes(b)



def big_trains(rng, prefix):
    """hand-built trains in a 70000-byte storage: (0) a legitimate PDU of the maximal 16-bit total length, (1) a train whose
    intermediate fragments push the reassembly beyond 65535 bytes, (2) a train that carries announced + 65536 bytes with the
    CRC of the bytes really sent, (3) the legitimate maximal train with one spurious fragment that would cross 65535 bytes,
    followed by the genuine rest, (4) a train of more than 65536 bytes announcing (bytes sent mod 65536) with the CRC of what a
    16-bit offset would leave at the start of the storage; only (0) may be delivered, and the storage buffer is never lost"""
    out = []
    for variant in (0, 1, 2, 3, 4):
        c = Case("%s_big%d" % (prefix, variant))
        lab = rng.choice([L6A, L3A, "B"])
        ll = len(label_bytes(lab))
        fid = rng.below(256)
        c.add("DNEW %d 70000 simple" % rng.choice([1, 2]), "DPROV 70000", "DPROV 70001")
        if variant in (0, 3):
            n, total = 65535 - 2 - ll, 65535
        elif variant == 1:
            n, total = 65535 - 2 - ll + rng.range(1, 300), 65535
        elif variant == 2:
            total = rng.choice([1000, 105, 2 + ll + 1])
            n = total - 2 - ll + 65536
        else:
            n = 65536 + rng.range(50, 3000)
            total = None
        data = gen_bytes(n, rng.below(1 << 30))
        off = rng.range(0, 4000) if variant != 4 else rng.range(0, 40)      # (4): the first fragment stays below the announced total
        sizes = [off]
        lim = 4090 if variant != 3 else 3000
        if variant == 4:
            lim = min(4090, n - 65536 - 1)          # the intermediate fragments alone carry more than 65536 bytes
        while n - off > lim:
            k = rng.choice([4094, 4094, rng.range(1, 4094)])
            k = min(k, n - off - 1)
            sizes.append(k)
            off += k
        if variant == 4:
            # what a receiver whose write offset is 16 bits wide would hold: every fragment written at (bytes so far mod 65536)
            img, cum = bytearray(80000), 0
            pos = 0
            for k in sizes + [n - off]:
                img[cum & 0xFFFF:(cum & 0xFFFF) + k] = data[pos:pos + k]
                cum, pos = ((cum & 0xFFFF) + k), pos + k
            left = cum & 0xFFFF
            total = left + 2 + ll
            crc = gse_crc(bytes(img[:left]), 0x0800, total, label_bytes(lab))
        else:
            crc = gse_crc(data, 0x0800, total, label_bytes(lab))
        pos = sizes[0]
        c.add("DECAP %s" % hx(build_first(fid, total, 0x0800, lab, data[:pos])))
        for k in sizes[1:]:
            c.add("DECAP %s" % hx(build_inter(fid, data[pos:pos + k])))
            pos += k
        if variant == 3:
            # one fragment too many: it would carry the reassembly to 65536 bytes or more
            c.add("DECAP %s" % hx(build_inter(fid, gen_bytes(65536 - pos + rng.range(0, 40), 7))))
        c.add("DECAP %s" % hx(build_end(fid, data[pos:], crc)), "DOBS")
        c.meta["c03"] = {"pdu": hx(data), "burst": False, "ptype": 0x0800}
        out.append(c)
    return out



def fragment_x(pdu, fid, ptype, label, sizes, chain):
    """like gsepy.fragment, with an extension area (optional extensions only: any receiver can read them) in the first fragment"""
    total = len(pdu) + 2 + len(label_bytes(label))
    crc = gse_crc(pdu, ptype, total, label_bytes(label))
    area = b""
    for k, (eid, d) in enumerate(chain):
        area += d + (chain[k + 1][0] if k + 1 < len(chain) else ptype).to_bytes(2, "big")
    pkts, off = [], 0
    for i, sz in enumerate(sizes):
        chunk = pdu[off:off + sz]
        off += sz
        pkts.append(build_first(fid, total, ptype, label, chunk, exts=area, first_id=chain[0][0]) if i == 0 else build_inter(fid, chunk))
    pkts.append(build_end(fid, pdu[off:], crc))
    return pkts



def tiny_totals(rng, prefix, n):
    """first fragments announcing a total length below protocol type + label (1 .. 1 + label length), no PDU byte anywhere in
    the train, trailer = CRC of (announced total, type, label, nothing): nothing may be delivered"""
    out = []
    for i in range(n):
        c = Case("%s_tiny%d" % (prefix, i))
        lab = rng.choice([L6A, L3A, "B"])
        ll = len(label_bytes(lab))
        fid = rng.below(256)
        total = rng.range(1, 1 + ll) if ll else 1
        c.add("DNEW 2 16 simple", "DPROV 16", "DPROV 17")
        c.add("DECAP %s" % hx(build_first(fid, total, 0x0800, lab, b"")))
        if rng.chance(0.5):
            c.add("DECAP %s" % hx(build_end(fid, b"", gse_crc(b"", 0x0800, total, label_bytes(lab)))))
        else:
            k = rng.range(1, 3)
            data = rng.bytes(k)
            c.add("DECAP %s" % hx(build_end(fid, data, gse_crc(data, 0x0800, total, label_bytes(lab)))))
        c.add("DOBS")
        c.meta["c03"] = {"pdu": "-", "burst": False, "ptype": 0x0800}
        out.append(c)
    return out


def gen_c03(rng, t):
    out = []
    for i in range(700 * t):
        c = Case("c03_%d" % i)
        slots = rng.choice([1, 2, 3])
        maxpdu = 80
        c.add("DNEW %d %d simple" % (slots, maxpdu))
        for k in range(slots + 2):
            c.add("DPROV %d" % (maxpdu + k))
        fid = rng.below(256)
        lab = rng.choice([L6A, L3A, "B"])
        pl = rng.range(2, 60)
        pdu = rng.bytes(pl)
        nfr = rng.range(1, 4)
        sizes, left = [], pl
        for j in range(nfr):
            lo = 0 if j == 0 else 1
            if left - 1 < lo:
                break
            s = rng.range(lo, left - 1)
            sizes.append(s)
            left -= s
        sizes = sizes or [0]
        pt = rng.choice([0x0800, 0x86DD, 0xFFFF])
        if i % 6 == 4:
            chain = [rng.choice([(0x0100, b""), (0x0233, b"\x01\x02"), (0x0301, b"\x01\x02\x03\x04"), (0x0500, bytes(range(8)))]) for _ in range(rng.range(1, 2))]
            train = fragment_x(pdu, fid, pt, lab, sizes, chain)
        else:
            train = fragment(pdu, fid, pt, lab, sizes)
        fault = rng.below(11) if i % 6 != 4 else rng.choice([99, 99, 0, 1, 2, 3, 5])
        seq = list(train)
        protected_only = False
        if fault >= 9:
            # the first fragment announces a total length that differs from what is sent, and the trailer is the CRC a
            # receiver would compute over the bytes actually sent with that announced length (only the length test can refuse)
            delta = rng.choice([1, 2, 3, 10, 200]) * (1 if fault == 9 else -1)
            wl = len(label_bytes(lab))
            total = max(1, pl + 2 + wl + delta)
            crc = gse_crc(pdu, pt, total, label_bytes(lab))
            seq, off = [], 0
            for j, sz in enumerate(sizes):
                chunk = pdu[off:off + sz]
                off += sz
                seq.append(build_first(fid, total, pt, lab, chunk) if j == 0 else build_inter(fid, chunk))
            seq.append(build_end(fid, pdu[off:], crc))
        if fault == 0 and len(seq) > 2:
            del seq[rng.range(1, len(seq) - 2)]                      # lose an intermediate fragment
        elif fault == 1 and len(seq) > 2:
            k = rng.range(1, len(seq) - 2)
            seq.insert(k, seq[k])                                    # duplicate an intermediate fragment
        elif fault == 2:
            seq.append(seq[-1])                                      # duplicate the end fragment
        elif fault == 3 and len(seq) > 2:
            k = rng.range(1, len(seq) - 2)
            seq[k], seq[k + 1] = seq[k + 1], seq[k]                  # swap
        elif fault == 4:
            k = rng.below(len(seq))
            p = seq[k]
            hdr = 3 if k > 0 else 5                                  # keep GSE header and frag id; total length is protected
            seq[k] = burst(rng, p, hdr * 8 if k > 0 else 3 * 8, len(p) * 8)
            protected_only = seq[k] != p
        elif fault == 5:
            k = rng.below(len(seq))
            seq[k] = seq[k][:rng.range(0, len(seq[k]) - 1)]          # truncation
        elif fault == 6:
            k = rng.below(len(seq))
            seq[k] = mutate(rng, seq[k])
        elif fault == 7:
            other = fragment(rng.bytes(pl), fid, pt, lab, sizes)     # splice another train of the same id
            k = rng.range(1, len(seq) - 1) if len(seq) > 1 else 0
            seq = seq[:k] + other[k:]
        for p in seq:
            c.add("DECAP %s" % hx(p))
        c.meta["c03"] = {"pdu": hx(pdu), "burst": protected_only, "ptype": pt}
        out.append(c)
    out.extend(big_trains(rng, "c03"))
    out.extend(tiny_totals(rng, "c03", 30 * t))
    return out


def orc_c03(case, obs):
    """history oracle: per frag id, payloads in arrival order since the most recent accepted first fragment"""
    bad = []
    if not (case.meta.get("c03") or case.name.startswith("DEC.")):
        return bad
    trains = {}
    for op, ob in zip(case.ops, obs):
        t = op.split(" ")
        if t[0] == "DNEW":
            trains = {}
            continue
        if t[0] != "DECAP":
            continue
        p = parse_packet(tok_bytes(t[1]), KNOWN_EXT_FIXED)
        if isinstance(p, str):
            continue
        w, d = kv(ob)
        okf = w[:2] == ["ok", "fragmented"]
        if p.kind == "F":
            if okf:
                trains[p.fid] = {"total": p.total, "ptype": int(d["ptype"]), "label": d["label"], "wire_ll": LT_LEN[p.lt], "exts": d.get("exts"),
                                 "crc_label": b"" if p.lt == 3 else label_bytes(p.label), "ps": [bytes(p.payload)]}
        elif p.kind == "I":
            if okf and p.fid in trains:
                trains[p.fid]["ps"].append(bytes(p.payload))
            elif len(p.payload) >= 1:
                trains.pop(p.fid, None)
        elif p.kind == "E" and p.gse_len >= 5:
            tr = trains.pop(p.fid, None)
            if w[:2] == ["ok", "completed"]:
                if tr is None:
                    bad.append("PDU delivered at an end fragment of id %d without an accepted first fragment" % p.fid)
                    continue
                P = b"".join(tr["ps"]) + bytes(p.payload)
                if len(P) + 2 + tr["wire_ll"] != tr["total"]:
                    bad.append("delivered %d bytes, first fragment announced total length %d" % (len(P), tr["total"]))
                if gse_crc(P, tr["ptype"], tr["total"], tr["crc_label"]) != p.crc:
                    bad.append("delivered PDU whose CRC-32 differs from the trailer")
                if d["data"] != hx(P) or int(d["pdulen"]) != len(P):
                    bad.append("delivered bytes are not the concatenation of the received payloads")
                if int(d["ptype"]) != tr["ptype"] or d["label"] != tr["label"] or d.get("exts") != tr["exts"]:
                    bad.append("delivered metadata differ from the first fragment's")
    m = case.meta.get("c03")
    if m and m["burst"]:
        for ob in obs:
            if ob.startswith("ok completed") and kv(ob)[1].get("data") != m["pdu"]:
                bad.append("a burst of <= 32 bits in the protected bytes yielded a different delivered PDU")
    return bad


prop("C03", ["c03_history_invariant", "c03_verified_only", "c03_train_opened", "c03_length_exact", "c03_history_bytes", "c03_burst_detected"], ["DEC"], gen_c03, [orc_c03])


# ------------------------------------------------------------------------------------------------
# C20 utils structs vs codec
# ------------------------------------------------------------------------------------------------
def orc_c20(case, obs):
    bad = []
    train, room = None, 0      # the fragment train a decapsulator has been given so far, and the size of its storages
    for op, ob in zip(case.ops, obs):
        t = op.split(" ")
        if t[0] == "UGEN":
            k, gl = t[1], int(t[2])
            bl, seed = int(t[-2]), int(t[-1])
            if k == "C":
                pkt = build_complete(int(t[3]), t[4], tok_bytes(t[5]))
            elif k == "F":
                pkt = build_first(int(t[3]), int(t[4]), int(t[5]), t[6], tok_bytes(t[7]))
            elif k == "I":
                pkt = build_inter(int(t[3]), tok_bytes(t[4]))
            else:
                pkt = build_end(int(t[3]), tok_bytes(t[4]), int(t[5]))
            wf = (gl == len(pkt) - 2) and gl < 4096
            if wf and bl >= len(pkt):
                exp = pkt + gen_bytes(bl, seed)[len(pkt):]
                if ob != "ok " + hx(exp):
                    bad.append("generate(%s) wrote %s..., the codec layout is %s..." % (op[:50], ob[:40], hx(pkt)[:40]))
        elif t[0] == "DECAP" and case.name.startswith(("UTL.", "utl")):
            data = tok_bytes(t[1])
            p = parse_packet(data)
            if isinstance(p, str):
                continue
            w, d = kv(ob)
            if p.kind == "C":
                if w[:2] != ["ok", "completed"] or d.get("data") != hx(p.payload) or d.get("label") != p.label:
                    bad.append("the decapsulator refuses a well-formed complete packet / other field values: %s" % ob[:80])
            elif p.kind == "F" and p.total > len(p.payload):
                if w[:2] != ["ok", "fragmented"] or d.get("label") != p.label:
                    bad.append("the decapsulator refuses a well-formed first fragment (total %d, payload %d): %s" % (p.total, len(p.payload), ob[:80]))
                else:
                    train = {"fid": p.fid, "need": p.total - 2 - LT_LEN[p.lt], "total": p.total, "pt": p.ptype, "label": p.label,
                             "lb": label_bytes(p.label), "data": p.payload}
                    continue
            elif p.kind == "I" and train is not None and p.fid == train["fid"] and len(p.payload) >= 1 \
                    and len(train["data"]) + len(p.payload) <= min(train["need"], room):
                # a generated intermediate packet continuing the generated first fragment, with room in the storage
                if w[:2] != ["ok", "fragmented"] or d.get("label") != train["label"]:
                    bad.append("the decapsulator refuses a well-formed intermediate packet of %d payload bytes: %s" % (len(p.payload), ob[:80]))
                else:
                    train["data"] += p.payload
                    continue
            elif p.kind == "E" and train is not None and p.fid == train["fid"] and len(train["data"]) + len(p.payload) == train["need"] \
                    and train["need"] <= room and p.crc == gse_crc(train["data"] + p.payload, train["pt"], train["total"], train["lb"]):
                if w[:2] != ["ok", "completed"] or d.get("data") != hx(train["data"] + p.payload) or d.get("label") != train["label"]:
                    bad.append("the decapsulator refuses a well-formed end packet closing a consistent train: %s" % ob[:80])
            train = None
        elif t[0] == "DNEW":
            train, room = None, int(t[2])
        elif t[0] == "UPARSE":
            data = tok_bytes(t[2])
            p = parse_packet(data)
            if isinstance(p, str) or p.kind != t[1] or p.gse_len + 2 > len(data):
                continue
            mins = {"C": 2 + LT_LEN[p.lt], "F": 5 + LT_LEN[p.lt], "I": 1, "E": 5}[p.kind]
            if p.gse_len < mins:
                continue
            w, d = kv(ob)
            if w[:1] != ["ok"]:
                bad.append("parse rejects a well-formed %s packet: %s" % (p.kind, ob[:60]))
                continue
            exp = {"gse_len": str(p.gse_len)}
            if p.kind in ("C", "F"):
                # utils structs know no extensions: protocol type is the raw field, pdu is everything after the label
                raw_pt = int.from_bytes(data[(2 if p.kind == "C" else 5):(4 if p.kind == "C" else 7)], "big")
                exp["protocol_type"] = str(raw_pt)
                exp["label"] = p.label
                exp["pdu"] = hx(data[(4 if p.kind == "C" else 7) + LT_LEN[p.lt]:p.gse_len + 2])
            if p.kind == "F":
                exp["frag_id"], exp["total_length"] = str(p.fid), str(p.total)
            if p.kind in ("I", "E"):
                exp["frag_id"] = str(p.fid)
                exp["pdu"] = hx(p.payload)
            if p.kind == "E":
                exp["crc"] = str(p.crc)
            for kx, vx in exp.items():
                if d.get(kx) != vx:
                    bad.append("parse(%s packet): %s=%s, the codec reads %s" % (p.kind, kx, d.get(kx), vx))
                    break
    # the same fields through the encapsulator: byte-identical packet
    ops = case.ops
    for i, op in enumerate(ops):
        if op.startswith("UGEN C") and ops[-1].startswith("ENCAP"):
            t, e = op.split(" "), EncObs(obs[-1])
            et = ops[-1].split(" ")
            if e.ok and e.status == "C" and et[4] == t[4] and int(t[2]) == e.n - 2 and obs[i].startswith("ok "):
                if bytes.fromhex(obs[i][3:])[:e.n] != e.pkt:
                    bad.append("utils generate and encap differ for the same fields")
            break
    return bad


prop("C20", ["c20_roundtrip", "c20_same_as_encap", "c20_same_as_encap_frag"], ["UTL"], no_cases, [orc_c20])


# ------------------------------------------------------------------------------------------------
# C13 extension chains
# ------------------------------------------------------------------------------------------------
def c13_nf_size(i):
    return i % 9            # data bytes of the non-final mandatory extension with id i (0x01..0x7f): 0..8


def c13_fin_size(i):
    return i % 5            # data bytes of the final mandatory extension with id i (0x00, 0x80..0xff)


def c13_chain(rng, pt):
    n = rng.range(1, 4)
    ch = []
    for k in range(n):
        if k == n - 1 and pt < 0x100:
            ch.append((pt, rng.bytes(c13_fin_size(pt))))
        elif rng.chance(0.6):
            h = rng.range(1, 5)
            ch.append(((h << 8) | rng.choice([0, 1, 0x33, 0xAB, 0xFF]), rng.bytes(2 * (h - 1))))
        else:
            i = rng.range(1, 0x7F)
            ch.append((i, rng.bytes(c13_nf_size(i))))
    return ch


def c13_mgr_tok(chain, pt, drop=None, extra=()):
    ent = {}
    for k, (i, d) in enumerate(chain):
        if i < 0x100:
            ent[i] = ("F" if (k == len(chain) - 1 and pt < 0x100) else "N", len(d))
    for i in extra:
        ent.setdefault(i, ("N", 1))
    if drop is not None:
        ent.pop(drop, None)
    if not ent:
        return "simple"
    return "tab:" + ";".join("%04x=%s%d" % (i, k, n) for i, (k, n) in sorted(ent.items()))


def gen_c13(rng, t):
    out = []
    for i in range(1400 * t):
        c = Case("c13_%d" % i)
        lab = rng.choice(LABELS)
        ll = lab_len(lab)
        r = rng.below(20)
        if r < 9:
            pt = rng.choice([0x0600, 0x0601, 0x0800, 0x86DD, 0xFFFF])
        elif r < 17:
            pt = rng.choice([0x00, 0x80, 0x81, 0x82, 0xC3, 0xFE, 0xFF, rng.range(0x80, 0xFF)])
        else:
            pt = rng.choice([0x0100, 0x0101, 0x0300, 0x05FF])                  # cannot be written after a chain
        ch = c13_chain(rng, pt)
        if pt < 0x100 and rng.chance(0.08):
            ch[-1] = (rng.choice([pt ^ 1, 0x0200 | pt]), b"" if pt ^ 1 > 0xff else rng.bytes(c13_fin_size(pt ^ 1)))  # last id differs
            if ch[-1][0] >= 0x100:
                ch[-1] = (ch[-1][0], rng.bytes(2))
        mand = [e[0] for e in ch if e[0] < 0x100]
        m = rng.below(10)
        if m < 6:
            mgr = c13_mgr_tok(ch, pt, extra=rng.choice([(), (0x7E,), (0x11, 0x90)]))
        elif m < 8 and mand:
            mgr = c13_mgr_tok(ch, pt, drop=rng.choice(mand))
        elif m < 9:
            mgr = "simple"
        else:
            mgr = "signal" if pt in (0x81, 0x82) and len(mand) == 1 and not ch[-1][1] else c13_mgr_tok(ch, pt)
        tle = sum(2 + len(d) for _, d in ch) - (2 if pt < 0x100 else 0)
        big = (i % 25 == 0)
        if big:
            pl = rng.choice([near(rng, 4089 - ll - tle, 4093 - ll - tle, lo=0, spread=3), rng.range(4000, 9000)])
        else:
            pl = rng.choice([0, 1, rng.range(0, 12), rng.range(0, 40), rng.range(0, 200)])
        maxpdu = pl + rng.choice([0, 0, 3])
        c.add("ENEW", "DNEW %d %d %s" % (rng.choice([1, 2, 4]), maxpdu, mgr), "DPROV %d" % (maxpdu + rng.range(0, 2)))
        fid = rng.below(256)
        if rng.chance(0.25) and lab != "B":
            c.add("ENCAP - 0 2048 %s 40 1" % lab, "DECAPN -", "DPROVBACK")       # next packet re-uses the label
        full = 4 + ll + tle + pl
        if rng.chance(0.2):
            # buffers refused before the one that is accepted (too small for any packet): must leave no trace in what follows
            for _ in range(rng.choice([1, 2])):
                c.add("EEXT %s %d %d %s %d %d %s" % (pdu_tok(rng, pl), fid, pt, lab, rng.range(0, min(full, 7) - 1), rng.below(99), exts_tok(ch)))
        if big:
            bl = rng.choice([full, full - 1, 4097, 4096, 5000, 7 + ll + tle + rng.range(0, 5)])
        else:
            bl = rng.choice([rng.range(7 + ll + tle, full + 3), rng.range(7 + ll + tle, full + 3), rng.range(7 + ll + tle, full + 3),
                             rng.range(0, 7 + ll + tle + 2), full, full - 1, 7 + ll + tle, 6 + ll + tle])
        c.add("EEXT %s %d %d %s %d %d %s" % (pdu_tok(rng, pl), fid, pt, lab, max(0, bl), rng.below(99), exts_tok(ch)))
        # c13 tail: the packet alone, or followed by other bytes in the receive buffer (consumed must not depend on them)
        c.add("DECAPN -" if rng.chance(0.6) else "DECAPL %s" % hx(rng.bytes(rng.choice([1, 2, 5, 9]))))
        for k in range(min(pl + 2, 12) if not big else 6):
            fb = rng.choice([13, 13, rng.range(7, 30), 4097]) if not big else rng.choice([4097, 5000, 3000])
            c.add("EFRAGC %d %d" % (fb, rng.below(99)), "DECAPN -")
        out.append(c)
    # truncated chains (GSE length ends inside the extension area) and the constructor at its boundaries
    c = Case("c13_trunc")
    c.add("DNEW 1 64 tab:0005=N3;0081=F2")
    for ch, pt in (([(0x0200, b"\x01\x02"), (0x0005, b"\xaa\xbb\xcc")], 0x0800), ([(0x0301, b"\x01\x02\x03\x04"), (0x0081, b"\x05\x06")], 0x81)):
        body = b""
        for k, (eid, d) in enumerate(ch):
            body += d + (ch[k + 1][0].to_bytes(2, "big") if k + 1 < len(ch) else (b"" if pt < 0x100 else pt.to_bytes(2, "big")))
        for cut in range(0, len(body) + 1):
            pkt_c = bytes([0x80 | 0x40 | 0x20, 0]) + ch[0][0].to_bytes(2, "big") + body[:cut]      # broadcast label
            pkt_c = bytes([pkt_c[0] | ((len(pkt_c) - 2) >> 8), (len(pkt_c) - 2) & 0xff]) + pkt_c[2:]
            c.add("DPROV 64", "DECAP %s" % hx(pkt_c))
            pkt_f = bytes([0x80 | 0x20, 0, 7]) + (40).to_bytes(2, "big") + ch[0][0].to_bytes(2, "big") + body[:cut]
            pkt_f = bytes([pkt_f[0] | ((len(pkt_f) - 2) >> 8), (len(pkt_f) - 2) & 0xff]) + pkt_f[2:]
            c.add("DECAP %s" % hx(pkt_f))
    out.append(c)
    c = Case("c13_new")
    for eid in [0, 1, 0xFF, 0x100, 0x101, 0x1FF, 0x200, 0x2FF, 0x300, 0x3FF, 0x400, 0x4FF, 0x500, 0x5FE, 0x5FF, 0x600, 0x601, 0x6FF, 0x700, 0x7FF, 0x800, 0x8000, 0x8100, 0xFFFF]:
        for dl in range(0, 11):
            c.add("XNEW %04x %s" % (eid, hx(bytes(range(dl)))))
    out.append(c)
    if t > 1:
        # thorough: all 65536 ids x data lengths 0..=10
        for blk in range(64):
            c = Case("c13_new_all_%d" % blk)
            for eid in range(blk * 1024, (blk + 1) * 1024):
                for dl in range(0, 11):
                    c.add("XNEW %04x %s" % (eid, hx(bytes(range(dl)))))
            out.append(c)
    return out


def c13_parse_exts(tok):
    if tok == "-":
        return []
    res = []
    for part in tok.split(","):
        a, b = part.split(":")
        res.append((int(a, 16), b"" if b == "-" else bytes.fromhex(b)))
    return res


def c13_parse_mgr(tok):
    if tok == "simple":
        return {}
    if tok == "signal":
        return {0x81: ("F", 0), 0x82: ("F", 0)}
    ent = {}
    for part in tok[4:].split(";"):
        if part and int(part[:4], 16) not in ent:
            ent[int(part[:4], 16)] = (part[5], int(part[6:]))
    return ent


def c13_receiver_view(mgr, chain, pt):
    """'known' / 'unknown' (first not-understood thing is a mandatory id the manager lacks) / 'other'"""
    for k, (i, d) in enumerate(chain):
        if i >= 0x100:
            continue
        if i not in mgr:
            return "unknown"
        kind, n = mgr[i]
        want = "F" if (k == len(chain) - 1 and pt < 0x100) else "N"
        if kind != want or n != len(d):
            return "other"
    return "known"


def orc_c13(case, obs):
    bad = []
    ops = case.ops
    mgr, maxpdu, prov = None, 0, []
    for i, op in enumerate(ops):
        t = op.split(" ")
        ob = obs[i] if i < len(obs) else ""
        if ob.startswith("PANIC") and t[0] in ("XNEW", "EEXT", "DECAP", "DECAPN"):
            bad.append("%s panics: %s" % (t[0], op[:80]))
            continue
        if t[0] == "DNEW":
            mgr, maxpdu, prov = c13_parse_mgr(t[3]), int(t[2]), []
        elif t[0] == "DPROV":
            if ob == "ok":
                prov.append(int(t[1]))
        elif t[0] == "XNEW":
            eid, data = int(t[1], 16), tok_bytes(t[2])
            if eid >= 0x600:
                exp = "err IncorrectExtensionId"
            elif eid >= 0x100 and len(data) != 2 * ((eid >> 8) - 1):
                exp = "err IdAndVecSizeNotMatching"
            else:
                exp = "ok %s len=%d" % (exts_obs([(eid, data)]), 2 + len(data))
            if ob != exp:
                bad.append("Extension::new(0x%04x, %d bytes) -> %s, expected %s" % (eid, len(data), ob[:60], exp[:60]))
        elif t[0] == "EEXT":
            e = EncObs(ob)
            if not e.ok:
                continue
            pdu, fid, pt, lab = tok_bytes(t[1]), int(t[2]), int(t[3]), t[4]
            chain = c13_parse_exts(t[7])
            if not chain or not (pt >= 0x600 or (pt < 0x100 and chain[-1][0] == pt)):
                bad.append("encap_ext answers Ok for a chain / protocol type it cannot encode decodably (ptype 0x%04x, chain %s)" % (pt, t[7][:60]))
                continue
            if e.n != len(e.pkt) or ((e.pkt[0] & 0x0F) << 8 | e.pkt[1]) + 2 != e.n:
                bad.append("reported length %d, on-wire GSE length + 2 = %d" % (e.n, ((e.pkt[0] & 0x0F) << 8 | e.pkt[1]) + 2))
            if mgr is None or i + 1 >= len(ops) or not ops[i + 1].startswith(("DECAPN", "DECAPL")):
                continue
            view = c13_receiver_view(mgr, chain, pt)
            adequate = maxpdu >= len(pdu) and prov and max(prov) >= len(pdu) and "DPROVBACK" not in ops[i:] \
                and not any(o.startswith(("DECAP ", "DRESET", "DNEWPDU")) for o in ops[:i])
            if not adequate or view == "other":
                continue
            w, d = kv(obs[i + 1])
            if view == "unknown":
                if w[:2] != ["err", "UnkownMandatoryHeader"] or int(d.get("consumed", -1)) != e.n:
                    bad.append("packet with a mandatory extension unknown to the receiver: %s (expected UnkownMandatoryHeader consuming %d)" % (obs[i + 1][:80], e.n))
                continue
            # the receiver knows every mandatory extension used
            want_exts = exts_obs(chain)
            done = (e.status == "C")
            pending = e.n
            for j in range(i + 1, len(ops)):
                o2, b2 = ops[j], obs[j]
                if o2.startswith("EFRAGC"):
                    if done:
                        break
                    f = EncObs(b2)
                    if f.ok:
                        pending = f.n
                        done = (f.status == "C")
                    else:
                        pending = None
                elif o2.startswith(("DECAPN", "DECAPL")):
                    if pending is None or b2 == "nopkt":
                        continue
                    w, d = kv(b2)
                    kind = "completed" if done else "fragmented"
                    if w[:2] != ["ok", kind]:
                        bad.append("known chain: packet answered %s (expected %s)" % (b2[:90], kind))
                        break
                    if d.get("exts") != want_exts or int(d["ptype"]) != pt or d["label"] != lab:
                        bad.append("%s status carries exts=%s ptype=%s label=%s; sent %s / %d / %s" % (kind, d.get("exts"), d["ptype"], d["label"], want_exts, pt, lab))
                        break
                    if int(d["consumed"]) != pending:
                        bad.append("decap consumed %s, sender reported %d" % (d["consumed"], pending))
                    if done and (d.get("data") != hx(pdu) or int(d["pdulen"]) != len(pdu)):
                        bad.append("delivered PDU differs from the one sent with extensions")
                    pending = None
                    if done:
                        break
                else:
                    break
    return bad


prop("C13", ["c13_encap_ext_total", "c13_complete_roundtrip", "c13_fragmented_roundtrip", "c13_encodable", "c13_decodable",
             "c13_unknown_whole_packet", "c13_unknown_mandatory", "c13_new"], ["EXT", "ENCX", "SYS"], gen_c13, [orc_c13],
     exhaustive="thorough tier: Extension::new on all 65536 ids x data lengths 0..=10")
