(* Offering a schedule of output buffers to encap_frag: the produced packets partition the PDU (C11),
   and schedules of large-enough buffers complete (C11 bound, C02 progress). No model code. *)
Require Import GSE.gen.Consts GSE.model.Base GSE.model.Types GSE.model.Header GSE.model.Ext GSE.model.Encap
  GSE.proofs.Tactics GSE.proofs.BaseLemmas GSE.proofs.HeaderLemmas GSE.proofs.EncapSpec GSE.proofs.EncapProps.
Open Scope N_scope.
Set Default Proof Using "Type".
#[local] Opaque pkt_complete pkt_first pkt_end pkt_inter.

(* the caller's loop: offer each buffer in turn, skip the rejected ones, carry the returned context.
   Result: packets emitted (prefix of each output buffer of the reported length), in order, and the context still
   open (None once the end packet has been produced). Defined on the model function itself. *)
Fixpoint frag_run (pdu : list byte) (ctx : ctxfrag) (bufs : list (list byte)) : res (list (list byte) * option ctxfrag) :=
  match bufs with
  | [] => Ret ([], Some ctx)
  | b :: t =>
    do '(b', r) <- encap_frag pdu ctx b;
    match r with
    | inl (Completed n) => Ret ([takeN n b'], None)
    | inl (Fragmented n c') => do '(ps, o) <- frag_run pdu c' t; Ret (takeN n b' :: ps, o)
    | inr _ => frag_run pdu ctx t
    end
  end.

(* a continuation train: consecutive, non-empty, non-overlapping slices of the PDU starting at `off`,
   closed (None) by the CRC-bearing end packet or still open at some offset *)
Inductive train_from (pdu : list byte) (fid crcv : N) : N -> list (list byte) -> list (list byte) -> option N -> Prop :=
| T_nil off : train_from pdu fid crcv off [] [] (Some off)
| T_inter off k ps pls r : 1 <= k -> off + k <= lenN pdu -> k <= 4094 ->
    train_from pdu fid crcv (off + k) ps pls r ->
    train_from pdu fid crcv off (pkt_inter fid (takeN k (dropN off pdu)) :: ps) (takeN k (dropN off pdu) :: pls) r
| T_end off : off <= lenN pdu -> lenN pdu - off <= 4090 ->
    train_from pdu fid crcv off [pkt_end fid (dropN off pdu) crcv] [dropN off pdu] None.

Lemma train_concat pdu fid crcv off ps pls r : train_from pdu fid crcv off ps pls r -> off <= lenN pdu ->
  concat pls = match r with None => dropN off pdu | Some e => takeN (e - off) (dropN off pdu) end
  /\ match r with Some e => off <= e <= lenN pdu | None => True end.
Proof.
  induction 1 as [off|off k ps pls r Hk Hle Hk2 Ht IH|off Ho Hr]; intro Hoff.
  - cbn [concat]. rewrite N.sub_diag, takeN_0. split; [reflexivity|lia].
  - cbn [concat]. destruct (IH ltac:(lia)) as [E B]. rewrite E. split.
    + destruct r as [e|].
      * replace (e - off) with (k + (e - (off + k))) by lia. rewrite takeN_add, dropN_dropN.
        do 3 f_equal. lia.
      * rewrite <- (takeN_dropN k (dropN off pdu)) at 2. rewrite dropN_dropN. do 2 f_equal. lia.
    + destruct r; [lia|exact I].
  - cbn [concat]. rewrite app_nil_r. split; [reflexivity|exact I].
Qed.

Lemma frag_run_train pdu : lenN pdu <= 65535 -> forall bufs ctx ps o, cf_len ctx <= lenN pdu ->
  frag_run pdu ctx bufs = Ret (ps, o) ->
  exists pls, train_from pdu (cf_id ctx) (cf_crc ctx) (cf_len ctx) ps pls (option_map cf_len o)
    /\ match o with Some c => cf_id c = cf_id ctx /\ cf_crc c = cf_crc ctx /\ cf_len c <= lenN pdu | None => True end.
Proof.
  intros Hp. induction bufs as [|b t IH]; intros ctx ps o Hc H; cbn [frag_run] in H.
  - injection H as <- <-. exists []. split; [constructor|auto].
  - rewrite encap_frag_spec in H. cbn [bind] in H.
    pose proof (encap_frag_hl_shape pdu ctx b) as Sh.
    destruct (encap_frag_hl pdu ctx b) as [b' r] eqn:E.
    remember (b', r) as oo eqn:Eo. destruct Sh as [e| |k]; injection Eo as <- <-.
    + apply IH; assumption.
    + injection H as <- <-. rewrite takeN_app_eq by (rewrite lenN_pkt_end, lenN_dropN; lia).
      eexists. split; [apply T_end; lia|exact I].
    + destruct (frag_run pdu {| cf_id := cf_id ctx; cf_crc := cf_crc ctx; cf_len := u16 (cf_len ctx + k) |} t)
        as [[ps' o']|] eqn:Er; [|discriminate]. cbn [bind] in H. injection H as <- <-.
      rewrite u16_small in Er by lia.
      apply IH in Er; [|cbn; lia]. destruct Er as (pls & Tr & Ho). cbn [cf_id cf_crc cf_len] in *.
      rewrite takeN_app_eq by (rewrite lenN_pkt_inter, lenN_takeN, lenN_dropN; lia).
      eexists. split; [apply T_inter; eauto; lia|exact Ho].
Qed.

(* C11 bound / C02 progress: a buffer of at least 7 bytes is never rejected, and each accepted call either
   completes or advances by at least one byte *)
Lemma frag_run_completes pdu : lenN pdu <= 65535 -> forall bufs ctx, cf_len ctx <= lenN pdu ->
  Forall (fun b => 7 <= lenN b) bufs -> lenN pdu - cf_len ctx + 1 <= lenN bufs ->
  exists ps, frag_run pdu ctx bufs = Ret (ps, None) /\ lenN ps <= lenN pdu - cf_len ctx + 1.
Proof.
  intros Hp. induction bufs as [|b t IH]; intros ctx Hc Hb Hn.
  - rewrite lenN_nil in Hn. lia.
  - cbn [frag_run]. rewrite encap_frag_spec. cbn [bind].
    inversion Hb as [|? ? Hb1 Hb2]; subst.
    pose proof (encap_frag_hl_shape pdu ctx b) as Sh.
    destruct (encap_frag_hl pdu ctx b) as [b' r] eqn:E.
    remember (b', r) as oo eqn:Eo. destruct Sh as [e| |k]; injection Eo as <- <-.
    + (* rejected: impossible with 7 bytes *)
      exfalso. unfold encap_frag_hl in E.
      destruct (N.ltb_spec (lenN pdu) (cf_len ctx)); [lia|]. cbv zeta in E.
      destruct ((lenN pdu - cf_len ctx + 7 <=? lenN b) && (lenN pdu - cf_len ctx <=? 4090)) eqn:Hend; [discriminate|].
      destruct ((4 <=? lenN b) && (1 <=? lenN pdu - cf_len ctx)) eqn:Hint; [discriminate|].
      apply andb_false_iff in Hend. apply andb_false_iff in Hint.
      destruct Hint as [Hi|Hi]; apply N.leb_gt in Hi; [lia|].
      destruct Hend as [He|He]; apply N.leb_gt in He; lia.
    + eexists. split; [reflexivity|]. rewrite lenN_cons, lenN_nil. lia.
    + rewrite lenN_cons in Hn.
      destruct (IH {| cf_id := cf_id ctx; cf_crc := cf_crc ctx; cf_len := u16 (cf_len ctx + k) |}) as (ps & Er & Hl);
        try assumption; cbn [cf_len]; rewrite ?u16_small by lia; try lia.
      cbn [cf_len] in Hl. rewrite u16_small in Hl, Er by lia. rewrite ?u16_small by lia.
      rewrite Er. cbn [bind]. eexists. split; [reflexivity|]. rewrite lenN_cons. lia.
Qed.

(* C02 "as soon as": what a continuation buffer does is a function of its size and of the bytes left *)
Lemma frag_step_schedule pdu ctx b : cf_len ctx <= lenN pdu ->
  let rem := lenN pdu - cf_len ctx in
  (rem + 7 <= lenN b /\ rem <= 4090 /\ exists b', encap_frag pdu ctx b = Ret (b', inl (Completed (7 + rem)))) \/
  (~ (rem + 7 <= lenN b /\ rem <= 4090) /\ 4 <= lenN b /\ 1 <= rem /\
     exists b' c, encap_frag pdu ctx b = Ret (b', inl (Fragmented (3 + N.min (N.min (lenN b - 3) 4094) rem) c))
                  /\ cf_len c = u16 (cf_len ctx + N.min (N.min (lenN b - 3) 4094) rem)) \/
  (~ (rem + 7 <= lenN b /\ rem <= 4090) /\ (lenN b < 4 \/ rem = 0) /\ encap_frag pdu ctx b = Ret (b, inr ESizeBuffer)).
Proof.
  intros Hc rem. rewrite encap_frag_spec. unfold encap_frag_hl.
  destruct (N.ltb_spec (lenN pdu) (cf_len ctx)); [lia|]. cbv zeta. fold rem.
  destruct ((rem + 7 <=? lenN b) && (rem <=? 4090)) eqn:Hend.
  - apply andb_prop in Hend as [H1 H2]. apply N.leb_le in H1. apply N.leb_le in H2. left.
    repeat split; try assumption. rewrite lenN_pkt_end, lenN_dropN. fold rem. eauto.
  - assert (Hn : ~ (rem + 7 <= lenN b /\ rem <= 4090)).
    { apply andb_false_iff in Hend. intros [A B]. destruct Hend as [He|He]; apply N.leb_gt in He; lia. }
    destruct ((4 <=? lenN b) && (1 <=? rem)) eqn:Hint.
    + apply andb_prop in Hint as [H1 H2]. apply N.leb_le in H1. apply N.leb_le in H2. right. left.
      repeat split; try assumption. rewrite lenN_pkt_inter, lenN_takeN, lenN_dropN. fold rem.
      replace (N.min (N.min (N.min (lenN b - 3) 4094) rem) rem) with (N.min (N.min (lenN b - 3) 4094) rem) by lia.
      eauto.
    + right. right. repeat split; try assumption.
      apply andb_false_iff in Hint. destruct Hint as [Hi|Hi]; apply N.leb_gt in Hi; lia.
Qed.
