(* C12 -- the default CRC is CRC-32/MPEG-2 over total length | protocol type | label | PDU.
   Pinned statements only; proofs in proofs/CrcLemmas.v. (The use of this value in the end-fragment trailer and
   in decap_end is part of C02/C03: pkt_end carries be32 of the context CRC, decap_end recomputes `crc` on the
   reassembled bytes.) *)
Require Import GSE.gen.CrcTable GSE.model.Base GSE.model.Crc GSE.proofs.CrcLemmas GSE.proofs.HeaderLemmas GSE.proofs.CrcBurst.
Open Scope N_scope.

(* the generated 256-entry table is the table of the polynomial 0x04C11DB7 (8 shift steps of i << 24) *)
Theorem c12_table : forall i, i < 256 -> idx CRC_TAB i = Ret (tab_entry i).
Proof. exact table_ok. Qed.

(* For every input (bytes < 256, any lengths), DefaultCrc never panics and returns the CRC-32 with polynomial
   0x04C11DB7 (step0), initial value 0xFFFFFFFF, MSB first, no reflection, no final xor, of the string
   total_length(2, BE) | protocol_type(2, BE) | label | pdu *)
Theorem c12_default_crc : forall pdu pt tl lab, bytes_ok pdu -> bytes_ok lab ->
  default_crc_res pdu pt tl lab = Ret (crc_spec (be16 tl ++ be16 pt ++ lab ++ pdu) 0xFFFFFFFF)
  /\ default_crc pdu pt tl lab = crc_spec (be16 tl ++ be16 pt ++ lab ++ pdu) 0xFFFFFFFF.
Proof. intros. split; [now apply default_crc_res_ok|now apply default_crc_ok]. Qed.

(* the specification unfolded: per byte, xor into the top of the register, then eight shifts with conditional
   xor of the polynomial *)
Theorem c12_spec_unfold : forall data b acc,
  crc_spec (b :: data) acc = crc_spec data (iter 8 (N.lxor acc (N.shiftl b 24))) /\ crc_spec [] acc = acc /\
  (forall s, step0 s = if N.testbit s 31 then N.lxor (N.land (N.shiftl s 1) 0xFFFFFFFF) 0x04C11DB7
                       else N.land (N.shiftl s 1) 0xFFFFFFFF).
Proof. intros. repeat split. Qed.

(* ... and the byte-at-a-time form is the bit-serial LFSR: every message bit, most significant first, is xored into
   the top of the register, which then shifts once (feed_bit); crc_bits folds feed_bit over the bits of the bytes *)
Theorem c12_bit_serial : forall data init, bytes_ok data -> init < 4294967296 -> crc_bits data init = crc_spec data init.
Proof. exact crc_bits_spec. Qed.

Example c12_check_value : default_crc_res [0x35;0x36;0x37;0x38;0x39] 0x3334 0x3132 [] = Ret 0x0376E6E7
  /\ crc_spec [0x31;0x32;0x33;0x34;0x35;0x36;0x37;0x38;0x39] 0xFFFFFFFF = 0x0376E6E7.
Proof. split; vm_compute; reflexivity. Qed.

Print Assumptions c12_table.
Print Assumptions c12_default_crc.
Print Assumptions c12_spec_unfold.
Print Assumptions c12_bit_serial.
