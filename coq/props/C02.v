(* C02 -- fragmented round trip holds for every PDU and every buffer-size schedule. Pinned statements only. *)
Require Import GSE.model.Base GSE.model.Types GSE.model.Ext GSE.model.Encap GSE.model.Memory GSE.model.Decap
  GSE.proofs.Tactics GSE.proofs.BaseLemmas GSE.proofs.HeaderLemmas GSE.proofs.EncapSpec GSE.proofs.EncapProps
  GSE.proofs.FragRun GSE.proofs.MemoryLemmas GSE.proofs.DecapBase GSE.proofs.DecapSpec GSE.proofs.DecapProps
  GSE.proofs.RoundTrip GSE.proofs.FragTrip.
Open Scope N_scope.
#[local] Opaque pkt_complete pkt_first pkt_end pkt_inter.

(* Sender: encap into a first buffer, then encap_frag with each returned context over ANY schedule of output
   buffers (frag_run skips the rejected ones). Receiver: any well-formed state with a free buffer or an open
   context on that slot, storage >= |pdu|, able to resolve the label as written. Feeding the produced packets in
   order yields Fragmented statuses carrying label and protocol type, then exactly one completed PDU equal to the
   original; each call consumes exactly the length the sender reported for that packet. *)
Theorem c02_roundtrip : forall crc mgr, (forall a b c d, crc a b c d < 4294967296) ->
  forall S pdu fid pt lab b0 S' b0' n0 c0 bufs ps R R1 cur,
  enc_wf S -> label_wf lab -> bytes_ok pdu -> fid < 256 -> 1536 <= pt < 65536 ->
  encap crc S pdu fid pt lab b0 = Ret (S', b0', inl (Fragmented n0 c0)) ->
  frag_run pdu c0 bufs = Ret (ps, None) ->
  dstate_wf R ->
  let l := snd (check_reuse_hl S lab) in
  resolve_hl R (label_type l) l = inl (R1, cur) ->
  lenN pdu <= max_pdu_size (dmem R) -> max_frag_id (dmem R) <> 0 ->
  (slot_of (dmem R) fid <> None \/ storages (dmem R) <> []) ->
  let mdf := {| md_pdu_len := 0; md_ptype := pt; md_label := cur; md_exts := [] |} in
  exists R' b lastp,
    ps = removelast ps ++ [lastp] /\
    recv_run crc mgr R (takeN n0 b0' :: ps) =
      Ret (R', inl (DFragmented mdf, n0)
               :: map (fun p => inl (DFragmented mdf, lenN p)) (removelast ps)
               ++ [inl (DCompleted b {| md_pdu_len := lenN pdu; md_ptype := pt; md_label := cur; md_exts := [] |},
                        lenN lastp)])
    /\ takeN (lenN pdu) (bdata b) = pdu /\ dstate_wf R'.
Proof.
  intros crc mgr Hcrc S pdu fid pt lab b0 S' b0' n0 c0 bufs ps R R1 cur HS Hw Hpdu Hfid Hpt He Hrun HR l Hres Hmax Hz Hav mdf.
  rewrite encap_spec in He by assumption. injection He as He.
  destruct (encap_ok_guards crc _ _ _ _ _ _ _ _ _ He) as [Hzl _].
  pose proof (encap_hl_shape crc S pdu fid pt lab b0 Hw) as Sh. rewrite He in Sh.
  remember (S', b0', @inl enc_status enc_error (Fragmented n0 c0)) as oo eqn:E.
  destruct Sh as [e|s1 l' Hc Hf Hg|s1 l' pe Hc Hpe Hb Hlt Hbig]; try discriminate E. injection E as <- <- <- <-.
  subst l. rewrite Hc in *. cbn [snd] in *.
  pose proof (check_reuse_label_wf _ _ _ _ Hw Hc) as Hwl.
  pose proof (lt_len_label l' Hwl) as Hll. pose proof (lt_len_le (label_type l')) as Hl6.
  assert (Hzl' : is_zero6 l' = false).
  { apply check_reuse_cases in Hc as [(-> & _)|(-> & _)]; [reflexivity|exact Hzl]. }
  rewrite takeN_app_eq by (rewrite lenN_pkt_first, lenN_takeN; lia).
  set (tl := lenN pdu + 2 + lenN (label_bytes l')) in *.
  (* first fragment *)
  destruct (decap_first_step crc mgr Hcrc R l' fid pt pdu pe R1 cur Hwl Hzl' Hpt Hfid Hpdu Hlt ltac:(subst tl; lia) ltac:(lia)
              HR Hres Hmax Hz Hav) as (Ra & Ea & Hinv & Hla).
  fold tl in Ea, Hinv.
  set (c0r := {| c_label := cur; c_ptype := pt; c_fid := fid; c_total := tl; c_pdulen := 0;
                 c_reuse := ltype_eqb (label_type l') TR; c_exts := [] |}) in *.
  (* the continuation train produced by the sender *)
  assert (Hp16 : lenN pdu <= 65535) by (subst tl; lia).
  match type of Hrun with frag_run _ ?cx _ = _ =>
    assert (Hcl : cf_len cx <= lenN pdu) by (cbn [cf_len]; lia);
    destruct (frag_run_train pdu Hp16 bufs cx ps None Hcl Hrun) as (pls & Tr & _) end.
  cbn [cf_id cf_crc cf_len option_map] in Tr.
  (* what the receiver will check: total length and CRC, with the label as the first fragment carried it *)
  assert (Htot : c_total c0r = lenN pdu + 2 + (if c_reuse c0r then 0 else lt_len (label_type (c_label c0r)))).
  { cbn [c0r c_total c_reuse c_label]. subst tl. destruct (ltype_eqb (label_type l') TR) eqn:Et.
    - destruct l'; try discriminate. reflexivity.
    - rewrite (resolve_cur R l' R1 cur Hres) by (intro X; rewrite X in Et; discriminate). now rewrite Hll. }
  assert (Hcrcv : crc pdu pt tl (label_bytes l') =
                  crc pdu (c_ptype c0r) (c_total c0r) (if c_reuse c0r then [] else label_bytes (c_label c0r))).
  { cbn [c0r c_total c_reuse c_label c_ptype]. destruct (ltype_eqb (label_type l') TR) eqn:Et.
    - destruct l'; try discriminate. reflexivity.
    - now rewrite (resolve_cur R l' R1 cur Hres) by (intro X; rewrite X in Et; discriminate). }
  rewrite Hcrcv in Tr.
  destruct (train_recv crc mgr Hcrc pdu c0r Hpdu Hfid Hp16 Htot pe ps pls Tr Ra Hinv) as (R' & b & rs & lastp & Er & Eps & Ers & Hd & Hw' & _).
  exists R', b, lastp. split; [exact Eps|]. cbn [recv_run]. rewrite Ea. cbn [bind]. rewrite Er. cbn [bind].
  split; [|split; assumption]. rewrite Ers. reflexivity.
Qed.

(* a buffer of 13 bytes or more is never answered "too small" by encap, nor (7 suffice) by encap_frag, and a
   schedule with enough such buffers completes *)
Theorem c02_accepts_13 : forall crc S pdu fid pt lab buf, enc_wf S -> label_wf lab -> 13 <= lenN buf ->
  forall S' b', encap crc S pdu fid pt lab buf <> Ret (S', b', inr ESizeBuffer).
Proof.
  intros crc S pdu fid pt lab buf HS Hw Hb S' b' H. rewrite encap_spec in H by assumption. injection H as H.
  unfold encap_hl in H. destruct (is_zero6 lab); [discriminate|]. destruct ((256 <=? pt) && (pt <? 1536)); [discriminate|].
  destruct (check_reuse_hl S lab) as [s1 l] eqn:Hc.
  pose proof (check_reuse_label_wf _ _ _ _ Hw Hc) as Hwl.
  pose proof (lt_len_label l Hwl) as Hll. pose proof (lt_len_le (label_type l)) as Hl6.
  destruct ((4 + lenN (label_bytes l) + lenN pdu <=? lenN buf) && (lenN pdu + lenN (label_bytes l) + 2 <=? 4095)); [discriminate|].
  destruct (N.ltb_spec (lenN buf) (7 + lenN (label_bytes l))); [lia|].
  destruct (65535 <? lenN pdu + 2 + lenN (label_bytes l)); discriminate.
Qed.
(* a PDU within the 16-bit total length, a usable label and protocol type, a buffer of 13 bytes or more: encap answers
   with a packet (complete or first fragment), never with an error *)
Theorem c02_first_accepted : forall crc S pdu fid pt lab buf, enc_wf S -> label_wf lab ->
  lab <> L6 [0;0;0;0;0;0] -> ~ (0x0100 <= pt <= 0x05FF) ->
  lenN pdu + 2 + lenN (label_bytes (snd (check_reuse_hl S lab))) <= 65535 -> 13 <= lenN buf ->
  exists S' buf' st, encap crc S pdu fid pt lab buf = Ret (S', buf', inl st).
Proof.
  intros crc S pdu fid pt lab buf HS Hw Hnz Hp Htl Hb. rewrite encap_spec by assumption.
  assert (Hz : is_zero6 lab = false) by (unfold is_zero6; apply label_eqb_neq; exact Hnz).
  unfold encap_hl. rewrite Hz.
  replace ((256 <=? pt) && (pt <? 1536)) with false.
  2:{ symmetry. apply andb_false_iff. destruct (N.leb_spec 256 pt); [right; apply N.ltb_ge; lia|left; reflexivity]. }
  destruct (check_reuse_hl S lab) as [s1 l] eqn:Hc. cbn [snd] in Htl.
  pose proof (check_reuse_label_wf _ _ _ _ Hw Hc) as Hwl.
  pose proof (label_len_bytes l Hwl) as Hll. pose proof (label_len_le l) as Hl6. rewrite <- Hll in *.
  destruct ((4 + lenN (label_bytes l) + lenN pdu <=? lenN buf) && (lenN pdu + lenN (label_bytes l) + 2 <=? 4095)); [eauto|].
  destruct (N.ltb_spec (lenN buf) (7 + lenN (label_bytes l))); [lia|].
  destruct (N.ltb_spec 65535 (lenN pdu + 2 + lenN (label_bytes l))); [lia|]. eauto.
Qed.
Theorem c02_completes : forall pdu ctx bufs, lenN pdu <= 65535 -> cf_len ctx <= lenN pdu ->
  Forall (fun b => 13 <= lenN b) bufs -> lenN pdu - cf_len ctx + 1 <= lenN bufs ->
  exists ps, frag_run pdu ctx bufs = Ret (ps, None).
Proof.
  intros pdu ctx bufs Hp Hc Hb Hn. destruct (frag_run_completes pdu Hp bufs ctx Hc) as (ps & E & _); [|exact Hn|eauto].
  eapply Forall_impl; [|exact Hb]. cbn. intros. lia.
Qed.
(* "as soon as": what each continuation buffer does is a function of its size and of the bytes left *)
Theorem c02_schedule : forall pdu ctx b, cf_len ctx <= lenN pdu ->
  let rem := lenN pdu - cf_len ctx in
  (rem + 7 <= lenN b /\ rem <= 4090 /\ exists b', encap_frag pdu ctx b = Ret (b', inl (Completed (7 + rem)))) \/
  (~ (rem + 7 <= lenN b /\ rem <= 4090) /\ 4 <= lenN b /\ 1 <= rem /\
     exists b' c, encap_frag pdu ctx b = Ret (b', inl (Fragmented (3 + N.min (N.min (lenN b - 3) 4094) rem) c))
                  /\ cf_len c = u16 (cf_len ctx + N.min (N.min (lenN b - 3) 4094) rem)) \/
  (~ (rem + 7 <= lenN b /\ rem <= 4090) /\ (lenN b < 4 \/ rem = 0) /\ encap_frag pdu ctx b = Ret (b, inr ESizeBuffer)).
Proof. exact frag_step_schedule. Qed.

Print Assumptions c02_roundtrip.
Print Assumptions c02_accepts_13.
Print Assumptions c02_first_accepted.
Print Assumptions c02_completes.
Print Assumptions c02_schedule.
