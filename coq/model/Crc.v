(* DefaultCrc (src/crc.rs): table-driven CRC over total_length | protocol_type | label | pdu. *)
Require Import GSE.gen.Consts GSE.gen.CrcTable GSE.model.Base.
Open Scope N_scope.

Definition M32 : N := 0x100000000.

(* (acc << 8) ^ CRC_TAB[((acc >> 24) ^ octet) as usize]   on u32; indexing past the table panics *)
Definition crc_byte (tab : list N) (acc : N) (octet : byte) : res N :=
  do t <- idx tab (N.lxor (N.shiftr acc 24) octet);
  Ret (N.lxor (N.land (N.shiftl acc 8) (M32 - 1)) t).

Fixpoint crc32_tab (tab : list N) (data : list byte) (acc : N) : res N :=
  match data with
  | [] => Ret acc
  | o :: t => do a <- crc_byte tab acc o; crc32_tab tab t a
  end.

Definition default_crc_res (pdu : list byte) (ptype total_len : N) (label : list byte) : res N :=
  do c <- crc32_tab CRC_TAB (be16 total_len) CRC_INIT;
  do c <- crc32_tab CRC_TAB (be16 ptype) c;
  do c <- crc32_tab CRC_TAB label c;
  crc32_tab CRC_TAB pdu c.

(* the pure function handed to the codecs; proofs/CrcLemmas.v shows default_crc_res never panics on bytes *)
Definition default_crc (pdu : list byte) (ptype total_len : N) (label : list byte) : N :=
  match default_crc_res pdu ptype total_len label with Ret v => v | Panic => 0 end.
