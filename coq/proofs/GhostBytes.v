(* the ghost history of C03 only ever holds byte strings: payloads come from the received buffers, and the label of a
   train whose first fragment did not use re-use is made of bytes of that fragment *)
Require Import GSE.gen.Consts GSE.model.Base GSE.model.Types GSE.model.Ext GSE.model.Encap GSE.model.Memory GSE.model.Decap
  GSE.proofs.Tactics GSE.proofs.BaseLemmas GSE.proofs.MemoryLemmas GSE.proofs.DecapBase GSE.proofs.DecapSpec
  GSE.proofs.DecapProps GSE.proofs.RoundTrip GSE.proofs.FragTrip GSE.proofs.Isolation GSE.proofs.Verified GSE.proofs.LabelSync.
Open Scope N_scope.

Definition ghost_bytes (A : ghost_map) : Prop :=
  forall i c0 ps, A i = Some (c0, ps) ->
    Forall bytes_ok ps /\ (c_reuse c0 = false -> bytes_ok (label_bytes (c_label c0))).

Lemma ghost_bytes_init : ghost_bytes (fun _ => None). Proof. intros i c0 ps H. discriminate. Qed.

Lemma gupd_bytes A i v : ghost_bytes A ->
  (forall c0 ps, v = Some (c0, ps) -> Forall bytes_ok ps /\ (c_reuse c0 = false -> bytes_ok (label_bytes (c_label c0)))) ->
  ghost_bytes (gupd A i v).
Proof. intros HA Hv j c0 ps. unfold gupd. destruct (j =? i); [apply Hv|apply HA]. Qed.

Lemma mk_label_bytes_ok t b : bytes_ok b -> bytes_ok (label_bytes (mk_label t b)).
Proof. destruct t; cbn; auto; constructor. Qed.

Section GB.
Variable crc : list byte -> N -> N -> list byte -> N.
Variable mgr : N -> mand.

(* the label carried by an accepted first fragment that is not a re-use packet is made of bytes of that packet *)
Lemma first_hl_label_bytes s pkt t blen s' md n : bytes_ok pkt -> t <> TR ->
  first_hl mgr s pkt t blen = (s', inl (DFragmented md, n)) -> bytes_ok (label_bytes (md_label md)).
Proof.
  intros Hb Ht H. pose proof (first_hl_labels mgr s pkt t blen) as LS. cbv zeta in LS. rewrite H in LS. cbn [fst snd] in LS.
  unfold label_step, res_label in LS.
  assert (Hlab : bytes_ok (label_bytes (mk_label t (takeN (lt_len t) (dropN 7 pkt))))).
  { apply mk_label_bytes_ok, bytes_ok_takeN, bytes_ok_dropN, Hb. }
  destruct LS as [(_ & Hres)|[(l & Hres & _ & [[_ ->]|[Htr _]])|(Hres & _)]].
  - destruct (Hres _ eq_refl) as [_ ->]. constructor.
  - injection Hres as ->. exact Hlab.
  - contradiction.
  - discriminate.
Qed.

Lemma ghost_step_bytes s A buf s' r : dstate_wf s -> bytes_ok buf -> ghost_bytes A ->
  decap_hl crc mgr s buf = (s', r) -> ghost_bytes (ghost_step A s' buf r).
Proof.
  intros Hs Hb HA Hd. unfold ghost_step.
  destruct (head_pkt buf) as [[[k t] p]|] eqn:Hh; [|exact HA].
  destruct (head_pkt_len crc mgr _ _ _ _ Hh) as (gl & _ & _ & _ & Ep).
  assert (Hbp : bytes_ok p) by (rewrite Ep; now apply bytes_ok_takeN).
  rewrite (decap_hl_head crc mgr s buf), Hh in Hd.
  destruct k.
  - exact HA.
  - (* first *)
    destruct (is_frag_ok r) eqn:Eok; [|exact HA].
    destruct r as [[[| md|] n]|]; try discriminate Eok.
    destruct (first_hl_accepted mgr s p t (lenN buf) s' md n Hs Hd) as (c & b & w & Hsl & _ & _ & Hrest).
    cbv zeta in Hrest. destruct Hrest as (Hlen & Hdat & _ & _ & _ & Hre & Hlab & _).
    rewrite Hsl. apply gupd_bytes; [exact HA|]. intros c0 ps [= <- <-]. split.
    + constructor; [|constructor]. rewrite Hlen, Hdat. apply bytes_ok_dropN, Hbp.
    + cbn [ctx_at c_reuse c_label]. intro Hr. rewrite Hre in Hr. rewrite <- Hlab.
      apply (first_hl_label_bytes s p t (lenN buf) s' md n Hbp); [intro X; rewrite X in Hr; discriminate|exact Hd].
  - (* intermediate *)
    destruct (_ <? _); [exact HA|].
    destruct (A (hd0 (dropN 2 p) mod max_frag_id (dmem s'))) as [[c0 ps]|] eqn:EA; [|exact HA].
    destruct (c_fid c0 =? hd0 (dropN 2 p)); [|exact HA].
    destruct (HA _ _ _ EA) as [Hps Hl].
    destruct (is_frag_ok r); apply gupd_bytes; try exact HA.
    + intros c1 ps1 [= <- <-]. split; [|exact Hl]. apply Forall_app. split; [exact Hps|]. constructor; [|constructor].
      unfold inter_payload. apply bytes_ok_dropN, Hbp.
    + discriminate.
  - (* end *)
    destruct (_ <? _); [exact HA|].
    destruct (A (hd0 (dropN 2 p) mod max_frag_id (dmem s'))) as [[c0 ps]|] eqn:EA; [|exact HA].
    destruct (c_fid c0 =? hd0 (dropN 2 p)); [|exact HA].
    apply gupd_bytes; [exact HA|discriminate].
Qed.
End GB.
