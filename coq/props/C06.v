(* C06 -- every emitted packet is a well-formed, length-accurate GSE packet. Pinned statements only.
   The layout is stated with arithmetic on the header word (S = bit 15, E = bit 14, LT = bits 13..12, 12-bit
   length), independently of the crate's masks; c14_wire_layout ties gen_hdr to it. encap_ext: theorem
   c06_encap_ext in props/C13.v. *)
Require Import GSE.model.Base GSE.model.Types GSE.model.Ext GSE.model.Encap
  GSE.proofs.Tactics GSE.proofs.BaseLemmas GSE.proofs.HeaderLemmas GSE.proofs.EncapSpec GSE.proofs.EncapProps GSE.proofs.ExtSpec GSE.proofs.ExtTrip GSE.proofs.ExtProps.
Open Scope N_scope.
#[local] Opaque pkt_complete pkt_first pkt_end pkt_inter.

Definition st_len (st : enc_status) : N := match st with Completed n | Fragmented n _ => n end.

Theorem c06_encap : forall crc s pdu fid pt lab buf s' buf' st, enc_wf s -> label_wf lab ->
  encap crc s pdu fid pt lab buf = Ret (s', buf', inl st) ->
  let n := st_len st in
  let l := snd (check_reuse_hl s lab) in   (* the label as written (re-use marker after a substitution) *)
  n <= lenN buf /\ lenN buf' = lenN buf /\ dropN n buf' = dropN n buf /\ n <= 4097 /\
  match st with
  | Completed _ =>
      takeN n buf' = be16 (3 * 16384 + lt_num (label_type l) * 4096 + (n - 2))
                     ++ be16 pt ++ label_bytes l ++ pdu
  | Fragmented _ c =>
      takeN n buf' = be16 (2 * 16384 + lt_num (label_type l) * 4096 + (n - 2))
                     ++ [fid] ++ be16 (2 + lenN (label_bytes l) + lenN pdu) ++ be16 pt ++ label_bytes l
                     ++ takeN (cf_len c) pdu
  end.
Proof.
  intros crc s pdu fid pt lab buf s' buf' st Hs Hw H. rewrite encap_spec in H by assumption. injection H as H.
  pose proof (encap_hl_shape crc s pdu fid pt lab buf Hw) as Sh. rewrite H in Sh.
  remember (s', buf', @inl enc_status enc_error st) as oo eqn:E.
  destruct Sh as [e|s1 l Hc Hf Hg|s1 l pe Hc Hpe Hb Hlt Hbig]; try discriminate E;
    injection E as <- <- <-; rewrite Hc; cbn [snd st_len]; cbv zeta.
  - pose proof (lenN_pkt_complete l pt pdu) as L.
    repeat split; try lia.
    + rewrite lenN_app, L, lenN_dropN. lia.
    + now rewrite dropN_app_eq by lia.
    + rewrite takeN_app_eq by lia. with_strategy transparent [pkt_complete] (unfold pkt_complete); unfold hdr_arith. cbn [se_num].
      do 2 f_equal. lia.
  - pose proof (check_reuse_label_wf _ _ _ _ Hw Hc) as Hwl.
    pose proof (label_len_bytes l Hwl) as Hll. pose proof (label_len_le l) as Hl6.
    pose proof (lenN_pkt_first l fid (lenN pdu + 2 + lenN (label_bytes l)) pt (takeN pe pdu)) as L.
    rewrite lenN_takeN in L. replace (N.min pe (lenN pdu)) with pe in L by lia.
    repeat split; try lia.
    + rewrite lenN_app, L, lenN_dropN. lia.
    + now rewrite dropN_app_eq by lia.
    + rewrite takeN_app_eq by lia. with_strategy transparent [pkt_first] (unfold pkt_first); unfold hdr_arith. cbn [se_num cf_len]. rewrite lenN_takeN.
      replace (N.min pe (lenN pdu)) with pe by lia.
      f_equal; [do 2 f_equal; lia|]. do 2 f_equal. f_equal. lia.
Qed.

(* encap_ext: same layout with the extension area between label and payload. chain_bytes exts final pt is
   data(ext 0), id(ext 1), data(ext 1), ..., data(last ext), followed by the protocol type unless it is the id of
   the final mandatory extension (pt < 0x100); the type field after the fragment fields holds id(ext 0).
   The total length counts protocol type, label and PDU (as the receiver checks it), not the extension area. *)
Theorem c06_encap_ext : forall crc s pdu fid pt lab buf exts s' buf' st, enc_wf s -> label_wf lab -> Forall ext_built exts ->
  encap_ext crc s pdu fid pt lab buf exts = Ret (s', buf', inl st) ->
  let n := st_len st in
  let l := snd (check_reuse_hl s lab) in
  let chain := chain_bytes exts (pt <? 256) pt in
  n <= lenN buf /\ lenN buf' = lenN buf /\ dropN n buf' = dropN n buf /\ n <= 4097 /\
  match st with
  | Completed _ =>
      takeN n buf' = be16 (3 * 16384 + lt_num (label_type l) * 4096 + (n - 2))
                     ++ be16 (first_id exts pt) ++ label_bytes l ++ chain ++ pdu
  | Fragmented _ c =>
      takeN n buf' = be16 (2 * 16384 + lt_num (label_type l) * 4096 + (n - 2))
                     ++ [fid] ++ be16 (2 + lenN (label_bytes l) + lenN pdu) ++ be16 (first_id exts pt) ++ label_bytes l
                     ++ chain ++ takeN (cf_len c) pdu
  end.
Proof.
  intros crc s pdu fid pt lab buf exts s' buf' st Hs Hw Hx H.
  rewrite encap_ext_spec in H by (auto; revert Hx; apply Forall_impl; exact ext_built_wf). injection H as H.
  pose proof (encap_ext_layout crc _ _ _ _ _ _ _ _ _ _ Hw H) as L. destruct st; exact L.
Qed.
Example c06_chain_example :
  chain_bytes [ {| ext_id := 0x0233; ext_dat := D2 [1;2] |}; {| ext_id := 0x42; ext_dat := DMand [7;8;9] |} ] false 0x0800
  = [1;2; 0x00;0x42; 7;8;9; 0x08;0x00].
Proof. reflexivity. Qed.

Theorem c06_encap_frag : forall pdu ctx buf buf' st,
  encap_frag pdu ctx buf = Ret (buf', inl st) ->
  let n := st_len st in
  n <= lenN buf /\ lenN buf' = lenN buf /\ dropN n buf' = dropN n buf /\ n <= 4097 /\
  match st with
  | Completed _ =>
      takeN n buf' = be16 (1 * 16384 + 3 * 4096 + (n - 2)) ++ [cf_id ctx] ++ dropN (cf_len ctx) pdu ++ be32 (cf_crc ctx)
  | Fragmented _ c =>
      exists k, 1 <= k /\
      takeN n buf' = be16 (0 * 16384 + 3 * 4096 + (n - 2)) ++ [cf_id ctx] ++ takeN k (dropN (cf_len ctx) pdu)
      /\ n = 3 + k /\ cf_len ctx + k <= lenN pdu
  end.
Proof.
  intros pdu ctx buf buf' st H. rewrite encap_frag_spec in H. injection H as H.
  pose proof (encap_frag_hl_shape pdu ctx buf) as Sh. rewrite H in Sh.
  remember (buf', @inl enc_status enc_error st) as oo eqn:E.
  destruct Sh as [e|H1 H2 H3|k H1 H2 H3 H4 H5 H6]; try discriminate E; injection E as <- <-; cbn [st_len]; cbv zeta.
  - pose proof (lenN_pkt_end (cf_id ctx) (dropN (cf_len ctx) pdu) (cf_crc ctx)) as L. rewrite lenN_dropN in L.
    repeat split; try lia.
    + rewrite lenN_app, L, lenN_dropN. lia.
    + now rewrite dropN_app_eq by lia.
    + rewrite takeN_app_eq by lia. with_strategy transparent [pkt_end] (unfold pkt_end); unfold hdr_arith. cbn [se_num lt_num]. rewrite lenN_dropN.
      do 2 f_equal. lia.
  - pose proof (lenN_pkt_inter (cf_id ctx) (takeN k (dropN (cf_len ctx) pdu))) as L.
    rewrite lenN_takeN, lenN_dropN in L. replace (N.min k (lenN pdu - cf_len ctx)) with k in L by lia.
    repeat split; try lia.
    + rewrite lenN_app, L, lenN_dropN. lia.
    + now rewrite dropN_app_eq by lia.
    + exists k. repeat split; try lia.
      rewrite takeN_app_eq by lia. with_strategy transparent [pkt_inter] (unfold pkt_inter); unfold hdr_arith. cbn [se_num lt_num].
      rewrite lenN_takeN, lenN_dropN. replace (N.min k (lenN pdu - cf_len ctx)) with k by lia.
      do 2 f_equal. lia.
Qed.

Print Assumptions c06_encap.
Print Assumptions c06_encap_frag.
Print Assumptions c06_encap_ext.
