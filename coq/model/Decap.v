(* Decapsulator over SimpleGseMemory (src/gse_decap/mod.rs), statement by statement. *)
Require Import GSE.gen.Consts GSE.gen.HLenTable GSE.model.Base GSE.model.Types GSE.model.Header
  GSE.model.Ext GSE.model.Memory.
Open Scope N_scope.

Record dmeta := { md_pdu_len : N; md_ptype : N; md_label : label; md_exts : list ext }.
Inductive dec_status := DCompleted (b : sbuf) (md : dmeta) | DFragmented (md : dmeta) | DPadding.
Inductive dec_error :=
  | DSizeBuffer | DTotalLength | DGseLength | DSizePduBuffer | DProtocolType
  | DMemory (e : mem_error) | DCrc | DInvalidLabel | DNoLabelSaved | DLabelBroadcastSaved
  | DLabelReUseSaved | DUnkownMandatoryHeader.
(* Result<(DecapStatus, usize), (DecapError, usize)> *)
Definition dec_result := ((dec_status * N) + (dec_error * N))%type.

Record dstate := { dmem : mem; dlast : option label }.
Definition set_dlast (s : dstate) (l : option label) : dstate := {| dmem := dmem s; dlast := l |}.
Definition set_dmem (s : dstate) (m : mem) : dstate := {| dmem := m; dlast := dlast s |}.

Definition dec_new (slots max_pdu : N) : dstate := {| dmem := mem_new slots max_pdu; dlast := None |}.
Definition dec_reset (s : dstate) : dstate := set_dlast s None.
Definition dec_provision (s : dstate) (b : sbuf) : dstate * option mem_error :=
  let '(m, r) := provision (dmem s) b in (set_dmem s m, r).
Definition dec_new_pdu (s : dstate) : dstate * (sbuf + mem_error) :=
  let '(m, r) := new_pdu (dmem s) in (set_dmem s m, r).

Inductive walk_err := WUnknownMandatory | WBufferTooSmall.
Record walk_ok := { w_exts : list ext; w_ptype : N; w_len : N }.

Section WithTraits.
Variable crc : list byte -> N -> N -> list byte -> N.
Variable mgr : N -> mand.

(* Extension::new(..) inside the walker: Err(_) => todo!() *)
Definition ext_new_or_todo (id : N) (data : list byte) : res ext :=
  do r <- ext_new id data; match r with inl e => Ret e | inr _ => Panic end.

(* iterate_over_extension_header: the while loop, on explicit fuel; None = fuel exhausted
   (proofs/DecapLemmas.v: never with fuel = length of the slice + 1) *)
Fixpoint walk (fuel : nat) (pdu : list byte) (ptype : N) (offset : N) (acc : list ext)
  : res (option (walk_ok + walk_err)) :=
  if negb (ptype <? SECOND_RANGE_PTYPE)
  then Ret (Some (inl {| w_exts := acc; w_ptype := ptype; w_len := offset |})) else
  match fuel with
  | O => Ret None
  | S fuel' =>
    let pdu_len := lenN pdu in
    (* ((protocol_type & H_LEN_MASK) >> 8).try_into::<u8>().unwrap() *)
    do h <- (let h := N.shiftr (N.land ptype H_LEN_MASK) 8 in if h <? 256 then Ret h else Panic);
    let next (offset : N) (acc : list ext) : res (option (walk_ok + walk_err)) :=
      if pdu_len <? offset + PROTOCOL_LEN then Ret (Some (inr WBufferTooSmall)) else
      do s <- slice pdu offset (offset + PROTOCOL_LEN);
      walk fuel' pdu (rd16 s) (offset + PROTOCOL_LEN) acc in
    if h =? 0 then
      match mgr ptype with
      | MUnknown => Ret (Some (inr WUnknownMandatory))
      | MFinal size =>
        if pdu_len <? offset + size then Ret (Some (inr WBufferTooSmall)) else
        do d <- slice pdu offset (offset + size);
        do e <- ext_new_or_todo ptype d;
        Ret (Some (inl {| w_exts := acc ++ [e]; w_ptype := ptype; w_len := offset + size |}))
      | MNonFinal size =>
        if pdu_len <? offset + size then Ret (Some (inr WBufferTooSmall)) else
        do d <- slice pdu offset (offset + size);
        do e <- ext_new_or_todo ptype d;
        next (offset + size) (acc ++ [e])
      end
    else
      match hlen_table h with
      | None => Panic (* unreachable!() *)
      | Some size =>
        if pdu_len <? offset + size then Ret (Some (inr WBufferTooSmall)) else
        do d <- slice pdu offset (offset + size);
        do e <- ext_new_or_todo ptype d;
        next (offset + size) (acc ++ [e])
      end
  end.

Definition iterate_ext (pdu : list byte) (first_id : N) : res (option (walk_ok + walk_err)) :=
  walk (S (length pdu)) pdu first_id 0 [].

Definition dec_out := (dstate * dec_result)%type.
Definition derr (s : dstate) (e : dec_error) (n : N) : res dec_out := Ret (s, inr (e, n)).

(* the `match label_type { ReUse => match self.last_label ..., Broadcast => .., _ => .. }` block:
   Ok (state, current_label) or the error variant (last_label is then cleared) *)
Definition resolve_label (s : dstate) (t : ltype) (lab : label) : res (dstate * label + dec_error) :=
  match t with
  | TR => match dlast s with
          | Some LBroadcast => Ret (inr DLabelBroadcastSaved)
          | Some LReUse => Ret (inr DLabelReUseSaved)
          | None => Ret (inr DNoLabelSaved)
          | Some l => Ret (inl (s, l))
          end
  | TB => Ret (inl (set_dlast s None, LBroadcast))
  | _ => Ret (inl (set_dlast s (Some lab), lab))
  end.

Definition decap_complete (s : dstate) (buf : list byte) (t : ltype) (pkt_len gse_len : N) : res dec_out :=
  let buffer_len := lenN buf in
  let ll := ltype_len t in
  if gse_len <? ll + PROTOCOL_LEN then derr (set_dlast s None) DGseLength buffer_len else
  let offset := FIXED_HEADER_LEN in
  do pts <- slice buf offset (offset + PROTOCOL_LEN);
  let ptype := rd16 pts in
  let offset := offset + PROTOCOL_LEN in
  do lb <- slice buf offset (offset + ll);
  do lab <- label_new t lb;
  let offset := offset + ll in
  if is_zero6 lab then derr (set_dlast s None) DInvalidLabel pkt_len else
  do wr <- (if ptype <? SECOND_RANGE_PTYPE then
              do sl <- slice buf offset pkt_len;
              do r <- iterate_ext sl ptype;
              match r with None => Panic | Some r => Ret r end
            else Ret (inl {| w_exts := []; w_ptype := ptype; w_len := 0 |}));
  match wr with
  | inr WBufferTooSmall => derr (set_dlast s None) DSizePduBuffer buffer_len
  | inr WUnknownMandatory => derr (set_dlast s None) DUnkownMandatoryHeader pkt_len
  | inl w =>
    let offset := offset + w_len w in
    let hel := w_len w in
    do rl <- resolve_label s t lab;
    match rl with
    | inr e => derr (set_dlast s None) e pkt_len
    | inl (s1, cur) =>
      match new_pdu (dmem s1) with
      | (m, inr e) => derr (set_dlast (set_dmem s1 m) None) (DMemory e) pkt_len
      | (m, inl pb) =>
        let s2 := set_dmem s1 m in
        let pbl := lenN (bdata pb) in
        if pbl + ll + hel + PROTOCOL_LEN <? gse_len then
          (* self.memory.provision_storage(pdu_buffer).unwrap() *)
          match provision m pb with
          | (m', None) => derr (set_dlast (set_dmem s2 m') None) DSizePduBuffer pkt_len
          | (_, Some _) => Panic
          end
        else
          do x <- subN gse_len ll;
          do x <- subN x hel;
          do cpl <- subN x PROTOCOL_LEN;
          do src <- slice buf offset (offset + cpl);
          do data <- write (bdata pb) 0 src;
          let md := {| md_pdu_len := cpl; md_label := cur; md_ptype := w_ptype w; md_exts := w_exts w |} in
          Ret (s2, inl (DCompleted {| bid := bid pb; bdata := data |} md, pkt_len))
      end
    end
  end.

(* give-back on the error exits of first/intermediate/end:
   if let Err(err) = provision_storage(pdu) { return Err((ErrorMemory(err), pkt_len)) } return Err((e, pkt_len)) *)
Definition give_back (s : dstate) (pb : sbuf) (e : dec_error) (pkt_len : N) : res dec_out :=
  match provision (dmem s) pb with
  | (m, Some me) => derr (set_dmem s m) (DMemory me) pkt_len
  | (m, None) => derr (set_dmem s m) e pkt_len
  end.

Definition decap_first (s : dstate) (buf : list byte) (t : ltype) (pkt_len gse_len : N) : res dec_out :=
  let buffer_len := lenN buf in
  let ll := ltype_len t in
  if gse_len <? ll + PROTOCOL_LEN + FRAG_ID_LEN + TOTAL_LENGTH_LEN
  then derr (set_dlast s None) DGseLength buffer_len else
  let offset := FIXED_HEADER_LEN in
  do fs <- slice buf offset (offset + FRAG_ID_LEN);
  do fid <- idx fs 0;
  let offset := offset + FRAG_ID_LEN in
  do tls <- slice buf offset (offset + TOTAL_LENGTH_LEN);
  let total_len := rd16 tls in
  let offset := offset + TOTAL_LENGTH_LEN in
  do pts <- slice buf offset (offset + PROTOCOL_LEN);
  let ptype := rd16 pts in
  let offset := offset + PROTOCOL_LEN in
  do lb <- slice buf offset (offset + ll);
  do lab <- label_new t lb;
  let offset := offset + ll in
  if is_zero6 lab then derr (set_dlast s None) DInvalidLabel pkt_len else
  do rl <- resolve_label s t lab;
  match rl with
  | inr e => derr (set_dlast s None) e pkt_len
  | inl (s1, cur) =>
    do wr <- (if ptype <? SECOND_RANGE_PTYPE then
                do sl <- slice buf offset pkt_len;
                do r <- iterate_ext sl ptype;
                match r with None => Panic | Some r => Ret r end
              else Ret (inl {| w_exts := []; w_ptype := ptype; w_len := 0 |}));
    match wr with
    | inr WBufferTooSmall => derr (set_dlast s1 None) DSizePduBuffer buffer_len
    | inr WUnknownMandatory => derr (set_dlast s1 None) DUnkownMandatoryHeader pkt_len
    | inl w =>
      let offset := offset + w_len w in
      let hel := w_len w in
      do cpl <- subN gse_len (FRAG_ID_LEN + TOTAL_LENGTH_LEN + ll + hel + PROTOCOL_LEN);
      if total_len <=? u16 cpl then derr (set_dlast s1 None) DTotalLength buffer_len else
      let c := {| c_label := cur; c_ptype := w_ptype w; c_fid := fid; c_total := total_len;
                  c_pdulen := u16 cpl; c_reuse := ltype_eqb t TR; c_exts := w_exts w |} in
      do nf <- new_frag (dmem s1) c;
      match nf with
      | (m, inr e) => derr (set_dlast (set_dmem s1 m) None) (DMemory e) pkt_len
      | (m, inl (c', pb)) =>
        let s2 := set_dmem s1 m in
        let pbl := lenN (bdata pb) in
        if pbl + ll + hel + PROTOCOL_LEN + FRAG_ID_LEN + TOTAL_LENGTH_LEN <? gse_len then
          give_back (set_dlast s2 None) pb DSizePduBuffer pkt_len
        else
          do src <- slice buf offset (offset + cpl);
          do data <- write (bdata pb) 0 src;
          let md := {| md_pdu_len := 0; md_ptype := c_ptype c'; md_label := c_label c'; md_exts := w_exts w |} in
          do sv <- save_frag m (c', {| bid := bid pb; bdata := data |});
          match sv with
          | (m', None) => Ret (set_dmem s2 m', inl (DFragmented md, pkt_len))
          | (m', Some e) => derr (set_dmem s2 m') (DMemory e) pkt_len
          end
      end
    end
  end.

Definition decap_intermediate (s : dstate) (buf : list byte) (pkt_len gse_len : N) : res dec_out :=
  let buffer_len := lenN buf in
  if gse_len <=? FRAG_ID_LEN then derr (set_dlast s None) DGseLength buffer_len else
  let offset := FIXED_HEADER_LEN in
  do fid <- idx buf offset;
  let offset := offset + FRAG_ID_LEN in
  do cpl <- subN gse_len FRAG_ID_LEN;
  do tf <- take_frag (dmem s) fid;
  match tf with
  | (m, inr e) => derr (set_dmem s m) (DMemory e) pkt_len
  | (m, inl (c, pb)) =>
    let s1 := set_dmem s m in
    (* &mut pdu[decap_context.pdu_len as usize..] *)
    do pbl <- subN (lenN (bdata pb)) (c_pdulen c);
    if (pbl <? cpl) || (65535 <? c_pdulen c + cpl) then give_back s1 pb DSizePduBuffer pkt_len else
    do src <- slice buf offset (offset + cpl);
    do data <- write (bdata pb) (c_pdulen c) src;
    do npl <- add_chk 16 (c_pdulen c) (u16 cpl);
    let c' := {| c_label := c_label c; c_ptype := c_ptype c; c_fid := c_fid c; c_total := c_total c;
                 c_pdulen := npl; c_reuse := c_reuse c; c_exts := c_exts c |} in
    let md := {| md_pdu_len := 0; md_ptype := c_ptype c'; md_label := c_label c'; md_exts := c_exts c' |} in
    do sv <- save_frag m (c', {| bid := bid pb; bdata := data |});
    match sv with
    | (m', None) => Ret (set_dmem s1 m', inl (DFragmented md, pkt_len))
    | (m', Some e) => derr (set_dmem s1 m') (DMemory e) pkt_len
    end
  end.

Definition decap_end (s : dstate) (buf : list byte) (pkt_len gse_len : N) : res dec_out :=
  let buffer_len := lenN buf in
  if gse_len <? FRAG_ID_LEN + CRC_LEN then derr (set_dlast s None) DSizeBuffer buffer_len else
  let offset := FIXED_HEADER_LEN in
  do fid <- idx buf offset;
  let offset := offset + FRAG_ID_LEN in
  do cpl <- subN gse_len (FRAG_ID_LEN + CRC_LEN);
  do tf <- take_frag (dmem s) fid;
  match tf with
  | (m, inr e) => derr (set_dmem s m) (DMemory e) pkt_len
  | (m, inl (c, pb)) =>
    let s1 := set_dmem s m in
    do pbl <- subN (lenN (bdata pb)) (c_pdulen c);
    if pbl <? cpl then give_back s1 pb DSizePduBuffer pkt_len else
    do src <- slice buf offset (offset + cpl);
    do data <- write (bdata pb) (c_pdulen c) src;
    let pb' := {| bid := bid pb; bdata := data |} in
    let offset := offset + cpl in
    do crcs <- slice buf offset (offset + CRC_LEN);
    let received := rd32 crcs in
    let pdu_len := c_pdulen c + cpl in
    let md := {| md_pdu_len := pdu_len; md_ptype := c_ptype c; md_label := c_label c; md_exts := c_exts c |} in
    let first_ll := if c_reuse c then 0 else ltype_len (label_type (c_label c)) in
    let crc_label := if c_reuse c then [] else label_bytes (c_label c) in
    if negb (c_total c =? pdu_len + PROTOCOL_LEN + first_ll) then give_back s1 pb' DTotalLength pkt_len else
    do whole <- slice data 0 pdu_len;
    if negb (crc whole (c_ptype c) (c_total c) crc_label =? received) then give_back s1 pb' DCrc pkt_len else
    Ret (s1, inl (DCompleted pb' md, pkt_len))
  end.

Definition decap (s : dstate) (buf : list byte) : res dec_out :=
  let buffer_len := lenN buf in
  if buffer_len <? FIXED_HEADER_LEN then derr (set_dlast s None) DSizeBuffer buffer_len else
  do hs <- slice buf 0 FIXED_HEADER_LEN;
  do h <- read_hdr (rd16 hs);
  match h with
  | None => Ret (set_dlast s None, inl (DPadding, buffer_len))
  | Some (gse_len, k, t) =>
    let pkt_len := gse_len + FIXED_HEADER_LEN in
    if buffer_len <? pkt_len then derr (set_dlast s None) DSizeBuffer buffer_len else
    match k with
    | KComplete => decap_complete s buf t pkt_len gse_len
    | KFirst => decap_first s buf t pkt_len gse_len
    | KInter => decap_intermediate s buf pkt_len gse_len
    | KEnd => decap_end s buf pkt_len gse_len
    end
  end.

End WithTraits.

(* get_label_or_frag_id (&self, no state needed) *)
Inductive peek_ok := PLabel (l : label) | PFragId (f : N).
Inductive peek_err := PErrLabelReuse | PErrSizeBuffer | PErrHeaderRead.

Definition peek (buf : list byte) : res (peek_ok + peek_err) :=
  let bl := lenN buf in
  if bl <? FIXED_HEADER_LEN then Ret (inr PErrSizeBuffer) else
  do b0 <- idx buf 0; do b1 <- idx buf 1;
  do h <- read_hdr (rd16 [b0; b1]);
  match h with
  | None => Ret (inr PErrHeaderRead)
  | Some (_, k, t) =>
    if kind_eqb k KInter || kind_eqb k KEnd then
      if bl <? FIXED_HEADER_LEN + PROTOCOL_LEN + ltype_len t then Ret (inr PErrSizeBuffer) else
      do f <- idx buf FIXED_HEADER_LEN; Ret (inl (PFragId f))
    else if ltype_eqb t TB then Ret (inl (PLabel LBroadcast))
    else if ltype_eqb t TR then Ret (inr PErrLabelReuse)
    else
      let offset := FIXED_HEADER_LEN in
      let offset := if kind_eqb k KFirst then offset + (TOTAL_LENGTH_LEN + FRAG_ID_LEN) else offset in
      let offset := offset + PROTOCOL_LEN in
      if bl <? offset + ltype_len t then Ret (inr PErrSizeBuffer) else
      (* the second Intermediate/End test is dead code: k is First or Complete here *)
      match t with
      | T3 => do lb <- slice buf offset (offset + LABEL_3_B_LEN); do l <- label_new T3 lb; Ret (inl (PLabel l))
      | T6 => do lb <- slice buf offset (offset + LABEL_6_B_LEN); do l <- label_new T6 lb; Ret (inl (PLabel l))
      | _ => Panic (* unreachable!() *)
      end
  end.
