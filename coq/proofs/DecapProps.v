(* Receiver-side invariants from the closed form: well-formedness is preserved by every call (C05),
   consumption bounds (C05), buffers are conserved (C08), other slots are untouched (C07). No model code. *)
Require Import GSE.gen.Consts GSE.model.Base GSE.model.Types GSE.model.Header GSE.model.Ext
  GSE.model.Memory GSE.model.Decap
  GSE.proofs.Tactics GSE.proofs.BaseLemmas GSE.proofs.HeaderLemmas GSE.proofs.EncapSpec GSE.proofs.MemoryLemmas
  GSE.proofs.DecapBase GSE.proofs.DecapSpec.
Require Import Coq.Sorting.Permutation.
Open Scope N_scope.

(* ---------- memory-level well-formedness (dstate_wf only talks about the memory) ---------- *)
Definition mem_ok (m : mem) : Prop :=
  mem_wf m /\ Forall (buf_ok m) (storages m) /\
  (forall i cb, nthN i (frags m) = Some (Some cb) ->
     ctx_ok cb /\ buf_ok m (snd cb) /\ c_fid (fst cb) mod max_frag_id m = i).
Lemma dstate_wf_mem s : dstate_wf s <-> mem_ok (dmem s). Proof. reflexivity. Qed.

Lemma mem_ok_new slots maxpdu : mem_ok (mem_new slots maxpdu).
Proof.
  split; [apply mem_new_wf|]. split; [constructor|]. intros i cb H. exfalso.
  unfold mem_new in H; cbn [frags] in H. destruct (N.lt_ge_cases i slots) as [Hi|Hi].
  - rewrite nthN_noneN in H by assumption. discriminate.
  - rewrite nthN_none in H by (rewrite lenN_noneN; lia). discriminate.
Qed.

Lemma mem_ok_set_storages m st : mem_ok m -> lenN st <= cap m -> Forall (buf_ok m) st -> mem_ok (set_storages m st).
Proof. intros ((Hf & Hc) & Hb & Hs) Hl Hst. split; [split; assumption|]. split; assumption. Qed.

Lemma mem_ok_provision m b m' r : mem_ok m -> provision m b = (m', r) -> mem_ok m'.
Proof.
  intros Hok. unfold provision. destruct (N.eqb_spec (cap m) (lenN (storages m))); [now intros [= <- <-]|].
  destruct (N.ltb_spec (lenN (bdata b)) (max_pdu_size m)); [now intros [= <- <-]|]. intros [= <- <-].
  destruct Hok as ((Hf & Hc) & Hb & Hs). apply mem_ok_set_storages.
  - split; [split|split]; assumption.
  - rewrite lenN_cons. lia.
  - constructor; assumption.
Qed.

Lemma mem_ok_set_slot m i v : mem_ok m -> i < max_frag_id m ->
  (forall cb, v = Some cb -> ctx_ok cb /\ buf_ok m (snd cb) /\ c_fid (fst cb) mod max_frag_id m = i) ->
  mem_ok (set_slot m i v).
Proof.
  intros (Hw & Hb & Hs) Hi Hv. split; [now apply set_slot_wf|]. split; [exact Hb|].
  intros j cb. unfold set_slot; cbn [frags set_frags max_frag_id]. destruct (N.eq_dec j i) as [->|Hn].
  - rewrite nthN_upd_same by (destruct Hw; lia). intros [= E]. now apply Hv.
  - rewrite nthN_upd_other by assumption. apply Hs.
Qed.

Lemma slot_of_some m f cb : mem_ok m -> slot_of m f = Some cb ->
  max_frag_id m <> 0 /\ nthN (f mod max_frag_id m) (frags m) = Some (Some cb) /\
  ctx_ok cb /\ buf_ok m (snd cb) /\ c_fid (fst cb) mod max_frag_id m = f mod max_frag_id m.
Proof.
  intros (Hw & Hb & Hs) H. unfold slot_of in H.
  destruct (nthN (f mod max_frag_id m) (frags m)) as [[x|]|] eqn:E; try discriminate. injection H as ->.
  assert (Hz : max_frag_id m <> 0).
  { intro Hz. apply nthN_Some_lt in E. destruct Hw as [Hf _]. rewrite Hf, Hz in E. lia. }
  split; [exact Hz|]. split; [reflexivity|]. destruct (Hs _ _ E) as (A & B & C). auto.
Qed.

(* new_frag *)
Lemma mem_ok_new_frag m c m' r : mem_ok m -> new_frag_fn m c = (m', r) ->
  mem_ok m' /\ max_frag_id m' = max_frag_id m /\ max_pdu_size m' = max_pdu_size m /\
  match r with
  | inl (c', pb) => c' = c /\ buf_ok m pb /\ slot_of m' (c_fid c) = None /\ max_frag_id m <> 0
  | inr _ => m' = m
  end.
Proof.
  intros Hok. unfold new_frag_fn. destruct (N.eqb_spec (max_frag_id m) 0) as [Hz|Hz]; [intros [= <- <-]; auto|].
  assert (Hi : c_fid c mod max_frag_id m < max_frag_id m) by (apply N.mod_lt; assumption).
  destruct (slot_of m (c_fid c)) as [[c0 b0]|] eqn:Es.
  - intros [= <- <-]. destruct (slot_of_some _ _ _ Hok Es) as (_ & _ & _ & Hb0 & _).
    split; [apply mem_ok_set_slot; auto; discriminate|]. repeat split; auto.
    destruct Hok as (Hw & _). rewrite slot_of_set_slot by assumption. now rewrite N.eqb_refl.
  - destruct (storages m) as [|b t] eqn:E; intros [= <- <-]; [auto|].
    destruct Hok as ((Hf & Hc) & Hb & Hs). rewrite E in Hb. inversion Hb; subst.
    split; [apply mem_ok_set_storages; [split; [split|split]; try assumption; now rewrite E| rewrite E, lenN_cons in Hc; lia|assumption]|].
    repeat split; auto.
Qed.

(* take_frag *)
Lemma mem_ok_take_frag m f m' r : mem_ok m -> take_frag_fn m f = (m', r) ->
  mem_ok m' /\ max_frag_id m' = max_frag_id m /\ max_pdu_size m' = max_pdu_size m /\ storages m' = storages m /\
  match r with
  | inl (c, pb) => slot_of m f = Some (c, pb) /\ ctx_ok (c, pb) /\ buf_ok m pb /\ c_fid c = f /\
                   slot_of m' f = None /\ max_frag_id m <> 0 /\ m' = set_slot m (f mod max_frag_id m) None
  | inr _ => m' = m
  end.
Proof.
  intros Hok. unfold take_frag_fn. destruct (N.eqb_spec (max_frag_id m) 0) as [Hz|Hz]; [intros [= <- <-]; auto 10|].
  assert (Hi : f mod max_frag_id m < max_frag_id m) by (apply N.mod_lt; assumption).
  destruct (slot_of m f) as [[c b]|] eqn:Es; [|intros [= <- <-]; auto 10].
  destruct (N.eqb_spec (c_fid c) f) as [He|He]; intros [= <- <-]; [|auto 10].
  destruct (slot_of_some _ _ _ Hok Es) as (_ & _ & Hc & Hb & _).
  split; [apply mem_ok_set_slot; auto; discriminate|]. repeat split; auto; try apply Hc.
  destruct Hok as (Hw & _). rewrite slot_of_set_slot by assumption. now rewrite N.eqb_refl.
Qed.

(* save_frag *)
Lemma mem_ok_save_frag m cb m' r : mem_ok m -> ctx_ok cb -> buf_ok m (snd cb) ->
  save_frag_fn m cb = (m', r) -> mem_ok m' /\ max_frag_id m' = max_frag_id m.
Proof.
  intros Hok Hc Hb. unfold save_frag_fn. destruct (N.eqb_spec (max_frag_id m) 0) as [Hz|Hz]; [intros [= <- <-]; auto|].
  assert (Hi : c_fid (fst cb) mod max_frag_id m < max_frag_id m) by (apply N.mod_lt; assumption).
  destruct (slot_of m (c_fid (fst cb))); intros [= <- <-]; [auto|].
  split; [|reflexivity]. apply mem_ok_set_slot; auto. intros cb' [= <-]. auto.
Qed.

(* ---------- give_back ---------- *)
Lemma give_back_wf s pb e n s' r : dstate_wf s -> give_back_hl s pb e n = (s', r) -> dstate_wf s'.
Proof.
  intros Hwf. unfold give_back_hl. destruct (provision (dmem s) pb) as [m [me|]] eqn:E; intros [= <- <-];
    apply dstate_wf_mem; cbn [dmem set_dmem]; eapply mem_ok_provision; eauto.
Qed.

Section Props.
Variable crc : list byte -> N -> N -> list byte -> N.
Variable mgr : N -> mand.

Lemma resolve_hl_wf s t lab s1 cur : dstate_wf s -> resolve_hl s t lab = inl (s1, cur) -> dstate_wf s1.
Proof. intros Hwf H. apply resolve_hl_mem in H. apply dstate_wf_mem. rewrite H. exact Hwf. Qed.

Lemma buf_ok_write m pb data : buf_ok m pb -> lenN data = lenN (bdata pb) -> buf_ok m {| bid := bid pb; bdata := data |}.
Proof. unfold buf_ok; cbn [bdata]. lia. Qed.

(* every call leaves a well-formed state *)
Lemma complete_hl_wf s pkt t blen : dstate_wf s -> dstate_wf (fst (complete_hl mgr s pkt t blen)).
Proof.
  intros Hwf. unfold complete_hl, err_last.
  destruct (lenN pkt - 2 <? lt_len t + 2); [exact Hwf|]. cbv zeta.
  destruct (is_zero6 _); [exact Hwf|].
  destruct (walk_fn mgr _ _) as [w|[|]]; try exact Hwf.
  destruct (resolve_hl s t _) as [[s1 cur]|e] eqn:Er; [|exact Hwf].
  pose proof (resolve_hl_wf _ _ _ _ _ Hwf Er) as Hwf1.
  destruct (storages (dmem s1)) as [|pb rest] eqn:Es; [exact Hwf1|].
  destruct (lenN (bdata pb) <? _); [exact Hwf1|]. cbn [fst].
  apply dstate_wf_mem. cbn [dmem set_dmem]. destruct Hwf1 as ((Hf & Hc) & Hb & Hs).
  rewrite Es in Hb, Hc. inversion Hb; subst. rewrite lenN_cons in Hc.
  apply mem_ok_set_storages; [split; [split|split]; try assumption; rewrite Es; [rewrite lenN_cons; lia|constructor; assumption]|lia|assumption].
Qed.


Lemma rd16_take2_lt (l : list byte) : bytes_ok l -> rd16 (takeN 2 l) < 65536.
Proof.
  intro Hb. destruct l as [|a [|b t]]; try (cbn; lia).
  - rewrite takeN_cons by lia. change (2 - 1) with 1. cbn. lia.
  - rewrite takeN_cons by lia. rewrite takeN_cons by lia. change (2 - 1 - 1) with 0. rewrite takeN_0.
    inversion Hb as [|? ? Ha Hb']; subst. inversion Hb' as [|? ? Hb2 _]; subst. unfold rd16. lia.
Qed.

Lemma first_hl_wf s pkt t blen : dstate_wf s -> bytes_ok pkt -> lenN pkt <= 4097 ->
  dstate_wf (fst (first_hl mgr s pkt t blen)).
Proof.
  intros Hwf Hbytes Hlen. unfold first_hl, err_last.
  destruct (lenN pkt - 2 <? lt_len t + 5); [exact Hwf|]. cbv zeta.
  destruct (is_zero6 _); [exact Hwf|].
  destruct (resolve_hl s t _) as [[s1 cur]|e] eqn:Er; [|exact Hwf].
  pose proof (resolve_hl_wf _ _ _ _ _ Hwf Er) as Hwf1.
  destruct (walk_fn mgr _ _) as [w|[|]]; try exact Hwf1.
  set (payload := dropN (7 + lt_len t + w_len w) pkt).
  assert (Hpl : lenN payload <= 4097) by (subst payload; rewrite lenN_dropN; lia).
  pose proof (rd16_take2_lt (dropN 3 pkt) (bytes_ok_dropN _ _ Hbytes)) as Htot.
  destruct (rd16 (takeN 2 (dropN 3 pkt)) <=? lenN payload); [exact Hwf1|].
  match goal with |- context [new_frag_fn (dmem s1) ?c] => destruct (new_frag_fn (dmem s1) c) as [m [[c' pb]|e]] eqn:En end.
  2:{ cbn [fst]. apply dstate_wf_mem; cbn [dmem set_dmem set_dlast].
      destruct (mem_ok_new_frag _ _ _ _ Hwf1 En) as (_ & _ & _ & ->). exact Hwf1. }
  destruct (mem_ok_new_frag _ _ _ _ Hwf1 En) as (Hok & Hmf & Hmp & -> & Hbo & Hsl & Hz).
  destruct (N.ltb_spec (lenN (bdata pb)) (lenN payload)) as [Hsm|Hbig].
  - match goal with |- dstate_wf (fst ?x) => destruct x as [s' r] eqn:Eg end. cbn [fst].
    eapply give_back_wf; [|exact Eg]. apply dstate_wf_mem. exact Hok.
  - match goal with |- context [save_frag_fn m ?x] => destruct (save_frag_fn m x) as [m' r] eqn:Esv end.
    assert (Hm' : mem_ok m').
    { eapply mem_ok_save_frag; [exact Hok| | |exact Esv].
      - unfold ctx_ok; cbn [fst snd c_pdulen c_total bdata]. rewrite lenN_app, lenN_dropN. repeat split; lia.
      - unfold buf_ok in *; cbn [snd bdata]. rewrite Hmp, lenN_app, lenN_dropN. lia. }
    destruct r; cbn [fst]; apply dstate_wf_mem; exact Hm'.
Qed.

Lemma inter_hl_wf s pkt blen : dstate_wf s -> dstate_wf (fst (inter_hl s pkt blen)).
Proof.
  intros Hwf. unfold inter_hl, err_last.
  destruct (lenN pkt - 2 <=? 1); [exact Hwf|]. cbv zeta.
  destruct (take_frag_fn (dmem s) (hd0 (dropN 2 pkt))) as [m [[c pb]|e]] eqn:Et.
  2:{ cbn [fst]. apply dstate_wf_mem; cbn [dmem set_dmem]. destruct (mem_ok_take_frag _ _ _ _ Hwf Et) as (_ & _ & _ & _ & ->). exact Hwf. }
  destruct (mem_ok_take_frag _ _ _ _ Hwf Et) as (Hok & Hmf & Hmp & Hst & Hso & Hctx & Hbo & Hfid & Hnone & Hz & _).
  destruct ((lenN (bdata pb) - c_pdulen c <? lenN (dropN 3 pkt)) || (65535 <? c_pdulen c + lenN (dropN 3 pkt))) eqn:Hchk.
  - match goal with |- dstate_wf (fst ?x) => destruct x as [s' r] eqn:Eg end. cbn [fst].
    eapply give_back_wf; [|exact Eg]. apply dstate_wf_mem. exact Hok.
  - apply orb_false_iff in Hchk as [Hk1 Hk2]. apply N.ltb_ge in Hk1. apply N.ltb_ge in Hk2.
    destruct Hctx as (Hc1 & Hc2 & Hc3). cbn [fst snd] in *.
    remember (lenN (dropN 3 pkt)) as k eqn:Ek. remember (dropN 3 pkt) as payload eqn:Epay.
    match goal with |- context [save_frag_fn m ?x] => destruct (save_frag_fn m x) as [m' r] eqn:Esv end.
    assert (Hm' : mem_ok m').
    { eapply mem_ok_save_frag; [exact Hok| | |exact Esv].
      - unfold ctx_ok; cbn [fst snd c_pdulen c_total bdata]. rewrite !lenN_app, lenN_takeN, lenN_dropN. repeat split; lia.
      - unfold buf_ok in *; cbn [snd bdata]. rewrite Hmp, !lenN_app, lenN_takeN, lenN_dropN. lia. }
    destruct r; cbn [fst]; apply dstate_wf_mem; exact Hm'.
Qed.

Lemma end_hl_wf s pkt blen : dstate_wf s -> dstate_wf (fst (end_hl crc s pkt blen)).
Proof.
  intros Hwf. unfold end_hl, err_last.
  destruct (lenN pkt - 2 <? 5); [exact Hwf|]. cbv zeta.
  destruct (take_frag_fn (dmem s) (hd0 (dropN 2 pkt))) as [m [[c pb]|e]] eqn:Et.
  2:{ cbn [fst]. apply dstate_wf_mem; cbn [dmem set_dmem]. destruct (mem_ok_take_frag _ _ _ _ Hwf Et) as (_ & _ & _ & _ & ->). exact Hwf. }
  destruct (mem_ok_take_frag _ _ _ _ Hwf Et) as (Hok & Hmf & Hmp & Hst & Hso & Hctx & Hbo & Hfid & Hnone & Hz & _).
  assert (Hs1 : dstate_wf (set_dmem s m)) by (apply dstate_wf_mem; exact Hok).
  destruct (lenN (bdata pb) - c_pdulen c <? lenN pkt - 7).
  { match goal with |- dstate_wf (fst ?x) => destruct x as [s' r] eqn:Eg end. eapply give_back_wf; [exact Hs1|exact Eg]. }
  destruct (negb (c_total c =? _)).
  { match goal with |- dstate_wf (fst ?x) => destruct x as [s' r] eqn:Eg end. eapply give_back_wf; [exact Hs1|exact Eg]. }
  destruct (negb (_ =? _)).
  { match goal with |- dstate_wf (fst ?x) => destruct x as [s' r] eqn:Eg end. eapply give_back_wf; [exact Hs1|exact Eg]. }
  exact Hs1.
Qed.

Theorem decap_hl_wf s buf : dstate_wf s -> bytes_ok buf -> dstate_wf (fst (decap_hl crc mgr s buf)).
Proof.
  intros Hwf Hb. unfold decap_hl, err_last. destruct (lenN buf <? 2); [exact Hwf|].
  destruct (hdr_view (rd16 (takeN 2 buf))) as [[[gse_len k] t]|] eqn:Ev; [|exact Hwf].
  pose proof (hdr_view_len _ _ _ _ Ev) as Hg.
  destruct (lenN buf <? gse_len + 2); [exact Hwf|].
  destruct k.
  - now apply complete_hl_wf.
  - apply first_hl_wf; [assumption|now apply bytes_ok_takeN|rewrite lenN_takeN; lia].
  - now apply inter_hl_wf.
  - now apply end_hl_wf.
Qed.

(* ---------- consumption: never more than the buffer, at least min(2, length) ---------- *)
Definition consumed (r : dec_result) : N := match r with inl (_, n) | inr (_, n) => n end.

Lemma give_back_consumed s pb e n : consumed (snd (give_back_hl s pb e n)) = n.
Proof. unfold give_back_hl. destruct (provision (dmem s) pb) as [m [me|]]; reflexivity. Qed.

Lemma decap_hl_consumed s buf :
  consumed (snd (decap_hl crc mgr s buf)) <= lenN buf /\ (0 < lenN buf -> N.min 2 (lenN buf) <= consumed (snd (decap_hl crc mgr s buf))).
Proof.
  unfold decap_hl, err_last.
  destruct (N.ltb_spec (lenN buf) 2) as [H2|H2]; [cbn; lia|].
  destruct (hdr_view (rd16 (takeN 2 buf))) as [[[gse_len k] t]|] eqn:Ev; [|cbn; lia].
  destruct (N.ltb_spec (lenN buf) (gse_len + 2)) as [Hl|Hl]; [cbn; lia|].
  assert (Lp : lenN (takeN (gse_len + 2) buf) = gse_len + 2) by (rewrite lenN_takeN; lia).
  set (pkt := takeN (gse_len + 2) buf) in *.
  assert (G : forall x, (x = lenN pkt \/ x = lenN buf) -> x <= lenN buf /\ (0 < lenN buf -> N.min 2 (lenN buf) <= x)) by (intros x [->| ->]; lia).
  destruct k.
  - unfold complete_hl, err_last. apply G.
    destruct (lenN pkt - 2 <? lt_len t + 2); [cbn; auto|]. cbv zeta.
    destruct (is_zero6 _); [cbn; auto|].
    destruct (walk_fn mgr _ _) as [w|[|]]; try (cbn; auto; fail).
    destruct (resolve_hl s t _) as [[s1 cur]|e]; [|cbn; auto].
    destruct (storages (dmem s1)) as [|pb rest]; [cbn; auto|].
    destruct (lenN (bdata pb) <? _); cbn; auto.
  - unfold first_hl, err_last. apply G.
    destruct (lenN pkt - 2 <? lt_len t + 5); [cbn; auto|]. cbv zeta.
    destruct (is_zero6 _); [cbn; auto|].
    destruct (resolve_hl s t _) as [[s1 cur]|e]; [|cbn; auto].
    destruct (walk_fn mgr _ _) as [w|[|]]; try (cbn; auto; fail).
    destruct (_ <=? _); [cbn; auto|].
    destruct (new_frag_fn _ _) as [m [[c' pb]|e]]; [|cbn; auto].
    destruct (lenN (bdata pb) <? _); [rewrite give_back_consumed; auto|].
    destruct (save_frag_fn _ _) as [m' [e|]]; cbn; auto.
  - unfold inter_hl, err_last. apply G.
    destruct (lenN pkt - 2 <=? 1); [cbn; auto|]. cbv zeta.
    destruct (take_frag_fn _ _) as [m [[c pb]|e]]; [|cbn; auto].
    destruct (_ || _); [rewrite give_back_consumed; auto|].
    destruct (save_frag_fn _ _) as [m' [e|]]; cbn; auto.
  - unfold end_hl, err_last. apply G.
    destruct (lenN pkt - 2 <? 5); [cbn; auto|]. cbv zeta.
    destruct (take_frag_fn _ _) as [m [[c pb]|e]]; [|cbn; auto].
    destruct (_ <? _); [rewrite give_back_consumed; auto|].
    destruct (negb (c_total c =? _)); [rewrite give_back_consumed; auto|].
    destruct (negb (_ =? _)); [rewrite give_back_consumed; auto|]. cbn; auto.
Qed.

End Props.

(* ---------- the peek function is total ---------- *)
Lemma peek_total buf : bytes_ok buf -> exists r, peek buf = Ret r.
Proof.
  intro Hb. unfold peek. consts.
  destruct (N.ltb_spec (lenN buf) 2) as [H2|H2]; [eauto|].
  destruct (idx_ok buf 0 ltac:(lia)) as (b0 & -> & T0). destruct (idx_ok buf 1 ltac:(lia)) as (b1 & -> & T1). cbn [bind].
  assert (Hw : rd16 [b0; b1] < 65536).
  { assert (bytes_ok (takeN 1 (dropN 0 buf))) by (apply bytes_ok_takeN, bytes_ok_dropN, Hb).
    assert (bytes_ok (takeN 1 (dropN 1 buf))) by (apply bytes_ok_takeN, bytes_ok_dropN, Hb).
    rewrite T0 in H. rewrite T1 in H0. inversion H; inversion H0; subst. unfold rd16. lia. }
  rewrite read_hdr_view by exact Hw. cbn [bind].
  destruct (hdr_view (rd16 [b0; b1])) as [[[gl k] t]|]; [|eauto].
  destruct (kind_eqb k KInter || kind_eqb k KEnd).
  - rewrite ltype_len_lt. destruct (N.ltb_spec (lenN buf) (2 + 2 + lt_len t)); [eauto|].
    destruct (idx_ok buf 2 ltac:(lia)) as (f & -> & _). cbn [bind]. eauto.
  - destruct (ltype_eqb t TB) eqn:Etb; [eauto|]. destruct (ltype_eqb t TR) eqn:Etr; [eauto|].
    cbv zeta. rewrite ltype_len_lt.
    match goal with |- context [lenN buf <? ?o + lt_len t] => destruct (N.ltb_spec (lenN buf) (o + lt_len t)); [eauto|] end.
    destruct t; try discriminate; cbn [lt_len] in *.
    + rewrite slice_ok by (destruct (kind_eqb k KFirst); lia). cbn [bind].
      rewrite label_new_ok by (rewrite lenN_takeN, lenN_dropN; cbn [lt_len]; destruct (kind_eqb k KFirst); lia). cbn [bind]. eauto.
    + rewrite slice_ok by (destruct (kind_eqb k KFirst); lia). cbn [bind].
      rewrite label_new_ok by (rewrite lenN_takeN, lenN_dropN; cbn [lt_len]; destruct (kind_eqb k KFirst); lia). cbn [bind]. eauto.
Qed.

(* the other API calls keep the state well formed *)
Lemma dec_provision_wf s b : dstate_wf s -> dstate_wf (fst (dec_provision s b)) /\ dlast (fst (dec_provision s b)) = dlast s.
Proof.
  intro H. unfold dec_provision. destruct (provision (dmem s) b) as [m r] eqn:E. cbn [fst]. split; [|reflexivity].
  apply dstate_wf_mem. cbn [dmem set_dmem]. eapply mem_ok_provision; eauto.
Qed.
Lemma dec_new_pdu_wf s : dstate_wf s -> dstate_wf (fst (dec_new_pdu s)) /\ dlast (fst (dec_new_pdu s)) = dlast s.
Proof.
  intro Hs. unfold dec_new_pdu, new_pdu. destruct (storages (dmem s)) as [|b t0] eqn:E; cbn [fst]; (split; [|reflexivity]).
  - apply dstate_wf_mem. cbn [dmem set_dmem]. exact Hs.
  - apply dstate_wf_mem; cbn [dmem set_dmem]. destruct Hs as ((Hf & Hc) & Hb & Hsl).
    rewrite E in Hb, Hc. inversion Hb; subst. rewrite lenN_cons in Hc.
    apply mem_ok_set_storages; [split; [split|split]; try assumption; rewrite E; [rewrite lenN_cons; lia|constructor; assumption]|lia|assumption].
Qed.
