#!/usr/bin/env python3
"""(Re)generate /verif/MANIFEST.json from the table below. Run after adding a property to tools/oracles.py."""
import json, os, sys
ROOT = os.path.dirname(os.path.dirname(os.path.abspath(__file__)))
sys.path.insert(0, os.path.join(ROOT, "tools"))
import oracles as OR

NOTE = ("Trusted base: Coq 8.16.1 kernel (vm_compute for finite sweeps, no native_compute); no axioms (Print Assumptions "
        "checked on every run, together with a scan for Admitted/admit/Axiom/Parameter/...); translator tools/gen_consts.py "
        "(constants, CRC table, H-LEN arms); extraction with ExtrOcamlBasic only; ocaml/driver.ml, harness/src/main.rs and the "
        "Python orchestration. The control flow of the crate is modelled by hand (coq/model/*.v) and tied to /repo's working tree "
        "on every run by differential correspondence: the Rust executor and the OCaml-extracted model run the same generated case "
        "files and every observation line is compared. Modelling assumptions: usize unbounded, Vec::with_capacity exact, "
        "allocation never fails, user trait implementations are pure. See DESIGN.md section 4.")

TEXT = {
 "C14": ("Kernel-checked theorems over all 65536 header words and all (kind, label type, length) triples (finite sweep by vm_compute lifted with forallb_forall; masks come from the generated Consts.v). The tie to the code is exhaustive: every run compares read_gse_header on all 65536 words and generate_gse_header on all 16x4096 triples between /repo and the extracted model, and evaluates the property directly on the implementation.",
         "Coq proof (finite sweep lifted by forallb_forall) + exhaustive model/code correspondence"),
 "C12": ("Theorems for all byte strings of any length: DefaultCrc never panics and equals the CRC-32/MPEG-2 specification (register xor byte<<24, eight shift steps with polynomial 0x04C11DB7, init 0xFFFFFFFF, no reflection, no final xor) of total_length|protocol_type|label|pdu; the 256 table entries generated from /repo/src/crc.rs are proved equal to 8 shift steps by a finite sweep; linearity lemmas of the LFSR step are proved by bit-level reasoning. The standard check value 0x0376E6E7 of '123456789' is an Example. Correspondence: CRC family (every table index at three positions, random strings up to 70000 bytes) + context CRC / trailer of fragmented sends against an independent bitwise CRC in Python.",
         "Coq proof (table = 8 LFSR steps by finite sweep; fold induction over unbounded strings) + differential correspondence"),
 "C09": ("Theorems for encap, encap_frag and both previews, for all PDUs, buffers, contexts and every encapsulator state reachable through the API (unbounded lengths and histories): the model returns Ret (no Panic), on Err the state and buffer are unchanged, the listed inputs are rejected. Proved from the closed-form lemma encap_spec (statement-by-statement model = panic-free description). encap_ext's totality/atomicity is decided by correspondence and the oracle only until its closed form is proved (stated in DESIGN.md).",
         "Coq proof (symbolic execution of the monadic model into a closed form, then case analysis) + differential correspondence"),
 "C11": ("Theorems over arbitrary buffer schedules (induction over the schedule list, no bound): the first-fragment context equals the payload carried; each continuation is the end packet or carries k >= 1 bytes with the context advanced by k; the emitted packets form a train of consecutive slices whose concatenation is the PDU; schedules of buffers >= 7 bytes finish within remaining+1 calls; useless buffers are rejected.",
         "Coq proof (induction over buffer schedules on the closed form of encap_frag) + differential correspondence"),
 "C06": ("Theorems for encap and encap_frag: for every Ok result the first n bytes are exactly the ETSI layout (header word as S*2^15+E*2^14+LT*2^12+(n-2), fields in order, total length = 2+label+PDU), n <= buffer length, n <= 4097, bytes from n on untouched, buffer length preserved. encap_ext packets are decided by correspondence + the independent Python parser until the encap_ext closed form is proved.",
         "Coq proof (closed form of the writers + arithmetic header layout) + differential correspondence + independent parser oracle"),
 "C18": ("Theorems: encap_preview equals the projection (kind, packet length, error) of encap whenever no re-use substitution applies, and encap_frag_preview equals the projection (kind, payload length, packet length, error) of encap_frag, for all inputs; previews are pure functions (no state/buffer output by type).",
         "Coq proof (both closed forms compared guard by guard) + differential correspondence"),
 "C15": ("Theorems over unbounded histories of calls (successful and failed encap, reset, disable, enable, enable-with-max): a ghost history (label of the preceding emitted packet, substitutions since the last full label) and an invariant proved by induction over the operation list give the four clauses: no substitution while disabled, substitution only for the label carried by the immediately preceding packet (hence never after reset/broadcast), at most N substitutions per run with max N. c15_link ties the abstract step to the model's encap (state and label type written).",
         "Coq proof (invariant by induction over operation histories) + differential correspondence"),
 "C17": ("Theorems for every sequence of the five memory operations on a new memory with any number of slots (including zero): no panic, well-formedness preserved (induction over the operation list); each operation is characterised exactly on the free list and the slot map (provision hands back the same buffer iff full or too small; new_pdu fails iff no buffer is free; new_frag steals the slot's buffer or takes a free one; take_frag returns the saved context iff its frag id matches and otherwise leaves the memory unchanged; save_frag into an occupied slot is refused); take-after-save returns exactly what was saved. Buffers are values moved as a whole, so contents cannot change. Correspondence: exhaustive operation sequences to depth 4/5 plus random sequences, state observed after every operation; a Python bag-plus-slots contract is evaluated on the implementation.",
         "Coq proof (characterisation of each operation + induction over operation sequences) + exhaustive bounded-depth correspondence"),
 "C05": ("Theorems: from every state reachable through the public API (any history of decap / provision / new_pdu / reset calls on a memory with any number of slots, induction over the call list) and for every byte buffer, decap returns Ok or Err (the model's explicit Panic outcome and fuel exhaustion of the extension walker are proved unreachable), the state stays well formed, consumed <= buffer length, and consumed >= min(2, length) for non-empty buffers; the peek function is total. Proved from decap_spec: the statement-by-statement model equals the closed form decap_hl. Correspondence: DEC family plus all 0..2-byte buffers and every header word with adversarial tails.",
         "Coq proof (closed form of decap by symbolic execution; invariant by induction over call histories; walker termination by a decreasing measure) + differential correspondence"),
 "C08": ("Theorems for the bundled memory: each decap call (any bytes, any well-formed state) conserves buffer identities -- identities in the free list and slots after the call plus the buffer handed out in the result (completed PDU or the buffer inside an error value) are a permutation of those before; over unbounded histories of decap / provision-new / provision-back / new_pdu / reset the buffers held by memory and caller are a permutation of those ever provisioned (no leak), and NoDup is preserved (no duplication). Proved from the closed form of decap and Permutation lemmas on the slot update; the proof also shows save_frag is never called on an occupied slot. Foreign GseDecapMemory implementations are outside (stated in DESIGN.md section 5).",
         "Coq proof (Permutation invariant by induction over call histories, from the closed form of decap) + differential correspondence + multiset oracle"),
 "C01": ("Theorems: for every PDU, label, protocol type >= 0x600 and buffer for which encap reports Completed(n), every well-formed receiver state whose next free buffer can hold the PDU and which can resolve the label as written, and every tail, decap of the n bytes (+ tail) returns CompletedPkt with exactly the PDU bytes (rest of the storage buffer unchanged), length, protocol type, resolved label, consumes n, and leaves the stated state; encap must complete whenever label-as-written + PDU fit 4095 and the buffer. Proved by composing the closed forms of encap and decap (parsing lemmas for the packet builder).",
         "Coq proof (composition of the sender and receiver closed forms) + differential correspondence"),
 "C02": ("Theorems for every PDU up to the 16-bit total length and every schedule of output buffers (induction over the schedule and over the produced train, no bound): the sender's run produces a first fragment and a continuation train; fed in order to any well-formed receiver (free buffer or occupied slot, storage >= PDU, label resolvable) every packet but the last yields FragmentedPkt with the PDU's label and protocol type, the last yields CompletedPkt with the PDU bytes, length, protocol type and label, each consuming exactly the reported length; buffers >= 13 bytes are never rejected and enough of them complete; the effect of each buffer is a function of its size (c02_schedule). crc is any function with 32-bit results.",
         "Coq proof (slot invariant by induction over the fragment train; schedule induction) + differential correspondence"),
 "C10": ("Theorems: for every well-framed packet (own length = GSE length + 2, per-kind minimum sizes, extension chain inside the packet, first fragment announcing more than it carries), every receiver state and every tail, decap(packet ++ tail) = decap(packet) -- same new state, same status or error, whatever the outcome -- and it consumes exactly the packet length; walking a frame of well-framed packets followed by m zero bytes (m = 0 or m >= 2) by consumed lengths yields the outcomes of the packets decapsulated alone in sequence, then Padding consuming m (induction over the packet list, any number of packets); every packet emitted by encap / encap_frag is well framed for every manager and never reads as padding. Extension packets of encap_ext: correspondence + twin-case oracle (frame walk vs packets alone).",
         "Coq proof (tail independence from the closed form of decap; induction over the packet list of a frame) + differential correspondence + twin-case oracle"),
 "C19": ("Theorems: for every start/complete packet produced by encap followed by any tail, the peek function returns the label as written (3-byte, 6-byte, broadcast) or the re-use error when the label was replaced; for every packet produced by encap_frag it returns the fragment id, which is the id the closed form of decap looks up. The lemma peek_start is stated for any 2-byte value in the protocol-type position and any bytes after the label, so it covers extension packets; encap_ext packets themselves are decided by correspondence + oracle until the encap_ext closed form is proved.",
         "Coq proof (evaluation of the peek model on the packet builders) + differential correspondence"),
}

def main():
    m = {"version": 1, "setup_cmd": "./setup.sh",
         "hooks": {"guard": "dvb_gse_rust_verif", "enable": "none needed: no hook exists in /repo (state is observed through the public API, Debug/Clone and prefix replays)",
                   "baseline_off_cmd": "cd /repo && cargo test --workspace --no-fail-fast --offline", "source_commits": [], "add_only": True},
         "engines": [{"name": "coq-proof+correspondence", "path": "check", "serves_properties": sorted(TEXT),
                      "kind_free_text": "Coq 8.16.1 theorems over a hand-written Gallina model; model tied to /repo by translator (constants/tables) and differential correspondence (Rust executor vs OCaml-extracted model on generated case files); property oracles on the implementation for replays"}],
         "checks": [], "not_applicable": [],
         "notes": "known_findings.txt lists 17 defects repaired by fix: commits in /repo; their witnesses are replayed by every check of the properties they concern."}
    ids = [json.loads(l)["id"] for l in open(os.path.join(ROOT, "properties.jsonl"))]
    for pid in ids:
        if pid in TEXT and pid in OR.PROPS:
            text, tech = TEXT[pid]
            m["checks"].append({"property_id": pid, "quick_cmd": "./check %s" % pid, "thorough_cmd": "VERIF_TIER=thorough ./check %s" % pid,
                                "evidence_file": "evidence/%s.json" % pid, "replay_cmd_template": "./check replay %s {path}" % pid,
                                "engine": "coq-proof+correspondence",
                                "level_claimed": {"category": "proof", "text": text, "design_ref": "DESIGN.md section 6, %s" % pid},
                                "level_note": NOTE, "technique": tech})
        else:
            m["not_applicable"].append({"property_id": pid, "reason": "not claimed yet: the Coq theorems for this property are still being built (model and correspondence already cover the code involved); see DESIGN.md section 9"})
    json.dump(m, open(os.path.join(ROOT, "MANIFEST.json"), "w"), indent=1)
    print("MANIFEST: %d checks, %d not claimed" % (len(m["checks"]), len(m["not_applicable"])))

main()
