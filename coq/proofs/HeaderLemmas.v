(* Header codec: finite sweeps lifted to universally quantified statements. *)
Require Import GSE.gen.Consts GSE.model.Base GSE.model.Types GSE.model.Header GSE.proofs.Tactics.
Open Scope N_scope.

Definition Nrange (n : N) : list N := N.recursion [] (fun i l => i :: l) n.
Lemma Nrange_In n w : In w (Nrange n) <-> w < n.
Proof.
  unfold Nrange. induction n as [|n IH] using N.peano_ind.
  - rewrite N.recursion_0. cbn. lia.
  - rewrite N.recursion_succ by (try reflexivity; intros ? ? -> ? ? ->; reflexivity).
    cbn [In]. rewrite IH. lia.
Qed.

Definition all_kinds := [KComplete; KFirst; KInter; KEnd].
Definition all_ltypes := [T6; T3; TB; TR].
Lemma all_kinds_In k : In k all_kinds. Proof. destruct k; cbn; tauto. Qed.
Lemma all_ltypes_In t : In t all_ltypes. Proof. destruct t; cbn; tauto. Qed.

(* start/end bits and label-type bits as numbers (ETSI TS 102 606: S = bit 15, E = bit 14, LT = bits 13..12) *)
Definition se_num (k : kind) : N := match k with KComplete => 3 | KFirst => 2 | KEnd => 1 | KInter => 0 end.
Definition lt_num (t : ltype) : N := match t with T6 => 0 | T3 => 1 | TB => 2 | TR => 3 end.
Definition hdr_arith (k : kind) (t : ltype) (len : N) : N := se_num k * 16384 + lt_num t * 4096 + len.

(* ---- sweep 1: every 16-bit word ---- *)
Definition read_okb (w : N) : bool :=
  match read_hdr w with
  | Panic => false
  | Ret None => w / 4096 =? 0
  | Ret (Some (len, k, t)) => negb (w / 4096 =? 0) && (gen_hdr k t len =? w) && (len <? 4096)
                              && (hdr_arith k t len =? w)
  end.
Lemma read_sweep : forallb read_okb (Nrange 65536) = true.
Proof. vm_compute. reflexivity. Qed.

Lemma read_hdr_cases w : w < 65536 ->
  (read_hdr w = Ret None /\ w / 4096 = 0) \/
  (exists len k t, read_hdr w = Ret (Some (len, k, t)) /\ w / 4096 <> 0 /\ gen_hdr k t len = w
                   /\ len < 4096 /\ hdr_arith k t len = w).
Proof.
  intro H. pose proof read_sweep as S. rewrite forallb_forall in S.
  specialize (S w (proj2 (Nrange_In _ _) H)). unfold read_okb in S.
  destruct (read_hdr w) as [[[[len k] t]|]|]; [right|left|discriminate].
  - exists len, k, t. repeat (apply andb_prop in S as [S ?]).
    repeat split; try reflexivity; try (apply N.eqb_eq; assumption); try (apply N.ltb_lt; assumption).
    intro E. rewrite E in S. discriminate.
  - split; [reflexivity|]. now apply N.eqb_eq.
Qed.

(* ---- sweep 2: every (kind, label type, 12-bit length) ---- *)
Definition gen_okb (k : kind) (t : ltype) (len : N) : bool :=
  (gen_hdr k t len =? hdr_arith k t len) &&
  match k, t with
  | KInter, T6 => match read_hdr (gen_hdr k t len) with Ret None => true | _ => false end
  | _, _ => match read_hdr (gen_hdr k t len) with
            | Ret (Some (len', k', t')) => (len' =? len) && kind_eqb k' k && ltype_eqb t' t
            | _ => false end
  end.
Lemma gen_sweep :
  forallb (fun k => forallb (fun t => forallb (gen_okb k t) (Nrange 4096)) all_ltypes) all_kinds = true.
Proof. vm_compute. reflexivity. Qed.

Lemma gen_okb_all k t len : len < 4096 -> gen_okb k t len = true.
Proof.
  intro H. pose proof gen_sweep as S. rewrite forallb_forall in S.
  specialize (S k (all_kinds_In k)). rewrite forallb_forall in S.
  specialize (S t (all_ltypes_In t)). rewrite forallb_forall in S.
  apply S. now apply Nrange_In.
Qed.

Lemma kind_eqb_eq a b : kind_eqb a b = true -> a = b.
Proof. destruct a, b; cbn; congruence. Qed.
Lemma ltype_eqb_eq a b : ltype_eqb a b = true -> a = b.
Proof. destruct a, b; cbn; congruence. Qed.

Lemma gen_hdr_arith k t len : len < 4096 -> gen_hdr k t len = hdr_arith k t len.
Proof. intro H. pose proof (gen_okb_all k t len H) as S. unfold gen_okb in S.
  apply andb_prop in S as [S _]. now apply N.eqb_eq. Qed.

Lemma read_gen k t len : len < 4096 -> ~ (k = KInter /\ t = T6) ->
  read_hdr (gen_hdr k t len) = Ret (Some (len, k, t)).
Proof.
  intros H NP. pose proof (gen_okb_all k t len H) as S. unfold gen_okb in S.
  apply andb_prop in S as [_ S].
  assert (X : match read_hdr (gen_hdr k t len) with
              | Ret (Some (len', k', t')) => (len' =? len) && kind_eqb k' k && ltype_eqb t' t
              | _ => false end = true).
  { destruct k, t; try exact S. exfalso. apply NP. split; reflexivity. }
  destruct (read_hdr (gen_hdr k t len)) as [[[[len' k'] t']|]|]; try discriminate.
  apply andb_prop in X as [X X3]. apply andb_prop in X as [X1 X2].
  apply N.eqb_eq in X1. apply kind_eqb_eq in X2. apply ltype_eqb_eq in X3. now subst.
Qed.

Lemma read_gen_padding len : len < 4096 -> read_hdr (gen_hdr KInter T6 len) = Ret None.
Proof.
  intro H. pose proof (gen_okb_all KInter T6 len H) as S. unfold gen_okb in S.
  apply andb_prop in S as [_ S]. destruct (read_hdr (gen_hdr KInter T6 len)) as [[x|]|]; try discriminate. reflexivity.
Qed.

(* the u16 length argument is masked to 12 bits *)
Lemma gen_hdr_mod k t len : gen_hdr k t len = gen_hdr k t (len mod 4096).
Proof.
  unfold gen_hdr. f_equal. change GSE_LEN_MASK with (N.ones 12).
  rewrite !N.land_ones. change (2 ^ 12) with 4096. now rewrite N.mod_mod by discriminate.
Qed.

Lemma hdr_arith_lt k t len : len < 4096 -> hdr_arith k t len < 65536.
Proof. unfold hdr_arith. destruct k, t; cbn [se_num lt_num]; lia. Qed.
Lemma gen_hdr_lt k t len : gen_hdr k t len < 65536.
Proof. rewrite gen_hdr_mod, gen_hdr_arith by (apply N.mod_lt; discriminate).
  apply hdr_arith_lt. apply N.mod_lt; discriminate. Qed.
